"""C19 -- generic MEIO search (meio_general.py, optimization.golden_section_search):
correspondence of Alg/Enum.v, Alg/Golden.v (binary64, bit for bit), Alg/CoordDesc.v with the implementation,
plus oracles on the implementation (brute force over the grid, documented grids, box / cost / slack checks).

Case kinds: 'enum' (meio_by_enumeration), 'tad' (truncate_and_discretize), 'groups' (_base_stock_group_assignments),
'simseed' (simulation-based enumeration: seed handling, incl. sim_rand_seed=0), 'golden' (golden_section_search), 'cd' (meio_by_coordinate_descent), 'simobj' (simulation / SSM objectives, oracle only),
'simopt' (built-in simulation objective of enumeration and coordinate descent on base-stock and echelon base-stock networks, oracle only).
All numbers in a case are JSON-native: rationals as 'p/q' strings, binary64 values as float.hex() strings."""
import copy, io, itertools, math, contextlib
from fractions import Fraction
from vlib import *

RULE = ('enum: serial networks with 1..4 nodes (random index sets and orders), groups None or disjoint sets, grids explicit / (lo,hi,step) / '
        '(lo,hi,num) / defaults as singleton, dict or list, objectives = expression trees (separable and coupled quadratics, piecewise-linear, '
        'plateaus, constants) with coefficients k/4 (exact regime), at their own magnitude or (38%) with a fixed-cost term +-K, K in 1e4..1e9 / 2^20..2^30, and/or a scale 2^-10..2^-40 '
        '(still exact in binary64; distinct costs on the grid then differ by less than 1e-5 of their size or less than 1e-8); tad: every argument combination incl. truncation_hi=0, negative lo, '
        'step 0 / negative / larger than the range, hi<lo, inexact decimal steps; groups: disjoint and overlapping sets; golden: intervals '
        '(also with a > b, of zero width, or narrower than tol in either orientation), tol 1e-2..1e-8, unimodal functions ((x-c)^2 forms, expanded quadratics, |x-c|, asymmetric '
        'piecewise-linear, K/x+hx, linear) with arbitrary binary64 coefficients; cd: boxes (some given as (upper, lower) end), convex quadratics / piecewise-linear, groups, '
        'start inside or outside the box (per group), or initial_solution omitted (documented default: total mean demand), search_lo / search_hi omitted (0 / 3*lead time*mean demand), '
        'single-point ranges search_lo == search_hi for some or all groups (30% of the cases) with the start on the point or elsewhere; simseed: simulation-based meio_by_enumeration on 1..3-node serial systems, tiny grids, sim_rand_seed 0 and non-zero, '
        'and fine grids (5..9 levels with a dyadic step 2^-12..2^-30, in increasing or arbitrary order) on which neighbouring costs differ by a tiny fraction of the cost, '
        'without groups and (at least every other case) with a group of two nodes, arbitrary levels on the network before the call, each call '
        'twice from different global RNG states, against an independent seeded re-simulation of every grid vector; simopt: the built-in simulation objective (objective_function omitted) of coordinate descent '
        'and enumeration on 2..3-node serial systems with base-stock (BS) and echelon base-stock (EBS) policies, seed 0 / non-zero, 1-2 trials of 15-20 periods (quick), '
        'groups none or a pair, start given or omitted, levels on the network before the call different from every candidate: reported cost = independent seeded '
        'simulation at the returned vector (EBS: vector read as the policies\' own levels or as local levels), no better grid vector / inside the box and no worse than '
        'the start within (#groups)*(sum of cost rates)*line_search_tol/2 + 1%; enum and cd (20% of the cases each): the same call repeated with print_solutions / '
        'progress_bar / verbose switched on must return exactly the silent result. non-trivial = enum: grid has >1 vector and the objective is not constant on it; tad: >1 grid point; '
        'groups: at least one set of size>1; golden: the loop runs (n>=2); cd: more than one sweep or more than one group. '
        'distinct = distinct case contents.')

EPS = 2.0 ** -52

# ------------------------------------------------------------------------------------------------------------
# encoding helpers

def enc(x):
    x = F(x)
    return int(x) if x.denominator == 1 else '%d/%d' % (x.numerator, x.denominator)


def dec(x):
    if isinstance(x, str):
        return Fraction(x)
    if isinstance(x, float):
        return Fraction(x)
    return Fraction(int(x))


def decopt(x):
    return None if x is None else dec(x)


def pyval(x):
    """python number handed to the implementation: int when integral (as users write it), float otherwise"""
    x = dec(x)
    return int(x) if x.denominator == 1 else float(x)


def cfloat(x):
    """Coq literal of a binary64 value"""
    x = float(x)
    assert x == x and abs(x) != math.inf
    return '(%s)%%float' % x.hex()


def fobs_py(x):
    """(kind, sign, mantissa, exponent) exactly as Golden.fobs prints it"""
    x = float(x)
    if x != x: return (2, False, 0, 0)
    s = math.copysign(1.0, x) < 0
    if x == 0: return (0, s, 0, 0)
    if abs(x) == math.inf: return (1, s, 0, 0)
    m, e = math.frexp(abs(x))
    mi = int(m * 2 ** 53); ei = e - 53
    if ei < -1074:                     # subnormal: Prim2SF keeps the minimal exponent
        sh = -1074 - ei; mi >>= sh; ei = -1074
    else:
        pass
    return (3, s, mi, ei)


def norm_fobs(t):
    """normalise (kind, sign, m, e) so that m is odd or e minimal -- both sides are normalised the same way"""
    k, s, m, e = t
    if k != 3: return (k, bool(s), 0, 0)
    while m % 2 == 0 and m > 0:
        m //= 2; e += 1
    return (3, bool(s), m, e)

# ------------------------------------------------------------------------------------------------------------
# objective expression trees (Alg.Enum.oexpr):  ['c', q] ['v', i] ['add', a, b] ['sub', a, b] ['mul', a, b] ['abs', a] ['max', a, b] ['min', a, b]

def oe_eval(e, s, num=Fraction):
    t = e[0]
    if t == 'c': return num(dec(e[1])) if num is Fraction else float(dec(e[1]))
    if t == 'v': return s[e[1]]
    if t == 'abs':
        v = oe_eval(e[1], s, num); return -v if v < 0 else v
    a = oe_eval(e[1], s, num); b = oe_eval(e[2], s, num)
    if t == 'add': return a + b
    if t == 'sub': return a - b
    if t == 'mul': return a * b
    if t == 'max': return b if a <= b else a
    if t == 'min': return a if a <= b else b
    raise ValueError(t)


def oe_coq(e):
    t = e[0]
    if t == 'c': return '(OC %s)' % cq(dec(e[1]))
    if t == 'v': return '(OV %s)' % cnat(e[1])
    if t == 'abs': return '(OAbs %s)' % oe_coq(e[1])
    return '(%s %s %s)' % ({'add': 'OAdd', 'sub': 'OSub', 'mul': 'OMul', 'max': 'OMax', 'min': 'OMin'}[t], oe_coq(e[1]), oe_coq(e[2]))


def oe_bounds(e, box, grp):
    """(lo, hi, L): value interval over the box and a Lipschitz constant w.r.t. moving all coordinates in grp together"""
    t = e[0]
    if t == 'c':
        v = dec(e[1]); return (v, v, Fraction(0))
    if t == 'v':
        return (box[e[1]][0], box[e[1]][1], Fraction(1 if e[1] in grp else 0))
    if t == 'abs':
        lo, hi, L = oe_bounds(e[1], box, grp); m = max(abs(lo), abs(hi))
        return (Fraction(0) if lo <= 0 <= hi else min(abs(lo), abs(hi)), m, L)
    a = oe_bounds(e[1], box, grp); b = oe_bounds(e[2], box, grp)
    if t == 'add': return (a[0] + b[0], a[1] + b[1], a[2] + b[2])
    if t == 'sub': return (a[0] - b[1], a[1] - b[0], a[2] + b[2])
    if t == 'mul':
        ps = [a[0] * b[0], a[0] * b[1], a[1] * b[0], a[1] * b[1]]
        return (min(ps), max(ps), a[2] * max(abs(b[0]), abs(b[1])) + b[2] * max(abs(a[0]), abs(a[1])))
    if t == 'max': return (max(a[0], b[0]), max(a[1], b[1]), max(a[2], b[2]))
    if t == 'min': return (min(a[0], b[0]), min(a[1], b[1]), max(a[2], b[2]))
    raise ValueError(t)


def C(x): return ['c', enc(x)]
def V(i): return ['v', i]
def ADD(*xs):
    r = xs[0]
    for x in xs[1:]: r = ['add', r, x]
    return r
def SUB(a, b): return ['sub', a, b]
def MUL(a, b): return ['mul', a, b]
def SQ(a): return ['mul', a, a]


def gen_obj(rng, n, convex=False):
    """random objective over variables 0..n-1; returns (kind, expr)"""
    q = lambda lo, hi: Fraction(rng.randint(lo * 4, hi * 4), 4)
    kinds = ['sepquad', 'coupquad', 'pl', 'newsv', 'plateau'] + ([] if convex else ['const', 'indef'])
    kind = rng.choice(kinds)
    cs = [q(-2, 12) for _ in range(n)]
    if kind == 'const':
        return kind, C(q(0, 9))
    if kind == 'sepquad':
        return kind, ADD(*[MUL(C(q(0, 3) if rng.random() < 0.85 else 0), SQ(SUB(V(i), C(cs[i])))) for i in range(n)], C(q(0, 5)))
    if kind in ('coupquad', 'indef'):
        terms = []
        for i in range(n):
            diag = q(1, 4) + (n if kind == 'coupquad' else 0)
            terms.append(MUL(C(diag if kind == 'coupquad' else q(-2, 3)), SQ(SUB(V(i), C(cs[i])))))
        for i in range(n):
            for j in range(i + 1, n):
                if rng.random() < 0.7:
                    terms.append(MUL(C(q(-1, 1)), MUL(SUB(V(i), C(cs[i])), SUB(V(j), C(cs[j])))))   # |b_ij| <= 1 < diag/(n-1): convex
        return kind, ADD(*terms)
    if kind == 'pl':
        terms = []
        for _ in range(rng.randint(1, 3)):
            lin = ADD(*[MUL(C(rng.choice([0, 1, 1, -1, Fraction(1, 2), 2])), V(i)) for i in range(n)])
            terms.append(MUL(C(q(0, 3)), ['abs', SUB(lin, C(q(-3, 15)))]))
        terms += [MUL(C(Fraction(rng.randint(0, 4), 4)), ['abs', SUB(V(i), C(cs[i]))]) for i in range(n)]
        return kind, ADD(*terms)
    if kind == 'newsv':
        terms = []
        for i in range(n):
            h = q(0, 3); p = q(1, 9)
            terms.append(ADD(MUL(C(h), ['max', SUB(V(i), C(cs[i])), C(0)]), MUL(C(p), ['max', SUB(C(cs[i]), V(i)), C(0)])))
        if n > 1:   # echelon-like coupling: shortage of the sum
            terms.append(MUL(C(q(0, 4)), ['max', SUB(C(sum(cs)), ADD(*[V(i) for i in range(n)])), C(0)]))
        return kind, ADD(*terms)
    if kind == 'plateau':   # max(convex, const): flat bottom => many ties
        _, base = gen_obj(rng, n, convex=True) if rng.random() < 0.5 else ('sepquad', ADD(*[SQ(SUB(V(i), C(cs[i]))) for i in range(n)]))
        return kind, ['max', base, C(q(0, 20))]
    raise ValueError(kind)


OFFSETS = [10 ** 4, 10 ** 5, 250000, 10 ** 6, 2 * 10 ** 6, 2 ** 20, 10 ** 7, 2 ** 24, 10 ** 8, 10 ** 9, 2 ** 30]


def gen_magnitude(rng, obj):
    """the same objective at another magnitude, still computed exactly in binary64 (all values are multiples of 2^-6 below 2^21 before
    the change): a large fixed-cost term +-K (neighbouring grid vectors then differ by a tiny fraction of the cost), a power-of-two
    scale 2^-k (all costs and differences tiny in absolute terms), or both.  'no grid vector has lower objective' is about the exact
    order of the objective values, whatever their size; returns (tag, expr)"""
    u = rng.random()
    if u < 0.62: return 'plain', obj
    K = rng.choice(OFFSETS) * rng.choice([1, 1, 1, -1])
    sc = Fraction(1, 2 ** rng.choice([10, 20, 27, 30, 40]))
    off = lambda e: ADD(e, C(K)) if rng.random() < 0.5 else ADD(C(K), e)
    if u < 0.86: return ('offset+' if K > 0 else 'offset-'), off(obj)
    if u < 0.93: return 'scaled', MUL(C(sc), obj)
    return 'offset-scaled', MUL(C(sc), off(obj))

# ------------------------------------------------------------------------------------------------------------
# networks, groups

def make_network(nodes, mean=5, sd=1, lead_times=None, policy='BS'):
    from stockpyl.supply_chain_network import serial_system
    n = len(nodes)
    net = serial_system(num_nodes=n, node_order_in_system=list(nodes), local_holding_cost=[1] * n,
                        shipment_lead_time=lead_times or [1] * n, stockout_cost=[0] * (n - 1) + [10],
                        demand_type='N', mean=mean, standard_deviation=sd, policy_type=policy, base_stock_level=[mean] * n)
    return net


def gen_nodes(rng, nmax=4):
    n = rng.choice([1, 2, 2, 3, 3, 4][:2 + 2 * (nmax - 1) // 1] if nmax < 4 else [1, 2, 2, 3, 3, 4])
    pool = rng.choice([list(range(1, 6)), list(range(0, 10)), [1, 2, 3, 8, 9, 16, 17, 24, 33]])
    return rng.sample(pool, n)


def gen_groups(rng, nodes, overlapping=False):
    if rng.random() < 0.4 or len(nodes) == 1 and rng.random() < 0.7:
        return None
    pool = list(nodes); rng.shuffle(pool); gs = []
    while pool and rng.random() < 0.75:
        k = rng.randint(1, min(3, len(pool)))
        gs.append(sorted(pool[:k])); pool = pool[k:]
    if overlapping and gs and len(nodes) > 1:
        g = list(gs[rng.randrange(len(gs))]); extra = rng.choice(nodes)
        gs.insert(rng.randrange(len(gs) + 1), sorted(set(g[:1] + [extra])))
    return gs


def doc_opt_group(nodes, groups):
    """documented assignment for pairwise disjoint sets: members get the set's minimum, others their own index"""
    og = {}
    for n in nodes:
        og[n] = n
        for g in groups or []:
            if n in g: og[n] = min(g)
    return og


def py_groups(groups): return None if groups is None else [set(g) for g in groups]
def coq_groups(groups):
    return 'None' if groups is None else '(Some %s)' % clist([clist([cnat(x) for x in g]) for g in groups])


def arg_form(rng, per_node, nodes, allow_none_entries=False):
    """per_node: {node: value-or-None}.  Returns ['none'] | ['one', v] | ['dict', {node: v}] | ['list', [v...]]"""
    vals = [per_node[n] for n in nodes]
    if all(v is None for v in vals) and rng.random() < 0.7: return ['none']
    if all(v == vals[0] for v in vals) and vals[0] is not None and rng.random() < 0.6: return ['one', vals[0]]
    if all(v is not None for v in vals) and rng.random() < 0.3: return ['list', vals]
    return ['dict', {str(n): per_node[n] for n in nodes}]


def py_arg(a, conv=pyval):
    if a[0] == 'none': return None
    if a[0] == 'one': return conv(a[1])
    if a[0] == 'list': return [conv(v) for v in a[1]]
    return {int(k): (None if v is None else conv(v)) for k, v in a[1].items()}


def coq_arg(a, nodes, lit=lambda v: cq(dec(v))):
    if a[0] == 'none': return 'ANone'
    if a[0] == 'one': return '(AOne %s)' % lit(a[1])
    if a[0] == 'list': return '(APer %s)' % clist(['(%s, Some %s)' % (cnat(n), lit(v)) for n, v in zip(nodes, a[1])])
    return '(APer %s)' % clist(['(%s, %s)' % (cnat(int(k)), 'None' if v is None else 'Some %s' % lit(v)) for k, v in a[1].items()])


def arg_get(a, nodes, n):
    if a[0] == 'none': return None
    if a[0] == 'one': return a[1]
    if a[0] == 'list': return a[1][nodes.index(n)]
    return a[1].get(str(n))

# ------------------------------------------------------------------------------------------------------------
# documented grids (oracle): exact rationals

def doc_grid(lo, hi, step, num):
    """documented grid of one node, or None when the arguments are outside the documented domain"""
    lo = Fraction(0) if lo is None else dec(lo); hi = Fraction(100) if hi is None else dec(hi)
    if step is not None:
        s = dec(step)
        if s <= 0 or hi < lo: return None
        k = (hi - lo) // s
        return [lo + i * s for i in range(int(k) + 1)]
    if num is not None:
        k = int(num)
        if k == 0: return [lo]
        if k < 0 or hi <= lo: return None
        return [lo + i * (hi - lo) / k for i in range(k + 1)]
    if hi < lo: return None
    return [lo + i for i in range(int((hi - lo) // 1) + 1)]

def loud_oracle(fn, c, r):
    """the reporting options (print_solutions / progress_bar / verbose) are documented as display only: same returned vector and cost"""
    loud = r[4] if len(r) > 4 else None
    if loud is None: return []
    what = '+'.join(c['loud']) if isinstance(c['loud'], list) else 'verbose'
    if loud[0] == 'err':
        return [('%s|%s-raises-%s' % (fn, what, loud[1]), 'the call that succeeds silently raises %s with %s switched on: %s' % (loud[1], what, loud[2]))]
    same = set(loud[1]) == set(r[1]) and all(loud[1][k] == r[1][k] for k in r[1]) and (loud[2] == r[2] or (loud[2] != loud[2] and r[2] != r[2]))
    if not same:
        return [('%s|%s-changes-result' % (fn, what), 'silent call returned (%s, %r), the same call with %s returned (%s, %r)'
                 % (jsonable(r[1]), r[2], what, jsonable(loud[1]), loud[2]))]
    return []

# ------------------------------------------------------------------------------------------------------------
# ENUMERATION

def gen_enum(rng, budget):
    nodes = gen_nodes(rng)
    groups = gen_groups(rng, nodes)
    og = doc_opt_group(nodes, groups)
    reps = sorted(set(og.values()))
    nreps = len(reps)
    per = max(1, int(budget ** (1.0 / nreps)))
    mode = rng.choice(['values', 'values', 'step', 'step', 'num', 'mixed', 'default'])
    c = dict(kind='enum', nodes=nodes, groups=groups, bsl=None, lo=['none'], hi=['none'], step=['none'], num=['none'], exact=True)
    q2 = lambda lo, hi: Fraction(rng.randint(lo * 2, hi * 2), 2)
    if mode == 'default' and nreps > 1: mode = 'step'
    if mode == 'values':
        d = {}
        for n in nodes:
            if n in reps or rng.random() < 0.5:
                k = rng.randint(1, min(per, 6))
                vals = [q2(-2, 14) for _ in range(k)]
                if rng.random() < 0.6: vals = sorted(vals)
                d[str(n)] = [enc(v) for v in vals]
            elif rng.random() < 0.5:
                d[str(n)] = None
        c['bsl'] = d
        if rng.random() < 0.3: c['step'] = ['one', enc(7)]        # ignored when values are given
    else:
        lo, hi, st, nu = {}, {}, {}, {}
        for n in nodes:
            m = mode if mode != 'mixed' else rng.choice(['step', 'num', 'default1'])
            l = q2(-3, 10) if rng.random() < 0.8 else None
            if m == 'default':
                lo[n] = None if rng.random() < 0.5 else enc(q2(0, 60)); hi[n] = None if rng.random() < 0.5 else enc((dec(lo[n]) if lo[n] is not None else 0) + rng.randint(0, 60))
                st[n] = None; nu[n] = None; continue
            lv = Fraction(0) if l is None else l
            if m == 'step':
                s = rng.choice([Fraction(1, 2), Fraction(1), Fraction(3, 2), Fraction(2), Fraction(5, 2), Fraction(3), Fraction(1, 4)])
                k = rng.randint(0, min(per, 7) - 1) if per > 1 else 0
                h = lv + k * s + rng.choice([Fraction(0), s / 2, s / 4, Fraction(0)])
                if rng.random() < 0.15 and lv < 0: h = Fraction(0)          # truncation_hi = 0 (used to be replaced by 100)
                lo[n] = None if l is None else enc(l); hi[n] = enc(h); st[n] = enc(s); nu[n] = None if rng.random() < 0.8 else rng.randint(1, 3)
            elif m == 'num':
                k = rng.randint(0, min(per, 6) - 1) if per > 1 else 0
                s = rng.choice([Fraction(1, 2), Fraction(1), Fraction(3, 4), Fraction(2), Fraction(5, 4)])
                h = lv + (k * s if k else rng.choice([Fraction(1), Fraction(3)]))
                lo[n] = None if l is None else enc(l); hi[n] = enc(h); st[n] = None; nu[n] = k
            else:   # default1: step 1 on a short range
                k = rng.randint(0, min(per, 6) - 1) if per > 1 else 0
                lo[n] = None if l is None else enc(l); hi[n] = enc(lv + k + rng.choice([Fraction(0), Fraction(1, 2)])); st[n] = None; nu[n] = None
        c['lo'] = arg_form(rng, lo, nodes); c['hi'] = arg_form(rng, hi, nodes)
        c['step'] = arg_form(rng, st, nodes); c['num'] = arg_form(rng, nu, nodes)
    c['objkind'], c['obj'] = gen_obj(rng, len(nodes))
    c['objmag'], c['obj'] = gen_magnitude(rng, c['obj'])
    if rng.random() < 0.2: c['loud'] = rng.choice([['print'], ['print'], ['bar'], ['print', 'bar']])
    c['mode'] = mode
    return c


def enum_doc_grids(c):
    """documented grid per representative (exact), or None if outside the documented domain"""
    nodes = c['nodes']; og = doc_opt_group(nodes, c['groups']); reps = sorted(set(og.values()))
    grids = {}
    provided = c['bsl'] is not None and any(c['bsl'].get(str(r)) is not None for r in reps)
    for r in reps:
        if provided:
            v = c['bsl'].get(str(r))
            if v is None: return None, og
            grids[r] = [dec(x) for x in v]
        else:
            nu = arg_get(c['num'], nodes, r)
            g = doc_grid(arg_get(c['lo'], nodes, r), arg_get(c['hi'], nodes, r), arg_get(c['step'], nodes, r), nu)
            if g is None: return None, og
            grids[r] = g
    return grids, og


def run_enum_impl(c, objective=None):
    from stockpyl.meio_general import meio_by_enumeration
    nodes = c['nodes']; net = make_network(nodes)
    assert list(net.node_indices) == list(nodes), (net.node_indices, nodes)
    calls = []
    def f(S):
        v = oe_eval(c['obj'], [float(S[n]) for n in nodes], float) if objective is None else objective(S)
        calls.append(({n: S[n] for n in nodes}, v)); return v
    bsl = None if c['bsl'] is None else {int(k): (None if v is None else [pyval(x) for x in v]) for k, v in c['bsl'].items()}
    def call(fn, **kw):
        with contextlib.redirect_stdout(io.StringIO()), contextlib.redirect_stderr(io.StringIO()):
            return meio_by_enumeration(net, base_stock_levels=bsl, truncation_lo=py_arg(c['lo']), truncation_hi=py_arg(c['hi']),
                                       discretization_step=py_arg(c['step']), discretization_num=py_arg(c['num'], int),
                                       groups=py_groups(c['groups']), objective_function=fn, **kw)
    try:
        S, cost = call(f, progress_bar=False)
    except Exception as e:
        return ('err', exc_kind(e), str(e)[:200], calls, None)
    loud = None
    if c.get('loud'):
        # the same call with the reporting options switched on (print_solutions and / or progress_bar): they must not change the result
        g = (lambda S_: oe_eval(c['obj'], [float(S_[n]) for n in nodes], float)) if objective is None else objective
        try:
            S2, cost2 = call(g, progress_bar='bar' in c['loud'], print_solutions='print' in c['loud']); loud = ('ok', S2, cost2)
        except Exception as e:
            loud = ('err', exc_kind(e), str(e)[:200])
    return ('ok', S, cost, calls, loud)


def enum_model_expr(c):
    nodes = c['nodes']; og = doc_opt_group(nodes, c['groups']) if not c.get('overlap') else None
    order = c['order']
    bsl = 'None' if c['bsl'] is None else '(Some %s)' % clist(
        ['(%s, %s)' % (cnat(int(k)), 'None' if v is None else 'Some %s' % cqlist([dec(x) for x in v])) for k, v in c['bsl'].items()])
    return ('option_map (fun r => (map qobs (fst r), qobs (snd r))) (meio_enum %s %s %s %s %s %s %s %s (oeval %s))'
            % (clist([cnat(n) for n in nodes]), coq_groups(c['groups']), clist([cnat(n) for n in order]), bsl,
               coq_arg(c['lo'], nodes), coq_arg(c['hi'], nodes), coq_arg(c['step'], nodes),
               coq_arg(c['num'], nodes, lambda v: cz(int(v))), oe_coq(c['obj'])))


def enum_oracle(c, r, info=None):
    """property monitors on the implementation's own output; info (optional dict) receives 'near_tie': two grid vectors whose distinct
    objective values differ by less than 1e-5 of their size or by less than 1e-8"""
    nodes = c['nodes']; bad = []
    grids, og = enum_doc_grids(c)
    if r[0] == 'err':
        if grids is not None and all(len(g) > 0 for g in grids.values()):
            bad.append(('meio_by_enumeration|raises-%s' % r[1], 'valid input raises %s: %s' % (r[1], r[2])))
        return bad, False
    _, S, cost, calls = r[:4]
    bad += loud_oracle('meio_by_enumeration', c, r)
    if grids is None:
        return bad, False
    lv = {n: F(S[n]) for n in nodes}
    # returns what it evaluated
    hit = [v for (s, v) in calls if all(F(s[n]) == lv[n] for n in nodes)]
    if not hit:
        bad.append(('meio_by_enumeration|returned-vector-never-evaluated', 'returned %s was never passed to the objective' % jsonable(lv)))
    elif not any((v == cost) or (v != v and cost != cost) for v in hit):
        bad.append(('meio_by_enumeration|cost-of-other-vector', 'reported cost %r but the objective returned %r for the returned vector' % (cost, hit[:3])))
    # on the grid, grouped nodes share a level
    for n in nodes:
        if lv[n] not in grids[og[n]]:
            bad.append(('meio_by_enumeration|off-grid', 'node %d level %s not on its documented grid %s' % (n, lv[n], jsonable(grids[og[n]][:12]))))
    for g in c['groups'] or []:
        if len({lv[n] for n in g if n in lv}) > 1:
            bad.append(('meio_by_enumeration|group-levels-differ', 'nodes %s of one group got levels %s' % (g, jsonable([lv[n] for n in g]))))
    # reported cost == objective at the returned vector; no grid vector better
    exact = oe_eval(c['obj'], [lv[n] for n in nodes])
    if F(cost) != exact:
        bad.append(('meio_by_enumeration|cost-not-objective-at-returned', 'reported cost %s, objective at returned vector %s' % (F(cost), exact)))
    reps = sorted(grids)
    best = None; nvec = 0; vals = set()
    for combo in itertools.product(*[grids[r_] for r_ in reps]):
        a = dict(zip(reps, combo)); v = oe_eval(c['obj'], [a[og[n]] for n in nodes]); nvec += 1; vals.add(v)
        if best is None or v < best[0]: best = (v, a)
    if best is not None and best[0] < exact:
        bad.append(('meio_by_enumeration|better-grid-vector-exists', 'grid vector %s has objective %s < %s at the returned vector' % (jsonable(best[1]), best[0], exact)))
    if len(calls) != nvec:
        bad.append(('meio_by_enumeration|evaluation-count', 'objective evaluated %d times, documented grid has %d vectors' % (len(calls), nvec)))
    if info is not None:
        sv = sorted(vals)
        info['near_tie'] = any(w - v <= max(Fraction(1, 10 ** 5) * max(abs(v), abs(w)), Fraction(1, 10 ** 8)) for v, w in zip(sv, sv[1:]))
    return bad, (nvec > 1 and len(vals) > 1)


def set_order(nodes, og):
    return list({og[n] for n in nodes})          # same construction as the implementation's set comprehension


def explore_enum(chk, n, budget, do_model=True):
    cases = [gen_enum(chk.rng, budget) for _ in range(n)]
    for c in cases:
        c['order'] = set_order(c['nodes'], doc_opt_group(c['nodes'], c['groups']))
    impl = [run_enum_impl(c) for c in cases]
    model = coq_eval_sharded('c19e', 'Base.Qx Alg.Enum', '', [enum_model_expr(c) for c in cases], shard=60) if do_model else [None] * n
    for c, r, m in zip(cases, impl, model):
        chk.count('enum:nodes=%d' % len(c['nodes'])); chk.count('enum:mode=%s' % c['mode']); chk.count('enum:obj=%s' % c['objkind']); chk.count('enum:magnitude=%s' % c['objmag']); chk.count('enum:also-run-with=%s' % ('+'.join(c['loud']) if c.get('loud') else 'nothing'))
        chk.count('enum:groups=%s' % ('none' if c['groups'] is None else len(c['groups'])))
        chk.count('enum:set-order-sorted=%s' % (c['order'] == sorted(c['order'])))
        info = {}
        bad, nontriv = enum_oracle(c, r, info)
        chk.count('enum:distinct-costs-within-1e-5-relative-or-1e-8=%s' % info.get('near_tie', 'n/a'))
        for sig, what in bad: chk.fail(sig, what, c)
        if do_model:
            chk.traces += 1
            if r[0] == 'err':
                if m is not None: chk.mismatch('enum: implementation raises %s but model returns %r' % (r[1], m), c)
            elif m is None:
                chk.mismatch('enum: model raises but implementation returned %r' % (jsonable((r[1], r[2])),), c)
            else:
                ml = [qv(x) for x in m[1][0]]; mc = qv(m[1][1])
                il = [F(r[1][k]) for k in c['nodes']]
                if ml != il or mc != F(r[2]):
                    chk.mismatch('enum: model (%s, %s) vs implementation (%s, %s)' % (jsonable(ml), mc, jsonable(il), F(r[2])), c)
        chk.case(c, nontriv)

# ------------------------------------------------------------------------------------------------------------
# TRUNCATE_AND_DISCRETIZE (direct)

def gen_tad(rng):
    nodes = gen_nodes(rng)
    c = dict(kind='tad', nodes=nodes, values=None, lo=['none'], hi=['none'], step=['none'], num=['none'], exact=True, domain=True)
    mode = rng.choice(['values', 'step', 'step', 'num', 'num', 'default', 'mixed', 'weird', 'decimal'])
    c['mode'] = mode
    q2 = lambda lo, hi: Fraction(rng.randint(lo * 2, hi * 2), 2)
    if mode == 'values':
        c['values'] = {str(n): (None if rng.random() < 0.25 else [enc(q2(-5, 20)) for _ in range(rng.randint(0, 5))]) for n in nodes}
        if rng.random() < 0.5: c['lo'] = ['one', enc(1)]; c['step'] = ['one', enc(2)]
        return c
    lo, hi, st, nu = {}, {}, {}, {}
    for n in nodes:
        m = mode if mode not in ('mixed',) else rng.choice(['step', 'num', 'default'])
        l = None if rng.random() < 0.25 else q2(-12, 12)
        lv = Fraction(0) if l is None else l
        lo[n] = None if l is None else enc(l); st[n] = None; nu[n] = None
        if m == 'step':
            s = rng.choice([Fraction(1, 4), Fraction(1, 2), Fraction(1), Fraction(3, 2), Fraction(5), Fraction(7, 2), Fraction(40)])
            h = lv + rng.randint(0, 12) * s + rng.choice([Fraction(0), Fraction(0), s / 2, s / 4, 3 * s / 4])
            if rng.random() < 0.2 and lv <= 0: h = Fraction(0)
            hi[n] = None if (rng.random() < 0.15 and lv <= 100) else enc(h); st[n] = enc(s)
            if rng.random() < 0.2: nu[n] = rng.randint(0, 4)                 # ignored when step is given
        elif m == 'num':
            k = rng.randint(0, 8); s = rng.choice([Fraction(1, 4), Fraction(1), Fraction(3, 2), Fraction(5)])
            dy = k > 0 and lv < 100 and (((100 - lv) / k).denominator & (((100 - lv) / k).denominator - 1)) == 0
            hi[n] = None if (rng.random() < 0.3 and dy) else enc(lv + (k * s if k else 3)); nu[n] = k
        elif m == 'default':
            hi[n] = None if (rng.random() < 0.4 and lv <= 100) else enc(lv + q2(0, 15))
        elif m == 'weird':      # outside the documented domain: model comparison only
            c['domain'] = False
            w = rng.choice(['step0', 'negstep', 'hi<lo-step', 'hi<=lo-num', 'negnum', 'hi<lo-default'])
            if w == 'step0': hi[n] = enc(lv + 3); st[n] = 0
            elif w == 'negstep': hi[n] = enc(lv + rng.randint(0, 6)); st[n] = enc(-q2(1, 4))
            elif w == 'hi<lo-step': hi[n] = enc(lv - q2(1, 6)); st[n] = enc(q2(1, 4))
            elif w == 'hi<=lo-num': hi[n] = enc(lv - rng.randint(0, 3)); nu[n] = rng.randint(1, 4)
            elif w == 'negnum': hi[n] = enc(lv + 4); nu[n] = -rng.randint(1, 3)
            else: hi[n] = enc(lv - q2(1, 6))
        else:                   # decimal: inexact binary64 inputs (tolerance regime)
            c['exact'] = False
            s = rng.choice(['1/10', '1/5', '3/10', '1/3', '7/10', '1/100'])
            l10 = Fraction(rng.randint(-30, 30), 10); lo[n] = enc(l10)
            if rng.random() < 0.5: st[n] = s; hi[n] = enc(l10 + rng.randint(0, 12) * Fraction(s) + rng.choice([0, Fraction(s) / 2]))
            else: nu[n] = rng.randint(1, 7); hi[n] = enc(l10 + Fraction(rng.randint(1, 50), 10))
    c['lo'] = arg_form(rng, lo, nodes); c['hi'] = arg_form(rng, hi, nodes); c['step'] = arg_form(rng, st, nodes); c['num'] = arg_form(rng, nu, nodes)
    return c


def run_tad_impl(c):
    from stockpyl.meio_general import truncate_and_discretize
    vals = None if c['values'] is None else {int(k): (None if v is None else [pyval(x) for x in v]) for k, v in c['values'].items()}
    try:
        r = truncate_and_discretize(list(c['nodes']), vals, py_arg(c['lo']), py_arg(c['hi']), py_arg(c['step']), py_arg(c['num'], int))
        return ('ok', r)
    except Exception as e:
        return ('err', exc_kind(e), str(e)[:200])


def fl(x):
    """the binary64 value the implementation receives for a case number"""
    return F(pyval(x))


def tad_model_expr(c):
    nodes = c['nodes']
    lit = lambda v: cq(fl(v))
    vals = 'None' if c['values'] is None else '(Some %s)' % clist(
        ['(%s, %s)' % (cnat(int(k)), 'None' if v is None else 'Some %s' % cqlist([fl(x) for x in v])) for k, v in c['values'].items()])
    return ('option_map (map (fun kv => (fst kv, option_map (map qobs) (snd kv)))) (tad %s %s %s %s %s %s)'
            % (clist([cnat(n) for n in nodes]), vals, coq_arg(c['lo'], nodes, lit), coq_arg(c['hi'], nodes, lit),
               coq_arg(c['step'], nodes, lit), coq_arg(c['num'], nodes, lambda v: cz(int(v)))))


def near_integer_ratio(c):
    """inexact inputs: is (hi-lo)/step within 1e-9 of an integer (float division may round across it)?"""
    for n in c['nodes']:
        s = arg_get(c['step'], c['nodes'], n)
        if s is None or dec(s) == 0: continue
        lo = arg_get(c['lo'], c['nodes'], n); hi = arg_get(c['hi'], c['nodes'], n)
        ratio = ((fl(hi) if hi is not None else 100) - (fl(lo) if lo is not None else 0)) / fl(s)
        if abs(ratio - round(ratio)) < Fraction(1, 10 ** 9): return True
    return False


def tad_oracle(c, r):
    bad = []; nontriv = False
    if not c['domain']:
        return bad, False
    nodes = c['nodes']
    provided = c['values'] is not None and any(v is not None for v in c['values'].values())
    if r[0] == 'err':
        return [('truncate_and_discretize|raises-%s' % r[1], 'documented argument combination raises %s: %s' % (r[1], r[2]))], False
    out = r[1]
    if provided:
        exp = {int(k): (None if v is None else [dec(x) for x in v]) for k, v in c['values'].items()}
        got = {k: (None if v is None else [F(x) for x in v]) for k, v in out.items()}
        if exp != got: bad.append(('truncate_and_discretize|values-not-returned-unchanged', 'values %s returned as %s' % (jsonable(exp), jsonable(got))))
        return bad, True
    for n in nodes:
        lo = arg_get(c['lo'], nodes, n); hi = arg_get(c['hi'], nodes, n); st = arg_get(c['step'], nodes, n); nu = arg_get(c['num'], nodes, n)
        g = doc_grid(lo, hi, st, nu)
        if g is None: continue
        got = [F(x) for x in out[n]]
        if len(g) > 1: nontriv = True
        ok = (got == g) if c['exact'] else (len(got) == len(g) and all(close(a, b) for a, b in zip(got, g)))
        if not ok:
            feat = 'truncation_hi=0-treated-as-omitted' if (hi is not None and dec(hi) == 0 and got and max(got) > 0) else \
                   ('step-grid' if st is not None else 'num-grid' if nu is not None else 'default-grid')
            bad.append(('truncate_and_discretize|' + feat, 'node %d: lo=%s hi=%s step=%s num=%s gives %d points %s..., documented grid has %d points %s...'
                        % (n, lo, hi, st, nu, len(got), jsonable(got[:6] + got[-2:]), len(g), jsonable(g[:6] + g[-2:]))))
    return bad, nontriv


def explore_tad(chk, n, do_model=True):
    cases = [gen_tad(chk.rng) for _ in range(n)]
    impl = [run_tad_impl(c) for c in cases]
    model = coq_eval_sharded('c19t', 'Base.Qx Alg.Enum', '', [tad_model_expr(c) for c in cases], shard=120) if do_model else [None] * n
    for c, r, m in zip(cases, impl, model):
        chk.count('tad:mode=%s' % c['mode']); chk.count('tad:lo-form=%s' % c['lo'][0]); chk.count('tad:result=%s' % (r[0] if r[0] == 'ok' else r[1]))
        bad, nontriv = tad_oracle(c, r)
        if bad and not c['exact'] and near_integer_ratio(c):
            chk.extra['near_tie_skipped'] = chk.extra.get('near_tie_skipped', 0) + 1; bad = []
        for sig, what in bad: chk.fail(sig, what, c)
        if do_model:
            chk.traces += 1
            if r[0] == 'err':
                if m is not None: chk.mismatch('tad: implementation raises %s, model returns a grid' % r[1], c)
            elif m is None:
                chk.mismatch('tad: model raises, implementation returns %s' % jsonable(r[1]), c)
            else:
                mg = {k: (None if v is None else [qv(x) for x in v[1]]) for k, v in m[1]}
                ig = {k: (None if v is None else [F(x) for x in v]) for k, v in r[1].items()}
                if c['exact']: same = (mg == ig and list(r[1].keys()) == [k for k, _ in m[1]])
                else:
                    same = set(mg) == set(ig) and all((mg[k] is None) == (ig[k] is None) and (mg[k] is None or (len(mg[k]) == len(ig[k]) and all(close(a, b) for a, b in zip(mg[k], ig[k])))) for k in mg)
                    if not same and near_integer_ratio(c):
                        chk.extra['near_tie_skipped'] = chk.extra.get('near_tie_skipped', 0) + 1; same = True
                if not same: chk.mismatch('tad: model %s vs implementation %s' % (jsonable(mg), jsonable(ig)), c)
        chk.case(c, nontriv)

# ------------------------------------------------------------------------------------------------------------
# GROUP ASSIGNMENTS (direct)

def explore_groups(chk, n, do_model=True):
    from stockpyl.meio_general import _base_stock_group_assignments
    rng = chk.rng; cases = []
    for _ in range(n):
        nodes = gen_nodes(rng) if rng.random() < 0.6 else rng.sample(range(0, 12), rng.randint(1, 8))
        overlap = rng.random() < 0.25
        cases.append(dict(kind='groups', nodes=nodes, groups=gen_groups(rng, nodes, overlapping=overlap), overlap=overlap))
    exprs = ['(map (opt_group %s) %s, group_list %s %s)' % (coq_groups(c['groups']), clist([cnat(x) for x in c['nodes']]),
                                                          clist([cnat(x) for x in c['nodes']]), coq_groups(c['groups'])) for c in cases]
    model = coq_eval_sharded('c19g', 'Base.Qx Alg.Enum', '', exprs, shard=150) if do_model else [None] * n
    for c, m in zip(cases, model):
        nodes = c['nodes']; chk.count('groups:overlap=%s' % c['overlap'])
        try:
            og, gl = _base_stock_group_assignments(list(nodes), py_groups(c['groups']))
        except Exception as e:
            chk.fail('_base_stock_group_assignments|raises-%s' % exc_kind(e), str(e)[:200], c); chk.case(c, False); continue
        disjoint = c['groups'] is None or sum(len(g) for g in c['groups']) == len(set().union(*[set(g) for g in c['groups']])) if c['groups'] else True
        if disjoint:
            dog = doc_opt_group(nodes, c['groups'])
            if og != dog: chk.fail('_base_stock_group_assignments|opt_group', 'opt_group %s, documented %s' % (og, dog), c)
            exp = []
            for i in nodes:
                g = [k for k in nodes if dog[k] == i]
                if g: exp.append(g)
            if gl != exp: chk.fail('_base_stock_group_assignments|group_list', 'group_list %s, documented %s' % (gl, exp), c)
        if do_model:
            chk.traces += 1
            if [og[k] for k in nodes] != list(m[0]) or [list(g) for g in gl] != [list(g) for g in m[1]]:
                chk.mismatch('groups: model %r vs implementation %r' % (m, (og, gl)), c)
        chk.case(c, bool(c['groups']) and any(len(g) > 1 for g in c['groups']))

# ------------------------------------------------------------------------------------------------------------
# GOLDEN SECTION: function trees (Alg.Golden.fexpr) ['x'] ['c', hex] ['add',a,b] ['sub',a,b] ['mul',a,b] ['div',a,b] ['abs',a]

def fe_eval(e, x):
    t = e[0]
    if t == 'x': return x
    if t == 'c': return float.fromhex(e[1])
    if t == 'abs': return abs(fe_eval(e[1], x))
    a = fe_eval(e[1], x); b = fe_eval(e[2], x)
    if t == 'add': return a + b
    if t == 'sub': return a - b
    if t == 'mul': return a * b
    if t == 'div': return a / b
    raise ValueError(t)


def fe_coq(e):
    t = e[0]
    if t == 'x': return 'FX'
    if t == 'c': return '(FC %s)' % cfloat(float.fromhex(e[1]))
    if t == 'abs': return '(FAbs %s)' % fe_coq(e[1])
    return '(%s %s %s)' % ({'add': 'FAdd', 'sub': 'FSub', 'mul': 'FMul', 'div': 'FDiv'}[t], fe_coq(e[1]), fe_coq(e[2]))


def FCc(v): return ['c', float(v).hex()]
X = ['x']


def gen_golden(rng):
    u = lambda lo, hi: rng.uniform(lo, hi) if rng.random() < 0.7 else float(rng.randint(int(math.ceil(lo)), int(hi)))
    a = u(-50, 50); w = rng.choice([rng.uniform(0.001, 1), rng.uniform(1, 30), rng.uniform(30, 500), float(rng.randint(1, 40))])
    b = a + w
    tol = rng.choice([1e-5, 1e-5, 1e-2, 1e-4, 1e-3, 1e-8, 0.5, 1e-6])
    fam = rng.choice(['sq', 'sq', 'expanded', 'abs', 'asym', 'eoq', 'lin'])
    pos = rng.random()
    cmin = a + pos * w if rng.random() < 0.8 else (a - rng.uniform(0, 5) if rng.random() < 0.5 else b + rng.uniform(0, 5))   # minimiser sometimes outside
    clamp = lambda v: min(max(v, a), b)
    c = dict(kind='golden', fam=fam, tol=float(tol).hex())
    if fam == 'sq':
        al = u(0.1, 20); k = rng.choice([0.0, u(-100, 100)])
        d = ['sub', X, FCc(cmin)]; c['f'] = ['add', ['mul', FCc(al), ['mul', d, d]], FCc(k)]
        c['xstar'] = clamp(cmin); c['res'] = 4 * math.sqrt(EPS * max(abs(k), 1e-300) / al) + 4 * EPS * max(abs(a), abs(b), 1.0)
    elif fam == 'expanded':
        al = u(0.1, 20); bb = -2 * al * cmin; k = u(-100, 100)
        c['f'] = ['add', ['add', ['mul', ['mul', FCc(al), X], X], ['mul', FCc(bb), X]], FCc(k)]
        xs = -float.fromhex(FCc(bb)[1]) / (2 * float.fromhex(FCc(al)[1]))
        M = max(abs(al) * max(a * a, b * b), abs(bb) * max(abs(a), abs(b)), abs(k), 1e-300)
        c['xstar'] = clamp(xs); c['res'] = 8 * math.sqrt(EPS * M / al) + 8 * EPS * max(abs(a), abs(b), 1.0)
    elif fam == 'abs':
        wg = u(0.1, 9); k = rng.choice([0.0, u(-50, 50)])
        c['f'] = ['add', ['mul', FCc(wg), ['abs', ['sub', X, FCc(cmin)]]], FCc(k)]
        c['xstar'] = clamp(cmin); c['res'] = 8 * EPS * (abs(k) / wg + max(abs(a), abs(b), 1.0))
    elif fam == 'asym':       # h*(x-c)^+ + p*(c-x)^+ = (h+p)/2 |x-c| + (h-p)/2 (x-c)
        h = u(0.1, 5); p = u(0.1, 20); d = ['sub', X, FCc(cmin)]
        c['f'] = ['add', ['mul', FCc((h + p) / 2), ['abs', d]], ['mul', FCc((h - p) / 2), d]]
        c['xstar'] = clamp(cmin); c['res'] = 16 * EPS * max(abs(a), abs(b), 1.0) * (1 + max(h, p) / min(h, p))
    elif fam == 'eoq':
        a = abs(a) + 0.01; b = a + w; K = u(1, 500); h = u(0.1, 9)
        c['f'] = ['add', ['div', FCc(K), X], ['mul', FCc(h), X]]
        xs = math.sqrt(float.fromhex(FCc(K)[1]) / float.fromhex(FCc(h)[1])); xc = min(max(xs, a), b)
        M = K / a + h * b
        c['xstar'] = xc; c['res'] = 8 * math.sqrt(EPS * M / (K / b ** 3)) + 8 * EPS * b
    else:
        sl = u(-9, 9) or 1.0; k = u(-20, 20)
        c['f'] = ['add', ['mul', FCc(sl), X], FCc(k)]
        c['xstar'] = a if sl > 0 else b; c['res'] = 16 * EPS * (abs(k) / abs(sl) + max(abs(a), abs(b), 1.0))
    if rng.random() < 0.2: a, b = b, a                                    # reversed end points (a > b)
    if rng.random() < 0.08:                                               # narrower than tol (zero width, or either orientation)
        b = a + rng.choice([0.0, 1.0, -1.0]) * float.fromhex(c['tol']) * rng.random()
    c['a'] = float(a).hex(); c['b'] = float(b).hex()
    if fam != 'eoq' or True:
        lo, hi = min(float(a), float(b)), max(float(a), float(b))
        if 'xstar' in c and not (lo <= c['xstar'] <= hi):
            # interval changed after the minimiser was clamped: recompute the clamp for monotone pieces
            c['xstar'] = min(max(c['xstar'], lo), hi) if fam != 'lin' else (lo if c['xstar'] <= lo else hi)
    return c


def run_golden_impl(c):
    from stockpyl.optimization import golden_section_search
    calls = []
    def f(x):
        calls.append(x); return fe_eval(c['f'], x)
    try:
        x, y = golden_section_search(f, float.fromhex(c['a']), float.fromhex(c['b']), tol=float.fromhex(c['tol']))
        return ('ok', x, y, calls)
    except Exception as e:
        return ('err', exc_kind(e), str(e)[:200], calls)


def golden_xstar(c):
    """minimiser of the exact function on [lo, hi] (float, from the construction)"""
    a = float.fromhex(c['a']); b = float.fromhex(c['b']); lo, hi = min(a, b), max(a, b)
    xs = c['xstar']
    if c['fam'] == 'lin':
        sl = float.fromhex(c['f'][1][1][1]); return lo if sl > 0 else hi
    return min(max(xs, lo), hi)


def golden_iterations(c, r):
    """number n of golden-section iterations the implementation ran, read off its evaluation count (2 initial points, one per
    further iteration, one at the returned point); 0 when the interval is within tol or when it took the single-evaluation
    exit although the interval is wider than tol (the oracle then reports too few iterations) -- never negative"""
    a = float.fromhex(c['a']); b = float.fromhex(c['b']); tol = float.fromhex(c['tol'])
    if r[0] != 'ok' or max(a, b) - min(a, b) <= tol: return 0
    return max(len(r[3]) - 2, 0)


def golden_oracle(c, r):
    bad = []
    if r[0] == 'err':
        return [('golden_section_search|raises-%s' % r[1], r[2])], 0
    _, x, y, calls = r
    a = float.fromhex(c['a']); b = float.fromhex(c['b']); tol = float.fromhex(c['tol']); lo, hi = min(a, b), max(a, b); h = hi - lo
    n = golden_iterations(c, r)
    if not (isinstance(x, float) and isinstance(y, float)):
        bad.append(('golden_section_search|result-type', 'returned (%r, %r)' % (x, y))); return bad, n
    fx = fe_eval(c['f'], x)
    if not (y == fx or (y != y and fx != fx)):
        bad.append(('golden_section_search|value-not-f-at-returned-point', 'returned y=%r but f(x)=%r at x=%r' % (y, fx, x)))
    if not (lo <= x <= hi):
        bad.append(('golden_section_search|outside-interval', 'x=%r not in [%r, %r]' % (x, lo, hi)))
    xs = golden_xstar(c)
    if abs(x - xs) > tol / 2 * (1 + 1e-6) + c['res']:
        bad.append(('golden_section_search|not-within-tol-of-minimiser', '|x - x*| = %.3e > tol/2 = %.3e (+ resolution %.1e): x=%r x*=%r n=%d'
                    % (abs(x - xs), tol / 2, c['res'], x, xs, n)))
    if h > tol:
        rho = (math.sqrt(5) - 1) / 2
        if rho ** n * h > tol * (1 + 1e-9):
            bad.append(('golden_section_search|too-few-iterations', 'n=%d iterations: rho^n h = %.6e > tol = %.6e' % (n, rho ** n * h, tol)))
    return bad, n


def explore_golden(chk, n, do_model=True):
    cases = [gen_golden(chk.rng) for _ in range(n)]
    impl = [run_golden_impl(c) for c in cases]
    # oracle first: a failing input is recorded even if the implementation's run has a shape the model comparison does not expect
    verdicts = []
    for c, r in zip(cases, impl):
        bad, nn = golden_oracle(c, r); verdicts.append((bad, nn))
        for sig, what in bad: chk.fail(sig, what, c)
    exprs = []
    for c, r in zip(cases, impl):
        a = float.fromhex(c['a']); b = float.fromhex(c['b']); tol = float.fromhex(c['tol'])
        nn = golden_iterations(c, r)
        c['n'] = nn
        exprs.append('let r := golden FOps (feval FOps %s) %s %s %s %s in [fobs (fst r); fobs (snd r)]' % (fe_coq(c['f']), cfloat(a), cfloat(b), cfloat(tol), cnat(nn)))
    model = coq_eval_sharded('c19f', 'Base.Qx Alg.Golden', '', exprs, shard=60) if do_model else [None] * n
    for c, r, m, (bad, nn) in zip(cases, impl, model, verdicts):
        chk.count('golden:fam=%s' % c['fam']); chk.count('golden:tol=%g' % float.fromhex(c['tol']))
        a = float.fromhex(c['a']); b = float.fromhex(c['b'])
        chk.count('golden:interval=%s' % ('zero-width' if a == b else ('reversed' if a > b else 'ordered') + ('-within-tol' if abs(b - a) <= float.fromhex(c['tol']) else '')))
        chk.count('golden:n=%s' % ('0' if nn == 0 else '1-9' if nn < 10 else '10-29' if nn < 30 else '30+'))
        if do_model and r[0] == 'ok':
            chk.traces += 1
            try:
                want = [norm_fobs(fobs_py(r[1])), norm_fobs(fobs_py(r[2]))]
            except Exception:
                want = None
            got = [norm_fobs(tuple(t)) for t in m]
            if want != got:
                chk.mismatch('golden: binary64 model %r vs implementation %r (x=%s y=%s)' % (got, want, float(r[1]).hex() if isinstance(r[1], float) else r[1],
                                                                                       float(r[2]).hex() if isinstance(r[2], float) else r[2]), c)
        chk.case(c, nn >= 2)

# ------------------------------------------------------------------------------------------------------------
# COORDINATE DESCENT

CD_MEAN = 5                # make_network: mean demand of the (single) sink node; every lead time is 1


def gen_cd(rng):
    nodes = gen_nodes(rng)
    groups = gen_groups(rng, nodes)
    og = doc_opt_group(nodes, groups); reps = sorted(set(og.values()))
    q = lambda lo, hi: Fraction(rng.randint(lo * 4, hi * 4), 4)
    lo_none = rng.random() < 0.12                                        # search_lo omitted -> 0
    lo = {n: (Fraction(0) if lo_none else q(-2, 6)) for n in nodes}; hi = {n: lo[n] + q(1, 12) for n in nodes}
    # degenerate search ranges: search_lo == search_hi for some (or all) groups pins their level to that point, whatever the start
    pinned = []
    if rng.random() < 0.3:
        pinned = [r for r in reps if rng.random() < 0.5] or [rng.choice(reps)]
        for r in pinned: hi[r] = lo[r]
    hi_none = not pinned and rng.random() < 0.08                         # search_hi omitted -> 3 * lead time * total mean demand
    if hi_none: hi = {n: Fraction(3 * CD_MEAN) for n in nodes}
    for n in nodes: lo[n] = lo[og[n]]; hi[n] = hi[og[n]]
    default_start = rng.random() < 0.15                                  # initial_solution omitted -> total mean demand at every node
    inside = rng.random() < 0.85
    init = {}
    for r in reps:
        if default_start: init[r] = Fraction(CD_MEAN)
        elif inside and not (r in pinned and rng.random() < 0.5):
            init[r] = lo[r] + (hi[r] - lo[r]) * Fraction(rng.randint(0, 8), 8)
        else: init[r] = hi[r] + q(1, 5) if rng.random() < 0.5 else lo[r] - q(1, 5)
    for n in nodes: init[n] = init[og[n]]
    inside = all(lo[r] <= init[r] <= hi[r] for r in reps)
    kind, obj = gen_obj(rng, len(nodes), convex=True)
    c = dict(kind='cd', nodes=nodes, groups=groups, objkind=kind, obj=obj, inside=inside,
             lo=arg_form(rng, {n: enc(lo[n]) for n in nodes}, nodes), hi=arg_form(rng, {n: enc(hi[n]) for n in nodes}, nodes),
             init=None if default_start else {str(n): enc(init[n]) for n in nodes},
             tol=enc(rng.choice([Fraction(1, 100), Fraction(1, 100), Fraction(1, 2), Fraction(1, 1000), Fraction(0)])),
             ls_tol=rng.choice([1e-4, 1e-4, 1e-2, 1e-6]), pinned=pinned)
    if rng.random() < 0.2: c['loud'] = True
    if lo_none: c['lo'] = ['none']
    if hi_none: c['hi'] = ['none']
    elif not lo_none and rng.random() < 0.1:
        # search range given as (upper end, lower end): golden_section_search takes the end points of its interval in either
        # order, and so does every line search of coordinate descent; the search box is [min, max] per node
        c['lo'], c['hi'] = c['hi'], c['lo']; c['swapped'] = True
    return c


def cd_bounds(c):
    nodes = c['nodes']
    lo = {n: (Fraction(0) if arg_get(c['lo'], nodes, n) is None else dec(arg_get(c['lo'], nodes, n))) for n in nodes}
    hi = {n: (Fraction(3 * CD_MEAN) if arg_get(c['hi'], nodes, n) is None else dec(arg_get(c['hi'], nodes, n))) for n in nodes}
    for n in nodes:
        if hi[n] < lo[n]: lo[n], hi[n] = hi[n], lo[n]                    # ends given the other way round: same box
    return lo, hi


def cd_init(c):
    """starting vector: the one given, or the documented default (total mean demand of the sink nodes at every node)"""
    if c['init'] is None: return {n: Fraction(CD_MEAN) for n in c['nodes']}
    return {n: dec(c['init'][str(n)]) for n in c['nodes']}


def run_cd_impl(c):
    import stockpyl.optimization as opt
    from stockpyl.meio_general import meio_by_coordinate_descent
    nodes = c['nodes']; net = make_network(nodes)
    log = []; orig = opt.golden_section_search
    def wrapped(f, a, b, tol=1e-5, verbose=False):
        x, y = orig(f, a, b, tol=tol, verbose=verbose); log.append((x, y, a, b, tol)); return x, y
    def obj(S): return oe_eval(c['obj'], [float(S[n]) for n in nodes], float)
    def call(**kw):
        with contextlib.redirect_stdout(io.StringIO()):
            return meio_by_coordinate_descent(net, initial_solution=None if c['init'] is None else {int(k): pyval(v) for k, v in c['init'].items()},
                                              search_lo=py_arg(c['lo']), search_hi=py_arg(c['hi']), groups=py_groups(c['groups']),
                                              objective_function=obj, tol=float(dec(c['tol'])), line_search_tol=c['ls_tol'], **kw)
    opt.golden_section_search = wrapped
    try:
        S, cost = call()
    except Exception as e:
        return ('err', exc_kind(e), str(e)[:200], log, None)
    finally:
        opt.golden_section_search = orig
    loud = None
    if c.get('loud'):
        # the same call with verbose=True: the messages must not change the result
        try:
            S2, cost2 = call(verbose=True); loud = ('ok', S2, cost2)
        except Exception as e:
            loud = ('err', exc_kind(e), str(e)[:200])
    return ('ok', S, cost, log, loud)


def cd_oracle(c, r):
    bad = []; nodes = c['nodes']
    if r[0] == 'err':
        return [('meio_by_coordinate_descent|raises-%s' % r[1], r[2])], False
    _, S, cost, log = r[:4]
    bad += loud_oracle('meio_by_coordinate_descent', c, r)
    lo, hi = cd_bounds(c); og = doc_opt_group(nodes, c['groups'])
    lv = {n: F(S[n]) for n in nodes}
    for n in nodes:
        if not (lo[og[n]] <= lv[n] <= hi[og[n]]):
            bad.append(('meio_by_coordinate_descent|outside-box', 'node %d level %s outside [%s, %s]' % (n, float(lv[n]), lo[og[n]], hi[og[n]])))
    for g in c['groups'] or []:
        if len({lv[n] for n in g}) > 1:
            bad.append(('meio_by_coordinate_descent|group-levels-differ', 'nodes %s got %s' % (g, [float(lv[n]) for n in g])))
    fS = oe_eval(c['obj'], [float(S[n]) for n in nodes], float)
    if not (cost == fS):
        bad.append(('meio_by_coordinate_descent|cost-not-objective-at-returned', 'reported %r, objective at the returned vector %r' % (cost, fS)))
    for (x, y, a, b, tol) in log:
        if tol != c['ls_tol']:
            bad.append(('meio_by_coordinate_descent|line-search-tol', 'golden_section_search called with tol=%r, line_search_tol=%r' % (tol, c['ls_tol']))); break
    groups_n = len(set(og.values()))
    if c['inside']:
        st = cd_init(c); init = [st[n] for n in nodes]
        f0 = oe_eval(c['obj'], init)
        box = [(lo[og[n]], hi[og[n]]) for n in nodes]
        L = max([oe_bounds(c['obj'], box, [i for i, n in enumerate(nodes) if og[n] == r_])[2] for r_ in set(og.values())] + [Fraction(0)])
        slack = groups_n * L * F(c['ls_tol']) / 2
        scale = max(abs(f0), abs(F(cost)), 1)
        if F(cost) > f0 + slack * (1 + Fraction(1, 10 ** 6)) + scale * Fraction(1, 10 ** 9):
            bad.append(('meio_by_coordinate_descent|worse-than-start', 'cost %r > objective at start %s + slack (#groups %d * L %s * line_search_tol %g / 2)'
                        % (cost, float(f0), groups_n, float(L), c['ls_tol'])))
    nsweeps = len(log) // max(groups_n, 1)
    return bad, (nsweeps > 1 or groups_n > 1)


def explore_cd(chk, n, do_model=True):
    cases = [gen_cd(chk.rng) for _ in range(n)]
    impl = [run_cd_impl(c) for c in cases]
    exprs = []
    for c, r in zip(cases, impl):
        nodes = c['nodes']; lo, hi = cd_bounds(c); og = doc_opt_group(nodes, c['groups']); G = len(set(og.values()))
        xs = [F(t[0]) for t in r[3]] if r[0] == 'ok' else []
        fuel = len(xs) // G + 1
        al = lambda d: clist(['(%s, %s)' % (cnat(n_), cq(d[n_])) for n_ in nodes])
        exprs.append('option_map (fun r => (map qobs (fst r), qobs (snd r))) (cd_Q %s %s %s %s %s %s %s %s %s)'
                     % (clist([cnat(n_) for n_ in nodes]), oe_coq(c['obj']), cqlist(xs), al(lo), al(hi), cnat(fuel), coq_groups(c['groups']),
                        al(cd_init(c)), cq(dec(c['tol']))))
    model = coq_eval_sharded('c19c', 'Base.Qx Alg.CoordDesc', '', exprs, shard=25) if do_model else [None] * n
    for c, r, m in zip(cases, impl, model):
        chk.count('cd:nodes=%d' % len(c['nodes'])); chk.count('cd:obj=%s' % c['objkind']); chk.count('cd:start-inside=%s' % c['inside']); chk.count('cd:range-ends-swapped=%s' % bool(c.get('swapped')))
        lo_, hi_ = cd_bounds(c); og_ = doc_opt_group(c['nodes'], c['groups']); st_ = cd_init(c); reps_ = sorted(set(og_.values()))
        npin = sum(1 for r_ in reps_ if lo_[r_] == hi_[r_])
        chk.count('cd:single-point-ranges=%s' % ('none' if npin == 0 else 'all' if npin == len(reps_) else 'some'))
        if npin: chk.count('cd:single-point-range-start=%s' % ('on-the-point' if all(st_[r_] == lo_[r_] for r_ in reps_ if lo_[r_] == hi_[r_]) else 'elsewhere'))
        chk.count('cd:initial_solution=%s' % ('omitted' if c['init'] is None else 'given')); chk.count('cd:also-run-verbose=%s' % bool(c.get('loud'))); chk.count('cd:search_hi=%s' % ('omitted' if c['hi'][0] == 'none' else 'given'))
        bad, nontriv = cd_oracle(c, r)
        for sig, what in bad: chk.fail(sig, what, c)
        if r[0] == 'ok':
            G = len(set(doc_opt_group(c['nodes'], c['groups']).values())); chk.count('cd:sweeps=%d' % min(len(r[3]) // G, 5))
        if do_model and r[0] == 'ok':
            chk.traces += 1
            # termination near-tie: the model decides with exact objective values, the implementation with rounded ones
            if m is None:
                chk.extra['near_tie_skipped'] = chk.extra.get('near_tie_skipped', 0) + (1 if cd_near_tie(c, r) else 0)
                if not cd_near_tie(c, r): chk.mismatch('cd: model does not stop after the implementation\'s %d line searches' % len(r[3]), c)
            else:
                ml = [qv(x) for x in m[1][0]]; mc = qv(m[1][1]); il = [F(r[1][k]) for k in c['nodes']]
                if ml != il or not close(mc, r[2]):
                    if cd_near_tie(c, r): chk.extra['near_tie_skipped'] = chk.extra.get('near_tie_skipped', 0) + 1
                    else: chk.mismatch('cd: model (%s, %s) vs implementation (%s, %r)' % (jsonable(ml), float(mc), jsonable(il), r[2]), c)
        chk.case(c, nontriv)


def cd_near_tie(c, r):
    """does some sweep end within 1e-9 (relative) of the stopping threshold best_cost = current_cost - tol ?"""
    nodes = c['nodes']; og = doc_opt_group(nodes, c['groups']); G = len(set(og.values())); tol = dec(c['tol'])
    st = cd_init(c); cc = oe_eval(c['obj'], [st[n] for n in nodes])
    ys = [F(t[1]) for t in r[3]]
    for s in range(len(ys) // G):
        bc = ys[(s + 1) * G - 1]
        if abs(bc - (cc - tol)) <= Fraction(1, 10 ** 9) * (1 + abs(cc)): return True
        cc = bc
    return False

# ------------------------------------------------------------------------------------------------------------
# SIMULATION-BASED AND SSM OBJECTIVES (oracle only)

def sim_cases(chk, thorough):
    """meio_by_enumeration / coordinate descent without objective_function (simulation, fixed seed) and with the SSM expected cost"""
    from stockpyl.meio_general import meio_by_enumeration, meio_by_coordinate_descent
    from stockpyl.sim import run_multiple_trials
    from stockpyl.instances import load_instance
    rng = chk.rng
    specs = [dict(kind='simobj', sub='sim-enum', seed=rng.randint(1, 10 ** 6), trials=2, periods=40 if not thorough else 200, grid={'1': [5, 7], '2': [4, 6], '3': [10, 12]}, groups=rng.choice([None, [[1, 2]], [[2, 3]]]))]
    if thorough:
        specs.append(dict(kind='simobj', sub='sim-enum', seed=rng.randint(1, 10 ** 6), trials=3, periods=300, grid={'1': [5, 6, 7], '2': [5, 6], '3': [11]}, groups=[[1, 2]]))
        specs.append(dict(kind='simobj', sub='ssm-enum', lo={'1': 5, '2': 4, '3': 10}, hi={'1': 7, '2': 6, '3': 12}))
        specs.append(dict(kind='simobj', sub='ssm-cd', lo={'1': 5, '2': 4, '3': 10}, hi={'1': 7, '2': 7, '3': 12}))
        specs.append(dict(kind='simobj', sub='sim-cd', seed=rng.randint(1, 10 ** 6), trials=2, periods=100, lo=50, hi=60))
    for c in specs:
        chk.count('simobj:%s' % c['sub'])
        try:
            sim_one(chk, c)
        except Exception as e:
            chk.fail('%s|raises-%s' % (c['sub'], exc_kind(e)), '%s: %s' % (type(e).__name__, str(e)[:300]), c)
        chk.case(c, True)


def sim_one(chk, c):
    from stockpyl.meio_general import meio_by_enumeration, meio_by_coordinate_descent
    from stockpyl.sim import run_multiple_trials
    from stockpyl.instances import load_instance
    from stockpyl.ssm_serial import expected_cost
    from stockpyl.supply_chain_network import local_to_echelon_base_stock_levels
    import stockpyl.optimization as opt
    sub = c['sub']
    def set_levels(net, S):
        for nd in net.nodes:
            if nd.inventory_policy.type == 'BS': nd.inventory_policy.base_stock_level = S[nd.index]
            else: nd.inventory_policy.local_base_stock_level = S[nd.index]
    def sim_cost(S):
        net = load_instance('example_6_1' if sub != 'sim-cd' else 'example_4_1_network'); set_levels(net, S)
        return run_multiple_trials(net, c['trials'], c['periods'], c['seed'], progress_bar=False)[0]
    with contextlib.redirect_stdout(io.StringIO()):
        if sub == 'sim-enum':
            net = load_instance('example_6_1'); grid = {int(k): v for k, v in c['grid'].items()}
            S, cost = meio_by_enumeration(net, base_stock_levels=grid, groups=py_groups(c['groups']), sim_num_trials=c['trials'],
                                          sim_num_periods=c['periods'], sim_rand_seed=c['seed'], progress_bar=False)
            og = doc_opt_group(list(net.node_indices), c['groups']); reps = sorted(set(og.values()))
            best = None
            for combo in itertools.product(*[grid[r_] for r_ in reps]):
                a = dict(zip(reps, combo)); Sa = {n: a[og[n]] for n in net.node_indices}; v = sim_cost(Sa)
                if best is None or v < best[0]: best = (v, Sa)
                if Sa == S and v != cost:
                    chk.fail('meio_by_enumeration|sim-cost-not-objective-at-returned', 'reported %r, re-simulation (same seed) of the returned vector gives %r' % (cost, v), c)
            if S not in [{n: dict(zip(reps, cb))[og[n]] for n in net.node_indices} for cb in itertools.product(*[grid[r_] for r_ in reps])]:
                chk.fail('meio_by_enumeration|sim-off-grid', 'returned %s not a grid vector' % S, c)
            if best[0] < cost:
                chk.fail('meio_by_enumeration|sim-better-grid-vector-exists', 'grid vector %s simulates to %r < reported %r' % (best[1], best[0], cost), c)
        elif sub == 'ssm-enum':
            net = load_instance('example_6_1')
            f = lambda S: expected_cost(local_to_echelon_base_stock_levels(net, S), network=net, x_num=100, d_num=10)
            lo = {int(k): v for k, v in c['lo'].items()}; hi = {int(k): v for k, v in c['hi'].items()}
            S, cost = meio_by_enumeration(net, truncation_lo=lo, truncation_hi=hi, objective_function=f, progress_bar=False)
            best = None
            for combo in itertools.product(*[range(lo[n], hi[n] + 1) for n in net.node_indices]):
                Sa = dict(zip(net.node_indices, combo)); v = f(Sa)
                if best is None or v < best[0]: best = (v, Sa)
            if not all(lo[n] <= S[n] <= hi[n] and float(S[n]).is_integer() for n in S):
                chk.fail('meio_by_enumeration|ssm-off-grid', 'returned %s' % S, c)
            if f(S) != cost:
                chk.fail('meio_by_enumeration|ssm-cost-not-objective-at-returned', 'reported %r, expected_cost at returned vector %r' % (cost, f(S)), c)
            if best[0] < cost:
                chk.fail('meio_by_enumeration|ssm-better-grid-vector-exists', '%s has expected cost %r < %r' % (best[1], best[0], cost), c)
        else:
            if sub == 'ssm-cd':
                net = load_instance('example_6_1')
                f = lambda S: expected_cost(local_to_echelon_base_stock_levels(net, S), network=net, x_num=100, d_num=10)
                lo = {int(k): v for k, v in c['lo'].items()}; hi = {int(k): v for k, v in c['hi'].items()}
                init = {n: (lo[n] + hi[n]) / 2 for n in net.node_indices}
                S, cost = meio_by_coordinate_descent(net, initial_solution=init, search_lo=lo, search_hi=hi, objective_function=f)
                f0 = f(init); fS = f(S)
            else:
                net = load_instance('example_4_1_network'); lo = {0: c['lo']}; hi = {0: c['hi']}; init = {0: (c['lo'] + c['hi']) / 2}
                S, cost = meio_by_coordinate_descent(net, initial_solution=init, search_lo=c['lo'], search_hi=c['hi'], sim_num_trials=c['trials'],
                                                     sim_num_periods=c['periods'], sim_rand_seed=c['seed'])
                f0 = sim_cost(init); fS = sim_cost(S)
            if not all(lo[n] <= S[n] <= hi[n] for n in S):
                chk.fail('meio_by_coordinate_descent|%s-outside-box' % sub, 'returned %s outside the box' % S, c)
            if fS != cost:
                chk.fail('meio_by_coordinate_descent|%s-cost-not-objective-at-returned' % sub, 'reported %r, objective at returned vector %r' % (cost, fS), c)
            if cost > f0 + 1e-2 * max(1.0, abs(f0)):
                chk.fail('meio_by_coordinate_descent|%s-worse-than-start' % sub, 'cost %r > objective at start %r (1%% slack)' % (cost, f0), c)


# ------------------------------------------------------------------------------------------------------------
# SIMULATION OBJECTIVE, SEED HANDLING: the seeded simulation is a deterministic objective; sim_rand_seed (incl. 0) must make
# meio_by_enumeration reproducible and its reported cost the seeded objective at the returned vector

def seeded_sim_cost(c, S, reading='own'):
    """independent evaluation of the documented simulation objective: seed the generator with sim_rand_seed, then one
    simulation per trial seeded with the next randint(1, 10000); mean of (total cost / periods).  The vector S is put on a fresh
    network: reading 'own' = S[n] is the base-stock level of node n's policy (its echelon base-stock level under an echelon policy);
    reading 'local' (echelon policies only) = S are local levels, converted by local_to_echelon_base_stock_levels"""
    import numpy as np
    from stockpyl.sim import simulation
    net = make_network(c['nodes'], mean=c['mean'], sd=c['sd'], policy=c.get('policy', 'BS'))
    if reading == 'local':
        from stockpyl.supply_chain_network import local_to_echelon_base_stock_levels
        S = local_to_echelon_base_stock_levels(net, dict(S))
    for nd in net.nodes: nd.inventory_policy.base_stock_level = S[nd.index]
    np.random.seed(c['seed'])
    avg = []
    for _ in range(c['trials']):
        avg.append(simulation(net, c['periods'], rand_seed=np.random.randint(1, 10000), progress_bar=False) / c['periods'])
    return float(np.mean(avg))


def simseed_one(chk, c):
    import numpy as np
    from stockpyl.meio_general import meio_by_enumeration
    nodes = c['nodes']; grid = {int(k): v for k, v in c['grid'].items()}
    og = doc_opt_group(nodes, c['groups']); reps = sorted(set(og.values()))
    results = []
    for state in c['global_states']:
        np.random.seed(state); np.random.random(state % 7)           # a different position of the global stream before each call
        net = make_network(nodes, mean=c['mean'], sd=c['sd'])
        for nd in net.nodes:                                          # levels sitting on the network before the search (must not matter)
            if c.get('pre'): nd.inventory_policy.base_stock_level = c['pre'][str(nd.index)]
        with contextlib.redirect_stdout(io.StringIO()):
            S, cost = meio_by_enumeration(net, base_stock_levels={r_: grid[r_] for r_ in reps}, groups=py_groups(c['groups']), sim_num_trials=c['trials'],
                                          sim_num_periods=c['periods'], sim_rand_seed=c['seed'], progress_bar=False)
        results.append(({n: S[n] for n in nodes}, cost))
    feat = 'seed=0' if c['seed'] == 0 else 'seed!=0'
    if any(r_ != results[0] for r_ in results[1:]):
        chk.fail('meio_by_enumeration|sim-not-reproducible-%s' % feat, 'identical calls with sim_rand_seed=%r from different global RNG states returned %s'
                 % (c['seed'], jsonable(results)), c)
    vectors = [{n: dict(zip(reps, cb))[og[n]] for n in nodes} for cb in itertools.product(*[grid[r_] for r_ in reps])]
    objective = [(seeded_sim_cost(c, v), v) for v in vectors]
    best = min(o for o, _ in objective)
    for S, cost in results[:1] if all(r_ == results[0] for r_ in results) else results:
        if S not in vectors:
            chk.fail('meio_by_enumeration|sim-off-grid', 'returned %s is not a grid vector' % S, c); continue
        fS = [o for o, v in objective if v == S][0]
        if fS != cost:
            chk.fail('meio_by_enumeration|sim-cost-not-seeded-objective-at-returned-%s' % feat,
                     'reported cost %r, seeded simulation objective (sim_rand_seed=%r) at the returned vector %s is %r' % (cost, c['seed'], S, fS), c)
        if best < fS:
            chk.fail('meio_by_enumeration|sim-better-grid-vector-exists-%s' % feat,
                     'grid vector %s has seeded objective %r < %r at the returned vector %s' % ([v for o, v in objective if o == best][0], best, fS, S), c)
    return len({o for o, _ in objective}) > 1


def sim_seed_cases(chk, thorough):
    rng = chk.rng
    specs = []
    seeds = [0, rng.randint(1, 10 ** 6), rng.choice([0, rng.randint(1, 10 ** 6)])] + ([0, 1, rng.randint(1, 10 ** 6)] if thorough else [])
    for i, seed in enumerate(seeds):
        # every other case has a group of two nodes (the simulation objective must be evaluated at the COMPLETE vector: every
        # member of a group at the group's level, whatever level sat on the network before the call); the others: groups at random
        grouped = (i % 2 == 1) or rng.random() < 0.3
        two = rng.random() < 0.5 or (seed == 0 and not grouped)
        nodes = [2, 1] if two else ([3, 2, 1] if grouped else rng.choice([[1], [3, 2, 1]]))
        mean = rng.choice([4, 5, 6])
        grid = {str(n): sorted(rng.sample(range(mean - 2, mean + 5), 2)) for n in nodes}
        pre = {str(n): mean + rng.choice([-3, 0, 0, 5, 7]) for n in nodes}
        specs.append(dict(kind='simseed', nodes=nodes, groups=[sorted(rng.sample(nodes, 2))] if grouped else None, grid=grid, mean=mean, sd=rng.choice([1, 2]), pre=pre,
                          seed=seed, trials=rng.choice([2, 3]), periods=rng.choice([20, 30]) if not thorough else rng.choice([30, 100]),
                          global_states=[rng.randint(1, 10 ** 6), rng.randint(1, 10 ** 6)]))
    for _ in range(1 if not thorough else 4):
        # fine grid: for a fixed seed the simulated cost is piecewise linear in a level, so on a grid with a tiny (dyadic) step the
        # costs of neighbouring vectors differ by a tiny fraction of the cost -- the returned vector must still be the exact minimiser
        mean = rng.choice([4, 5, 6]); nodes = [1] if rng.random() < 0.6 else [2, 1]
        step = 2.0 ** -rng.choice([12, 16, 18, 20, 24, 30]); base = mean + rng.randint(-8, 24) / 8; k = rng.randint(5, 9)
        levels = [base + i * step for i in range(k)]
        if rng.random() < 0.5: rng.shuffle(levels)
        grid = {'1': levels}
        if len(nodes) == 2: grid['2'] = [mean + rng.randint(0, 3)]
        specs.append(dict(kind='simseed', nodes=nodes, groups=None, grid=grid, mean=mean, sd=rng.choice([1, 2]), pre={str(n): mean for n in nodes},
                          seed=rng.choice([0, rng.randint(1, 10 ** 6)]), trials=rng.choice([2, 3]), periods=rng.choice([20, 30]) if not thorough else rng.choice([30, 100]),
                          global_states=[rng.randint(1, 10 ** 6), rng.randint(1, 10 ** 6)], fine_step=step))
    for c in specs:
        chk.count('simseed:grid=%s' % ('fine-step-2^%d' % round(math.log2(c['fine_step'])) if c.get('fine_step') else 'two-integer-levels'))
        chk.count('simseed:seed=%s' % ('0' if c['seed'] == 0 else 'nonzero')); chk.count('simseed:groups=%s' % ('none' if c['groups'] is None else 'pair-of-%d-nodes' % len(c['nodes'])))
        try:
            nontriv = simseed_one(chk, c)
        except Exception as e:
            nontriv = False
            chk.fail('meio_by_enumeration|sim-raises-%s' % exc_kind(e), '%s: %s' % (type(e).__name__, str(e)[:300]), c)
        chk.case(c, nontriv)

# ------------------------------------------------------------------------------------------------------------
# SIMULATION OBJECTIVE OF BOTH SEARCHES, BASE-STOCK AND ECHELON BASE-STOCK POLICIES: without objective_function the objective is the
# seeded simulation of the network with the candidate levels put on the nodes' policies, whatever the policy type

def simopt_one(chk, c):
    import numpy as np
    from stockpyl.meio_general import meio_by_enumeration, meio_by_coordinate_descent
    nodes = c['nodes']; pol = c['policy']; algo = c['algo']
    og = doc_opt_group(nodes, c['groups']); reps = sorted(set(og.values()))
    fn = 'meio_by_enumeration' if algo == 'enum' else 'meio_by_coordinate_descent'
    np.random.seed(c['global_state']); np.random.random(c['global_state'] % 7)      # some position of the global stream before the call
    net = make_network(nodes, mean=c['mean'], sd=c['sd'], policy=pol)
    for nd in net.nodes: nd.inventory_policy.base_stock_level = c['pre'][str(nd.index)]   # levels sitting on the network before the search
    sim = dict(sim_num_trials=c['trials'], sim_num_periods=c['periods'], sim_rand_seed=c['seed'])
    with contextlib.redirect_stdout(io.StringIO()):
        if algo == 'enum':
            grid = {int(k): v for k, v in c['grid'].items()}
            S, cost = meio_by_enumeration(net, base_stock_levels={r_: grid[r_] for r_ in reps}, groups=py_groups(c['groups']), progress_bar=False, **sim)
        else:
            S, cost = meio_by_coordinate_descent(net, initial_solution=None if c['init'] is None else {int(k): v for k, v in c['init'].items()},
                                                 search_lo={int(k): v for k, v in c['lo'].items()}, search_hi={int(k): v for k, v in c['hi'].items()},
                                                 groups=py_groups(c['groups']), tol=c['tol'], line_search_tol=c['ls_tol'], **sim)
    S = {n: S[n] for n in nodes}
    feat = pol + ('-seed=0' if c['seed'] == 0 else '')
    for g in c['groups'] or []:
        if len({S[n] for n in g}) > 1:
            chk.fail('%s|sim-group-levels-differ' % fn, 'nodes %s of one group got levels %s' % (g, [S[n] for n in g]), c)
    # reported cost = seeded objective at the returned vector (an echelon policy: either reading of the vector is accepted)
    readings = ['own'] if pol == 'BS' else ['own', 'local']
    at = {rd: seeded_sim_cost(c, S, rd) for rd in readings}
    rd = next((k for k in readings if at[k] == cost), None)
    if rd is None:
        chk.fail('%s|sim-%s-cost-not-objective-at-returned' % (fn, pol),
                 'reported cost %r; seeded simulation objective (sim_rand_seed=%r, %s policies) at the returned vector %s is %s'
                 % (cost, c['seed'], pol, S, ' / '.join('%r (levels read as %s)' % (at[k], k) for k in readings)), c)
        return True
    if algo == 'enum':
        vectors = [{n: dict(zip(reps, cb))[og[n]] for n in nodes} for cb in itertools.product(*[grid[r_] for r_ in reps])]
        if S not in vectors:
            chk.fail('%s|sim-off-grid' % fn, 'returned %s is not a grid vector' % S, c); return True
        objective = [(seeded_sim_cost(c, v, rd), v) for v in vectors]; best = min(objective, key=lambda t: t[0])
        if best[0] < cost:
            chk.fail('%s|sim-better-grid-vector-exists-%s' % (fn, feat), 'grid vector %s has seeded objective %r < %r at the returned vector %s' % (best[1], best[0], cost, S), c)
        return len({o for o, _ in objective}) > 1
    lo = {n: min(c['lo'][str(og[n])], c['hi'][str(og[n])]) for n in nodes}; hi = {n: max(c['lo'][str(og[n])], c['hi'][str(og[n])]) for n in nodes}
    for n in nodes:
        if not (lo[n] <= S[n] <= hi[n]):
            chk.fail('%s|sim-outside-box' % fn, 'node %d level %r outside [%r, %r]' % (n, S[n], lo[n], hi[n]), c)
    start = {n: (c['mean'] if c['init'] is None else c['init'][str(og[n])]) for n in nodes}       # default: total mean demand of the sink
    if all(lo[n] <= start[n] <= hi[n] for n in nodes):
        # along one level the seeded cost has slope at most (all holding costs + stockout cost) = len(nodes) + 10 here
        f0 = seeded_sim_cost(c, start, rd); slack = len(reps) * (len(nodes) + 10) * c['ls_tol'] / 2 + 1e-2 * max(1.0, abs(f0))
        if cost > f0 + slack:
            chk.fail('%s|sim-worse-than-start-%s' % (fn, pol), 'cost %r > seeded objective at the start %s = %r (+ slack %.3g)' % (cost, start, f0, slack), c)
    return True


def sim_opt_cases(chk, thorough):
    rng = chk.rng
    plan = [('cd', 'BS'), ('cd', 'EBS'), ('enum', 'EBS')] + ([('cd', 'BS'), ('cd', 'BS'), ('cd', 'EBS'), ('enum', 'EBS'), ('enum', 'EBS'), ('cd', 'EBS')] if thorough else [])
    for i, (algo, pol) in enumerate(plan):
        nodes = [2, 1] if (not thorough or rng.random() < 0.7) else [3, 2, 1]
        mean = rng.choice([4, 5, 6]); seed = 0 if (i + rng.randint(0, 1)) % 3 == 0 else rng.randint(1, 10 ** 6)
        groups = [sorted(rng.sample(nodes, 2))] if rng.random() < 0.25 else None
        # under an echelon policy a node's level covers the stock downstream of it as well: levels grow upstream
        depth = {n: (len(nodes) - nodes.index(n) if pol == 'EBS' else 1) for n in nodes}
        # (levels on the network before the call: never a grid level under an echelon policy, so that a search which leaves them in
        # place is told apart from one that puts the returned vector there)
        c = dict(kind='simopt', algo=algo, policy=pol, nodes=nodes, groups=groups, mean=mean, sd=rng.choice([1, 2]), seed=seed,
                 trials=rng.choice([1, 2]), periods=rng.choice([15, 20]) if not thorough else rng.choice([30, 60]),
                 pre={str(n): depth[n] * mean + rng.choice([-3.5, 0.5, 2.5, 5.5] if pol == 'EBS' else [-3, 0.5, 2, 5]) for n in nodes}, global_state=rng.randint(1, 10 ** 6))
        if algo == 'enum':
            c['grid'] = {str(n): sorted(rng.sample(range(depth[n] * mean - 2, depth[n] * mean + 6), 2)) for n in nodes}
        else:
            og = doc_opt_group(nodes, groups)
            lo = {n: depth[n] * mean - rng.randint(1, 3) for n in nodes}; hi = {n: lo[n] + rng.randint(3, 6) for n in nodes}
            for n in nodes: lo[n] = lo[og[n]]; hi[n] = hi[og[n]]
            c['lo'] = {str(n): lo[n] for n in nodes}; c['hi'] = {str(n): hi[n] for n in nodes}
            c['init'] = None if (pol == 'BS' and rng.random() < 0.3) else {str(n): lo[og[n]] + (hi[og[n]] - lo[og[n]]) * rng.randint(0, 4) / 4 for n in nodes}
            c['tol'] = rng.choice([0.5, 0.1]); c['ls_tol'] = rng.choice([0.1, 0.05])
        chk.count('simopt:%s-%s-policies' % (algo, pol)); chk.count('simopt:seed=%s' % ('0' if seed == 0 else 'nonzero'))
        try:
            nontriv = simopt_one(chk, c)
        except Exception as e:
            nontriv = False
            chk.fail('%s|sim-%s-raises-%s' % ('meio_by_enumeration' if algo == 'enum' else 'meio_by_coordinate_descent', pol, exc_kind(e)), '%s: %s' % (type(e).__name__, str(e)[:300]), c)
        chk.case(c, nontriv)

# ------------------------------------------------------------------------------------------------------------

def run(chk):
    chk.rule = RULE
    chk.trusted += ['models Alg/Enum.v, Alg/Golden.v, Alg/CoordDesc.v are hand-written; tied to /repo by exact comparison (enumeration, grids, groups: rationals; '
                    'golden section: every bit of the binary64 result of the same term run with PrimFloat; coordinate descent: returned vector exactly, cost to 1e-9)',
                    'inputs taken from the implementation run: iteration order of the Python set nodes_to_optimize, number n of golden-section iterations '
                    '(= number of objective evaluations - 2; the math.log that produces it is not modelled), the points returned by the line searches of coordinate descent',
                    'Coq PrimFloat (vm_compute) and CPython/libm agree with IEEE-754 binary64 for + - * / sqrt abs',
                    'simulation-based and SSM objectives are checked by oracle only (re-evaluation over the grid with the same seed)']
    chk.assume += ['enumeration / grid / group theorems are over exact rationals; generated inputs are multiples of 1/4 of moderate size so that the implementation computes exactly '
                   '(decimal steps such as 0.1 are compared to 1e-9 and skipped when (hi-lo)/step is within 1e-9 of an integer)',
                   'golden-section and coordinate-descent theorems are over the reals; rounding is covered only by the bit-exact comparison on generated cases and the oracle tolerances '
                   '(tol/2 plus the resolution of the function values)',
                   'preconditions of the theorems: groups pairwise disjoint subsets of the node set; step > 0, lo <= hi (num: lo < hi, num >= 1 or num = 0); start vector inside the box, '
                   'slices unimodal and Lipschitz, for the no-worse-than-start clause, which holds only up to (#groups)*L*line_search_tol/2']
    chk.proof()
    quick = chk.tier == 'quick'
    explore_enum(chk, 220 if quick else 3500, 300 if quick else 2500)
    explore_tad(chk, 260 if quick else 6000)
    explore_groups(chk, 100 if quick else 1500)
    explore_golden(chk, 320 if quick else 10000)
    explore_cd(chk, 90 if quick else 1800)
    sim_cases(chk, not quick)
    sim_seed_cases(chk, not quick)
    sim_opt_cases(chk, not quick)
    if (chk.broken or chk.mismatches) and not chk.fails:
        # directed search for a failing input of the property: bigger budget, oracles only
        k = 6 if quick else 2
        explore_enum(chk, 110 * k, 300, do_model=False); explore_tad(chk, 160 * k, do_model=False); explore_groups(chk, 60 * k, do_model=False)
        explore_golden(chk, 160 * k, do_model=False); explore_cd(chk, 40 * k, do_model=False)


def replay(chk, rp):
    c = rp['case']; kind = c.get('kind')
    if kind == 'enum':
        r = run_enum_impl(c); print('implementation:', jsonable(r[:3])); bad, _ = enum_oracle(c, r)
    elif kind == 'tad':
        r = run_tad_impl(c); print('implementation:', jsonable(r)); bad, _ = tad_oracle(c, r)
    elif kind == 'golden':
        r = run_golden_impl(c); print('implementation:', jsonable(r[:3])); bad, _ = golden_oracle(c, r)
    elif kind == 'cd':
        r = run_cd_impl(c); print('implementation:', jsonable(r[:3])); bad, _ = cd_oracle(c, r)
    elif kind == 'simobj':
        sim_one(chk, c); bad = []
    elif kind == 'simseed':
        simseed_one(chk, c); bad = []
    elif kind == 'simopt':
        simopt_one(chk, c); bad = []
    elif kind == 'groups':
        from stockpyl.meio_general import _base_stock_group_assignments
        og, gl = _base_stock_group_assignments(list(c['nodes']), py_groups(c['groups'])); print('implementation:', og, gl)
        dog = doc_opt_group(c['nodes'], c['groups']); bad = [] if og == dog else [('_base_stock_group_assignments|opt_group', 'opt_group %s, documented %s' % (og, dog))]
    else:
        raise ValueError('unknown case kind %r' % kind)
    for sig, what in bad: chk.fail(sig, what, c)
    chk.case(c)
