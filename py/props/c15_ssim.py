"""C15 ((s,S) stage) — tie of the theorems C15_sS_* (Sim/SSim*.v, appended to Props/C15.v) to the IMPLEMENTATION.

sS_stage_stream(chk, n): two sub-streams.

A. PATHWISE (n cases, exact): single-stage systems built with stockpyl.supply_chain_network.single_stage_system (policy 'sS', integer
   reorder point s < order-up-to level S, shipment lead time L in 0..3, initial inventory level x0 <= S — inside (s, S], at S, at or
   below s, negative —, deterministic integer demand list through DemandSource type 'D'), simulated with stockpyl.sim.simulation.
   From nodes[0].state_vars of every period the oracle reads the inventory level, the order quantity, the on-order quantity and the
   cost and checks, period by period and exactly (all quantities are integers, so the float arithmetic of the implementation is exact):
     1. reference recursion of C15_sS_stage_pathwise (python port of ref_run of Sim/SSim.v):
            q(t) = S - ip if ip <= s else 0, ip = IL(t-1) + OO(t-1) - d(t);   IL(t) = IL(t-1) + arrival - d(t);  cost = h IL^+ + p IL^-
     2. chain (C15_sS_position_rule / C15_sS_offsets), on the implementation's OWN numbers: Y(t) = IL(t) + OO(t) satisfies
            Y(t) = S if Y(t-1) - d(t) <= s else Y(t-1) - d(t)   (Y(-1) = x0),  an order is placed iff Y(t-1) - d(t) <= s,
            the offset S - Y moves by off_step n, and IL(t+L) = Y(t) - (d(t+1) + ... + d(t+L))
     3. cost in the offset form of C15_sS_period_cost_lead_time_1 / _0 (L = 1 resp. 0, s < x0 <= S).
   On a sample the Coq definitions ref_run themselves are evaluated with vm_compute and compared with the implementation.
B. EXPECTATION (m = max(4, n // 12) cases, exact): 2-3 atom pmf on 0..D with dyadic probabilities, horizon T = 3..5; EVERY demand
   sequence is simulated through the implementation, the expected cost (+ K per period with a positive order quantity) of every
   period is accumulated in Fractions and compared with
     (a) the Coq right-hand side by vm_compute:  L = 1, s < x0 <= S: ecost pmf (Gdisc h p pmf) K n S (unitv n (S-x0)) t;
         L = 1, x0 <= s: Gdisc(x0) + K then ecost ... (unitv n 0) (t-1);   L = 0: ecost_ord pmf (G0 h p) K n S 0 (unitv n (S-x0)) (t+1)
     (b) the chain propagated in Fractions (python);
   and the long-run value: |Cesaro average of the expected costs - s_s_cost_discrete(s, S, h, p, K, False, D, pmf)| within the proved
   bound (ergB / T for s < x0 <= S, L = 1; ergB from Coq) at the enumerated horizon, and with the chain propagated to T = 400 periods.
Failures: chk.fail('simulation|sS-stage|pathwise' / '...|expected-cost' / '...|long-run', ...).  Stand-alone: `python c15_ssim.py [n] [seed]`."""
import os, sys, random, warnings, subprocess, re, time, itertools
from fractions import Fraction

HERE = os.path.dirname(os.path.abspath(__file__))
for _p in ('/verif/py', os.path.join(HERE, '..'), HERE):
    if os.path.isdir(_p) and _p not in sys.path:
        sys.path.insert(0, _p)
try:
    from vlib import qv
    import vlib
except Exception:                                               # stand-alone without vlib on the path
    vlib = None
    def qv(p): return Fraction(p[0], p[1])

SIG_PATH = 'simulation|sS-stage|pathwise'
SIG_EXP = 'simulation|sS-stage|expected-cost'
SIG_LR = 'simulation|sS-stage|long-run'
RULE_SS = ("(s,S)-stage stream (EXACT): single_stage_system with policy 'sS' (integers s < S <= s+8, shipment lead time 0..3, initial inventory level x0 <= S in/at/below "
           "the band, integer costs, deterministic integer demand lists of length 8..40): the implementation's per-period inventory level, order quantity, on-order "
           'quantity and cost must equal the reference recursion of C15_sS_stage_pathwise, its own inventory position must follow the (s,S) chain (off_step) and '
           'IL(t+L) = Y(t) - lead-time demand; and, for 2-3 atom dyadic pmfs and horizons 3..5, the expected period cost (+K per order) enumerated over ALL demand '
           'sequences through the implementation must equal ecost/ecost_ord of Alg/SSErgo.v evaluated in Coq and the chain propagated in Fractions, and its Cesaro average '
           'must be within the proved ergB/T of s_s_cost_discrete. non-trivial = some period with an order and some without, and (pathwise) a stockout or L >= 1.')


# ---------------------------------------------------------------------------------------------- implementation adapter
def simulate(s, S, h, p, L, x0, ds):
    """per period: (IL, order quantity, on order, total cost) of the implementation as Fractions"""
    from stockpyl.supply_chain_network import single_stage_system
    import stockpyl.sim as sim
    sim.issued_backorder_warning = False
    net = single_stage_system(holding_cost=h, stockout_cost=p, shipment_lead_time=L, demand_type='D', demand_list=[int(x) for x in ds],
                              policy_type='sS', reorder_point=s, order_up_to_level=S, initial_inventory_level=x0)
    with warnings.catch_warnings():
        warnings.simplefilter('ignore')
        sim.simulation(net, len(ds), rand_seed=1, progress_bar=False, consistency_checks='N')
    nd = net.nodes[0]; prod = nd.product_indices[0]; rm = nd._external_supplier_dummy_product.index
    rows = []
    for t in range(len(ds)):
        sv = nd.state_vars[t]
        rows.append((Fraction(sv.inventory_level[prod]), Fraction(sv.order_quantity[None][rm]), Fraction(sv.on_order_by_predecessor[None][rm]),
                     Fraction(sv.total_cost_incurred), Fraction(sv.order_quantity_fg[prod])))
    return rows


# ---------------------------------------------------------------------------------------------- reference (port of Sim/SSim.v)
def ref_run(s, S, x0, L, ds):
    il = Fraction(x0); w = [Fraction(0)] * L; out = []
    for d in ds:
        ip = il + sum(w) - d
        q = S - ip if ip <= s else Fraction(0)
        w2 = w + [q]
        il = il + w2[0] - d; w = w2[1:]
        out.append((il, list(w), q))
    return out


def off_step(n, i, d): return i + d if i + d < n else 0


def pos(x): return max(Fraction(0), x)


def pathwise_oracle(c, rows):
    s, S, h, p, L, x0, ds = c['s'], c['S'], c['h'], c['p'], c['L'], c['x0'], c['demand']
    bad = []; info = dict(order=False, noorder=False, stockout=False)
    ref = ref_run(s, S, x0, L, ds); n = S - s
    y_prev = Fraction(x0); off_prev = S - x0 if s < x0 <= S else None
    Y = []
    for t, d in enumerate(ds):
        il, oq, oo, cost, oqfg = rows[t]; ril, rw, rq = ref[t]
        if il != ril: bad.append('period %d: IL %s, reference recursion %s' % (t, il, ril))
        if oq != rq or oqfg != rq: bad.append('period %d: order quantity %s (fg %s), reference recursion %s' % (t, oq, oqfg, rq))
        if oo != sum(rw): bad.append('period %d: on order %s, reference window %s' % (t, oo, rw))
        if cost != h * pos(il) + p * pos(-il): bad.append('period %d: cost %s but h IL^+ + p IL^- = %s' % (t, cost, h * pos(il) + p * pos(-il)))
        # chain on the implementation's own numbers
        y = il + oo; trig = (y_prev - d <= s)
        want = Fraction(S) if trig else y_prev - d
        if y != want: bad.append('period %d: position after ordering %s but (s,S) rule from %s with demand %s gives %s' % (t, y, y_prev, d, want))
        if (oq > 0) != trig: bad.append('period %d: order placed = %s but position - demand = %s vs s = %s' % (t, oq > 0, y_prev - d, s))
        if off_prev is not None:
            o2 = off_step(n, off_prev, d)
            if S - y != o2: bad.append('period %d: offset %s but off_step(%d, %s, %s) = %s' % (t, S - y, n, off_prev, d, o2))
            if (oq > 0) != (off_prev + d >= n): bad.append('period %d: order flag vs offset rule' % t)
            if L == 1:
                pc = h * pos(S - off_prev - d) + p * pos(d - (S - off_prev))
                if cost != pc: bad.append('period %d: cost %s, offset form (L=1) %s' % (t, cost, pc))
            if L == 0:
                pc = h * pos(S - o2) + p * pos(o2 - S)
                if cost != pc: bad.append('period %d: cost %s, offset form (L=0) %s' % (t, cost, pc))
            off_prev = o2
        elif trig:
            off_prev = 0
        if oq > 0: info['order'] = True
        else: info['noorder'] = True
        if il < 0: info['stockout'] = True
        Y.append(y); y_prev = y
    for t in range(len(ds)):                                        # lead-time identity
        if t < L:
            want = x0 - sum(ds[:t + 1])
        else:
            want = Y[t - L] - sum(ds[t - L + 1:t + 1])
        if rows[t][0] != want: bad.append('period %d: IL %s but position %d periods ago - lead-time demand = %s' % (t, rows[t][0], L, want))
    return bad, info


def ss_case(rng):
    s = rng.randint(-3, 6); S = s + rng.randint(1, 8); L = rng.choice([0, 1, 1, 1, 2, 3])
    r = rng.random()
    if r < 0.45: x0 = rng.randint(s + 1, S)
    elif r < 0.6: x0 = S
    elif r < 0.8: x0 = s - rng.randint(0, 4)
    else: x0 = rng.randint(-6, S)
    T = rng.randint(8, 40)
    if rng.random() < 0.3: dem = [rng.choice([0, 0, 0, 1, 9, 14]) for _ in range(T)]
    else: dem = [rng.choice([0, 1, 1, 2, 3, 5, 8]) for _ in range(T)]
    return dict(kind='sS-pathwise', s=s, S=S, L=L, x0=x0, h=rng.randint(1, 4), p=rng.randint(1, 20), demand=dem)


# ---------------------------------------------------------------------------------------------- Coq evaluation
def coq_run(exprs):
    """vm_compute of the expressions with Sim.SSim in scope (integrated tree) or the WIP files next to this module; None if impossible"""
    if not exprs: return []
    if vlib is None: return None
    if os.path.exists('/verif/coq/Sim/SSim.vo'):
        return vlib.coq_eval('c15ssim', 'Base.Qx Sim.SSim', '', exprs)
    wip = HERE if os.path.exists(os.path.join(HERE, 'SSim.vo')) else '/verif/build/wip/ssim'
    if not os.path.exists(os.path.join(wip, 'SSim.vo')): return None
    d = '/verif/build/eval'; os.makedirs(d, exist_ok=True)
    base = 'c15ssim_%d_%d' % (os.getpid(), int(time.time() * 1000) % 100000000); path = os.path.join(d, base + '.v')
    with open(path, 'w') as f:
        f.write('From SV Require Import Base.Qx.\nFrom WIP Require Import SSim.\nSet Printing Width 100000000.\nSet Printing Depth 100000000.\nOpen Scope Q_scope.\n')
        for e in exprs: f.write('Eval vm_compute in (%s).\n' % e)
    pr = subprocess.run(['timeout', '600', 'coqc', '-Q', '/verif/coq', 'SV', '-Q', wip, 'WIP', path], cwd=d, capture_output=True, text=True)
    for ext in ('.v', '.vo', '.glob', '.vok', '.vos'):
        for pth in (os.path.join(d, base + ext), os.path.join(d, '.' + base + '.aux')):
            try: os.remove(pth)
            except OSError: pass
    if pr.returncode != 0: raise RuntimeError('coq evaluation failed: ' + (pr.stdout + pr.stderr)[-1500:])
    vals = []
    for chunk in re.split(r'(?m)^\s*= ', pr.stdout)[1:]:
        vals.append(vlib._parse(re.split(r'(?m)^\s*: ', chunk)[0]))
    if len(vals) != len(exprs): raise RuntimeError('coq evaluation: %d results for %d expressions' % (len(vals), len(exprs)))
    return vals


def cqz(x):
    x = Fraction(x)
    return '(%d # %d)' % (x.numerator, x.denominator)


def cql(l): return '[' + '; '.join(cqz(x) for x in l) + ']'


# ---------------------------------------------------------------------------------------------- expectation
def chain_expected(c, T):
    """expected cost (+K per order) of periods 0..T-1 by propagating the (s,S) chain in Fractions; python port of ecost / ecost_ord"""
    s, S, h, p, K, L, x0, pm = c['s'], c['S'], c['h'], c['p'], c['K'], c['L'], c['x0'], [Fraction(x) for x in c['pmf']]
    n = S - s
    def pf(l): return pm[l] if l < len(pm) else Fraction(0)
    def tail(k): return sum(pm[k:]) if k < len(pm) else Fraction(0)
    def G(y): return sum(pf(d) * (h * pos(Fraction(y - d)) + p * pos(Fraction(d - y))) for d in range(len(pm)))
    def G0(y): return h * pos(Fraction(y)) + p * pos(Fraction(-y))
    def trans(i, j): return (pf(j - i) if i <= j else 0) + (tail(n - i) if j == 0 else 0)
    def step(mu): return [sum(mu[i] * trans(i, j) for i in range(n)) for j in range(n)]
    out = []
    if L == 1:
        if s < x0 <= S:
            mu = [Fraction(int(i == S - x0)) for i in range(n)]
        else:
            out.append(G(x0) + K); mu = [Fraction(int(i == 0)) for i in range(n)]
        while len(out) < T:
            out.append(sum(mu[i] * (G(S - i) + K * tail(n - i)) for i in range(n))); mu = step(mu)
    else:                                                            # L == 0, s < x0 <= S
        mu = [Fraction(int(i == S - x0)) for i in range(n)]
        for t in range(T):
            ordp = sum(mu[i] * tail(n - i) for i in range(n)); mu = step(mu)
            out.append(K * ordp + sum(mu[i] * G0(S - i) for i in range(n)))
    return out


def enumerate_expected(c):
    """E[cost of period t + K [order in t]] over ALL demand sequences of length T, through the implementation"""
    pm = [Fraction(x) for x in c['pmf']]; T = c['T']; supp = [d for d in range(len(pm)) if pm[d] > 0]
    acc = [Fraction(0)] * T; orders = 0; noorders = 0
    for seq in itertools.product(supp, repeat=T):
        w = Fraction(1)
        for d in seq: w *= pm[d]
        rows = simulate(c['s'], c['S'], c['h'], c['p'], c['L'], c['x0'], list(seq))
        for t in range(T):
            k = c['K'] if rows[t][4] > 0 else 0
            if rows[t][4] > 0: orders += 1
            else: noorders += 1
            acc[t] += w * (rows[t][3] + k)
    return acc, orders, noorders


def exp_case(rng):
    s = rng.randint(-2, 4); S = s + rng.randint(1, 5)
    D = rng.randint(1, 3)
    atoms = sorted(rng.sample(range(D + 1), rng.choice([2, 3]) if D >= 2 else 2))
    if len(atoms) == 2: pr = rng.choice([(1, 1), (1, 3), (3, 1), (5, 3)]); den = sum(pr)
    else: pr = rng.choice([(1, 2, 1), (2, 1, 1), (1, 1, 2), (3, 4, 1)]); den = sum(pr)
    pmf = [Fraction(0)] * (D + 1)
    for a, w in zip(atoms, pr): pmf[a] = Fraction(w, den)
    if pmf[0] == 1: pmf = [Fraction(1, 2), Fraction(1, 2)]
    r = rng.random(); L = 1
    if r < 0.55: x0 = rng.randint(s + 1, S)
    elif r < 0.8: x0 = s - rng.randint(0, 3)
    else: L = 0; x0 = rng.randint(s + 1, S)
    T = rng.choice([3, 4, 4, 5]) if len(atoms) == 3 else rng.choice([4, 5, 6])
    return dict(kind='sS-expectation', s=s, S=S, L=L, x0=x0, h=rng.randint(1, 3), p=rng.randint(1, 9), K=rng.randint(1, 12), pmf=[str(x) for x in pmf], T=T)


def coq_expected_exprs(c):
    s, S, h, p, K, L, x0, T = c['s'], c['S'], c['h'], c['p'], c['K'], c['L'], c['x0'], c['T']
    pm = cql([Fraction(x) for x in c['pmf']]); n = S - s
    G = '(Gdisc %s %s %s)' % (cqz(h), cqz(p), pm)
    if L == 1 and s < x0 <= S:
        e = 'map (fun t => qobs (ecost %s %s %s %d%%nat (%d)%%Z (unitv %d %d) t)) (seq 0 %d)' % (pm, G, cqz(K), n, S, n, S - x0, T)
    elif L == 1:
        e = '(qobs (%s (%d)%%Z + %s)) :: map (fun t => qobs (ecost %s %s %s %d%%nat (%d)%%Z (unitv %d 0) t)) (seq 0 %d)' % (G, x0, cqz(K), pm, G, cqz(K), n, S, n, T - 1)
    else:
        e = 'map (fun t => qobs (ecost_ord %s (G0 %s %s) %s %d%%nat (%d)%%Z 0 (unitv %d %d) (S t))) (seq 0 %d)' % (pm, cqz(h), cqz(p), cqz(K), n, S, n, S - x0, T)
    Gl = G if L == 1 else '(G0 %s %s)' % (cqz(h), cqz(p))
    return [e, '[qobs (gcost %s %s %s (%d)%%Z (%d)%%Z); qobs (ergB %s %s %s (%d)%%Z (%d)%%Z)]' % (pm, Gl, cqz(K), s, S, pm, Gl, cqz(K), s, S)]


def expectation_oracle(chk, c, enum, coq):
    """enum: expected period costs through the implementation; coq: (list of period values, (gcost, ergB)) or None"""
    from stockpyl.ss import s_s_cost_discrete
    s, S, h, p, K, L, x0, T = c['s'], c['S'], c['h'], c['p'], c['K'], c['L'], c['x0'], c['T']
    pmf = [Fraction(x) for x in c['pmf']]
    ch = chain_expected(c, T)
    if enum != ch:
        t = next(i for i in range(T) if enum[i] != ch[i])
        chk.fail(SIG_EXP, 'period %d: expected cost over all demand sequences through the implementation %s, (s,S) chain propagated in Fractions %s' % (t, enum[t], ch[t]), c); return
    if coq is not None:
        vals, (g, B) = coq
        vals = [qv(v) for v in vals]; g = qv(g); B = qv(B)
        chk.traces += 1
        if vals != enum:
            t = next(i for i in range(T) if enum[i] != vals[i])
            chk.mismatch('period %d: expected simulated cost %s, Coq ecost/ecost_ord %s' % (t, enum[t], vals[t]), c); return
        if L == 1:
            gi = float(s_s_cost_discrete(s, S, h, p, K, False, demand_hi=len(pmf) - 1, demand_pmf=[float(x) for x in pmf]))
            Gx0 = sum(pmf[d] * (h * pos(Fraction(x0 - d)) + p * pos(Fraction(d - x0))) for d in range(len(pmf)))
            slack = B if s < x0 <= S else B + abs(Gx0 + K - g)
            avg = sum(enum) / T
            if abs(float(avg) - gi) > float(slack) / T + 1e-9:
                chk.fail(SIG_LR, 'average expected simulated cost over %d periods %s vs s_s_cost_discrete %r: beyond the proved bound %s / T' % (T, avg, gi, slack), c); return
            T2 = 400; far = chain_expected(c, T2); avg2 = sum(far) / T2
            if abs(float(avg2) - gi) > float(slack) / T2 + 1e-9:
                chk.fail(SIG_LR, 'average expected cost of the chain over %d periods %s vs s_s_cost_discrete %r: beyond the proved bound %s / T' % (T2, float(avg2), gi, slack), c); return
            if abs(float(g) - float(gi)) > 1e-9 * max(1.0, abs(float(gi))):
                chk.fail(SIG_LR, 's_s_cost_discrete = %r but the model gcost = %s' % (float(gi), g), c); return
        else:
            slack = B + K + abs(h * pos(Fraction(x0)) + p * pos(Fraction(-x0)) - g)
            if abs(sum(enum) / T - g) > slack / T:
                chk.fail(SIG_LR, 'lead time 0: average expected simulated cost vs gcost with G0 beyond the proved bound', c); return


# ---------------------------------------------------------------------------------------------- stream
def sS_stage_stream(chk, n, coq_sample=10):
    done = []
    for i in range(n):
        c = ss_case(chk.rng)
        try:
            rows = simulate(c['s'], c['S'], c['h'], c['p'], c['L'], c['x0'], c['demand'])
        except Exception as e:
            chk.fail('simulation|sS-stage|exception', '(s,S) stage could not be simulated: %s: %s' % (type(e).__name__, e), c); continue
        bad, info = pathwise_oracle(c, rows)
        nontriv = info['order'] and info['noorder'] and (info['stockout'] or c['L'] >= 1)
        chk.case(c, nontriv, key=('sS', c['s'], c['S'], c['L'], c['x0'], tuple(c['demand'])))
        start = 'in-band' if c['s'] < c['x0'] <= c['S'] else 'at-or-below-s'
        chk.count('sS-pathwise|L=%d|start-%s' % (c['L'], start))
        if bad: chk.fail(SIG_PATH, '%d violations of the (s,S) pathwise statements; first: %s' % (len(bad), bad[0]), c)
        done.append((c, rows))
    # Coq's own ref_run on a sample
    sample = done[:coq_sample]
    exprs = ['map (fun r => let \'(il, w, q) := r in [qobs il; qobs (qsum w); qobs q]) (ref_run %s %s %s (repeat 0 %d) %s)'
             % (cqz(c['s']), cqz(c['S']), cqz(c['x0']), c['L'], cql(c['demand'])) for c, _ in sample]
    # expectation cases
    m = max(4, n // 12); ecases = []
    for i in range(m):
        c = exp_case(chk.rng)
        try:
            enum, orders, noorders = enumerate_expected(c)
        except Exception as e:
            chk.fail('simulation|sS-stage|exception', '(s,S) stage could not be simulated: %s: %s' % (type(e).__name__, e), c); continue
        chk.case(c, orders > 0 and noorders > 0, key=('sSe', c['s'], c['S'], c['L'], c['x0'], tuple(c['pmf']), c['T'], c['h'], c['p'], c['K']))
        chk.count('sS-expectation|L=%d|start-%s' % (c['L'], 'in-band' if c['s'] < c['x0'] <= c['S'] else 'at-or-below-s'))
        ecases.append((c, enum))
        exprs += coq_expected_exprs(c)
    try:
        vals = coq_run(exprs)
    except Exception as e:
        vals = None; chk.extra['sS_stage_coq'] = 'not evaluated: %s' % e
    if vals is not None:
        for (c, rows), v in zip(sample, vals[:len(sample)]):
            chk.traces += 1
            impl = [(r[0], r[2], r[1]) for r in rows]; mod = [(qv(a), qv(b), qv(q)) for a, b, q in v]
            if impl != mod:
                t = next(i for i in range(len(impl)) if impl[i] != mod[i])
                chk.mismatch('period %d: implementation (IL, on order, order quantity) %s, Coq ref_run %s' % (t, impl[t], mod[t]), c)
        chk.extra['sS_stage_coq'] = '%d pathwise + %d expectation cases evaluated with vm_compute' % (len(sample), len(ecases))
    for k, (c, enum) in enumerate(ecases):
        coq = None
        if vals is not None:
            coq = (vals[len(sample) + 2 * k], vals[len(sample) + 2 * k + 1])
        expectation_oracle(chk, c, enum, coq)
    return len(done) + len(ecases)


def replay_sS_stage(chk, c):
    if c.get('kind') == 'sS-expectation':
        enum, _, _ = enumerate_expected(c)
        try: vals = coq_run(coq_expected_exprs(c))
        except Exception: vals = None
        expectation_oracle(chk, c, enum, (vals[0], vals[1]) if vals else None)
    else:
        rows = simulate(c['s'], c['S'], c['h'], c['p'], c['L'], c['x0'], c['demand']); bad, _ = pathwise_oracle(c, rows)
        if bad: chk.fail(SIG_PATH, '%d violations; first: %s' % (len(bad), bad[0]), c)


# ---------------------------------------------------------------------------------------------- stand-alone
class _Chk:
    def __init__(self, seed):
        self.rng = random.Random(seed); self.fails = []; self.mismatches = []; self.cases = 0; self.nontrivial = set(); self.hist = {}; self.traces = 0; self.extra = {}
    def case(self, case, nontrivial, key=None):
        self.cases += 1
        if nontrivial: self.nontrivial.add(key)
    def count(self, label): self.hist[label] = self.hist.get(label, 0) + 1
    def fail(self, sig, what, case): self.fails.append((sig, what, case))
    def mismatch(self, what, case): self.mismatches.append((what, case))


if __name__ == '__main__':
    n = int(sys.argv[1]) if len(sys.argv) > 1 else 120
    seed = int(sys.argv[2]) if len(sys.argv) > 2 else 20261001
    chk = _Chk(seed); t0 = time.time()
    sS_stage_stream(chk, n)
    print('cases %d, distinct non-trivial %d, coq traces %d, fails %d, mismatches %d, %.1fs' % (chk.cases, len(chk.nontrivial), chk.traces, len(chk.fails), len(chk.mismatches), time.time() - t0))
    for k in sorted(chk.hist): print('  %-45s %d' % (k, chk.hist[k]))
    print('  ', chk.extra)
    for sig, what, case in chk.fails[:8]: print('FAIL', sig, what, case)
    for what, case in chk.mismatches[:8]: print('MISMATCH', what, case)
    sys.exit(1 if chk.fails or chk.mismatches else 0)
