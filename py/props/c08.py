"""C08 — GSM optimisers (gsm_tree, gsm_serial, gsm_helpers): correspondence of Alg/GSM.v with the
implementation + independent oracle (feasibility, cost recomputation, exhaustive enumeration of all
feasible integer CST vectors, serial-vs-tree agreement, relabelling invariance)."""
import math, itertools, copy
from fractions import Fraction
from vlib import *

RULE = ('random tree networks (serial / assembly / distribution / mixed orientation) with 1..6 nodes (quick) or 1..8 (thorough); '
        'processing times 0..4; holding costs k/4 (zero with prob. 0.08); demand-bound constants in {1,1.5,2,1.645,2.33} or missing; '
        'demand std 0..6 at every sink and at some inner nodes; external inbound CST 0..3 at sources and some inner nodes; '
        'external outbound CST 0..4 or missing (BIG_INT) at sinks and some inner nodes; random node labels (sometimes already correctly '
        'labelled) and random insertion order; standard serial systems are additionally solved with gsm_serial (network= and keyword form). '
        'A small malformed stream (sink without demand standard deviation) must raise ValueError. '
        'Call sequences (implementation-only oracle): every tree is solved twice on the SAME network object (results must be identical); about half of the '
        'cases carry a what-if scenario: t = preprocess_tree(network), t solved as is (must equal the result for the raw network), then 1..3 parameters of the '
        'PRE-PROCESSED tree t are edited (processing time 0..6, demand std, external inbound/outbound CST, holding cost, demand-bound constant) and t is solved again: '
        'the result is checked against the full oracle (feasibility, cost recomputation, exhaustive enumeration) for the edited data and against a freshly built '
        'network with the same data, and relabel_nodes(t) is solved too (keys mapped back through original_label). The shape of every returned dict '
        '(exactly one integer CST per node label, label 0 included) is validated before anything else. '
        'non-trivial = at least 2 nodes and an optimal solution in which some but not all nodes hold safety stock (0 < #positive net lead times < n) '
        'or an exhaustive enumeration with at least 20 feasible vectors; distinct = distinct (normalised data, edge set).')

BIG = 1e100
ZS = [1, 1.5, 2, 1.645, 2.33]


# ------------------------------------------------------------------------------------------------
# generator

def gen_case(rng, nmax, kind=None):
    n = rng.choice([1] + list(range(2, nmax + 1)) * 4)
    kind = kind or rng.choice(['serial', 'serial', 'assembly', 'distribution', 'mixed', 'mixed'])
    # abstract nodes 0..n-1, then labels
    edges = []
    if kind == 'serial':
        edges = [(i + 1, i) for i in range(n - 1)]           # n-1 upstream ... 0 downstream
    else:
        for i in range(1, n):
            j = rng.randrange(i)
            if kind == 'assembly': e = (i, j)                 # new node feeds an existing one: every node has <= 1 successor
            elif kind == 'distribution': e = (j, i)           # every node has <= 1 predecessor
            else: e = (i, j) if rng.random() < 0.5 else (j, i)
            edges.append(e)
    succ = {i: [] for i in range(n)}; pred = {i: [] for i in range(n)}
    for a, b in edges: succ[a].append(b); pred[b].append(a)
    serial_std = (kind == 'serial' and rng.random() < 0.75)
    nodes = []
    z_common = rng.choice(ZS)
    for i in range(n):
        d = dict(h=(0 if rng.random() < 0.08 else rng.randint(1, 40) / 4), T=rng.choice([0, 1, 1, 2, 2, 3, 4]),
                 z=None, sigma=None, mu=None, ein=None, eout=None)
        r = rng.random()
        d['z'] = z_common if r < 0.5 else (rng.choice(ZS) if r < 0.85 else None)
        if not succ[i] or (not serial_std and rng.random() < 0.2):
            d['sigma'] = rng.choice([0, 1, 1, 2, 3, 4, 5, 6, 2.5]); d['mu'] = rng.randint(0, 20)
            if rng.random() < 0.8: d['eout'] = rng.choice([0, 0, 1, 1, 2, 3, 4])
        elif not serial_std and rng.random() < 0.1:
            d['eout'] = rng.randint(0, 4)
        if not pred[i]:
            if rng.random() < 0.6: d['ein'] = rng.choice([0, 1, 1, 2, 3])
        elif not serial_std and rng.random() < 0.2:
            d['ein'] = rng.randint(0, 3)
        nodes.append(d)
    if serial_std:
        for d in nodes: d['z'] = d['z'] if d['z'] is not None else z_common
        if nodes[0]['eout'] is None: nodes[0]['eout'] = rng.randint(0, 4)
        if nodes[n - 1]['ein'] is None: nodes[n - 1]['ein'] = rng.randint(0, 3)
    # labels: random distinct, or (prob .25) a correct labelling with a random offset
    if rng.random() < 0.25:
        lab = correct_labelling(n, edges, rng)
        off = rng.choice([0, 1, 1, 5])
        lab = {i: lab[i] + off for i in lab}
    else:
        vals = rng.sample(range(0, 3 * n + 1), n)
        lab = {i: vals[i] for i in range(n)}
    order = list(range(n)); rng.shuffle(order)
    whatif = gen_whatif(rng, n, nodes, succ, lab) if rng.random() < 0.5 else None
    return dict(kind=kind, serial_std=serial_std, malformed=None,
                nodes=[dict(id=lab[i], **nodes[i]) for i in order],
                edges=[[lab[a], lab[b]] for a, b in edges], whatif=whatif)


def gen_whatif(rng, n, nodes, succ, lab):
    """1..3 edits [node label, attribute, new value] to be applied to the PRE-PROCESSED tree (what-if analysis); biased toward the
    attributes from which preprocess_tree derives data (processing time / external inbound CST -> max replenishment times, demand std -> net std)"""
    edits = []; seen = set()
    for _ in range(rng.choice([1, 1, 2, 3])):
        i = rng.randrange(n); d = nodes[i]
        attr = rng.choice(['T', 'T', 'T', 'sigma', 'sigma', 'sigma', 'ein', 'ein', 'eout', 'h', 'z'])
        if attr == 'sigma' and d['sigma'] is None:
            cand = [j for j in range(n) if nodes[j]['sigma'] is not None]      # every sink has one
            i = rng.choice(cand); d = nodes[i]
        if attr == 'eout' and succ[i] and rng.random() < 0.7:
            i = rng.choice([j for j in range(n) if not succ[j]]); d = nodes[i]
        if (i, attr) in seen: continue
        seen.add((i, attr))
        if attr == 'T': new = rng.choice([v for v in [0, 1, 2, 3, 4, 5, 6] if v != d['T']])
        elif attr == 'sigma': new = rng.choice([v for v in [0, 1, 2, 3, 4, 5, 6, 9, 2.5] if v != d['sigma']])
        elif attr == 'ein': new = rng.choice([v for v in [0, 1, 2, 3] if v != (d['ein'] or 0)])
        elif attr == 'eout': new = rng.choice([v for v in [0, 1, 2, 3, 4] if v != d['eout']])
        elif attr == 'h': new = rng.randint(0, 40) / 4
        else: new = rng.choice([v for v in ZS if v != d['z']])
        edits.append([lab[i], attr, new])
    return edits


def correct_labelling(n, edges, rng):
    """a labelling 0..n-1 in which every node but the last has exactly one larger-labelled neighbour (random leaf peeling)"""
    nb = {i: set() for i in range(n)}
    for a, b in edges: nb[a].add(b); nb[b].add(a)
    left = set(range(n)); lab = {}
    for k in range(n):
        leaves = sorted(i for i in left if len(nb[i] & left) <= 1)
        i = rng.choice(leaves); lab[i] = k; left.discard(i)
    return lab


def relabelled(case, rng):
    ids = [d['id'] for d in case['nodes']]
    vals = rng.sample(range(0, 3 * len(ids) + 2), len(ids))
    mp = dict(zip(ids, vals))
    c2 = copy.deepcopy(case)
    for d in c2['nodes']: d['id'] = mp[d['id']]
    if c2.get('whatif'): c2['whatif'] = [[mp[i], a, v] for i, a, v in c2['whatif']]
    c2['edges'] = [[mp[a], mp[b]] for a, b in case['edges']]
    rng.shuffle(c2['edges'])      # node insertion order is kept: the default demand-bound constant is that of the FIRST sink having one
    return c2, mp


# ------------------------------------------------------------------------------------------------
# implementation adapter

def build_net(case):
    from stockpyl.supply_chain_network import SupplyChainNetwork
    from stockpyl.supply_chain_node import SupplyChainNode
    from stockpyl.demand_source import DemandSource
    net = SupplyChainNetwork()
    for d in case['nodes']:
        nd = SupplyChainNode(index=d['id'], network=net, local_holding_cost=d['h'], processing_time=d['T'],
                             demand_bound_constant=d['z'], external_inbound_cst=d['ein'], external_outbound_cst=d['eout'])
        if d['sigma'] is not None or d['mu'] is not None:
            nd.demand_source = DemandSource(type='N', mean=d['mu'], standard_deviation=d['sigma'])
        net.add_node(nd)
    net.add_edges_from_list([tuple(e) for e in case['edges']])
    return net


def intkey(k):
    try: return int(k) if (not isinstance(k, bool) and k == int(k)) else k
    except Exception: return k


def run_tree(case, net=None):
    """solve a freshly built network of the case (or the given network object)"""
    from stockpyl import gsm_tree
    try:
        cst, cost = gsm_tree.optimize_committed_service_times(build_net(case) if net is None else net)
        return ('ok', {intkey(k): v for k, v in cst.items()}, cost)
    except Exception as e:
        return ('err', exc_kind(e), str(e)[:200])


def shape_problem(ids, cst, cost):
    """the documented shape of the result: dict with exactly the node indices as keys, integer CSTs, a finite float cost"""
    import numbers
    if not isinstance(cst, dict): return 'returned CSTs are not a dict: %r' % (cst,)
    if set(cst) != set(ids) or len(cst) != len(ids):
        return 'returned keys %r != node indices %r' % (sorted(cst, key=repr), sorted(ids))
    for k, v in cst.items():
        if isinstance(v, bool) or not isinstance(v, numbers.Real) or not math.isfinite(v) or v != int(v):
            return 'cst of node %r is %r, not an integer' % (k, v)
    if isinstance(cost, bool) or not isinstance(cost, numbers.Real) or not math.isfinite(cost):
        return 'reported cost %r is not a finite number' % (cost,)
    return None


ATTR = dict(T='processing_time', h='local_holding_cost', z='demand_bound_constant', ein='external_inbound_cst', eout='external_outbound_cst')


def apply_edits(tree, edits):
    for i, attr, v in edits:
        nd = tree.nodes_by_index[i]
        if attr == 'sigma': nd.demand_source.standard_deviation = v
        else: setattr(nd, ATTR[attr], v)


def edited_case(case, edits):
    """the data of the pre-processed tree after the edits: the documented defaults (demand-bound constant of the first sink that has one,
    external inbound CST 0) made explicit - independently recomputed by Ind -, then the edits"""
    ind = Ind(case)
    c2 = copy.deepcopy(case); c2['whatif'] = None; c2['serial_std'] = False
    for d in c2['nodes']: d['z'] = ind.z[d['id']]; d['ein'] = ind.ein[d['id']]
    by = {d['id']: d for d in c2['nodes']}
    for i, attr, v in edits: by[i][attr] = v
    return c2


def impl_prep(case):
    """preprocess_tree + relabel_nodes of the implementation: the relabelled tree in the model's input form"""
    from stockpyl import gsm_tree
    pt = gsm_tree.preprocess_tree(build_net(case))
    rt = gsm_tree.relabel_nodes(pt)
    m0 = int(min(rt.node_indices)); n = len(rt.nodes)
    byp = {int(k.index) - m0: k for k in rt.nodes}
    assert sorted(byp) == list(range(n)), 'relabelled indices are not consecutive: %r' % sorted(byp)
    P = dict(n=n, par=[], dn=[], T=[], ein=[], eout=[], M=[], ctab=[], orig=[], sig=[], z=[])
    for p in range(n):
        k = byp[p]
        P['par'].append(int(k.larger_adjacent_node) - m0 if k.larger_adjacent_node is not None else 0)
        P['dn'].append(bool(k.larger_adjacent_node_is_downstream))
        P['T'].append(int(k.processing_time)); P['ein'].append(int(k.external_inbound_cst))
        P['eout'].append(None if k.external_outbound_cst >= BIG else int(k.external_outbound_cst))
        M = int(k.max_replenishment_time); P['M'].append(M)
        P['ctab'].append([F(k.holding_cost * (k.demand_bound_constant * k.net_demand_standard_deviation * math.sqrt(t))) for t in range(M + 1)])
        P['orig'].append(int(k.original_label)); P['sig'].append(k.net_demand_standard_deviation); P['z'].append(k.demand_bound_constant)
    P['MM'] = int(rt.max_max_replenishment_time)
    P['pt'] = pt
    P['is_correct'] = bool(gsm_tree.is_correctly_labeled(pt))
    rf = gsm_tree.relabel_nodes(pt, force_relabel=True)
    P['rooted'] = rooted_form(rt); P['rooted_forced'] = rooted_form(rf)
    return P


def rooted_form(rt):
    m0 = int(min(rt.node_indices)); byp = {int(k.index) - m0: k for k in rt.nodes}
    return [(int(byp[p].original_label), int(byp[p].larger_adjacent_node) - m0 if byp[p].larger_adjacent_node is not None else 0,
             bool(byp[p].larger_adjacent_node_is_downstream)) for p in range(len(byp))]


def relabel_expr(case):
    ids = cnatl([d['id'] for d in case['nodes']])
    edges = clist(['(%s, %s)' % (cnat(a), cnat(b)) for a, b in case['edges']])
    return '(is_correctly_labeled %s %s, relabel_rooted %s %s false, relabel_rooted %s %s true)' % (ids, edges, ids, edges, ids, edges)


def serial_form(case):
    """canonical data of a standard serial case: stage 1 = sink ... stage N = source"""
    byid = {d['id']: d for d in case['nodes']}
    succ = {a: b for a, b in case['edges']}
    src = [i for i in byid if i not in [b for _, b in case['edges']]]
    chain = [src[0]]
    while chain[-1] in succ: chain.append(succ[chain[-1]])
    chain.reverse()                                   # chain[0] = sink = stage 1
    N = len(chain)
    return dict(N=N, ids=chain, h=[byid[i]['h'] for i in chain], T=[byid[i]['T'] for i in chain], z=[byid[i]['z'] for i in chain],
                ein=byid[chain[-1]]['ein'], eout=byid[chain[0]]['eout'], sigma=byid[chain[0]]['sigma'], mu=byid[chain[0]]['mu'])


def run_serial(case, form):
    from stockpyl import gsm_serial
    s = serial_form(case); N = s['N']
    try:
        if form == 'kw':
            cst, cost = gsm_serial.optimize_committed_service_times(
                num_nodes=N, local_holding_cost=s['h'], processing_time=s['T'], demand_bound_constant=s['z'],
                external_outbound_cst=s['eout'], external_inbound_cst=s['ein'], demand_mean=s['mu'], demand_standard_deviation=s['sigma'])
        else:
            c2 = dict(nodes=[dict(id=k + 1, h=s['h'][k], T=s['T'][k], z=s['z'][k], sigma=(s['sigma'] if k == 0 else None),
                                  mu=(s['mu'] if k == 0 else None), ein=(s['ein'] if k == N - 1 else None), eout=(s['eout'] if k == 0 else None))
                             for k in range(N)], edges=[[k + 2, k + 1] for k in range(N - 1)])
            cst, cost = gsm_serial.optimize_committed_service_times(network=build_net(c2))
        return ('ok', [int(cst[k + 1]) for k in range(N)], cost)
    except Exception as e:
        return ('err', exc_kind(e), str(e)[:200])


def serial_ctab(s):
    M = s['ein']; Ms = [0] * s['N']
    for k in range(s['N'] - 1, -1, -1):
        M += s['T'][k]; Ms[k] = M
    return [[F(s['h'][k] * s['z'][k] * s['sigma'] * math.sqrt(t)) for t in range(Ms[k] + 1)] for k in range(s['N'])]


# ------------------------------------------------------------------------------------------------
# independent oracle data

class Ind:
    """independent re-computation from the raw case: topology, defaults, net sigma, max replenishment times, cost"""
    def __init__(self, case):
        self.ids = [d['id'] for d in case['nodes']]
        self.d = {d['id']: d for d in case['nodes']}
        self.pred = {i: [] for i in self.ids}; self.succ = {i: [] for i in self.ids}
        for a, b in case['edges']: self.succ[a].append(b); self.pred[b].append(a)
        self.ein = {i: (self.d[i]['ein'] or 0) for i in self.ids}
        self.eout = {i: (self.d[i]['eout'] if self.d[i]['eout'] is not None else None) for i in self.ids}
        self.T = {i: self.d[i]['T'] for i in self.ids}
        # demand-bound constant default: first sink (in insertion order) that has one, else 1
        sinks_z = [self.d[i]['z'] for i in self.ids if not self.succ[i] and self.d[i]['z'] is not None]
        self.z = {i: (self.d[i]['z'] if self.d[i]['z'] is not None else (sinks_z[0] if sinks_z else 1)) for i in self.ids}
        # topological order (upstream first)
        order = []; seen = set()
        def visit(i):
            if i in seen: return
            seen.add(i)
            for p in self.pred[i]: visit(p)
            order.append(i)
        for i in self.ids: visit(i)
        self.topo = order
        var = {}
        for i in reversed(order):
            var[i] = Fraction(self.d[i]['sigma'] or 0) ** 2 + sum(var[j] for j in self.succ[i])
        self.sig = {i: math.sqrt(var[i]) for i in self.ids}
        self.var = var
        self.M = {}
        for i in order:
            self.M[i] = self.T[i] + max([self.ein[i]] + [self.M[p] for p in self.pred[i]])
        self.coef = {i: self.d[i]['h'] * self.z[i] * self.sig[i] for i in self.ids}

    def SI(self, S, k): return max([self.ein[k]] + [S[p] for p in self.pred[k]])
    def nlt(self, S, k): return self.SI(S, k) + self.T[k] - S[k]
    def infeasibilities(self, S):
        bad = []
        for k in self.ids:
            if not (isinstance(S[k], int) or float(S[k]).is_integer()) or S[k] < 0: bad.append((k, 'cst %r is not a non-negative integer' % (S[k],)))
            if self.nlt(S, k) < 0: bad.append((k, 'net lead time %s < 0' % self.nlt(S, k)))
            if self.eout[k] is not None and S[k] > self.eout[k]: bad.append((k, 'cst %s > external outbound cst %s' % (S[k], self.eout[k])))
        return bad
    def cost(self, S):
        return math.fsum(self.coef[k] * math.sqrt(self.nlt(S, k)) for k in self.ids)
    def enum_size(self):
        p = 1
        for k in self.ids: p *= (self.M[k] + 1)
        return p
    def enumerate_min(self):
        """min cost over ALL feasible integer vectors (0 <= S_k <= min(SI_k + T_k, eout_k)), DFS in topological order"""
        topo = self.topo; n = len(topo)
        tab = {k: [self.coef[k] * math.sqrt(t) for t in range(self.M[k] + 1)] for k in topo}
        S = {}; best = [float('inf'), None, 0]
        def rec(j, acc):
            if j == n:
                best[2] += 1
                if acc < best[0]: best[0] = acc; best[1] = dict(S)
                return
            k = topo[j]
            si = max([self.ein[k]] + [S[p] for p in self.pred[k]])
            hi = si + self.T[k]
            if self.eout[k] is not None: hi = min(hi, self.eout[k])
            tk = tab[k]
            for s in range(hi + 1):
                S[k] = s
                rec(j + 1, acc + tk[si + self.T[k] - s])
        rec(0, 0.0)
        return best


def costs_near(a, b, rel=1e-7):
    return abs(a - b) <= rel * max(1.0, abs(a), abs(b))


# ------------------------------------------------------------------------------------------------
# model expressions

def cnatl(xs): return clist([cnat(x) for x in xs])
def cqtab(tab): return clist([cqlist(r) for r in tab])


def tree_expr(P):
    return ("let r := gsm_tree_run %s %s %s %s %s %s in (fst (fst r), eobs (snd (fst r)), snd r)"
            % (cnatl(P['par']), clist([cbool(b) for b in P['dn']]), cnatl(P['T']), cnatl(P['ein']),
               clist(['None' if e is None else '(Some %s)' % cnat(e) for e in P['eout']]), cqtab(P['ctab'])))


def helpers_expr(case, P, vecs):
    """gsm_helpers on the ORIGINAL tree (node positions = insertion order), for some CST vectors"""
    ids = [d['id'] for d in case['nodes']]; pos = {i: p for p, i in enumerate(ids)}; n = len(ids)
    porig = {o: p for p, o in enumerate(P['orig'])}
    edges = clist(['(%s, %s)' % (cnat(pos[a]), cnat(pos[b])) for a, b in case['edges']])
    T = cnatl([P['T'][porig[i]] for i in ids]); ein = cnatl([P['ein'][porig[i]] for i in ids])
    eo = clist(['None' if P['eout'][porig[i]] is None else '(Some %s)' % cnat(P['eout'][porig[i]]) for i in ids])
    ctab = cqtab([P['ctab'][porig[i]] for i in ids])
    var = cqlist([F(case['nodes'][p]['sigma'] or 0) ** 2 for p in range(n)])
    parts = []
    for v in vecs:
        S = '(nth_fun %s 0%%nat)' % cnatl([v[i] for i in ids])
        parts.append("(map (inbound_cst pr ein %s) nodes, map (fun k => let x := net_lead_time pr T ein %s k in (Z.leb 0 x, Z.abs_nat x)) nodes, feasible pr T ein eo nodes %s, "
                     "option_map qobs (solution_cost pr T ein c nodes %s))" % (S, S, S, S))
    return ("let pr := preds_of_edges %s in let T := nth_fun %s 0%%nat in let ein := nth_fun %s 0%%nat in let eo := nth_fun %s None in "
            "let c := ctab_fun %s in let nodes := seq 0 %s in "
            "(replen_tab pr T ein %s (2 * %s), map qobs (net_var_tab %s (nth_fun %s 0) %s %s), %s)"
            % (edges, T, ein, eo, ctab, cnat(n), cnat(n), cnat(n), edges, var, cnat(n), cnat(n), clist(parts)))


def serial_expr(s):
    return "let r := gsm_serial_run %s %s %s %s in (fst r, qobs (snd r))" % (cnatl(s['T']), cnat(s['ein']), cnat(s['eout']), cqtab(serial_ctab(s)))


# ------------------------------------------------------------------------------------------------

def case_key(case):
    ind = sorted((d['id'], d['h'], d['T'], d['z'], d['sigma'], d['ein'], d['eout']) for d in case['nodes'])
    rank = {t[0]: r for r, t in enumerate(ind)}
    return json.dumps([[t[1:] for t in ind], sorted([rank[a], rank[b]] for a, b in case['edges'])])


def oracle_tree(chk, case, r, enum_limit, rng, sigs, tag='', report=None, pre=''):
    """oracle on gsm_tree's own output for the data of `case`; returns (ind, info) ; reports through chk.fail (input reported: `report` or the case;
    `tag` is appended to the signatures and `pre` prefixed to the texts when the output comes from a call sequence)"""
    ind = Ind(case); _, cst, cost = r
    info = dict(enum=None, shape_ok=False)
    case = report if report is not None else case
    sp = shape_problem(ind.ids, cst, cost)
    if sp:
        chk.fail('gsm_tree.optimize_committed_service_times|cst-keys' + tag, pre + sp + ' (returned %r)' % (cst,), case); return ind, info
    info['shape_ok'] = True
    bad = ind.infeasibilities(cst)
    if bad:
        chk.fail('gsm_tree._cst_dp_tree|infeasible-cst' + tag, pre + 'returned CSTs %r are infeasible: %r' % (cst, bad[:3]), case); return ind, info
    rc = ind.cost(cst)
    if not close(rc, cost):
        chk.fail('gsm_tree._cst_dp_tree|cost-of-returned-cst' + tag, pre + 'reported cost %r != independently recomputed cost %r of the returned CSTs %r' % (cost, rc, cst), case)
    size = ind.enum_size()
    if size <= enum_limit:
        best, arg, cnt = ind.enumerate_min()
        info['enum'] = cnt
        chk.count('enumerated')
        if not close(best, cost):
            if best < cost:
                chk.fail('gsm_tree._cst_dp_tree|not-optimal' + tag, pre + 'reported cost %r but the feasible vector %r costs %r (%d feasible vectors enumerated)' % (cost, arg, best, cnt), case)
            else:
                chk.fail('gsm_tree._cst_dp_tree|cost-below-every-feasible' + tag, pre + 'reported cost %r is below the cheapest feasible vector %r (cost %r)' % (cost, arg, best), case)
    else:
        chk.count('enum_skipped')
    return ind, info


def compare_vectors(chk, ind, a, b, what, case, mismatch):
    """a, b: dict id -> cst. Equal, or both feasible with costs within the margin (tie broken differently under rounding)."""
    if a == b: return True
    if not ind.infeasibilities(a) and not ind.infeasibilities(b) and costs_near(ind.cost(a), ind.cost(b)):
        chk.extra['near_tie_skipped'] = chk.extra.get('near_tie_skipped', 0) + 1
        return True
    mismatch(what + ': %r vs %r' % (a, b), case)
    return False


def same_result(chk, ind, a, b, sig, what, case):
    """two solves that must agree: b is shape-checked, costs within 1e-9, CST vectors equal up to ties"""
    if b[0] != 'ok':
        chk.fail(sig + ':raises-%s' % b[1], what + ': raises %s: %s' % (b[1], b[2]), case); return False
    sp = shape_problem(ind.ids, b[1], b[2])
    if sp:
        chk.fail(sig + ':cst-keys', what + ': ' + sp, case); return False
    if not close(a[2], b[2]):
        chk.fail(sig + ':cost', what + ': cost %r vs %r (CSTs %r vs %r)' % (a[2], b[2], a[1], b[1]), case); return False
    return compare_vectors(chk, ind, a[1], b[1], what + ': CSTs differ (beyond ties)', case, lambda w, cc: chk.fail(sig + ':cst', w, cc))


def oracle_sequences(chk, case, r, enum_limit):
    """call sequences on the SAME objects (implementation only). r = ('ok', cst, cost) of a freshly built network, shape already validated.
    (a) the same network object solved twice; (b) what-if scenario case['whatif']: preprocess_tree, solve, edit the pre-processed tree, solve again
    (full oracle for the edited data + comparison with a freshly built network of the edited data), solve relabel_nodes(edited tree)."""
    from stockpyl import gsm_tree
    ind = Ind(case)
    net = build_net(case)
    for nth in ('first', 'second'):
        x = run_tree(case, net)
        chk.count('seq_same_object_solves')
        if x[0] != 'ok' or x[1] != r[1] or x[2] != r[2]:      # the same deterministic computation: identical, not merely close
            chk.fail('gsm_tree.optimize_committed_service_times|repeated-call-on-same-network', '%s solve of one network object gives %r, a fresh network %r' % (nth, x, r), case); return
    edits = case.get('whatif')
    if not edits: return
    chk.count('whatif_scenarios'); chk.count('whatif_edits=%d' % len(edits))
    for _, a, _ in edits: chk.count('whatif_attr=%s' % a)
    try:
        t = gsm_tree.preprocess_tree(net)
    except Exception as e:
        chk.fail('gsm_tree.preprocess_tree|raises-%s' % exc_kind(e), str(e)[:200], case); return
    r0 = run_tree(case, t)
    if not same_result(chk, ind, r, r0, 'gsm_tree.optimize_committed_service_times|preprocessed-tree-as-input', 'pre-processed tree vs raw network', case): return
    apply_edits(t, edits)
    cB = edited_case(case, edits)
    indB = Ind(cB)
    pre = 'after t = preprocess_tree(network) and the edits %r of t: ' % (edits,)
    rE = run_tree(cB, t)
    if rE[0] != 'ok':
        chk.fail('gsm_tree.optimize_committed_service_times|raises-%s|edited-preprocessed-tree' % rE[1], pre + 'raises %s: %s' % (rE[1], rE[2]), case); return
    _, infoB = oracle_tree(chk, cB, rE, enum_limit, None, None, tag='|edited-preprocessed-tree', report=case, pre=pre)
    if not infoB['shape_ok']: return
    rF = run_tree(cB)
    if rF[0] == 'ok' and not shape_problem(indB.ids, rF[1], rF[2]):
        same_result(chk, indB, rF, rE, 'gsm_tree.preprocess_tree|edited-preprocessed-tree-vs-fresh-network', pre + 'freshly built network with the same data vs the edited tree', case)
    # the edited tree, relabelled by the caller: keys are the new indices, original_label maps them back
    try:
        t2 = gsm_tree.relabel_nodes(t)
        back = {intkey(k.index): intkey(k.original_label) for k in t2.nodes}
    except Exception as e:
        chk.fail('gsm_tree.relabel_nodes|raises-%s|edited-preprocessed-tree' % exc_kind(e), pre + str(e)[:200], case); return
    r2 = run_tree(cB, t2)
    if r2[0] == 'ok' and isinstance(r2[1], dict) and set(r2[1]) == set(back):
        r2 = ('ok', {back[k]: v for k, v in r2[1].items()}, r2[2])
    same_result(chk, indB, rE, r2, 'gsm_tree.optimize_committed_service_times|relabel_nodes-output-as-input', pre + 'relabel_nodes(t) (CSTs mapped back through original_label) vs t', case)


def explore(chk, ncases, nmax, enum_limit, do_model=True, kinds=None):
    rng = chk.rng
    cases = []
    for i in range(ncases):
        c = gen_case(rng, nmax, kind=(rng.choice(kinds) if kinds else None))
        if rng.random() < 0.04:
            # malformed: a sink without demand standard deviation -> documented ValueError
            sinks = [d for d in c['nodes'] if d['id'] not in [a for a, _ in c['edges']]]
            sinks[0]['sigma'] = None; sinks[0]['mu'] = 5; c['malformed'] = 'sink-without-std'
        cases.append(c)
    impl = [run_tree(c) for c in cases]
    exprs = []; slots = []
    preps = []
    for c, r in zip(cases, impl):
        P = None
        if r[0] == 'ok' and not c['malformed'] and not shape_problem([d['id'] for d in c['nodes']], r[1], r[2]):
            try: P = impl_prep(c)
            except Exception as e: P = None; chk.fail('gsm_tree.relabel_nodes|raises-%s' % exc_kind(e), str(e)[:200], c)
        preps.append(P)
        sl = {}
        if do_model and P is not None:
            ids = [d['id'] for d in c['nodes']]
            ind0 = Ind(c)
            rv = {i: rng.randint(0, ind0.M[i] + 1) for i in ids}
            sl['vecs'] = [r[1], rv]
            sl['tree'] = len(exprs); exprs.append(tree_expr(P))
            sl['help'] = len(exprs); exprs.append(helpers_expr(c, P, sl['vecs']))
            sl['relab'] = len(exprs); exprs.append(relabel_expr(c))
            if c['serial_std']:
                sl['ser'] = len(exprs); exprs.append(serial_expr(serial_form(c)))
        slots.append(sl)
    model = coq_eval_sharded('c08', 'Alg.GSM', '', exprs, shard=40, jobs=12) if exprs else []
    def check_one(c, r, P, sl):
        n = len(c['nodes'])
        chk.count('kind=%s' % c['kind']); chk.count('n=%d' % n); chk.count('malformed=%s' % c['malformed'])
        if c['malformed']:
            if r[0] != 'err' or r[1] != 'ValueError':
                chk.fail('gsm_tree.optimize_committed_service_times|malformed-%s-accepted' % c['malformed'], 'not rejected with ValueError: %r' % (r[:2],), c)
            chk.case(c, False); return
        if r[0] == 'err':
            chk.fail('gsm_tree.optimize_committed_service_times|raises-%s' % r[1], 'valid tree raises %s: %s' % (r[1], r[2]), c)
            chk.case(c, False); return
        ind, info = oracle_tree(chk, c, r, enum_limit, rng, None)
        cst, cost = r[1], r[2]
        if not info['shape_ok']:
            chk.case(c, False); return
        # ---------- call sequences on the same objects: repeated solve, pre-processed tree as input, edited pre-processed tree, relabelled tree
        oracle_sequences(chk, c, r, enum_limit)
        if P is not None:
            if any(P['orig'][p] not in ind.ids for p in range(n)): chk.fail('gsm_tree.relabel_nodes|original_label', 'original labels %r' % P['orig'], c)
            else:
                # independent re-computation of the preprocessing
                for p in range(n):
                    i = P['orig'][p]
                    if P['M'][p] != ind.M[i]: chk.fail('gsm_tree._longest_paths|max-replenishment-time', 'node %s: %s, independent longest path %s' % (i, P['M'][p], ind.M[i]), c)
                    if not close(P['sig'][p], ind.sig[i]): chk.fail('gsm_tree._net_demand|net-std', 'node %s: %r vs %r' % (i, P['sig'][p], ind.sig[i]), c)
                    if P['z'][p] != ind.z[i]: chk.fail('gsm_tree.preprocess_tree|demand-bound-constant', 'node %s: %r vs %r' % (i, P['z'][p], ind.z[i]), c)
                    if p < n - 1 and not (p < P['par'][p] < n): chk.fail('gsm_tree.relabel_nodes|larger-adjacent', 'node %s at position %d has larger adjacent position %d' % (i, p, P['par'][p]), c)
                    if p < n - 1:
                        q = P['orig'][P['par'][p]]
                        if not ((P['dn'][p] and q in ind.succ[i]) or (not P['dn'][p] and q in ind.pred[i])):
                            chk.fail('gsm_tree.relabel_nodes|larger-adjacent-direction', 'node %s -> %s downstream=%s' % (i, q, P['dn'][p]), c)
        # ---------- relabelling invariance (oracle, implementation only)
        c2, mp = relabelled(c, rng)
        r2 = run_tree(c2)
        if r2[0] != 'ok':
            chk.fail('gsm_tree.optimize_committed_service_times|relabelled-raises-%s' % r2[1], 'relabelled copy raises: %s' % r2[2], c)
        elif shape_problem([d['id'] for d in c2['nodes']], r2[1], r2[2]):
            # the failing input is the relabelled copy itself
            chk.fail('gsm_tree.optimize_committed_service_times|cst-keys', shape_problem([d['id'] for d in c2['nodes']], r2[1], r2[2]) + ' (returned %r)' % (r2[1],), c2)
        else:
            if not close(r2[2], cost):
                chk.fail('gsm_tree.relabel_nodes|cost-depends-on-labels', 'cost %r, after relabelling %r %r' % (cost, mp, r2[2]), c)
            back = {i: r2[1][mp[i]] for i in ind.ids}
            compare_vectors(chk, ind, cst, back, 'CSTs depend on node labels (beyond ties)', c,
                            lambda w, cc: chk.fail('gsm_tree.relabel_nodes|cst-depends-on-labels', w, cc))
        # ---------- serial algorithm on standard serial systems
        if c['serial_std']:
            s = serial_form(c)
            for form in ('kw', 'network'):
                rs = run_serial(c, form)
                chk.count('serial_runs')
                if rs[0] != 'ok':
                    chk.fail('gsm_serial.optimize_committed_service_times|raises-%s' % rs[1], '%s form: %s' % (form, rs[2]), c); continue
                sv = {s['ids'][k]: rs[1][k] for k in range(s['N'])}
                bad = ind.infeasibilities(sv)
                if bad:
                    k1 = s['ids'][0]
                    sig = 'gsm_serial._cst_dp_serial|S1=eout>SI1+T1' if (len(bad) == 1 and bad[0][0] == k1 and sv[k1] == s['eout']) else 'gsm_serial._cst_dp_serial|infeasible-cst'
                    chk.fail(sig, 'returned CSTs %r (stage order %r) are infeasible: %r' % (rs[1], s['ids'], bad[:3]), c)
                else:
                    if not close(ind.cost(sv), rs[2]):
                        chk.fail('gsm_serial._cst_dp_serial|cost-of-returned-cst', 'reported %r, recomputed %r for %r' % (rs[2], ind.cost(sv), rs[1]), c)
                if not close(rs[2], cost):
                    chk.fail('gsm_serial._cst_dp_serial|serial-vs-tree-cost', 'serial cost %r vs tree cost %r' % (rs[2], cost), c)
                elif not bad:
                    compare_vectors(chk, ind, cst, sv, 'serial and tree CSTs differ (beyond ties)', c,
                                    lambda w, cc: chk.fail('gsm_serial._cst_dp_serial|serial-vs-tree-cst', w, cc))
                if form == 'kw' and 'ser' in sl:
                    mcst, mcost = model[sl['ser']]
                    chk.traces += 1
                    if not close(qv(mcost), rs[2]):
                        chk.mismatch('serial model cost %r vs implementation %r' % (float(qv(mcost)), rs[2]), c)
                    msv = {s['ids'][k]: mcst[k] for k in range(s['N'])}
                    if len(mcst) != s['N']: chk.mismatch('serial model cst %r' % (mcst,), c)
                    elif not bad: compare_vectors(chk, ind, sv, msv, 'serial model vs implementation CSTs', c, chk.mismatch)
                    elif list(mcst) != rs[1]: chk.mismatch('serial model cst %r vs implementation %r' % (mcst, rs[1]), c)
        # ---------- model vs implementation
        if 'tree' in sl:
            chk.traces += 1
            msol, mcost, mM = model[sl['tree']]
            if list(mM) != P['M']:
                chk.mismatch('model max replenishment times %r vs implementation %r' % (mM, P['M']), c)
            mc = None if mcost is None else float(qv(mcost[1] if (isinstance(mcost, tuple) and mcost[0] == 'Some') else mcost))
            if mc is None or not close(mc, cost):
                chk.mismatch('tree model cost %r vs implementation %r' % (mc, cost), c)
            if msol is None:
                chk.mismatch('tree model backtracking hits a KeyError (None) but the implementation returned %r' % (cst,), c)
            else:
                pairs = msol[1] if (isinstance(msol, tuple) and msol[0] == 'Some') else msol
                mv = {P['orig'][p]: pairs[p][0] for p in range(n)}
                compare_vectors(chk, ind, cst, mv, 'tree model vs implementation CSTs', c, chk.mismatch)
            # relabel_nodes / is_correctly_labeled / _find_larger_adjacent_nodes
            mic, mroot, mrootf = model[sl['relab']]
            chk.count('already_correctly_labelled=%s' % P['is_correct'])
            if bool(mic) != P['is_correct']:
                chk.mismatch('is_correctly_labeled: model %r vs implementation %r' % (mic, P['is_correct']), c)
            if [tuple(x) for x in mroot] != P['rooted']:
                chk.mismatch('relabel_nodes: model %r vs implementation %r' % (mroot, P['rooted']), c)
            if [tuple(x) for x in mrootf] != P['rooted_forced']:
                chk.mismatch('relabel_nodes(force_relabel=True): model %r vs implementation %r' % (mrootf, P['rooted_forced']), c)
            # gsm_helpers
            from stockpyl import gsm_helpers
            hM, hvar, hv = model[sl['help']]
            ids = [d['id'] for d in c['nodes']]
            if [int(x) for x in hM] != [ind.M[i] for i in ids]:
                chk.mismatch('model longest paths on the original tree %r vs %r' % (hM, [ind.M[i] for i in ids]), c)
            porig = {o: p for p, o in enumerate(P['orig'])}
            for i, v in zip(ids, hvar):
                if not close(math.sqrt(float(qv(v))), P['sig'][porig[i]]):
                    chk.mismatch('model net variance of node %s %r vs implementation std %r' % (i, float(qv(v)), P['sig'][porig[i]]), c)
            for vec, (msi, mnlt, mfeas, mcostv) in zip(sl['vecs'], hv):
                isi = gsm_helpers.inbound_cst(P['pt'], ids, vec); inlt = gsm_helpers.net_lead_time(P['pt'], ids, vec)
                if [int(isi[i]) for i in ids] != list(msi) or [int(inlt[i]) for i in ids] != [(a if sg else -a) for sg, a in mnlt]:
                    chk.mismatch('gsm_helpers inbound_cst/net_lead_time %r %r vs model %r %r for cst %r' % (isi, inlt, msi, mnlt, vec), c)
                if bool(mfeas) != (not ind.infeasibilities(vec)):
                    chk.mismatch('model feasibility %r vs independent check for cst %r' % (mfeas, vec), c)
                try: ic = gsm_helpers.solution_cost_from_cst(P['pt'], vec)
                except ValueError: ic = None
                mcv = None if mcostv is None else float(qv(mcostv[1] if (isinstance(mcostv, tuple) and mcostv[0] == 'Some') else mcostv))
                if (ic is None) != (mcv is None) or (ic is not None and not close(ic, mcv)):
                    chk.mismatch('gsm_helpers.solution_cost_from_cst %r vs model %r for cst %r' % (ic, mcv, vec), c)
                if ic is not None and not close(ic, ind.cost(vec)):
                    chk.fail('gsm_helpers.solution_cost_from_cst|vs-independent-formula', '%r vs %r for cst %r' % (ic, ind.cost(vec), vec), c)
                # safety stocks and base-stock levels of the same CST vector (scalar and list forms): safety stock = z sigma sqrt(net lead time),
                # base-stock level = net mean demand x net lead time + safety stock; safety-stock cost through the base-stock route: a solution
                # described by its base-stock levels costs sum_k h_k (level_k - net mean_k), which at net lead time 1 is the CST cost again
                if ic is not None:
                    try:
                        ssl = gsm_helpers.safety_stock_levels(P['pt'], ids, vec); bsl = gsm_helpers.cst_to_base_stock_levels(P['pt'], ids, vec)
                        one = ids[len(ids) // 2]
                        ss1 = gsm_helpers.safety_stock_levels(P['pt'], one, vec); bs1 = gsm_helpers.cst_to_base_stock_levels(P['pt'], one, vec)
                        chk.count('gsm_helpers:safety-stock/base-stock levels checked')
                        for i in ids:
                            want = ind.z[i] * ind.sig[i] * math.sqrt(ind.nlt(vec, i))
                            if not close(ssl[i], want):
                                chk.fail('gsm_helpers.safety_stock_levels|vs-independent-formula', 'node %s: %r vs z sigma sqrt(NLT) = %r for cst %r' % (i, ssl[i], want, vec), c); break
                            mean_i = float(P['pt'].nodes_by_index[i].net_demand_mean)
                            if not close(bsl[i], mean_i * ind.nlt(vec, i) + want):
                                chk.fail('gsm_helpers.cst_to_base_stock_levels|vs-independent-formula', 'node %s: %r vs mean x NLT + safety stock = %r for cst %r'
                                         % (i, bsl[i], mean_i * ind.nlt(vec, i) + want, vec), c); break
                        if not (close(ss1, ssl[one]) and close(bs1, bsl[one])):
                            chk.fail('gsm_helpers|scalar-vs-list-form', 'node %s: scalar call gives (%r, %r), list call (%r, %r) for cst %r' % (one, ss1, bs1, ssl[one], bsl[one], vec), c)
                        lv = {i: float(P['pt'].nodes_by_index[i].net_demand_mean) + ssl[i] for i in ids}
                        cb = gsm_helpers.solution_cost_from_base_stock_levels(P['pt'], lv)
                        if not close(cb, ic):
                            chk.fail('gsm_helpers.solution_cost_from_base_stock_levels|vs-cst-cost', 'levels = net mean + safety stock of cst %r cost %r, the CST cost is %r' % (vec, cb, ic), c)
                    except Exception as e:
                        chk.fail('gsm_helpers|raises-%s' % exc_kind(e), 'safety_stock_levels / cst_to_base_stock_levels / solution_cost_from_base_stock_levels on cst %r: %s' % (vec, str(e)[:200]), c)
        npos = sum(1 for i in ind.ids if ind.nlt(cst, i) > 0) if not ind.infeasibilities(cst) else 0
        nontriv = n >= 2 and (0 < npos < n or (info['enum'] or 0) >= 20)
        chk.case(c, nontriv, case_key(c))


    for c, r, P, sl in zip(cases, impl, preps, slots):
        nf = len(chk.fails)
        try:
            check_one(c, r, P, sl)
        except Exception as e:
            # the oracle could not digest what the implementation returned for this input (and has not already said why): report the input
            if len(chk.fails) == nf:
                import traceback
                chk.fail('gsm_tree.optimize_committed_service_times|output-not-processable-%s' % exc_kind(e), 'the oracle raised on the output %r: %s' % (r, traceback.format_exc()[-400:]), c)
            chk.case(c, False)

def run(chk):
    chk.rule = RULE
    chk.trusted += ['model Alg/GSM.v is hand-written; tied to /repo by comparing optimal cost (1e-9), CST vectors (margin rule for ties), max replenishment '
                    'times, net variances and gsm_helpers quantities on generated instances; the relabelled tree (larger_adjacent_node, direction flag) and the '
                    'stage-cost tables h*z*sigma*sqrt(tau) are read from the implementation run and passed to the model as exact rationals of the floats',
                    'independent Python oracle (own topology, defaults, net sigma, longest paths, cost formula, exhaustive DFS enumeration of every feasible integer CST vector)']
    chk.assume += ['floating-point rounding is not modelled: theorems are over exact rationals with an arbitrary stage-cost table; costs are compared at 1e-9 relative, '
                   'CST vectors may differ only between solutions whose costs agree within 1e-7 (counted as near_tie_skipped)',
                   'stage costs are non-decreasing in the net lead time (true for h*z*sigma*sqrt(tau) with non-negative coefficients) where a theorem says so']
    chk.proof()
    if chk.tier == 'quick': n, nmax, lim = 220, 6, 30000
    else: n, nmax, lim = 3000, 8, 400000
    explore(chk, n, nmax, lim)
    if (chk.broken or chk.mismatches) and not chk.fails:
        explore(chk, 4 * n if chk.tier == 'quick' else n, nmax, lim, do_model=False)


def replay(chk, rp):
    c = rp['case']
    r = run_tree(c)
    print('gsm_tree:', jsonable(r))
    if c.get('malformed'):
        if r[0] != 'err' or r[1] != 'ValueError': chk.fail('gsm_tree.optimize_committed_service_times|malformed-%s-accepted' % c['malformed'], repr(r[:2]), c)
    elif r[0] != 'ok':
        chk.fail('gsm_tree.optimize_committed_service_times|raises-%s' % r[1], r[2], c)
    else:
        ind, info = oracle_tree(chk, c, r, 2000000, chk.rng, None)
        print('enumerated feasible vectors:', info['enum'])
        if not info['shape_ok']:
            chk.case(c); return
        oracle_sequences(chk, c, r, 2000000)
        c2, mp = relabelled(c, chk.rng); r2 = run_tree(c2)
        if r2[0] == 'ok' and shape_problem([d['id'] for d in c2['nodes']], r2[1], r2[2]):
            chk.fail('gsm_tree.optimize_committed_service_times|cst-keys', shape_problem([d['id'] for d in c2['nodes']], r2[1], r2[2]) + ' (relabelled copy %r)' % (mp,), c)
        elif r2[0] == 'ok' and not close(r2[2], r[2]): chk.fail('gsm_tree.relabel_nodes|cost-depends-on-labels', '%r vs %r' % (r[2], r2[2]), c)
        if c.get('serial_std'):
            s = serial_form(c)
            for form in ('kw', 'network'):
                rs = run_serial(c, form); print('gsm_serial (%s):' % form, jsonable(rs))
                if rs[0] != 'ok': chk.fail('gsm_serial.optimize_committed_service_times|raises-%s' % rs[1], rs[2], c); continue
                sv = {s['ids'][k]: rs[1][k] for k in range(s['N'])}
                bad = ind.infeasibilities(sv)
                if bad: chk.fail('gsm_serial._cst_dp_serial|infeasible-cst', '%r: %r' % (rs[1], bad[:3]), c)
                elif not close(ind.cost(sv), rs[2]): chk.fail('gsm_serial._cst_dp_serial|cost-of-returned-cst', '%r vs %r' % (rs[2], ind.cost(sv)), c)
                if not close(rs[2], r[2]): chk.fail('gsm_serial._cst_dp_serial|serial-vs-tree-cost', '%r vs %r' % (rs[2], r[2]), c)
    chk.case(c)
