"""C16 — demand and disruption generators realise their declared distributions (PARTIAL BY NATURE).

Three kinds of evidence, kept apart in the evidence file:
  (a) CORRESPONDENCE (deterministic): np.random.seed(s); the harness draws the same primitive variates from a parallel
      np.random.RandomState(s) and requires generate_demand() / update_disruption_state() == model(params, variates):
      bit-for-bit against the float transcription of the transform, and against the Gallina model Alg/Gen.v over Q
      (exactly when the float operations are exact, else within 4 ulp of the operands' magnitude); list replay (D / explicit) exactly.
  (b) ORACLE on the implementation (independent recomputation): support membership, reported mean/sd/cdf vs the
      exposed distribution object and vs closed forms, lead-time demand vs an independent exact L-fold convolution,
      validate_parameters on probability vectors, steady-state probabilities.
  (c) SEARCH (statistical): goodness of fit of the samples (DKW/KS, exact binomial frequency tests, z-tests on mean and
      variance) with thresholds sized for a total false-alarm probability < 1e-6 per run.  Not proof.
"""
import math, warnings
from fractions import Fraction as Fr
import numpy as np
from vlib import *

RULE = ('correspondence cases: type in UC/N/CD/UD/P/NB x (dyadic | general float) parameters x round_to_int on/off x seed, n draws '
        'replayed against a parallel RandomState; custom discrete (CD) supports are distinct integers in 0..24 or, in 40% of the correspondence cases, half of the CD statistical cases and a separate reported-mean/sd/cdf stream, FRACTIONAL units (multiples of 1/2, 1/4, 1/8, 1/10, 1/20 inside [0,1], [0,3] or [0,24], at least one non-integer; with round_to_int the declared law is that of the half-to-even rounded values); cdf of CD sources is queried at every support point, the floats adjacent to it and the midpoints between neighbours; lead-time cases use integer CD supports only; Markov chains (alpha,beta in dyadics and general floats, a third of them with alpha or beta equal to 0 or 1 (int or float), both start states; every transition of declared probability 0 or 1 is checked individually); '
        'deterministic demand lists / explicit disruption lists of length 0..7 (scalar too) replayed for periods None,0..3*len+2, the values held in a python list (half of the cases), a tuple or a numpy array (numpy scalar for a third of the scalars), each period asked of a fresh object and of one object queried for all periods in turn; the result must be ONE value (not a sequence); explicit steady-state cases use the same containers; '
        'oracle cases: per type parameter sets (reported mean/sd/cdf), lead times L=1..Lmax (L-fold convolution), probability '
        'vectors (short decimal / 1/k up to k=100 / normalised weights of length 20-100 / scipy pmf tables / sums perturbed by <= 5e-10) summing to one within 1e-9, or clearly not; SEQUENCES of 2-5 lead-time + mean/sd/cdf queries in one process that reuse demand_list / lo,hi / n,p / mean with other parameters changed and the same L, on fresh objects or one object mutated in place; statistical cases: n samples per parameter set; Markov chains with alpha,beta in [0.05,0.95] (n steps) and boundary chains with alpha or beta in {0,1} (n/5 steps: absorbing, never disrupted, one-period disruptions, alternating). '
        'non-trivial = >=2 distinct sample values (random types), list longer than 1 replayed past its end (lists), both states '
        'visited (Markov), L>=2 (lead time), float sum != 1.0 exactly or non-dyadic entries (probability vectors); '
        'distinct = distinct (kind, parameters, seed). '
        'NUMERIC TYPES: in about half of the correspondence, Markov, reported, lead-time, steady-state and statistical cases (every other statistical Markov chain, one of them '
        'with np.float64 probabilities throughout) each numeric parameter (mean, standard_deviation, lo/hi of UC, n, p, entries of probabilities / demand_list, '
        'disruption_probability, recovery_probability, the lead time of N/P demand, the start state) is written, with probability 0.6, as python float, np.float64, np.int64/np.int32 '
        '(integer values), 0-d array, np.float32 (sample paths only, values exact in single precision), ndarray (lists), np.bool_/0-1 int (start state) of the SAME value; the declared law '
        'is that of the value, so every oracle applies unchanged (the state produced by one update feeds the next for 40 / 20000 / 100000 periods). '
        'SEVERAL OBJECTS ALIVE: groups of 2-4 DemandSource objects (every other group one type for all, parameters fresh or partly shared; else mixed types incl. deterministic) are created first, '
        'then ALL their lead-time distribution objects (1-2 lead times each) are obtained, and only then each object is compared with the L-fold convolution of its own source (creation / reverse / '
        'shuffled order), followed by reported mean/sd/cdf of every source and round-robin generate_demand() under one seed against the transform of the variates; groups of 2-4 DisruptionProcess '
        'objects (Markovian, some explicit) are advanced side by side period by period and each is held against its own declared chain (transcription on the interleaved variates, transitions of '
        'probability 0/1, transition and steady-state frequencies) / its own list; non-trivial = >= 2 distribution objects held at once.')

NT_MAX = 2000                      # budget of statistical tests per run
DELTA = 1e-6 / NT_MAX              # per-test false-alarm probability (Bonferroni)
Z_SAFETY = 1.15                    # inflation of normal-approximation thresholds (CLT error in the far tail)


def _z():
    from scipy.stats import norm
    return float(norm.isf(DELTA / 2)) * Z_SAFETY


# ------------------------------------------------------------------------------------------------
# implementation adapters

def in_container(lst, container):
    """the same sequence of per-period values held in another kind of container ('list' leaves python lists / scalars as they are):
    a tuple, a numpy array, or - for a scalar - a numpy scalar.  Cases store plain lists; the container is applied here."""
    if container in (None, 'list', 'scalar'): return lst
    if isinstance(lst, list):
        if container == 'tuple': return tuple(lst)
        if container == 'ndarray': return np.array(lst, dtype=bool if all(isinstance(x, bool) for x in lst) and lst else float)
        raise ValueError(container)
    if container == 'npscalar': return np.bool_(lst) if isinstance(lst, bool) else np.float64(lst)
    raise ValueError(container)


def typed(v, form):
    """the same number written as another numeric TYPE (cases store plain python values; the type is applied here):
    'float' python float, 'np.float64', 'np.float32' (only for values a float32 holds exactly), 'np.int64' / 'np.int32' (integer values),
    'array0d' a 0-d numpy array; for truth values 'np.bool_' and 'int01'; for lists the form applies to every entry, 'ndarray' makes
    the list a numpy array."""
    if form in (None, 'py'): return v
    if isinstance(v, list):
        if form == 'ndarray': return np.array(v)
        return [typed(x, form) for x in v]
    if form == 'np.bool_': return np.bool_(v)
    if form == 'int01': return int(bool(v))
    if form == 'float': return float(v)
    if form == 'np.float64': return np.float64(v)
    if form == 'array0d': return np.array(v)
    if form == 'np.float32':
        x = np.float32(v); assert float(x) == v, (v, form); return x
    if form in ('np.int64', 'np.int32'):
        assert float(v).is_integer(), (v, form); return (np.int64 if form == 'np.int64' else np.int32)(int(v))
    raise ValueError(form)


def scalar_forms(v, sampling_only):
    """numeric types that hold the value v exactly.  float32 only for the sample-path streams (generate_demand / update_disruption_state
    draw in double precision whatever the type of the parameters; derived float32 quantities - sd, sqrt(L) sd, pi - carry float32
    rounding, which is not what is being tested)"""
    fs = ['float', 'np.float64', 'np.float64', 'array0d']
    if float(v).is_integer(): fs += ['np.int64', 'np.int32']
    if sampling_only and float(np.float32(v)) == float(v): fs += ['np.float32']
    return fs


def gen_forms(rng, t, params, sampling_only=False, ltd=False, always=None):
    """numeric TYPE of every numeric parameter of a DemandSource (or, t == 'M', of a Markovian DisruptionProcess: params = alpha,
    beta, d0): each parameter keeps its python type with probability 0.4 and is otherwise written in one of the numpy / float forms
    that hold its value exactly.  Only forms the unchanged library accepts are generated (see NUMERIC_FORM_NOTES): 'UD' bounds and
    the lead time of the summed types stay python ints, a custom discrete demand_list stays a python list of ints in lead-time cases."""
    out = {}
    for k, v in params.items():
        if always is None and rng.random() < 0.4: continue
        if t == 'M' and k == 'd0': f = rng.choice(['np.bool_', 'np.bool_', 'int01'])
        elif t == 'UD': continue
        elif t == 'CD':
            if k == 'demand_list':
                if ltd: continue
                f = rng.choice(['float', 'np.float64', 'ndarray'] + (['np.int64'] if all(float(x).is_integer() for x in v) else []))
            else: f = rng.choice(['np.float64', 'ndarray'])
        elif isinstance(v, (int, float)) and not isinstance(v, bool):
            f = always if always is not None else rng.choice(scalar_forms(v, sampling_only))
        else: continue
        out[k] = f
    return out


NUMERIC_FORM_NOTES = ('numeric parameter types: python int / float, numpy float64, float32 (sample paths only), int64, int32, 0-d array for mean, '
                      'standard_deviation, lo / hi of UC, n, p, disruption_probability, recovery_probability, the lead time of N / P demand, the entries of '
                      'probabilities and (outside lead-time cases) of a custom discrete demand_list; numpy bool / 0-1 int start state.  NOT generated, because '
                      "the unchanged library rejects them with an exception (reported, not counted as failing inputs): numpy integers / 0-d arrays / float32 as 'UD' "
                      "lo, hi (validate_parameters: 'must be a non-negative integer', helpers.is_integer knows python int and float only) and as the lead time of UC / UD / NB / CD "
                      "demand (ValueError 'lead_time must be an integer'); a float lead time with an integer value (2.0, np.float64(2)) passes that test and then raises TypeError "
                      "in the convolution; float-typed integer 'UD' bounds pass validate_parameters and raise TypeError in lead_time_demand_distribution")


def count_forms(chk, stream, forms):
    for f in (forms or {}).values(): chk.count('numeric form (%s) %s' % (stream, f))
    if not forms: chk.count('numeric form (%s) python' % stream)


def mk_ds(c):
    from stockpyl.demand_source import DemandSource
    ds = DemandSource(type=c['type'], round_to_int=c.get('round'))
    forms = c.get('forms') or {}
    for k, v in c['params'].items():
        if c['type'] == 'D' and k == 'demand_list': v = in_container(v, c.get('container'))
        setattr(ds, k, typed(v, forms.get(k)))
    return ds


def mk_dp(c):
    from stockpyl.disruption_process import DisruptionProcess
    if c['ptype'] == 'M':
        forms = c.get('forms') or {}
        return DisruptionProcess(random_process_type='M', disruption_probability=typed(c['alpha'], forms.get('alpha')),
                                 recovery_probability=typed(c['beta'], forms.get('beta')), disrupted=typed(c.get('d0', False), forms.get('d0')))
    return DisruptionProcess(random_process_type='E', disruption_state_list=in_container(c['states'], c.get('container')))


def markov_forms(rng, c, sampling_only=False, always=None):
    f = gen_forms(rng, 'M', dict(alpha=c['alpha'], beta=c['beta']), sampling_only=sampling_only, always=always)
    if always is None and rng.random() < 0.5: f['d0'] = rng.choice(['np.bool_', 'np.bool_', 'int01'])
    return f


def draw_one(r, c):
    """the primitive variate one generate_demand() call of source c consumes, drawn from the parallel RandomState r"""
    t = c['type']; p = c['params']
    if t in ('UC', 'CD'): return float(r.random_sample())
    if t == 'N': return float(r.standard_normal())
    if t == 'UD': return int(r.randint(int(p['lo']), int(p['hi']) + 1))
    if t == 'P': return int(r.poisson(p['mean']))
    if t == 'NB': return int(r.negative_binomial(p['n'], p['p']))
    raise ValueError(t)


def draw_variates(c, n):
    """the primitive variates generate_demand() consumes under np.random.seed(c['seed']), from a parallel RandomState"""
    r = np.random.RandomState(c['seed'])
    return [draw_one(r, c) for _ in range(n)]


def np_round_int(x):
    return int(np.round(x))


def float_model(c, v):
    """float transcription of the variate transform (what the declared distribution's sampler must return)"""
    t = c['type']; p = c['params']
    if t == 'UC':
        x = p['lo'] + (p['hi'] - p['lo']) * v
    elif t == 'N':
        x = max(0, float(p['mean'] + p['standard_deviation'] * v))
    elif t == 'CD':
        cdf = np.cumsum(np.asarray(p['probabilities'], dtype=float)); cdf /= cdf[-1]
        x = p['demand_list'][int(np.searchsorted(cdf, v, side='right'))]
    else:
        x = v
    return np_round_int(x) if c.get('round') else x


def exact_model(c, v):
    """the same transform in exact rationals (python shadow of Alg/Gen.v); returns the unrounded value"""
    t = c['type']; p = c['params']
    if t == 'UC':
        return F(p['lo']) + (F(p['hi']) - F(p['lo'])) * F(v)
    if t == 'N':
        return max(Fr(0), F(p['mean']) + F(p['standard_deviation']) * F(v))
    if t == 'CD':
        ps = [F(x) for x in p['probabilities']]; s = sum(ps); acc = Fr(0)
        for i, q in enumerate(ps):
            acc += q
            if F(v) < acc / s:
                return F(p['demand_list'][i])
        return None
    return F(v)


def op_scale(c, v, m):
    """magnitude of the operands of the float evaluation (rounding errors are relative to these, not to a cancelled result)"""
    p = c['params']
    if c['type'] == 'UC': return abs(F(p['lo'])) + abs((F(p['hi']) - F(p['lo'])) * F(v)) + abs(m)
    if c['type'] == 'N': return abs(F(p['mean'])) + abs(F(p['standard_deviation']) * F(v)) + abs(m)
    return max(1, abs(m))


def round_half_even(x):
    f = math.floor(x); r = x - f
    if r < Fr(1, 2): return f
    if r > Fr(1, 2): return f + 1
    return f if f % 2 == 0 else f + 1


def coq_type(c):
    t = c['type']; p = c['params']
    if t == 'N': return '(TN %s %s)' % (cq(p['mean']), cq(p['standard_deviation']))
    if t == 'P': return '(TP %s)' % cq(p['mean'])
    if t == 'UD': return '(TUD %s %s)' % (cq(p['lo']), cq(p['hi']))
    if t == 'UC': return '(TUC %s %s)' % (cq(p['lo']), cq(p['hi']))
    if t == 'NB': return '(TNB %s %s)' % (cq(p['n']), cq(p['p']))
    if t == 'CD': return '(TCD %s %s)' % (cqlist(p['demand_list']), cqlist(p['probabilities']))
    if t == 'D':
        dl = p['demand_list']
        return '(TD (Many %s))' % cqlist(dl) if isinstance(dl, list) else '(TD (Scalar %s))' % cq(dl)
    raise ValueError(t)


# ------------------------------------------------------------------------------------------------
# declared distributions: independent closed forms (nothing from stockpyl, no scipy distribution objects)

def _phi(x): return 0.5 * math.erfc(-x / math.sqrt(2))
def _pdf(x): return math.exp(-x * x / 2) / math.sqrt(2 * math.pi)


def _pois_pmf(k, m): return math.exp(-m + k * math.log(m) - math.lgamma(k + 1)) if m > 0 else (1.0 if k == 0 else 0.0)
def _nb_pmf(k, n, p):
    if p >= 1: return 1.0 if k == 0 else 0.0
    return math.exp(math.lgamma(k + n) - math.lgamma(k + 1) - math.lgamma(n) + n * math.log(p) + k * math.log1p(-p))


class Decl:
    """declared law of a demand source: mean, var, cdf, left limit of the cdf, support test"""
    def __init__(self, c):
        self.t = t = c['type']; self.p = p = c['params']; self.round = bool(c.get('round'))
        if t == 'N':
            self.mean, self.var = p['mean'], p['standard_deviation'] ** 2
        elif t == 'P':
            self.mean = self.var = p['mean']
        elif t == 'UD':
            lo, hi = int(p['lo']), int(p['hi']); self.mean = (lo + hi) / 2; self.var = ((hi - lo + 1) ** 2 - 1) / 12
        elif t == 'UC':
            lo, hi = p['lo'], p['hi']; self.mean = (lo + hi) / 2; self.var = (hi - lo) ** 2 / 12
        elif t == 'NB':
            n, q = p['n'], p['p']; self.mean = n * (1 - q) / q; self.var = n * (1 - q) / q ** 2
        elif t == 'CD':
            xs, ps = p['demand_list'], p['probabilities']
            m = sum(Fr(x) * F(q) for x, q in zip(xs, ps)); m2 = sum(Fr(x) ** 2 * F(q) for x, q in zip(xs, ps))
            s = sum(F(q) for q in ps); m /= s; m2 /= s
            self.mean = float(m); self.var = float(m2 - m * m)
            # law of int(np.round(value)) (round half to even); identical to the declared law when the support is integer
            self.rounded = [(round_half_even(F(x)), F(q) / s) for x, q in zip(xs, ps)]
        self.sd = math.sqrt(self.var)
        self._tab = {}

    def _cum(self, pmf, k):          # sum_{j<=k} pmf(j) with caching
        key = pmf.__name__
        tab = self._tab.setdefault(key, [])
        while len(tab) <= k:
            j = len(tab); tab.append((tab[-1] if tab else 0.0) + pmf(j))
        return tab[k] if k >= 0 else 0.0

    def cdf(self, x):
        t, p = self.t, self.p
        if t == 'N':
            s = p['standard_deviation']
            return _phi((x - p['mean']) / s) if s > 0 else (1.0 if x >= p['mean'] else 0.0)
        if t == 'P':
            m = p['mean']
            def pois(j): return _pois_pmf(j, m)
            return min(1.0, self._cum(pois, math.floor(x))) if x >= 0 else 0.0
        if t == 'UD':
            lo, hi = int(p['lo']), int(p['hi'])
            return min(1.0, max(0.0, (math.floor(x) - lo + 1) / (hi - lo + 1)))
        if t == 'UC':
            lo, hi = p['lo'], p['hi']
            return min(1.0, max(0.0, (x - lo) / (hi - lo)))
        if t == 'NB':
            n, q = p['n'], p['p']
            def nb(j): return _nb_pmf(j, n, q)
            return min(1.0, self._cum(nb, math.floor(x))) if x >= 0 else 0.0
        if t == 'CD':
            s = sum(F(q) for q in p['probabilities'])
            return float(sum(F(q) for v, q in zip(p['demand_list'], p['probabilities']) if v <= x) / s)

    # law of what generate_demand() actually returns: N is censored at 0; round_to_int rounds to nearest
    def sample_cdf(self, x, left=False):
        if self.round:
            k = math.floor(x) if not left else math.ceil(x) - 1
            if self.t == 'CD': return float(sum((q for v, q in self.rounded if v <= k), Fr(0)))
            if k < 0 and self.t == 'N': return 0.0
            return self.cdf(k + 0.5) if self.t in ('N', 'UC') else self.cdf(k)
        if self.t == 'N':
            if x < 0 or (left and x <= 0): return 0.0
            return self.cdf(x)
        if self.t in ('P', 'UD', 'NB', 'CD') and left:
            xs = sorted(self.p['demand_list']) if self.t == 'CD' else None
            if xs is not None:
                below = [v for v in xs if v < x]
                return self.cdf(below[-1]) if below else 0.0
            return self.cdf(math.ceil(x) - 1)
        return self.cdf(x)

    def sample_mean_var(self):
        """mean and variance of the sampled law (censoring / rounding), None when not in closed form"""
        if self.round: return None
        if self.t == 'N':
            mu, s = self.p['mean'], self.p['standard_deviation']
            if s == 0: return (mu, 0.0)
            a = mu / s
            m1 = mu * _phi(a) + s * _pdf(a); m2 = (mu * mu + s * s) * _phi(a) + mu * s * _pdf(a)
            return (m1, m2 - m1 * m1)
        return (self.mean, self.var)

    def in_support(self, x):
        t, p = self.t, self.p
        try:
            xv = float(x)
        except Exception:
            return False
        if self.round:
            if not float(xv).is_integer(): return False
            if t == 'N': return xv >= 0
            if t == 'UC': return math.floor(p['lo']) <= xv <= math.ceil(p['hi'])
            if t == 'CD': return any(xv == v and q > 0 for v, q in self.rounded)
        if t == 'N': return xv >= 0
        if t in ('P', 'NB'): return xv >= 0 and xv.is_integer()
        if t == 'UD': return xv.is_integer() and int(p['lo']) <= xv <= int(p['hi'])
        if t == 'UC': return p['lo'] <= xv <= p['hi']
        if t == 'CD': return any(xv == v and q > 0 for v, q in zip(p['demand_list'], p['probabilities']))
        return False


# ------------------------------------------------------------------------------------------------
# generators of cases

def _dy(rng, lo, hi, den):
    return rng.randint(int(lo * den), int(hi * den)) / den


def gen_frac_support(rng, k):
    """k distinct support points of a custom discrete demand measured in FRACTIONAL units (half / quarter / eighth / tenth /
    twentieth units), at least one of them not an integer: inside [0,1], within a few units, or over the range of the integer supports"""
    while True:
        den = rng.choice([2, 2, 4, 8, 10, 20]); top = rng.choice([1, 3, 24])
        pool = range(0, top * den + 1)
        xs = [j / den for j in rng.sample(pool, min(k, len(pool)))]
        if any(not float(x).is_integer() for x in xs): return xs


def gen_params(rng, t, exact, frac=False):
    """frac (CD only): support points that are not integers (valid for generate_demand / mean / sd / cdf; the module's lead-time
    convolution of a custom discrete demand is defined on integer supports only, so lead-time cases never use it)"""
    if t == 'UC':
        if exact:
            if rng.random() < 0.5: return dict(lo=0, hi=2 ** rng.randint(0, 5))
            lo = _dy(rng, 0, 20, 4); return dict(lo=lo, hi=lo + _dy(rng, 0.25, 20, 4))
        lo = round(rng.uniform(0, 20), rng.choice([1, 2, 6])); return dict(lo=lo, hi=lo + round(rng.uniform(0.1, 30), rng.choice([1, 2, 6])))
    if t == 'N':
        if exact: return dict(mean=_dy(rng, 0, 40, 4), standard_deviation=_dy(rng, 0.125, 12, 8))
        return dict(mean=round(rng.uniform(0, 60), 3), standard_deviation=round(rng.uniform(0.05, 15), 3))
    if t == 'CD':
        k = rng.randint(1, 6)
        xs = rng.sample(range(0, 25), k)
        if frac: xs = gen_frac_support(rng, k); k = len(xs)
        if rng.random() < 0.5: xs.sort()
        if exact:
            cuts = sorted(rng.randint(0, 64) for _ in range(k - 1)); w = [b - a for a, b in zip([0] + cuts, cuts + [64])]
            ps = [x / 64 for x in w]
        else:
            kind = rng.choice(['decimal', 'normalised', 'equal'])
            if kind == 'equal': ps = [1 / k] * k
            elif kind == 'decimal':
                d = 10 ** rng.randint(1, 3); cuts = sorted(rng.randint(0, d) for _ in range(k - 1))
                ps = [(b - a) / d for a, b in zip([0] + cuts, cuts + [d])]
            else:
                w = [rng.random() for _ in range(k)]; s = sum(w); ps = [x / s for x in w]
        return dict(demand_list=xs, probabilities=ps)
    if t == 'UD':
        lo = rng.randint(0, 12); return dict(lo=lo, hi=lo + rng.randint(0, 12))
    if t == 'P':
        return dict(mean=_dy(rng, 0.25, 30, 4) if exact else round(rng.uniform(0.1, 40), 3))
    if t == 'NB':
        return dict(n=rng.randint(1, 12), p=_dy(rng, 0.125, 0.875, 8) if exact else round(rng.uniform(0.08, 0.95), 3))
    raise ValueError(t)


def seed_of(rng): return rng.randrange(2 ** 31 - 1)


# ------------------------------------------------------------------------------------------------
# (a) correspondence

def numpy_relations(chk, nseeds=40, ndraw=6):
    """verify, on this NumPy, the relations between the legacy global RNG calls stockpyl makes and the primitive variates"""
    bad = {}
    for s in range(nseeds):
        sd = 1000 + 7919 * s
        def both(f_glob, f_par):
            np.random.seed(sd); a = [f_glob() for _ in range(ndraw)]
            r = np.random.RandomState(sd); b = [f_par(r) for _ in range(ndraw)]
            return a == b
        xs = [1, 4, 7, 9]; p = [0.1, 0.2, 0.3, 0.4]
        cp = np.cumsum(p); cp = cp / cp[-1]
        rel = {
            'normal(mu,sigma) == mu + sigma*standard_normal()': both(lambda: float(np.random.normal(3.7, 1.3)), lambda r: 3.7 + 1.3 * float(r.standard_normal())),
            'uniform(a,b) == a + (b-a)*random_sample()': both(lambda: float(np.random.uniform(2.3, 7.9)), lambda r: 2.3 + (7.9 - 2.3) * float(r.random_sample())),
            'choice(xs,p) == xs[searchsorted(cumsum(p)/cumsum(p)[-1], random_sample(), right)]':
                both(lambda: int(np.random.choice(xs, p=p)), lambda r: xs[int(np.searchsorted(cp, r.random_sample(), side='right'))]),
            'rand() == random_sample()': both(lambda: float(np.random.rand()), lambda r: float(r.random_sample())),
            'poisson/randint/negative_binomial: same stream under the same seed':
                both(lambda: (int(np.random.poisson(3.5)), int(np.random.randint(2, 9)), int(np.random.negative_binomial(3, 0.4))),
                     lambda r: (int(r.poisson(3.5)), int(r.randint(2, 9)), int(r.negative_binomial(3, 0.4)))),
        }
        for k, ok in rel.items():
            if not ok: bad[k] = bad.get(k, 0) + 1
    chk.extra['numpy_primitive_relations'] = {'numpy': np.__version__, 'seeds': nseeds, 'draws_per_seed': ndraw,
                                              'bit_for_bit': 'all hold' if not bad else 'VIOLATED: %r' % bad}
    for k in bad:
        chk.broken.append(('numpy-primitive-relation', k))


def corr_random(chk, ncase, ndraw, do_model=True):
    rng = chk.rng
    cases = []
    for i in range(ncase):
        t = ['UC', 'N', 'CD', 'UD', 'P', 'NB'][i % 6] if i < 6 * (ncase // 8) else rng.choice(['UC', 'N', 'CD'])
        exact = rng.random() < 0.5
        c = dict(kind='corr', type=t, params=gen_params(rng, t, exact, frac=(t == 'CD' and rng.random() < 0.4)), round=rng.choice([None, False, True, True]) if t in ('UC', 'N') else rng.choice([None, True]),
                 seed=seed_of(rng), n=ndraw, exact=exact)
        if rng.random() < 0.5: c['forms'] = gen_forms(rng, t, c['params'], sampling_only=True)
        cases.append(c)
    impl = []; vs = []
    for c in cases:
        ds = mk_ds(c)
        np.random.seed(c['seed'])
        try:
            impl.append([ds.generate_demand() for _ in range(c['n'])])
        except Exception as e:
            impl.append(('err', exc_kind(e), str(e)[:200]))
        vs.append(draw_variates(c, c['n']))
    exprs = []
    for c, v in zip(cases, vs):
        lits = clist(['(VQ %s)' % cq(x) for x in v]) if c['type'] in ('UC', 'N', 'CD') else clist(['(VZ %s)' % cz(x) for x in v])
        exprs.append('map (fun v => option_map qobs (generate_demand %s %s None v)) %s' % (coq_type(c), cbool(bool(c['round'])), lits))
    model = coq_eval_sharded('c16r', 'Alg.Gen', '', exprs, shard=60) if do_model else [None] * len(cases)
    st = chk.extra.setdefault('correspondence', {'draws_bit_for_bit_float': 0, 'draws_exact_vs_coq': 0, 'draws_within_4ulp_vs_coq': 0, 'near_tie_skipped': 0})
    for c, r, v, m in zip(cases, impl, vs, model):
        if c['type'] == 'CD': chk.count('corr CD support=%s' % ('integer' if all(float(x).is_integer() for x in c['params']['demand_list']) else 'fractional'))
        chk.count('corr type=%s' % c['type']); chk.count('corr round=%s' % c['round']); chk.count('corr regime=%s' % ('dyadic' if c['exact'] else 'float'))
        count_forms(chk, 'corr', c.get('forms'))
        if isinstance(r, tuple):
            chk.fail('generate_demand|%s|raises-%s' % (c['type'], r[1]), 'valid parameters raise %s: %s' % (r[1], r[2]), c)
            chk.case(c, False); continue
        chk.traces += 1
        d = Decl(c)
        for j, (x, var) in enumerate(zip(r, v)):
            fm = float_model(c, var)
            if not (x == fm):
                chk.mismatch('draw %d: generate_demand() = %r but transform of the primitive variate %r is %r' % (j, x, var, fm), c); break
            st['draws_bit_for_bit_float'] += 1
            if c['round'] and not isinstance(x, int):
                chk.fail('generate_demand|%s|round_to_int-not-int' % c['type'], 'round_to_int=True returned %r of type %s' % (x, type(x).__name__), c)
            if not d.in_support(x):
                chk.fail('generate_demand|%s|sample-outside-support' % c['type'], 'draw %d = %r is outside the support of the declared distribution %r' % (j, x, c['params']), c)
            if m is not None:
                mv = m[j]
                if mv is None:
                    chk.mismatch('draw %d: model returns None, implementation %r' % (j, x), c); break
                mq = qv(mv[1]); xq = F(x)
                if mq == xq:
                    st['draws_exact_vs_coq'] += 1
                else:
                    ex = exact_model(c, var)
                    if c['round']:
                        near = ex is not None and abs((ex - math.floor(ex)) - Fr(1, 2)) < Fr(1, 10 ** 9)
                    else:
                        near = False
                    if c['type'] == 'CD' and not near:
                        # float cumsum vs exact cumsum: a different index only if u is within rounding of a boundary
                        ps = [F(q) for q in c['params']['probabilities']]; s = sum(ps); acc = Fr(0); near = False
                        for q in ps:
                            acc += q
                            if abs(F(var) - acc / s) < Fr(1, 10 ** 12): near = True
                    if near:
                        st['near_tie_skipped'] += 1
                    elif not c['round'] and abs(mq - xq) <= Fr(4, 2 ** 52) * op_scale(c, var, mq):
                        st['draws_within_4ulp_vs_coq'] += 1
                    else:
                        chk.mismatch('draw %d: Coq model %s vs implementation %r (variate %r)' % (j, mq, x, var), c); break
        chk.case(c, len(set(map(float, r))) >= 2, key='corr|%s|%s|%s|%d' % (c['type'], json.dumps(jsonable(c['params']), sort_keys=True), c['round'], c['seed']))


def gen_markov_boundary(rng):
    """(alpha, beta) on the boundary of [0,1]^2 (validate_parameters allows the closed interval): at least one of them is 0 or 1,
    written as an int or as a float; never both 0 (no steady state)"""
    def edge(): return rng.choice([0, 1, 0.0, 1.0])
    def inner(): return rng.choice([rng.randint(1, 15) / 16, round(rng.uniform(0.02, 0.98), rng.choice([1, 2, 3]))])
    while True:
        r = rng.random()
        a, b = (inner(), edge()) if r < 0.4 else (edge(), inner()) if r < 0.7 else (edge(), edge())
        if a + b > 0: return a, b


def impossible_transitions(c, st):
    """steps of the state sequence st that have probability 0 under the declared chain (possible only when alpha or beta is 0 or 1)"""
    a, b = c['alpha'], c['beta']; prev = bool(c.get('d0', False)); out = []
    for j, s in enumerate(st):
        p = (1 - b) if prev else a                     # declared P(next state is down | current state); exact for 0 and 1
        if (p == 0 and s) or (p == 1 and not s): out.append((j, prev, bool(s), p))
        prev = bool(s)
    return out


def fail_impossible(chk, c, st):
    bad = impossible_transitions(c, st)
    if bad:
        j, fr, to, p = bad[0]; nm = {False: 'up', True: 'down'}
        chk.fail('update_disruption_state|M|probability-%d-transition-violated' % int(p),
                 'step %d goes %s -> %s although the declared probability of %s -> down is %r (disruption_probability=%r, recovery_probability=%r, '
                 'start state %s); %d such steps in %d' % (j, nm[fr], nm[to], nm[fr], p, c['alpha'], c['beta'], nm[bool(c.get('d0', False))], len(bad), len(st)), c)
    return bool(bad)


def near_f32_tie(c, u):
    return min(abs(u - c['alpha']), abs(u - (1 - c['beta']))) < 2.0 ** -22


def corr_markov(chk, ncase, nstep, do_model=True):
    rng = chk.rng; cases = []
    for i in range(ncase):
        exact = rng.random() < 0.6
        a = _dy(rng, 0, 1, 16) if exact else round(rng.random(), rng.choice([1, 2, 5]))
        b = _dy(rng, 0, 1, 16) if exact else round(rng.random(), rng.choice([1, 2, 5]))
        if i % 3 == 0: a, b = gen_markov_boundary(rng)          # a third of the chains have a 0 or 1 transition probability
        cases.append(dict(kind='markov', ptype='M', alpha=a, beta=b, d0=rng.random() < 0.5, seed=seed_of(rng), n=nstep))
        if i % 2 == 1: cases[-1]['forms'] = markov_forms(rng, cases[-1], sampling_only=True)
    runs = []
    for c in cases:
        dp = mk_dp(c); np.random.seed(c['seed']); st = []
        for _ in range(c['n']):
            dp.update_disruption_state(); st.append(bool(dp.disrupted))
        r = np.random.RandomState(c['seed']); us = [float(r.random_sample()) for _ in range(c['n'])]
        runs.append((st, us))
    exprs = ['markov_run %s %s %s %s' % (cq(c['alpha']), cq(c['beta']), cbool(c['d0']), cqlist(us)) for c, (st, us) in zip(cases, runs)]
    model = coq_eval_sharded('c16m', 'Alg.Gen', '', exprs, shard=60) if do_model else [None] * len(cases)
    for c, (st, us), m in zip(cases, runs, model):
        chk.count('markov cases'); chk.traces += 1
        chk.count('markov boundary=%s' % (c['alpha'] in (0, 1) or c['beta'] in (0, 1)))
        count_forms(chk, 'markov', c.get('forms'))
        fail_impossible(chk, c, st)
        # float transcription: down stays down iff u <= 1 - beta ; up goes down iff u <= alpha
        d = c['d0']; fm = []
        for u in us:
            d = (u <= 1 - c['beta']) if d else (u <= c['alpha']); fm.append(d)
        if fm != st and 'np.float32' in (c.get('forms') or {}).values() and near_f32_tie(c, us[next(i for i in range(len(st)) if st[i] != fm[i])]):
            # a float32 probability makes numpy compare in single precision: a u within float32 rounding of the threshold may fall on the other side
            chk.extra['correspondence']['near_tie_skipped'] += 1
        elif fm != st:
            j = next(i for i in range(len(st)) if st[i] != fm[i])
            chk.mismatch('step %d: update_disruption_state() -> %r but the declared transition on u=%r gives %r (alpha=%r, beta=%r)'
                         % (j, st[j], us[j], fm[j], c['alpha'], c['beta']), c)
        elif m is not None and list(m) != st:
            # Q threshold 1-beta vs float 1-beta can differ by an ulp: only a u within that gap may legitimately differ
            j = next(i for i in range(len(st)) if st[i] != m[i])
            if abs(F(us[j]) - (1 - F(c['beta']))) < Fr(1, 2 ** 50):
                chk.extra['correspondence']['near_tie_skipped'] += 1
            else:
                chk.mismatch('step %d: Coq markov_run gives %r, implementation %r' % (j, m[j], st[j]), c)
        chk.case(c, len(set(st)) == 2, key='markov|%r|%r|%r|%d' % (c['alpha'], c['beta'], c['d0'], c['seed']))


def gen_container(rng, lst):
    """kind of container that holds the per-period values: python list (half of the cases), tuple, numpy array; numpy scalar for scalars"""
    if isinstance(lst, list): return rng.choice(['list', 'list', 'tuple', 'ndarray'])
    return rng.choice(['scalar', 'scalar', 'npscalar'])


def is_single(x):
    """x is ONE value (a demand / a truth value), not a sequence of them"""
    return not isinstance(x, (list, tuple, dict, set, str)) and x is not None and np.ndim(x) == 0


def same_value(got, want):
    if not is_single(got): return False
    try:
        return bool(got == want)
    except Exception:
        return False


def list_oracle(lst, period):
    """independent statement of cyclic replay"""
    if not isinstance(lst, list): return ('ok', lst)
    if len(lst) == 0: return ('err',)
    return ('ok', lst[0] if period is None else lst[period % len(lst)])


def corr_lists(chk, ncase, do_model=True):
    rng = chk.rng; cases = []
    for i in range(ncase):
        kind = 'D' if i % 2 == 0 else 'E'
        n = rng.choice([0, 1, 1, 2, 3, 4, 5, 6, 7]) if rng.random() < 0.9 else None
        if kind == 'D':
            lst = [rng.randint(-2, 40) / rng.choice([1, 1, 2, 4]) for _ in range(n)] if n is not None else rng.randint(0, 40) / 2
            c = dict(kind='list', type='D', params=dict(demand_list=lst), round=rng.choice([None, False, True]))
        else:
            lst = [rng.random() < 0.4 for _ in range(n)] if n is not None else (rng.random() < 0.5)
            c = dict(kind='list', type='E', ptype='E', states=lst)
        c['container'] = gen_container(rng, lst)
        L = len(lst) if isinstance(lst, list) else 1
        c['periods'] = [None] + list(range(0, 3 * L + 3))
        cases.append(c)
    exprs = []
    for c in cases:
        pl = clist([copt(p, cnat) for p in c['periods']])
        if c['type'] == 'D':
            exprs.append('map (fun p => option_map qobs (generate_demand %s %s p VNone)) %s' % (coq_type(c), cbool(bool(c['round'])), pl))
        else:
            a = '(Many %s)' % clist([cbool(b) for b in c['states']]) if isinstance(c['states'], list) else '(Scalar %s)' % cbool(c['states'])
            exprs.append('map (replay false %s) %s' % (a, pl))
    model = coq_eval_sharded('c16l', 'Alg.Gen', '', exprs, shard=100) if do_model else [None] * len(cases)
    for c, m in zip(cases, model):
        check_list_case(chk, c, m)


def check_list_case(chk, c, m=None):
    lst = c['params']['demand_list'] if c['type'] == 'D' else c['states']
    chk.count('list type=%s len=%s' % (c['type'], len(lst) if isinstance(lst, list) else 'scalar'))
    chk.count('list type=%s container=%s' % (c['type'], c.get('container') or 'list'))
    wrapped = False
    site = 'generate_demand|D' if c['type'] == 'D' else 'update_disruption_state|E'
    if c.get('container') not in (None, 'list', 'scalar'): site += '|' + c['container']
    try:
        keep = mk_ds(c) if c['type'] == 'D' else mk_dp(c)          # one object queried for all periods in turn, next to a fresh one per period
    except Exception:
        keep = None
    for j, p in enumerate(c['periods']):
        try:
            if c['type'] == 'D':
                got = ('ok', mk_ds(c).generate_demand(p))
            else:
                dp = mk_dp(c); dp.update_disruption_state(p); got = ('ok', dp.disrupted)
        except Exception as e:
            got = ('err', exc_kind(e))
        try:
            if keep is None: got2 = got
            elif c['type'] == 'D': got2 = ('ok', keep.generate_demand(p))
            else: keep.update_disruption_state(p); got2 = ('ok', keep.disrupted)
        except Exception as e:
            got2 = ('err', exc_kind(e))
        if got2[0] != got[0] or (got[0] == 'ok' and is_single(got[1]) and not same_value(got2[1], got[1])):
            chk.fail(site + '|depends-on-earlier-calls', 'period %r: a fresh object gives %r, the object already queried for periods %r gives %r (list %r)'
                     % (p, got, c['periods'][:j], got2, lst), c)
        want = list_oracle(lst, p)
        if want[0] == 'ok' and c['type'] == 'D' and c.get('round'):
            want = ('ok', round_half_even(F(want[1])))
        if want[0] == 'err':
            if got[0] != 'err':
                chk.fail(site + '|empty-list-accepted', 'empty list, period %r: returned %r' % (p, got[1]), c)
        elif got[0] == 'err':
            chk.fail(site + '|raises-%s' % got[1], 'period %r raises %s' % (p, got[1]), c)
        elif not is_single(got[1]):
            chk.fail(site + '|not-a-single-value', 'period %r: returned %s %r instead of one value, list[period %% len] is %r (values %r held in a %s)'
                     % (p, type(got[1]).__name__, got[1], want[1], lst, c.get('container') or 'list'), c)
        elif not same_value(got[1], want[1]) or (c['type'] == 'D' and c.get('round') and not isinstance(got[1], int)):
            chk.fail(site + '|not-cyclic-replay', 'period %r: returned %r, list[period %% len] is %r (values %r held in a %s)' % (p, got[1], want[1], lst, c.get('container') or 'list'), c)
        if isinstance(lst, list) and p is not None and len(lst) > 1 and p >= len(lst): wrapped = True
        if m is not None:
            mv = m[j]
            ok = (mv is None and got[0] == 'err') or (mv is not None and got[0] == 'ok' and is_single(got[1]) and
                                                       ((qv(mv[1]) == F(got[1])) if c['type'] == 'D' else (mv[1] == bool(got[1]))))
            if not ok:
                chk.mismatch('period %r: Coq model %r vs implementation %r' % (p, mv, got), c)
    if m is not None: chk.traces += 1
    chk.case(c, wrapped, key='list|' + json.dumps(jsonable([c['type'], lst, c.get('round'), c.get('container') or 'list'])))


# ------------------------------------------------------------------------------------------------
# (b) oracle on the implementation

def conv_exact(p, L):
    out = [Fr(1)]
    for _ in range(L):
        new = [Fr(0)] * (len(out) + len(p) - 1)
        for i, a in enumerate(out):
            if a:
                for j, b in enumerate(p):
                    new[i + j] += a * b
        out = new
    return out


def irwin_hall_rec(y, n):
    """cdf of the sum of n U(0,1), by the B-spline recurrence F_n(y) = (y F_{n-1}(y) + (n-y) F_{n-1}(y-1))/n (exact rationals)"""
    if y <= 0: return Fr(0)
    if y >= n: return Fr(1)
    if n == 1: return y
    return (y * irwin_hall_rec(y, n - 1) + (n - y) * irwin_hall_rec(y - 1, n - 1)) / n


def check_reported(chk, c, ds=None):
    """the mean / sd / cdf a DemandSource reports are those of the distribution object it exposes and of the declared law"""
    t = c['type']; site = 'DemandSource|%s|' % t
    try:
        ds = ds if ds is not None else mk_ds(c); dist = ds.demand_distribution; d = Decl(c)
        mean, sd = ds.mean, ds.standard_deviation
        dm, dsd = float(dist.mean()), float(dist.std())
    except Exception as e:
        chk.fail(site + 'raises-%s' % exc_kind(e), 'mean/sd/distribution of valid parameters raise: %s' % str(e)[:200], c); return
    if mean is None or not close(mean, dm): chk.fail(site + 'mean!=distribution.mean', 'mean %r, demand_distribution.mean() %r' % (mean, dm), c)
    if sd is not None and d.sd == 0 and math.isnan(float(sd)) and math.isnan(dsd):
        # one discriminating signature for this class (a demand that takes ONE value with probability 1: scipy's rv_discrete variance
        # sum(x^2 p) - mean^2 cancels to -1.7e-18 for e.g. x = 0.1 and its square root is nan); still a failing input of the property
        chk.fail(site + 'sd-nan|zero-variance', 'standard_deviation %r and demand_distribution.std() %r for a demand that takes one value with probability 1 (declared sd 0.0); demand_distribution.var() = %r'
                 % (sd, dsd, float(dist.var())), c); sd = None
    elif sd is None or not close(sd, dsd): chk.fail(site + 'sd!=distribution.std', 'standard_deviation %r, demand_distribution.std() %r' % (sd, dsd), c)
    if mean is not None and not close(mean, d.mean): chk.fail(site + 'mean!=declared', 'mean %r, declared distribution has mean %r' % (mean, d.mean), c)
    if sd is not None and not close(sd, d.sd): chk.fail(site + 'sd!=declared', 'standard_deviation %r, declared distribution has sd %r' % (sd, d.sd), c)
    lo = d.mean - 4 * d.sd - 1; hi = d.mean + 4 * d.sd + 1
    pts = [lo + (hi - lo) * k / 16 for k in range(17)] + ([float(x) for x in c['params']['demand_list']] if t == 'CD' else []) + \
          [float(math.floor(d.mean)), float(math.floor(d.mean)) + 0.5]
    if t == 'CD':
        # around every jump of the step function: the floats next to each support point and the midpoints between neighbours
        sx = sorted(set(float(x) for x in c['params']['demand_list']))
        pts += [float(np.nextafter(x, -np.inf)) for x in sx] + [float(np.nextafter(x, np.inf)) for x in sx] + [(a + b) / 2 for a, b in zip(sx, sx[1:])]
    elif t in ('P', 'UD', 'NB'):
        x0 = float(math.floor(d.mean)); pts += [float(np.nextafter(x0, -np.inf)), float(np.nextafter(x0, np.inf))]
    for x in pts:
        try:
            a = float(ds.cdf(x)); b = float(dist.cdf(x))
        except Exception as e:
            chk.fail(site + 'cdf-raises-%s' % exc_kind(e), 'cdf(%r) raises %s' % (x, str(e)[:200]), c); return
        w = d.cdf(x)
        if not close(a, b, abs_=1e-12): chk.fail(site + 'cdf!=distribution.cdf', 'cdf(%r) = %r, demand_distribution.cdf = %r' % (x, a, b), c); break
        if not close(a, w, rel=1e-8, abs_=1e-10): chk.fail(site + 'cdf!=declared', 'cdf(%r) = %r, declared distribution has %r' % (x, a, w), c); break


def check_ltd(chk, c, with_var=True, ds=None, ltd=None):
    """lead_time_demand_distribution(L) vs an independent L-fold convolution (ltd: the object obtained earlier by that call, for the
    cases that hold several distribution objects at once and evaluate them later)"""
    t = c['type']; L = c['L']; p = c['params']; d = Decl(c); site = 'lead_time_demand_distribution|%s|' % t
    try:
        with warnings.catch_warnings():
            warnings.simplefilter('ignore')
            if ltd is None: ltd = (ds if ds is not None else mk_ds(c)).lead_time_demand_distribution(typed(L, c.get('L_form')))
            mean = float(ltd.mean()); var = float(ltd.var()) if (with_var or t != 'UC') else None
    except Exception as e:
        chk.fail(site + 'raises-%s' % exc_kind(e), 'L=%r raises %s: %s' % (L, exc_kind(e), str(e)[:200]), c); return None
    wm, wv = L * d.mean, L * d.var
    tol = dict(rel=1e-9, abs_=1e-9)
    res = {}
    if t in ('UD', 'CD', 'NB'):
        if t == 'UD':
            lo, hi = int(p['lo']), int(p['hi']); base = [Fr(1, hi - lo + 1)] * (hi - lo + 1)
        elif t == 'CD':
            lo, hi = min(p['demand_list']), max(p['demand_list']); s = sum(F(q) for q in p['probabilities'])
            base = [sum((F(q) for v, q in zip(p['demand_list'], p['probabilities']) if v == x), Fr(0)) / s for x in range(lo, hi + 1)]
        else:
            # the module truncates NB demand at its 0.9999 quantile and renormalises: rebuild that from the closed-form pmf
            lo = 0; acc = 0.0; k = 0
            while True:
                acc += _nb_pmf(k, p['n'], p['p'])
                if acc >= 0.9999 - 1e-13: break
                k += 1
            kk = [k]
            if abs(acc - 0.9999) < 1e-9: kk = [k, k + 1]          # quantile ambiguous within float error: accept either
            res['nb_candidates'] = kk
            base = None
        cands = [base] if base is not None else []
        for k in res.get('nb_candidates', []):
            raw = [F(_nb_pmf(j, p['n'], p['p'])) for j in range(k + 1)]; s = sum(raw); cands.append([x / s for x in raw])
        best = None
        for base in cands:
            pmf = conv_exact(base, L); off = L * lo
            m1 = sum((off + i) * q for i, q in enumerate(pmf)); m2 = sum((off + i) ** 2 * q for i, q in enumerate(pmf))
            errs = []
            try:
                got = ltd.pmf(np.arange(off - 1, off + len(pmf) + 1))
                gc = ltd.cdf(np.arange(off - 1, off + len(pmf) + 1))
            except Exception as e:
                chk.fail(site + 'pmf-raises-%s' % exc_kind(e), str(e)[:200], c); return None
            cum = Fr(0); want_c = [0.0]
            for q in pmf: cum += q; want_c.append(float(cum))
            want_c.append(1.0)
            want_p = [0.0] + [float(q) for q in pmf] + [0.0]
            perr = max(abs(a - b) for a, b in zip(got, want_p)); cerr = max(abs(a - b) for a, b in zip(gc, want_c))
            if perr > 1e-9: errs.append(('pmf!=L-fold-convolution', 'max |pmf - convolution| = %.3g over %d..%d' % (perr, off - 1, off + len(pmf))))
            if cerr > 1e-9: errs.append(('cdf!=L-fold-convolution', 'max |cdf - convolution| = %.3g' % cerr))
            if not close(mean, float(m1), **tol): errs.append(('mean!=L*mu', 'mean %r, L-fold convolution has %r' % (mean, float(m1))))
            if not close(var, float(m2 - m1 * m1), rel=1e-7, abs_=1e-7): errs.append(('var!=L*sigma^2', 'variance %r, L-fold convolution has %r' % (var, float(m2 - m1 * m1))))
            if best is None or len(errs) < len(best): best = errs
        for sig, what in best:
            chk.fail(site + sig, 'L=%d: %s' % (L, what), c)
        if t == 'NB':
            # against the untruncated law NB(L n, p): total-variation distance <= L * 1e-4 (documented tail truncation)
            dd = Decl(dict(type='NB', params=dict(n=p['n'] * L, p=p['p'])))
            xs = [int(wm + k * math.sqrt(wv) / 2) for k in range(-6, 9)]
            dev = max(abs(float(ltd.cdf(x)) - dd.cdf(x)) for x in xs if x >= 0)
            if dev > L * 1e-4 + 1e-9: chk.fail(site + 'cdf-beyond-truncation', 'L=%d: |cdf - NB(Ln,p) cdf| = %.3g > L*1e-4' % (L, dev), c)
            if not (wm * (1 - 0.01) <= mean <= wm * (1 + 1e-9)): chk.fail(site + 'mean!=L*mu', 'L=%d: mean %r vs L*mu = %r (beyond 1%% truncation effect)' % (L, mean, wm), c)
            if not (wv * (1 - 0.05) <= var <= wv * (1 + 1e-9)): chk.fail(site + 'var!=L*sigma^2', 'L=%d: variance %r vs L*sigma^2 = %r (beyond 5%% truncation effect)' % (L, var, wv), c)
            st = chk.extra.setdefault('nb_truncation_effect', {'max_rel_mean_dev': 0.0, 'max_rel_var_dev': 0.0, 'max_cdf_dev': 0.0})
            st['max_rel_mean_dev'] = max(st['max_rel_mean_dev'], abs(mean - wm) / wm); st['max_rel_var_dev'] = max(st['max_rel_var_dev'], abs(var - wv) / wv)
            st['max_cdf_dev'] = max(st['max_cdf_dev'], dev)
        else:
            if not close(mean, wm, **tol): chk.fail(site + 'mean!=L*mu', 'L=%d: mean %r, L*mu = %r' % (L, mean, wm), c)
            if not close(var, wv, rel=1e-7, abs_=1e-7): chk.fail(site + 'var!=L*sigma^2', 'L=%d: variance %r, L*sigma^2 = %r' % (L, var, wv), c)
        return ltd
    # continuous / closed-form types
    if t == 'UC':
        mt = dict(rel=1e-6, abs_=1e-6)            # scipy integrates the cdf numerically
        lo, hi = F(p['lo']), F(p['hi'])
        for k in range(0, 4 * 8 + 1):
            x = L * lo + (L * (hi - lo)) * Fr(k - 4, 24)
            want = float(irwin_hall_rec((x - L * lo) / (hi - lo), L))
            try:
                got = float(ltd.cdf(float(x)))
            except Exception as e:
                chk.fail(site + 'cdf-raises-%s' % exc_kind(e), 'cdf(%r) raises %s' % (float(x), str(e)[:200]), c); return ltd
            if not close(got, want, rel=1e-7, abs_=1e-9):
                chk.fail(site + 'cdf!=L-fold-convolution', 'L=%d: cdf(%r) = %r, sum of L uniforms has %r' % (L, float(x), got, want), c); break
        try:
            arr = ltd.cdf(np.array([float(L * lo) - 1, float(L * (lo + hi) / 2), float(L * hi) + 1]))
            if not (close(arr[0], 0) and close(arr[1], 0.5, abs_=1e-7) and close(arr[2], 1)):
                chk.fail(site + 'cdf-array', 'cdf(array) = %r' % (arr.tolist(),), c)
        except Exception as e:
            chk.fail(site + 'cdf-array-raises-%s' % exc_kind(e), str(e)[:200], c)
    else:
        mt = tol
        dd = Decl(dict(type=t, params=(dict(mean=p['mean'] * L, standard_deviation=p['standard_deviation'] * math.sqrt(L)) if t == 'N' else dict(mean=p['mean'] * L))))
        for k in range(-8, 9):
            x = wm + k * math.sqrt(wv) / 2
            got = float(ltd.cdf(x)); want = dd.cdf(x)
            if not close(got, want, rel=1e-8, abs_=1e-10):
                chk.fail(site + 'cdf!=L-fold-convolution', 'L=%r: cdf(%r) = %r, L-fold sum has %r' % (L, x, got, want), c); break
    if not close(mean, wm, **mt): chk.fail(site + 'mean!=L*mu', 'L=%r: mean %r, L*mu = %r' % (L, mean, wm), c)
    if var is not None and not close(var, wv, **mt): chk.fail(site + 'var!=L*sigma^2', 'L=%r: variance %r, L*sigma^2 = %r' % (L, var, wv), c)
    return ltd


def oracle_reported_and_ltd(chk, nper, lmax, do_model=True):
    rng = chk.rng; model_jobs = []
    for t in ('N', 'P', 'UD', 'UC', 'NB', 'CD'):
        for i in range(nper):
            c = dict(kind='reported', type=t, params=gen_params(rng, t, rng.random() < 0.5))
            if t == 'P' and rng.random() < 0.5: c['params']['mean'] = float(rng.randint(1, 25))
            if i % 2 == 1: c['forms'] = gen_forms(rng, t, c['params'])
            chk.count('reported type=%s' % t); count_forms(chk, 'reported', c.get('forms'))
            check_reported(chk, c)
            chk.case(c, True, key='reported|%s|%s' % (t, json.dumps(jsonable(c['params']), sort_keys=True)))
            for L in sorted(set([1, rng.randint(2, lmax), rng.randint(2, lmax)])):
                cl = dict(kind='ltd', type=t, params=dict(c['params']), L=L)
                if t == 'NB' and cl['params']['p'] < 0.2: cl['params']['p'] = 0.25        # keeps the truncated support small
                if t in ('N', 'P') and rng.random() < 0.3: cl['L'] = L + 0.5              # non-integer lead times are allowed for N and P
                if rng.random() < 0.5:
                    cl['forms'] = gen_forms(rng, t, cl['params'], ltd=True)
                    if t in ('N', 'P') and rng.random() < 0.6: cl['L_form'] = rng.choice(scalar_forms(cl['L'], False))
                chk.count('ltd type=%s L=%s' % (t, cl['L'])); count_forms(chk, 'ltd', dict(cl.get('forms') or {}, **({'L': cl['L_form']} if cl.get('L_form') else {})))
                ltd = check_ltd(chk, cl, with_var=(i == 0 and L <= 3))
                chk.case(cl, cl['L'] >= 2, key='ltd|%s|%s|%s' % (t, json.dumps(jsonable(cl['params']), sort_keys=True), cl['L']))
                if ltd is not None and do_model and t in ('UD', 'CD') and L <= 4:
                    model_jobs.append((cl, ltd))
    # custom discrete demands in fractional units (support points that are not integers): reported mean / sd / cdf only.
    # (lead_time_demand_distribution() of a 'CD' source is defined on integer supports only - see the claim's note - so no L here.)
    for i in range(nper):
        c = dict(kind='reported', type='CD', params=gen_params(rng, 'CD', rng.random() < 0.5, frac=True))
        if i % 2 == 1: c['forms'] = gen_forms(rng, 'CD', c['params'])
        chk.count('reported type=CD fractional support'); count_forms(chk, 'reported', c.get('forms'))
        check_reported(chk, c)
        chk.case(c, True, key='reported|CD|%s' % json.dumps(jsonable(c['params']), sort_keys=True))
    # lead-time model (Alg/Gen.v conv_pow) against the implementation's pmf table
    exprs = []
    for cl, ltd in model_jobs:
        p = cl['params']
        if cl['type'] == 'UD':
            e = 'ltd_ud %s %s %s' % (cnat(cl['L']), cnat(p['lo']), cnat(p['hi']))
        else:
            e = 'ltd_cd %s %s %s' % (cnat(cl['L']), clist([cnat(x) for x in p['demand_list']]), cqlist(p['probabilities']))
        exprs.append("let '(off, pmf) := %s in (map qobs pmf, qobs off, qobs (pmf_mean off pmf), qobs (pmf_var off pmf))" % e)
    model = coq_eval_sharded('c16c', 'Alg.Gen', '', exprs, shard=40) if exprs else []
    for (cl, ltd), m in zip(model_jobs, model):
        chk.traces += 1
        pmf, off, mm, mv = [qv(x) for x in m[0]], qv(m[1]), qv(m[2]), qv(m[3])
        s = sum(F(q) for q in cl['params']['probabilities']) if cl['type'] == 'CD' else 1     # model does not renormalise; generator gives sum 1 +- rounding
        got = ltd.pmf(np.arange(int(off), int(off) + len(pmf)))
        if off.denominator != 1 or max(abs(float(a) - b) for a, b in zip(pmf, got)) > 1e-9 or not close(float(mm), float(ltd.mean()), rel=1e-8) \
                or not close(float(mv), float(ltd.var()), rel=1e-6, abs_=1e-7) or abs(float(ltd.cdf(int(off) - 1))) > 1e-12 or abs(float(ltd.cdf(int(off) + len(pmf) - 1)) - 1) > 1e-9:
            chk.mismatch('Coq conv_pow model (offset %s, %d points, mean %s) vs lead_time_demand_distribution (mean %r)' % (off, len(pmf), float(mm), float(ltd.mean())), cl)


def vary_params(rng, t, p):
    """another parameter set of the same type that REUSES part of p (same demand_list / lo / n / mean ...) and changes the rest"""
    q = dict(p)
    if t == 'CD':
        k = len(p['demand_list'])
        if k == 1: return q
        while True:
            cuts = sorted(rng.randint(0, 64) for _ in range(k - 1)); ps = [(b - a) / 64 for a, b in zip([0] + cuts, cuts + [64])]
            if ps != p['probabilities']: break
        q['probabilities'] = ps
        if rng.random() < 0.25: q['demand_list'] = list(reversed(p['demand_list']))        # same set of values, other order
    elif t in ('UD', 'UC'):
        if rng.random() < 0.5: q['hi'] = p['hi'] + rng.randint(1, 4)
        else: q['lo'] = max(0, p['lo'] - rng.randint(1, 3)) if p['lo'] >= 1 else p['lo']; q['hi'] = p['hi'] + (1 if q['lo'] == p['lo'] else 0)
    elif t == 'NB':
        if rng.random() < 0.5: q['p'] = min(0.9, max(0.25, round(p['p'] + rng.choice([-0.125, 0.125, 0.25]), 3)))
        else: q['n'] = p['n'] + rng.randint(1, 3)
        if q == p: q['n'] = p['n'] + 1
    elif t == 'N':
        if rng.random() < 0.5: q['standard_deviation'] = p['standard_deviation'] + _dy(rng, 0.25, 3, 4)
        else: q['mean'] = p['mean'] + _dy(rng, 0.25, 5, 4)
    elif t == 'P':
        q['mean'] = p['mean'] + _dy(rng, 0.25, 5, 4)
    return q


def gen_sequence(rng, lmax):
    t = rng.choice(['CD', 'CD', 'CD', 'UD', 'UC', 'NB', 'N', 'P'])
    p = gen_params(rng, t, True)
    if t == 'CD' and len(p['demand_list']) < 2: p = dict(demand_list=[0, 1, 2], probabilities=[0.5, 0.25, 0.25])
    if t == 'NB' and p['p'] < 0.25: p['p'] = 0.25
    L = rng.randint(1, lmax)
    steps = [dict(params=p, L=L)]
    for _ in range(rng.randint(1, 4)):
        r = rng.random(); last = steps[-1]
        if r < 0.6: steps.append(dict(params=vary_params(rng, t, last['params']), L=last['L']))      # same L, overlapping parameters
        elif r < 0.75: steps.append(dict(params=last['params'], L=rng.randint(1, lmax)))             # same parameters, other L
        elif r < 0.9: steps.append(dict(params=steps[0]['params'], L=steps[0]['L']))                 # back to the first query
        else: steps.append(dict(params=last['params'], L=last['L']))                                 # identical repeat
    return dict(kind='ltdseq', type=t, inplace=rng.random() < 0.5, steps=steps)


def check_sequence(chk, c):
    """several lead-time / mean / sd / cdf queries in ONE process, on one object mutated in place or on fresh objects that share
    parameters: every answer must still be that of the parameters current at the time of the query"""
    t = c['type']; ds = None
    for k, st in enumerate(c['steps']):
        sc = dict(kind='ltd', type=t, params=st['params'], L=st['L'])
        if c['inplace']:
            if ds is None: ds = mk_ds(sc)
            else:
                for key, v in st['params'].items(): setattr(ds, key, v)
            obj = ds
        else:
            obj = mk_ds(sc)
        n0 = len(chk.fails)
        check_ltd(chk, sc, with_var=(t != 'UC'), ds=obj)
        check_reported(chk, sc, ds=obj)
        for i in range(n0, len(chk.fails)):
            sig, what, _ = chk.fails[i]
            chk.fails[i] = (sig + ('|after-earlier-queries' if k > 0 else ''), 'query %d of the sequence (%s, parameters %r, L=%r): %s'
                            % (k, 'same object, attributes reassigned' if c['inplace'] else 'fresh DemandSource objects', st['params'], st['L'], what), jsonable(c))
        if len(chk.fails) > n0: break


def oracle_sequences(chk, n, lmax):
    for i in range(n):
        c = gen_sequence(chk.rng, lmax)
        if i == 0: c = dict(kind='ltdseq', type='CD', inplace=False, steps=[dict(params=dict(demand_list=[0, 1, 2], probabilities=[0.125, 0.25, 0.625]), L=3),
                                                                         dict(params=dict(demand_list=[0, 1, 2], probabilities=[0.625, 0.25, 0.125]), L=3)])
        chk.count('ltdseq type=%s inplace=%s' % (c['type'], c['inplace']))
        check_sequence(chk, c)
        chk.case(c, len(c['steps']) >= 2, key='ltdseq|' + json.dumps(jsonable(c), sort_keys=True))


# several objects alive at once: every DemandSource / distribution object / DisruptionProcess must keep describing ITS OWN parameters
# whatever other objects were created or used in between

SAME_TYPE_ORDER = ['UC', 'CD', 'NB', 'UD', 'N', 'P']


def gen_interleave(rng, i, lmax):
    """2-4 demand sources that coexist (a network's nodes): every other group has one type for all sources (parameters drawn afresh or
    varied from the previous source so that part of them coincides), the others mix the seven types; 1-2 lead times per source"""
    k = rng.randint(2, 4)
    ts = [SAME_TYPE_ORDER[(i // 2) % 6]] * k if i % 2 == 0 else [rng.choice(SAME_TYPE_ORDER + ['D']) for _ in range(k)]
    srcs = []
    for t in ts:
        if t == 'D':
            lst = [rng.randint(0, 40) / rng.choice([1, 1, 2]) for _ in range(rng.randint(1, 5))]
            srcs.append(dict(type='D', params=dict(demand_list=lst), round=None, container=gen_container(rng, lst), Ls=[])); continue
        prev = srcs[-1] if srcs and srcs[-1]['type'] == t else None
        p = vary_params(rng, t, prev['params']) if prev is not None and rng.random() < 0.4 else gen_params(rng, t, rng.random() < 0.6)
        if t == 'NB' and p['p'] < 0.25: p['p'] = 0.25
        sc = dict(type=t, params=p, round=rng.choice([None, None, True]), Ls=sorted(set(rng.randint(1, lmax) for _ in range(rng.randint(1, 2)))))
        if rng.random() < 0.3: sc['forms'] = gen_forms(rng, t, p, ltd=True)
        srcs.append(sc)
    npair = sum(len(x['Ls']) for x in srcs); order = list(range(npair))
    how = rng.choice(['creation', 'reverse', 'shuffled'])
    if how == 'reverse': order.reverse()
    elif how == 'shuffled': rng.shuffle(order)
    return dict(kind='interleave', sources=srcs, order=order, how=how, seed=seed_of(rng), rounds=rng.randint(3, 8))


def check_interleave(chk, c):
    """(1) all sources are created, (2) all their lead-time distribution objects are obtained, (3) only then is each object compared
    with the L-fold convolution of ITS source (in creation / reverse / shuffled order), (4) reported mean / sd / cdf of every source,
    (5) generate_demand() of the sources in turn (round robin) under one seed against the declared transform of the variates"""
    srcs = c['sources']; n0 = len(chk.fails); nm0 = len(chk.mismatches)
    def sub(i, **kw): return dict({k: v for k, v in srcs[i].items() if k != 'Ls'}, **kw)
    try:
        objs = [mk_ds(x) for x in srcs]
    except Exception as e:
        chk.fail('DemandSource|raises-%s' % exc_kind(e), str(e)[:200], c); return
    held = []
    for i, x in enumerate(srcs):
        for L in x['Ls']:
            try:
                with warnings.catch_warnings():
                    warnings.simplefilter('ignore'); held.append((i, L, objs[i].lead_time_demand_distribution(L)))
            except Exception as e:
                held.append((i, L, None))
                chk.fail('lead_time_demand_distribution|%s|raises-%s' % (x['type'], exc_kind(e)), 'source %d, L=%r raises %s: %s' % (i, L, exc_kind(e), str(e)[:200]), c)
    for j in c['order']:
        i, L, ltd = held[j]
        if ltd is not None: check_ltd(chk, sub(i, kind='ltd', L=L), with_var=(srcs[i]['type'] != 'UC'), ltd=ltd)
    for i, x in enumerate(srcs):
        if x['type'] != 'D': check_reported(chk, sub(i, kind='reported'), ds=objs[i])
    np.random.seed(c['seed']); r = np.random.RandomState(c['seed']); decl = [Decl(x) if x['type'] != 'D' else None for x in srcs]
    try:
        for rd in range(c['rounds']):
            for i, x in enumerate(srcs):
                t = x['type']
                if t == 'D':
                    got = objs[i].generate_demand(rd); want = list_oracle(x['params']['demand_list'], rd)[1]
                    if not same_value(got, want):
                        chk.fail('generate_demand|D|not-cyclic-replay', 'source %d, period %d: returned %r, list[period %% len] is %r' % (i, rd, got, want), c)
                    continue
                got = objs[i].generate_demand(); v = draw_one(r, x); fm = float_model(x, v)
                if not decl[i].in_support(got):
                    chk.fail('generate_demand|%s|sample-outside-support' % t, 'source %d, round %d: %r is outside the support of the declared distribution %r' % (i, rd, got, x['params']), c)
                if not (got == fm):
                    chk.mismatch('source %d, round %d: generate_demand() = %r but the transform of the primitive variate %r with the parameters of this source is %r'
                                 % (i, rd, got, v, fm), c); break
            if len(chk.mismatches) > nm0: break
    except Exception as e:
        chk.fail('generate_demand|raises-%s' % exc_kind(e), str(e)[:200], c)
    for k in range(n0, len(chk.fails)):
        sig, what, _ = chk.fails[k]
        chk.fails[k] = (sig + '|several-objects-alive', '%d demand sources alive at once (types %s), all %d lead-time distribution objects obtained before any is evaluated (%s order): %s; parameters of the sources: %r'
                        % (len(srcs), '/'.join(x['type'] for x in srcs), len(held), c.get('how'), what, [(x['params'], x['Ls']) for x in srcs]), jsonable(c))


def oracle_interleave(chk, n, lmax):
    for i in range(n):
        c = gen_interleave(chk.rng, i, lmax)
        same = len(set(x['type'] for x in c['sources'])) == 1
        chk.count('interleave sources=%d %s' % (len(c['sources']), 'one type ' + c['sources'][0]['type'] if same else 'mixed types'))
        chk.count('interleave evaluation order=%s' % c['how'])
        for x in c['sources']: count_forms(chk, 'interleave', x.get('forms'))
        check_interleave(chk, c)
        chk.case(c, sum(len(x['Ls']) for x in c['sources']) >= 2, key='interleave|' + json.dumps(jsonable(c), sort_keys=True))


def gen_interleave_dp(rng, i, T):
    """2-4 disruption processes advanced side by side, period by period (as the simulation does for the nodes of a network)"""
    procs = []
    for j in range(rng.randint(2, 4)):
        if i % 3 == 2 and rng.random() < 0.5:
            lst = [rng.random() < 0.4 for _ in range(rng.randint(1, 6))]
            procs.append(dict(ptype='E', states=lst, container=gen_container(rng, lst))); continue
        a, b = gen_markov_boundary(rng) if rng.random() < 0.15 else (rng.choice([_dy(rng, 0.0625, 0.9375, 16), round(rng.uniform(0.05, 0.95), 2)]),
                                                                    rng.choice([_dy(rng, 0.0625, 0.9375, 16), round(rng.uniform(0.05, 0.95), 2)]))
        pr = dict(ptype='M', alpha=a, beta=b, d0=rng.random() < 0.5)
        if rng.random() < 0.5: pr['forms'] = markov_forms(rng, pr, sampling_only=True)
        procs.append(pr)
    return dict(kind='interleave-dp', procs=procs, T=T, seed=seed_of(rng))


def check_interleave_dp(chk, c, tests):
    procs = c['procs']; T = c['T']; n0 = len(chk.fails)
    dps = [mk_dp(x) for x in procs]; seqs = [[] for _ in procs]
    np.random.seed(c['seed'])
    for t in range(T):
        for k, dp in enumerate(dps):
            dp.update_disruption_state(t); seqs[k].append(dp.disrupted)
    r = np.random.RandomState(c['seed']); cur = [bool(x.get('d0', False)) for x in procs]; bad = False
    for t in range(T):
        for k, x in enumerate(procs):
            got = seqs[k][t]
            if x['ptype'] == 'E':
                want = list_oracle(x['states'], t)[1]
                if not same_value(got, want) and not bad:
                    bad = True; chk.fail('update_disruption_state|E|not-cyclic-replay', 'process %d, period %d: disrupted = %r, list[period %% len] is %r' % (k, t, got, want), c)
                continue
            u = float(r.random_sample()); cur[k] = (u <= 1 - x['beta']) if cur[k] else (u <= x['alpha'])
            if (not is_single(got) or bool(got) != cur[k]) and not bad:
                if 'np.float32' in (x.get('forms') or {}).values() and near_f32_tie(x, u): cur[k] = bool(got); chk.extra['correspondence']['near_tie_skipped'] += 1; continue
                bad = True
                chk.mismatch('process %d of %d advanced side by side, period %d: update_disruption_state() -> %r but the declared transition of THIS process on u=%r gives %r (alpha=%r, beta=%r)'
                             % (k, len(procs), t, got, u, cur[k], x['alpha'], x['beta']), c)
    for k, x in enumerate(procs):
        if x['ptype'] == 'M' and all(is_single(v) for v in seqs[k]):
            check_stat_markov(chk, dict(x, kind='statmarkov', n=T, seed=c['seed']), tests, st=[bool(v) for v in seqs[k]])
    for k in range(n0, len(chk.fails)):
        sig, what, _ = chk.fails[k]
        chk.fails[k] = (sig + '|several-processes-alive', '%d disruption processes advanced side by side for %d periods: %s; processes: %r' % (len(procs), T, what, procs), jsonable(c))


def oracle_interleave_dp(chk, n, T, tests):
    stat_header(chk)
    for i in range(n):
        c = gen_interleave_dp(chk.rng, i, T)
        chk.count('interleave-dp processes=%d' % len(c['procs']))
        for x in c['procs']:
            if x['ptype'] == 'M': count_forms(chk, 'interleave-dp', x.get('forms'))
        check_interleave_dp(chk, c, tests)
        chk.case(c, True, key='interleave-dp|%d' % c['seed'])


def gen_probvec(rng):
    k = rng.randint(1, 12); kind = rng.choice(['decimal', 'normalised', 'equal', 'thirds', 'long-normalised', 'long-normalised', 'scipy-pmf', 'perturbed'])
    if kind == 'equal': k = rng.randint(1, 100); return [1 / k] * k, kind
    if kind == 'long-normalised':
        k = rng.randint(20, 100); w = np.array([rng.random() ** rng.choice([1, 3]) for _ in range(k)])
        return [float(x) for x in (w / w.sum())], kind
    if kind == 'scipy-pmf':
        import scipy.stats as ss
        which = rng.choice(['binom', 'poisson', 'nbinom', 'hypergeom'])
        if which == 'binom': n = rng.randint(2, 40); return [float(x) for x in ss.binom(n, rng.choice([0.1, 0.3, 0.5, 0.7, 0.9])).pmf(range(n + 1))], kind + ':binom'
        if which == 'hypergeom': M = rng.randint(10, 40); n = rng.randint(1, M - 1); N = rng.randint(1, M - 1); return [float(x) for x in ss.hypergeom(M, n, N).pmf(range(0, min(n, N) + 1))], kind + ':hypergeom'
        pm = (ss.poisson(rng.choice([0.5, 2.0, 7.5])) if which == 'poisson' else ss.nbinom(rng.randint(1, 5), rng.choice([0.3, 0.5, 0.7]))).pmf(range(0, rng.randint(30, 60)))
        return [float(x) for x in pm / pm.sum()], kind + ':' + which + '-truncated-normalised'
    if kind == 'perturbed':          # sum off one by 1e-13 .. 5e-10: still "one within 1e-9"
        k = rng.randint(2, 30); w = np.array([rng.random() for _ in range(k)]); ps = [float(x) for x in (w / w.sum())]
        j = max(range(k), key=lambda i: ps[i]); ps[j] += rng.choice([1, -1]) * rng.choice([1e-13, 1e-12, 1e-11, 1e-10, 5e-10])
        return ps, kind
    if kind == 'thirds': return rng.choice([[0.7, 0.2, 0.1], [1 / 3, 1 / 3, 1 / 3], [0.1] * 10, [0.2] * 5, [1 / 7] * 7, [0.15, 0.35, 0.5], [0.3, 0.3, 0.3, 0.1], [1 / 6] * 6, [0.05] * 20]), kind
    if kind == 'decimal':
        d = 10 ** rng.randint(1, 4); cuts = sorted(rng.randint(0, d) for _ in range(k - 1))
        return [(b - a) / d for a, b in zip([0] + cuts, cuts + [d])], kind
    w = [rng.random() for _ in range(k)]; s = sum(w); return [x / s for x in w], kind


def check_probvec(chk, c):
    from stockpyl.demand_source import DemandSource
    ps = c['probabilities']; xs = list(range(len(ps)))
    ds = DemandSource(type='CD', demand_list=xs, probabilities=ps)
    if c['good']:
        for what, f in (('validate_parameters', lambda: ds.validate_parameters()), ('mean', lambda: ds.mean), ('cdf', lambda: ds.cdf(0)),
                        ('generate_demand', lambda: ds.generate_demand()), ('lead_time_demand_distribution', lambda: ds.lead_time_demand_distribution(2).mean())):
            try:
                np.random.seed(1); f()
            except Exception as e:
                chk.fail('%s|CD|sum-within-rounding-rejected' % what, 'probabilities %r sum to %r (exactly %s) but %s raises %s: %s'
                         % (ps, float(np.sum(ps)), 'one' if sum(map(F, ps)) == 1 else 'one within rounding', what, exc_kind(e), str(e)[:120]), c)
                break
    else:
        try:
            ds.validate_parameters()
            chk.fail('validate_parameters|CD|bad-sum-accepted', 'probabilities %r sum to %r but are accepted' % (ps, float(np.sum(ps))), c)
        except AttributeError:
            pass
        except Exception as e:
            chk.fail('validate_parameters|CD|raises-%s' % exc_kind(e), str(e)[:200], c)


def oracle_validate(chk, n):
    rng = chk.rng
    fixed = [[0.7, 0.2, 0.1], [1 / 3, 1 / 3, 1 / 3], [0.1] * 10, [1 / 63] * 63, [1 / 49] * 49, [1 / 93] * 93]
    pv = chk.extra.setdefault('probability_vectors', {'accepted_stream': 0, 'of_which_float_sum_not_exactly_1': 0, 'of_which_2ulp_or_more_off': 0, 'max_abs_sum_minus_1': 0.0, 'rejected_stream': 0})
    for i in range(n):
        ps, kind = (fixed[i], 'named') if i < len(fixed) else gen_probvec(rng)
        good = i < len(fixed) or rng.random() < 0.75
        if not good:
            j = rng.randrange(len(ps)); delta = rng.choice([1e-6, 1e-4, 0.01, 0.1, 0.5]) * rng.choice([1, -1])
            ps = list(ps); ps[j] = ps[j] + delta
            if ps[j] < 0: ps[j] -= 2 * delta
        c = dict(kind='probvec', probabilities=ps, good=good, how=kind)
        dev = abs(float(np.sum(ps)) - 1)
        if good:
            assert dev <= 1e-9, (ps, dev)
            pv['accepted_stream'] += 1; pv['of_which_float_sum_not_exactly_1'] += dev > 0; pv['of_which_2ulp_or_more_off'] += dev > 2.3e-16
            pv['max_abs_sum_minus_1'] = max(pv['max_abs_sum_minus_1'], dev)
        else:
            pv['rejected_stream'] += 1
        chk.count('probvec %s good=%s' % (kind.split(':')[0], good))
        check_probvec(chk, c)
        chk.case(c, float(np.sum(ps)) != 1.0 or any(F(q).denominator & (F(q).denominator - 1) for q in ps), key='probvec|' + json.dumps(ps))
    # other parameter guards: clearly invalid parameters must be rejected
    from stockpyl.demand_source import DemandSource
    bad = [dict(type='N', mean=-1, standard_deviation=1), dict(type='N', mean=5, standard_deviation=-1), dict(type='P', mean=-2),
           dict(type='UD', lo=5, hi=3), dict(type='UD', lo=1.5, hi=3), dict(type='UC', lo=5, hi=3), dict(type='NB', n=0, p=0.5),
           dict(type='NB', n=3, p=1.5), dict(type='CD', demand_list=[1, 2], probabilities=[1.0]), dict(type='XX'), dict(type='D')]
    for b in bad:
        c = dict(kind='badparams', args=b)
        try:
            DemandSource(**b).validate_parameters()
            chk.fail('validate_parameters|%s|invalid-accepted' % b['type'], 'invalid parameters %r accepted' % b, c)
        except AttributeError:
            pass
        chk.case(c, False)
    # observation (not part of the property's clause): negative entries summing to one
    try:
        DemandSource(type='CD', demand_list=[0, 1], probabilities=[1.25, -0.25]).validate_parameters()
        chk.extra['observations'] = ['validate_parameters accepts probabilities=[1.25, -0.25] (sum 1, negative entry); np.random.choice then raises ValueError in generate_demand()']
    except AttributeError:
        chk.extra['observations'] = []


def check_steady(chk, c):
    dp = mk_dp(c)
    if c['ptype'] == 'M' and 0 <= c['alpha'] <= 1 and 0 <= c['beta'] <= 1:
        try:
            dp.validate_parameters()
        except Exception as e:
            chk.fail('validate_parameters|M|probabilities-in-[0,1]-rejected', 'disruption_probability=%r, recovery_probability=%r raise %s: %s'
                     % (c['alpha'], c['beta'], exc_kind(e), str(e)[:200]), c)
    try:
        pu, pd = dp.steady_state_probabilities()
    except Exception as e:
        chk.fail('steady_state_probabilities|%s|raises-%s' % (c['ptype'], exc_kind(e)), str(e)[:200], c); return
    if c['ptype'] == 'M':
        a, b = F(c['alpha']), F(c['beta']); wu, wd = b / (a + b), a / (a + b)
        if not (close(pu, float(wu)) and close(pd, float(wd))):
            chk.fail('steady_state_probabilities|M|not-stationary-vector', '(pi_up, pi_down) = %r, stationary vector of the chain is %r (alpha=%r, beta=%r)'
                     % ((pu, pd), (float(wu), float(wd)), c['alpha'], c['beta']), c)
        # residual of pi P = pi for the chain the code implements
        if abs(pu * (1 - c['alpha']) + pd * c['beta'] - pu) > 1e-12 or abs(pu + pd - 1) > 1e-12:
            chk.fail('steady_state_probabilities|M|residual', 'pi P - pi residual too large for %r' % ((pu, pd),), c)
    else:
        lst = c['states']; wd = Fr(sum(1 for x in lst if x), len(lst))
        if not (close(pd, float(wd)) and close(pu, float(1 - wd))):
            chk.fail('steady_state_probabilities|E|not-fraction-of-true', '(pi_up, pi_down) = %r, fraction of disrupted entries is %r' % ((pu, pd), float(wd)), c)


def oracle_steady(chk, n, do_model=True):
    rng = chk.rng; cases = []
    for i in range(n):
        if i % 2 == 0:
            c = dict(kind='steady', ptype='M', alpha=_dy(rng, 0, 1, 16) if rng.random() < .5 else round(rng.random(), 3), beta=_dy(rng, 0, 1, 16) if rng.random() < .5 else round(rng.random(), 3))
            if c['alpha'] + c['beta'] == 0: c['beta'] = 0.5
            if i % 6 == 4: c['alpha'], c['beta'] = gen_markov_boundary(rng)          # a probability equal to 0 or 1 (int or float)
            if i % 4 == 2: c['forms'] = gen_forms(rng, 'M', dict(alpha=c['alpha'], beta=c['beta']))
            count_forms(chk, 'steady', c.get('forms'))
        else:
            c = dict(kind='steady', ptype='E', states=[rng.random() < rng.choice([0.1, 0.5, 0.9]) for _ in range(rng.randint(1, 12))])
            c['container'] = gen_container(rng, c['states'])
        cases.append(c); chk.count('steady %s' % c['ptype'])
        if c['ptype'] == 'E': chk.count('steady E container=%s' % c['container'])
        check_steady(chk, c)
        chk.case(c, (c['ptype'] == 'M' and 0 < c['alpha'] and 0 < c['beta']) or (c['ptype'] == 'E' and 0 < sum(c['states']) < len(c['states'])),
                 key='steady|' + json.dumps(jsonable(c)))
    if do_model:
        exprs = []
        for c in cases:
            if c['ptype'] == 'M': exprs.append('option_map (fun x => [qobs (fst x); qobs (snd x)]) (steady_markov %s %s)' % (cq(c['alpha']), cq(c['beta'])))
            else: exprs.append('option_map (fun x => [qobs (fst x); qobs (snd x)]) (steady_explicit %s)' % clist([cbool(b) for b in c['states']]))
        for c, m in zip(cases, coq_eval_sharded('c16s', 'Alg.Gen', '', exprs, shard=100)):
            chk.traces += 1
            try:
                pu, pd = mk_dp(c).steady_state_probabilities()
            except Exception:
                pu = pd = None
            if m is None or pu is None or not (close(float(qv(m[1][0])), pu) and close(float(qv(m[1][1])), pd)):
                chk.mismatch('Coq steady state %r vs implementation %r' % (m, (pu, pd)), c)


# ------------------------------------------------------------------------------------------------
# (c) statistical search

class Tests:
    def __init__(self): self.n = 0
    def use(self, k=1):
        self.n += k
        if self.n > NT_MAX: raise RuntimeError('statistical test budget exceeded (%d > %d): thresholds would no longer give 1e-6' % (self.n, NT_MAX))


def binom_range(n, p):
    from scipy.stats import binom
    if p <= 0: return (0, 0)
    if p >= 1: return (n, n)
    return (int(binom.ppf(DELTA / 2, n, p)) - 1, int(binom.isf(DELTA / 2, n, p)) + 1)


def check_stat_demand(chk, c, tests):
    """n samples of generate_demand() against the declared law: support, DKW/KS, mean, variance, frequency"""
    t = c['type']; n = c['n']; d = Decl(c); site = 'generate_demand|%s|' % t; z = _z()
    ds = mk_ds(c); np.random.seed(c['seed'])
    try:
        xs = [ds.generate_demand() for _ in range(n)]
    except Exception as e:
        chk.fail(site + 'raises-%s' % exc_kind(e), str(e)[:200], c); return
    bad = [x for x in xs if not d.in_support(x)]
    if bad:
        chk.fail(site + 'sample-outside-support', '%d of %d samples outside the support, e.g. %r (parameters %r)' % (len(bad), n, bad[0], c['params']), c)
    a = np.sort(np.asarray(xs, dtype=float))
    # Dvoretzky-Kiefer-Wolfowitz (Massart): P(sup|Fn - F| > eps) <= 2 exp(-2 n eps^2), any F, any n
    tests.use(); eps = math.sqrt(math.log(2 / DELTA) / (2 * n))
    vals, counts = np.unique(a, return_counts=True); cum = np.cumsum(counts) / n; prev = np.concatenate([[0.0], cum[:-1]])
    if len(vals) > 4000:
        idx = np.linspace(0, len(vals) - 1, 4000).astype(int); vals, cum, prev = vals[idx], cum[idx], np.concatenate([[0.0], cum[idx][:-1]])
        # on a thinned grid compare F only at the retained points (still a valid lower bound of the sup distance)
        D = max(abs(cu - d.sample_cdf(v)) for v, cu in zip(vals, cum))
    else:
        D = max(max(abs(cu - d.sample_cdf(v)), abs(pv - d.sample_cdf(v, left=True))) for v, cu, pv in zip(vals, cum, prev))
    if D > eps:
        chk.fail(site + 'ks-distance', 'n=%d samples: sup|F_n - F| = %.4f > %.4f (DKW bound at %.1e); sample mean %.4f, declared mean %.4f, parameters %r'
                 % (n, D, eps, DELTA, float(a.mean()), d.mean, c['params']), c)
    mv = d.sample_mean_var()
    if mv is not None:
        m, v = mv; tests.use(2)
        sm = float(a.mean()); sv = float(a.var(ddof=1)) if n > 1 else 0.0
        if abs(sm - m) > z * math.sqrt(v / n) + 1e-12:
            chk.fail(site + 'sample-mean', 'n=%d: sample mean %.5f vs %.5f (|diff| > %.2f standard errors); parameters %r' % (n, sm, m, z, c['params']), c)
        m4 = float(((a - sm) ** 4).mean()); se = math.sqrt(max(m4 - sv * sv, 0.0) / n)
        if abs(sv - v) > z * se * 1.2 + 1e-12 + 4 * v / n:
            chk.fail(site + 'sample-variance', 'n=%d: sample variance %.5f vs %.5f (|diff| > %.2f standard errors); parameters %r' % (n, sv, v, z, c['params']), c)
    # exact binomial frequency tests
    if t == 'CD' and not c.get('round'):
        s = float(sum(F(q) for q in c['params']['probabilities']))
        for v, q in zip(c['params']['demand_list'], c['params']['probabilities']):
            tests.use(); lo, hi = binom_range(n, q / s); k = int(np.sum(a == v))
            if not (lo <= k <= hi):
                chk.fail(site + 'frequency', 'value %r drawn %d times in %d, declared probability %r allows %d..%d' % (v, k, n, q, lo, hi), c)
    else:
        x0 = math.floor(d.mean) if t != 'UC' else d.mean
        p0 = d.sample_cdf(x0); tests.use(); lo, hi = binom_range(n, p0); k = int(np.sum(a <= x0))
        if not (lo <= k <= hi):
            chk.fail(site + 'frequency', '#{samples <= %r} = %d of %d, declared cdf %.5f allows %d..%d' % (x0, k, n, p0, lo, hi), c)


def check_stat_markov(chk, c, tests, st=None):
    """st: the state sequence of the process when it was advanced elsewhere (next to other processes); otherwise it is run here"""
    n = c['n']; a, b = c['alpha'], c['beta']; z = _z()
    if st is None:
        dp = mk_dp(c); np.random.seed(c['seed']); st = []
        for _ in range(n):
            dp.update_disruption_state(); st.append(bool(dp.disrupted))
    # transitions of declared probability 0 / 1 (alpha or beta on the boundary of [0,1]) are checked one by one, not statistically
    fail_impossible(chk, c, st)
    if a + b == 0: return                      # both states absorbing: no steady state is reported (see assume); nothing statistical to test
    prev = [bool(c.get('d0', False))] + st[:-1]
    from_up = [s for p, s in zip(prev, st) if not p]; from_dn = [s for p, s in zip(prev, st) if p]
    piu, pid = b / (a + b), a / (a + b)
    inconclusive = 0
    for name, seq, p, frac in (('up->down', from_up, a, piu), ('down->down', from_dn, 1 - b, pid)):
        m = int(0.5 * n * frac)
        if m < 50 or len(seq) < m: inconclusive += 1; continue
        tests.use(); lo, hi = binom_range(m, p); k = sum(seq[:m])
        if not (lo <= k <= hi):
            chk.fail('update_disruption_state|M|transition-frequency', '%s: %d of the first %d transitions, declared probability %r allows %d..%d (alpha=%r, beta=%r)'
                     % (name, k, m, p, lo, hi, a, b), c)
    lam = 1 - a - b; tests.use()
    se = math.sqrt(piu * pid * (1 + lam) / max(1 - lam, 1e-12) / n); freq = sum(st) / n
    try:
        rep = mk_dp(c).steady_state_probabilities()[1]
    except Exception:
        rep = None
    if piu * pid == 0:
        # one state is transient (alpha = 0 or beta = 0): the time spent there before absorption is geometric with the rate of leaving
        # it, so it is <= ln(delta)/ln(1 - rate) periods except with probability delta (0 periods if the rate is 1)
        rate = a if pid == 1 else b
        allow = ((math.ceil(math.log(DELTA) / math.log1p(-rate)) if rate < 1 else 0) + 1) / n
    elif abs(lam) == 1:
        allow = 1 / n                          # alpha = beta = 1: the chain alternates deterministically
    else:
        allow = z * 1.2 * se + 4 / (n * (1 - abs(lam)))
    if rep is not None and abs(freq - rep) > allow:
        chk.fail('update_disruption_state|M|steady-state-frequency', 'disrupted in %.5f of %d periods, steady_state_probabilities() reports pi_down = %.5f (|diff| > %.2f se) (alpha=%r, beta=%r)'
                 % (freq, n, rep, z, a, b), c)
    chk.extra['statistical']['markov_inconclusive_subtests'] = chk.extra['statistical'].get('markov_inconclusive_subtests', 0) + inconclusive


def stat_header(chk):
    chk.extra.setdefault('statistical', {'label': 'SEARCH, not proof', 'per_test_false_alarm': DELTA, 'test_budget': NT_MAX,
                                         'thresholds': 'DKW eps = sqrt(ln(2/delta)/(2n)); exact binomial quantiles at delta/2; z = %.2f (normal quantile at delta/2 x %.2f)' % (_z(), Z_SAFETY)})


def stat_search(chk, nset, n, tests):
    rng = chk.rng
    stat_header(chk)
    for t in ('UC', 'N', 'CD', 'UD', 'P', 'NB'):
        for i in range(nset):
            c = dict(kind='stat', type=t, params=gen_params(rng, t, rng.random() < 0.3, frac=(t == 'CD' and i % 2 == 1)), round=None, seed=seed_of(rng), n=n)
            if t == 'CD' and i == 3: c['round'] = True                       # fractional support rounded to integers (half to even)
            if t == 'UC' and i == 0: c['params'] = dict(lo=2, hi=10)           # hi - lo > lo: a wrong second argument stays inside the support
            if t == 'N' and i == 0: c['params'] = dict(mean=1.0, standard_deviation=2.0)       # heavy censoring at 0
            if t in ('N', 'UC') and i == 1: c['round'] = True
            if i % 2 == 0 and i > 0: c['forms'] = gen_forms(rng, t, c['params'], sampling_only=True)
            chk.count('stat type=%s' % t); count_forms(chk, 'stat', c.get('forms'))
            check_stat_demand(chk, c, tests)
            chk.case(c, True, key='stat|%s|%d' % (t, c['seed']))
    for i in range(2 * nset):
        c = dict(kind='statmarkov', ptype='M', alpha=round(rng.uniform(0.05, 0.95), 2), beta=round(rng.uniform(0.05, 0.95), 2), d0=rng.random() < 0.5, seed=seed_of(rng), n=n)
        # every other chain has numpy-typed probabilities / start state (values from an array, a linspace grid, a data frame column)
        if i % 2 == 1: c['forms'] = markov_forms(rng, c, sampling_only=True, always='np.float64' if i == 1 else None)
        chk.count('stat markov'); count_forms(chk, 'stat markov', c.get('forms'))
        check_stat_markov(chk, c, tests)
        chk.case(c, True, key='statmarkov|%d' % c['seed'])
    for i in range(2 * nset):
        # boundary chains (a transition probability equal to 0 or 1): absorbing / never disrupted / strictly alternating
        a, b = gen_markov_boundary(rng)
        if i == 0: a, b = 0.5, 0                 # a disruption that never ends: pi_down = 1
        if i == 1: a, b = 0.25, 1                # every disruption lasts exactly one period
        c = dict(kind='statmarkov', ptype='M', alpha=a, beta=b, d0=rng.random() < 0.5, seed=seed_of(rng), n=max(n // 5, 2000))
        if i % 2 == 1: c['forms'] = markov_forms(rng, c, sampling_only=True)
        chk.count('stat markov boundary'); count_forms(chk, 'stat markov', c.get('forms'))
        check_stat_markov(chk, c, tests)
        chk.case(c, True, key='statmarkov|%d' % c['seed'])
    chk.extra['statistical']['tests_run'] = tests.n
    chk.extra['statistical']['samples_per_set'] = n


# ------------------------------------------------------------------------------------------------

def run(chk):
    warnings.simplefilter('ignore')
    chk.rule = RULE + ' ' + NUMERIC_FORM_NOTES
    chk.extra['numeric_type_forms'] = NUMERIC_FORM_NOTES
    chk.trusted += ['model Alg/Gen.v is hand-written; tied to /repo by replaying generate_demand()/update_disruption_state() against it with the primitive variates of a parallel RandomState under the same seed, and by comparing its convolution / steady-state tables with the implementation',
                    "NumPy's legacy RandomState primitives (random_sample, standard_normal, poisson, randint, negative_binomial) are taken as inputs; that they have their nominal laws is NOT proved (statistical search only)",
                    'oracle closed forms (normal cdf via erfc, Poisson / negative-binomial pmf via lgamma, exact rational convolution, Irwin-Hall cdf by the B-spline recurrence) written in the harness',
                    'scipy.stats.binom quantiles and the DKW inequality for the statistical thresholds']
    chk.assume += ['PARTIAL BY NATURE: "samples follow the declared distribution" and "the Markov process visits the disrupted state with the steady-state frequency" are statistical statements; they are tested (false-alarm < 1e-6 per run), not proved',
                   'floating-point rounding is not modelled: theorems are over exact rationals; correspondence is bit-for-bit against the float transcription and exact / within 4 ulp against the rational model',
                   'steady_state_probabilities() with disruption_probability = recovery_probability = 0 raises ZeroDivisionError (every vector is stationary for that chain); excluded (alpha + beta > 0)',
                   "'N' demand is censored at 0 by design (max(0, .)): samples follow the censored law, the reported mean/sd are those of the uncensored normal",
                   'rand() <= p on the 2^-53 grid has probability p + 2^-53 (not p): ignored']
    chk.extra['claim_level'] = 'partial by nature: theorems (logic) + exact correspondence + statistical search'
    chk.proof()
    quick = chk.tier == 'quick'
    numpy_relations(chk, 40 if quick else 200)
    corr_random(chk, 240 if quick else 1200, 12 if quick else 20)
    corr_markov(chk, 30 if quick else 300, 40 if quick else 80)
    corr_lists(chk, 60 if quick else 600)
    oracle_reported_and_ltd(chk, 6 if quick else 25, 4 if quick else 7)
    oracle_validate(chk, 250 if quick else 3000)
    oracle_sequences(chk, 40 if quick else 400, 4 if quick else 6)
    oracle_steady(chk, 30 if quick else 400)
    oracle_interleave(chk, 18 if quick else 180, 4 if quick else 6)
    tests = Tests()
    oracle_interleave_dp(chk, 6 if quick else 40, 20000 if quick else 50000, tests)
    stat_search(chk, 4 if quick else 12, 100000 if quick else 300000, tests)
    if (chk.broken or chk.mismatches) and not chk.fails:
        # directed search for a failing input of the property: oracle + statistics only, fresh seeds, larger samples
        oracle_reported_and_ltd(chk, 8 if quick else 30, 5, do_model=False)
        oracle_steady(chk, 60, do_model=False)
        corr_markov(chk, 60, 200, do_model=False)
        oracle_sequences(chk, 80, 5)
        oracle_interleave(chk, 36, 5)
        oracle_interleave_dp(chk, 12, 20000, tests)
        corr_lists(chk, 120, do_model=False)
        stat_search(chk, 4 if quick else 8, 60000 if quick else 300000, tests)


def replay(chk, rp):
    warnings.simplefilter('ignore')
    c = rp['case']; k = c.get('kind'); tests = Tests()
    chk.extra.setdefault('statistical', {}); chk.extra.setdefault('correspondence', {'near_tie_skipped': 0})
    print('replaying kind=%s' % k)
    if k == 'corr':
        ds = mk_ds(c); np.random.seed(c['seed']); r = [ds.generate_demand() for _ in range(c['n'])]; v = draw_variates(c, c['n']); d = Decl(c)
        print('samples:', r); print('transform of the variates:', [float_model(c, x) for x in v])
        for x in r:
            if not d.in_support(x): chk.fail('generate_demand|%s|sample-outside-support' % c['type'], 'sample %r outside the support' % (x,), c)
        c2 = dict(c, kind='stat', n=20000); check_stat_demand(chk, c2, tests)
    elif k == 'stat': check_stat_demand(chk, c, tests)
    elif k in ('statmarkov', 'markov'): check_stat_markov(chk, dict(c, n=max(c['n'], 20000)), tests)
    elif k == 'list': check_list_case(chk, c)
    elif k == 'reported': check_reported(chk, c)
    elif k == 'ltd': check_ltd(chk, c)
    elif k == 'ltdseq': check_sequence(chk, c)
    elif k == 'interleave': check_interleave(chk, c)
    elif k == 'interleave-dp': check_interleave_dp(chk, c, tests)
    elif k == 'probvec': check_probvec(chk, c)
    elif k == 'steady': check_steady(chk, c)
    else: print('unknown case kind %r' % k)
    chk.case(c)
