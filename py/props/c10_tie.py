"""Translator validation used by C10 (and usable by any property that imports coq/gen/Gen_*.v):
run a translated stockpyl function in Python, record every library ("oracle") call it makes, evaluate the
generated Gallina term at FOps (binary64, vm_compute) with the recorded oracle values, and compare the
results BIT FOR BIT."""
import ast, importlib, math, struct, sys, types, warnings
import numpy as np
from vlib import *
import py2v

ORACLE_ID = {'exp_': 0, 'log_': 1, 'norm_cdf': 2, 'norm_pdf': 3, 'norm_ppf': 4,
             'poisson_pmf': 5, 'poisson_cdf': 6, 'poisson_ppf': 7, 'gss_x': 8, 'gss_f': 9, 'pow_': 20, 'powi': 21,
             'gamma_pdf': 100, 'gamma_cdf': 101, 'gamma_mean': 102, 'nbinom_pmf': 103, 'nbinom_cdf': 104}


def cfloat(x):
    x = float(x)
    if x != x: return 'PrimFloat.nan'
    if x in (float('inf'), float('-inf')): return 'PrimFloat.infinity' if x > 0 else 'PrimFloat.neg_infinity'
    if x == 0: return 'PrimFloat.neg_zero' if math.copysign(1, x) < 0 else 'PrimFloat.zero'
    return '(%s)%%float' % x.hex()


def fval(t):
    """(kind, mantissa, exponent) printed by fobs -> python float"""
    k, m, e = t
    if k == 0: return math.ldexp(m, e)
    if k == 1: return -0.0 if m == 1 else 0.0
    if k == 2: return float('inf') if m > 0 else float('-inf')
    return float('nan')


def same_bits(a, b):
    a = float(a); b = float(b)
    if a != a or b != b: return (a != a) and (b != b)
    return struct.pack('<d', a) == struct.pack('<d', b)


class _Proxy:
    """stands for the numpy / math module inside a stockpyl module while recording exp and log"""
    def __init__(self, real, rec):
        self.__dict__['_real'] = real; self.__dict__['_rec'] = rec
    def __getattr__(self, name):
        v = getattr(self._real, name)
        if name in ('exp', 'log'):
            return self._rec.wrap1(name + '_', v)
        return v


class Recorder:
    """context manager: records (oracle id, [args], value) for every library call made inside"""
    MODS = ['loss_functions', 'newsvendor', 'supply_uncertainty', 'eoq', 'optimization']

    def __init__(self, extra_mods=()):
        self.tbl = []
        self.undo = []
        self.extra_mods = list(extra_mods)

    def add(self, name, args, val):
        try:
            ent = (ORACLE_ID[name], tuple(float(a) for a in args), float(val))
        except Exception:
            return
        if ent not in self.tbl: self.tbl.append(ent)

    def wrap1(self, name, orig):
        def w(*a, **k):
            r = orig(*a, **k)
            if len(a) == 1 and not k: self.add(name, a, r)
            elif name == 'log_' and len(a) == 2 and not k:       # math.log(x, base) = log(x)/log(base)
                self.add(name, a[:1], orig(a[0])); self.add(name, a[1:], orig(a[1]))
            return r
        return w

    def wrap_norm(self, nm, orig):
        def w(*a, **k):
            r = orig(*a, **k)
            try:
                if k: return r
                if len(a) == 1: self.add('norm_' + nm, a, r)
                elif len(a) == 3:
                    x, loc, sc = (float(v) for v in a)
                    if nm == 'ppf': self.add('norm_ppf', [x], orig(x))
                    else:
                        z = (x - loc) / sc
                        self.add('norm_' + nm, [z], orig(z))
            except Exception:
                pass
            return r
        return w

    def wrap_kw(self, name, orig, npos, kw):
        def w(*a, **k):
            r = orig(*a, **k)
            if len(a) == npos and sorted(k) == ([kw] if kw else []):
                self.add(name, list(a) + ([k[kw]] if kw else []), r)
            return r
        return w

    def wrap_pois(self, nm, orig):
        def w(*a, **k):
            r = orig(*a, **k)
            if len(a) == 2 and not k: self.add('poisson_' + nm, a, r)
            return r
        return w

    def __enter__(self):
        import scipy.stats as st
        for nm in ('cdf', 'pdf', 'ppf'):
            setattr(st.norm, nm, self.wrap_norm(nm, getattr(st.norm, nm))); self.undo.append(('del', st.norm, nm))
        for nm in ('pmf', 'cdf', 'ppf'):
            setattr(st.poisson, nm, self.wrap_pois(nm, getattr(st.poisson, nm))); self.undo.append(('del', st.poisson, nm))
        for nm, npos in (('pdf', 2), ('cdf', 2), ('mean', 1)):
            setattr(st.gamma, nm, self.wrap_kw('gamma_' + nm, getattr(st.gamma, nm), npos, 'scale')); self.undo.append(('del', st.gamma, nm))
        for nm in ('pmf', 'cdf'):
            setattr(st.nbinom, nm, self.wrap_kw('nbinom_' + nm, getattr(st.nbinom, nm), 3, None)); self.undo.append(('del', st.nbinom, nm))
        mods = [importlib.import_module('stockpyl.' + m) for m in self.MODS]     # import everything BEFORE patching
        for m, mod in list(zip(self.MODS, mods)) + [('twin', x) for x in self.extra_mods]:
            for attr, real in (('np', np), ('math', math)):
                if getattr(mod, attr, None) is real:
                    setattr(mod, attr, _Proxy(real, self)); self.undo.append(('set', mod, attr, real))
            for attr in ('log', 'exp'):
                v = getattr(mod, attr, None)
                if v is getattr(math, attr) or v is getattr(np, attr):
                    setattr(mod, attr, self.wrap1(attr + '_', v)); self.undo.append(('set', mod, attr, v))
            g = getattr(mod, 'golden_section_search', None)
            if g is not None and m != 'optimization':
                def wg(f, a, b, *rest, _g=g, **k):
                    r = _g(f, a, b, *rest, **k)
                    self.add('gss_x', [a, b], r[0]); self.add('gss_f', [a, b], r[1])
                    return r
                setattr(mod, 'golden_section_search', wg); self.undo.append(('set', mod, 'golden_section_search', g))
        return self

    def __exit__(self, *exc):
        for u in reversed(self.undo):
            if u[0] == 'del': delattr(u[1], u[2])
            else: setattr(u[1], u[2], u[3])
        return False

    def coq_table(self):
        return '[' + '; '.join('(%d, [%s], %s)' % (i, '; '.join(cfloat(a) for a in args), cfloat(v)) for i, args, v in self.tbl) + ']'


# ---- the same module with every `e ** 2` replaced by `e * e`: libm's pow is not correctly rounded on ~0.1% of
# inputs, the Gallina term uses the (correctly rounded) product; such inputs are skipped, and counted
_SQ = {}


class _Sq(ast.NodeTransformer):
    def visit_BinOp(self, node):
        self.generic_visit(node)
        if isinstance(node.op, ast.Pow) and isinstance(node.right, ast.Constant) and node.right.value == 2 and not isinstance(node.right.value, bool):
            return ast.copy_location(ast.BinOp(left=node.left, op=ast.Mult(), right=node.left), node)
        return node


def squared_variant(modname):
    if modname not in _SQ:
        path = os.path.join(REPO_SRC, 'stockpyl', modname + '.py')
        with warnings.catch_warnings():
            warnings.simplefilter('ignore')
            tree = ast.parse(open(path).read())
            tree = ast.fix_missing_locations(_Sq().visit(tree))
            m = types.ModuleType('stockpyl_sq_' + modname)
            m.__dict__['__file__'] = path
            exec(compile(tree, path, 'exec'), m.__dict__)
        _SQ[modname] = m
    return _SQ[modname]


# ---- the same module with every `a ** b` (b not the literal 2) routed through a recording function: Python's float power
# cannot be intercepted otherwise.  The twin is only used to RECORD the values of libm pow on the arguments that occur;
# its results must be bit-identical to those of the real module.
_POW = {}
_CUR = [None]


def _rec_pow(a, b):
    r = a ** b
    if _CUR[0] is not None: _CUR[0].add('pow_', [a, b], r)
    return r


def _rec_powi(a, k):
    r = a ** k
    if _CUR[0] is not None: _CUR[0].add('powi', [a, k], r)
    return r


class _PowT(ast.NodeTransformer):
    def visit_BinOp(self, node):
        self.generic_visit(node)
        if isinstance(node.op, ast.Pow):
            r = node.right
            lit = isinstance(r, ast.Constant) and isinstance(r.value, int) and not isinstance(r.value, bool)
            if lit and r.value == 2: return node
            return ast.copy_location(ast.Call(func=ast.Name(id='__rec_powi__' if lit else '__rec_pow__', ctx=ast.Load()), args=[node.left, r], keywords=[]), node)
        return node


def pow_variant(modname):
    if modname not in _POW:
        path = os.path.join(REPO_SRC, 'stockpyl', modname + '.py')
        with warnings.catch_warnings():
            warnings.simplefilter('ignore')
            tree = ast.fix_missing_locations(_PowT().visit(ast.parse(open(path).read())))
            m = types.ModuleType('stockpyl_pow_' + modname)
            m.__dict__['__file__'] = path
            m.__dict__['__rec_pow__'] = _rec_pow; m.__dict__['__rec_powi__'] = _rec_powi
            exec(compile(tree, path, 'exec'), m.__dict__)
        _POW[modname] = m
    return _POW[modname]


def call_impl(q, args):
    """-> ('ok', [floats]) | ('ValueError', msg) | ('other', kind, msg), recorded oracle table"""
    info = py2v.FUNCS[q]; m, f = info['module'], info['name']
    args = dict(args, **info.get('static', {}))
    fn = getattr(importlib.import_module('stockpyl.' + m), f)
    uses_pow = bool({'pow_', 'powi'} & set(info['oracles']))
    twin = pow_variant(m) if uses_pow else None

    def run(fun):
        try:
            r = fun(**args)
            r = list(r) if isinstance(r, tuple) else [r]
            return ('ok', [float(x) for x in r])
        except ValueError as e:
            return ('ValueError', str(e)[:120])
        except Exception as e:
            return ('other', exc_kind(e), str(e)[:120])
    rec = Recorder(extra_mods=[twin] if twin else [])
    with warnings.catch_warnings():
        warnings.simplefilter('ignore')
        if twin is None:
            with rec:
                out = run(fn)
        else:
            out = run(fn)                                   # the real function gives the result ...
            with rec:
                _CUR[0] = rec
                try: out2 = run(getattr(twin, f))           # ... the twin only records
                finally: _CUR[0] = None
            if out[0] == 'ok' and (out2[0] != 'ok' or not all(same_bits(a, b) for a, b in zip(out[1], out2[1]))):
                out = ('other', 'pow-twin-differs', '%r vs %r' % (out, out2))
    return out, rec


def call_squared(q, args):
    info = py2v.FUNCS[q]; m, f = info['module'], info['name']
    args = dict(args, **info.get('static', {}))
    fn = getattr(squared_variant(m), f)
    with warnings.catch_warnings():
        warnings.simplefilter('ignore')
        try:
            r = fn(**args)
            r = list(r) if isinstance(r, tuple) else [r]
            return ('ok', [float(x) for x in r])
        except ValueError as e:
            return ('ValueError', str(e)[:120])
        except Exception as e:
            return ('other', exc_kind(e), str(e)[:120])


def coq_call(q, args, rec):
    """Gallina expression evaluating the translated function q at FOps on args, observed exactly"""
    info = py2v.FUNCS[q]
    m, f = info['module'], info.get('coqname', info['name'])
    parts = []
    for p in info['params']:
        v = args.get(p['name'], '__default__')
        if p['kind'] == 'opt':
            parts.append('None' if v in (None, '__default__') else '(Some %s)' % cfloat(v))
        elif p['kind'] == 'bool':
            parts.append(p['default'] if v == '__default__' else cbool(v))
        else:
            parts.append(None if v == '__default__' else cfloat(v))
    if None in parts:
        raise ValueError('coq_call %s: every numeric parameter must be given explicitly' % q)
    ty = info['ret']
    n = len(ty[1]) if isinstance(ty, tuple) else 1
    if n == 1: obs = 'fun r => [fobs r]'
    else:
        names = ['r%d' % i for i in range(n)]
        obs = "fun r => let '(%s) := r in [%s]" % (', '.join(names), '; '.join('fobs %s' % x for x in names))
    return 'option_map (%s) (Gen_%s.%s (FOps (FOracles %s)) %s)' % (obs, m, f, rec.coq_table(), ' '.join(parts))


TIE_DEFS = 'From Coq Require Import List ZArith PrimFloat.\nImport ListNotations.\nOpen Scope Z_scope.\n'


def tie_imports(qs):
    return 'Base.Ops ' + ' '.join(sorted({'gen.Gen_' + q.split('.')[0] for q in qs}))


def run_tie(chk, cases, tag='tie'):
    """cases: list of (q, args dict with every numeric parameter present).  Compares Python and FOps bit for bit.
    Returns number of compared cases; reports disagreements with chk.mismatch."""
    todo = []
    for q, args in cases:
        impl, rec = call_impl(q, args)
        if impl[0] == 'other':
            chk.count('tie_skipped_%s' % impl[1]); continue          # ZeroDivisionError etc.: not modelled
        if impl != call_squared(q, args):
            chk.count('tie_skipped_libm_pow_not_correctly_rounded'); continue
        todo.append((q, args, impl, coq_call(q, args, rec)))
    if not todo: return 0
    vals = coq_eval_sharded('c10' + tag, tie_imports([t[0] for t in todo]), TIE_DEFS, [t[3] for t in todo], shard=200)
    for (q, args, impl, _), v in zip(todo, vals):
        chk.traces += 1
        chk.count('tie_' + q.split('.', 1)[1])
        if impl[0] == 'ValueError':
            chk.count('tie_ValueError')
            if v is not None:
                chk.mismatch('translated %s returns a value but the implementation raises ValueError(%s)' % (q, impl[1]), dict(function=q, args=args))
            continue
        if v is None:
            chk.mismatch('translated %s = None (ValueError) but the implementation returns %r' % (q, impl[1]), dict(function=q, args=args))
            continue
        got = [fval(t) for t in (v[1] if isinstance(v, tuple) and v[0] == 'Some' else v)]
        if len(got) != len(impl[1]) or not all(same_bits(a, b) for a, b in zip(got, impl[1])):
            chk.mismatch('translated %s at FOps gives %s, implementation gives %s (not bit-identical)'
                         % (q, [x.hex() for x in got], [float(x).hex() for x in impl[1]]), dict(function=q, args=args))
    return len(todo)
