"""C20 — helpers.py: correspondence of Alg/Helpers.v with stockpyl.helpers + documented-result oracles.

Values are carried in a JSON-able tagged encoding (so that None / int / float dict keys survive a replay):
  ['N'] None | ['I', n] int | ['F', num, den] float (exact rational) | ['S', s] str
  ['L', [items], flavor]  flavor in list|tuple|ndarray | ['D', [[key, value], ...]] dict in insertion order
Shapes for which "has __iter__", "iter() works" and "is a list" disagree (oracle side; modelled by the scalar / list they stand for):
  ['Z', num] 0-d ndarray np.array(num) | ['Y', num] NumPy scalar np.int64 / np.float64 | ['T', name] a class object (list, dict ...)
  ['O', kind] an opaque object: 'object' = object(), 'noiter' = instance of a class with __iter__ = None
  further 'L' flavors: legacy (only __getitem__/__len__) | range | deque | set | frozenset | iter (list iterator) | gen (generator)
"""
import collections, copy, itertools, math, re
from fractions import Fraction
import numpy as np
from vlib import *

DEFS = ('From Coq Require Import String.\nImport ListNotations.\nOpen Scope string_scope.\nOpen Scope list_scope.\nOpen Scope Q_scope.\nOpen Scope Z_scope.\n')

# ------------------------------------------------------------------------------------------------
# encoding <-> python <-> Coq

def eN(): return ['N']
def eI(n): return ['I', int(n)]
def eF(x):
    x = F(x); return ['F', x.numerator, x.denominator]
def eS(s): return ['S', s]
def eL(items, flavor='list'): return ['L', list(items), flavor]
def eD(pairs): return ['D', [[k, v] for k, v in pairs]]


class LegacySeq:
    """a sequence implemented only with __getitem__/__len__ (no __iter__): iter(), for, list() all work on it"""
    def __init__(self, data): self._d = list(data)
    def __len__(self): return len(self._d)
    def __getitem__(self, i): return self._d[i]
    def __eq__(self, o): return type(o) is LegacySeq and self._d == o._d
    def __repr__(self): return 'LegacySeq(%r)' % (self._d,)


class NoIter:
    """declares itself non-iterable the way the data model documents (__iter__ = None): hasattr(x, '__iter__') holds, iter(x) raises TypeError"""
    __iter__ = None
    def __repr__(self): return 'NoIter()'


CLASS_OBJECTS = {'list': list, 'dict': dict, 'tuple': tuple, 'set': set, 'str': str, 'int': int, 'ndarray': np.ndarray, 'LegacySeq': LegacySeq}
SEQ_FLAVORS = ('legacy', 'range', 'deque')              # have len() and [i]: admissible "lists" for the node normalisers


def to_py(e):
    t = e[0]
    if t == 'Z': return np.array(to_py(e[1]))
    if t == 'Y': return np.int64(e[1][1]) if e[1][0] == 'I' else np.float64(to_py(e[1]))
    if t == 'T': return CLASS_OBJECTS[e[1]]
    if t == 'O': return NoIter() if e[1] == 'noiter' else object()
    if t == 'N': return None
    if t == 'I': return int(e[1])
    if t == 'F': return float(Fraction(e[1], e[2]))
    if t == 'S': return e[1]
    if t == 'L':
        items = [to_py(x) for x in e[1]]
        fl = e[2] if len(e) > 2 else 'list'
        if fl == 'tuple': return tuple(items)
        if fl == 'ndarray': return np.array(items)
        if fl == 'legacy': return LegacySeq(items)
        if fl == 'range': return range(items[0], items[-1] + 1) if items else range(0)
        if fl == 'deque': return collections.deque(items)
        if fl == 'set': return set(items)
        if fl == 'frozenset': return frozenset(items)
        if fl == 'iter': return iter(items)
        if fl == 'gen': return (v for v in items)
        return items
    if t == 'D': return {to_py(k): to_py(v) for k, v in e[1]}
    raise ValueError(e)


def canon(x):
    """python value -> encoding without flavors (tuples / ndarrays become 'L')"""
    if x is None: return ['N']
    if isinstance(x, (bool, np.bool_)): return ['B', bool(x)]
    if isinstance(x, (int, np.integer)): return ['I', int(x)]
    if isinstance(x, (float, np.floating)):
        if math.isnan(x) or math.isinf(x): return ['X', repr(float(x))]
        return eF(float(x))
    if isinstance(x, Fraction): return eF(x)
    if isinstance(x, str): return ['S', str(x)]
    if isinstance(x, (list, tuple, range, collections.deque)): return ['L', [canon(v) for v in x]]
    if isinstance(x, LegacySeq): return ['L', [canon(v) for v in x._d]]
    if isinstance(x, (set, frozenset)): return ['U', sorted((canon(v) for v in x), key=json.dumps)]       # unordered
    if isinstance(x, np.ndarray): return ['L', [canon(v) for v in x]] if x.ndim else canon(x.item())
    if isinstance(x, dict): return ['D', [[canon(k), canon(v)] for k, v in x.items()]]
    return ['?', repr(x)]


def strip(e):
    """drop list flavors from an input encoding so that it can be compared with canon() (a 0-d ndarray / NumPy scalar is the number it holds)"""
    if e[0] in 'ZY': return strip(e[1])
    if e[0] == 'L': return ['L', [strip(x) for x in e[1]]]
    if e[0] == 'D': return ['D', [[strip(k), strip(v)] for k, v in e[1]]]
    if e[0] == 'F':
        f = Fraction(e[1], e[2]); return ['F', f.numerator, f.denominator]
    return list(e)


def nd_elems(e):
    """the elements numpy would produce for an ndarray-flavoured list (ints and floats mixed -> all floats)"""
    if e[0] == 'L' and len(e) > 2 and e[2] == 'ndarray' and any(x[0] == 'F' for x in e[1]):
        return ['L', [eF(Fraction(x[1], x[2] if x[0] == 'F' else 1)) for x in e[1]], 'ndarray']
    return e


def cstr(s):
    assert '"' not in s
    return '"%s"' % s


def coq_key(e):
    t = e[0]
    if t == 'N': return 'KNone'
    if t == 'I': return '(KInt %s)' % cz(e[1])
    if t == 'F': return '(KNum %s)' % cq(Fraction(e[1], e[2]))
    if t == 'S': return '(KStr %s)' % cstr(e[1])
    raise ValueError('unhashable key %r' % (e,))


def coq_pv(e):
    t = e[0]
    if t in 'ZY': return coq_pv(e[1])       # modelled by the number it holds (a singleton)
    if t == 'N': return 'PNone'
    if t == 'I': return '(PInt %s)' % cz(e[1])
    if t == 'F': return '(PNum %s)' % cq(Fraction(e[1], e[2]))
    if t == 'S': return '(PStr %s)' % cstr(e[1])
    if t == 'L': return '(PList %s)' % clist([coq_pv(x) for x in nd_elems(e)[1]])
    if t == 'D': return '(PDict %s)' % coq_dict(e)
    raise ValueError(e)


def coq_dict(e):
    return clist(['(%s, %s)' % (coq_key(k), coq_pv(v)) for k, v in e[1]])


def from_ov(o):
    """parsed Coq [ov] -> encoding"""
    if o == 'ONone': return ['N']
    tag = o[0]
    if tag == 'OInt': return ['I', o[1]]
    if tag == 'ONum':
        f = Fraction(o[1], o[2]); return ['F', f.numerator, f.denominator]
    if tag == 'OStr': return ['S', o[1]]
    if tag == 'OList': return ['L', [from_ov(x) for x in o[1]]]
    if tag == 'ODict': return ['D', [[from_ov(k), from_ov(v)] for k, v in o[1]]]
    raise ValueError('ov %r' % (o,))


def model_res(m, conv=lambda x: x):
    """parsed [res A] -> ('ok', value) | ('err', kind)"""
    if isinstance(m, tuple) and m[0] == 'Ok': return ('ok', conv(m[1]))
    if isinstance(m, tuple) and m[0] == 'Err': return ('err', m[1])
    raise ValueError('res %r' % (m,))


def call(f, *args, **kw):
    """run the implementation; returns ('ok', raw value) | ('err', kind, msg)"""
    try:
        return ('ok', f(*args, **kw))
    except Exception as e:
        return ('err', exc_kind(e), str(e)[:160])


def same(a, b):
    """deep equality of python values incl. types and ndarray contents (for the no-mutation monitor)"""
    return canon(a) == canon(b) and type(a) is type(b)


def has_tag(e, tags, flavors=()):
    """does the encoding contain one of the tags / list flavors anywhere"""
    if e[0] in tags: return True
    if e[0] == 'L': return (len(e) > 2 and e[2] in flavors) or any(has_tag(x, tags, flavors) for x in e[1])
    if e[0] == 'D': return any(has_tag(k, tags, flavors) or has_tag(v, tags, flavors) for k, v in e[1])
    if e[0] in 'ZY': return has_tag(e[1], tags, flavors)
    return False


def fr(e):
    """numeric encoding -> Fraction"""
    if e[0] in 'ZY': e = e[1]
    return Fraction(e[1], e[2]) if e[0] == 'F' else Fraction(e[1])


HELPERS = {}
NOMODEL = object()


def helper(name):
    def deco(cls):
        HELPERS[name] = cls(); cls.name = name; return cls
    return deco


def pick_w(rng, pairs):
    tot = sum(w for _, w in pairs); r = rng.random() * tot
    for v, w in pairs:
        r -= w
        if r <= 0: return v
    return pairs[-1][0]


# value generators -----------------------------------------------------------------------------
def g_int(rng, lo=-4, hi=9): return eI(rng.randint(lo, hi))
def g_dy(rng, lo=-8, hi=24, den=4): return eF(Fraction(rng.randint(lo, hi), den))
def g_str(rng): return eS(rng.choice(['a', 'b', 'c', 'd', 'e', 'ab', 'ba', 'x1', 'Z', 'null']))
def g_scalar(rng, none=0.1):
    r = rng.random()
    if r < none: return eN()
    return pick_w(rng, [(g_int, 4), (g_dy, 3), (g_str, 2)])(rng)
def g_key(rng, kinds='is', none=0.15):
    if rng.random() < none: return eN()
    k = rng.choice(kinds)
    if k == 'i': return eI(rng.randint(0, 7))
    if k == 'f': return eF(Fraction(rng.randint(0, 15), 2))
    return eS(rng.choice(['a', 'b', 'c', 'd', 'e', 'ab', 'ba', 'B', 'aa']))
def key_id(k):
    """python-equality class of a key"""
    return ('n', Fraction(k[1], k[2] if k[0] == 'F' else 1)) if k[0] in 'IF' else tuple(k)
def g_dict(rng, n, kinds='is', none=0.15, val=None):
    val = val or (lambda r: g_scalar(r, 0.05))
    seen = set(); pairs = []
    for _ in range(n):
        k = g_key(rng, kinds, none)
        if key_id(k) in seen: continue
        seen.add(key_id(k)); pairs.append([k, val(rng)])
    return ['D', pairs]


def shape_name(e):
    return {'N': 'None', 'I': 'int', 'F': 'float', 'S': 'str', 'B': 'bool', 'D': 'dict', 'Z': '0-d-ndarray', 'Y': 'numpy-scalar', 'T': 'class-object', 'O': 'opaque-object',
            'L': (e[2] if len(e) > 2 else 'list')}[e[0]]


def g_singleton0(rng):
    """a singleton that is not a plain Python scalar: 0-d ndarray (has __iter__ and __len__, both raise TypeError) or NumPy scalar"""
    return [rng.choice('ZZY'), pick_w(rng, [(g_int, 1), (g_dy, 1)])(rng)]
def g_seq(rng, ln, flavor):
    """a sequence that is not a list/tuple/ndarray: flavor in SEQ_FLAVORS"""
    if flavor == 'range':
        a = rng.randint(-2, 4); return eL([eI(a + i) for i in range(ln)], 'range')
    return eL([g_scalar(rng) for _ in range(ln)], flavor)


# ================================================================================================
# statistics helpers
import stockpyl.helpers as H


def direct_conv(arrays):
    out = [Fraction(1)]
    for a in arrays:
        new = [Fraction(0)] * (len(out) + len(a) - 1)
        for i, x in enumerate(out):
            for j, y in enumerate(a):
                new[i + j] += x * y
        out = new
    return out


def fl(pairs):
    return [Fraction(n, d) for n, d in pairs]


@helper('convolve_many')
class ConvolveMany:
    def gen(self, rng, tier):
        big = tier != 'quick'
        k = pick_w(rng, [(0, 1), (1, 2), (2, 6), (3, 5), (4, 3), (6, 1)])
        mode = pick_w(rng, [('pmf', 5), ('dyadic', 4), ('neg', 1)])
        arrays = []
        for _ in range(k):
            n = pick_w(rng, [(1, 2), (2, 3), (3, 3), (rng.randint(4, 12 if big else 7), 3)])
            if mode == 'pmf':
                w = [rng.randint(0, 9) for _ in range(n)]
                if sum(w) == 0: w[0] = 1
                a = [Fraction(float(Fraction(x, sum(w)))) for x in w]       # the doubles the implementation sees
            elif mode == 'dyadic':
                a = [Fraction(rng.randint(0, 8), 8) for _ in range(n)]
            else:
                a = [Fraction(rng.randint(-4, 8), 8) for _ in range(n)]
            arrays.append([[x.numerator, x.denominator] for x in a])
        if rng.random() < 0.04 and arrays:
            arrays[rng.randrange(len(arrays))] = []
        return dict(arrays=arrays, flavor=rng.choice(['list', 'ndarray', 'tuple']), mode=mode)

    def args(self, c):
        mk = {'list': list, 'tuple': tuple, 'ndarray': np.array}[c['flavor']]
        return [mk([float(x) for x in fl(a)]) for a in c['arrays']]

    def expr(self, c):
        return 'option_map (rmap (map qobs)) (convolve_many %s)' % clist([cqlist(fl(a)) for a in c['arrays']])

    def judge(self, chk, c, m):
        arrays = [fl(a) for a in c['arrays']]
        chk.count('convolve_many:k=%d' % len(arrays)); chk.count('convolve_many:mode=%s' % c['mode'])
        args = self.args(c); before = copy.deepcopy(args)
        r = call(H.convolve_many, args)
        if any(len(a) == 0 for a in arrays):
            chk.count('convolve_many:empty-array(outside domain)'); chk.case(c, False); return
        if not all(same(x, y) for x, y in zip(args, before)):
            chk.fail('convolve_many|mutates-argument', 'argument arrays changed by the call', c)
        exact = direct_conv(arrays)
        lo = min(exact)
        if -1e-9 <= lo <= -1e-11:
            chk.extra['near_tie_skipped'] = chk.extra.get('near_tie_skipped', 0) + 1; chk.case(c, False); return
        want_err = lo < -1e-10
        # oracle (documented: pmf of the sum = direct convolution, values >= 0)
        if want_err:
            if not (r[0] == 'err' and r[1] == 'ValueError'):
                chk.fail('convolve_many|negative-result-not-rejected', 'exact convolution has entry %s < -1e-10 but got %r' % (float(lo), r[:2]), c)
        elif r[0] == 'err':
            chk.fail('convolve_many|raises-%s' % r[1], 'valid input raises: %s' % r[2], c)
        else:
            v = r[1]
            if not isinstance(v, np.ndarray) or v.ndim != 1 or len(v) != 1 + sum(len(a) - 1 for a in arrays):
                chk.fail('convolve_many|length', 'result %r does not have length 1+sum(len-1) = %d' % (v, 1 + sum(len(a) - 1 for a in arrays)), c)
            else:
                for i, (x, y) in enumerate(zip(v, exact)):
                    if abs(Fraction(float(x)) - max(y, 0)) > Fraction(1, 10**12):
                        chk.fail('convolve_many|entry-differs-from-direct-convolution', 'entry %d is %r, direct convolution gives %r' % (i, float(x), float(y)), c); break
                if any(x < 0 for x in v):
                    chk.fail('convolve_many|negative-entry', 'negative entry in %r' % (v,), c)
                if all(x >= 0 for a in arrays for x in a):
                    p = Fraction(1)
                    for a in arrays: p *= sum(a)
                    if abs(Fraction(float(sum(v))) - p) > Fraction(1, 10**11):
                        chk.fail('convolve_many|mass', 'sum %r != product of sums %r' % (float(sum(v)), float(p)), c)
        # correspondence
        if m is not NOMODEL:
            chk.traces += 1
            mm = model_res(m[1] if isinstance(m, tuple) and m[0] == 'Some' else m, lambda l: [qv(x) for x in l])
            if mm[0] == 'err':
                if not (r[0] == 'err' and r[1] == mm[1]): chk.mismatch('convolve_many: model Err %s vs implementation %r' % (mm[1], r[:2]), c)
            elif r[0] != 'ok' or len(r[1]) != len(mm[1]) or any(abs(Fraction(float(x)) - y) > Fraction(1, 10**12) for x, y in zip(r[1], mm[1])):
                chk.mismatch('convolve_many: model %r vs implementation %r' % ([float(x) for x in mm[1]], r[1] if r[0] == 'ok' else r), c)
        chk.case(c, len([a for a in arrays if len(a) >= 2]) >= 2)


@helper('sum_of_discretes_distribution')
class SumOfDiscretes:
    def gen(self, rng, tier):
        n = rng.randint(0, 4); lo = rng.randint(-3, 4); m = rng.randint(1, 4)
        w = [rng.randint(0, 5) for _ in range(m)]
        if sum(w) == 0: w[-1] = 1
        if rng.random() < 0.5:
            w = [rng.choice([0, 1, 1, 2]) for _ in range(m)]
            while sum(w) not in (1, 2, 4, 8): w[rng.randrange(m)] += 1
        p = [Fraction(float(Fraction(x, sum(w)))) for x in w]
        bad = pick_w(rng, [(None, 8), ('len', 1), ('n', 1)])
        c = dict(n=eI(n), lo=lo, hi=lo + m - 1, p=[[x.numerator, x.denominator] for x in p], bad=bad)
        if bad == 'len': c['hi'] += rng.choice([-1, 1, 2])
        if bad == 'n': c['n'] = eF(Fraction(2 * n + 1, 2))
        return c

    def expr(self, c):
        if c['bad']: return None
        return 'option_map (rmap (map qobs)) (convolve_many (repeat %s %s))' % (cqlist(fl(c['p'])), cnat(c['n'][1]))

    def judge(self, chk, c, m):
        p = fl(c['p']); n = to_py(c['n']); lo, hi = c['lo'], c['hi']
        chk.count('sum_of_discretes_distribution:bad=%s' % c['bad'])
        pl = [float(x) for x in p]; before = list(pl)
        r = call(H.sum_of_discretes_distribution, n, lo, hi, pl)
        if pl != before: chk.fail('sum_of_discretes_distribution|mutates-argument', 'p changed', c)
        if c['bad']:
            if not (r[0] == 'err' and r[1] == 'ValueError'):
                chk.fail('sum_of_discretes_distribution|bad-%s-accepted' % c['bad'], 'documented ValueError, got %r' % (r[:2],), c)
            chk.case(c, False); return
        if r[0] == 'err':
            chk.fail('sum_of_discretes_distribution|raises-%s' % r[1], r[2], c); chk.case(c, False); return
        exact = direct_conv([p] * n)
        ks = list(range(n * lo - 1, n * hi + 2))
        pm = r[1].pmf(ks); cd = r[1].cdf(ks)
        cum = Fraction(0)
        for i, k in enumerate(ks):
            e = exact[k - n * lo] if n * lo <= k <= n * hi else Fraction(0)
            cum += e
            if abs(Fraction(float(pm[i])) - e) > Fraction(1, 10**12):
                chk.fail('sum_of_discretes_distribution|pmf', 'pmf(%d) = %r, brute force %r' % (k, float(pm[i]), float(e)), c); break
            if abs(Fraction(float(cd[i])) - cum) > Fraction(1, 10**11):
                chk.fail('sum_of_discretes_distribution|cdf', 'cdf(%d) = %r, brute force %r' % (k, float(cd[i]), float(cum)), c); break
        if m is not NOMODEL:
            chk.traces += 1
            mm = model_res(m[1] if isinstance(m, tuple) and m[0] == 'Some' else m, lambda l: [qv(x) for x in l])
            got = [Fraction(float(x)) for x in r[1].pmf(list(range(n * lo, n * hi + 1)))]
            if mm[0] != 'ok' or len(got) != len(mm[1]) or any(abs(x - y) > Fraction(1, 10**12) for x, y in zip(got, mm[1])):
                chk.mismatch('sum_of_discretes_distribution: model %r vs pmf %r' % (mm, got), c)
        chk.case(c, n >= 2 and len(p) >= 2)


def brute_uniform_sum(n, lo, hi):
    cnt = {}
    for t in itertools.product(range(lo, hi + 1), repeat=n):
        cnt[sum(t)] = cnt.get(sum(t), 0) + 1
    tot = (hi - lo + 1) ** n
    return {k: Fraction(v, tot) for k, v in cnt.items()}


@helper('sum_of_discrete_uniforms_pmf')
class DUPmf:
    def gen(self, rng, tier):
        big = tier != 'quick'
        lo = rng.randint(-3, 4); w = pick_w(rng, [(0, 1), (1, 2), (2, 3), (3, 2), (4, 2), (rng.randint(5, 7), 2), (-1, 1)])
        n = pick_w(rng, [(0, 1), (1, 2), (2, 4), (3, 4), (4, 2), (5 if big else 4, 1), (-1, 0.3)])
        nn = pick_w(rng, [(eI(n), 12), (eF(Fraction(2 * n + 1, 2)), 1), (eF(n), 0.7), (eS('2'), 0.3), (eN(), 0.2)])
        return dict(n=nn, lo=lo, hi=lo + w, dist=rng.random() < 0.3)

    def expr(self, c):
        return 'rmap (map (fun kv => (fst kv, qobs (snd kv)))) (sum_of_discrete_uniforms_pmf %s %s %s)' % (coq_pv(c['n']), cz(c['lo']), cz(c['hi']))

    def judge(self, chk, c, m):
        n = to_py(c['n']); lo, hi = c['lo'], c['hi']
        kind = 'int' if c['n'][0] == 'I' else ('float-int' if c['n'][0] == 'F' and c['n'][2] == 1 else 'non-integer')
        chk.count('sum_of_discrete_uniforms_pmf:n-%s' % kind)
        r = call(H.sum_of_discrete_uniforms_pmf, n, lo, hi)
        mm = model_res(m, lambda l: [(k, qv(v)) for k, v in l]) if m is not NOMODEL else None
        if mm is not None:
            chk.traces += 1
            if mm[0] == 'err':
                if not (r[0] == 'err' and r[1] == mm[1]): chk.mismatch('sum_of_discrete_uniforms_pmf: model Err %s vs %r' % (mm[1], r[:2]), c)
            else:
                got = [(k, Fraction(float(v))) for k, v in r[1].items()] if r[0] == 'ok' else None
                pow2 = (hi - lo + 1) & (hi - lo) == 0
                if got is None or [k for k, _ in got] != [k for k, _ in mm[1]] or \
                        any((x != y) if pow2 else abs(x - y) > Fraction(1, 10**13) for (_, x), (_, y) in zip(got, mm[1])):
                    chk.mismatch('sum_of_discrete_uniforms_pmf: model %r vs implementation %r' % (jsonable(mm[1]), r[1] if r[0] == 'ok' else r), c)
        if kind == 'non-integer':
            if not (r[0] == 'err' and r[1] == 'ValueError'):
                chk.fail('sum_of_discrete_uniforms_pmf|non-integer-n-accepted', 'documented ValueError for n=%r, got %r' % (n, r[:2]), c)
            chk.case(c, False); return
        if kind != 'int' or n < 0 or hi < lo:
            chk.case(c, False); return      # float n / negative n / empty support: not documented
        if r[0] == 'err':
            chk.fail('sum_of_discrete_uniforms_pmf|raises-%s' % r[1], r[2], c); chk.case(c, False); return
        bf = brute_uniform_sum(n, lo, hi)
        got = dict(r[1])
        if set(got) != set(bf):
            chk.fail('sum_of_discrete_uniforms_pmf|support', 'support %r, should be %d..%d' % (sorted(got), n * lo, n * hi), c)
        elif any(abs(Fraction(float(got[k])) - bf[k]) > Fraction(1, 10**13) for k in bf):
            chk.fail('sum_of_discrete_uniforms_pmf|pmf-value', 'pmf %r differs from enumeration %r' % (got, {k: float(v) for k, v in bf.items()}), c)
        if c['dist']:
            d = call(H.sum_of_discrete_uniforms_distribution, n, lo, hi)
            if d[0] == 'err':
                chk.fail('sum_of_discrete_uniforms_distribution|raises-%s' % d[1], d[2], c)
            else:
                ks = list(range(n * lo - 1, n * hi + 2)); pm = d[1].pmf(ks); cd = d[1].cdf(ks); cum = Fraction(0)
                for i, k in enumerate(ks):
                    cum += bf.get(k, 0)
                    if abs(Fraction(float(pm[i])) - bf.get(k, 0)) > Fraction(1, 10**12) or abs(Fraction(float(cd[i])) - cum) > Fraction(1, 10**11):
                        chk.fail('sum_of_discrete_uniforms_distribution|pmf-cdf', 'at %d: pmf %r cdf %r, enumeration %r / %r' % (k, pm[i], cd[i], float(bf.get(k, 0)), float(cum)), c); break
        chk.case(c, n >= 2 and hi > lo)


def ih_pieces(n):
    """exact cdf of the sum of n U[0,1]: polynomial pieces in t = x - j on [j, j+1], by repeated integration"""
    P = [[Fraction(0), Fraction(1)]]
    for mm in range(2, n + 1):
        prev = P
        def piece(j): return [Fraction(0)] if j < 0 else ([Fraction(1)] if j >= mm - 1 else prev[j])
        def integ(p): return [Fraction(0)] + [cc / (i + 1) for i, cc in enumerate(p)]
        new = []
        for j in range(mm):
            Gj = integ(piece(j)); Gm = integ(piece(j - 1))
            L = max(len(Gj), len(Gm)); poly = [Fraction(0)] * L
            for i, cc in enumerate(Gj): poly[i] += cc
            for i, cc in enumerate(Gm): poly[i] -= cc
            poly[0] += sum(Gm)
            new.append(poly)
        P = new
    return P
_IH = {}
def ih_exact(x, n):
    if n == 0: return Fraction(1 if x >= 0 else 0)
    if x <= 0: return Fraction(0)
    if x >= n: return Fraction(1)
    if n not in _IH: _IH[n] = ih_pieces(n)
    j = x.numerator // x.denominator; t = x - j
    return sum(cc * t ** i for i, cc in enumerate(_IH[n][j]))


@helper('irwin_hall')
class IrwinHall:
    """irwin_hall_cdf(x, n) and sum_of_continuous_uniforms_distribution(n, lo, hi).cdf(x), scalar and array x"""
    def gen(self, rng, tier):
        via = rng.choice(['irwin', 'dist'])
        n = rng.randint(1, 8 if tier != 'quick' else 6)
        if via == 'irwin': lo, hi = Fraction(0), Fraction(1)
        else:
            lo = Fraction(rng.randint(-8, 8), 4); hi = lo + Fraction(rng.choice([1, 2, 4, 8, 3, 5, 6]), 4)
            if rng.random() < 0.3: lo, hi = Fraction(0), Fraction(1)
        shape = pick_w(rng, [('scalar', 3), ('list', 2), ('ndarray', 3), ('nd2', 1)])
        cnt = 1 if shape == 'scalar' else (4 if shape == 'nd2' else rng.randint(0, 5))
        xs = []
        for _ in range(cnt):
            u = pick_w(rng, [(Fraction(rng.randint(-16, 8 * n + 16), 8), 6), (Fraction(rng.randint(0, n)), 2), (Fraction(rng.randint(-2 * n, 3 * n), 3), 1),
                             (Fraction(rng.choice([3, 10, 25, 100, 1000]) * n * 2 + 1, 2), 1.2 if via == 'irwin' else 0.3)])   # far above the support
            x = Fraction(float(n * lo + u * (hi - lo)))
            xs.append([x.numerator, x.denominator])
        return dict(via=via, n=n, lo=[lo.numerator, lo.denominator], hi=[hi.numerator, hi.denominator], shape=shape, xs=xs)

    def expr(self, c):
        lo, hi = Fraction(*c['lo']), Fraction(*c['hi'])
        f = 'irwin_hall_cdf x %s' % cnat(c['n']) if c['via'] == 'irwin' else 'scu_cdf %s %s %s x' % (cnat(c['n']), cq(lo), cq(hi))
        return 'map (fun x => qobs (%s)) %s' % (f, cqlist(fl(c['xs'])))

    def judge(self, chk, c, m):
        n = c['n']; lo, hi = Fraction(*c['lo']), Fraction(*c['hi']); xs = fl(c['xs'])
        chk.count('irwin_hall:via=%s' % c['via']); chk.count('irwin_hall:shape=%s' % c['shape']); chk.count('irwin_hall:n=%d' % n)
        xf = [float(x) for x in xs]
        arg = xf[0] if c['shape'] == 'scalar' else (xf if c['shape'] == 'list' else (np.array(xf).reshape(2, 2) if c['shape'] == 'nd2' else np.array(xf)))
        before = copy.deepcopy(arg)
        if c['via'] == 'irwin':
            name = 'irwin_hall_cdf'; r = call(H.irwin_hall_cdf, arg, n)
        else:
            name = 'sum_of_continuous_uniforms_distribution.cdf'
            d = call(H.sum_of_continuous_uniforms_distribution, n, float(lo), float(hi))
            r = d if d[0] == 'err' else call(d[1].cdf, arg)
        if not same(arg, before): chk.fail(name + '|mutates-argument', 'x changed', c)
        if r[0] == 'err':
            chk.fail('%s|raises-%s|x-%s' % (name, r[1], 'scalar' if c['shape'] == 'scalar' else 'array'), r[2], c); chk.case(c, False); return
        v = r[1]
        if c['shape'] != 'scalar' and np.shape(v) != np.shape(arg):
            chk.fail(name + '|array-shape', 'result shape %r for argument shape %r' % (np.shape(v), np.shape(arg)), c); chk.case(c, False); return
        got = [Fraction(float(y)) for y in np.ravel(v)]
        tol = Fraction(1, 10**10)
        for x, y in zip(xs, got):
            u = (x - n * lo) / (hi - lo)
            e = ih_exact(u, n)
            if c['via'] == 'irwin' and u > n and abs(y - 1) > tol:
                chk.fail('irwin_hall_cdf|x-above-n-not-1', 'irwin_hall_cdf(%r, %d) = %r, the cdf is 1 for x >= n' % (float(x), n, float(y)), c); break
            if abs(y - e) > tol:
                chk.fail(name + '|value', 'cdf(%r) = %r but the exact piecewise polynomial gives %r (n=%d lo=%s hi=%s)' % (float(x), float(y), float(e), n, lo, hi), c); break
        if m is not NOMODEL:
            chk.traces += 1
            mv = [qv(p) for p in m]
            if len(mv) != len(got) or any(abs(a - b) > tol for a, b in zip(mv, got)):
                chk.mismatch('%s: model %r vs implementation %r' % (name, [float(a) for a in mv], [float(b) for b in got]), c)
        chk.case(c, any(0 < (x - n * lo) / (hi - lo) < n for x in xs) and n >= 2)


# ================================================================================================
# searching / matching

@helper('find_nearest')
class FindNearest:
    def gen(self, rng, tier):
        big = tier != 'quick'
        n = pick_w(rng, [(0, 1), (1, 2), (2, 3), (3, 3), (rng.randint(4, 14 if big else 8), 4)])
        den = rng.choice([1, 2, 4])
        a = [Fraction(rng.randint(-6, 12), den) for _ in range(n)]
        srt = rng.random() < 0.5
        if srt: a.sort()
        elif rng.random() < 0.3: a.sort(reverse=rng.random() < 0.5)
        shape = pick_w(rng, [('scalar', 2), ('list', 2), ('ndarray', 2)])
        vals = []
        for _ in range(1 if shape == 'scalar' else rng.randint(0, 4)):
            mode = pick_w(rng, [('mid', 4), ('elem', 2), ('rand', 3), ('out', 1)])
            if mode == 'mid' and n >= 2:
                i = rng.randrange(n - 1); v = (a[i] + a[i + 1]) / 2 if srt else (a[rng.randrange(n)] + a[rng.randrange(n)]) / 2
            elif mode == 'elem' and n >= 1: v = a[rng.randrange(n)]
            elif mode == 'out': v = Fraction(rng.choice([-20, 40]))
            else: v = Fraction(rng.randint(-16, 32), 2 * den)
            vals.append(v)
        index = None
        if rng.random() < 0.15:
            index = [[[v.numerator, v.denominator], rng.randint(0, 9)] for v in set(rng.sample(vals, min(len(vals), 1)) + [Fraction(3)])]
        return dict(a=[[x.numerator, x.denominator] for x in a], vals=[[x.numerator, x.denominator] for x in vals], shape=shape,
                    sorted=srt, index=index, flavor=rng.choice(['list', 'ndarray']), kw=rng.random() < 0.5)

    def expr(self, c):
        idx = clist(['(%s, %s)' % (cq(Fraction(*k)), cz(i)) for k, i in (c['index'] or [])])
        return 'find_nearest %s %s %s %s' % (cqlist(fl(c['a'])), cqlist(fl(c['vals'])), cbool(c['sorted']), idx)

    def judge(self, chk, c, m):
        a = fl(c['a']); vals = fl(c['vals'])
        chk.count('find_nearest:sorted=%s' % c['sorted']); chk.count('find_nearest:len=%s' % (len(a) if len(a) < 4 else '4+')); chk.count('find_nearest:values=%s' % c['shape'])
        af = [float(x) for x in a]; arr = np.array(af) if c['flavor'] == 'ndarray' else af
        vf = [float(x) for x in vals]; varg = vf[0] if c['shape'] == 'scalar' else (np.array(vf) if c['shape'] == 'ndarray' else vf)
        kw = {}
        if c['sorted'] or c['kw']: kw['sorted'] = c['sorted']
        if c['index'] is not None: kw['index'] = {float(Fraction(*k)): i for k, i in c['index']}
        before = copy.deepcopy((arr, varg, kw))
        r = call(H.find_nearest, arr, varg, **kw)
        if not all(same(x, y) for x, y in zip((arr, varg), before[:2])) or kw != before[2]:
            chk.fail('find_nearest|mutates-argument', 'array / values / index changed by the call', c)
        index = {Fraction(*k): i for k, i in (c['index'] or [])}
        tie = False
        if a:    # documented: indices of closest entries, one per value
            if r[0] == 'err':
                chk.fail('find_nearest|raises-%s' % r[1], r[2], c)
            else:
                ind = r[1]
                if not isinstance(ind, np.ndarray) or ind.shape != (len(vals),) or ind.dtype.kind != 'i':
                    chk.fail('find_nearest|result-shape', 'result %r for %d values' % (ind, len(vals)), c)
                else:
                    for v, i in zip(vals, ind):
                        i = int(i)
                        if v in index:
                            if i != index[v]: chk.fail('find_nearest|index-map-ignored', 'value %s is mapped to %d by index, got %d' % (v, index[v], i), c)
                            continue
                        dist = [abs(x - v) for x in a]
                        tie = tie or dist.count(min(dist)) > 1
                        if not (0 <= i < len(a)) or dist[i] != min(dist):
                            chk.fail('find_nearest|not-closest|sorted=%s' % c['sorted'], 'value %s: index %d (entry %s, distance %s) but the minimum distance is %s at index %d'
                                     % (v, i, a[i] if 0 <= i < len(a) else None, dist[i] if 0 <= i < len(a) else None, min(dist), dist.index(min(dist))), c)
                        elif not c['sorted'] and i != dist.index(min(dist)):
                            chk.fail('find_nearest|unsorted-tie-not-first', 'value %s: argmin returns the first closest index %d, got %d' % (v, dist.index(min(dist)), i), c)
                        elif min(dist) == 0 and i != a.index(v):
                            chk.fail('find_nearest|exact-hit-not-first-occurrence', 'value %s occurs first at index %d, got %d' % (v, a.index(v), i), c)
                        elif c['sorted'] and a[i] != max(x for x, dd in zip(a, dist) if dd == min(dist)):
                            chk.fail('find_nearest|sorted-tie-not-larger-entry', 'value %s is equally close to %s and %s; sorted mode returns the larger entry (strict < in the tie rule), got index %d'
                                     % (v, min(x for x, dd in zip(a, dist) if dd == min(dist)), max(x for x, dd in zip(a, dist) if dd == min(dist)), i), c)
        if m is not NOMODEL:
            chk.traces += 1
            mm = model_res(m, list)
            if mm[0] == 'err':
                if not (r[0] == 'err' and r[1] == mm[1]): chk.mismatch('find_nearest: model Err %s vs %r' % (mm[1], r[:2]), c)
            elif r[0] != 'ok' or [int(x) for x in r[1]] != mm[1]:
                chk.mismatch('find_nearest: model %r vs implementation %r' % (mm[1], r[1] if r[0] == 'ok' else r), c)
        chk.case(c, len(a) >= 2 and len(vals) >= 1 and (tie or len(a) >= 3))


def isclose_exact(a, b, rel, abs_):
    return abs(a - b) <= max(rel * max(abs(a), abs(b)), abs_)


@helper('dict_match')
class DictMatch:
    DEFAULT_REL = Fraction(1e-9)

    def gen(self, rng, tier):
        kinds = rng.choice(['i', 's', 'is', 'if'])
        n1 = pick_w(rng, [(0, 1), (1, 2), (2, 3), (3, 3), (5, 1)])
        def val(r):
            return pick_w(r, [(eI(r.randint(-3, 40)), 5), (eI(0), 1.5), (eF(Fraction(r.randint(-8, 80), 4)), 2), (eF(Fraction(1, 2 ** 35)), 0.7), (eF(0), 0.5)])
        d1 = g_dict(rng, n1, kinds, 0.08, val)
        rel = pick_w(rng, [(None, 4), (Fraction(0), 1), (Fraction(1, 1024), 2), (Fraction(1, 4), 1), (Fraction(-1, 4), 0.25)])
        abs_ = pick_w(rng, [(None, 4), (Fraction(1, 2 ** 30), 1), (Fraction(1, 2), 1), (Fraction(1), 1), (Fraction(-1), 0.2)])
        # d2: a perturbed copy of d1
        pairs = []
        for k, v in d1[1]:
            act = pick_w(rng, [('same', 6), ('drop', 1.2), ('type', 1), ('eps', 2), ('rel', 2), ('one', 0.6)])
            x = fr(v)
            if act == 'drop': continue
            if act == 'same': w = v
            elif act == 'type': w = eF(x) if v[0] == 'I' else (eI(x) if x.denominator == 1 else v)
            elif act == 'eps': w = eF(x * (1 + Fraction(1, 2 ** rng.choice([20, 40])))) if x else eF(Fraction(1, 2 ** 35))
            elif act == 'rel': w = eF(x * (1 + Fraction(rng.choice([1, -1]), rng.choice([1024, 4, 2048, 512])))) if x else eF(Fraction(rng.choice([1, 2, 3]), 4))
            else: w = eF(x + rng.choice([1, -1, Fraction(1, 2)]))
            pairs.append([k, w])
        seen = {key_id(k) for k, _ in d1[1]}
        for _ in range(pick_w(rng, [(0, 5), (1, 3), (2, 1)])):
            k = g_key(rng, kinds, 0.08)
            if key_id(k) in seen: continue
            seen.add(key_id(k)); pairs.append([k, val(rng)])
        rng.shuffle(pairs)
        d2 = ['D', pairs]
        if rng.random() < 0.5: d1, d2 = d2, d1
        return dict(d1=d1, d2=d2, rp=rng.choice([None, False, True]), rel=None if rel is None else [rel.numerator, rel.denominator],
                    abs=None if abs_ is None else [abs_.numerator, abs_.denominator])

    def params(self, c):
        rel = self.DEFAULT_REL if c['rel'] is None else Fraction(*c['rel']); abs_ = Fraction(0) if c['abs'] is None else Fraction(*c['abs'])
        return bool(c['rp']), rel, abs_

    def expr(self, c):
        rp, rel, abs_ = self.params(c)
        dq = lambda d: clist(['(%s, %s)' % (coq_key(k), cq(fr(v))) for k, v in d[1]])
        return 'dict_match key_eqb %s %s %s %s %s' % (dq(c['d1']), dq(c['d2']), cbool(rp), cq(rel), cq(abs_))

    def run(self, c, d1, d2):
        kw = {}
        if c['rp'] is not None: kw['require_presence'] = c['rp']
        if c['rel'] is not None: kw['rel_tol'] = float(Fraction(*c['rel']))
        if c['abs'] is not None: kw['abs_tol'] = float(Fraction(*c['abs']))
        return call(H.dict_match, d1, d2, **kw)

    def judge(self, chk, c, m):
        rp, rel, abs_ = self.params(c)
        d1 = to_py(c['d1']); d2 = to_py(c['d2']); b1 = copy.deepcopy(d1); b2 = copy.deepcopy(d2)
        chk.count('dict_match:require_presence=%s' % c['rp']); chk.count('dict_match:tol=%s' % ('default' if c['rel'] is None and c['abs'] is None else 'given'))
        r = self.run(c, d1, d2); rs = self.run(c, d2, d1)
        if not (same(d1, b1) and same(d2, b2)): chk.fail('dict_match|mutates-argument', 'a dict changed', c)
        if canon(r[:2]) != canon(rs[:2]):
            chk.fail('dict_match|asymmetric', 'dict_match(d1, d2) = %r but dict_match(d2, d1) = %r' % (r[:2], rs[:2]), c)
        q1 = {key_id(k): fr(v) for k, v in c['d1'][1]}; q2 = {key_id(k): fr(v) for k, v in c['d2'][1]}
        nontriv = False
        if rel >= 0 and abs_ >= 0:
            want = all(isclose_exact(q1.get(k, Fraction(0)), q2.get(k, Fraction(0)), rel, abs_) for k in set(q1) | set(q2))
            if rp and set(q1) != set(q2): want = False
            nontriv = bool(q1) and bool(q2) and (set(q1) != set(q2) or any(q1[k] != q2[k] for k in q1))
            if r[0] == 'err':
                chk.fail('dict_match|raises-%s' % r[1], r[2], c)
            elif r[1] is not want:
                chk.fail('dict_match|wrong-answer|presence=%s' % rp, 'dict_match = %r, documented semantics (missing key = 0%s, |a-b| <= max(rel*max(|a|,|b|), abs)) give %r'
                         % (r[1], ' unless require_presence' if rp else '', want), c)
        if m is not NOMODEL:
            chk.traces += 1
            mm = model_res(m)
            if (mm[0] == 'err' and not (r[0] == 'err' and r[1] == mm[1])) or (mm[0] == 'ok' and not (r[0] == 'ok' and r[1] is mm[1])):
                chk.mismatch('dict_match: model %r vs implementation %r' % (mm, r[:2]), c)
        chk.case(c, nontriv)


@helper('min_of_dict')
class MinOfDict:
    def gen(self, rng, tier):
        n = pick_w(rng, [(0, 1), (1, 2), (2, 3), (3, 3), (6, 2)])
        d = g_dict(rng, n, rng.choice(['i', 's', 'is']), 0.1, lambda r: pick_w(r, [(eI(r.randint(-3, 5)), 3), (eF(Fraction(r.randint(-6, 10), 2)), 2)]))
        if rng.random() < 0.06 and len(d[1]) >= 2: d[1][rng.randrange(len(d[1]))][1] = eS('a')
        return dict(d=d)

    def expr(self, c):
        if any(v[0] == 'S' for _, v in c['d'][1]): return None
        return 'rmap (fun r => (qobs (fst r), obs_key (snd r))) (min_of_dict %s)' % clist(['(%s, %s)' % (coq_key(k), cq(fr(v))) for k, v in c['d'][1]])

    def judge(self, chk, c, m):
        d = to_py(c['d']); b = copy.deepcopy(d); pairs = c['d'][1]
        r = call(H.min_of_dict, d)
        if not same(d, b): chk.fail('min_of_dict|mutates-argument', 'dict changed', c)
        mixed = any(v[0] == 'S' for _, v in pairs)
        chk.count('min_of_dict:%s' % ('empty' if not pairs else ('non-numeric' if mixed else 'numeric')))
        if mixed:
            if not (r[0] == 'err' and r[1] == 'TypeError'): chk.fail('min_of_dict|non-numeric-accepted', 'documented TypeError, got %r' % (r[:2],), c)
        elif pairs:
            vals = [fr(v) for _, v in pairs]; i = vals.index(min(vals))
            if r[0] == 'err': chk.fail('min_of_dict|raises-%s' % r[1], r[2], c)
            elif canon(r[1][0]) != strip(pairs[i][1]) or canon(r[1][1]) != strip(pairs[i][0]):
                chk.fail('min_of_dict|wrong-min', 'got %r, the minimum value %s is first attained at key %r' % (r[1], vals[i], to_py(pairs[i][0])), c)
        if m is not NOMODEL:
            chk.traces += 1
            mm = model_res(m, lambda t: (Fraction(t[0], t[1]), from_ov(t[2])))   # Coq prints ((n, d), k) as (n, d, k)
            if mm[0] == 'err':
                if not (r[0] == 'err' and r[1] == mm[1]): chk.mismatch('min_of_dict: model Err %s vs %r' % (mm[1], r[:2]), c)
            elif r[0] != 'ok' or F(r[1][0]) != mm[1][0] or canon(r[1][1]) != mm[1][1]:
                chk.mismatch('min_of_dict: model %r vs implementation %r' % (mm, r), c)
        chk.case(c, len(pairs) >= 2 and not mixed)


@helper('nearest_dict_value')
class NearestDictValue:
    def gen(self, rng, tier):
        n = pick_w(rng, [(0, 1), (1, 2), (2, 3), (3, 3), (6, 2)])
        d = g_dict(rng, n, rng.choice(['i', 'f', 'if']), 0.0)
        if rng.random() < 0.06: d[1].insert(rng.randrange(len(d[1]) + 1), [rng.choice([eS('a'), eN()]), eI(1)])
        x = Fraction(rng.randint(-2, 18), rng.choice([1, 2, 4]))
        return dict(d=d, x=[x.numerator, x.denominator])

    def expr(self, c):
        return 'rmap obs_pv (nearest_dict_value %s %s)' % (cq(Fraction(*c['x'])), coq_dict(c['d']))

    def judge(self, chk, c, m):
        d = to_py(c['d']); b = copy.deepcopy(d); pairs = c['d'][1]; x = Fraction(*c['x'])
        xa = int(x) if x.denominator == 1 else float(x)
        r = call(H.nearest_dict_value, xa, d)
        if not same(d, b): chk.fail('nearest_dict_value|mutates-argument', 'dict changed', c)
        bad = any(k[0] in 'NS' for k, _ in pairs)
        chk.count('nearest_dict_value:%s' % ('empty' if not pairs else ('non-numeric-key' if bad else 'numeric')))
        if pairs and not bad:
            dist = [abs(fr(k) - x) for k, _ in pairs]
            if r[0] == 'err': chk.fail('nearest_dict_value|raises-%s' % r[1], r[2], c)
            elif canon(r[1]) not in [strip(v) for (k, v), dd in zip(pairs, dist) if dd == min(dist)]:
                chk.fail('nearest_dict_value|not-nearest', 'got %r; nearest key to %s is %r' % (r[1], x, to_py(pairs[dist.index(min(dist))][0])), c)
        if m is not NOMODEL:
            chk.traces += 1
            mm = model_res(m, from_ov)
            if (mm[0] == 'err' and not (r[0] == 'err' and r[1] == mm[1])) or (mm[0] == 'ok' and not (r[0] == 'ok' and canon(r[1]) == mm[1])):
                chk.mismatch('nearest_dict_value: model %r vs implementation %r' % (mm, r), c)
        chk.case(c, len(pairs) >= 2 and not bad)


# ================================================================================================
# list / dict normalisers

def g_num_list(rng, n, flavor):
    if flavor == 'ndarray':
        g = rng.choice([g_int, g_dy]); return eL([g(rng) for _ in range(n)], 'ndarray')
    return eL([pick_w(rng, [(g_int, 3), (g_dy, 2)])(rng) for _ in range(n)], flavor)


@helper('ensure_list_for_time_periods')
class EnsureTP:
    def gen(self, rng, tier):
        T = rng.randint(0, 6)
        kind = pick_w(rng, [('scalar', 3), ('list', 5), ('ndarray', 3), ('other-singleton', 1), ('singleton0', 1.5)])
        if kind == 'scalar': x = pick_w(rng, [(g_int, 1), (g_dy, 1)])(rng)
        elif kind == 'singleton0': x = g_singleton0(rng)
        elif kind == 'other-singleton': x = rng.choice([eN(), eS('abc')])
        else: x = g_num_list(rng, max(0, T + pick_w(rng, [(0, 4), (1, 4), (-1, 1), (2, 1), (3, 0.5)])), kind)
        return dict(x=x, T=T, var_name=rng.choice([None, 'demand']))

    def expr(self, c):
        x = c['x']
        if x[0] in 'NS': return None          # the Q-valued model of Alg/WW.v covers numeric scalars / lists
        a = '(TPList %s)' % cqlist([fr(v) for v in x[1]]) if x[0] == 'L' else '(TPScalar %s)' % cq(fr(x))      # 0-d ndarray / NumPy scalar: the number it holds
        return 'option_map (map qobs) (ensure_list_tp %s %s)' % (a, cnat(c['T']))

    def judge(self, chk, c, m):
        x = to_py(c['x']); b = copy.deepcopy(x); T = c['T']; e = nd_elems(c['x'])
        chk.count('ensure_list_for_time_periods:%s' % ({'Z': 'singleton-0d-ndarray', 'Y': 'singleton-numpy-scalar'}.get(e[0], 'singleton') if e[0] != 'L' else 'len=T%+d' % (len(e[1]) - T)))
        r = call(H.ensure_list_for_time_periods, x, T, c['var_name']) if c['var_name'] else call(H.ensure_list_for_time_periods, x, T)
        if not same(x, b): chk.fail('ensure_list_for_time_periods|mutates-argument', 'x changed', c)
        # documented result
        if e[0] != 'L': want = ['L', [eI(0)] + [strip(e)] * T]
        elif len(e[1]) == T + 1: want = strip(e)
        elif len(e[1]) == T: want = ['L', [eI(0)] + strip(e)[1]]
        else: want = None
        if want is None:
            if not (r[0] == 'err' and r[1] == 'ValueError'): chk.fail('ensure_list_for_time_periods|bad-length-accepted', 'documented ValueError, got %r' % (r[:2],), c)
        elif r[0] == 'err': chk.fail('ensure_list_for_time_periods|raises-%s' % r[1], r[2], c)
        elif not isinstance(r[1], list) or canon(r[1]) != want:
            chk.fail('ensure_list_for_time_periods|wrong-result', 'got %r, documented %r' % (r[1], want), c)
        if m is not NOMODEL:
            chk.traces += 1
            if m is None:
                if r[0] != 'err': chk.mismatch('ensure_list_for_time_periods: model None (ValueError) vs %r' % (r,), c)
            else:
                mv = [qv(p) for p in (m[1] if isinstance(m, tuple) and m[0] == 'Some' else m)]
                if r[0] != 'ok' or [F(v) for v in r[1]] != mv: chk.mismatch('ensure_list_for_time_periods: model %r vs %r' % (mv, r), c)
        chk.case(c, e[0] == 'L' and len(e[1]) in (T, T + 1) and T >= 1)


@helper('ensure_list_for_nodes')
class EnsureListNodes:
    def gen(self, rng, tier):
        n = pick_w(rng, [(0, 1), (1, 2), (2, 3), (3, 3), (5, 1), (-1, 0.3)])
        kind = pick_w(rng, [('none', 2), ('scalar', 3), ('list', 4), ('tuple', 1), ('ndarray', 2), ('dict', 1), ('nested', 1), ('singleton0', 1.5), ('seq', 1.5)])
        ln = max(0, n + pick_w(rng, [(0, 5), (1, 2), (-1, 2), (2, 1)]))
        if kind == 'none': x = eN()
        elif kind == 'singleton0': x = g_singleton0(rng)
        elif kind == 'seq': x = g_seq(rng, ln, rng.choice(SEQ_FLAVORS))
        elif kind == 'scalar': x = g_scalar(rng, 0)
        elif kind == 'dict': x = g_dict(rng, ln, 'is', 0.1)
        elif kind == 'nested': x = eL([rng.choice([eL([g_int(rng)]), g_scalar(rng)]) for _ in range(ln)])
        elif kind == 'ndarray': x = g_num_list(rng, ln, 'ndarray')
        else: x = eL([g_scalar(rng) for _ in range(ln)], kind)
        return dict(x=x, n=n, default=pick_w(rng, [(None, 2), (g_scalar(rng), 1)]))

    def expr(self, c):
        return 'rmap (map obs_pv) (ensure_list_for_nodes %s %s %s)' % (coq_pv(c['x']), cz(c['n']), coq_pv(c['default'] or eN()))

    def judge(self, chk, c, m):
        x = to_py(c['x']); b = copy.deepcopy(x); n = c['n']; e = nd_elems(c['x'])
        r = call(H.ensure_list_for_nodes, x, n, to_py(c['default'])) if c['default'] else call(H.ensure_list_for_nodes, x, n)
        if not same(x, b): chk.fail('ensure_list_for_nodes|mutates-argument', 'x changed', c)
        shape = 'None' if e[0] == 'N' else ('singleton' if e[0] not in 'LD' else '%s,len=n%+d' % ('dict' if e[0] == 'D' else 'list', len(e[1]) - n))
        chk.count('ensure_list_for_nodes:%s' % shape); chk.count('ensure_list_for_nodes:x-is-%s' % shape_name(c['x']))
        if n >= 0 and e[0] != 'D':
            if e[0] == 'N': want = ['L', [strip(c['default'] or eN())] * n]
            elif e[0] == 'L': want = strip(e) if len(e[1]) == n else None
            else: want = ['L', [strip(e)] * n]
            if want is None:
                if not (r[0] == 'err' and r[1] == 'ValueError'): chk.fail('ensure_list_for_nodes|bad-length-accepted', 'documented ValueError, got %r' % (r[:2],), c)
            elif r[0] == 'err': chk.fail('ensure_list_for_nodes|raises-%s' % r[1], r[2], c)
            elif not isinstance(r[1], list) or canon(r[1]) != want: chk.fail('ensure_list_for_nodes|wrong-result', 'got %r, documented %r' % (r[1], want), c)
        if m is not NOMODEL:
            chk.traces += 1
            mm = model_res(m, lambda l: ['L', [from_ov(v) for v in l]])
            if (mm[0] == 'err' and not (r[0] == 'err' and r[1] == mm[1])) or (mm[0] == 'ok' and not (r[0] == 'ok' and canon(r[1]) == mm[1])):
                chk.mismatch('ensure_list_for_nodes: model %r vs implementation %r' % (mm, r), c)
        chk.case(c, n >= 1 and e[0] in 'LN')


def g_nodes(rng, n, dup=0.08):
    kinds = rng.choice(['i', 'i', 's'])
    out = []; seen = set()
    while len(out) < n:
        k = g_key(rng, kinds, 0.03) if kinds == 's' else eI(rng.randint(0, 9))
        if key_id(k) in seen and rng.random() > dup: continue
        seen.add(key_id(k)); out.append(k)
    return out


def dict_from_pairs(pairs):
    """python dict semantics on encodings: later assignment to an equal key overwrites in place"""
    out = []; pos = {}
    for k, v in pairs:
        if key_id(k) in pos: out[pos[key_id(k)]][1] = v
        else: pos[key_id(k)] = len(out); out.append([k, v])
    return ['D', out]


@helper('ensure_dict_for_nodes')
class EnsureDictNodes:
    def gen(self, rng, tier):
        n = pick_w(rng, [(0, 1), (1, 2), (2, 3), (3, 3), (5, 1)])
        nodes = g_nodes(rng, n)
        kind = pick_w(rng, [('none', 2), ('scalar', 3), ('list', 4), ('tuple', 1), ('ndarray', 2), ('dict', 2), ('singleton0', 1.5), ('seq', 1.5)])
        ln = max(0, n + pick_w(rng, [(0, 5), (1, 2), (-1, 2), (2, 1)]))
        if kind == 'none': x = eN()
        elif kind == 'singleton0': x = g_singleton0(rng)
        elif kind == 'seq': x = g_seq(rng, ln, rng.choice(SEQ_FLAVORS))
        elif kind == 'scalar': x = g_scalar(rng, 0)
        elif kind == 'dict': x = g_dict(rng, ln, 'is', 0.1)
        elif kind == 'ndarray': x = g_num_list(rng, ln, 'ndarray')
        else: x = eL([g_scalar(rng) for _ in range(ln)], kind)
        return dict(x=x, nodes=nodes, default=pick_w(rng, [(None, 2), (g_scalar(rng), 1)]), nodes_flavor=rng.choice(['list', 'list', 'tuple']))

    def expr(self, c):
        return 'rmap obs_dict (ensure_dict_for_nodes %s %s %s)' % (coq_pv(c['x']), clist([coq_key(k) for k in c['nodes']]), coq_pv(c['default'] or eN()))

    def judge(self, chk, c, m):
        x = to_py(c['x']); b = copy.deepcopy(x); e = nd_elems(c['x']); nodes = c['nodes']; n = len(nodes)
        nl = [to_py(k) for k in nodes]; nl = tuple(nl) if c['nodes_flavor'] == 'tuple' else nl; nb = copy.deepcopy(nl)
        r = call(H.ensure_dict_for_nodes, x, nl, to_py(c['default'])) if c['default'] else call(H.ensure_dict_for_nodes, x, nl)
        if not (same(x, b) and same(nl, nb)): chk.fail('ensure_dict_for_nodes|mutates-argument', 'x or node_indices changed', c)
        shape = 'None' if e[0] == 'N' else ('dict' if e[0] == 'D' else ('singleton' if e[0] != 'L' else 'list,len=n%+d' % (len(e[1]) - n)))
        chk.count('ensure_dict_for_nodes:%s' % shape); chk.count('ensure_dict_for_nodes:x-is-%s' % shape_name(c['x']))
        if e[0] == 'D': want = strip(e)
        elif e[0] == 'N': want = strip(dict_from_pairs([[k, c['default'] or eN()] for k in nodes]))
        elif e[0] == 'L': want = strip(dict_from_pairs(list(zip(nodes, e[1])))) if len(e[1]) == n else None
        else: want = strip(dict_from_pairs([[k, e] for k in nodes]))
        if want is None:
            if not (r[0] == 'err' and r[1] == 'ValueError'): chk.fail('ensure_dict_for_nodes|bad-length-accepted', 'documented ValueError, got %r' % (r[:2],), c)
        elif r[0] == 'err': chk.fail('ensure_dict_for_nodes|raises-%s' % r[1], r[2], c)
        elif not isinstance(r[1], dict) or canon(r[1]) != want: chk.fail('ensure_dict_for_nodes|wrong-result', 'got %r, documented %r' % (r[1], want), c)
        if m is not NOMODEL:
            chk.traces += 1
            mm = model_res(m, from_ov)
            if (mm[0] == 'err' and not (r[0] == 'err' and r[1] == mm[1])) or (mm[0] == 'ok' and not (r[0] == 'ok' and canon(r[1]) == mm[1])):
                chk.mismatch('ensure_dict_for_nodes: model %r vs implementation %r' % (mm, r), c)
        chk.case(c, n >= 1 and e[0] != 'D')


ATTRS = ['local_holding_cost', 'stockout_cost', 'demand_mean', 'lead_time', 'demand_list', 'probabilities', 'name']


@helper('build_node_data_dict')
class BuildNodeData:
    def gen(self, rng, tier):
        n = pick_w(rng, [(0, 0.5), (1, 2), (2, 3), (3, 3), (4, 1)])
        nodes = g_nodes(rng, n, dup=0.0)
        attrs = rng.sample(ATTRS, rng.randint(0, 5))
        ad = []
        for a in attrs:
            kind = pick_w(rng, [('none', 2), ('scalar', 3), ('list', 4), ('dict', 3), ('badlen', 0.6), ('tuple', 0.5), ('singleton0', 1), ('seq', 0.8), ('seqbad', 0.3)])
            if a in ('demand_list', 'probabilities'):
                kind = pick_w(rng, [('none', 1), ('flat', 3), ('nestedlist', 3), ('dict', 1), ('nestedbad', 0.5), ('flat0', 0.8), ('singleton0', 0.3)])
            if kind == 'none': v = eN()
            elif kind == 'singleton0': v = g_singleton0(rng)
            elif kind in ('seq', 'seqbad'): v = g_seq(rng, n + (rng.choice([1, 2]) if kind == 'seqbad' else 0), rng.choice(SEQ_FLAVORS))
            elif kind == 'flat0':       # a flat demand list whose entries are 0-d ndarrays / NumPy scalars (singletons): still "flat"
                v = eL([rng.choice([g_singleton0(rng), g_int(rng, 0, 5)]) for _ in range(rng.choice([n, n + 1, 2]))]); v[1][:1] = [g_singleton0(rng)]
            elif kind == 'scalar': v = g_scalar(rng, 0)
            elif kind in ('list', 'tuple'): v = eL([g_scalar(rng) for _ in range(n)], kind)
            elif kind == 'badlen': v = eL([g_scalar(rng) for _ in range(n + rng.choice([1, 2]))])
            elif kind == 'flat': v = eL([g_int(rng, 0, 5) for _ in range(rng.choice([n, n + 1, 2]))])
            elif kind in ('nestedlist', 'nestedbad'):
                v = eL([rng.choice([eN(), eL([g_int(rng, 0, 5) for _ in range(rng.randint(1, 3))])]) for _ in range(n + (kind == 'nestedbad'))])
                if not any(x[0] == 'L' for x in v[1]): v = eL([eL([eI(1)])] * max(1, n))
            else:
                pairs = [[k, g_scalar(rng)] for k in nodes if rng.random() < 0.6]
                if rng.random() < 0.3: pairs.append([eI(77), eI(1)])
                v = dict_from_pairs(pairs)
            ad.append([eS(a), v])
        dv = [[eS(a), g_scalar(rng, 0)] for a in ATTRS if rng.random() < 0.35]
        return dict(ad=['D', ad], nodes=nodes, dv=['D', dv] if (dv or rng.random() < 0.5) else None)

    def expr(self, c):
        return 'rmap obs_ddict (build_node_data_dict %s %s %s)' % (coq_dict(c['ad']), clist([coq_key(k) for k in c['nodes']]), coq_dict(c['dv'] or ['D', []]))

    def documented(self, c):
        """independent re-computation from the docstring's rules"""
        nodes = c['nodes']; dv = {a[1]: v for a, v in (c['dv'] or ['D', []])[1]}
        out = {key_id(n): [] for n in nodes}
        for a, v in c['ad'][1]:
            a = a[1]; v = strip(v)
            listlike = v[0] == 'L' and (a not in ('demand_list', 'probabilities') or any(x[0] in 'LD' for x in v[1]))
            if listlike and len(v[1]) != len(nodes): return None
            for i, n in enumerate(nodes):
                if v[0] == 'D':
                    hit = [w for k, w in v[1] if key_id(k) == key_id(n)]
                    val = hit[0] if hit else strip(dv.get(a, eN()))
                elif v[0] == 'N': val = strip(dv.get(a, eN()))
                elif listlike: val = v[1][i]
                else: val = v
                out[key_id(n)].append([eS(a), val])
        return ['D', [[strip(n), ['D', out[key_id(n)]]] for n in nodes]]

    def judge(self, chk, c, m):
        ad = to_py(c['ad']); nodes = [to_py(k) for k in c['nodes']]; dv = to_py(c['dv']) if c['dv'] else None
        before = copy.deepcopy((ad, nodes, dv))
        r = call(H.build_node_data_dict, ad, nodes, dv) if dv is not None else call(H.build_node_data_dict, ad, nodes)
        if not all(same(x, y) for x, y in zip((ad, nodes, dv), before)): chk.fail('build_node_data_dict|mutates-argument', 'an argument changed', c)
        want = self.documented(c)
        chk.count('build_node_data_dict:%s' % ('bad-length' if want is None else 'ok')); chk.count('build_node_data_dict:attrs=%d' % len(c['ad'][1]))
        for _, v in c['ad'][1]: chk.count('build_node_data_dict:attr-is-%s' % shape_name(v))
        if want is None:
            if not (r[0] == 'err' and r[1] == 'ValueError'): chk.fail('build_node_data_dict|bad-length-accepted', 'documented ValueError, got %r' % (r[:2],), c)
        elif r[0] == 'err': chk.fail('build_node_data_dict|raises-%s' % r[1], r[2], c)
        elif canon(r[1]) != want: chk.fail('build_node_data_dict|wrong-result', 'got %r, documented %r' % (r[1], want), c)
        if m is not NOMODEL:
            chk.traces += 1
            mm = model_res(m, from_ov)
            if (mm[0] == 'err' and not (r[0] == 'err' and r[1] == mm[1])) or (mm[0] == 'ok' and not (r[0] == 'ok' and canon(r[1]) == mm[1])):
                chk.mismatch('build_node_data_dict: model %r vs implementation %r' % (mm, r), c)
        chk.case(c, want is not None and len(nodes) >= 2 and len(c['ad'][1]) >= 2)


# ================================================================================================
# sorters

def sort_key_doc(k):
    """documented order: None first (ascending), then the natural order of the (mutually comparable) keys"""
    return (0, 0) if k[0] == 'N' else (1, fr(k) if k[0] in 'IF' else k[1])


def kinds_mixed(keys):
    ks = {('n' if k[0] in 'IF' else 's') for k in keys if k[0] != 'N'}
    return len(ks) > 1


@helper('sort_dict_by_keys')
class SortDict:
    def gen(self, rng, tier):
        n = pick_w(rng, [(0, 1), (1, 1), (2, 2), (3, 3), (5, 3), (8, 1)])
        kinds = pick_w(rng, [('i', 3), ('s', 3), ('if', 2), ('is', 0.6)])
        return dict(d=g_dict(rng, n, kinds, 0.2), asc=rng.choice([None, True, False]), rv=rng.choice([None, True, False]))

    def expr(self, c):
        return 'rmap (map obs_pv) (sort_dict_by_keys %s %s %s)' % (coq_dict(c['d']), cbool(c['asc'] is not False), cbool(c['rv'] is not False))

    fn = staticmethod(H.sort_dict_by_keys); nm = 'sort_dict_by_keys'

    def flat(self, c):
        return [(k, v) for k, v in c['d'][1]], [k for k, _ in c['d'][1]]

    def judge(self, chk, c, m):
        d = to_py(c['d']); b = copy.deepcopy(d); nm = self.nm
        kw = {}
        if c['asc'] is not None: kw['ascending'] = c['asc']
        if c['rv'] is not None: kw['return_values'] = c['rv']
        r = call(self.fn, d, **kw)
        if not same(d, b): chk.fail(nm + '|mutates-argument', 'dict changed', c)
        items, keys = self.flat(c)
        asc = c['asc'] is not False; rv = c['rv'] is not False
        mixed = self.mixed(items)
        chk.count('%s:%s' % (nm, 'mixed-key-kinds' if mixed else ('with-None' if any(self.has_none(k) for k, _ in items) else 'plain')))
        if not mixed:
            s = sorted(items, key=lambda kv: self.dockey(kv[0]), reverse=not asc)
            want = ['L', [strip(v) if rv else self.keyout(k) for k, v in s]]
            if r[0] == 'err':
                chk.fail('%s|raises-%s|%s' % (nm, r[1], 'None-key-with-str-keys' if any(self.has_none(k) for k, _ in items) else 'comparable-keys'), r[2], c)
            elif not isinstance(r[1], list) or canon(r[1]) != want:
                chk.fail('%s|wrong-order|ascending=%s' % (nm, asc), 'got %r, documented (None first when ascending) %r' % (r[1], want), c)
        if m is not NOMODEL:
            chk.traces += 1
            mm = model_res(m, lambda l: ['L', [from_ov(v) for v in l]])
            if (mm[0] == 'err' and not (r[0] == 'err' and r[1] == mm[1])) or (mm[0] == 'ok' and not (r[0] == 'ok' and canon(r[1]) == mm[1])):
                chk.mismatch('%s: model %r vs implementation %r' % (nm, mm, r), c)
        chk.case(c, len(items) >= 3 and not mixed)

    def mixed(self, items): return kinds_mixed([k for k, _ in items])
    def has_none(self, k): return k[0] == 'N'
    def dockey(self, k): return sort_key_doc(k)
    def keyout(self, k): return strip(k)


@helper('sort_nested_dict_by_keys')
class SortNested(SortDict):
    fn = staticmethod(H.sort_nested_dict_by_keys); nm = 'sort_nested_dict_by_keys'

    def gen(self, rng, tier):
        n = pick_w(rng, [(0, 1), (1, 2), (2, 3), (3, 3), (4, 1)])
        k1 = pick_w(rng, [('i', 3), ('s', 3), ('if', 1), ('is', 0.4)]); k2 = pick_w(rng, [('i', 3), ('s', 3), ('if', 1), ('is', 0.4)])
        d = g_dict(rng, n, k1, 0.2, lambda r: g_dict(r, pick_w(r, [(0, 1), (1, 3), (2, 3), (3, 2)]), k2, 0.2))
        return dict(d=d, asc=rng.choice([None, True, False]), rv=rng.choice([None, True, False]))

    def expr(self, c):
        return 'rmap (map obs_pv) (sort_nested_dict_by_keys %s %s %s)' % (coq_dict(c['d']), cbool(c['asc'] is not False), cbool(c['rv'] is not False))

    def flat(self, c):
        items = [((k1, k2), v) for k1, inner in c['d'][1] for k2, v in inner[1]]
        return items, [k for k, _ in items]

    def mixed(self, items):
        # a number has to be compared with a str: at level 1, or at level 2 within one level-1 key
        if kinds_mixed([k[0] for k, _ in items]): return True
        groups = {}
        for (k1, k2), _ in items: groups.setdefault(key_id(k1), []).append(k2)
        return any(kinds_mixed(g) for g in groups.values())
    def has_none(self, k): return k[0][0] == 'N' or k[1][0] == 'N'
    def dockey(self, k): return (sort_key_doc(k[0]), sort_key_doc(k[1]))
    def keyout(self, k): return ['L', [strip(k[0]), strip(k[1])]]


# ================================================================================================
# key rewriters

@helper('change_dict_key')
class ChangeKey:
    def gen(self, rng, tier):
        d = g_dict(rng, pick_w(rng, [(0, 0.5), (1, 2), (2, 3), (4, 3)]), 'is', 0.15)
        keys = [k for k, _ in d[1]]
        old = rng.choice(keys) if keys and rng.random() < 0.85 else g_key(rng, 'is')
        new = pick_w(rng, [(g_key(rng, 'is'), 4), (eS('new'), 3), (old, 0.7), (eF(old[1]) if old[0] == 'I' else old, 0.5)])
        return dict(d=d, old=old, new=new)

    def expr(self, c):
        return 'rmap obs_dict (change_dict_key %s %s %s)' % (coq_dict(c['d']), coq_key(c['old']), coq_key(c['new']))

    def judge(self, chk, c, m):
        d = to_py(c['d']); pairs = c['d'][1]; old, new = c['old'], c['new']
        r = call(H.change_dict_key, d, to_py(old), to_py(new))
        present = any(key_id(k) == key_id(old) for k, _ in pairs)
        newpresent = any(key_id(k) == key_id(new) for k, _ in pairs) and key_id(new) != key_id(old)
        chk.count('change_dict_key:%s' % ('old-missing' if not present else ('new-already-present' if newpresent else 'plain')))
        if not present:
            if not (r[0] == 'err' and r[1] == 'KeyError'): chk.fail('change_dict_key|missing-key-accepted', 'documented KeyError, got %r' % (r[:2],), c)
            elif canon(d) != strip(c['d']): chk.fail('change_dict_key|dict-changed-on-error', 'dict changed although KeyError was raised', c)
        elif r[0] == 'err': chk.fail('change_dict_key|raises-%s' % r[1], r[2], c)
        elif not newpresent:
            # documented: in place, old key gone, new key carries the old value and appears at the end
            val = [v for k, v in pairs if key_id(k) == key_id(old)][0]
            want = ['D', [[strip(k), strip(v)] for k, v in pairs if key_id(k) != key_id(old)] + [[strip(new), strip(val)]]]
            if r[1] is not None or canon(d) != want: chk.fail('change_dict_key|wrong-result', 'dict is now %r, documented %r' % (d, want), c)
        if m is not NOMODEL:
            chk.traces += 1
            mm = model_res(m, from_ov)
            if (mm[0] == 'err' and not (r[0] == 'err' and r[1] == mm[1])) or (mm[0] == 'ok' and not (r[0] == 'ok' and canon(d) == mm[1])):
                chk.mismatch('change_dict_key: model %r vs dict after the call %r (%r)' % (mm, d, r[:2]), c)
        chk.case(c, present and len(pairs) >= 2)


NUMSTR = ['0', '7', '12', '-3', '+4', '007', '3.5', '-0.25', '.5', '2.', '3.0', '-8.00', '10.125', '0.0']
NONNUM = ['a', 'x1', '1x', '', '.', '-', '+', '1.2.3', 'null', 'one', '--1', '1-']
OUTSIDE_GRAMMAR = [' 4 ', '1_0', '1e3', '2E1', '2.5e0']     # numeric for Python, outside the model's grammar: oracle only


def doc_numeric_key(s):
    """documented: a string representing an integer becomes that integer (as coded: any other number becomes a float)"""
    try: x = float(s)
    except ValueError: return eS(s)
    if math.isnan(x) or math.isinf(x): return None
    fx = Fraction(x)
    return eI(int(fx)) if fx.denominator == 1 else eF(fx)


@helper('replace_dict_numeric_string_keys')
class ReplaceNumeric:
    def gdict(self, rng, depth, outside):
        pairs = []; seen = set()
        for _ in range(pick_w(rng, [(0, 1), (1, 2), (2, 3), (3, 3), (5, 1)])):
            k = pick_w(rng, [(eS(rng.choice(NUMSTR)), 5), (eS(rng.choice(NONNUM)), 2), (eI(rng.randint(0, 12)), 1.5), (eN(), 0.4), (eF(Fraction(7, 2)), 0.4)] +
                       ([(eS(rng.choice(OUTSIDE_GRAMMAR)), 3)] if outside else []))
            if key_id(k) in seen: continue
            seen.add(key_id(k))
            v = pick_w(rng, [(None, 2 if depth < 2 else 0), ('list', 0.7), ('scalar', 4)])
            if v is None: v = self.gdict(rng, depth + 1, outside)
            elif v == 'list': v = eL([eD([[eS('9'), eI(1)]]), eI(2)])
            else: v = g_scalar(rng)
            pairs.append([k, v])
        return ['D', pairs]

    def gen(self, rng, tier):
        outside = rng.random() < 0.15
        return dict(d=self.gdict(rng, 0, outside), outside=outside)

    def expr(self, c):
        return None if c['outside'] else 'rmap obs_dict (replace_dict_numeric_string_keys %s)' % coq_dict(c['d'])

    def documented(self, e):
        if e[0] != 'D': return strip(e)
        pairs = []
        for k, v in e[1]:
            nk = doc_numeric_key(k[1]) if k[0] == 'S' else strip(k)
            if nk is None: return None
            w = self.documented(v)
            if w is None: return None
            pairs.append([nk, w])
        return dict_from_pairs(pairs)

    fn = staticmethod(H.replace_dict_numeric_string_keys); nm = 'replace_dict_numeric_string_keys'

    def judge(self, chk, c, m):
        d = to_py(c['d']); b = copy.deepcopy(d); nm = self.nm
        r = call(self.fn, d)
        if not same(d, b): chk.fail(nm + '|mutates-argument', 'documented to return a new dict, but the argument changed', c)
        want = self.documented(c['d'])
        def has_intfloat(e): return e[0] == 'D' and any((k[0] == 'S' and re.fullmatch(r'[+-]?(\d+\.\d*|\.\d+|\d+[eE]\d+)', k[1]) and doc_numeric_key(k[1])[0] == 'I') or has_intfloat(v) for k, v in e[1])
        chk.count('%s:%s' % (nm, 'outside-model-grammar' if c.get('outside') else 'in-grammar'))
        if r[0] == 'err':
            chk.fail('%s|raises-%s|%s' % (nm, r[1], 'integer-valued-float-string' if has_intfloat(c['d']) else 'other'), r[2], c)
        elif r[1] is d: chk.fail(nm + '|returns-argument', 'documented to return a new dict', c)
        elif want is not None and canon(r[1]) != want:
            chk.fail(nm + '|wrong-result', 'got %r, documented %r' % (r[1], want), c)
        if m is not NOMODEL:
            chk.traces += 1
            mm = model_res(m, from_ov) if isinstance(m, tuple) and m[0] in ('Ok', 'Err') else ('ok', from_ov(m))
            if (mm[0] == 'err' and not (r[0] == 'err' and r[1] == mm[1])) or (mm[0] == 'ok' and not (r[0] == 'ok' and canon(r[1]) == mm[1])):
                chk.mismatch('%s: model %r vs implementation %r' % (nm, mm, r), c)
        chk.case(c, len(c['d'][1]) >= 2 and any(v[0] == 'D' for _, v in c['d'][1]))


@helper('replace_dict_null_keys')
class ReplaceNull(ReplaceNumeric):
    fn = staticmethod(H.replace_dict_null_keys); nm = 'replace_dict_null_keys'

    def gen(self, rng, tier):
        def gd(depth):
            pairs = []; seen = set()
            for _ in range(pick_w(rng, [(0, 1), (1, 2), (2, 3), (3, 3)])):
                k = pick_w(rng, [(eS('null'), 3), (eS(rng.choice(['a', 'Null', 'NULL', 'nul', '7'])), 3), (eI(rng.randint(0, 5)), 1), (eN(), 0.6)])
                if key_id(k) in seen: continue
                seen.add(key_id(k))
                v = gd(depth + 1) if (depth < 2 and rng.random() < 0.35) else (eL([eD([[eS('null'), eI(1)]])]) if rng.random() < 0.1 else g_scalar(rng))
                pairs.append([k, v])
            return ['D', pairs]
        return dict(d=gd(0), outside=False)

    def expr(self, c):
        return 'obs_dict (replace_dict_null_keys %s)' % coq_dict(c['d'])

    def documented(self, e):
        if e[0] != 'D': return strip(e)
        return dict_from_pairs([[eN() if k == ['S', 'null'] else strip(k), self.documented(v)] for k, v in e[1]])


# ================================================================================================
# predicates, rounding, list comparison

def g_any(rng, depth=0):
    k = pick_w(rng, [('scalar', 6), ('list', 1.5 if depth < 2 else 0), ('dict', 1 if depth < 2 else 0)])
    if k == 'scalar': return g_scalar(rng)
    if k == 'list': return eL([g_any(rng, depth + 1) for _ in range(rng.randint(0, 3))], rng.choice(['list', 'list', 'tuple']))
    return g_dict(rng, rng.randint(0, 2), 'is', 0.1, lambda r: g_any(r, depth + 1))


@helper('is_integer')
class IsInteger:
    def gen(self, rng, tier):
        x = pick_w(rng, [(g_int(rng, -50, 50), 3), (eF(rng.randint(-9, 9)), 2), (g_dy(rng), 3), (eF(Fraction(2 ** 60)), 0.3), (eF(Fraction(1, 2 ** 40)), 0.3), (g_any(rng), 3)])
        return dict(x=x, which=rng.choice(['is_integer', 'is_integer', 'is_iterable']))

    def expr(self, c):
        if any(t in json.dumps(c['x']) for t in ('tuple',)): return None
        return '%s %s' % (c['which'], coq_pv(c['x']))

    def judge(self, chk, c, m):
        x = to_py(c['x']); b = copy.deepcopy(x); e = c['x']; nm = c['which']
        r = call(getattr(H, nm), x)
        if not same(x, b): chk.fail(nm + '|mutates-argument', 'x changed', c)
        chk.count('%s:%s' % (nm, {'N': 'None', 'I': 'int', 'F': 'float', 'S': 'str', 'L': 'list/tuple', 'D': 'dict'}[e[0]]))
        want = (e[0] == 'I' or (e[0] == 'F' and Fraction(e[1], e[2]).denominator == 1)) if nm == 'is_integer' else e[0] in 'LD'
        if r[0] == 'err': chk.fail('%s|raises-%s' % (nm, r[1]), r[2], c)
        elif r[1] is not want: chk.fail('%s|wrong-answer|%s' % (nm, e[0]), '%s(%r) = %r, documented %r' % (nm, x, r[1], want), c)
        if m is not NOMODEL:
            chk.traces += 1
            if not (r[0] == 'ok' and r[1] is m): chk.mismatch('%s: model %r vs %r' % (nm, m, r), c)
        chk.case(c, e[0] in 'IF' if nm == 'is_integer' else True)


@helper('round_dict_values')
class RoundDict:
    def gen(self, rng, tier):
        def val(r):
            return pick_w(r, [(eF(Fraction(2 * r.randint(-6, 9) + 1, 2)), 3), (eF(Fraction(r.randint(-24, 40), 8)), 4), (g_int(r), 2), (eF(r.randint(-3, 3)), 1), (g_str(r), 0.15), (eN(), 0.1)])
        return dict(d=g_dict(rng, pick_w(rng, [(0, 1), (1, 2), (3, 4), (5, 2)]), 'is', 0.1, val),
                    rt=pick_w(rng, [('up', 3), ('down', 3), ('nearest', 4), (None, 2), ('omit', 1), ('other', 0.5)]))

    def expr(self, c):
        rt = {'up': 'RUp', 'down': 'RDown', 'nearest': 'RNearest'}.get(c['rt'], 'ROther')
        return 'rmap obs_dict (round_dict_values %s %s)' % (coq_dict(c['d']), rt)

    def judge(self, chk, c, m):
        d = to_py(c['d']); b = copy.deepcopy(d); pairs = c['d'][1]; rt = c['rt']
        r = call(H.round_dict_values, d) if rt == 'omit' else call(H.round_dict_values, d, rt)
        if not same(d, b): chk.fail('round_dict_values|mutates-argument', 'documented to return a new dict, but the argument changed', c)
        chk.count('round_dict_values:%s' % rt)
        numeric = all(v[0] in 'IF' for _, v in pairs)
        if rt in ('up', 'down', 'nearest'):
            if numeric:
                if r[0] == 'err': chk.fail('round_dict_values|raises-%s' % r[1], r[2], c)
                elif r[1] is d or [canon(k) for k in r[1]] != [strip(k) for k, _ in pairs]: chk.fail('round_dict_values|keys', 'keys changed or same object returned: %r' % (r[1],), c)
                else:
                    for (k, v), got in zip(pairs, r[1].values()):
                        x = fr(v); g = canon(got)
                        ok = g[0] == 'I' and ((rt == 'up' and g[1] == math.ceil(x)) or (rt == 'down' and g[1] == math.floor(x)) or
                                              (rt == 'nearest' and abs(g[1] - x) <= Fraction(1, 2)))
                        if not ok: chk.fail('round_dict_values|wrong-value|%s' % rt, 'value %s rounded %s gives %r' % (x, rt, got), c); break
        elif r[0] == 'err': chk.fail('round_dict_values|raises-%s' % r[1], r[2], c)
        elif r[1] is d or canon(r[1]) != strip(c['d']): chk.fail('round_dict_values|no-rounding-changed-values', 'got %r' % (r[1],), c)
        if m is not NOMODEL:
            chk.traces += 1
            mm = model_res(m, from_ov)
            if (mm[0] == 'err' and not (r[0] == 'err' and r[1] == mm[1])) or (mm[0] == 'ok' and not (r[0] == 'ok' and canon(r[1]) == mm[1])):
                chk.mismatch('round_dict_values: model %r vs implementation %r' % (mm, r), c)
        chk.case(c, rt in ('up', 'down', 'nearest') and numeric and len(pairs) >= 1)


def multiset_key(e):
    """canonical hashable form identifying python-equal values (1 == 1.0, dict order irrelevant)"""
    if e[0] in 'IF': return ('n', fr(e))
    if e[0] == 'L': return ('L', tuple(multiset_key(x) for x in e[1]))
    if e[0] == 'D': return ('D', frozenset((key_id(k), multiset_key(v)) for k, v in e[1]))
    return tuple(e)


@helper('compare_unhashable_lists')
class CompareLists:
    def gen(self, rng, tier):
        def elem(r):
            return pick_w(r, [(eL([g_int(r, 0, 2) for _ in range(r.randint(0, 2))]), 4), (eD([[eS(r.choice('ab')), g_int(r, 0, 2)]]), 2), (g_int(r, 0, 3), 2),
                              (eD([[eS('a'), eI(1)], [eS('b'), eI(2)]]), 0.5), (eD([[eS('b'), eI(2)], [eS('a'), eI(1)]]), 0.5), (eF(1), 0.5), (eN(), 0.3)])
        l1 = [elem(rng) for _ in range(pick_w(rng, [(0, 1), (1, 2), (2, 3), (3, 3), (5, 2)]))]
        act = pick_w(rng, [('perm', 5), ('drop', 1), ('dup', 2), ('change', 2), ('rand', 1)])
        l2 = list(l1); rng.shuffle(l2)
        if act == 'drop' and l2: l2.pop()
        elif act == 'dup' and len(l2) >= 2: l2[0] = l2[1]
        elif act == 'change' and l2: l2[rng.randrange(len(l2))] = elem(rng)
        elif act == 'rand': l2 = [elem(rng) for _ in range(len(l1))]
        return dict(l1=eL(l1), l2=eL(l2, rng.choice(['list', 'list', 'tuple'])))

    def expr(self, c):
        return 'compare_unhashable_lists pv_eqb %s %s' % (clist([coq_pv(x) for x in c['l1'][1]]), clist([coq_pv(x) for x in c['l2'][1]]))

    def judge(self, chk, c, m):
        l1 = to_py(c['l1']); l2 = to_py(c['l2']); b = copy.deepcopy((l1, l2))
        r = call(H.compare_unhashable_lists, l1, l2)
        if not (same(l1, b[0]) and same(l2, b[1])): chk.fail('compare_unhashable_lists|mutates-argument', 'a list changed (the function must work on a copy)', c)
        from collections import Counter
        want = Counter(multiset_key(x) for x in strip(c['l1'])[1]) == Counter(multiset_key(x) for x in strip(c['l2'])[1])
        chk.count('compare_unhashable_lists:%s' % want)
        if r[0] == 'err': chk.fail('compare_unhashable_lists|raises-%s' % r[1], r[2], c)
        elif r[1] is not want: chk.fail('compare_unhashable_lists|wrong-answer', 'got %r for %r vs %r; same elements with the same counts: %r' % (r[1], l1, l2, want), c)
        if m is not NOMODEL:
            chk.traces += 1
            if not (r[0] == 'ok' and r[1] is m): chk.mismatch('compare_unhashable_lists: model %r vs %r' % (m, r), c)
        chk.case(c, len(c['l1'][1]) >= 2)


def g_shape(rng):
    """one value of every shape the predicates and normalisers can meet, incl. those for which "has __iter__", "iter() works" and "is a list" disagree"""
    k = pick_w(rng, [('any', 5), ('singleton0', 3), ('seq', 3), ('ndarray', 1.5), ('set', 1), ('frozenset', 0.5), ('iter', 1), ('gen', 0.7), ('class', 1.5), ('opaque', 1), ('dictof', 0.5)])
    if k == 'any': return g_any(rng)
    if k == 'singleton0': return g_singleton0(rng)
    if k == 'seq': return g_seq(rng, rng.randint(0, 4), rng.choice(SEQ_FLAVORS))
    if k == 'ndarray': return g_num_list(rng, rng.randint(0, 4), 'ndarray')
    if k in ('set', 'frozenset'):
        return eL([kk for kk, _ in g_dict(rng, rng.randint(0, 4), 'is', 0.1)[1]], k)      # pairwise different hashable atoms
    if k in ('iter', 'gen'): return eL([g_scalar(rng) for _ in range(rng.randint(0, 3))], k)
    if k == 'class': return ['T', rng.choice(sorted(CLASS_OBJECTS))]
    if k == 'opaque': return ['O', rng.choice(['object', 'noiter'])]
    return eD([[eS('a'), g_singleton0(rng)], [eS('b'), g_seq(rng, 2, 'legacy')]])


def doc_is_iterable(e):
    """documented: True for an iterable, False for a singleton (strings count as singletons). Iterable = a for loop can be started on it."""
    return e[0] in 'LD'


def py_is_iterable(x):
    """the same, decided by the interpreter on a fresh object (cross-check of the encoding-based rule)"""
    if isinstance(x, str): return False
    try:
        for _ in x: break
    except TypeError:
        return False
    return True


@helper('shape_predicates')
class ShapePredicates:
    """is_iterable / is_list / is_set / is_dict / is_numeric_string over every input shape"""
    def gen(self, rng, tier):
        which = pick_w(rng, [('is_iterable', 6), ('is_list', 1), ('is_set', 1), ('is_dict', 1), ('is_numeric_string', 1.5)])
        if which == 'is_numeric_string':
            x = pick_w(rng, [(eS(rng.choice(NUMSTR)), 3), (eS(rng.choice(NONNUM)), 3), (eS(rng.choice(OUTSIDE_GRAMMAR)), 1), (g_shape(rng), 2)])
        else: x = g_shape(rng)
        return dict(x=x, which=which)

    def expr(self, c):
        if c['which'] != 'is_iterable' or has_tag(c['x'], 'TOB'): return None
        return 'is_iterable %s' % coq_pv(c['x'])

    def judge(self, chk, c, m):
        e = c['x']; nm = c['which']; x = to_py(e)
        consumable = e[0] == 'L' and len(e) > 2 and e[2] in ('iter', 'gen')
        b = None if consumable or e[0] in 'TO' else copy.deepcopy(x)
        r = call(getattr(H, nm), x)
        chk.count('%s:%s' % (nm, shape_name(e)))
        if consumable:
            if canon(list(x)) != strip(e): chk.fail(nm + '|consumes-iterator', 'the %s passed in has lost items after the call' % ('generator' if e[2] == 'gen' else 'iterator'), c)
        elif b is not None and not same(x, b): chk.fail(nm + '|mutates-argument', 'x changed', c)
        if nm == 'is_iterable':
            want = doc_is_iterable(e)
            if want is not py_is_iterable(to_py(e)): raise AssertionError('oracle inconsistency for %r' % (e,))
        elif nm == 'is_list': want = e[0] == 'L' and (len(e) < 3 or e[2] == 'list')
        elif nm == 'is_set': want = e[0] == 'L' and len(e) > 2 and e[2] == 'set'
        elif nm == 'is_dict': want = e[0] == 'D'
        else: want = e[0] == 'S' and e[1] in NUMSTR + OUTSIDE_GRAMMAR
        if r[0] == 'err': chk.fail('%s|raises-%s|%s' % (nm, r[1], shape_name(e)), r[2], c)
        elif r[1] is not want: chk.fail('%s|wrong-answer|%s' % (nm, shape_name(e)), '%s(%r) = %r, documented %r' % (nm, to_py(e), r[1], want), c)
        if m is not NOMODEL:
            chk.traces += 1
            if not (r[0] == 'ok' and r[1] is m): chk.mismatch('%s: model %r vs %r' % (nm, m, r), c)
        chk.case(c, True)


@helper('check_iterable_sizes')
class CheckIterableSizes:
    """documented: True iff every item is an iterable of the same size or a singleton (as coded: an iterable of size 1 counts as a singleton)"""
    def gen(self, rng, tier):
        ln = rng.randint(0, 4); items = []
        for _ in range(pick_w(rng, [(0, 0.5), (1, 1), (2, 3), (3, 4), (4, 2), (6, 1)])):
            k = pick_w(rng, [('scalar', 3), ('singleton0', 2), ('list', 3), ('tuple', 1.5), ('ndarray', 1.5), ('seq', 2), ('set', 0.5), ('dict', 0.7)])
            l = ln if rng.random() < 0.75 else pick_w(rng, [(0, 1), (1, 2), (ln + 1, 2), (max(0, ln - 1), 2), (rng.randint(0, 6), 1)])
            if k == 'scalar': it = g_scalar(rng)
            elif k == 'singleton0': it = g_singleton0(rng)
            elif k == 'ndarray': it = g_num_list(rng, l, 'ndarray')
            elif k == 'seq': it = g_seq(rng, l, rng.choice(SEQ_FLAVORS))
            elif k == 'set': it = eL([eI(i) for i in rng.sample(range(10), l)], 'set')
            elif k == 'dict': it = eD([[eI(i), g_scalar(rng)] for i in rng.sample(range(10), l)])
            else: it = eL([g_scalar(rng) for _ in range(l)], k)
            items.append(it)
        return dict(items=eL(items, rng.choice(['list', 'list', 'tuple'])))

    def expr(self, c): return None       # oracle only (no model)

    def judge(self, chk, c, m):
        items = c['items'][1]; x = to_py(c['items']); b = copy.deepcopy(x)
        r = call(H.check_iterable_sizes, x)
        if not same(x, b): chk.fail('check_iterable_sizes|mutates-argument', 'the list changed', c)
        sizes = [len(nd_elems(e)[1]) for e in items if doc_is_iterable(e)]
        for e in items: chk.count('check_iterable_sizes:item-is-%s' % shape_name(e))
        if len(set(sizes)) <= 1: want = True
        elif len(set(sizes) - {1}) >= 2: want = False
        else: want = None        # the sizes differ only through iterables of size 1: the docstring and the code disagree; not judged
        chk.count('check_iterable_sizes:%s' % {True: 'same-size', False: 'different-sizes', None: 'size-1-iterable-among-others(not judged)'}[want])
        if r[0] == 'err': chk.fail('check_iterable_sizes|raises-%s' % r[1], r[2], c)
        elif want is not None and r[1] is not want:
            chk.fail('check_iterable_sizes|wrong-answer', 'got %r for item sizes %r (singletons left out), documented %r' % (r[1], sizes, want), c)
        chk.case(c, len(sizes) >= 2 and want is not None)


# ================================================================================================
# driver

RULE = ('per helper of stockpyl.helpers a structured generator (sizes 0..8, ties, empty/singleton containers, scalar/list/tuple/ndarray/dict/None shapes, '
        'admissible and inadmissible lengths, tolerance-boundary pairs for dict_match, numeric-string keys, None/str/number key kinds) plus malformed inputs; '
        'the iterable/list/set/dict/numeric-string predicates, check_iterable_sizes and the node/time-period normalisers (incl. attribute values of build_node_data_dict) also get the shapes for which '
        '"has __iter__", "iter() works" and "is a list" disagree: 0-d ndarrays and NumPy scalars (singletons), sequences with only __getitem__/__len__, range, deque, set/frozenset, '
        'iterators and generators (must not be consumed), class objects and objects with __iter__ = None; '
        'numbers are ints or dyadic rationals so that the implementation computes exactly (FFT convolution, 1/m pmfs and the Irwin-Hall sum compared at 1e-12..1e-10 absolute). '
        'Every case: implementation vs Gallina model (Alg/Helpers.v, vm_compute), documented result recomputed independently in Python, argument deep-copied and compared after the call. '
        'non-trivial = the helper-specific interesting branch is exercised (>=2 arrays of length >=2, ties or >=3 entries for find_nearest, differing non-empty dicts for dict_match, admissible list shapes, >=3 comparable keys for the sorters ...); '
        'distinct = distinct (helper, input).')

WEIGHTS = {'convolve_many': 1.4, 'find_nearest': 1.6, 'dict_match': 1.8, 'irwin_hall': 1.0, 'sum_of_discrete_uniforms_pmf': 0.6, 'sum_of_discretes_distribution': 0.4,
           'is_integer': 0.6, 'min_of_dict': 0.5, 'nearest_dict_value': 0.5, 'shape_predicates': 1.5}


def explore(chk, per_helper, do_model=True, only=None):
    cases = []
    for name, h in HELPERS.items():
        if only and name not in only: continue
        for _ in range(max(1, int(per_helper * WEIGHTS.get(name, 1.0)))):
            cases.append((name, h.gen(chk.rng, chk.tier)))
    exprs = []; where = {}
    if do_model:
        for i, (name, c) in enumerate(cases):
            e = HELPERS[name].expr(c)
            if e is not None:
                where[i] = len(exprs); exprs.append(e)
    vals = coq_eval_sharded('c20', 'Alg.Helpers', DEFS, exprs, shard=200) if exprs else []
    for i, (name, c) in enumerate(cases):
        c = dict(c, helper=name)
        m = vals[where[i]] if i in where else NOMODEL
        try:
            HELPERS[name].judge(chk, c, m)
        except Exception as ex:
            import traceback; traceback.print_exc()
            chk.broken.append(('harness-error:%s' % name, '%s: %s on %s' % (type(ex).__name__, ex, json.dumps(jsonable(c))[:300])))


def run(chk):
    chk.rule = RULE
    chk.trusted += ['model Alg/Helpers.v is hand-written; tied to /repo/src/stockpyl/helpers.py by comparing return values / raised exception kinds with the implementation on generated inputs for every modelled helper',
                    'library calls are modelled by their specification: np.searchsorted(side=left) on a sorted array = number of entries < v; ndarray.argmin / min(key=) = first minimiser; '
                    'sorted() = the unique ordering of pairwise-distinct comparable keys, TypeError iff a number must be compared with a str; np.fft convolution = exact linear convolution; math.isclose = CPython formula over Q',
                    'numeric-string grammar of the model: [+-]?digits[.digits] (no exponent/blank/underscore/inf/nan); strings outside it are checked by the Python oracle only',
                    'Irwin-Hall: the closed form is PROVED to be the distribution of the sum (convolution recursion + iterated integral over the unit cube, Alg/IrwinHall_proofs.v, real-number axioms of the standard library) and the Q model is proved equal to it; the harness compares the implementation with exact piecewise polynomials obtained by repeated integration and checks the recursion on the implementation by Gauss-Legendre quadrature']
    chk.assume += ['floating-point rounding is not modelled (exact rationals; reals for the Irwin-Hall theorems); generated numbers are ints/dyadics or compared at 1e-12..1e-10 absolute',
                   'dict keys are hashable atoms None|int|float|str; bool, nan and inf are outside the model']
    chk.proof()
    per = 220 if chk.tier == 'quick' else 4500
    explore(chk, per)
    # Irwin-Hall: the convolution recursion proved for the closed form (Alg/IrwinHall_proofs.v) checked on the IMPLEMENTATION by quadrature
    from props.c20_irwinhall import irwin_hall_stream
    irwin_hall_stream(chk, 300 if chk.tier == 'quick' else 3000)
    if (chk.broken or chk.mismatches) and not chk.fails:
        explore(chk, per * (6 if chk.tier == 'quick' else 2), do_model=False)


def replay(chk, rp):
    c = rp['case']
    if 'stream' in c and 'helper' not in c:
        from props.c20_irwinhall import replay_case
        return replay_case(chk, c)
    name = c['helper']
    h = HELPERS[name]
    m = NOMODEL
    try:
        e = h.expr(c)
        if e is not None: m = coq_eval('c20r', 'Alg.Helpers', DEFS, [e])[0]
    except Exception as ex:
        print('model evaluation failed:', ex)
    print('helper:', name, ' model:', m if m is not NOMODEL else '(none)')
    h.judge(chk, c, m)
