"""Shared machinery of the /verif checks: Coq build + evaluation, comparison helpers,
violation / known-finding reporting, evidence writing.

Every check does:  proof obligations (make + Print Assumptions)  ->  correspondence of the Coq model
with the implementation on generated cases  ->  property oracle on the implementation  ->  report.
"""
import fcntl, json, os, random, re, subprocess, sys, time, hashlib, traceback
from fractions import Fraction

VERIF = '/verif'
COQ = os.path.join(VERIF, 'coq')
BUILD = os.path.join(VERIF, 'build')
REPO = '/repo'
REPO_SRC = os.environ.get('VERIF_REPO_SRC', '/repo/src')   # where the stockpyl package under test lives
KNOWN = os.path.join(VERIF, 'KNOWN_FINDINGS.json')
os.makedirs(BUILD, exist_ok=True)

# ------------------------------------------------------------------------------------------------
# numbers

def F(x):
    """exact rational of a python number (floats are converted exactly)."""
    if isinstance(x, Fraction):
        return x
    if isinstance(x, bool):
        return Fraction(int(x))
    if isinstance(x, int):
        return Fraction(x)
    try:
        import numpy as np
        if isinstance(x, np.generic):
            x = x.item()
    except ImportError:
        pass
    if isinstance(x, int):
        return Fraction(x)
    return Fraction(float(x))


def cq(x):
    """Coq literal (in Q_scope) of an exact rational."""
    x = F(x)
    if x.denominator == 1:
        return '(%d # 1)' % x.numerator if x.numerator >= 0 else '((%d) # 1)' % x.numerator
    if x.numerator >= 0:
        return '(%d # %d)' % (x.numerator, x.denominator)
    return '((%d) # %d)' % (x.numerator, x.denominator)


def cz(n):
    n = int(n)
    return '%d%%Z' % n if n >= 0 else '(%d)%%Z' % n


def cnat(n):
    assert int(n) >= 0
    return '%d%%nat' % int(n)


def clist(items):
    return '[' + '; '.join(items) + ']'


def cqlist(xs):
    return clist([cq(x) for x in xs])


def cbool(b):
    return 'true' if b else 'false'


def copt(x, f=cq):
    return 'None' if x is None else '(Some %s)' % f(x)


def close(a, b, rel=1e-9, abs_=1e-9):
    a = float(a); b = float(b)
    if a == b:
        return True
    return abs(a - b) <= max(abs_, rel * max(abs(a), abs(b)))


# ------------------------------------------------------------------------------------------------
# Coq build

def _run(cmd, cwd=None, timeout=1800, env=None):
    t0 = time.time()
    try:
        p = subprocess.run(cmd, cwd=cwd, stdout=subprocess.PIPE, stderr=subprocess.STDOUT,
                           timeout=timeout, env=env, text=True, errors='replace')
        return p.returncode, p.stdout, time.time() - t0
    except subprocess.TimeoutExpired as e:
        out = e.stdout if isinstance(e.stdout, str) else (e.stdout or b'').decode(errors='replace')
        return 124, out + '\n[timeout after %ss]' % timeout, time.time() - t0


class _Lock:
    def __enter__(self):
        self.f = open(os.path.join(BUILD, '.lock'), 'w')
        fcntl.flock(self.f, fcntl.LOCK_EX)
        return self

    def __exit__(self, *a):
        fcntl.flock(self.f, fcntl.LOCK_UN)
        self.f.close()


def coq_make(targets=(), jobs=16, timeout=3000):
    """(Re)build the Coq project (or some .vo targets) under a lock. Returns (ok, log)."""
    with _Lock():
        mk = os.path.join(COQ, 'Makefile')
        cp = os.path.join(COQ, '_CoqProject')
        import mkcoqproject
        mkcoqproject.main()
        if (not os.path.exists(mk)) or os.path.getmtime(mk) < os.path.getmtime(cp):
            rc, out, _ = _run(['coq_makefile', '-f', '_CoqProject', '-o', 'Makefile'], cwd=COQ, timeout=120)
            if rc != 0:
                return False, out
        rc, out, _ = _run(['timeout', str(timeout), 'make', '-j%d' % jobs] + list(targets), cwd=COQ, timeout=timeout + 30)
        return rc == 0, out


def coq_props(pid, timeout=600):
    """Build Props/<pid>.vo (and everything it needs), then re-run coqc on Props/<pid>.v to capture the
    Print Assumptions output. Returns dict(ok, theorems, assumptions{thm: [axioms]}, log, failed)."""
    src = os.path.join(COQ, 'Props', pid + '.v')
    text = open(src).read()
    theorems = re.findall(r'^\s*Theorem\s+([A-Za-z0-9_\']+)', text, re.M)
    printed = re.findall(r'^\s*Print Assumptions\s+([A-Za-z0-9_\']+)\s*\.', text, re.M)
    res = dict(ok=False, theorems=theorems, assumptions={}, log='', failed=None, printed=printed)
    ok, log = coq_make(['Props/%s.vo' % pid])
    res['log'] = log[-6000:]
    if not ok:
        m = re.search(r'File "([^"]+)", line (\d+)', log)
        res['failed'] = (m.group(1) + ':' + m.group(2)) if m else 'make Props/%s.vo' % pid
        m2 = re.search(r'Error:(.*?)(?:\n\n|\Z)', log, re.S)
        res['error'] = (m2.group(1).strip()[:1500] if m2 else log[-1500:])
        if m:
            # name the enclosing lemma / theorem
            try:
                fl = open(os.path.join(COQ, m.group(1).lstrip('./'))).read().split('\n')[:int(m.group(2))]
                for ln in reversed(fl):
                    mm = re.match(r'\s*(Theorem|Lemma|Example|Definition|Fixpoint|Corollary)\s+([A-Za-z0-9_\']+)', ln)
                    if mm:
                        res['failed'] += ' (%s %s)' % (mm.group(1), mm.group(2)); break
            except Exception:
                pass
        return res
    outdir = os.path.join(BUILD, 'props', '%s_%d' % (pid, os.getpid())); os.makedirs(outdir, exist_ok=True)
    rc, out, _ = _run(['timeout', str(timeout), 'coqc', '-Q', COQ, 'SV', '-o', os.path.join(outdir, pid + '.vo'), src],
                      cwd=COQ, timeout=timeout + 30)
    import shutil; shutil.rmtree(outdir, ignore_errors=True)
    if rc != 0:
        res['failed'] = 'Props/%s.v' % pid; res['error'] = out[-1500:]; res['log'] += out[-3000:]
        return res
    # parse the Print Assumptions blocks in order
    blocks = re.split(r'(?m)^(?=Closed under the global context|Axioms:)', out)
    blocks = [b for b in blocks if b.startswith('Closed under') or b.startswith('Axioms:')]
    for name, b in zip(printed, blocks):
        if b.startswith('Closed'):
            res['assumptions'][name] = []
        else:
            res['assumptions'][name] = sorted(set(re.findall(r'(?m)^([A-Za-z_][A-Za-z0-9_\.\']*)\s*:', b[len('Axioms:'):])))
    res['ok'] = True
    return res


FORBIDDEN = r'\b(Admitted|admit|Axiom|Axioms|Parameter|Parameters|Conjecture|Abort All|Unset Guard Checking|Unset Positivity Checking|Unset Universe Checking|bypass_check|Admit Obligations|native_compute)\b|type-in-type|impredicative-set'


def strip_coq_comments(text):
    """remove (* ... *) comments (nested, multi-line), keeping line structure; string literals are respected"""
    out = []; depth = 0; i = 0; n = len(text); in_str = False
    while i < n:
        ch = text[i]
        if depth == 0 and ch == '"':
            in_str = not in_str; out.append(ch); i += 1; continue
        if not in_str and text.startswith('(*', i):
            depth += 1; i += 2; continue
        if not in_str and depth > 0 and text.startswith('*)', i):
            depth -= 1; i += 2; continue
        if depth > 0:
            if ch == '\n': out.append('\n')
            i += 1; continue
        out.append(ch); i += 1
    return ''.join(out)


def forbidden_scan():
    """grep the development (comments stripped) for anything that would declare an axiom or switch off a kernel check."""
    hits = []
    for root, _, files in os.walk(COQ):
        for fn in files:
            if fn.endswith('.v'):
                p = os.path.join(root, fn)
                code = strip_coq_comments(open(p, errors='replace').read())
                stack = []      # open Section / Module names: a Variable / Hypothesis / Context outside every Section declares an axiom
                for i, ln in enumerate(code.split('\n'), 1):
                    if re.search(FORBIDDEN, ln):
                        hits.append('%s:%d: %s' % (os.path.relpath(p, COQ), i, ln.strip()))
                    for m in re.finditer(r'(?:^|\.\s+|^\s*)(Section|Module\s+Type|Module|End)\s+([A-Za-z_][A-Za-z0-9_\']*)\s*\.', ln):
                        if m.group(1) == 'End':
                            if stack: stack.pop()
                        elif ':=' not in ln[m.start():]:
                            stack.append(m.group(1).split()[0])
                    if re.match(r'\s*(Local\s+|Global\s+)?(Variables?|Hypothes[ie]s|Context)\b', ln) and 'Section' not in stack:
                        hits.append('%s:%d: %s (outside a Section)' % (os.path.relpath(p, COQ), i, ln.strip()))
    return hits


# ------------------------------------------------------------------------------------------------
# evaluating model expressions inside Coq (vm_compute) and parsing what it prints

_tok = re.compile(r'\s*(?:(-?\d+)(?:%[A-Za-z]+)?|("(?:[^"]|"")*")|([A-Za-z_][A-Za-z0-9_\.\']*)|(.))')


def _parse(s):
    s = re.sub(r'%[A-Za-z_]+', '', s)     # scope delimiters such as %Z, %nat, %N (also after a parenthesis: (-5)%Z)
    toks = []
    for m in _tok.finditer(s):
        if m.group(1) is not None: toks.append(('n', int(m.group(1))))
        elif m.group(2) is not None: toks.append(('s', m.group(2)[1:-1].replace('""', '"')))
        elif m.group(3) is not None: toks.append(('i', m.group(3)))
        elif m.group(4) is not None and m.group(4).strip(): toks.append(('p', m.group(4)))
    pos = [0]

    def peek():
        return toks[pos[0]] if pos[0] < len(toks) else ('e', None)

    def nxt():
        t = peek(); pos[0] += 1; return t

    def atom():
        k, v = nxt()
        if k == 'n' or k == 's':
            return v
        if k == 'i':
            return {'true': True, 'false': False, 'None': None}.get(v, v) if v in ('true', 'false', 'None') else ('@', v)
        if k == 'p' and v == '(':
            if peek() == ('p', '-'):
                nxt(); k2, v2 = nxt(); assert k2 == 'n'; r = -v2
                assert nxt() == ('p', ')'); return r
            items = [expr()]
            while peek() == ('p', ','):
                nxt(); items.append(expr())
            assert nxt() == ('p', ')'), 'expected )'
            return items[0] if len(items) == 1 else tuple(items)
        if k == 'p' and v == '[':
            items = []
            if peek() == ('p', ']'):
                nxt(); return items
            items.append(expr())
            while peek() == ('p', ';'):
                nxt(); items.append(expr())
            assert nxt() == ('p', ']'), 'expected ]'
            return items
        if k == 'p' and v == '-':
            k2, v2 = nxt(); assert k2 == 'n'; return -v2
        raise ValueError('unexpected token %r' % ((k, v),))

    def expr():
        a = atom()
        if isinstance(a, tuple) and len(a) == 2 and a[0] == '@':
            args = []
            while peek()[0] in ('n', 's', 'i') or peek() in (('p', '('), ('p', '[')):
                args.append(atom())
            if not args:
                return a[1]
            return (a[1],) + tuple(x[1] if (isinstance(x, tuple) and len(x) == 2 and x[0] == '@') else x for x in args)
        return a

    r = expr()
    assert peek()[0] == 'e', 'trailing tokens %r' % (toks[pos[0]:pos[0] + 5],)
    return r


def coq_eval(name, imports, defs, exprs, timeout=900):
    """Evaluate Gallina expressions with vm_compute in one coqc run.
    imports: e.g. 'Alg.WW' (comma/space separated SV modules); defs: extra vernacular; exprs: list of terms.
    Returns list of parsed python values (see _parse). Raises RuntimeError on a Coq error."""
    d = os.path.join(BUILD, 'eval'); os.makedirs(d, exist_ok=True)
    base = re.sub(r'[^A-Za-z0-9_]', '_', '%s_%d_%d' % (name, os.getpid(), int(time.time() * 1000) % 100000000))
    path = os.path.join(d, base + '.v')
    with open(path, 'w') as f:
        f.write('From SV Require Import %s.\n' % ' '.join(imports.replace(',', ' ').split()))
        f.write('Set Printing Width 100000000.\nSet Printing Depth 100000000.\nOpen Scope Q_scope.\n')
        f.write(defs + '\n')
        for e in exprs:
            f.write('Eval vm_compute in (%s).\n' % e)
    rc, out, _ = _run(['bash', '-c', 'ulimit -s unlimited 2>/dev/null; exec timeout %d coqc -Q %s SV %s' % (timeout, COQ, path)],
                      cwd=d, timeout=timeout + 30)
    for ext in ('.vo', '.glob', '.vok', '.vos', '.aux'):
        for pth in (os.path.join(d, base + ext), os.path.join(d, '.' + base + ext)):
            try: os.remove(pth)
            except OSError: pass
    if rc != 0:
        keep = os.path.join(d, 'FAILED_' + base + '.v')
        try: os.replace(path, keep)
        except OSError: pass
        raise RuntimeError('coq_eval %s failed (rc %d): %s' % (name, rc, out[-2000:]))
    os.remove(path)
    vals = []
    for chunk in re.split(r'(?m)^\s*= ', out)[1:]:
        body = re.split(r'(?m)^\s*: ', chunk)[0]
        vals.append(_parse(body))
    if len(vals) != len(exprs):
        raise RuntimeError('coq_eval %s: expected %d results, got %d: %s' % (name, len(exprs), len(vals), out[-1500:]))
    return vals


def coq_eval_sharded(name, imports, defs, exprs, shard=250, jobs=8, timeout=900):
    """coq_eval over many expressions, split into shards evaluated in parallel processes."""
    from concurrent.futures import ThreadPoolExecutor
    shards = [exprs[i:i + shard] for i in range(0, len(exprs), shard)]
    if not shards:
        return []
    with ThreadPoolExecutor(max_workers=jobs) as ex:
        futs = [ex.submit(coq_eval, '%s_s%d' % (name, i), imports, defs, sh, timeout) for i, sh in enumerate(shards)]
        out = []
        for fu in futs:
            out.extend(fu.result())
    return out


def qv(p):
    """(num, den) pair printed by qobs -> Fraction"""
    return Fraction(p[0], p[1])


# ------------------------------------------------------------------------------------------------
# reporting

def load_known():
    try:
        return json.load(open(KNOWN))
    except FileNotFoundError:
        return {'findings': [], 'fixed': []}


def jsonable(x):
    if isinstance(x, Fraction):
        return int(x) if x.denominator == 1 else (float(x) if abs(x.denominator) < 10**6 else str(x))
    if isinstance(x, dict):
        return {str(k): jsonable(v) for k, v in x.items()}
    if isinstance(x, (list, tuple, set, frozenset)):
        return [jsonable(v) for v in x]
    try:
        import numpy as np
        if isinstance(x, np.ndarray):
            return jsonable(x.tolist())
        if isinstance(x, np.generic):
            return jsonable(x.item())
    except ImportError:
        pass
    if isinstance(x, (int, float, str, bool)) or x is None:
        return x
    return repr(x)


class Check:
    def __init__(self, pid, tier='quick', seed=None, design_ref=''):
        self.pid = pid
        self.tier = tier
        if seed is None:
            seed = int(os.environ.get('VERIF_SEED', '20260930'))
        self.seed = seed
        self.rng = random.Random(seed * 1000003 + sum(ord(c) for c in pid))
        self.t0 = time.time()
        self.evaluations = 0
        self.nontrivial = set()
        self.samples = []
        self.fails = []          # failing inputs on the implementation: (signature, what, case)
        self.mismatches = []     # correspondence disagreements: (what, case)
        self.broken = []         # broken proof obligations / translator errors: (name, message)
        self.obligations = 0
        self.discharged = 0
        self.theorems = []
        self.assumptions = {}
        self.trusted = []
        self.assume = []
        self.rule = ''
        self.extra = {}
        self.hist = {}
        self.traces = 0
        self.checker_cmd = 'make -C /verif/coq Props/%s.vo && coqc -Q /verif/coq SV Props/%s.v (Print Assumptions)' % (pid, pid)
        self.known = load_known()
        self.lines = []

    # -- proof part
    def proof(self):
        hits = forbidden_scan()
        if hits:
            self.broken.append(('forbidden-construct', '; '.join(hits[:5])))
        r = coq_props(self.pid)
        self.theorems = r['theorems']
        self.obligations = len(r['theorems'])
        if r['ok']:
            self.discharged = len(r['theorems'])
            self.assumptions = r['assumptions']
            missing = [t for t in r['theorems'] if t not in r['assumptions']]
            if missing:
                self.broken.append(('Print Assumptions missing', ','.join(missing)))
        else:
            self.discharged = 0
            self.broken.append((r['failed'] or 'Props/%s.v' % self.pid, r.get('error', '')))
        return r['ok']

    # -- bookkeeping
    def count(self, key, n=1):
        self.hist[key] = self.hist.get(key, 0) + n

    def case(self, case, nontrivial=True, key=None):
        self.evaluations += 1
        if nontrivial:
            k = key if key is not None else hashlib.sha1(json.dumps(jsonable(case), sort_keys=True).encode()).hexdigest()
            self.nontrivial.add(k)
        if len(self.samples) < 3:
            self.samples.append(jsonable(case))

    def fail(self, signature, what, case):
        self.fails.append((signature, what, jsonable(case)))

    def mismatch(self, what, case):
        self.mismatches.append((what, jsonable(case)))

    def say(self, s):
        print(s); sys.stdout.flush(); self.lines.append(s)

    # -- end of run
    def finish(self):
        os.makedirs(os.path.join(VERIF, 'replays'), exist_ok=True)
        os.makedirs(os.path.join(VERIF, 'evidence'), exist_ok=True)
        known_sigs = {f['signature']: f for f in self.known.get('findings', []) if f.get('property') == self.pid}
        nviol = 0
        seen_known = set(); unlisted = {}
        for sig, what, case in self.fails:
            if sig in known_sigs:
                if sig not in seen_known:
                    seen_known.add(sig)
                    self.say('KNOWN-FINDING: property=%s %s' % (self.pid, known_sigs[sig]['what']))
            else:
                unlisted.setdefault(sig, (what, case))
        for i, (sig, (what, case)) in enumerate(sorted(unlisted.items())):
            path = os.path.join(VERIF, 'replays', '%s_%s_%d.json' % (self.pid, self.tier, i))
            json.dump({'property': self.pid, 'kind': 'failing-input', 'signature': sig, 'what': what, 'case': case,
                       'seed': self.seed, 'tier': self.tier}, open(path, 'w'), indent=1)
            self.say('VIOLATION property=%s replay=%s' % (self.pid, path)); nviol += 1
            if i >= 4: break
        if (self.broken or self.mismatches) and not unlisted:
            path = os.path.join(VERIF, 'replays', '%s_%s_unproved.json' % (self.pid, self.tier))
            json.dump({'property': self.pid, 'kind': 'obligation-no-longer-checks',
                       'broken_obligations': [{'name': n, 'message': m} for n, m in self.broken],
                       'correspondence_disagreements': [{'what': w, 'case': c} for w, c in self.mismatches[:10]],
                       'note': 'no failing input of the property was found on the implementation by the directed search',
                       'seed': self.seed, 'tier': self.tier}, open(path, 'w'), indent=1)
            self.say('VIOLATION property=%s replay=%s no-failing-input-found' % (self.pid, path)); nviol += 1
        ax = sorted({a for v in self.assumptions.values() for a in v})
        tb = ['Coq 8.16.1 kernel (coqc); vm_compute used for model evaluation in the correspondence; native_compute not used',
              'axioms reported by Print Assumptions under the property theorems: ' + (', '.join(ax) if ax else 'none (Closed under the global context)'),
              'correspondence harness /verif/py (generators, adapters to the implementation, comparators) and the Coq-output parser'] + self.trusted
        ev = {
            'property_id': self.pid, 'tier': self.tier, 'seed': self.seed, 'level': 'proof',
            'coverage': dict({
                'obligations': self.obligations, 'discharged': self.discharged,
                'checker_cmd': self.checker_cmd, 'trusted_base': tb,
                'theorems': self.theorems, 'assumptions_per_theorem': self.assumptions,
                'evaluations': self.evaluations, 'distinct_nontrivial': len(self.nontrivial),
                'rule': self.rule, 'samples': self.samples or [{'note': 'no generated cases in this run'}],
                'traces_validated_against_impl': self.traces,
                'input_distribution': self.hist,
                'correspondence_disagreements': len(self.mismatches),
                'failing_inputs': len(self.fails), 'known_findings_seen': sorted(seen_known),
                'broken_obligations': [n for n, _ in self.broken],
            }, **self.extra),
            'assumptions': self.assume,
            'wall_s': round(time.time() - self.t0, 2),
            'violations': nviol,
        }
        evpath = os.path.join(VERIF, 'replays', self.pid + '_replay_evidence.json') if getattr(self, 'is_replay', False) else os.path.join(VERIF, 'evidence', self.pid + '.json')
        json.dump(ev, open(evpath, 'w'), indent=1)
        self.say('%s %s: obligations %d/%d, cases %d (nontrivial %d), disagreements %d, failing inputs %d, violations %d, %.1fs'
                 % (self.pid, self.tier, self.discharged, self.obligations, self.evaluations, len(self.nontrivial),
                    len(self.mismatches), len(self.fails), nviol, time.time() - self.t0))
        return 1 if nviol else 0


def exc_kind(e):
    for k in (ValueError, TypeError, IndexError, KeyError, AttributeError, ZeroDivisionError, UnboundLocalError, NameError):
        if type(e) is k:
            return k.__name__
    return type(e).__name__
