#!/bin/bash
# usage: r4run.sh C20 C18 ...   (imports round-4 outputs and runs them; one property after the other)
cd /verif
for P in "$@"; do
  off=9; [ "$P" = C16 ] && off=10
  n=$(ls /tmp/r4/$P/out/m*.diff 2>/dev/null | wc -l)
  if [ "$n" -lt 1 ]; then echo "$P: no diffs"; continue; fi
  SEEDED_ROUND=4 /venv/bin/python py/seeded.py import $P /tmp/r4/$P/out $off
  for k in $(seq 1 $n); do
    id=${P}_m$((off+k))
    /venv/bin/python py/seeded.py run $id 2>&1 | tail -1
  done
done
