import json,sys,ast,re
P=sys.argv[1]
props={}
for l in open('/verif/properties.jsonl'):
    p=json.loads(l); props[p['id']]=p
cov=json.load(open('/verif/build/cov/%s.json'%P))
anch=props[P]['anchors']
files=anch['files']
# functions named in anchors
names=set()
for sect in ('mechanism','state','api'):
    for a in anch.get(sect,[]) or []:
        w=a.get('where','')
        for m in re.finditer(r'([A-Za-z_][A-Za-z_0-9\.]*)\s*\(', w): names.add(m.group(1).split('.')[-1])
        for m in re.finditer(r'[:\s]([A-Za-z_][A-Za-z_0-9\.]*)', w): names.add(m.group(1).split('.')[-1])
for f in files:
    key='/repo/'+f
    c=cov['files'].get(key)
    if not c: print(f,'NOT EXECUTED'); continue
    src=open(key).read(); tree=ast.parse(src)
    miss=set(c['missing_lines']); mb=c.get('missing_branches',[])
    for node in ast.walk(tree):
        if isinstance(node,(ast.FunctionDef,)):
            lo,hi=node.lineno,node.end_lineno
            # skip docstring lines
            body_lines=[l for l in range(lo,hi+1)]
            m=sorted(l for l in miss if lo<=l<=hi)
            b=[x for x in mb if lo<=x[0]<=hi]
            execd=[l for l in c['executed_lines'] if node.body[0].lineno<=l<=hi]
            anchored=node.name in names
            if not execd and not anchored: continue
            tag='*' if node.name in names else ' '
            if m or b:
                print('%s %s:%s [%d-%d] missing lines %s  missing branches %s'%(tag,f.split('/')[-1],node.name,lo,hi,m[:25],[tuple(x) for x in b[:12]]))
