#!/bin/bash
# usage: final_quick.sh C09 C10 ... : quick check on the unchanged tree, one after the other; log per property
cd /verif
for P in "$@"; do
  ./check $P --tier quick > build/final_$P.log 2>&1
  echo "$P exit $? : $(tail -1 build/final_$P.log | cut -c1-160)"
done
