import re,sys,os,shutil
# usage: integrate.py <wipdir> <Dir> <PropsFile> file1 file2 ... ; harness copied separately
W,D,PF=sys.argv[1:4]; files=sys.argv[4:]
def fix(s):
    def f(m):
        return 'From SV Require Import '+' '.join((n if n.startswith('gen.') else D+'.'+n) for n in m.group(1).split())+'.'
    return re.sub(r'From WIP Require Import ([A-Za-z_0-9\. ]+)\.', f, s)
for f in files:
    s=fix(open('%s/%s.v'%(W,f)).read()); open('/verif/coq/%s/%s.v'%(D,f),'w').write(s)
s=fix(open(W+'/Props_additions.v').read())
p='/verif/coq/Props/%s.v'%PF; c=open(p).read()
tag='(* ==== integrated from %s ==== *)'%os.path.basename(W.rstrip('/'))
assert tag not in c
open(p,'w').write(c.rstrip('\n')+'\n\n'+tag+'\n'+s)
print('ok')
