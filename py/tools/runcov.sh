#!/bin/bash
# usage: runcov.sh C11  -> build/cov/C11.json (line/branch coverage of stockpyl during the quick check); evidence file saved and restored
P=$1
cd /verif
cp evidence/$P.json build/cov/$P.evidence.bak
export VERIF_REPO_SRC=/repo/src PYTHONPATH=/repo/src:/verif/py PYTHONHASHSEED=0 PYTHONWARNINGS=ignore PIP_NO_INDEX=1 STOCKPYL_VERIF=1 PYTHONDONTWRITEBYTECODE=1
export COVERAGE_FILE=/verif/build/cov/data_$P COVERAGE_RCFILE=/verif/build/cov/covrc
rm -f /verif/build/cov/data_$P*
/venv/bin/python -m coverage run --rcfile=/verif/build/cov/covrc /verif/py/main.py $P --tier quick > build/cov/$P.log 2>&1
cp build/cov/$P.evidence.bak evidence/$P.json
/venv/bin/python -m coverage combine --rcfile=/verif/build/cov/covrc >/dev/null 2>&1
/venv/bin/python -m coverage json --rcfile=/verif/build/cov/covrc -o /verif/build/cov/$P.json >/dev/null 2>&1
tail -1 build/cov/$P.log
