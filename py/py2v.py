"""py2v -- fail-closed translator from a small subset of Python (ast) to "generic-ops" Gallina.

    python py2v.py            regenerate coq/gen/Gen_<module>.v for every module in MODULES from the stockpyl
                              sources under vlib.REPO_SRC (env VERIF_REPO_SRC, default /repo/src); a file is
                              rewritten only if its content changed (so `make` stays a no-op)
    translate_all()           same, returns [(qualified function name, error message)] for every top-level
                              function that could NOT be translated; FUNCS holds the signature info of the others
                              (LOOPY_FUNCS of those translated in the fuelled convention, see `while` below)

Every translated function  f(a, b=None, c=0, d=False)  becomes

    Definition f (O : Ops) (a : T O) (b : option (T O)) (c : T O) (d : bool) : option <result> := ...

over the operations record of coq/Base/Ops.v.  `None` = the Python function raises ValueError (its guards);
`Some r` = it returns r.  The same term is used at ROps (theorems) and at FOps (vm_compute, bit-exact tie).

Supported subset (anything else is an error for that function -- no definition is emitted, so every theorem
that mentions it stops compiling):
  * parameters: positional-or-keyword; default None -> option (T O); default True/False -> bool; numeric default
    or no default -> T O (defaults are used when another translated function calls it with fewer arguments);
  * statements: docstring, pass, `if c: raise ValueError(..)` (guard), if/elif/else, assignment to a name or a
    tuple of names (a name repeated in the tuple, as in `Q, _, _ = f()`, keeps its LAST value, as in Python),
    augmented assignment, `f = lambda x: <expr>`, return of an expression or tuple.
    Control flow is translated in continuation-passing style (the rest of the function is duplicated into both
    branches), so every path is straight-line code and the definite-assignment check is exact: using a name on a
    path on which it has not been assigned is an error.  for, try, assert, with, break, ... are errors.
  * `while c: body` (body: assignments / if / ValueError guards / calls of loop-free translated functions; no return, break,
    continue, nested loop, lambda, `else`; the condition calls no translated function) -- FUELLED convention: a function that
    contains such a loop, or calls a function that does, gets an extra argument (fuel : nat) after O and returns
    option (option r):  None = a loop ran out of fuel (not a Python outcome), Some None = ValueError, Some (Some r) = returns r.
    Each loop becomes a top-level  Fixpoint <function>__loop<k> (O) (names read in the loop) (n__ : nat) (loop-carried names)
    : option (option (tuple of the carried names)), recursive on n__, which tests the condition first (so fuel 0 suffices when
    the loop does not run) and returns the carried values when the condition is first false; the carried names are the names
    assigned in the body that exist before the loop (others are local to one pass and unassigned afterwards).  Every loop of a
    function and of its callees receives the same `fuel`.  A function is translated in this convention only when the plain one
    meets a loop; if the fuelled translation fails too, the reported error is the plain one (`unsupported statement While`)
    and the reason is kept in LOOP_ERRORS (printed by main).
  * `x is None` / `x is not None` on an optional parameter: the statement containing the test is translated
    under `match x with None => .. | Some x => .. end`, in each branch the test is a constant and boolean
    expressions are constant-folded with Python's short-circuit rules; using an optional parameter as a number
    where it is not known to be `Some` is an error.
  * expressions: names, int literals (ofZ), decimal literals (exact rational, ofQ; integral ones ofZ),
    + - * /, unary -, `e ** 2` (as e*e, see note), `e ** k` for a literal k >= 3 (field powi) and `e ** f` (field pow_),
    comparisons (chains too), and/or/not on booleans,
    `a if c else b`, max/min of two numbers (Python's tie rule), abs (as `-x if x < 0 else x + 0`, which is float abs
    bit for bit: -0.0 + 0 = +0.0, nan + 0 = nan), tuples,
    library calls of LIB (math/numpy sqrt -> sqrt; exp, log, norm.cdf/pdf/ppf, poisson.pmf/cdf/ppf, is_integer,
    golden_section_search, gamma.pdf/cdf/mean(.., scale=b), nbinom.pmf/cdf -> oracle fields of Ops), and calls of other translated stockpyl functions
    (propagating ValueError).  Names are resolved through the module's real import statements (star imports
    are expanded by importing the library), so a shadowed name resolves to what Python would call.
  * SPECIALIZE: a function can additionally be translated with a boolean parameter fixed to a constant
    (`eoq_with_disruptions[approximate=True]` -> Definition eoq_with_disruptions__approximate_True without that
    parameter): only the statements reachable under that value are translated, so a closed-form branch can be tied
    to the source even when the other branch (loops, search) is outside the subset.
Not modelled (stated in the claim): exceptions other than the ValueError guards (math.sqrt of a negative number,
float division by zero), `e ** 2` computed by libm pow (the harness skips the ~0.1% inputs on which libm's pow is
not correctly rounded), ints are read as floats.
"""
import ast, importlib, os, sys, json
from fractions import Fraction

sys.path.insert(0, os.path.dirname(os.path.abspath(__file__)))
if not os.path.exists(os.path.join(os.path.dirname(os.path.abspath(__file__)), 'vlib.py')):
    sys.path.insert(0, '/verif/py')          # work-in-progress copy outside /verif/py
import vlib

MODULES = ['loss_functions', 'optimization', 'eoq', 'newsvendor', 'supply_uncertainty', 'rq', 'ss']
_HERE = os.path.dirname(os.path.abspath(__file__))
WIP = os.path.basename(_HERE) != 'py'                      # True while this file lives in build/wip/<name>/
GEN = os.path.join(_HERE, 'gen') if WIP else os.path.join(vlib.COQ, 'gen')

# functions that are known to be in the supported subset: `python py2v.py` exits 1 if one of them fails
EXPECTED = [
    'eoq.economic_order_quantity', 'eoq.economic_order_quantity_with_backorders', 'eoq.economic_production_quantity',
    'loss_functions.standard_normal_loss', 'loss_functions.normal_loss', 'loss_functions.poisson_loss',
    'loss_functions.standard_normal_second_loss', 'loss_functions.normal_second_loss', 'loss_functions.lognormal_loss',
    'loss_functions.exponential_loss', 'loss_functions.exponential_second_loss', 'loss_functions.gamma_loss', 'loss_functions.gamma_second_loss',
    'loss_functions.uniform_loss', 'loss_functions.uniform_second_loss', 'loss_functions.poisson_second_loss',
    'loss_functions.geometric_loss', 'loss_functions.geometric_second_loss',
    'loss_functions.negative_binomial_loss', 'loss_functions.negative_binomial_second_loss',
    'newsvendor.newsvendor_normal', 'newsvendor.newsvendor_normal_cost', 'newsvendor.newsvendor_poisson',
    'newsvendor.newsvendor_poisson_cost', 'newsvendor.myopic', 'newsvendor.myopic_cost',
    'newsvendor.newsvendor_normal_explicit', 'newsvendor.newsvendor_poisson_explicit',
    'supply_uncertainty.eoq_with_disruptions[approximate=True]', 'supply_uncertainty.eoq_with_disruptions_cost',
    'supply_uncertainty.eoq_with_additive_yield_uncertainty', 'supply_uncertainty.eoq_with_multiplicative_yield_uncertainty',
    'rq.r_q_eoqss_approximation', 'ss.s_s_power_approximation',
]
# functions with while loops that must translate (fuelled convention; they are listed in LOOPY_FUNCS, not in FUNCS, so that
# consumers of FUNCS written for the plain convention -- c10.py / c10_tie.coq_call -- never see a definition with a fuel argument)
EXPECTED_LOOPY = ['rq.r_q_optimal_r_for_q', 'rq.r_q_eoqb_approximation']

OPS_FIELDS = ['T', 'add', 'sub', 'mul', 'div', 'neg', 'sqrt', 'ofZ', 'ofQ', 'ltb', 'leb', 'eqb', 'is_int', 'exp_', 'log_',
              'norm_cdf', 'norm_pdf', 'norm_ppf', 'poisson_pmf', 'poisson_cdf', 'poisson_ppf', 'gss', 'pow_', 'powi', 'lib']
RESERVED = set(OPS_FIELDS) | set('''O Ops ROps FOps R Q Z N nat bool option list Some None true false fst snd pair
as at cofix else end exists exists2 fix for forall fun if IF in let match mod Prop return Set then Type using where with
Definition Lemma Theorem Proof Qed Section End Variable Hypothesis Import Export Require From andb orb negb
Oracles Rltb Rleb Reqb fuel S I tt nil cons'''.split())

# canonical library name -> (ops field, arity)
LIB1 = {'math.sqrt': 'sqrt', 'numpy.sqrt': 'sqrt', 'math.exp': 'exp_', 'numpy.exp': 'exp_',
        'math.log': 'log_', 'numpy.log': 'log_'}
NORM = {'scipy.stats.norm.cdf': 'norm_cdf', 'scipy.stats.norm.pdf': 'norm_pdf', 'scipy.stats.norm.ppf': 'norm_ppf'}
POIS = {'scipy.stats.poisson.pmf': 'poisson_pmf', 'scipy.stats.poisson.cdf': 'poisson_cdf', 'scipy.stats.poisson.ppf': 'poisson_ppf'}
# library functions addressed by number (Ops field `lib`): canonical name -> (id, number of positional args, required keyword)
LIBN = {'scipy.stats.gamma.pdf': (100, 2, 'scale'), 'scipy.stats.gamma.cdf': (101, 2, 'scale'), 'scipy.stats.gamma.mean': (102, 1, 'scale'),
        'scipy.stats.nbinom.pmf': (103, 3, None), 'scipy.stats.nbinom.cdf': (104, 3, None)}
MAXPATHS = 256
# extra translations with a boolean parameter fixed: {qualified function: [{param: value}, ...]}
SPECIALIZE = {'supply_uncertainty.eoq_with_disruptions': [{'approximate': True}]}


def spec_key(q, static):
    return q if not static else q + '[' + ','.join('%s=%s' % kv for kv in sorted(static.items())) + ']'


def spec_name(f, static):
    return f if not static else f + '__' + '_'.join('%s_%s' % kv for kv in sorted(static.items()))


class TErr(Exception):
    pass


class NeedLoopy(Exception):
    """raised while translating a function in the plain (loop-free) result convention when a `while` statement or a
    call of a function that contains loops is met; the function is then re-translated in the fuelled convention"""
    def __init__(self, err):
        self.err = err            # the TErr the plain translator reports for this function (kept if the retry fails)


class _LoopBack(ast.stmt):
    """synthetic last statement of a loop body: the recursive call of the loop function"""
    _fields = ()


NUM, BOOL = 'num', 'bool'


def ty_str(t):
    if t == NUM: return 'T O'
    if t == BOOL: return 'bool'
    if isinstance(t, tuple) and t[0] == 'tuple':
        return '(' + ' * '.join(ty_str(x) for x in t[1]) + ')'
    raise TErr('no Gallina type for %r' % (t,))


class Var:
    """kind: 'val' (coq name holds a value of type ty) | 'opt' (coq name holds an option (T O), status unknown)
             | 'none' (statically None)"""
    def __init__(self, kind, ty, coq, const=None):
        self.kind, self.ty, self.coq, self.const = kind, ty, coq, const


class E:
    """translated expression: Gallina term, type, statically known boolean value (or None)"""
    def __init__(self, term, ty, const=None):
        self.term, self.ty, self.const = term, ty, const


# ------------------------------------------------------------------------------------------------
# module namespaces (what does a global name refer to?)

class Module:
    def __init__(self, name, trans):
        self.name = name
        self.path = os.path.join(vlib.REPO_SRC, 'stockpyl', name + '.py')
        self.src = open(self.path).read()
        import warnings
        with warnings.catch_warnings():
            warnings.simplefilter('ignore')
            self.tree = ast.parse(self.src)
        self.funcs = {}
        self.order = []
        self.ns = {}
        for st in self.tree.body:
            if isinstance(st, ast.Import):
                for a in st.names:
                    if a.asname: self.ns[a.asname] = a.name
                    else: self.ns[a.name.split('.')[0]] = a.name.split('.')[0]
            elif isinstance(st, ast.ImportFrom):
                if st.level: continue
                for a in st.names:
                    if a.name == '*':
                        self.ns.update(trans.star(st.module))
                    else:
                        self.ns[a.asname or a.name] = st.module + '.' + a.name
            elif isinstance(st, ast.FunctionDef):
                self.funcs[st.name] = st; self.order.append(st.name)
                self.ns[st.name] = 'stockpyl.%s.%s' % (name, st.name)
            elif isinstance(st, ast.ClassDef):
                self.ns[st.name] = 'stockpyl.%s.%s' % (name, st.name)
            elif isinstance(st, ast.Assign):
                for t in st.targets:
                    if isinstance(t, ast.Name): self.ns[t.id] = 'stockpyl.%s.%s' % (name, t.id)


class Translator:
    def __init__(self):
        self.mods = {}
        self.done = {}        # qualified name -> info dict | TErr
        self.active = []
        self.text = {}        # qualified name -> Gallina definition text
        self.loop_errors = {} # qualified name -> reason the fuelled (while-loop) translation failed
        self._star = {}

    def module(self, name):
        if name not in self.mods:
            p = os.path.join(vlib.REPO_SRC, 'stockpyl', name + '.py')
            if not os.path.exists(p):
                raise TErr('no such stockpyl module %s' % name)
            self.mods[name] = None          # cycle guard
            self.mods[name] = Module(name, self)
        if self.mods[name] is None:
            raise TErr('circular star import through stockpyl.%s' % name)
        return self.mods[name]

    def star(self, modname):
        """names bound by `from modname import *`"""
        if modname in self._star:
            return self._star[modname]
        out = {}
        if modname.startswith('stockpyl.'):
            try:
                m = self.module(modname.split('.', 1)[1])
                out = {k: v for k, v in m.ns.items() if not k.startswith('_')}
            except TErr:
                out = {}
        else:
            try:
                lib = importlib.import_module(modname)
                names = getattr(lib, '__all__', None) or [n for n in dir(lib) if not n.startswith('_')]
                out = {n: modname + '.' + n for n in names}
            except Exception:
                out = {}
        self._star[modname] = out
        return out

    # ---------------------------------------------------------------------------------------------
    def function(self, mod, fname, static=None):
        q = spec_key(mod + '.' + fname, static)
        if q in self.done:
            r = self.done[q]
            if isinstance(r, TErr): raise TErr('callee %s is not translatable: %s' % (q, r))
            return r
        if q in self.active:
            raise TErr('recursive call cycle through %s' % q)
        self.active.append(q)
        try:
            try:
                info = FuncTr(self, self.module(mod), fname, static).run()
            except NeedLoopy as nl:
                try:
                    info = FuncTr(self, self.module(mod), fname, static, loopy=True).run()
                except TErr as e2:
                    self.loop_errors[q] = str(e2)       # why the fuelled translation failed (printed by main)
                    raise nl.err
            self.done[q] = info
            return info
        except TErr as e:
            self.done[q] = e
            raise
        except RecursionError:
            e = TErr('expression too deep'); self.done[q] = e; raise e
        finally:
            self.active.pop()


class FuncTr:
    def __init__(self, tr, mod, fname, static=None, loopy=False):
        self.tr, self.mod, self.fname = tr, mod, fname
        self.loopy = loopy            # fuelled convention: option (option r); None = out of fuel, Some None = ValueError
        self.VERR = 'Some None' if loopy else 'None'
        self.in_loop = None           # inside a loop body: (loop function call prefix, carried names, their types)
        self.loops = []               # Gallina text of the loop Fixpoints of this function (emitted before it)
        self.static = dict(static or {})
        self.coqname = spec_name(fname, self.static)
        self.node = mod.funcs[fname]
        self.paths = 0
        self.tmp = 0
        self.ret_ty = None
        self.oracles = set()
        self.calls = set()
        self.binds = None
        self.globals_used = set(tr.done) | set()

    def err(self, node, msg):
        raise TErr('%s.py:%d: %s' % (self.mod.name, getattr(node, 'lineno', self.node.lineno), msg))

    def mangle(self, name):
        if name.startswith('_'): name = 'us' + name
        if name in RESERVED or any(name == f for m in self.tr.mods.values() if m for f in m.funcs):
            name = name + '_'
        if not name.isidentifier() or not name.isascii(): raise TErr('bad identifier %r' % name)
        return name

    def fresh(self, base):
        self.tmp += 1
        return '%s__%d' % (base, self.tmp)

    # ---- signature
    def run(self):
        a = self.node.args
        if a.vararg or a.kwarg or a.kwonlyargs or a.posonlyargs:
            self.err(self.node, 'unsupported parameter kinds (*args/**kwargs/keyword-only)')
        if self.node.decorator_list:
            self.err(self.node, 'decorators are not supported')
        params = []
        nd = len(a.defaults); n = len(a.args)
        env = {}
        for i, arg in enumerate(a.args):
            d = a.defaults[i - (n - nd)] if i >= n - nd else None
            name = arg.arg; cn = self.mangle(name)
            if d is None:
                p = dict(name=name, kind='num', default=None)
                env[name] = Var('val', NUM, cn)
            elif isinstance(d, ast.Constant) and d.value is None:
                p = dict(name=name, kind='opt', default='None')
                env[name] = Var('opt', NUM, cn)
            elif isinstance(d, ast.Constant) and isinstance(d.value, bool):
                p = dict(name=name, kind='bool', default='true' if d.value else 'false')
                env[name] = Var('val', BOOL, cn)
                if name in self.static:
                    if not isinstance(self.static[name], bool): self.err(self.node, 'only boolean parameters can be fixed')
                    env[name] = Var('val', BOOL, 'true' if self.static[name] else 'false', const=self.static[name])
                    continue
            else:
                e = self.const_num(d)
                if e is None: self.err(d, 'unsupported default value for parameter %s' % name)
                p = dict(name=name, kind='num', default=e)
                env[name] = Var('val', NUM, cn)
            p['coq'] = cn
            params.append(p)
        for k in self.static:
            if k not in env or env[k].const is None: self.err(self.node, 'cannot fix parameter %s (not a boolean parameter with a default)' % k)
        body = self.stmts(list(self.node.body), env, 1)
        if self.ret_ty is None:
            self.err(self.node, 'no return statement reached')
        sig = ' '.join('(%s : %s)' % (p['coq'], {'num': 'T O', 'opt': 'option (T O)', 'bool': 'bool'}[p['kind']]) for p in params)
        rty = ty_str(self.ret_ty)
        if not rty.startswith('('): rty = '(' + rty + ')'
        if self.loopy:
            text = ''.join(self.loops)
            text += '(* %s.py:%d -- contains loops: None = out of fuel, Some None = ValueError, Some (Some r) = returns r *)\n' % (self.mod.name, self.node.lineno)
            text += 'Definition %s (O : Ops) (fuel : nat) %s : option (option %s) :=\n%s.\n' % (self.coqname, sig, rty, body)
        else:
            text = '(* %s.py:%d *)\nDefinition %s (O : Ops) %s : option %s :=\n%s.\n' % (
                self.mod.name, self.node.lineno, self.coqname, sig, rty, body)
        if self.static: text = '(* specialised to %s *)\n' % ', '.join('%s=%s' % kv for kv in sorted(self.static.items())) + text
        q = spec_key(self.mod.name + '.' + self.fname, self.static)
        self.tr.text[q] = text
        return dict(module=self.mod.name, name=self.fname, coqname=self.coqname, static=self.static, params=params, ret=self.ret_ty,
                    oracles=sorted(self.oracles), calls=sorted(self.calls), lineno=self.node.lineno, paths=self.paths,
                    loopy=self.loopy, loops=len(self.loops))

    def const_num(self, d):
        """Gallina term of a numeric literal (possibly negated), else None"""
        if isinstance(d, ast.UnaryOp) and isinstance(d.op, ast.USub):
            t = self.const_num(d.operand)
            return None if t is None else '(neg O %s)' % t
        if isinstance(d, ast.Constant) and isinstance(d.value, (int, float)) and not isinstance(d.value, bool):
            return self.literal(d)
        return None

    def literal(self, node):
        v = node.value
        if isinstance(v, int):
            fr = Fraction(v)
        else:
            seg = ast.get_source_segment(self.mod.src, node)
            try:
                fr = Fraction(seg.replace('_', ''))
            except Exception:
                self.err(node, 'cannot read numeric literal %r exactly' % seg)
            if float(fr) != v: self.err(node, 'literal %r does not round to its float value' % seg)
        if abs(fr.numerator) >= 2 ** 53 or fr.denominator >= 2 ** 53:
            self.err(node, 'literal %s is not a quotient of two integers < 2^53 (not exactly translatable)' % fr)
        if fr.denominator == 1:
            return '(ofZ O %d)' % fr.numerator if fr >= 0 else '(ofZ O (%d))' % fr.numerator
        return '(ofQ O (%d # %d))' % (fr.numerator, fr.denominator)

    # ---- statements (continuation-passing: `stmts` is everything that remains to be executed on this path)
    def leaf(self):
        self.paths += 1
        if self.paths > MAXPATHS: raise TErr('%s: more than %d control-flow paths' % (self.fname, MAXPATHS))

    def none_tests(self, node, env):
        """optional variables of unknown status tested against None somewhere in `node`"""
        out = []
        for n in ast.walk(node):
            if isinstance(n, ast.Compare) and len(n.ops) == 1 and isinstance(n.ops[0], (ast.Is, ast.IsNot)) \
                    and isinstance(n.comparators[0], ast.Constant) and n.comparators[0].value is None and isinstance(n.left, ast.Name):
                v = env.get(n.left.id)
                if v is not None and v.kind == 'opt' and n.left.id not in out: out.append(n.left.id)
        return out

    def split(self, name, stmts, env, ind):
        v = env[name]; pad = '  ' * ind
        e1 = dict(env); e1[name] = Var('none', None, v.coq)
        cn = self.mangle(name)
        e2 = dict(env); e2[name] = Var('val', NUM, cn)
        a = self.stmts(stmts, e1, ind + 1)
        b = self.stmts(stmts, e2, ind + 1)
        return '%smatch %s with\n%s| None =>\n%s\n%s| Some %s =>\n%s\n%send' % (pad, v.coq, pad, a, pad, cn, b, pad)

    def wrap_binds(self, binds, inner, ind):
        """propagate ValueError of the calls hoisted out of an expression"""
        pad = '  ' * ind
        for (pat, call) in reversed(binds):
            if isinstance(pat, tuple):      # callee in the fuelled convention (only met when self.loopy)
                inner = '%smatch %s with None => None | Some None => Some None | Some (Some %s) =>\n%s\n%send' % (pad, call, pat[0], inner, pad)
            else:
                inner = '%smatch %s with None => %s | Some %s =>\n%s\n%send' % (pad, call, self.VERR, pat, inner, pad)
        return inner

    def with_binds(self, f):
        old = self.binds; self.binds = []
        try:
            r = f()
            return r, self.binds
        finally:
            self.binds = old

    def stmts(self, stmts, env, ind):
        pad = '  ' * ind
        if not stmts:
            raise TErr('%s: a path reaches the end of the function without `return`' % self.fname)
        s, rest = stmts[0], stmts[1:]
        if isinstance(s, ast.Pass) or (isinstance(s, ast.Expr) and isinstance(s.value, ast.Constant) and isinstance(s.value.value, str)):
            return self.stmts(rest, env, ind)
        if isinstance(s, ast.If):
            nt = self.none_tests(s.test, env)
            if nt:
                return self.split(nt[0], stmts, env, ind)
            c, binds = self.with_binds(lambda: self.expr(s.test, env))
            if c.ty != BOOL: self.err(s, 'condition of `if` is not a boolean expression')
            if binds: self.err(s, 'call of a translated function inside an `if` condition')
            is_guard = (len(s.body) == 1 and isinstance(s.body[0], ast.Raise) and not s.orelse)
            if is_guard:
                self.check_raise(s.body[0])
                if c.const is True:
                    self.leaf(); return pad + self.VERR
                if c.const is False:
                    return self.stmts(rest, env, ind)
                return '%sif %s then %s else\n%s' % (pad, c.term, self.VERR, self.stmts(rest, env, ind))
            if c.const is True:
                return self.stmts(list(s.body) + rest, env, ind)
            if c.const is False:
                return self.stmts(list(s.orelse) + rest, env, ind)
            a = self.stmts(list(s.body) + rest, env, ind + 1)
            b = self.stmts(list(s.orelse) + rest, env, ind + 1)
            return '%sif %s then\n%s\n%selse\n%s' % (pad, c.term, a, pad, b)
        if isinstance(s, ast.Raise):
            self.check_raise(s)
            self.leaf(); return pad + self.VERR
        if isinstance(s, _LoopBack):
            return self.loop_back(s, rest, env, ind)
        nt = self.none_tests(s, env)
        if nt:
            return self.split(nt[0], stmts, env, ind)
        if isinstance(s, ast.Return):
            if s.value is None: self.err(s, 'bare return')
            if self.in_loop is not None: self.err(s, '`return` inside a while loop')
            e, binds = self.with_binds(lambda: self.expr(s.value, env, allow_tuple=True))
            if self.ret_ty is None: self.ret_ty = e.ty
            elif self.ret_ty != e.ty: self.err(s, 'return types differ between paths: %r vs %r' % (self.ret_ty, e.ty))
            ty_str(e.ty)
            self.leaf()
            return self.wrap_binds(binds, ('%sSome (Some %s)' if self.loopy else '%sSome %s') % (pad, e.term), ind)
        if isinstance(s, ast.AugAssign):
            if not isinstance(s.target, ast.Name): self.err(s, 'augmented assignment to a non-name')
            s2 = ast.Assign(targets=[ast.Name(id=s.target.id, ctx=ast.Store())],
                            value=ast.BinOp(left=ast.Name(id=s.target.id, ctx=ast.Load()), op=s.op, right=s.value))
            ast.copy_location(s2, s); ast.fix_missing_locations(s2)
            return self.stmts([s2] + rest, env, ind)
        if isinstance(s, ast.Assign):
            if len(s.targets) != 1: self.err(s, 'chained assignment')
            tg = s.targets[0]
            if isinstance(s.value, ast.Lambda):
                if not isinstance(tg, ast.Name): self.err(s, 'lambda assigned to a non-name')
                if self.loopy: self.err(s, 'lambda in a function that contains loops')
                lam = s.value; la = lam.args
                if len(la.args) != 1 or la.defaults or la.vararg or la.kwarg or la.kwonlyargs:
                    self.err(s, 'only one-argument lambdas are supported')
                an = la.args[0].arg; acn = self.mangle(an)
                e2 = dict(env); e2[an] = Var('val', NUM, acn)
                save = self.ret_ty; self.ret_ty = None
                ret = ast.Return(value=lam.body); ast.copy_location(ret, lam)
                body = self.stmts([ret], e2, ind + 2)
                lty = self.ret_ty; self.ret_ty = save
                cn = self.mangle(tg.id)
                env2 = dict(env); env2[tg.id] = Var('val', ('fun', lty), cn)
                return '%slet %s := fun (%s : T O) =>\n%s in\n%s' % (pad, cn, acn, body, self.stmts(rest, env2, ind))
            e, binds = self.with_binds(lambda: self.expr(s.value, env, allow_tuple=True))
            env2 = dict(env)
            if isinstance(tg, ast.Name):
                if isinstance(e.ty, tuple) and e.ty[0] == 'tuple': self.err(s, 'tuple assigned to a single name')
                cn = self.mangle(tg.id)
                env2[tg.id] = Var('val', e.ty, cn)
                line = '%slet %s := %s in\n' % (pad, cn, e.term)
            elif isinstance(tg, ast.Tuple) and all(isinstance(x, ast.Name) for x in tg.elts):
                if not (isinstance(e.ty, tuple) and e.ty[0] == 'tuple' and len(e.ty[1]) == len(tg.elts)):
                    self.err(s, 'tuple assignment with a right-hand side of type %r' % (e.ty,))
                cns = []
                ids = [x.id for x in tg.elts]
                for i, (x, t) in enumerate(zip(tg.elts, e.ty[1])):
                    if x.id in ids[i + 1:]:               # `Q, _, _ = ...`: Python binds left to right, the last one wins
                        cns.append(self.fresh('ign')); continue
                    cn = self.mangle(x.id); cns.append(cn)
                    env2[x.id] = Var('val', t, cn)
                if len(set(cns)) != len(cns): self.err(s, 'repeated name in tuple assignment')
                line = "%slet '(%s) := %s in\n" % (pad, ', '.join(cns), e.term)
            else:
                self.err(s, 'assignment target is not a name or a tuple of names')
            return self.wrap_binds(binds, line + self.stmts(rest, env2, ind), ind)
        if isinstance(s, ast.While):
            if not self.loopy:
                raise NeedLoopy(TErr('%s.py:%d: unsupported statement While' % (self.mod.name, s.lineno)))
            return self.while_loop(s, rest, env, ind)
        self.err(s, 'unsupported statement %s' % type(s).__name__)

    # ---- while loops (fuelled convention only)
    def while_loop(self, s, rest, env, ind):
        """`while c: body` (body: assignments / if / ValueError guards; no return, break, continue, nested loop, else)
        becomes a top-level Fixpoint over the tuple of loop-carried variables (the names assigned in the body that are
        defined before the loop), structurally recursive on a fuel counter; the names read in the loop are extra
        parameters.  Result: None = out of fuel, Some None = ValueError raised in the loop, Some (Some state) = the
        values of the carried variables when the condition is first false."""
        pad = '  ' * ind
        if s.orelse: self.err(s, 'while ... else')
        if self.in_loop is not None: self.err(s, 'nested while loop')
        for n in ast.walk(s):
            if isinstance(n, (ast.Break, ast.Continue, ast.Return, ast.For, ast.Try, ast.With, ast.Lambda, ast.FunctionDef, ast.NamedExpr)) \
                    or (isinstance(n, ast.While) and n is not s):
                self.err(n, '%s inside a while loop' % type(n).__name__)
        assigned = []
        for st in s.body:
            for n in ast.walk(st):
                tgs = []
                if isinstance(n, ast.Assign): tgs = n.targets
                elif isinstance(n, ast.AugAssign): tgs = [n.target]
                for t in tgs:
                    for x in (t.elts if isinstance(t, ast.Tuple) else [t]):
                        if not isinstance(x, ast.Name): self.err(n, 'assignment target is not a name or a tuple of names')
                        if x.id not in assigned: assigned.append(x.id)
        carried = [v for v in assigned if v in env]        # the others are local to one pass (unassigned after the loop)
        if not carried: self.err(s, 'while loop whose body assigns no variable that exists before the loop')
        for v in carried:
            if env[v].kind != 'val' or env[v].ty not in (NUM, BOOL) or env[v].const is not None:
                self.err(s, 'loop-carried variable %s is not a plain number/boolean' % v)
        read = []
        for n in ast.walk(s):
            if isinstance(n, ast.Name) and n.id in env and n.id not in carried and n.id not in read: read.append(n.id)
        free = []
        for v in read:
            x = env[v]
            if x.kind == 'val' and x.ty in (NUM, BOOL) and x.const is None: free.append(v)
            elif x.kind == 'val' and x.const is not None: pass          # statically known boolean: inlined
            else: self.err(s, 'variable %s (optional / function value) is used inside a while loop' % v)
        lname = '%s__loop%d' % (self.coqname, len(self.loops) + 1)
        tyof = lambda v: 'T O' if env[v].ty == NUM else 'bool'
        envL = {v: env[v] for v in read}
        for v in carried: envL[v] = Var('val', env[v].ty, self.mangle(v))
        cns = [envL[v].coq for v in free + carried]
        if len(set(cns)) != len(cns) or 'n__' in cns: self.err(s, 'name clash among the variables of a while loop')
        prefix = '%s O %s' % (lname, ' '.join(envL[v].coq for v in free))
        state_ty = ' * '.join(tyof(v) for v in carried)
        c, binds = self.with_binds(lambda: self.expr(s.test, envL))
        if c.ty != BOOL: self.err(s, 'condition of `while` is not a boolean expression')
        if binds: self.err(s, 'call of a translated function inside a `while` condition')
        if c.const is not None: self.err(s, 'while loop with a constant condition')
        save = (self.in_loop, self.ret_ty)
        self.in_loop = (prefix.rstrip(), carried, [env[v].ty for v in carried])
        back = _LoopBack(); ast.copy_location(back, s)
        body = self.stmts(list(s.body) + [back], envL, 3)
        self.in_loop, self.ret_ty = save
        exit_state = '(' + ', '.join(envL[v].coq for v in carried) + ')' if len(carried) > 1 else envL[carried[0]].coq
        self.leaf()
        text = '(* %s.py:%d: the while loop; state = (%s) *)\n' % (self.mod.name, s.lineno, ', '.join(carried))
        text += 'Fixpoint %s (O : Ops) %s (n__ : nat) %s {struct n__} : option (option (%s)) :=\n' % (
            lname, ' '.join('(%s : %s)' % (envL[v].coq, tyof(v)) for v in free),
            ' '.join('(%s : %s)' % (envL[v].coq, tyof(v)) for v in carried), state_ty)
        text += '  if %s then\n    match n__ with\n    | O => None\n    | S n__ =>\n%s\n    end\n  else Some (Some %s).\n\n' % (c.term, body, exit_state)
        self.loops.append(text)
        env2 = dict(env)
        for v in carried: env2[v] = Var('val', env[v].ty, self.mangle(v))
        pat = '(' + ', '.join(env2[v].coq for v in carried) + ')' if len(carried) > 1 else env2[carried[0]].coq
        call = '(%s fuel %s)' % (prefix.rstrip(), ' '.join(env[v].coq for v in carried))
        return '%smatch %s with None => None | Some None => Some None | Some (Some %s) =>\n%s\n%send' % (
            pad, call, pat, self.stmts(rest, env2, ind), pad)

    def loop_back(self, s, rest, env, ind):
        pad = '  ' * ind
        if rest or self.in_loop is None: self.err(s, 'internal: misplaced loop-back')
        prefix, carried, tys = self.in_loop
        args = []
        for v, t in zip(carried, tys):
            x = env.get(v)
            if x is None or x.kind != 'val' or x.ty != t: self.err(s, 'loop-carried variable %s changes its type inside the loop' % v)
            args.append(x.coq)
        self.leaf()
        return '%s%s n__ %s' % (pad, prefix, ' '.join(args))

    def check_raise(self, r):
        ex = r.exc
        if isinstance(ex, ast.Call): ex = ex.func
        if not (isinstance(ex, ast.Name) and ex.id == 'ValueError' and 'ValueError' not in self.mod.ns):
            self.err(r, 'only `raise ValueError(...)` is supported')

    # ---- expressions
    def dotted(self, node):
        parts = []
        while isinstance(node, ast.Attribute):
            parts.append(node.attr); node = node.value
        if isinstance(node, ast.Name):
            parts.append(node.id); return list(reversed(parts))
        return None

    def resolve(self, node, env):
        """canonical dotted name of a called function, or None"""
        d = self.dotted(node)
        if d is None: return None
        if d[0] in env: return None            # a local variable shadows the global
        if d[0] in self.mod.ns:
            return '.'.join([self.mod.ns[d[0]]] + d[1:])
        if len(d) == 1 and d[0] in ('max', 'min', 'abs'):
            return 'builtins.' + d[0]
        return None

    def num(self, node, env):
        e = self.expr(node, env)
        if e.ty != NUM: self.err(node, 'a number is required here, got %r' % (e.ty,))
        return e

    def atomic(self, term):
        return term.isidentifier() or (term.startswith('(ofZ O ') and term.count('(') <= 2)

    def expr(self, node, env, allow_tuple=False):
        if isinstance(node, ast.Tuple):
            if not allow_tuple: self.err(node, 'tuple in an expression')
            es = [self.expr(x, env) for x in node.elts]
            if len(es) < 2: self.err(node, 'tuple of fewer than two elements')
            for x in es: ty_str(x.ty)
            return E('(' + ', '.join(x.term for x in es) + ')', ('tuple', tuple(x.ty for x in es)))
        if isinstance(node, ast.Constant):
            if isinstance(node.value, bool):
                return E('true' if node.value else 'false', BOOL, node.value)
            if isinstance(node.value, (int, float)):
                return E(self.literal(node), NUM)
            self.err(node, 'unsupported constant %r' % (node.value,))
        if isinstance(node, ast.Name):
            v = env.get(node.id)
            if v is None:
                if node.id in self.mod.ns or node.id in dir(__builtins__):
                    self.err(node, 'global name %s used as a value' % node.id)
                self.err(node, 'variable %s is used on a path where it is unassigned' % node.id)
            if v.kind == 'opt': self.err(node, 'optional parameter %s used as a value where it may be None' % node.id)
            if v.kind == 'none': self.err(node, 'parameter %s is None on this path but is used as a value' % node.id)
            if isinstance(v.ty, tuple) and v.ty[0] == 'fun': self.err(node, 'function value %s used as data' % node.id)
            return E(v.coq, v.ty, v.const)
        if isinstance(node, ast.UnaryOp):
            if isinstance(node.op, ast.Not):
                e = self.expr(node.operand, env)
                if e.ty != BOOL: self.err(node, '`not` applied to a non-boolean')
                if e.const is not None: return E('false' if e.const else 'true', BOOL, not e.const)
                return E('(negb %s)' % e.term, BOOL)
            e = self.num(node.operand, env)
            if isinstance(node.op, ast.USub): return E('(neg O %s)' % e.term, NUM)
            if isinstance(node.op, ast.UAdd): return e
            self.err(node, 'unsupported unary operator')
        if isinstance(node, ast.BinOp):
            if isinstance(node.op, ast.Pow):
                r = node.right
                a = self.num(node.left, env)
                if isinstance(r, ast.Constant) and isinstance(r.value, int) and not isinstance(r.value, bool):
                    if r.value == 2:
                        if self.atomic(a.term): return E('(mul O %s %s)' % (a.term, a.term), NUM)
                        t = self.fresh('sq')
                        return E('(let %s := %s in mul O %s %s)' % (t, a.term, t, t), NUM)
                    if r.value >= 3:
                        self.oracles.add('powi')
                        return E('(powi O %s %d)' % (a.term, r.value), NUM)
                    self.err(node, '`**` with the literal exponent %r' % r.value)
                b = self.num(r, env)
                self.oracles.add('pow_')
                return E('(pow_ O %s %s)' % (a.term, b.term), NUM)
            op = {ast.Add: 'add', ast.Sub: 'sub', ast.Mult: 'mul', ast.Div: 'div'}.get(type(node.op))
            if op is None: self.err(node, 'unsupported binary operator %s' % type(node.op).__name__)
            a = self.num(node.left, env); b = self.num(node.right, env)
            return E('(%s O %s %s)' % (op, a.term, b.term), NUM)
        if isinstance(node, ast.BoolOp):
            is_and = isinstance(node.op, ast.And)
            terms = []
            for v in node.values:
                nb = len(self.binds) if self.binds is not None else 0
                e = self.expr(v, env)
                if e.ty != BOOL: self.err(v, 'operand of and/or is not a boolean (Python would return the operand itself)')
                if terms and self.binds is not None and len(self.binds) != nb:
                    self.err(v, 'call of a translated function in a short-circuited operand')
                if e.const is not None:
                    if e.const == is_and: continue           # neutral element
                    if not terms: return E('false' if is_and else 'true', BOOL, not is_and)
                    terms.append(e.term); break                # absorbing element: the rest is never evaluated
                terms.append(e.term)
            if not terms: return E('true' if is_and else 'false', BOOL, is_and)
            t = terms[-1]
            for x in reversed(terms[:-1]):
                t = '(%s %s %s)' % ('andb' if is_and else 'orb', x, t)
            return E(t, BOOL)
        if isinstance(node, ast.Compare):
            if len(node.ops) == 1 and isinstance(node.ops[0], (ast.Is, ast.IsNot)):
                c = node.comparators[0]
                if not (isinstance(c, ast.Constant) and c.value is None and isinstance(node.left, ast.Name)):
                    self.err(node, '`is` is supported only as `<name> is [not] None`')
                v = env.get(node.left.id)
                if v is None: self.err(node, 'variable %s is used on a path where it is unassigned' % node.left.id)
                if v.kind == 'opt': self.err(node, 'internal: None-test on %s was not split' % node.left.id)
                r = (v.kind == 'none')
                if isinstance(node.ops[0], ast.IsNot): r = not r
                return E('true' if r else 'false', BOOL, r)
            lefts = [node.left] + node.comparators[:-1]
            es = [self.num(x, env) for x in [node.left] + node.comparators]
            if len(es) > 2:
                for x in es[1:-1]:
                    if not self.atomic(x.term): self.err(node, 'chained comparison with a compound middle operand')
            parts = []
            for i, op in enumerate(node.ops):
                a, b = es[i].term, es[i + 1].term
                if isinstance(op, ast.Lt): t = '(ltb O %s %s)' % (a, b)
                elif isinstance(op, ast.LtE): t = '(leb O %s %s)' % (a, b)
                elif isinstance(op, ast.Gt): t = '(ltb O %s %s)' % (b, a)
                elif isinstance(op, ast.GtE): t = '(leb O %s %s)' % (b, a)
                elif isinstance(op, ast.Eq): t = '(eqb O %s %s)' % (a, b)
                elif isinstance(op, ast.NotEq): t = '(negb (eqb O %s %s))' % (a, b)
                else: self.err(node, 'unsupported comparison %s' % type(op).__name__)
                parts.append(t)
            t = parts[-1]
            for x in reversed(parts[:-1]): t = '(andb %s %s)' % (x, t)
            return E(t, BOOL)
        if isinstance(node, ast.IfExp):
            c = self.expr(node.test, env)
            if c.ty != BOOL: self.err(node, 'condition of a conditional expression is not boolean')
            if c.const is True: return self.expr(node.body, env)
            if c.const is False: return self.expr(node.orelse, env)
            nb = len(self.binds) if self.binds is not None else 0
            a = self.expr(node.body, env); b = self.expr(node.orelse, env)
            if self.binds is not None and len(self.binds) != nb: self.err(node, 'call of a translated function inside a conditional expression')
            if a.ty != b.ty: self.err(node, 'branches of a conditional expression have different types')
            return E('(if %s then %s else %s)' % (c.term, a.term, b.term), a.ty)
        if isinstance(node, ast.Call):
            return self.call(node, env)
        self.err(node, 'unsupported expression %s' % type(node).__name__)

    def call(self, node, env):
        name = self.resolve(node.func, env)
        if name is None:
            self.err(node, 'call of something that is not a known global function: %s' % ast.unparse(node.func))
        if any(isinstance(a, ast.Starred) for a in node.args) or any(k.arg is None for k in node.keywords):
            self.err(node, 'star arguments')
        nargs = len(node.args)
        if name in ('builtins.max', 'builtins.min'):
            if nargs != 2 or node.keywords: self.err(node, 'max/min are supported with exactly two numeric arguments')
            a = self.num(node.args[0], env); b = self.num(node.args[1], env)
            x, y = self.fresh('a'), self.fresh('b')
            # Python: max(a, b) = b if b > a else a ; min(a, b) = b if b < a else a
            test = '(ltb O %s %s)' % ((x, y) if name.endswith('max') else (y, x))
            return E('(let %s := %s in let %s := %s in if %s then %s else %s)' % (x, a.term, y, b.term, test, y, x), NUM)
        if name == 'builtins.abs':
            if nargs != 1 or node.keywords: self.err(node, 'abs needs one numeric argument')
            a = self.num(node.args[0], env); x = self.fresh('a')
            # float abs clears the sign bit: -x for x < 0; x + 0 otherwise (-0.0 + 0 = +0.0, nan + 0 = nan, x + 0 = x)
            return E('(let %s := %s in if (ltb O %s (ofZ O 0)) then (neg O %s) else (add O %s (ofZ O 0)))' % (x, a.term, x, x, x), NUM)
        if name in LIB1:
            f = LIB1[name]
            if node.keywords: self.err(node, 'keyword arguments in a library call')
            if f == 'log_' and name == 'math.log' and nargs == 2:
                a = self.num(node.args[0], env); b = self.num(node.args[1], env)     # CPython: log(x)/log(base)
                self.oracles.add('log_')
                return E('(div O (log_ O %s) (log_ O %s))' % (a.term, b.term), NUM)
            if nargs != 1: self.err(node, '%s with %d arguments' % (name, nargs))
            a = self.num(node.args[0], env)
            if f != 'sqrt': self.oracles.add(f)
            return E('(%s O %s)' % (f, a.term), NUM)
        if name in NORM:
            f = NORM[name]
            if node.keywords: self.err(node, 'keyword arguments in a library call')
            self.oracles.add(f)
            if nargs == 1:
                return E('(%s O %s)' % (f, self.num(node.args[0], env).term), NUM)
            if nargs == 3:
                x, loc, sc = [self.num(a, env).term for a in node.args]
                # scipy.stats location/scale family: cdf(x,loc,scale) = cdf((x-loc)/scale); pdf = pdf((x-loc)/scale)/scale;
                # ppf(q,loc,scale) = ppf(q)*scale + loc   (bit-exactness is re-validated by the harness on every run)
                if f == 'norm_ppf':
                    return E('(add O (mul O (norm_ppf O %s) %s) %s)' % (x, sc, loc), NUM)
                z = '(div O (sub O %s %s) %s)' % (x, loc, sc)
                if f == 'norm_cdf': return E('(norm_cdf O %s)' % z, NUM)
                s = self.fresh('sc')
                return E('(let %s := %s in div O (norm_pdf O (div O (sub O %s %s) %s)) %s)' % (s, sc, x, loc, s, s), NUM)
            self.err(node, '%s with %d arguments' % (name, nargs))
        if name in LIBN:
            lid, npos, kw = LIBN[name]
            if nargs != npos or [k.arg for k in node.keywords] != ([kw] if kw else []):
                self.err(node, '%s: expected %d positional argument(s)%s' % (name, npos, ' and keyword %s' % kw if kw else ''))
            ts = [self.num(a, env).term for a in node.args] + [self.num(k.value, env).term for k in node.keywords]
            self.oracles.add('lib%d' % lid)
            lst = 'nil'
            for t in reversed(ts): lst = '(cons %s %s)' % (t, lst)
            return E('(lib O %d %s)' % (lid, lst), NUM)
        if name in POIS:
            f = POIS[name]
            if node.keywords or nargs != 2: self.err(node, '%s needs exactly two positional arguments' % name)
            self.oracles.add(f)
            a = self.num(node.args[0], env); b = self.num(node.args[1], env)
            return E('(%s O %s %s)' % (f, a.term, b.term), NUM)
        if name == 'stockpyl.helpers.is_integer':
            if node.keywords or nargs != 1: self.err(node, 'is_integer needs one argument')
            return E('(is_int O %s)' % self.num(node.args[0], env).term, BOOL)
        if name == 'stockpyl.optimization.golden_section_search':
            for k in node.keywords:
                if not (k.arg == 'verbose' and isinstance(k.value, ast.Constant) and k.value.value is False):
                    self.err(node, 'golden_section_search: only verbose=False may be passed by keyword')
            if nargs != 3 or not isinstance(node.args[0], ast.Name): self.err(node, 'golden_section_search(f, a, b) with f a local lambda')
            fv = env.get(node.args[0].id)
            if fv is None or fv.ty != ('fun', NUM): self.err(node, 'golden_section_search: first argument is not a numeric lambda')
            a = self.num(node.args[1], env); b = self.num(node.args[2], env)
            if self.binds is None: self.err(node, 'call in an unsupported position')
            t = self.fresh('gss')
            self.oracles.add('gss')
            self.binds.append((t, '(gss O %s %s %s)' % (fv.coq, a.term, b.term)))
            return E(t, ('tuple', (NUM, NUM)))
        if name.startswith('stockpyl.'):
            parts = name.split('.')
            if len(parts) != 3: self.err(node, 'unsupported callee %s' % name)
            _, m, f = parts
            cm = self.tr.module(m)
            if f not in cm.funcs: self.err(node, '%s is not a top-level function' % name)
            try:
                info = self.tr.function(m, f)
            except TErr as e:
                self.err(node, str(e))
            if self.binds is None: self.err(node, 'call in an unsupported position')
            ps = info['params']
            given = {}
            if nargs > len(ps): self.err(node, 'too many arguments for %s' % name)
            for p, a in zip(ps, node.args): given[p['name']] = a
            for k in node.keywords:
                if k.arg in given or k.arg not in [p['name'] for p in ps]: self.err(node, 'bad keyword argument %s' % k.arg)
                given[k.arg] = k.value
            args = []
            for p in ps:
                a = given.get(p['name'])
                if a is None:
                    if p['default'] is None: self.err(node, 'missing argument %s of %s' % (p['name'], name))
                    args.append(p['default'])
                elif p['kind'] == 'opt':
                    if isinstance(a, ast.Constant) and a.value is None: args.append('None')
                    elif isinstance(a, ast.Name) and a.id in env and env[a.id].kind == 'opt': args.append(env[a.id].coq)
                    elif isinstance(a, ast.Name) and a.id in env and env[a.id].kind == 'none': args.append('None')
                    else: args.append('(Some %s)' % self.num(a, env).term)
                elif p['kind'] == 'bool':
                    e = self.expr(a, env)
                    if e.ty != BOOL: self.err(node, 'argument %s of %s must be a boolean' % (p['name'], name))
                    args.append(e.term)
                else:
                    args.append(self.num(a, env).term)
            self.oracles |= set(info['oracles']); self.calls.add(m + '.' + f)
            callee = f if m == self.mod.name else 'Gen_%s.%s' % (m, f)
            if info.get('loopy'):
                if not self.loopy:
                    raise NeedLoopy(TErr('%s.py:%d: callee %s contains loops' % (self.mod.name, node.lineno, name)))
                if self.in_loop is not None: self.err(node, 'call of a function that contains loops inside a while loop')
                t = self.fresh('r')
                self.binds.append(((t,), '(%s O fuel %s)' % (callee, ' '.join(args))))
                return E(t, info['ret'])
            t = self.fresh('r')
            self.binds.append((t, '(%s O %s)' % (callee, ' '.join(args))))
            return E(t, info['ret'])
        self.err(node, 'call of unsupported function %s' % name)


# ------------------------------------------------------------------------------------------------
FUNCS = {}           # translated functions in the plain convention (option r)
LOOPY_FUNCS = {}     # translated functions in the fuelled convention (fuel argument, option (option r))
ERRORS = []
LOOP_ERRORS = {}     # function -> why its while-loops could not be translated (the Gen file keeps the plain message)


def translate_all(write=True):
    """Translate every top-level function of MODULES.  Returns [(qualified name, error)] of the failures."""
    global FUNCS, ERRORS
    tr = Translator()
    errors = []
    funcs = {}
    per_mod = {}
    for m in MODULES:
        try:
            mod = tr.module(m)
        except (TErr, OSError, SyntaxError) as e:
            errors.append((m + '.*', 'cannot read module: %s' % e)); per_mod[m] = None; continue
        for f in mod.order:
            try:
                funcs[m + '.' + f] = tr.function(m, f)
            except TErr as e:
                errors.append((m + '.' + f, str(e)))
            for static in SPECIALIZE.get(m + '.' + f, []):
                try:
                    funcs[spec_key(m + '.' + f, static)] = tr.function(m, f, static)
                except TErr as e:
                    errors.append((spec_key(m + '.' + f, static), str(e)))
    # emit in dependency order inside each module
    for m in MODULES:
        mod = tr.mods.get(m)
        if mod is None: continue
        emitted = []; lines = []
        def emit(q):
            if q in emitted or q not in funcs: return
            for c in funcs[q]['calls']:
                if c.split('.')[0] == m: emit(c)
            emitted.append(q); lines.append(tr.text[q])
        for f in mod.order:
            emit(m + '.' + f)
            for static in SPECIALIZE.get(m + '.' + f, []): emit(spec_key(m + '.' + f, static))
        deps = sorted({c.split('.')[0] for q in emitted for c in funcs[q]['calls']} - {m})
        head = '(* GENERATED by py/py2v.py from stockpyl/%s.py -- do not edit; regenerated on every check run.\n' % m
        head += '   Each definition is the Python function of the same name over the operations record of Base/Ops.v;\n'
        head += '   None = the function raises ValueError, Some r = it returns r. *)\n'
        if any(funcs[q].get('loopy') for q in emitted):
            head += '(* Functions that contain while loops (or call such a function) take an extra argument (fuel : nat) and return\n'
            head += '   option (option r): None = a loop ran out of fuel (not a Python outcome), Some None = ValueError, Some (Some r) = returns r.\n'
            head += '   Each loop is a Fixpoint <function>__loop<k> over the tuple of loop-carried variables, recursive on the fuel. *)\n'
        head += 'From Coq Require Import ZArith QArith Bool.\nFrom SV Require Import Base.Ops.\n'
        for d in deps: head += 'From SV Require gen.Gen_%s.\n' % d
        body = '\n'.join(lines)
        skipped = ''.join('(* NOT TRANSLATED %s: %s *)\n' % (q, msg.replace('*)', '* )')) for q, msg in errors if q.split('.')[0] == m)
        text = head + '\n' + body + '\n' + skipped
        if write:
            os.makedirs(GEN, exist_ok=True)
            p = os.path.join(GEN, 'Gen_%s.v' % m)
            old = open(p).read() if os.path.exists(p) else None
            if old != text:
                with open(p, 'w') as fh: fh.write(text)
    global LOOPY_FUNCS
    FUNCS = {q: i for q, i in funcs.items() if not i.get('loopy')}
    LOOPY_FUNCS = {q: i for q, i in funcs.items() if i.get('loopy')}
    ERRORS = errors
    global LOOP_ERRORS
    LOOP_ERRORS = dict(tr.loop_errors)
    return errors


def main():
    errs = translate_all()
    print('py2v: %d functions translated from %s (%d of them with loops)' % (len(FUNCS) + len(LOOPY_FUNCS), os.path.join(vlib.REPO_SRC, 'stockpyl'), len(LOOPY_FUNCS)))
    for q in sorted(LOOPY_FUNCS): print('  ok   %-60s paths=%d oracles=%s loops=%d (fuelled)' % (q, LOOPY_FUNCS[q]['paths'], ','.join(LOOPY_FUNCS[q]['oracles']) or '-', LOOPY_FUNCS[q]['loops']))
    for q in sorted(FUNCS): print('  ok   %-60s paths=%d oracles=%s' % (q, FUNCS[q]['paths'], ','.join(FUNCS[q]['oracles']) or '-'))
    bad = 0
    for q, e in errs:
        exp = q in EXPECTED or q in EXPECTED_LOOPY
        bad += exp
        print('  %s %-60s %s' % ('FAIL' if exp else 'skip', q, e))
        if q in LOOP_ERRORS: print('       %-60s (loop translation tried: %s)' % ('', LOOP_ERRORS[q]))
    missing = [q for q in EXPECTED if q not in FUNCS and q not in [x for x, _ in errs]]
    missing += [q for q in EXPECTED_LOOPY if q not in LOOPY_FUNCS and q not in [x for x, _ in errs]]
    for q in missing: print('  FAIL %-60s function not found in the source' % q)
    return 1 if (bad or missing) else 0


if __name__ == '__main__':
    sys.exit(main())
