"""(Re)write coq/_CoqProject from the .v files present (order is irrelevant: coq_makefile runs coqdep)."""
import os, sys
COQ = '/verif/coq'
def main():
    files = []
    for root, dirs, fs in os.walk(COQ):
        dirs.sort()
        for f in sorted(fs):
            if f.endswith('.v') and not f.startswith('.'):
                files.append(os.path.relpath(os.path.join(root, f), COQ))
    text = '-Q . SV\n-arg -w -arg -notation-overridden,-deprecated-hint-without-locality,-deprecated-instance-without-locality,-ambiguous-paths\n' + '\n'.join(sorted(files)) + '\n'
    p = os.path.join(COQ, '_CoqProject')
    old = open(p).read() if os.path.exists(p) else ''
    if old != text:
        open(p, 'w').write(text)
        return True
    return False
if __name__ == '__main__':
    print('changed' if main() else 'unchanged')
