"""Stage 2 of the simulator correspondence: multi-product networks with bills of materials.
Evaluates the Gallina model Model2.v / Obs2.v on a case and returns its records in the SAME general record form that
simmon.g_multi / simmon.g_single produce from the implementation (so the monitors of simmon and a generic comparison apply).

    impl = simmon.run_multi(case); spec = simmon.spec_multi(case, impl); GI, _ = simmon.g_multi(impl['net'], T, spec)
    st = struct2(impl['net'], spec)                      # configuration READ from the implementation (orders of products,
                                                         # raw materials, suppliers, customers; network-BOM numbers)
    M = run_model2([(spec, st)])[0]                      # dict(G=records, total=Fraction, ips=..., visit=[...])
    diffs = compare2(GI, impl['total'], M)               # [(period, node, field, implementation, model)]
    near = near_ties(spec, M)                            # positions within 1e-7 of a reorder point / base-stock level
"""
import os, re, time
from fractions import Fraction
from vlib import *
from vlib import _parse, _run
import simmon

# ---- where the Coq files live: (physical directory, logical root, module prefix). Final location: ('/verif/coq', 'SV', 'Sim2.')
SIM2_LOC = ('/verif/coq', 'SV', 'Sim2.')

XBASE = 10 ** 6          # raw-material id of the external-supplier dummy product of node n: XBASE + n
Z = Fraction(0)
PROD_FIELDS = ['IL', 'OQFG', 'PFG', 'DMFS', 'DC', 'DMC', 'FR']
COST_FIELDS = ['HC', 'SC', 'ITHC', 'REV', 'TC']
CUST_FIELDS = ['IO', 'OS', 'BO', 'ODI']
SUPP_FIELDS = ['IS', 'IDI', 'OO', 'OQ']


# ------------------------------------------------------------------------------------------------
# Coq evaluation (vlib.coq_eval with the extra load path)

def _imports():
    d, root, pre = SIM2_LOC
    return 'From SV Require Import Sim.Model Sim.Obs.\nFrom %s Require Import %sModel2 %sObs2 %sWfb2 %sMain2b %sMain2c.\n' % (root, pre, pre, pre, pre, pre)


def _qflags():
    d, root, pre = SIM2_LOC
    fl = '-Q %s SV' % COQ
    if root != 'SV':
        fl += ' -Q %s %s' % (d, root)
    return fl


def ensure_compiled():
    """compile State2.v / Model2.v / Obs2.v in the work directory if the .vo files are missing or stale (work location only)"""
    d, root, pre = SIM2_LOC
    if root == 'SV':
        ok, log = coq_make(['Sim2/Obs2.vo', 'Sim2/Wfb2.vo', 'Sim2/Main2b.vo', 'Sim2/Main2c.vo'])
        if not ok: raise RuntimeError('make Sim2/Obs2.vo failed: ' + log[-1500:])
        return
    prev = None
    for f in ('State2', 'Model2', 'Obs2'):
        v = os.path.join(d, f + '.v'); vo = os.path.join(d, f + '.vo')
        if not os.path.exists(vo) or os.path.getmtime(vo) < os.path.getmtime(v) or (prev and os.path.getmtime(vo) < os.path.getmtime(prev)):
            rc, out, _ = _run(['bash', '-c', 'timeout 600 coqc %s %s.v' % (_qflags(), f)], cwd=d, timeout=700)
            if rc != 0:
                raise RuntimeError('coqc %s.v failed: %s' % (f, out[-2000:]))
        prev = vo


def coq_eval2(name, defs, exprs, timeout=1500):
    d = os.path.join(BUILD, 'eval'); os.makedirs(d, exist_ok=True)
    base = re.sub(r'[^A-Za-z0-9_]', '_', '%s_%d_%d' % (name, os.getpid(), int(time.time() * 1000) % 100000000))
    path = os.path.join(d, base + '.v')
    with open(path, 'w') as f:
        f.write(_imports())
        f.write('Set Printing Width 100000000.\nSet Printing Depth 100000000.\nOpen Scope Q_scope.\nOpen Scope Z_scope.\n')
        f.write(defs + '\n')
        for e in exprs:
            f.write('Eval vm_compute in (%s).\n' % e)
    rc, out, el = _run(['bash', '-c', 'ulimit -s unlimited 2>/dev/null; exec timeout %d coqc %s %s' % (timeout, _qflags(), path)],
                       cwd=d, timeout=timeout + 30)
    for ext in ('.vo', '.glob', '.vok', '.vos', '.aux'):
        for pth in (os.path.join(d, base + ext), os.path.join(d, '.' + base + ext)):
            try: os.remove(pth)
            except OSError: pass
    if rc != 0:
        keep = os.path.join(d, 'FAILED_' + base + '.v')
        try: os.replace(path, keep)
        except OSError: pass
        raise RuntimeError('coq_eval2 %s failed (rc %d): %s' % (name, rc, out[-2000:]))
    os.remove(path)
    vals = []
    for chunk in re.split(r'(?m)^\s*= ', out)[1:]:
        body = re.split(r'(?m)^\s*: ', chunk)[0]
        vals.append(_parse(body))
    if len(vals) != len(exprs):
        raise RuntimeError('coq_eval2 %s: expected %d results, got %d: %s' % (name, len(exprs), len(vals), out[-1500:]))
    return vals, el


def coq_eval2_sharded(name, defs, exprs, shard=8, jobs=14, timeout=1500, tolerate=False):
    """tolerate: a shard that fails (timeout) yields None for each of its expressions instead of raising"""
    from concurrent.futures import ThreadPoolExecutor
    shards = [exprs[i:i + shard] for i in range(0, len(exprs), shard)]
    if not shards:
        return [], 0.0
    def one(i, sh):
        try:
            return coq_eval2('%s_s%d' % (name, i), defs, sh, timeout)
        except RuntimeError:
            if not tolerate: raise
            return [None] * len(sh), float(timeout)
    with ThreadPoolExecutor(max_workers=jobs) as ex:
        futs = [ex.submit(one, i, sh) for i, sh in enumerate(shards)]
        out = []; cpu = 0.0; times = []
        for fu, sh in zip(futs, shards):
            v, el = fu.result(); out.extend(v); cpu += el; times += [el / len(sh)] * len(sh)
    coq_eval2_sharded.times = times
    return out, cpu


coq_eval2_sharded.times = []


# ------------------------------------------------------------------------------------------------
# structure read from the implementation

def struct2(net, spec):
    """what the model takes from the implementation as configuration (in addition to spec): for every node the order of its
    raw materials (per product and overall), the network-BOM numbers NBOM(k, None, r), the products using a raw material.
    Returns (struct, problems): problems lists every place where the implementation's tables differ from spec (the structure
    simmon.spec_multi derives from the generated case)."""
    st = {}; problems = []
    for n in net.nodes:
        i = n.index; s = spec['nodes'][i]
        xk = n._external_supplier_dummy_product.index
        key = lambda r: 'x' if r == xk else r
        ks = list(n.product_indices)
        rm_all = [key(r) for r in n.raw_materials_by_product('all', return_indices=True, network_BOM=True)]
        bom = {}
        for k in ks:
            rows = []
            for r in n.raw_materials_by_product(k, return_indices=True, network_BOM=True):
                rows.append((key(r), F(n.NBOM(product=k, predecessor=None, raw_material=r))))
            bom[k] = rows
        sup = {key(r): list(n.raw_material_suppliers_by_raw_material(r, return_indices=True, network_BOM=True))
               for r in n.raw_materials_by_product('all', return_indices=True, network_BOM=True)}
        custs = {k: list(n.customers_by_product(k, return_indices=True, network_BOM=True)) for k in ks}
        pfr = {key(r): list(n.products_by_raw_material(r, return_indices=True))
               for r in n.raw_materials_by_product('all', return_indices=True, network_BOM=True)}
        st[i] = dict(products=ks, rm_all=rm_all, bom=bom, sup=sup, custs=custs)
        # consistency with spec
        if ks != list(s['products']): problems.append((i, 'products', ks, s['products']))
        for k in ks:
            if dict(bom[k]) != {r: F(v) for r, v in s['bom'][k].items()}: problems.append((i, 'bom[%s]' % k, bom[k], s['bom'][k]))
            if custs[k] != list(s['custs'][k]): problems.append((i, 'custs[%s]' % k, custs[k], s['custs'][k]))
        if {r: ps for r, ps in sup.items()} != {r: list(ps) for r, ps in s['sup'].items()}: problems.append((i, 'sup', sup, s['sup']))
        if sorted(map(str, rm_all)) != sorted(map(str, s['sup'])): problems.append((i, 'rm_all', rm_all, list(s['sup'])))
        for r in rm_all:
            want = [k for k in ks if r in dict(bom[k])]
            if pfr[r] != want: problems.append((i, 'products_by_raw_material[%s]' % r, pfr[r], want))
            # NBOM of a product that does not use r must be 0 (the model's default)
            rr = xk if r == 'x' else r
            for k in ks:
                if r not in dict(bom[k]) and F(n.NBOM(product=k, predecessor=None, raw_material=rr)) != 0:
                    problems.append((i, 'NBOM[%s][%s] nonzero for unused raw material' % (k, r), n.NBOM(product=k, predecessor=None, raw_material=rr), 0))
    return st, problems


def struct_from_spec(spec):
    """default structure when only spec is available (single-product cases): orders as listed in spec"""
    st = {}
    for i, s in spec['nodes'].items():
        st[i] = dict(products=list(s['products']), rm_all=list(s['sup']), bom={k: [(r, F(v)) for r, v in s['bom'][k].items()] for k in s['products']},
                     sup={r: list(ps) for r, ps in s['sup'].items()}, custs={k: list(s['custs'][k]) for k in s['products']})
    return st


# ------------------------------------------------------------------------------------------------
# Gallina term of a case

def cN(i):
    return '%d%%N' % i


def cnb(x):
    return 'Ext' if x is None else '(Nd %s)' % cN(x)


def rid(n, r):
    return XBASE + n if r == 'x' else r


def coq_policy(p):
    if p[0] == 'BS': return '(BS %s)' % cq(p[1])
    if p[0] == 'sS': return '(SS %s %s)' % (cq(p[1]), cq(p[2]))
    if p[0] == 'rQ': return '(RQ %s %s)' % (cq(p[1]), cq(p[2]))
    if p[0] == 'FQ': return '(FQ %s)' % cq(p[1])
    raise ValueError('policy %r is not modelled in Stage 2' % (p,))


CLIP_BITS = 128


def coq_case2(spec, st=None, err=None, clip=None, what='run'):
    """Gallina term: obs_run2 net inputs.  spec = simmon.spec_multi / spec_single form; st = struct2(...)[0];
    err = {(period, node, product): rational} = the model's position-error input (default: none, the exact model);
    clip = None (exact) | b: stored values with more than b denominator bits are rounded to the grid 2^-b at period boundaries
    (default: CLIP_BITS whenever err is given)"""
    err = err or {}
    if clip is None and err: clip = CLIP_BITS
    if st is None: st = struct_from_spec(spec)
    T = spec['T']; order = list(spec['order'])
    cfgs = []
    for i in order:
        s = spec['nodes'][i]; u = st[i]
        pcs = []
        for k in u['products']:
            pcs.append('(%s, {| k_pol := %s; k_cap := %s; k_init_il := %s; k_hc := %s; k_pc := %s; k_ith := %s; k_rev := %s; k_bom := %s; k_custs := %s |})' % (
                cN(k), coq_policy(s['pol'][k]), copt(s['cap'][k] if s['cap'][k] else None), copt(s['init_il'][k]), cq(s['h'][k]), cq(s['p'][k]),
                copt(s['ith'][k]), cq(s['rev'][k]), clist(['(%s, %s)' % (cN(rid(i, r)), cq(v)) for r, v in u['bom'][k]]),
                clist([cnb(c) for c in u['custs'][k]])))
        rcs = []
        for r in u['rm_all']:
            real = [p for p in u['sup'][r] if p is not None]
            if real:
                p0 = real[0]
                assert s['rmh_sup'][r] == p0 or s['rmh_sup'][r] is None, (i, r, s['rmh_sup'][r], p0)
                price = '(Some (%s, %s))' % (cN(p0), cq(s['rmh'][r]))
            else:
                price = 'None'
            rcs.append('(%s, {| m_sups := %s; m_price := %s |})' % (cN(rid(i, r)), clist([cnb(p) for p in u['sup'][r]]), price))
        cfgs.append('(%s, {| n_prods := %s; n_pc := tbl dflt_pcfg %s; n_rms := %s; n_rc := tbl dflt_rcfg %s; n_preds := %s; n_succs := %s; '
                    'n_slt := %s; n_olt := %s; n_dtype := %s; n_init_orders := %s; n_init_ships := %s |})' % (
                        cN(i), clist([cN(k) for k in u['products']]), clist(pcs), clist([cN(rid(i, r)) for r in u['rm_all']]), clist(rcs),
                        clist([cN(x) for x in s['preds']]), clist([cN(x) for x in s['succs']]), cnat(s['slt']), cnat(s['olt']),
                        ('(Some d%s)' % s['dtype']) if s['dtype'] else 'None', cq(s['init_orders']), cq(s['init_ships'])))
    net = '{| nodes2 := %s; cfg2 := tbl dflt_ncfg2 %s |}' % (clist([cN(i) for i in order]), clist(cfgs))
    if what == 'good':      # the decidable hypotheses of the Stage-2 theorems (Sim2/Wfb2.v)
        return 'let NWx := %s in [good2b NWx; cons2b NWx; goodB2b NWx; onceB2b NWx; supC2b NWx; priceC2b NWx; ratesC2b NWx]' % net
    inputs = []
    for t in range(T):
        dis = clist(['(%s, %s)' % (cN(i), cbool(spec['nodes'][i]['dis'][t])) for i in order if spec['nodes'][i]['dtype']])
        dem = clist(['(%s, %s)' % (cN(i), clist(['(%s, %s)' % (cN(k), cq(d[t])) for k, d in spec['nodes'][i]['demand'].items() if d is not None]))
                     for i in order if any(d is not None for d in spec['nodes'][i]['demand'].values())])
        et = {}
        for (tt, i, k), v in err.items():
            if tt == t: et.setdefault(i, []).append('(%s, %s)' % (cN(k), cq(v)))
        er = clist(['(%s, %s)' % (cN(i), clist(v)) for i, v in et.items()])
        inputs.append('{| i_dis := tbl false %s; i_dem := tbl2 0%%Q %s; i_err := tbl2 0%%Q %s |}' % (dis, dem, er))
    return 'obs_run2 %s %s %s' % (('(Some %d%%positive)' % clip) if clip else 'None', net, clist(inputs))


def unrow(row):
    """[numerators, denominators or []] -> [Fraction]"""
    nums, dens = row
    return [Fraction(a) for a in nums] if not dens else [Fraction(a, b) for a, b in zip(nums, dens)]


def parse_model2(val, spec, st=None):
    """-> dict(G=[{node: general record}], total, ips=[{node: [positions in product order] | None (orders paused)}], visit)"""
    if st is None: st = struct_from_spec(spec)
    recs_raw, ips_raw, visit, total = val
    order = list(spec['order'])
    G = []
    for t, per in enumerate(recs_raw):
        GR = {}
        for i, rows in zip(order, per):
            u = st[i]
            g = dict(prod={}, cust={}, supp={}, RM={}, DIS=bool(spec['nodes'][i]['dis'][t]))
            it = iter(rows)
            g.update(zip(COST_FIELDS, unrow(next(it))))
            for k in u['products']:
                g['prod'][k] = dict(zip(PROD_FIELDS, unrow(next(it))))
            for k in u['products']:
                for c in u['custs'][k]:
                    v = unrow(next(it))
                    g['cust'][(c, k)] = dict(zip(CUST_FIELDS, v[:4])); g['cust'][(c, k)]['OP'] = v[4:]
            for r in u['rm_all']:
                g['RM'][r] = unrow(next(it))[0]
                for p in u['sup'][r]:
                    v = unrow(next(it))
                    g['supp'][(p, r)] = dict(zip(SUPP_FIELDS, v[:4])); g['supp'][(p, r)]['SP'] = v[4:]
            assert next(it, None) is None
            GR[i] = g
        G.append(GR)
    ips = []
    for per in ips_raw:
        d = {}
        assert len(per) == len(visit)
        for i, row in zip(visit, per):
            vals = unrow(row)
            d[i] = vals if len(vals) == len(st[i]['products']) else None
        ips.append(d)
    return dict(G=G, total=unrow(total)[0], ips=ips, visit=list(visit))


def run_model2(specs_structs, name='sim2', shard=8, jobs=14, timeout=1500, tolerate=False):
    """[(spec, struct or None[, err[, clip]])] -> [parsed model run (None if tolerate and the evaluation failed / timed out)];
    also sets run_model2.cpu = summed wall time of the coqc shards"""
    ensure_compiled()
    items = [(x[0], x[1], (x[2] if len(x) > 2 else None)) for x in specs_structs]
    exprs = [coq_case2(sp, st, er, clip=(x[3] if len(x) > 3 else None)) for (sp, st, er), x in zip(items, specs_structs)]
    vals, cpu = coq_eval2_sharded(name, '', exprs, shard=shard, jobs=jobs, timeout=timeout, tolerate=tolerate)
    run_model2.cpu = cpu; run_model2.times = list(coq_eval2_sharded.times)
    return [(None if v is None else parse_model2(v, sp, st)) for v, (sp, st, er) in zip(vals, items)]


run_model2.cpu = 0.0; run_model2.times = []


def eval_good2(specs_structs, name='good2'):
    """[(spec, struct)] -> [(good2b, cons2b, goodB2b, onceB2b, supC2b, priceC2b, ratesC2b)]: the boolean well-formedness checks under which the Stage-2 theorems hold"""
    ensure_compiled()
    exprs = [coq_case2(sp, st, what='good') for sp, st in specs_structs]
    vals, _ = coq_eval2_sharded(name, '', exprs, shard=40, jobs=14, timeout=600)
    return [tuple(bool(x) for x in v) for v in vals]


# ------------------------------------------------------------------------------------------------
# comparison

def compare2(GI, total_impl, M, tol=1e-9):
    """every field of every period: list of (period, node, field, implementation value, model value) not close(tol)"""
    diffs = []
    GM = M['G']
    def chk(t, i, name, a, b):
        if not close(a, b, rel=tol, abs_=tol): diffs.append((t, i, name, a, b))
    if len(GI) != len(GM): diffs.append((-1, None, 'number of periods', len(GI), len(GM)))
    for t, (RI, RM) in enumerate(zip(GI, GM)):
        for i in RI:
            a, b = RI[i], RM[i]
            for f in COST_FIELDS: chk(t, i, f, a[f], b[f])
            if set(a['prod']) != set(b['prod']) or set(a['cust']) != set(b['cust']) or set(a['supp']) != set(b['supp']) or set(a['RM']) != set(b['RM']):
                diffs.append((t, i, 'keys', sorted(map(str, a['cust'])) + sorted(map(str, a['supp'])), sorted(map(str, b['cust'])) + sorted(map(str, b['supp'])))); continue
            for k in a['prod']:
                for f in PROD_FIELDS: chk(t, i, '%s[%s]' % (f, k), a['prod'][k][f], b['prod'][k][f])
            for ck in a['cust']:
                for f in CUST_FIELDS: chk(t, i, '%s[%s,%s]' % (f, ck[0], ck[1]), a['cust'][ck][f], b['cust'][ck][f])
                pa, pb = a['cust'][ck]['OP'], b['cust'][ck]['OP']
                if len(pa) != len(pb): diffs.append((t, i, 'len OP[%s,%s]' % ck, len(pa), len(pb)))
                else:
                    for j, (x, y) in enumerate(zip(pa, pb)): chk(t, i, 'OP[%s,%s][%d]' % (ck[0], ck[1], j), x, y)
            for pk in a['supp']:
                for f in SUPP_FIELDS: chk(t, i, '%s[%s,%s]' % (f, pk[0], pk[1]), a['supp'][pk][f], b['supp'][pk][f])
                pa, pb = a['supp'][pk]['SP'], b['supp'][pk]['SP']
                if len(pa) != len(pb): diffs.append((t, i, 'len SP[%s,%s]' % pk, len(pa), len(pb)))
                else:
                    for j, (x, y) in enumerate(zip(pa, pb)): chk(t, i, 'SP[%s,%s][%d]' % (pk[0], pk[1], j), x, y)
            for r in a['RM']: chk(t, i, 'RM[%s]' % r, a['RM'][r], b['RM'][r])
    if total_impl is not None:
        if not close(total_impl, M['total'], rel=tol, abs_=max(tol, 1e-12 * 1)): diffs.append((-1, None, 'TOTAL', total_impl, M['total']))
    return diffs


def flip_fixes(spec, GI, M, diffs, tol=1e-9, delta=Fraction(1, 10 ** 12)):
    """position errors {(period, node, product): rational} that make the model take the branch the implementation took, at the
    decisions up to the first differing period where the model's position is within 1e-7 of the threshold:
    (s,S)/(r,Q): the implementation's finished-goods order is the rule's other branch -> error = (threshold - position) +- delta;
    base stock: both orders are below tol but differ (one is 0, or they differ relatively) -> error such that the model orders
    exactly what the implementation ordered."""
    t0 = min((d[0] for d in diffs if d[0] >= 0), default=len(GI) - 1)
    fixes = {}
    for t, per in enumerate(M['ips']):
        if t > t0: break
        for i, vals in per.items():
            if vals is None: continue
            s = spec['nodes'][i]
            for k, ip in zip(list(M['G'][t][i]['prod']), vals):
                pol = s['pol'][k]
                if pol[0] == 'FQ': continue
                thr = Fraction(pol[1])
                if abs(ip - thr) > Fraction(1, 10 ** 7) * max(1, abs(thr)): continue
                gi = GI[t][i]['prod'][k]['OQFG']; gm = M['G'][t][i]['prod'][k]['OQFG']
                cap = s['cap'][k]
                if pol[0] == 'BS':
                    # both orders are below tol (so the records agree) but one is 0 and the other is not, or they differ relatively:
                    # the proportional raw-material shares L periods later depend on the ratios of such orders
                    if gi != gm and max(gi, gm) < tol and abs(gi - gm) > Fraction(1, 10 ** 9) * max(gi, gm):
                        fixes[(t, i, k)] = thr - ip - gi          # rule: max(0, level - (ip + err)) = gi
                else:
                    if pol[0] == 'sS' and gi != gm and max(gi, gm) < tol and abs(gi - gm) > Fraction(1, 10 ** 9) * max(gi, gm) and Fraction(pol[2]) - gi <= thr:
                        # (s,S) with the position exactly on s and S - position ~ 0 (e.g. s = S): as for base stock, the implementation orders ~1e-16 where the
                        # model orders 0 (or vice versa); the records agree but the `units_ordered == 0` test of the production step L periods later does not
                        fixes[(t, i, k)] = Fraction(pol[2]) - ip - gi; continue
                    if close(gi, gm, rel=tol, abs_=tol): continue
                    full = Fraction(pol[2]) - ip if pol[0] == 'sS' else Fraction(pol[2])
                    if cap is not None: full = min(full, cap)
                    if gm != 0 and close(gi, 0, rel=tol, abs_=tol): fixes[(t, i, k)] = thr - ip + delta       # implementation saw a position above the reorder point
                    elif gm == 0 and close(gi, full, rel=tol, abs_=tol): fixes[(t, i, k)] = thr - ip - delta
    return fixes


def near_ties(spec, M, eps=1e-7):
    """discrete decisions of the ordering rules that a rounding error of the implementation's binary64 arithmetic can flip:
    positions the MODEL observed (exact) that lie within eps of the reorder point ((s,S), (r,Q)) or of the base-stock level
    (BS: an order of ~1e-16 instead of 0 flips the `units_ordered == 0` / `total_demand > 0` tests downstream).
    -> (strict, exact): lists of (period, node, product, policy, position); strict: 0 < distance <= eps; exact: distance 0"""
    strict = []; exact = []
    for t, per in enumerate(M['ips']):
        for i, vals in per.items():
            if vals is None: continue
            s = spec['nodes'][i]
            ks = list(M['G'][t][i]['prod'])
            for k, ip in zip(ks, vals):
                pol = s['pol'][k]
                if pol[0] == 'FQ': continue
                thr = Fraction(pol[1])
                d = abs(ip - thr)
                if d == 0: exact.append((t, i, k, pol, ip))
                elif d <= eps * max(1, abs(thr)): strict.append((t, i, k, pol, ip))
    return strict, exact


def inexact(M):
    """first period in which the model's records contain a value that is not a binary64 number (from then on the
    implementation's arithmetic is rounded), or None"""
    def dy(x):
        d = x.denominator
        return d & (d - 1) == 0
    for t, R in enumerate(M['G']):
        for g in R.values():
            vals = [g[f] for f in COST_FIELDS] + list(g['RM'].values())
            for v in g['prod'].values(): vals += [v[f] for f in PROD_FIELDS if f != 'FR']
            for v in g['cust'].values(): vals += [v[f] for f in CUST_FIELDS] + v['OP']
            for v in g['supp'].values(): vals += [v[f] for f in SUPP_FIELDS] + v['SP']
            if not all(dy(x) for x in vals): return t
    return None
