"""Writes /verif/MANIFEST.json from the table below and validates it against the schema."""
import json, sys
ALL = ['C%02d' % i for i in range(1, 21)]
import glob, os
CLAIMED = {}
READY = open('/verif/py/props/READY').read().split()     # properties whose check has been validated on the unchanged tree
for f in sorted(glob.glob('/verif/py/props/c*.claim.json')):
    if os.path.basename(f)[:3].upper() in READY:
        CLAIMED[os.path.basename(f)[:3].upper()] = json.load(open(f))
NA_REASON = 'not yet built: the Coq model and theorems for this property are not committed yet (DESIGN.md §10 build order); no check is claimed rather than claiming one that decides nothing'
def main():
    checks = []
    for pid in ALL:
        if pid in CLAIMED:
            c = CLAIMED[pid]
            checks.append({
              'property_id': pid,
              'quick_cmd': './check %s --tier quick' % pid,
              'thorough_cmd': './check %s --tier thorough' % pid,
              'evidence_file': '/verif/evidence/%s.json' % pid,
              'replay_cmd_template': './check %s --replay {path}' % pid,
              'engine': 'coq-proof+correspondence',
              'level_claimed': {'category': 'proof', 'text': c['text'], 'design_ref': c['design_ref']},
              'level_note': c['note'],
              'technique': c['technique']})
    m = {
      'version': 1,
      'setup_cmd': 'cd /verif && ./setup.sh',
      'hooks': {'guard': 'STOCKPYL_VERIF', 'enable': 'the checks export STOCKPYL_VERIF=1 (no hook inside /repo is needed: observations use public attributes and return values; the one exception lives in the harness, not in /repo: py/props/c04.py wraps the private function sim._receive_inbound_orders from outside to read the state handed to the ordering loop of multi-product nodes, and reports a broken correspondence if that function disappears)',
                'baseline_off_cmd': 'cd /repo && env -u STOCKPYL_VERIF /venv/bin/python -m pytest -ra -q -p no:cacheprovider --timeout=900 --continue-on-collection-errors',
                'source_commits': [], 'add_only': True},
      'engines': [{'name': 'coq-proof+correspondence', 'path': '/verif/check', 'serves_properties': sorted(CLAIMED),
                   'kind_free_text': 'Rocq/Coq 8.16 theorems about executable Gallina models (coq/), tied to /repo by a translator (py/py2v.py, regenerated every run) and/or differential correspondence (vm_compute of the model vs the implementation on generated inputs), with Python property oracles used only to search for a failing input'}],
      'checks': checks,
      'not_applicable': [{'property_id': p, 'reason': NA_REASON} for p in ALL if p not in CLAIMED],
      'notes': 'See DESIGN.md. KNOWN_FINDINGS.json lists recorded and fixed defects of /repo.'}
    json.dump(m, open('/verif/MANIFEST.json', 'w'), indent=1)
    try:
        import jsonschema
        jsonschema.validate(m, json.load(open('/root/.vp/MANIFEST.schema.json'))); print('MANIFEST valid,', len(checks), 'claimed')
    except ImportError:
        print('written (jsonschema not available for validation)')
main()
