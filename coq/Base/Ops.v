(* Generic numeric operations for the TRANSLATED straight-line functions (py/py2v.py -> coq/gen/Gen_*.v).
   One definition, two interpretations:
     ROps o : Coq reals (theorems; sqrt/exp/log are the real functions, the remaining library functions are the
              fields of the oracle record [o], constrained only by explicit Section hypotheses -- never axioms);
     FOps o : PrimFloat binary64 (execution with vm_compute, compared bit-for-bit with the running Python code;
              library functions are tables of values recorded from the real library on the same inputs).
   PrimFloat / Uint63 are Required but NOT Imported, so that importing this file does not shadow add/mul/sqrt/... *)
From Coq Require Import ZArith QArith Reals List Bool.
From Coq Require PrimFloat Uint63 FloatOps SpecFloat.
Import ListNotations.

(* library functions that are not arithmetic: "oracles" *)
Record Oracles (A : Type) := {
  o_exp : A -> A;                 (* math.exp / numpy.exp          (used by FOps only; ROps uses Rtrigo_def.exp) *)
  o_log : A -> A;                 (* math.log / numpy.log, 1 arg   (used by FOps only; ROps uses ln) *)
  o_norm_cdf : A -> A;            (* scipy.stats.norm.cdf(z)   standard normal *)
  o_norm_pdf : A -> A;            (* scipy.stats.norm.pdf(z) *)
  o_norm_ppf : A -> A;            (* scipy.stats.norm.ppf(q) *)
  o_poisson_pmf : A -> A -> A;    (* scipy.stats.poisson.pmf(x, mean) *)
  o_poisson_cdf : A -> A -> A;    (* scipy.stats.poisson.cdf(x, mean) *)
  o_poisson_ppf : A -> A -> A;    (* scipy.stats.poisson.ppf(q, mean) *)
  (* stockpyl.optimization.golden_section_search(f, a, b): a higher-order oracle; None = the search raised *)
  o_gss : (A -> option A) -> A -> A -> option (A * A);
  o_pow : A -> A -> A;            (* float ** float  (libm pow; used by FOps only, ROps uses Rpower) *)
  o_powi : A -> Z -> A;           (* float ** <int literal >= 3>  (libm pow; used by FOps only, ROps uses x ^ n) *)
  (* further library functions by number, arguments as a list:
     100 scipy.stats.gamma.pdf(x, a, scale=b)   101 gamma.cdf(x, a, scale=b)   102 gamma.mean(a, scale=b)
     103 scipy.stats.nbinom.pmf(x, r, p)        104 nbinom.cdf(x, r, p) *)
  o_lib : Z -> list A -> A
}.
Arguments o_exp {A}. Arguments o_log {A}. Arguments o_norm_cdf {A}. Arguments o_norm_pdf {A}. Arguments o_norm_ppf {A}.
Arguments o_poisson_pmf {A}. Arguments o_poisson_cdf {A}. Arguments o_poisson_ppf {A}. Arguments o_gss {A}.
Arguments o_pow {A}. Arguments o_powi {A}. Arguments o_lib {A}.

Record Ops := {
  T : Type;
  add : T -> T -> T; sub : T -> T -> T; mul : T -> T -> T; div : T -> T -> T;
  neg : T -> T; sqrt : T -> T;
  ofZ : Z -> T; ofQ : Q -> T;
  ltb : T -> T -> bool; leb : T -> T -> bool; eqb : T -> T -> bool;
  is_int : T -> bool;             (* stockpyl.helpers.is_integer on a float *)
  exp_ : T -> T; log_ : T -> T;
  norm_cdf : T -> T; norm_pdf : T -> T; norm_ppf : T -> T;
  poisson_pmf : T -> T -> T; poisson_cdf : T -> T -> T; poisson_ppf : T -> T -> T;
  gss : (T -> option T) -> T -> T -> option (T * T);
  pow_ : T -> T -> T;             (* a ** b, b not a literal *)
  powi : T -> Z -> T;             (* a ** k, k an integer literal >= 3  (k = 2 is translated as a * a) *)
  lib : Z -> list T -> T
}.

(* ---------------------------------------------------------------- reals *)
Definition Rltb (a b : R) : bool := if Rlt_dec a b then true else false.
Definition Rleb (a b : R) : bool := if Rle_dec a b then true else false.
Definition Reqb (a b : R) : bool := if Req_EM_T a b then true else false.
Definition Ris_int (x : R) : bool := Reqb (IZR (up x) - 1) x.
Definition RofQ (q : Q) : R := (IZR (Qnum q) / IZR (Zpos (Qden q)))%R.

Definition ROps (o : Oracles R) : Ops := {|
  T := R; add := Rplus; sub := Rminus; mul := Rmult; div := Rdiv; neg := Ropp; sqrt := R_sqrt.sqrt;
  ofZ := IZR; ofQ := RofQ; ltb := Rltb; leb := Rleb; eqb := Reqb; is_int := Ris_int;
  exp_ := Rtrigo_def.exp; log_ := ln;
  norm_cdf := o_norm_cdf o; norm_pdf := o_norm_pdf o; norm_ppf := o_norm_ppf o;
  poisson_pmf := o_poisson_pmf o; poisson_cdf := o_poisson_cdf o; poisson_ppf := o_poisson_ppf o;
  gss := o_gss o; pow_ := Rpower; powi := fun x n => pow x (Z.to_nat n); lib := o_lib o |}.

Lemma Rltb_spec a b : reflect (a < b)%R (Rltb a b).
Proof. unfold Rltb. destruct (Rlt_dec a b); constructor; assumption. Qed.
Lemma Rleb_spec a b : reflect (a <= b)%R (Rleb a b).
Proof. unfold Rleb. destruct (Rle_dec a b); constructor; assumption. Qed.
Lemma Reqb_spec a b : reflect (a = b) (Reqb a b).
Proof. unfold Reqb. destruct (Req_EM_T a b); constructor; assumption. Qed.
Global Opaque Rltb Rleb Reqb.

(* ---------------------------------------------------------------- binary64 *)
Definition FofZ (z : Z) : PrimFloat.float :=
  match z with
  | Z0 => PrimFloat.zero
  | Zpos _ => PrimFloat.of_uint63 (Uint63.of_Z z)
  | Zneg p => PrimFloat.opp (PrimFloat.of_uint63 (Uint63.of_Z (Zpos p)))
  end.
(* exact for |num|, den < 2^53 (the translator rejects other literals): one correctly rounded division,
   i.e. the binary64 value Python assigns to the same decimal literal *)
Definition FofQ (q : Q) : PrimFloat.float := PrimFloat.div (FofZ (Qnum q)) (FofZ (Zpos (Qden q))).
Definition two52 : PrimFloat.float := FofZ 4503599627370496.
Definition Fis_int (x : PrimFloat.float) : bool :=
  let a := PrimFloat.abs x in
  if PrimFloat.ltb a two52 then PrimFloat.eqb (PrimFloat.sub (PrimFloat.add a two52) two52) a
  else PrimFloat.ltb a PrimFloat.infinity.

Definition FOps (o : Oracles PrimFloat.float) : Ops := {|
  T := PrimFloat.float; add := PrimFloat.add; sub := PrimFloat.sub; mul := PrimFloat.mul; div := PrimFloat.div;
  neg := PrimFloat.opp; sqrt := PrimFloat.sqrt;
  ofZ := FofZ; ofQ := FofQ; ltb := PrimFloat.ltb; leb := PrimFloat.leb; eqb := PrimFloat.eqb; is_int := Fis_int;
  exp_ := o_exp o; log_ := o_log o;
  norm_cdf := o_norm_cdf o; norm_pdf := o_norm_pdf o; norm_ppf := o_norm_ppf o;
  poisson_pmf := o_poisson_pmf o; poisson_cdf := o_poisson_cdf o; poisson_ppf := o_poisson_ppf o;
  gss := o_gss o; pow_ := o_pow o; powi := o_powi o; lib := o_lib o |}.

(* oracle tables for FOps: (function id, arguments, recorded value); a missing entry gives nan, which can
   never compare equal to the implementation's result *)
Fixpoint feq_list (a b : list PrimFloat.float) : bool :=
  match a, b with
  | [], [] => true
  | x :: a', y :: b' => PrimFloat.eqb x y && feq_list a' b'
  | _, _ => false
  end.
Fixpoint flookup (tbl : list (Z * list PrimFloat.float * PrimFloat.float)) (id : Z) (args : list PrimFloat.float) : PrimFloat.float :=
  match tbl with
  | [] => PrimFloat.nan
  | (i, a, v) :: r => if (Z.eqb i id && feq_list a args)%bool then v else flookup r id args
  end.
Definition FOracles (tbl : list (Z * list PrimFloat.float * PrimFloat.float)) : Oracles PrimFloat.float := {|
  o_exp := fun x => flookup tbl 0 [x];
  o_log := fun x => flookup tbl 1 [x];
  o_norm_cdf := fun x => flookup tbl 2 [x];
  o_norm_pdf := fun x => flookup tbl 3 [x];
  o_norm_ppf := fun x => flookup tbl 4 [x];
  o_poisson_pmf := fun x m => flookup tbl 5 [x; m];
  o_poisson_cdf := fun x m => flookup tbl 6 [x; m];
  o_poisson_ppf := fun q m => flookup tbl 7 [q; m];
  o_gss := fun _ a b => Some (flookup tbl 8 [a; b], flookup tbl 9 [a; b]);
  o_pow := fun a b => flookup tbl 20 [a; b];
  o_powi := fun a n => flookup tbl 21 [a; FofZ n];
  o_lib := fun id args => flookup tbl id args |}.

(* exact observation of a binary64 value as integers: (kind, signed mantissa, exponent)
   kind 0: finite non-zero = mantissa * 2^exponent; 1: zero (mantissa = 1 for -0); 2: infinity (mantissa = sign); 3: nan *)
Definition fobs (x : PrimFloat.float) : Z * Z * Z :=
  match FloatOps.Prim2SF x with
  | SpecFloat.S754_zero s => (1, if s then 1 else 0, 0)%Z
  | SpecFloat.S754_infinity s => (2, if s then (-1) else 1, 0)%Z
  | SpecFloat.S754_nan => (3, 0, 0)%Z
  | SpecFloat.S754_finite s m e => (0, if s then Zneg m else Zpos m, e)%Z
  end.
