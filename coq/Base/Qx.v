(* Exact rational arithmetic helpers: qmin/qmax/qpos with case lemmas, the [qcases] tactic, sums. *)
From Coq Require Export QArith Qminmax Lqa List Bool ZArith Lia.
Export ListNotations.
Open Scope Q_scope.

Definition qmin (a b : Q) : Q := if Qle_bool a b then a else b.
Definition qmax (a b : Q) : Q := if Qle_bool a b then b else a.
Definition qpos (a : Q) : Q := qmax 0 a.          (* positive part  a+ *)
Definition qneg (a : Q) : Q := qmax 0 (- a).      (* negative part  a- *)
Definition qleb (a b : Q) : bool := Qle_bool a b.
Definition qltb (a b : Q) : bool := negb (Qle_bool b a).
Definition qeqb (a b : Q) : bool := Qeq_bool a b.

Lemma qmin_spec a b : (a <= b /\ qmin a b = a) \/ (b < a /\ qmin a b = b).
Proof. unfold qmin. destruct (Qle_bool a b) eqn:E.
 - left. split; auto. apply Qle_bool_iff; auto.
 - right. split; auto. apply Qnot_le_lt. intro H. apply Qle_bool_iff in H. congruence. Qed.
Lemma qmax_spec a b : (a <= b /\ qmax a b = b) \/ (b < a /\ qmax a b = a).
Proof. unfold qmax. destruct (Qle_bool a b) eqn:E.
 - left. split; auto. apply Qle_bool_iff; auto.
 - right. split; auto. apply Qnot_le_lt. intro H. apply Qle_bool_iff in H. congruence. Qed.
Lemma qleb_spec a b : (a <= b /\ qleb a b = true) \/ (b < a /\ qleb a b = false).
Proof. unfold qleb. destruct (Qle_bool a b) eqn:E.
 - left. split; auto. apply Qle_bool_iff; auto.
 - right. split; auto. apply Qnot_le_lt. intro H. apply Qle_bool_iff in H. congruence. Qed.
Lemma qltb_spec a b : (a < b /\ qltb a b = true) \/ (b <= a /\ qltb a b = false).
Proof. unfold qltb. destruct (Qle_bool b a) eqn:E.
 - right. split; auto. apply Qle_bool_iff; auto.
 - left. split; auto. apply Qnot_le_lt. intro H. apply Qle_bool_iff in H. congruence. Qed.

Ltac qcases :=
  unfold qpos, qneg in *;
  repeat match goal with
  | |- context [qmin ?a ?b] => let H := fresh in let E := fresh in destruct (qmin_spec a b) as [[H E]|[H E]]; rewrite ?E in *; clear E
  | |- context [qmax ?a ?b] => let H := fresh in let E := fresh in destruct (qmax_spec a b) as [[H E]|[H E]]; rewrite ?E in *; clear E
  | H0 : context [qmin ?a ?b] |- _ => let H := fresh in let E := fresh in destruct (qmin_spec a b) as [[H E]|[H E]]; rewrite ?E in *; clear E
  | H0 : context [qmax ?a ?b] |- _ => let H := fresh in let E := fresh in destruct (qmax_spec a b) as [[H E]|[H E]]; rewrite ?E in *; clear E
  end.

Global Instance qmin_proper : Proper (Qeq ==> Qeq ==> Qeq) qmin.
Proof. intros a a' Ha b b' Hb. destruct (qmin_spec a b) as [[? E]|[? E]], (qmin_spec a' b') as [[? E']|[? E']]; rewrite E, E'; lra. Qed.
Global Instance qmax_proper : Proper (Qeq ==> Qeq ==> Qeq) qmax.
Proof. intros a a' Ha b b' Hb. destruct (qmax_spec a b) as [[? E]|[? E]], (qmax_spec a' b') as [[? E']|[? E']]; rewrite E, E'; lra. Qed.

Fixpoint qsum (l : list Q) : Q := match l with [] => 0 | x :: r => x + qsum r end.

Lemma qsum_app l1 l2 : qsum (l1 ++ l2) == qsum l1 + qsum l2.
Proof. induction l1 as [|x r IH]; cbn [qsum app]; [lra | rewrite IH; lra]. Qed.
Lemma qsum_nonneg l : Forall (fun x => 0 <= x) l -> 0 <= qsum l.
Proof. induction 1; cbn [qsum]; lra. Qed.
Lemma qsum_map_add {A} (f g : A -> Q) l : qsum (map (fun x => f x + g x) l) == qsum (map f l) + qsum (map g l).
Proof. induction l as [|x r IH]; cbn [qsum map]; [lra | rewrite IH; lra]. Qed.
Lemma qsum_map_scale {A} (c : Q) (f : A -> Q) l : qsum (map (fun x => c * f x) l) == c * qsum (map f l).
Proof. induction l as [|x r IH]; cbn [qsum map]; [lra | rewrite IH; lra]. Qed.
Lemma qsum_map_ext {A} (f g : A -> Q) l : (forall x, In x l -> f x == g x) -> qsum (map f l) == qsum (map g l).
Proof. induction l as [|x r IH]; intros H; cbn [qsum map]; [lra|].
  rewrite (H x (or_introl eq_refl)), IH; [lra|]. intros y Hy. apply H. right. exact Hy. Qed.

(* sum_{i=lo}^{lo+n-1} f i *)
Fixpoint qsum_range (f : nat -> Q) (lo n : nat) : Q :=
  match n with O => 0 | S n' => f lo + qsum_range f (S lo) n' end.
Lemma qsum_range_split f lo n m : qsum_range f lo (n + m) == qsum_range f lo n + qsum_range f (lo + n) m.
Proof. revert lo. induction n as [|n IH]; intro lo; cbn [qsum_range Nat.add].
 - rewrite Nat.add_0_r. lra.
 - rewrite IH. replace (S lo + n)%nat with (lo + S n)%nat by lia. lra. Qed.
Lemma qsum_range_ext f g lo n : (forall i, (lo <= i < lo + n)%nat -> f i == g i) -> qsum_range f lo n == qsum_range g lo n.
Proof. revert lo. induction n as [|n IH]; intros lo H; cbn [qsum_range]; [lra|].
  rewrite (H lo) by lia. rewrite IH; [lra|]. intros i Hi. apply H. lia. Qed.
Lemma qsum_range_nonneg f lo n : (forall i, (lo <= i < lo + n)%nat -> 0 <= f i) -> 0 <= qsum_range f lo n.
Proof. revert lo. induction n as [|n IH]; intros lo H; cbn [qsum_range]; [lra|].
  pose proof (H lo ltac:(lia)). assert (0 <= qsum_range f (S lo) n) by (apply IH; intros; apply H; lia). lra. Qed.

Definition qnat (n : nat) : Q := inject_Z (Z.of_nat n).
(* observable form of a rational: reduced numerator / denominator *)
Definition qobs (q : Q) : Z * Z := let r := Qred q in (Qnum r, Zpos (Qden r)).
