(* Association-list maps with decidable keys: get with default, set = cons after removal.
   Two lemmas (same key / other key) are all the simulator proofs need. *)
From Coq Require Import List.
Import ListNotations.

Section Amap.
Variables (K V : Type) (eq_dec : forall a b : K, {a = b} + {a <> b}) (d : V).
Definition amap := list (K * V).
Fixpoint aget (m : amap) (k : K) : V :=
  match m with [] => d | (k', v) :: r => if eq_dec k k' then v else aget r k end.
Fixpoint arem (m : amap) (k : K) : amap :=
  match m with [] => [] | (k', v) :: r => if eq_dec k k' then arem r k else (k', v) :: arem r k end.
Definition aset (m : amap) (k : K) (v : V) : amap := (k, v) :: arem m k.

Lemma aget_arem_other m k k' : k <> k' -> aget (arem m k') k = aget m k.
Proof. intros H. induction m as [|[k0 v0] r IH]; cbn [arem aget]; [reflexivity|].
  destruct (eq_dec k' k0) as [E1|N1].
  - subst. destruct (eq_dec k k0) as [E2|N2]; [congruence|exact IH].
  - cbn [aget]. destruct (eq_dec k k0); [reflexivity|exact IH]. Qed.
Lemma aget_aset_same m k v : aget (aset m k v) k = v.
Proof. unfold aset. cbn [aget]. destruct (eq_dec k k); [reflexivity|congruence]. Qed.
Lemma aget_aset_other m k k' v : k <> k' -> aget (aset m k' v) k = aget m k.
Proof. intros H. unfold aset. cbn [aget]. destruct (eq_dec k k'); [congruence|]. apply aget_arem_other. exact H. Qed.
End Amap.
Arguments aget {K V} eq_dec d m k.
Arguments aset {K V} eq_dec m k v.
