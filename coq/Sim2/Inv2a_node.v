(* Stage-2 simulator invariants (group A), part 2: identities per (node, product) that involve sums over the product's
   customers: backorders = negative part of the inventory level, pending = sum of the unserved inbound orders, demand met
   from stock <= demand, the shipping bound; preserved by every atomic node action. *)
From SV Require Import Sim.Model Sim.StateLemmas Sim.Inv_base Sim.Inv_node.
From SV Require Import Sim2.State2 Sim2.Model2.
From SV Require Import Sim2.Inv2a_tac Sim2.Inv2a_nn.

Ltac fsel4 := first [left; reflexivity | right; left; reflexivity | right; right; left; reflexivity | right; right; right; reflexivity].

Section Node2.
Variable (NW : net2) (dis : N -> bool).
Notation C := (cfg2 NW).
Notation PC := (PC NW).
Definition SF2 (f : fld) (s : st2) (n k : N) (l : list nb) : Q := qsumf (fun c => gq2 s (f, n, c, k)) l.
Definition custs (n k : N) : list nb := k_custs (PC n k).

(* two states agree on every rational of (node n, item k) *)
Definition allsame (s s' : st2) (n k : N) : Prop := forall f x, gq2 s' (f, n, x, k) = gq2 s (f, n, x, k).
Lemma SF2_allsame f s s' n k l : allsame s s' n k -> SF2 f s' n k l = SF2 f s n k l.
Proof. intros H. unfold SF2, qsumf. f_equal. apply map_ext. intros c. apply H. Qed.

(* ---- effect of serving one customer of product k at node n ---- *)
Lemma serve_one2_eff n k s oh c :
  let o := serve_calc oh (gq2 s (fBO, n, c, k)) (gq2 s (fPIO, n, c, k)) (gq2 s (fODI, n, c, k)) (match c with Nd c' => disk2 NW dis c' dSP | Ext => false end) in
  let r := serve_one2 NW dis n k (s, oh) c in
  snd r = o_oh o /\
  gq2 (fst r) (fBO, n, c, k) = o_bo o /\ gq2 (fst r) (fODI, n, c, k) = o_odi o /\ gq2 (fst r) (fPIO, n, c, k) = 0 /\ gq2 (fst r) (fOS, n, c, k) = o_os o /\
  gq2 (fst r) (fIL, n, Ext, k) = gq2 s (fIL, n, Ext, k) + - gq2 s (fPIO, n, c, k) /\
  gq2 (fst r) (fPEND, n, Ext, k) = gq2 s (fPEND, n, Ext, k) + - gq2 s (fPIO, n, c, k) /\
  gq2 (fst r) (fSRV, n, Ext, k) = gq2 s (fSRV, n, Ext, k) + gq2 s (fPIO, n, c, k) /\
  gq2 (fst r) (fDMC, n, Ext, k) = gq2 s (fDMC, n, Ext, k) + o_dmfs o /\
  (forall f c', c' <> c -> (f = fBO \/ f = fODI \/ f = fPIO \/ f = fOS) -> gq2 (fst r) (f, n, c', k) = gq2 s (f, n, c', k)) /\
  (forall f n' x k', (n', k') <> (n, k) -> gq2 (fst r) (f, n', x, k') = gq2 s (f, n', x, k')) /\
  (forall x, gq2 (fst r) (fDC, n, x, k) = gq2 s (fDC, n, x, k)).
Proof.
  cbv zeta. unfold serve_one2. set (o := serve_calc _ _ _ _ _).
  split; [destruct c; reflexivity|].
  repeat split.
  1-8: destruct c; cbn [fst]; gs2; reflexivity.
  - intros f c' Hne Hf. destruct Hf as [F|[F|[F|F]]]; subst f; destruct c; cbn [fst]; gs2; reflexivity.
  - intros f n' x k' Hne. destruct c; cbn [fst]; gs2; reflexivity.
  - intros x. destruct c; cbn [fst]; gs2; reflexivity.
Qed.

(* ---- the fold over a duplicate-free customer list ---- *)
Lemma serve_fold_spec2 n k : forall l s oh, NoDup l -> NN2 s -> 0 <= oh ->
  let r := fold_left (serve_one2 NW dis n k) l (s, oh) in
  let s' := fst r in let oh' := snd r in
  0 <= oh' /\ oh' <= oh /\
  SF2 fBO s' n k l == SF2 fBO s n k l + SF2 fPIO s n k l - (oh - oh') /\
  (0 < oh' -> SF2 fBO s' n k l == 0) /\ 0 <= SF2 fBO s' n k l /\
  gq2 s' (fIL, n, Ext, k) == gq2 s (fIL, n, Ext, k) - SF2 fPIO s n k l /\
  SF2 fPIO s' n k l == 0 /\
  gq2 s' (fPEND, n, Ext, k) == gq2 s (fPEND, n, Ext, k) - SF2 fPIO s n k l /\
  gq2 s' (fSRV, n, Ext, k) == gq2 s (fSRV, n, Ext, k) + SF2 fPIO s n k l /\
  gq2 s' (fDMC, n, Ext, k) + SF2 fBO s' n k l + SF2 fODI s' n k l <= gq2 s (fDMC, n, Ext, k) + SF2 fBO s n k l + SF2 fODI s n k l + SF2 fPIO s n k l /\
  SF2 fOS s' n k l + SF2 fODI s' n k l - SF2 fODI s n k l == oh - oh' /\
  (forall f c, ~ In c l -> (f = fBO \/ f = fODI \/ f = fPIO \/ f = fOS) -> gq2 s' (f, n, c, k) = gq2 s (f, n, c, k)) /\
  (forall f n' x k', (n', k') <> (n, k) -> gq2 s' (f, n', x, k') = gq2 s (f, n', x, k')) /\
  (forall x, gq2 s' (fDC, n, x, k) = gq2 s (fDC, n, x, k)).
Proof.
  induction l as [|c r IH]; intros s oh ND HN Hoh; cbn [fold_left].
  - cbv zeta. unfold SF2, qsumf. cbn [fst snd map qsum]. repeat split; try lra; intros; reflexivity.
  - inversion ND as [|? ? Hnc Hr]; subst.
    pose proof (serve_one2_eff n k s oh c) as EF. cbv zeta in EF.
    set (o := serve_calc oh (gq2 s (fBO, n, c, k)) (gq2 s (fPIO, n, c, k)) (gq2 s (fODI, n, c, k)) (match c with Nd c' => disk2 NW dis c' dSP | Ext => false end)) in *.
    destruct (NN2_serve_one2 NW dis n k (s, oh) c HN Hoh) as [N1 O1].
    destruct (serve_one2 NW dis n k (s, oh) c) as [s1 oh1] eqn:E1. cbn [fst snd] in *.
    destruct EF as (Eoh & Ebo & Eodi & Epio & Eos & Eil & Epend & Esrv & Edmc & Fc & Fn & Fd).
    assert (Hb : 0 <= gq2 s (fBO, n, c, k)) by (apply (NNg_q nnf); [exact HN|reflexivity]).
    assert (Hi : 0 <= gq2 s (fPIO, n, c, k)) by (apply (NNg_q nnf); [exact HN|reflexivity]).
    assert (Hd : 0 <= gq2 s (fODI, n, c, k)) by (apply (NNg_q nnf); [exact HN|reflexivity]).
    pose proof (serve_calc_spec oh _ _ _ (match c with Nd c' => disk2 NW dis c' dSP | Ext => false end) Hoh Hb Hi Hd) as S. cbv zeta in S. fold o in S.
    destruct S as (So & Soh & Sbo & Pbo & Pos & Podi & Scons & Sdm & Pdm & Sz & _ & _).
    specialize (IH s1 oh1 Hr N1 O1). cbv zeta in IH.
    set (s' := fst (fold_left (serve_one2 NW dis n k) r (s1, oh1))) in *.
    set (oh' := snd (fold_left (serve_one2 NW dis n k) r (s1, oh1))) in *.
    destruct IH as (I0 & I1 & Ibo & Iz & Ipos & Iil & Ipio & Ipend & Isrv & Idm & Ios & Ic & In1 & Id).
    assert (R : forall f, (f = fBO \/ f = fODI \/ f = fPIO \/ f = fOS) -> SF2 f s1 n k r == SF2 f s n k r).
    { intros f Hf. unfold SF2. apply qsumf_ext. intros x Hx. rewrite Fc; [reflexivity| |exact Hf]. intro X. subst. contradiction. }
    assert (Kc : forall f, (f = fBO \/ f = fODI \/ f = fPIO \/ f = fOS) -> gq2 s' (f, n, c, k) = gq2 s1 (f, n, c, k)) by (intros f Hf; apply Ic; assumption).
    unfold SF2, qsumf in *. cbn [map qsum].
    rewrite !Kc by fsel4. rewrite Ebo, Eodi, Epio, Eos.
    rewrite (R fBO), (R fODI), (R fPIO), ?(R fOS) in * by fsel4.
    rewrite Eoh in *.
    repeat split.
    + exact I0.
    + lra.
    + lra.
    + intros Hp. specialize (Iz Hp). assert (0 < o_oh o) by lra. specialize (Sz H). lra.
    + lra.
    + rewrite Iil, Eil. lra.
    + lra.
    + rewrite Ipend, Epend. lra.
    + rewrite Isrv, Esrv. lra.
    + rewrite Edmc in Idm. lra.
    + lra.
    + intros f x Hx Hf. rewrite Ic by (try tauto; intro; apply Hx; right; assumption). apply Fc; [|exact Hf]. intro X. subst. apply Hx. left. reflexivity.
    + intros f n' x k' Hn. rewrite In1 by assumption. apply Fn. exact Hn.
    + intros x. rewrite Id. apply Fd.
Qed.

(* ---------- the per-(node, product) invariant ---------- *)
Definition NDk (s : st2) (n k : N) : Prop :=
  (* backorders owed to the customers of product k add up to the negative part of k's inventory level *)
  SF2 fBO s n k (custs n k) == qmax 0 (- gq2 s (fIL, n, Ext, k)) /\
  gq2 s (fPEND, n, Ext, k) == SF2 fPIO s n k (custs n k) /\
  (* demand met from stock + what is still owed (backordered or held) never exceeds the orders served *)
  gq2 s (fDMC, n, Ext, k) + SF2 fBO s n k (custs n k) + SF2 fODI s n k (custs n k) <= gq2 s (fSRV, n, Ext, k) /\
  (* cumulative demand = orders served + orders received but not yet served *)
  gq2 s (fDC, n, Ext, k) == gq2 s (fSRV, n, Ext, k) + gq2 s (fPEND, n, Ext, k).
Definition ND2 (s : st2) : Prop := forall n k, NDk s n k.

Definition NF2 (f : fld) : Prop := f = fBO \/ f = fODI \/ f = fPIO \/ f = fIL \/ f = fPEND \/ f = fSRV \/ f = fDMC \/ f = fDC.
Definition same_at (s s' : st2) (n k : N) : Prop := forall f x, NF2 f -> gq2 s' (f, n, x, k) = gq2 s (f, n, x, k).
Definition same_on2 (s s' : st2) : Prop := forall n k, same_at s s' n k.
Lemma same2_refl s : same_on2 s s.  Proof. intros n k f x _. reflexivity. Qed.
Lemma same_at_trans s1 s2 s3 n k : same_at s1 s2 n k -> same_at s2 s3 n k -> same_at s1 s3 n k.
Proof. intros H1 H2 f x Hf. rewrite H2, H1 by exact Hf. reflexivity. Qed.
Lemma same2_sq s0 s f n x i v : ~ NF2 f -> same_on2 s0 s -> same_on2 s0 (sq2 s (f, n, x, i) v).
Proof. intros Hf H m k g y Hg. rewrite gq2_sq2_other; [apply H; exact Hg|]. intro E. inversion E; subst. contradiction. Qed.
Lemma same2_addq s0 s f n x i v : ~ NF2 f -> same_on2 s0 s -> same_on2 s0 (addq2 s (f, n, x, i) v).
Proof. intros Hf H m k g y Hg. rewrite gq2_addq2_other; [apply H; exact Hg|]. intro E. inversion E; subst. contradiction. Qed.
Lemma same2_sl s0 s key v : same_on2 s0 s -> same_on2 s0 (sl2 s key v).
Proof. intros H m k g y Hg. rewrite gq2_sl2. apply H. exact Hg. Qed.
Ltac notNF2 := let H := fresh in intro H; unfold NF2 in H; repeat (destruct H as [H|H]; [discriminate|]); discriminate.
Ltac same_tac2 := repeat first [apply same2_sl | apply same2_sq; [notNF2|] | apply same2_addq; [notNF2|] | apply same2_refl | assumption].

Lemma SF2_same f s s' n k l : NF2 f -> same_at s s' n k -> SF2 f s' n k l = SF2 f s n k l.
Proof. intros Hf H. unfold SF2, qsumf. f_equal. apply map_ext. intros c. apply H. exact Hf. Qed.
Lemma NDk_same s s' n k : same_at s s' n k -> NDk s n k -> NDk s' n k.
Proof. intros H (H1 & H2 & H3 & H4). unfold NDk.
  rewrite (SF2_same fBO s s'), (SF2_same fPIO s s'), (SF2_same fODI s s') by (try exact H; unfold NF2; tauto).
  rewrite (H fIL Ext), (H fPEND Ext), (H fDMC Ext), (H fSRV Ext), (H fDC Ext) by (unfold NF2; tauto).
  repeat split; assumption. Qed.
Lemma ND2_same s s' : same_on2 s s' -> ND2 s -> ND2 s'.
Proof. intros H HD n k. apply (NDk_same s s' n k (H n k)). apply HD. Qed.
Lemma allsame_same_at s s' n k : allsame s s' n k -> same_at s s' n k.
Proof. intros H f x _. apply H. Qed.

(* ---- the actions that do not touch the node fields ---- *)
Lemma same_gen_demand2 dem s n : same_on2 s (gen_demand2 NW dem s n).
Proof. unfold gen_demand2. apply fold_left_inv; [|apply same2_refl]. intros a k _ Ha. destruct (has_ext (k_custs (PC n k))); same_tac2. Qed.
Lemma same_place_orders2 err s n : same_on2 s (place_orders2 NW dis err s n).
Proof. unfold place_orders2. destruct (disk2 NW dis n dOP); [apply same2_refl|].
  apply fold_left_inv; [|apply same2_refl]. intros a k _ Ha. unfold place_prod2.
  apply fold_left_inv; [|same_tac2]. intros b rb _ Hb. unfold place_rm2.
  apply fold_left_inv; [|exact Hb]. intros c x _ Hc. unfold place_one2. destruct (fst x); same_tac2. Qed.
Lemma same_recv_ship2 s n : same_on2 s (recv_ship2 NW dis s n).
Proof. unfold recv_ship2. apply fold_left_inv; [|apply same2_refl]. intros a r _ Ha. unfold recv_ship_rm.
  apply fold_left_inv; [|exact Ha]. intros b p _ Hb. unfold recv_ship_one2. same_tac2. Qed.
Lemma same_fill_rate2 s n : same_on2 s (fill_rate2 NW s n).
Proof. unfold fill_rate2. apply fold_left_inv; [|apply same2_refl]. intros a k _ Ha. unfold fill_rate_one2. same_tac2. Qed.
Lemma same_next_nodes s : same_on2 s (fold_left (next_node2 NW dis) (nodes2 NW) s).
Proof. apply fold_left_inv; [|apply same2_refl]. intros a n _ Ha. unfold next_node2.
  apply fold_left_inv.
  { intros b k _ Hb. unfold next_prod. same_tac2. apply fold_left_inv; [|exact Hb]. intros c x _ Hc. unfold next_cust. same_tac2. }
  apply fold_left_inv; [|exact Ha]. intros b r _ Hb. apply fold_left_inv; [|exact Hb]. intros c p _ Hc. unfold next_sup. same_tac2.
  destruct (disk2 NW dis n dTP); same_tac2. Qed.

Lemma SF2_norm f s n k l : SF2 f (norm_st s) n k l == SF2 f s n k l.
Proof. unfold SF2. apply qsumf_ext. intros c _. apply gq2_norm_eq. Qed.
Lemma ND2_norm s : ND2 s -> ND2 (norm_st s).
Proof. intros H n k. destruct (H n k) as (H1 & H2 & H3 & H4). unfold NDk. rewrite !SF2_norm, !gq2_norm_eq. repeat split; assumption. Qed.
Lemma ND2_next_period2 s : ND2 s -> ND2 (next_period2 NW dis s).
Proof. intros H. unfold next_period2. apply ND2_norm. apply (ND2_same _ _ (same_next_nodes s)). exact H. Qed.

(* ---- receiving the inbound orders ---- *)
Lemma recv_order_one2_frame n k s c f n' x k' : (n', k') <> (n, k) -> gq2 (recv_order_one2 n k s c) (f, n', x, k') = gq2 s (f, n', x, k').
Proof. intros Hne. unfold recv_order_one2. gs2. reflexivity. Qed.

Lemma ND2_recv_order_one2 n k s c : NoDup (custs n k) -> In c (custs n k) -> ND2 s -> ND2 (recv_order_one2 n k s c).
Proof. intros NDc Hin HD n' k'.
  destruct (N.eq_dec n' n) as [En|Nn]; [destruct (N.eq_dec k' k) as [Ek|Nk]|].
  2:{ apply (NDk_same s); [|apply HD]. intros f x _. apply recv_order_one2_frame. intro E. inversion E. contradiction. }
  2:{ apply (NDk_same s); [|apply HD]. intros f x _. apply recv_order_one2_frame. intro E. inversion E. contradiction. }
  subst n' k'. destruct (HD n k) as (H1 & H2 & H3 & H4).
  set (x := hd0 (gl2 s (fOP, n, c, k))).
  set (s' := recv_order_one2 n k s c).
  assert (G : forall f y, f <> fPIO -> f <> fPEND -> f <> fDC -> NF2 f -> gq2 s' (f, n, y, k) = gq2 s (f, n, y, k)).
  { intros f y F1 F2 F3 Hf. unfold s', recv_order_one2. rewrite !gq2_addq2_other by (intro E; inversion E; subst; unfold NF2 in Hf; intuition congruence).
    rewrite gq2_sl2, gq2_sq2_other by (intro E; inversion E; subst; unfold NF2 in Hf; intuition congruence). reflexivity. }
  assert (GP : forall y, y <> c -> gq2 s' (fPIO, n, y, k) = gq2 s (fPIO, n, y, k)).
  { intros y Hne. unfold s', recv_order_one2. gs2. reflexivity. }
  assert (GP2 : gq2 s' (fPIO, n, c, k) = gq2 s (fPIO, n, c, k) + x) by (unfold s', recv_order_one2; gs2; reflexivity).
  assert (GE2 : gq2 s' (fPEND, n, Ext, k) = gq2 s (fPEND, n, Ext, k) + x) by (unfold s', recv_order_one2; gs2; reflexivity).
  assert (GD2 : gq2 s' (fDC, n, Ext, k) = gq2 s (fDC, n, Ext, k) + x) by (unfold s', recv_order_one2; gs2; reflexivity).
  assert (SB : forall f, f <> fPIO -> f <> fPEND -> f <> fDC -> NF2 f -> SF2 f s' n k (custs n k) == SF2 f s n k (custs n k)).
  { intros f F1 F2 F3 Hf. unfold SF2. apply qsumf_ext. intros y _. rewrite G by assumption. reflexivity. }
  assert (SP : SF2 fPIO s' n k (custs n k) == SF2 fPIO s n k (custs n k) + x).
  { unfold SF2. rewrite (qsumf_update nb_eq_dec (fun y => gq2 s (fPIO, n, y, k)) (fun y => gq2 s' (fPIO, n, y, k)) (custs n k) c NDc GP).
    destruct (in_dec nb_eq_dec c (custs n k)) as [_|N']; [|contradiction]. rewrite GP2. lra. }
  unfold NDk. rewrite (SB fBO), (SB fODI) by (try discriminate; unfold NF2; tauto). rewrite SP, GE2, GD2.
  rewrite !G by (try discriminate; unfold NF2; tauto).
  repeat split; try assumption; lra.
Qed.

Lemma ND2_orders_action2 dem err s n : (forall k, In k (n_prods (C n)) -> NoDup (custs n k)) -> ND2 s -> ND2 (orders_action2 NW dis dem err s n).
Proof. intros Hk H. unfold orders_action2. apply (ND2_same _ _ (same_place_orders2 err _ n)).
  unfold recv_orders2. apply fold_left_inv; [|apply (ND2_same _ _ (same_gen_demand2 dem s n)); exact H].
  intros a k Hin Ha. unfold recv_orders_prod. apply fold_left_inv; [|exact Ha].
  intros b c Hc Hb. apply ND2_recv_order_one2; [apply Hk; exact Hin|exact Hc|exact Hb]. Qed.

(* ---- serving all customers of one product ---- *)
Lemma serve2_spec s n k il0 made : NoDup (custs n k) -> NN2 s -> 0 <= made ->
  let e := serve2 NW dis s n k il0 made in
  let l := custs n k in
  exists oh', 0 <= oh' /\ oh' <= qmax 0 il0 + made /\
  SF2 fBO e n k l == SF2 fBO s n k l + SF2 fPIO s n k l - (qmax 0 il0 + made - oh') /\
  (0 < oh' -> SF2 fBO e n k l == 0) /\ 0 <= SF2 fBO e n k l /\
  gq2 e (fIL, n, Ext, k) == gq2 s (fIL, n, Ext, k) - SF2 fPIO s n k l /\
  SF2 fPIO e n k l == 0 /\
  gq2 e (fPEND, n, Ext, k) == gq2 s (fPEND, n, Ext, k) - SF2 fPIO s n k l /\
  gq2 e (fSRV, n, Ext, k) == gq2 s (fSRV, n, Ext, k) + SF2 fPIO s n k l /\
  gq2 e (fDMC, n, Ext, k) + SF2 fBO e n k l + SF2 fODI e n k l <= gq2 s (fDMC, n, Ext, k) + SF2 fBO s n k l + SF2 fODI s n k l + SF2 fPIO s n k l /\
  SF2 fOS e n k l + SF2 fODI e n k l - SF2 fODI s n k l == qmax 0 il0 + made - oh' /\
  (forall f n' x k', (n', k') <> (n, k) -> gq2 e (f, n', x, k') = gq2 s (f, n', x, k')) /\
  (forall x, gq2 e (fDC, n, x, k) = gq2 s (fDC, n, x, k)).
Proof.
  intros NDc HN Hm. cbv zeta. unfold serve2. change (k_custs (PC n k)) with (custs n k).
  set (s3 := sq2 s (fDMFS, n, Ext, k) 0).
  assert (N3 : NN2 s3) by (apply NNg_sq; [exact HN|intros _; lra]).
  assert (Hoh : 0 <= qmax 0 il0 + made) by (qcases; lra).
  pose proof (serve_fold_spec2 n k (custs n k) s3 (qmax 0 il0 + made) NDc N3 Hoh) as SP. cbv zeta in SP.
  set (e := fst (fold_left (serve_one2 NW dis n k) (custs n k) (s3, qmax 0 il0 + made))) in *.
  set (oh' := snd (fold_left (serve_one2 NW dis n k) (custs n k) (s3, qmax 0 il0 + made))) in *.
  destruct SP as (I0 & I1 & Ibo & Iz & Ipos & Iil & Ipio & Ipend & Isrv & Idm & Ios & Ic & In1 & Id).
  assert (E3 : forall f m x i, f <> fDMFS -> gq2 s3 (f, m, x, i) = gq2 s (f, m, x, i)).
  { intros f m x i Hf. unfold s3. apply gq2_sq2_other. intro E. inversion E. contradiction. }
  assert (SFE : forall f, f <> fDMFS -> SF2 f s3 n k (custs n k) = SF2 f s n k (custs n k)).
  { intros f Hf. unfold SF2, qsumf. f_equal. apply map_ext. intros c. apply E3. exact Hf. }
  rewrite (SFE fBO), (SFE fPIO) in Ibo by discriminate.
  rewrite (SFE fPIO) in Iil, Ipend, Isrv by discriminate.
  rewrite (SFE fBO), (SFE fODI), (SFE fPIO) in Idm by discriminate.
  rewrite (SFE fODI) in Ios by discriminate.
  rewrite (E3 fIL) in Iil by discriminate. rewrite (E3 fPEND) in Ipend by discriminate.
  rewrite (E3 fSRV) in Isrv by discriminate. rewrite (E3 fDMC) in Idm by discriminate.
  exists oh'. repeat split; try assumption.
  - intros f n' x k' Hne. rewrite In1 by exact Hne. unfold s3. apply gq2_sq2_other. intro E. inversion E; subst. apply Hne. reflexivity.
  - intros x. rewrite Id. apply E3. discriminate.
Qed.

(* state before / after serving product k at node n; il0 = inventory level at the start of the shipping action *)
Definition PREk (s : st2) (n k : N) (il0 made : Q) : Prop :=
  gq2 s (fIL, n, Ext, k) == il0 + made /\
  SF2 fBO s n k (custs n k) == qmax 0 (- il0) /\
  gq2 s (fPEND, n, Ext, k) == SF2 fPIO s n k (custs n k) /\
  gq2 s (fDMC, n, Ext, k) + SF2 fBO s n k (custs n k) + SF2 fODI s n k (custs n k) <= gq2 s (fSRV, n, Ext, k) /\
  gq2 s (fDC, n, Ext, k) == gq2 s (fSRV, n, Ext, k) + gq2 s (fPEND, n, Ext, k).
Definition POSTk (a e : st2) (n k : N) (il0 made : Q) : Prop :=
  NDk e n k /\
  SF2 fOS e n k (custs n k) + SF2 fODI e n k (custs n k) - SF2 fODI a n k (custs n k) <= qmax 0 il0 + made /\
  gq2 e (fIL, n, Ext, k) == il0 + made - SF2 fPIO a n k (custs n k) /\
  SF2 fPIO e n k (custs n k) == 0.

Lemma PREk_same a a1 n k il0 made : allsame a a1 n k -> PREk a n k il0 made -> PREk a1 n k il0 made.
Proof. intros H P. unfold PREk in *. rewrite !(SF2_allsame _ a a1) by exact H. rewrite !H. exact P. Qed.
Lemma POSTk_same_e a e e' n k il0 made : allsame e e' n k -> POSTk a e n k il0 made -> POSTk a e' n k il0 made.
Proof. intros H (P1 & P2 & P3 & P4). unfold POSTk. rewrite !(SF2_allsame _ e e') by exact H. rewrite !H.
  split; [apply (NDk_same e e' n k (allsame_same_at _ _ _ _ H)); exact P1|]. repeat split; assumption. Qed.
Lemma POSTk_same_a a a1 e n k il0 made : allsame a a1 n k -> POSTk a1 e n k il0 made -> POSTk a e n k il0 made.
Proof. intros H P. unfold POSTk in *. rewrite !(SF2_allsame _ a a1) in P by exact H. exact P. Qed.

Lemma serve2_post s n k il0 made : NoDup (custs n k) -> NN2 s -> 0 <= made -> PREk s n k il0 made ->
  POSTk s (serve2 NW dis s n k il0 made) n k il0 made.
Proof.
  intros NDc HN Hm (Pil & Pbo & Ppend & Pdm & Pdc).
  destruct (serve2_spec s n k il0 made NDc HN Hm) as (oh' & I0 & I1 & Ibo & Iz & Ipos & Iil & Ipio & Ipend & Isrv & Idm & Ios & _ & Id).
  cbv zeta in *. set (e := serve2 NW dis s n k il0 made) in *. set (l := custs n k) in *.
  unfold POSTk, NDk. fold l.
  split; [split; [|split; [|split]]|split; [|split]].
  - rewrite Iil, Pil. rewrite Ibo.
    assert (Ez : 0 < oh' -> SF2 fBO s n k l + SF2 fPIO s n k l - (qmax 0 il0 + made - oh') == 0) by (intros Hp; rewrite <- Ibo; apply Iz; exact Hp).
    rewrite Ibo in Ipos. rewrite Pbo in *.
    destruct (Qlt_le_dec 0 oh') as [Hp|Hz]; [specialize (Ez Hp); clear - Ez I0 I1 Hp Hm; qcases; lra|].
    assert (Z : oh' == 0) by lra. clear - Z Ipos Hm. qcases; lra.
  - rewrite Ipend, Ipio. lra.
  - rewrite Isrv. lra.
  - rewrite (Id Ext), Isrv, Ipend. lra.
  - lra.
  - rewrite Iil, Pil. lra.
  - exact Ipio.
Qed.

(* ---- serving the products of a node one after the other ---- *)
Lemma serve_prods_spec n il0 mk : forall l a, NoDup l -> (forall k, In k l -> NoDup (custs n k)) -> (forall k, In k l -> 0 <= mk k) ->
  NN2 a -> (forall k, In k l -> PREk a n k (il0 k) (mk k)) ->
  let a' := fold_left (fun s k => serve2 NW dis s n k (il0 k) (mk k)) l a in
  (forall k, In k l -> POSTk a a' n k (il0 k) (mk k)) /\
  (forall f n' x k', (n' <> n \/ ~ In k' l) -> gq2 a' (f, n', x, k') = gq2 a (f, n', x, k')).
Proof.
  induction l as [|k r IH]; intros a NDl Hc Hm HN HP; cbn [fold_left].
  - cbv zeta. split; [intros k []|intros; reflexivity].
  - inversion NDl as [|? ? Hnk Hr]; subst.
    assert (Hck : NoDup (custs n k)) by (apply Hc; left; reflexivity).
    assert (Hmk : 0 <= mk k) by (apply Hm; left; reflexivity).
    pose proof (serve2_post a n k (il0 k) (mk k) Hck HN Hmk (HP k (or_introl eq_refl))) as P1.
    destruct (serve2_spec a n k (il0 k) (mk k) Hck HN Hmk) as (_ & _ & _ & _ & _ & _ & _ & _ & _ & _ & _ & _ & F1 & _).
    cbv zeta in F1. set (a1 := serve2 NW dis a n k (il0 k) (mk k)) in *.
    assert (N1 : NN2 a1) by (apply NN2_serve2; assumption).
    assert (S1 : forall k', k' <> k -> allsame a a1 n k').
    { intros k' Hne f x. apply F1. intro E. inversion E. contradiction. }
    assert (HP1 : forall k', In k' r -> PREk a1 n k' (il0 k') (mk k')).
    { intros k' Hin. apply (PREk_same a); [apply S1; intro E; subst; contradiction|]. apply HP. right. exact Hin. }
    specialize (IH a1 Hr (fun k' Hk' => Hc k' (or_intror Hk')) (fun k' Hk' => Hm k' (or_intror Hk')) N1 HP1). cbv zeta in IH.
    set (a' := fold_left (fun s k0 => serve2 NW dis s n k0 (il0 k0) (mk k0)) r a1) in *.
    destruct IH as [IP IF]. cbv zeta. split.
    + intros k0 [E|Hin].
      * subst k0. apply (POSTk_same_e a a1); [|exact P1]. intros f x. apply IF. right. exact Hnk.
      * apply (POSTk_same_a a a1); [|apply IP; exact Hin]. apply S1. intro E. subst. contradiction.
    + intros f n' x k' Hne. rewrite IF by (destruct Hne as [H|H]; [left; exact H|right; intro X; apply H; right; exact X]).
      apply F1. intro E. inversion E; subst. destruct Hne as [H|H]; [apply H; reflexivity|apply H; left; reflexivity].
Qed.

(* ---- production, seen from the node fields ---- *)
Lemma produce_fold_nf n mk : forall l s, NoDup l ->
  let s' := fold_left (produce_one2 NW n mk) l s in
  (forall f n' x k', NF2 f -> ~ ((f, n', x) = (fIL, n, Ext) /\ In k' l) -> gq2 s' (f, n', x, k') = gq2 s (f, n', x, k')) /\
  (forall k, In k l -> gq2 s' (fIL, n, Ext, k) = gq2 s (fIL, n, Ext, k) + mk k).
Proof.
  induction l as [|k r IH]; intros s NDl; cbn [fold_left]; cbv zeta.
  - split; [intros; reflexivity|intros k []].
  - inversion NDl as [|? ? Hnk Hr]; subst. destruct (produce_one2_frame NW n mk s k) as (F1 & _ & Fil & _).
    destruct (IH (produce_one2 NW n mk s k) Hr) as [I1 I2]. split.
    + intros f n' x k' Hf Hne. rewrite I1; [|exact Hf|intros [E Hin]; apply Hne; split; [exact E|right; exact Hin]].
      apply F1.
      * unfold NF2 in Hf. cbn. intuition congruence.
      * intro E. inversion E; subst. apply Hne. split; [reflexivity|left; reflexivity].
      * intro E. inversion E; subst. unfold NF2 in Hf. intuition congruence.
      * intro E. inversion E; subst. unfold NF2 in Hf. intuition congruence.
    + intros k0 [E|Hin].
      * subst k0. rewrite I1; [exact Fil|unfold NF2; tauto|intros [_ Hin]; contradiction].
      * rewrite I2 by exact Hin. rewrite F1; [reflexivity|cbn; discriminate| | |]; intro E; inversion E; subst; contradiction.
Qed.

Lemma fill_rate2_frame s n key : fld_of2 key <> fFR -> gq2 (fill_rate2 NW s n) key = gq2 s key.
Proof. intros Hf. unfold fill_rate2. apply (fold_left_inv (fun a => gq2 a key = gq2 s key)); [|reflexivity].
  intros a k _ Ha. unfold fill_rate_one2. rewrite gq2_sq2_other; [exact Ha|]. intro E. subst key. apply Hf. reflexivity. Qed.

(* ---- the whole shipping action of a node ---- *)
Theorem ND2_ships_action2 s n :
  NoDup (n_prods (C n)) -> (forall k, In k (n_prods (C n)) -> NoDup (custs n k)) -> (forall k, In k (n_prods (C n)) -> bom_ok (PC n k)) ->
  NN2 s -> ND2 s ->
  let e := ships_action2 NW dis s n in
  ND2 e /\
  (* shipping bound per product: what leaves the shelf (shipped, minus released held items, plus newly held items)
     is at most what was on hand plus what was produced this period *)
  (forall k, In k (n_prods (C n)) -> exists made, 0 <= made /\
     SF2 fOS e n k (custs n k) + SF2 fODI e n k (custs n k) - SF2 fODI s n k (custs n k) <= qmax 0 (gq2 s (fIL, n, Ext, k)) + made /\
     gq2 e (fIL, n, Ext, k) == gq2 s (fIL, n, Ext, k) + made - SF2 fPIO s n k (custs n k)) /\
  (* nothing is left pending *)
  (forall k, In k (n_prods (C n)) -> SF2 fPIO e n k (custs n k) == 0).
Proof.
  intros NDp Hc Hb HN HD. cbv zeta. unfold ships_action2.
  set (il0 := fun k => gq2 s (fIL, n, Ext, k)).
  pose proof (same_recv_ship2 s n) as S1. pose proof (NN2_recv_ship2 NW dis s n HN) as N1.
  set (s1 := recv_ship2 NW dis s n) in *.
  set (mk := made2 NW s1 n).
  assert (Hm : forall k, In k (n_prods (C n)) -> 0 <= mk k) by (intros k Hin; apply made2_bounds; [exact N1|apply (Hb k Hin)]).
  pose proof (NN2_produce2 NW s1 n Hb N1) as N2.
  destruct (produce_fold_nf n mk (n_prods (C n)) s1 NDp) as [P1 P2]. cbv zeta in P1, P2.
  unfold produce2 in *. fold mk in N2 |- *. set (s2 := fold_left (produce_one2 NW n mk) (n_prods (C n)) s1) in *.
  (* s2 against s on the node fields *)
  assert (E2 : forall f n' x k', NF2 f -> ~ ((f, n', x) = (fIL, n, Ext) /\ In k' (n_prods (C n))) -> gq2 s2 (f, n', x, k') = gq2 s (f, n', x, k')).
  { intros f n' x k' Hf Hne. rewrite P1 by assumption. apply S1. exact Hf. }
  assert (E2il : forall k, In k (n_prods (C n)) -> gq2 s2 (fIL, n, Ext, k) = il0 k + mk k).
  { intros k Hin. rewrite P2 by exact Hin. rewrite (S1 n k fIL Ext) by (unfold NF2; tauto). reflexivity. }
  assert (SFE : forall f k, NF2 f -> f <> fIL -> SF2 f s2 n k (custs n k) = SF2 f s n k (custs n k)).
  { intros f k Hf Hne. unfold SF2, qsumf. f_equal. apply map_ext. intros c. apply E2; [exact Hf|]. intros [E _]. inversion E. contradiction. }
  assert (PRE : forall k, In k (n_prods (C n)) -> PREk s2 n k (il0 k) (mk k)).
  { intros k Hin. destruct (HD n k) as (H1 & H2 & H3 & H4). unfold PREk.
    rewrite (SFE fBO), (SFE fPIO), (SFE fODI) by (try discriminate; unfold NF2; tauto).
    rewrite (E2il k Hin). rewrite !E2 by (try (unfold NF2; tauto); intros [E _]; discriminate).
    repeat split; try assumption; try reflexivity. }
  destruct (serve_prods_spec n il0 mk (n_prods (C n)) s2 NDp Hc Hm N2 PRE) as [PO FR]. cbv zeta in PO, FR.
  set (s3 := fold_left (fun s0 k => serve2 NW dis s0 n k (il0 k) (mk k)) (n_prods (C n)) s2) in *.
  assert (E4 : forall f n' x k', f <> fFR -> gq2 (fill_rate2 NW s3 n) (f, n', x, k') = gq2 s3 (f, n', x, k')).
  { intros f n' x k' Hf. apply fill_rate2_frame. exact Hf. }
  assert (A4 : forall n' k', same_at s3 (fill_rate2 NW s3 n) n' k').
  { intros n' k' f x Hf. apply E4. unfold NF2 in Hf. intuition congruence. }
  assert (SF4 : forall f k, f <> fFR -> SF2 f (fill_rate2 NW s3 n) n k (custs n k) = SF2 f s3 n k (custs n k)).
  { intros f k Hf. unfold SF2, qsumf. f_equal. apply map_ext. intros c. apply E4. exact Hf. }
  split; [|split].
  - intros n' k'. apply (NDk_same s3); [apply A4|].
    destruct (N.eq_dec n' n) as [En|Nn]; [destruct (in_dec N.eq_dec k' (n_prods (C n))) as [Hin|Hout]|].
    + subst n'. apply (PO k' Hin).
    + subst n'. apply (NDk_same s); [|apply HD]. intros f x Hf. rewrite FR by (right; exact Hout). apply E2; [exact Hf|]. intros [_ Hin]. contradiction.
    + apply (NDk_same s); [|apply HD]. intros f x Hf. rewrite FR by (left; exact Nn). apply E2; [exact Hf|]. intros [E _]. inversion E. contradiction.
  - intros k Hin. exists (mk k). split; [apply Hm; exact Hin|]. destruct (PO k Hin) as (_ & Q2 & Q3 & _).
    rewrite (SFE fODI) in Q2 by (try discriminate; unfold NF2; tauto). rewrite (SFE fPIO) in Q3 by (try discriminate; unfold NF2; tauto).
    rewrite !SF4 by discriminate. rewrite E4 by discriminate. split; [exact Q2|]. rewrite Q3. unfold il0. lra.
  - intros k Hin. destruct (PO k Hin) as (_ & _ & _ & Q4). rewrite SF4 by discriminate. exact Q4.
Qed.
End Node2.
