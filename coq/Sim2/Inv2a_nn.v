(* Stage-2 simulator invariants (group A), part 1: hypotheses on the configuration; non-negativity of every physical
   count ([NN2]) is preserved by every atomic node action - including the raw-material inventory, for which the
   raw-material shares of the production step are shown to add up to at most what is available. *)
From SV Require Import Sim.Model Sim.StateLemmas Sim.Inv_base Sim.Inv_node.
From SV Require Import Sim2.State2 Sim2.Model2.
From SV Require Import Sim2.Inv2a_tac.

(* ---------- hypotheses on one product's configuration ---------- *)
Definition pol_ok2 (pc : pcfg) : Prop :=
  match k_pol pc with SS rp lv => rp <= lv | RQ _ q => 0 <= q | FQ q => 0 <= q | _ => True end
  /\ match k_cap pc with Some k => 0 <= k | None => True end.
(* bill of materials: every raw material listed once, every network-BOM number positive *)
Definition bom_ok (pc : pcfg) : Prop := NoDup (map fst (k_bom pc)) /\ forall rb, In rb (k_bom pc) -> 0 < snd rb.

Lemma rule_nonneg2 pc ip : pol_ok2 pc -> 0 <= rule (k_pol pc) ip.
Proof. intros [H _]. destruct (k_pol pc) as [lv|rp lv|rp q|q|lv]; cbn [rule] in *.
  - qcases; lra.
  - destruct (qleb_spec ip rp) as [[? E]|[? E]]; rewrite E; lra.
  - destruct (qleb_spec ip rp) as [[? E]|[? E]]; rewrite E; lra.
  - exact H.
  - qcases; lra. Qed.
Lemma capq_nonneg pc q : pol_ok2 pc -> 0 <= q -> 0 <= capq (k_cap pc) q.
Proof. intros [_ H] Hq. unfold capq. pose proof BIG_pos. destruct (k_cap pc); qcases; lra. Qed.
Lemma split_order_nonneg sups : forall still, 0 <= still -> forall x, In x (split_order still sups) -> 0 <= snd x.
Proof. induction sups as [|p r IH]; intros still Hs x Hx; cbn [split_order] in Hx; [destruct Hx|].
  destruct Hx as [E|Hx]; [subst x; exact Hs|]. apply (IH (still - still)); [lra|exact Hx]. Qed.
Lemma nbom_nonneg pc r : (forall rb, In rb (k_bom pc) -> 0 < snd rb) -> 0 <= nbom pc r.
Proof. unfold nbom. induction (k_bom pc) as [|[r0 b0] t IH]; intros H; cbn [aget]; [lra|].
  destruct (N.eq_dec r r0); [apply Qlt_le_weak, (H (r0, b0)); left; reflexivity|]. apply IH. intros rb Hrb. apply H. right. exact Hrb. Qed.

Section Pres.
Variable (NW : net2) (dis : N -> bool) (dem err : N -> N -> Q).
Hypothesis dem_pos : forall n k, 0 <= dem n k.
Notation C := (cfg2 NW).
Notation PC := (PC NW).
Notation RC := (RC NW).

(* ================= orders phase ================= *)
Lemma NN2_gen_demand2 s n : NN2 s -> NN2 (gen_demand2 NW dem s n).
Proof. intros H. unfold gen_demand2. apply fold_left_inv; [|exact H]. intros a k _ Ha.
  destruct (has_ext (k_custs (PC n k))); [|exact Ha]. apply NNg_sl; [exact Ha|]. constructor; [apply dem_pos|constructor]. Qed.

Lemma NN2_recv_order_one2 n k s c : NN2 s -> NN2 (recv_order_one2 n k s c).
Proof. intros H. unfold recv_order_one2.
  assert (Hx : 0 <= hd0 (gl2 s (fOP, n, c, k))) by (apply hd0_nonneg, (NNg_l nnf), H).
  apply NNg_addq_pos; [|exact Hx]. apply NNg_addq_pos; [|exact Hx]. apply NNg_addq_pos; [|exact Hx]. apply NNg_addq_pos; [|exact Hx].
  apply NNg_sl; [|apply Forall_nonneg_zero0, (NNg_l nnf), H]. apply NNg_sq; [exact H|intros _; exact Hx]. Qed.
Lemma NN2_recv_orders2 s n : NN2 s -> NN2 (recv_orders2 NW s n).
Proof. intros H. unfold recv_orders2. apply fold_left_inv; [|exact H]. intros a k _ Ha.
  unfold recv_orders_prod. apply fold_left_inv; [|exact Ha]. intros b c _ Hb. apply NN2_recv_order_one2. exact Hb. Qed.

Lemma NN2_place_one2 n r s x : 0 <= snd x -> NN2 s -> NN2 (place_one2 NW n r s x).
Proof. intros Hq H. unfold place_one2. apply NNg_addq_pos; [|exact Hq]. apply NNg_addq; [|intros Hf; discriminate]. apply NNg_addq_pos; [|exact Hq].
  destruct (fst x) as [|p']; apply NNg_sl; try exact H; apply Forall_nonneg_add_at; try exact Hq; apply (NNg_l nnf), H. Qed.
Lemma NN2_place_rm2 n oq s rb : 0 <= oq -> 0 <= snd rb -> NN2 s -> NN2 (place_rm2 NW n oq s rb).
Proof. intros Hq Hb H. unfold place_rm2. apply fold_left_inv; [|exact H]. intros a x Hx Ha. apply NN2_place_one2; [|exact Ha].
  eapply split_order_nonneg; [|exact Hx]. apply Qmult_le_0_compat; assumption. Qed.
Lemma order_qty2_nonneg s n k : pol_ok2 (PC n k) -> 0 <= order_qty2 NW err s n k.
Proof. intros H. unfold order_qty2. rewrite Qred_correct. apply capq_nonneg; [exact H|]. apply rule_nonneg2. exact H. Qed.
Lemma NN2_place_prod2 s n k : pol_ok2 (PC n k) -> (forall rb, In rb (k_bom (PC n k)) -> 0 <= snd rb) -> NN2 s -> NN2 (place_prod2 NW err s n k).
Proof. intros Hp Hb H. unfold place_prod2. pose proof (order_qty2_nonneg s n k Hp) as Hq.
  apply fold_left_inv; [intros a rb Hrb Ha; apply NN2_place_rm2; [exact Hq|apply Hb; exact Hrb|exact Ha]|].
  apply NNg_addq; [|intros Hf; discriminate]. apply NNg_addq_pos; assumption. Qed.
Lemma NN2_place_orders2 s n :
  (forall k, In k (n_prods (C n)) -> pol_ok2 (PC n k) /\ forall rb, In rb (k_bom (PC n k)) -> 0 <= snd rb) ->
  NN2 s -> NN2 (place_orders2 NW dis err s n).
Proof. intros Hk H. unfold place_orders2. destruct (disk2 NW dis n dOP); [exact H|].
  apply fold_left_inv; [|exact H]. intros a k Hin Ha. destruct (Hk k Hin) as [Hp Hb]. apply NN2_place_prod2; assumption. Qed.
Lemma NN2_orders_action2 s n :
  (forall k, In k (n_prods (C n)) -> pol_ok2 (PC n k) /\ forall rb, In rb (k_bom (PC n k)) -> 0 <= snd rb) ->
  NN2 s -> NN2 (orders_action2 NW dis dem err s n).
Proof. intros Hk H. unfold orders_action2. apply NN2_place_orders2; [exact Hk|]. apply NN2_recv_orders2, NN2_gen_demand2, H. Qed.

(* ================= shipments phase ================= *)
Lemma NN2_recv_ship_one2 n r s p : NN2 s -> NN2 (recv_ship_one2 NW dis n r s p).
Proof. intros H. unfold recv_ship_one2.
  assert (Hr : 0 <= hd0 (gl2 s (fSP, n, p, r))) by (apply hd0_nonneg, (NNg_l nnf), H).
  assert (Hi : 0 <= gq2 s (fIDI, n, p, r)) by (apply (NNg_q nnf); [exact H|reflexivity]).
  set (rp := disk2 NW dis n dRP).
  assert (His : 0 <= (if rp then 0 else hd0 (gl2 s (fSP, n, p, r)) + gq2 s (fIDI, n, p, r))) by (destruct rp; lra).
  apply NNg_addq_pos; [|exact His]. apply NNg_sq; [|intros _; destruct rp; lra].
  apply NNg_addq; [|intros Hf; discriminate]. apply NNg_addq_pos; [|exact His].
  apply NNg_sl; [|apply Forall_nonneg_zero0, (NNg_l nnf), H]. apply NNg_sq; [exact H|intros _; exact His]. Qed.
Lemma NN2_recv_ship2 s n : NN2 s -> NN2 (recv_ship2 NW dis s n).
Proof. intros H. unfold recv_ship2. apply fold_left_inv; [|exact H]. intros a r _ Ha.
  unfold recv_ship_rm. apply fold_left_inv; [|exact Ha]. intros b p _ Hb. apply NN2_recv_ship_one2. exact Hb. Qed.

(* ---------- the raw-material shares ---------- *)
Lemma hist_fg_nonneg s n k : NN2 s -> 0 <= hist_fg NW s n k.
Proof. intros H. unfold hist_fg, look. destruct (lag NW n) as [|j]; [apply (NNg_q nnf); [exact H|reflexivity]|].
  apply nth_nonneg. apply (NNg_l nnf), H. Qed.

Lemma share2_nonneg s n r k : NN2 s -> 0 <= nbom (PC n k) r -> 0 <= share2 NW s n r k.
Proof. intros H Hb. unfold share2.
  destruct (qltb_spec 0 (gq2 s (fRM, n, Ext, r))) as [[Hp E]|[Hp E]]; rewrite E; [|lra].
  apply Qmult_le_0_compat; [lra|].
  destruct (qeqb (hist_oq NW s n r) 0).
  - unfold Qdiv. rewrite Qmult_1_l. apply Qinv_le_0_compat. apply qnat_nonneg.
  - destruct (qltb_spec 0 (qsumf (fun k' => hist_fg NW s n k' * nbom (PC n k') r) (prods_for NW n r))) as [[Ht Et]|[Ht Et]]; rewrite Et; [|lra].
    unfold Qdiv. apply Qmult_le_0_compat; [|apply Qlt_le_weak, Qinv_lt_0_compat; exact Ht].
    apply Qmult_le_0_compat; [apply hist_fg_nonneg; exact H|exact Hb]. Qed.

(* the shares of raw material r over the products that use it add up to at most what is available ... *)
Lemma share2_sum_le s n r : 0 <= gq2 s (fRM, n, Ext, r) ->
  qsumf (share2 NW s n r) (prods_for NW n r) <= gq2 s (fRM, n, Ext, r).
Proof. intros H0. unfold share2. set (avail := gq2 s (fRM, n, Ext, r)) in *.
  destruct (qltb_spec 0 avail) as [[Hp E]|[Hp E]]; rewrite E.
  2:{ rewrite qsumf_zero; [exact H0|intros; reflexivity]. }
  set (tot := qsumf (fun k' => hist_fg NW s n k' * nbom (PC n k') r) (prods_for NW n r)).
  destruct (qeqb (hist_oq NW s n r) 0).
  - rewrite qsumf_scale, qsumf_const. destruct (prods_for NW n r) as [|k0 t] eqn:EL.
    + assert (X : qnat (@length N []) * (1 / qnat (@length N [])) == 0) by reflexivity. rewrite X. lra.
    + assert (Hl : 0 < qnat (length (k0 :: t))) by (apply qnat_pos; cbn [length]; lia).
      assert (X : qnat (length (k0 :: t)) * (1 / qnat (length (k0 :: t))) == 1) by (field; lra).
      rewrite X. lra.
  - destruct (qltb_spec 0 tot) as [[Ht Et]|[Ht Et]]; rewrite Et.
    + rewrite qsumf_scale, qsumf_div. fold tot. assert (X : tot / tot == 1) by (field; lra). rewrite X. lra.
    + rewrite qsumf_scale. rewrite qsumf_zero by (intros; reflexivity). lra. Qed.
(* ... and to exactly what is available in the two regular cases (equal shares among at least one product; or
   proportional shares with a positive total) *)
Lemma share2_sum_eq s n r : 0 < gq2 s (fRM, n, Ext, r) ->
  (qeqb (hist_oq NW s n r) 0 = true /\ prods_for NW n r <> []) \/
  (qeqb (hist_oq NW s n r) 0 = false /\ 0 < qsumf (fun k' => hist_fg NW s n k' * nbom (PC n k') r) (prods_for NW n r)) ->
  qsumf (share2 NW s n r) (prods_for NW n r) == gq2 s (fRM, n, Ext, r).
Proof. intros Hp HC. unfold share2. set (avail := gq2 s (fRM, n, Ext, r)) in *.
  destruct (qltb_spec 0 avail) as [[_ E]|[Hn _]]; [rewrite E|lra].
  set (tot := qsumf (fun k' => hist_fg NW s n k' * nbom (PC n k') r) (prods_for NW n r)) in *.
  destruct HC as [[E1 Hne]|[E1 Ht]]; rewrite E1.
  - rewrite qsumf_scale, qsumf_const. destruct (prods_for NW n r) as [|k0 t] eqn:EL; [congruence|].
    assert (Hl : 0 < qnat (length (k0 :: t))) by (apply qnat_pos; cbn [length]; lia).
    assert (X : qnat (length (k0 :: t)) * (1 / qnat (length (k0 :: t))) == 1) by (field; lra).
    rewrite X. lra.
  - destruct (qltb_spec 0 tot) as [[_ Et]|[Hn _]]; [rewrite Et|lra].
    rewrite qsumf_scale, qsumf_div. fold tot. assert (X : tot / tot == 1) by (field; lra). rewrite X. lra. Qed.

(* the quantity made of product k is non-negative and needs at most k's share of every raw material *)
Lemma made2_bounds s n k : NN2 s -> (forall rb, In rb (k_bom (PC n k)) -> 0 < snd rb) ->
  0 <= made2 NW s n k /\ forall rb, In rb (k_bom (PC n k)) -> made2 NW s n k * snd rb <= share2 NW s n (fst rb) k.
Proof. intros H Hb. unfold made2. rewrite Qred_correct. split.
  - apply qmin_list_nonneg. apply Forall_forall. intros y Hy. apply in_map_iff in Hy. destruct Hy as (rb & Ey & Hrb). subst y.
    unfold Qdiv. apply Qmult_le_0_compat; [|apply Qlt_le_weak, Qinv_lt_0_compat, Hb, Hrb].
    apply share2_nonneg; [exact H|]. apply nbom_nonneg. exact Hb.
  - intros rb Hrb. pose proof (Hb rb Hrb) as Hp.
    assert (L : qmin_list (map (fun rb0 => share2 NW s n (fst rb0) k / snd rb0) (k_bom (PC n k))) <= share2 NW s n (fst rb) k / snd rb).
    { apply qmin_list_le. apply in_map_iff. exists rb. split; [reflexivity|exact Hrb]. }
    apply Qmult_le_compat_r with (z := snd rb) in L; [|lra].
    assert (X : share2 NW s n (fst rb) k / snd rb * snd rb == share2 NW s n (fst rb) k) by (field; lra).
    rewrite X in L. rewrite Qred_correct. exact L. Qed.

(* ---------- the production step ---------- *)
(* raw material consumed by one unit of product k: the BOM entries for r *)
Definition cons_of (n k r : N) : Q := qsumf (fun rb => if N.eqb (fst rb) r then snd rb else 0) (k_bom (PC n k)).

Lemma bom_fold_rm n made r : forall l s,
  gq2 (fold_left (fun s rb => addq2 s (fRM, n, Ext, fst rb) (- (made * snd rb))) l s) (fRM, n, Ext, r)
  == gq2 s (fRM, n, Ext, r) - made * qsumf (fun rb : N * Q => if N.eqb (fst rb) r then snd rb else 0) l.
Proof. unfold qsumf. induction l as [|[r0 b0] t IH]; intros s; cbn [fold_left map qsum fst snd]; [lra|].
  rewrite IH. destruct (N.eqb_spec r0 r) as [E|NE].
  - subst r0. rewrite gq2_addq2_same. lra.
  - rewrite gq2_addq2_other by (intro X; inversion X; congruence). lra. Qed.
Lemma bom_fold_frame n made : forall (l : list (N * Q)) s,
  let s' := fold_left (fun s rb => addq2 s (fRM, n, Ext, fst rb) (- (made * snd rb))) l s in
  (forall k, (forall r, k <> (fRM, n, Ext, r)) -> gq2 s' k = gq2 s k) /\ (forall k, gl2 s' k = gl2 s k).
Proof. intros l s. cbv zeta. apply (fold_left_inv (fun a => (forall k, (forall r, k <> (fRM, n, Ext, r)) -> gq2 a k = gq2 s k) /\ (forall k, gl2 a k = gl2 s k))).
  - intros a rb _ [A1 A2]. split; [intros k Hk; rewrite gq2_addq2_other by apply Hk; apply A1, Hk|intros k; rewrite gl2_addq2; apply A2].
  - split; reflexivity. Qed.

Lemma produce_one2_rm n mk s k r :
  gq2 (produce_one2 NW n mk s k) (fRM, n, Ext, r) == gq2 s (fRM, n, Ext, r) - mk k * cons_of n k r.
Proof. unfold produce_one2. rewrite !gq2_addq2_other by discriminate. apply bom_fold_rm. Qed.
(* apart from the raw-material inventory of node n, production only moves [made] into IL and CP and out of PFG *)
Lemma produce_one2_frame n mk s k :
  (forall key, fld_of2 key <> fRM -> key <> (fIL, n, Ext, k) -> key <> (fPFG, n, Ext, k) -> key <> (fCP, n, Ext, k) ->
     gq2 (produce_one2 NW n mk s k) key = gq2 s key) /\
  (forall f n' x i, (n', x) <> (n, Ext) -> gq2 (produce_one2 NW n mk s k) (f, n', x, i) = gq2 s (f, n', x, i)) /\
  gq2 (produce_one2 NW n mk s k) (fIL, n, Ext, k) = gq2 s (fIL, n, Ext, k) + mk k /\
  gq2 (produce_one2 NW n mk s k) (fCP, n, Ext, k) = gq2 s (fCP, n, Ext, k) + mk k /\
  (forall key, gl2 (produce_one2 NW n mk s k) key = gl2 s key).
Proof. unfold produce_one2.
  destruct (bom_fold_frame n (mk k) (k_bom (PC n k)) s) as [F L]. cbv zeta in F, L.
  set (s1 := fold_left _ (k_bom (PC n k)) s) in *.
  split; [|split; [|split; [|split]]].
  - intros key Hf H1 H2 H3. rewrite !gq2_addq2_other by assumption. apply F. intros r E. subst key. apply Hf. reflexivity.
  - intros f n' x i Hne. rewrite !gq2_addq2_other by (intro E; inversion E; subst; apply Hne; reflexivity).
    apply F. intros r E. inversion E; subst. apply Hne. reflexivity.
  - gs2. rewrite F by (intros r; discriminate). reflexivity.
  - gs2. rewrite F by (intros r; discriminate). reflexivity.
  - intros key. rewrite !gl2_addq2. apply L. Qed.

Lemma NNg_produce_one2 n mk s k : 0 <= mk k -> NNg nnf_norm s -> NNg nnf_norm (produce_one2 NW n mk s k).
Proof. intros Hm H. unfold produce_one2. apply NNg_addq_pos; [|exact Hm]. apply NNg_addq; [|intros Hf; discriminate]. apply NNg_addq; [|intros Hf; discriminate].
  apply fold_left_inv; [|exact H]. intros a rb _ Ha. apply NNg_addq; [exact Ha|intros Hf; discriminate]. Qed.

Lemma produce_fold_rm n mk r : forall l s,
  gq2 (fold_left (produce_one2 NW n mk) l s) (fRM, n, Ext, r) == gq2 s (fRM, n, Ext, r) - qsumf (fun k => mk k * cons_of n k r) l.
Proof. unfold qsumf. induction l as [|k t IH]; intros s; cbn [fold_left map qsum]; [lra|]. rewrite IH, produce_one2_rm. lra. Qed.
Lemma produce_fold_other n mk f n' x i : (n', x) <> (n, Ext) -> forall l s,
  gq2 (fold_left (produce_one2 NW n mk) l s) (f, n', x, i) = gq2 s (f, n', x, i).
Proof. intros Hne l s. apply (fold_left_inv (fun a => gq2 a (f, n', x, i) = gq2 s (f, n', x, i))); [|reflexivity].
  intros a k _ Ha. destruct (produce_one2_frame n mk a k) as (_ & F & _). rewrite F by exact Hne. exact Ha. Qed.
Lemma produce_fold_gl n mk key : forall l s, gl2 (fold_left (produce_one2 NW n mk) l s) key = gl2 s key.
Proof. intros l s. apply (fold_left_inv (fun a => gl2 a key = gl2 s key)); [|reflexivity].
  intros a k _ Ha. destruct (produce_one2_frame n mk a k) as (_ & _ & _ & _ & L). rewrite L. exact Ha. Qed.

(* what production takes of raw material r is at most the sum of the shares, hence at most what is there *)
Lemma produce2_rm_bound s n r : NN2 s -> (forall k, In k (n_prods (C n)) -> bom_ok (PC n k)) ->
  qsumf (fun k => made2 NW s n k * cons_of n k r) (n_prods (C n)) <= gq2 s (fRM, n, Ext, r).
Proof. intros H Hk.
  assert (H0 : 0 <= gq2 s (fRM, n, Ext, r)) by (apply (NNg_q nnf); [exact H|reflexivity]).
  apply Qle_trans with (qsumf (share2 NW s n r) (prods_for NW n r)); [|apply share2_sum_le; exact H0].
  unfold prods_for. rewrite <- qsumf_filter. apply qsumf_le. intros k Hin. destruct (Hk k Hin) as [ND Hb].
  destruct (made2_bounds s n k H Hb) as [M0 M1].
  unfold cons_of. rewrite (bom_sum_spec (k_bom (PC n k)) r ND). unfold uses.
  destruct (existsb (fun x => N.eqb (fst x) r) (k_bom (PC n k))) eqn:EX.
  - apply (M1 (r, aget N.eq_dec 0 (k_bom (PC n k)) r)). apply aget_in. exact EX.
  - lra. Qed.

Lemma NN2_produce2 s n : (forall k, In k (n_prods (C n)) -> bom_ok (PC n k)) -> NN2 s -> NN2 (produce2 NW s n).
Proof. intros Hk H. unfold produce2.
  assert (G : NNg nnf_norm (fold_left (produce_one2 NW n (made2 NW s n)) (n_prods (C n)) s)).
  { apply fold_left_inv; [|apply (NNg_weaken nnf); [intros f; destruct f; cbn; congruence|exact H]].
    intros a k Hin Ha. apply NNg_produce_one2; [|exact Ha]. apply made2_bounds; [exact H|apply (Hk k Hin)]. }
  split.
  - intros f n' x i Hf. destruct (fld_eq_dec f fRM) as [Ef|Nf].
    + subst f. destruct (N.eq_dec n' n) as [En|Nn]; [subst n'; destruct x as [|x']|].
      * rewrite produce_fold_rm. pose proof (produce2_rm_bound s n i H Hk). lra.
      * rewrite produce_fold_other by discriminate. apply (NNg_q nnf); [exact H|reflexivity].
      * rewrite produce_fold_other by (intro E; inversion E; contradiction). apply (NNg_q nnf); [exact H|reflexivity].
    + apply (NNg_q nnf_norm); [exact G|]. destruct f; try exact Hf; congruence.
  - intros key. rewrite produce_fold_gl. apply (NNg_l nnf), H. Qed.

(* ---------- serving the customers of one product ---------- *)
Lemma NN2_serve_one2 n k acc c : NN2 (fst acc) -> 0 <= snd acc ->
  NN2 (fst (serve_one2 NW dis n k acc c)) /\ 0 <= snd (serve_one2 NW dis n k acc c).
Proof.
  destruct acc as [s oh]. cbn [fst snd]. intros H Hoh. unfold serve_one2.
  set (sp := match c with Nd c' => disk2 NW dis c' dSP | Ext => false end).
  assert (Hb : 0 <= gq2 s (fBO, n, c, k)) by (apply (NNg_q nnf); [exact H|reflexivity]).
  assert (Hi : 0 <= gq2 s (fPIO, n, c, k)) by (apply (NNg_q nnf); [exact H|reflexivity]).
  assert (Hd : 0 <= gq2 s (fODI, n, c, k)) by (apply (NNg_q nnf); [exact H|reflexivity]).
  pose proof (serve_calc_spec oh _ _ _ sp Hoh Hb Hi Hd) as S. cbv zeta in S.
  set (o := serve_calc oh (gq2 s (fBO, n, c, k)) (gq2 s (fPIO, n, c, k)) (gq2 s (fODI, n, c, k)) sp) in *.
  destruct S as (_ & Poh & _ & Pbo & Pos & Podi & _ & _ & Pdm & _).
  assert (HN : NN2 (addq2 (addq2 (addq2 (sq2 (sq2 (sq2 (addq2 (addq2 (addq2 (sq2 s (fOS, n, c, k) (o_os o)) (fDMFS, n, Ext, k) (o_dmfs o)) (fDMC, n, Ext, k) (o_dmfs o))
             (fIL, n, Ext, k) (- gq2 s (fPIO, n, c, k))) (fBO, n, c, k) (o_bo o)) (fODI, n, c, k) (o_odi o)) (fPIO, n, c, k) 0)
             (fPEND, n, Ext, k) (- gq2 s (fPIO, n, c, k))) (fSRV, n, Ext, k) (gq2 s (fPIO, n, c, k))) (fcOS, n, c, k) (o_os o))).
  { apply NNg_addq_pos; [|exact Pos]. apply NNg_addq_pos; [|exact Hi]. apply NNg_addq; [|intros Hf; discriminate].
    apply NNg_sq; [|intros _; lra]. apply NNg_sq; [|intros _; exact Podi]. apply NNg_sq; [|intros _; exact Pbo].
    apply NNg_addq; [|intros Hf; discriminate]. apply NNg_addq_pos; [|exact Pdm]. apply NNg_addq_pos; [|exact Pdm].
    apply NNg_sq; [exact H|intros _; exact Pos]. }
  destruct c as [|c']; cbn [fst snd]; (split; [|exact Poh]); [exact HN|].
  apply NNg_sl; [exact HN|]. apply Forall_nonneg_add_at; [exact Pos|]. apply (NNg_l nnf), HN.
Qed.
Lemma NN2_serve_fold2 n k : forall l acc, NN2 (fst acc) -> 0 <= snd acc ->
  NN2 (fst (fold_left (serve_one2 NW dis n k) l acc)) /\ 0 <= snd (fold_left (serve_one2 NW dis n k) l acc).
Proof. induction l as [|c r IH]; intros acc H Hoh; cbn [fold_left]; [split; assumption|].
  destruct (NN2_serve_one2 n k acc c H Hoh) as [H1 H2]. apply IH; assumption. Qed.
Lemma NN2_serve2 s n k il0 made : NN2 s -> 0 <= made -> NN2 (serve2 NW dis s n k il0 made).
Proof. intros H Hm. unfold serve2. apply NN2_serve_fold2; cbn [fst snd].
  - apply NNg_sq; [exact H|intros _; lra].
  - qcases; lra. Qed.

Lemma NN2_fill_rate_one2 n s k : NN2 s -> NN2 (fill_rate_one2 n s k).
Proof. intros H. unfold fill_rate_one2. apply NNg_sq; [exact H|]. intros _.
  destruct (qltb_spec 0 (gq2 s (fDC, n, Ext, k))) as [[Hp E]|[Hp E]]; rewrite E; [|lra].
  assert (0 <= gq2 s (fDMC, n, Ext, k)) by (apply (NNg_q nnf); [exact H|reflexivity]).
  unfold Qdiv. apply Qmult_le_0_compat; [assumption|]. apply Qlt_le_weak, Qinv_lt_0_compat. exact Hp. Qed.
Lemma NN2_fill_rate2 s n : NN2 s -> NN2 (fill_rate2 NW s n).
Proof. intros H. unfold fill_rate2. apply fold_left_inv; [|exact H]. intros a k _ Ha. apply NN2_fill_rate_one2. exact Ha. Qed.

Lemma NN2_serve_prods n il0 mk l s : (forall k, In k l -> 0 <= mk k) -> NN2 s ->
  NN2 (fold_left (fun s k => serve2 NW dis s n k (il0 k) (mk k)) l s).
Proof. intros Hm H. apply fold_left_inv; [|exact H]. intros a k Hin Ha. apply NN2_serve2; [exact Ha|apply Hm; exact Hin]. Qed.

Lemma NN2_ships_action2 s n : (forall k, In k (n_prods (C n)) -> bom_ok (PC n k)) -> NN2 s -> NN2 (ships_action2 NW dis s n).
Proof. intros Hk H. unfold ships_action2. pose proof (NN2_recv_ship2 s n H) as H1.
  apply NN2_fill_rate2. apply NN2_serve_prods; [|apply NN2_produce2; assumption].
  intros k Hin. apply made2_bounds; [exact H1|apply (Hk k Hin)]. Qed.

(* ================= end of period ================= *)
Lemma NN2_next_sup n r s p : NN2 s -> NN2 (next_sup NW dis n r s p).
Proof. intros H. unfold next_sup. apply NNg_sq; [|intros _; lra]. apply NNg_sq; [|intros _; lra].
  assert (H1 : NN2 (if disk2 NW dis n dTP then s else sl2 s (fSP, n, p, r) (shift_sp (gl2 s (fSP, n, p, r))))).
  { destruct (disk2 NW dis n dTP); [exact H|]. apply NNg_sl; [exact H|]. apply Forall_nonneg_shift_sp, (NNg_l nnf), H. }
  apply NNg_sl; [exact H1|]. unfold push_hist. apply nonneg_firstn. constructor; [apply (NNg_q nnf); [exact H1|reflexivity]|apply (NNg_l nnf), H1]. Qed.
Lemma NN2_next_cust n k s x : NN2 s -> NN2 (next_cust n k s x).
Proof. intros H. unfold next_cust. apply NNg_sq; [|intros _; lra]. apply NNg_sq; [|intros _; lra].
  assert (H1 : NN2 (addq2 s (fLOST, n, x, k) (hd0 (gl2 s (fOP, n, x, k))))) by (apply NNg_addq_pos; [exact H|apply hd0_nonneg, (NNg_l nnf), H]).
  apply NNg_sl; [exact H1|]. apply Forall_nonneg_shift_op, (NNg_l nnf), H1. Qed.
Lemma NN2_next_prod n s k : NN2 s -> NN2 (next_prod NW n s k).
Proof. intros H. unfold next_prod. apply NNg_sq; [|intros _; lra]. apply NNg_sq; [|intros _; lra]. apply NNg_sq; [|intros _; lra].
  assert (H1 : NN2 (fold_left (next_cust n k) (k_custs (PC n k)) s)) by (apply fold_left_inv; [intros a x _ Ha; apply NN2_next_cust; exact Ha|exact H]).
  apply NNg_sl; [exact H1|]. unfold push_hist. apply nonneg_firstn. constructor; [apply (NNg_q nnf); [exact H1|reflexivity]|apply (NNg_l nnf), H1]. Qed.
Lemma NN2_next_node2 s n : NN2 s -> NN2 (next_node2 NW dis s n).
Proof. intros H. unfold next_node2. apply fold_left_inv; [intros a k _ Ha; apply NN2_next_prod; exact Ha|].
  apply fold_left_inv; [|exact H]. intros a r _ Ha. apply fold_left_inv; [|exact Ha]. intros b p _ Hb. apply NN2_next_sup. exact Hb. Qed.
Lemma NN2_next_period2 s : NN2 s -> NN2 (next_period2 NW dis s).
Proof. intros H. unfold next_period2. apply NNg_norm. apply fold_left_inv; [|exact H]. intros a n _ Ha. apply NN2_next_node2. exact Ha. Qed.
End Pres.
