(* Stage-2 simulator invariants (group B), part 4: per-period forms. The cumulative ghost counters fcIO / fcOS / fcIS / fcOQ
   advance, in each period, by exactly the per-period state variables fIO / fOS / fIS / fOQ of the record (inbound
   orders, outbound shipments, inbound shipments, order quantities), because every node is handled exactly once per phase
   (duplicate-free visit lists) and its product / raw-material / customer / supplier lists are duplicate-free.
   With them the cumulative identities of Main2b.v become period-by-period statements about consecutive records. *)
From SV Require Import Base.Qx.
From SV Require Import Sim.Model Sim.StateLemmas Sim.Inv_base Sim.Inv_node Sim.Inv_bound.
From SV Require Import Sim2.State2 Sim2.Model2.
From SV Require Import Sim2.Inv2b_tac Sim2.Inv2b_book Sim2.Inv2b_pipe Sim2.Inv2b_init.

(* a fold over a duplicate-free list in which the step for [b] leaves the [a]-part of the state alone (a <> b):
   the final [a]-part is the one produced by the single step for [a], applied to a state with the initial [a]-part *)
Lemma fold_once {S A} (f : S -> A -> S) (R : A -> S -> S -> Prop) :
  (forall a s, R a s s) -> (forall a s1 s2 s3, R a s1 s2 -> R a s2 s3 -> R a s1 s3) ->
  (forall s a b, a <> b -> R a s (f s b)) ->
  forall l s0 a, NoDup l -> In a l -> exists s1, R a s0 s1 /\ R a (f s1 a) (fold_left f l s0).
Proof. intros Rr Rt Ro. induction l as [|b r IH]; intros s0 a ND Hin; [destruct Hin|]. inversion ND as [|? ? Hb Hr]; subst. cbn [fold_left].
  destruct Hin as [E|Hin].
  - subst b. exists s0. split; [apply Rr|]. apply (fold_left_inv (fun t => R a (f s0 a) t)); [|apply Rr].
    intros t x Hx Ht. apply (Rt _ _ _ _ Ht). apply Ro. intro E; subst; contradiction.
  - destruct (IH (f s0 b) a Hr Hin) as (s1 & H1 & H2). exists s1. split; [|exact H2].
    apply (Rt _ _ (f s0 b)); [apply Ro; intro E; subst; contradiction|exact H1]. Qed.

(* two rational keys with the same (node, neighbour, item) agree in two states *)
Definition same2 (f1 f2 : fld) (m : N) (x : nb) (k : N) (s s' : st2) : Prop :=
  gq2 s' (f1, m, x, k) = gq2 s (f1, m, x, k) /\ gq2 s' (f2, m, x, k) = gq2 s (f2, m, x, k).
Lemma same2_refl f1 f2 m x k s : same2 f1 f2 m x k s s.  Proof. split; reflexivity. Qed.
Lemma same2_trans f1 f2 m x k s1 s2 s3 : same2 f1 f2 m x k s1 s2 -> same2 f1 f2 m x k s2 s3 -> same2 f1 f2 m x k s1 s3.
Proof. intros [A1 A2] [B1 B2]. split; [rewrite B1; exact A1|rewrite B2; exact A2]. Qed.
Lemma same2_agree fs f1 f2 m x k s s' : fs f1 = true -> fs f2 = true -> agree fs s s' -> same2 f1 f2 m x k s s'.
Proof. intros F1 F2 A. split; apply A; assumption. Qed.

Ltac qother HK := repeat first [rewrite gq2_sl2 | rewrite gq2_addq2_other by apply HK | rewrite gq2_sq2_other by apply HK].

Section Period.
Variable NW : net2.
Notation C := (cfg2 NW).
Notation PC := (PC NW).
Notation RC := (RC NW).
Hypothesis W : wfB_net2 NW.
(* the additional (decidable) hypotheses of the per-period forms: every node is visited exactly once in each phase,
   and the raw-material list of a node is duplicate-free *)
Record once2 : Prop := {
  o_ord : NoDup (order_visit2 NW);
  o_ship : NoDup (ship_visit2 NW);
  o_rms : forall n, In n (nodes2 NW) -> NoDup (n_rms (C n)) }.
Hypothesis O : once2.
Variable (dis : N -> bool) (dem err : N -> N -> Q).

(* ---- rational keys of other nodes / items / neighbours are never written ---- *)
Lemma orders_q_other2 s b f n x i : n <> b -> gq2 (orders_action2 NW dis dem err s b) (f, n, x, i) = gq2 s (f, n, x, i).
Proof. intros Hne. assert (HK : forall g y j, (f, n, x, i) <> (g, b, y, j)) by (intros g y j E; inversion E; subst; apply Hne; reflexivity).
  unfold orders_action2, place_orders2.
  assert (A : gq2 (recv_orders2 NW (gen_demand2 NW dem s b) b) (f, n, x, i) = gq2 s (f, n, x, i)).
  { unfold recv_orders2, recv_orders_prod. apply (fold_left_inv (fun a => gq2 a (f, n, x, i) = gq2 s (f, n, x, i))).
    - intros a k _ Ha. apply (fold_left_inv (fun a => gq2 a (f, n, x, i) = gq2 s (f, n, x, i))); [|exact Ha].
      intros c y _ Hc. unfold recv_order_one2. qother HK. exact Hc.
    - unfold gen_demand2. apply (fold_left_inv (fun a => gq2 a (f, n, x, i) = gq2 s (f, n, x, i))); [|reflexivity].
      intros a k _ Ha. destruct (has_ext _); [rewrite gq2_sl2|]; exact Ha. }
  destruct (disk2 NW dis b dOP); [exact A|].
  apply (fold_left_inv (fun a => gq2 a (f, n, x, i) = gq2 s (f, n, x, i))); [|exact A].
  intros a k _ Ha. unfold place_prod2. apply (fold_left_inv (fun a => gq2 a (f, n, x, i) = gq2 s (f, n, x, i))); [|qother HK; exact Ha].
  intros c rb _ Hc. unfold place_rm2. apply (fold_left_inv (fun a => gq2 a (f, n, x, i) = gq2 s (f, n, x, i))); [|exact Hc].
  intros d y _ Hd. unfold place_one2. qother HK. destruct (fst y); rewrite gq2_sl2; exact Hd. Qed.

Lemma serve_q_other s n k c o io K : (forall g y, K <> (g, n, y, k)) -> gq2 (serve_q s n k c o io) K = gq2 s K.
Proof. intros HK. unfold serve_q. qother HK. reflexivity. Qed.
Lemma serve2_other s m k' il0 made f n x i : (n, i) <> (m, k') -> gq2 (serve2 NW dis s m k' il0 made) (f, n, x, i) = gq2 s (f, n, x, i).
Proof. intros Hne. assert (HK : forall g y, (f, n, x, i) <> (g, m, y, k')) by (intros g y E; inversion E; subst; apply Hne; reflexivity).
  unfold serve2. apply (fold_left_inv (fun a => gq2 (fst a) (f, n, x, i) = gq2 s (f, n, x, i))); [|cbn [fst]; qother HK; reflexivity].
  intros [a oh] c _ Ha. cbn [fst] in Ha. rewrite serve_one2_eq. destruct c; cbn [fst]; rewrite ?gq2_sl2; rewrite serve_q_other by exact HK; exact Ha. Qed.
Lemma recv_ship_rm_other s m r' f n x i : (n, i) <> (m, r') -> gq2 (recv_ship_rm NW dis m s r') (f, n, x, i) = gq2 s (f, n, x, i).
Proof. intros Hne. assert (HK : forall g y, (f, n, x, i) <> (g, m, y, r')) by (intros g y E; inversion E; subst; apply Hne; reflexivity).
  unfold recv_ship_rm. apply (fold_left_inv (fun a => gq2 a (f, n, x, i) = gq2 s (f, n, x, i))); [|reflexivity].
  intros a p _ Ha. unfold recv_ship_one2. qother HK. exact Ha. Qed.
Lemma ships_q_other2 s b f n x i : n <> b -> gq2 (ships_action2 NW dis s b) (f, n, x, i) = gq2 s (f, n, x, i).
Proof. intros Hne. assert (HK : forall g y j, (f, n, x, i) <> (g, b, y, j)) by (intros g y j E; inversion E; subst; apply Hne; reflexivity).
  assert (Hn2 : forall j, (n, i) <> (b, j)) by (intros j E; inversion E; subst; apply Hne; reflexivity).
  unfold ships_action2, fill_rate2.
  apply (fold_left_inv (fun a => gq2 a (f, n, x, i) = gq2 s (f, n, x, i))); [intros a k _ Ha; unfold fill_rate_one2; qother HK; exact Ha|].
  apply (fold_left_inv (fun a => gq2 a (f, n, x, i) = gq2 s (f, n, x, i))); [intros a k _ Ha; rewrite serve2_other by apply Hn2; exact Ha|].
  unfold produce2. apply (fold_left_inv (fun a => gq2 a (f, n, x, i) = gq2 s (f, n, x, i))).
  { intros a k _ Ha. unfold produce_one2. qother HK.
    apply (fold_left_inv (fun a => gq2 a (f, n, x, i) = gq2 s (f, n, x, i))); [|exact Ha]. intros c rb _ Hc. qother HK. exact Hc. }
  unfold recv_ship2. apply (fold_left_inv (fun a => gq2 a (f, n, x, i) = gq2 s (f, n, x, i))); [|reflexivity].
  intros a r _ Ha. rewrite recv_ship_rm_other by apply Hn2. exact Ha. Qed.
Lemma recv_prod_other s m k' f n x i : (n, i) <> (m, k') -> gq2 (recv_orders_prod NW m s k') (f, n, x, i) = gq2 s (f, n, x, i).
Proof. intros Hne. assert (HK : forall g y, (f, n, x, i) <> (g, m, y, k')) by (intros g y E; inversion E; subst; apply Hne; reflexivity).
  unfold recv_orders_prod. apply (fold_left_inv (fun a => gq2 a (f, n, x, i) = gq2 s (f, n, x, i))); [|reflexivity].
  intros a c _ Ha. unfold recv_order_one2. qother HK. exact Ha. Qed.

(* ---- inbound orders: fcIO advances by fIO ---- *)
Lemma io_advance s m x k : cus_edge NW m x k ->
  gq2 (run_actions2 NW dis dem err s) (fcIO, m, x, k) = gq2 s (fcIO, m, x, k) + gq2 (run_actions2 NW dis dem err s) (fIO, m, x, k).
Proof. intros (Hm & Hk & Hx). pose proof (w_node NW W m Hm) as Wm. unfold run_actions2.
  set (s1 := fold_left (orders_action2 NW dis dem err) (order_visit2 NW) s).
  set (iof := fun f => match f with fIO | fcIO => true | _ => false end).
  (* the shipments phase writes neither field *)
  assert (SH : same2 fcIO fIO m x k s1 (fold_left (ships_action2 NW dis) (ship_visit2 NW) s1)).
  { apply (same2_agree iof); try reflexivity. apply (fold_left_inv (fun a => agree iof s1 a)); [|apply agree_refl]. intros a n _ Ha. apply (agree_trans _ _ _ _ Ha). unfold ships_action2.
    apply (agree_trans _ _ (recv_ship2 NW dis a n)); [apply agree_recv_ship; reflexivity|].
    apply (agree_trans _ _ (produce2 NW (recv_ship2 NW dis a n) n)); [apply agree_produce; reflexivity|].
    apply (agree_trans _ _ (fold_left (fun s0 k0 => serve2 NW dis s0 n k0 (gq2 a (fIL, n, Ext, k0)) (made2 NW (recv_ship2 NW dis a n) n k0)) (n_prods (C n)) (produce2 NW (recv_ship2 NW dis a n) n)));
      [apply agree_serves; reflexivity|apply agree_fill_rate; reflexivity]. }
  (* node level *)
  destruct (fold_once (orders_action2 NW dis dem err) (fun n => same2 fcIO fIO n x k)
              (fun a t => same2_refl _ _ a x k t) (fun a => same2_trans _ _ a x k)
              (fun t a b Hab => conj (orders_q_other2 t b fcIO a x k Hab) (orders_q_other2 t b fIO a x k Hab))
              (order_visit2 NW) s m (o_ord O) (w_ord NW W m Hm)) as (t1 & T1 & T2). fold s1 in T2.
  (* inside the node's action: only recv_orders2 writes the two fields *)
  set (g := gen_demand2 NW dem t1 m).
  assert (G1 : same2 fcIO fIO m x k t1 g) by (apply (same2_agree iof); try reflexivity; apply agree_gen_demand).
  assert (G2 : same2 fcIO fIO m x k (recv_orders2 NW g m) (orders_action2 NW dis dem err t1 m)).
  { unfold orders_action2. fold g. apply (same2_agree iof); try reflexivity. apply agree_place_orders; reflexivity. }
  (* product level *)
  destruct (fold_once (recv_orders_prod NW m) (fun j => same2 fcIO fIO m x j)
              (fun a t => same2_refl _ _ m x a t) (fun a => same2_trans _ _ m x a)
              (fun t a b Hab => conj (recv_prod_other t m b fcIO m x a (fun E => Hab ltac:(congruence))) (recv_prod_other t m b fIO m x a (fun E => Hab ltac:(congruence))))
              (n_prods (C m)) g k (w_prods NW m Wm) Hk) as (t2 & P1 & P2). fold (recv_orders2 NW g m) in P2.
  (* customer level *)
  assert (RO : forall t (a b : nb), a <> b -> same2 fcIO fIO m a k t (recv_order_one2 m k t b)).
  { intros t a b Hab. unfold same2, recv_order_one2. split; gs2; reflexivity. }
  destruct (fold_once (recv_order_one2 m k) (fun c => same2 fcIO fIO m c k)
              (fun a t => same2_refl _ _ m a k t) (fun a => same2_trans _ _ m a k) RO
              (k_custs (PC m k)) t2 x (w_custs NW m Wm k Hk) Hx) as (t3 & C1 & C2). fold (recv_orders_prod NW m t2 k) in C2.
  assert (EF : gq2 (recv_order_one2 m k t3 x) (fcIO, m, x, k) = gq2 t3 (fcIO, m, x, k) + gq2 (recv_order_one2 m k t3 x) (fIO, m, x, k))
    by (unfold recv_order_one2; gs2; reflexivity).
  destruct SH as [S1 S2], T1 as [T11 T12], T2 as [T21 T22], G1 as [G11 G12], G2 as [G21 G22], P1 as [P11 P12], P2 as [P21 P22], C1 as [C11 C12], C2 as [C21 C22].
  rewrite S1, S2, T21, T22, G21, G22, P21, P22, C21, C22, EF, C11, P11, G11, T11. reflexivity. Qed.

(* ---- outbound shipments: fcOS advances by fOS ---- *)
Lemma os_advance s m x k : cus_edge NW m x k ->
  gq2 (run_actions2 NW dis dem err s) (fcOS, m, x, k) = gq2 s (fcOS, m, x, k) + gq2 (run_actions2 NW dis dem err s) (fOS, m, x, k).
Proof. intros (Hm & Hk & Hx). pose proof (w_node NW W m Hm) as Wm. unfold run_actions2.
  set (s1 := fold_left (orders_action2 NW dis dem err) (order_visit2 NW) s).
  set (osf := fun f => match f with fOS | fcOS => true | _ => false end).
  assert (OR : same2 fcOS fOS m x k s s1).
  { apply (same2_agree osf); try reflexivity. apply (fold_left_inv (fun a => agree osf s a)); [|apply agree_refl]. intros a n _ Ha. apply (agree_trans _ _ _ _ Ha). unfold orders_action2.
    apply (agree_trans _ _ (gen_demand2 NW dem a n)); [apply agree_gen_demand|].
    apply (agree_trans _ _ (recv_orders2 NW (gen_demand2 NW dem a n) n)); [apply agree_recv_orders; reflexivity|apply agree_place_orders; reflexivity]. }
  destruct (fold_once (ships_action2 NW dis) (fun n => same2 fcOS fOS n x k)
              (fun a t => same2_refl _ _ a x k t) (fun a => same2_trans _ _ a x k)
              (fun t a b Hab => conj (ships_q_other2 t b fcOS a x k Hab) (ships_q_other2 t b fOS a x k Hab))
              (ship_visit2 NW) s1 m (o_ship O) (w_ship NW W m Hm)) as (t1 & T1 & T2).
  (* inside the node's action *)
  set (il0 := fun j => gq2 t1 (fIL, m, Ext, j)). set (mk := made2 NW (recv_ship2 NW dis t1 m) m).
  set (g := produce2 NW (recv_ship2 NW dis t1 m) m).
  assert (G1 : same2 fcOS fOS m x k t1 g).
  { apply (same2_agree osf); try reflexivity. apply (agree_trans _ _ (recv_ship2 NW dis t1 m)); [apply agree_recv_ship; reflexivity|apply agree_produce; reflexivity]. }
  set (sv := fun s0 j => serve2 NW dis s0 m j (il0 j) (mk j)).
  assert (G2 : same2 fcOS fOS m x k (fold_left sv (n_prods (C m)) g) (ships_action2 NW dis t1 m)).
  { unfold ships_action2. fold il0 mk g. apply (same2_agree osf); try reflexivity. apply agree_fill_rate. reflexivity. }
  destruct (fold_once sv (fun j => same2 fcOS fOS m x j)
              (fun a t => same2_refl _ _ m x a t) (fun a => same2_trans _ _ m x a)
              (fun t a b Hab => conj (serve2_other t m b (il0 b) (mk b) fcOS m x a (fun E => Hab ltac:(congruence))) (serve2_other t m b (il0 b) (mk b) fOS m x a (fun E => Hab ltac:(congruence))))
              (n_prods (C m)) g k (w_prods NW m Wm) Hk) as (t2 & P1 & P2).
  (* customer level: the state of the fold is (state, on-hand) *)
  set (R := fun (c : nb) (a b : st2 * Q) => same2 fcOS fOS m c k (fst a) (fst b)).
  assert (RO : forall (t : st2 * Q) (a b : nb), a <> b -> R a t (serve_one2 NW dis m k t b)).
  { intros [t oh] a b Hab. unfold R. cbn [fst]. rewrite serve_one2_eq.
    assert (Q1 : forall o io, same2 fcOS fOS m a k t (serve_q t m k b o io)) by (intros o io; unfold same2, serve_q; split; gs2; reflexivity).
    destruct b; cbn [fst]; [apply Q1|]. destruct (Q1 (serve_o NW dis t m k (Nd i) oh) (gq2 t (fPIO, m, Nd i, k))) as [A1 A2]. split; rewrite gq2_sl2; assumption. }
  destruct (fold_once (serve_one2 NW dis m k) R (fun a t => same2_refl _ _ m a k (fst t)) (fun a t1 t2 t3 => same2_trans _ _ m a k (fst t1) (fst t2) (fst t3)) RO
              (k_custs (PC m k)) (sq2 t2 (fDMFS, m, Ext, k) 0, qmax 0 (il0 k) + mk k) x (w_custs NW m Wm k Hk) Hx) as ([t3 oh3] & C1 & C2).
  unfold R in C1, C2. cbn [fst] in C1. change (fst (fold_left (serve_one2 NW dis m k) (k_custs (PC m k)) (sq2 t2 (fDMFS, m, Ext, k) 0, qmax 0 (il0 k) + mk k))) with (sv t2 k) in C2.
  assert (EF : gq2 (fst (serve_one2 NW dis m k (t3, oh3) x)) (fcOS, m, x, k) = gq2 t3 (fcOS, m, x, k) + gq2 (fst (serve_one2 NW dis m k (t3, oh3) x)) (fOS, m, x, k)).
  { rewrite serve_one2_eq. destruct x; cbn [fst]; rewrite ?gq2_sl2; unfold serve_q; gs2; reflexivity. }
  assert (D1 : gq2 (sq2 t2 (fDMFS, m, Ext, k) 0) (fcOS, m, x, k) = gq2 t2 (fcOS, m, x, k)) by (gs2; reflexivity).
  destruct OR as [O1 O2], T1 as [T11 T12], T2 as [T21 T22], G1 as [G11 G12], G2 as [G21 G22], P1 as [P11 P12], P2 as [P21 P22], C1 as [C11 C12], C2 as [C21 C22].
  rewrite T21, T22, G21, G22, P21, P22, C21, C22, EF, C11, D1, P11, G11, T11, O1. reflexivity. Qed.

(* ---- inbound shipments: fcIS advances by fIS ---- *)
Lemma is_advance s m p r : sup_edge NW m p r ->
  gq2 (run_actions2 NW dis dem err s) (fcIS, m, p, r) = gq2 s (fcIS, m, p, r) + gq2 (run_actions2 NW dis dem err s) (fIS, m, p, r).
Proof. intros (Hm & Hr & Hp). pose proof (w_node NW W m Hm) as Wm. unfold run_actions2.
  set (s1 := fold_left (orders_action2 NW dis dem err) (order_visit2 NW) s).
  set (isf := fun f => match f with fIS | fcIS => true | _ => false end).
  assert (OR : same2 fcIS fIS m p r s s1).
  { apply (same2_agree isf); try reflexivity. apply (fold_left_inv (fun a => agree isf s a)); [|apply agree_refl]. intros a n _ Ha. apply (agree_trans _ _ _ _ Ha). unfold orders_action2.
    apply (agree_trans _ _ (gen_demand2 NW dem a n)); [apply agree_gen_demand|].
    apply (agree_trans _ _ (recv_orders2 NW (gen_demand2 NW dem a n) n)); [apply agree_recv_orders; reflexivity|apply agree_place_orders; reflexivity]. }
  destruct (fold_once (ships_action2 NW dis) (fun n => same2 fcIS fIS n p r)
              (fun a t => same2_refl _ _ a p r t) (fun a => same2_trans _ _ a p r)
              (fun t a b Hab => conj (ships_q_other2 t b fcIS a p r Hab) (ships_q_other2 t b fIS a p r Hab))
              (ship_visit2 NW) s1 m (o_ship O) (w_ship NW W m Hm)) as (t1 & T1 & T2).
  set (g := recv_ship2 NW dis t1 m).
  assert (G2 : same2 fcIS fIS m p r g (ships_action2 NW dis t1 m)).
  { unfold ships_action2. fold g. apply (same2_agree isf); try reflexivity.
    apply (agree_trans _ _ (produce2 NW g m)); [apply agree_produce; reflexivity|].
    apply (agree_trans _ _ (fold_left (fun s0 k0 => serve2 NW dis s0 m k0 (gq2 t1 (fIL, m, Ext, k0)) (made2 NW g m k0)) (n_prods (C m)) (produce2 NW g m)));
      [apply agree_serves; reflexivity|apply agree_fill_rate; reflexivity]. }
  destruct (fold_once (recv_ship_rm NW dis m) (fun j => same2 fcIS fIS m p j)
              (fun a t => same2_refl _ _ m p a t) (fun a => same2_trans _ _ m p a)
              (fun t a b Hab => conj (recv_ship_rm_other t m b fcIS m p a (fun E => Hab ltac:(congruence))) (recv_ship_rm_other t m b fIS m p a (fun E => Hab ltac:(congruence))))
              (n_rms (C m)) t1 r (o_rms O m Hm) Hr) as (t2 & P1 & P2). fold (recv_ship2 NW dis t1 m) in P2. fold g in P2.
  assert (RO : forall t (a b : nb), a <> b -> same2 fcIS fIS m a r t (recv_ship_one2 NW dis m r t b)).
  { intros t a b Hab. unfold same2, recv_ship_one2. split; gs2; reflexivity. }
  destruct (fold_once (recv_ship_one2 NW dis m r) (fun c => same2 fcIS fIS m c r)
              (fun a t => same2_refl _ _ m a r t) (fun a => same2_trans _ _ m a r) RO
              (m_sups (RC m r)) t2 p (w_sups NW m Wm r Hr) Hp) as (t3 & C1 & C2). fold (recv_ship_rm NW dis m t2 r) in C2.
  assert (EF : gq2 (recv_ship_one2 NW dis m r t3 p) (fcIS, m, p, r) = gq2 t3 (fcIS, m, p, r) + gq2 (recv_ship_one2 NW dis m r t3 p) (fIS, m, p, r))
    by (unfold recv_ship_one2; gs2; reflexivity).
  destruct OR as [O1 O2], T1 as [T11 T12], T2 as [T21 T22], G2 as [G21 G22], P1 as [P11 P12], P2 as [P21 P22], C1 as [C11 C12], C2 as [C21 C22].
  rewrite T21, T22, G21, G22, P21, P22, C21, C22, EF, C11, P11, T11, O1. reflexivity. Qed.

(* ---- order quantities: fcOQ - fOQ is constant within a period (both are accumulated) ---- *)
Definition OQD (s0 s : st2) : Prop := forall n p r, gq2 s (fcOQ, n, p, r) - gq2 s (fOQ, n, p, r) == gq2 s0 (fcOQ, n, p, r) - gq2 s0 (fOQ, n, p, r).
Lemma oq_advance s : OQD s (run_actions2 NW dis dem err s).
Proof. set (oqf := fun f => match f with fOQ | fcOQ => true | _ => false end).
  assert (AG : forall s0 a b, agree oqf a b -> OQD s0 a -> OQD s0 b) by (intros s0 a b A H n p r; rewrite !A by reflexivity; apply H).
  unfold run_actions2. apply fold_left_inv.
  - intros a n _ Ha. revert Ha. apply AG. unfold ships_action2.
    apply (agree_trans _ _ (recv_ship2 NW dis a n)); [apply agree_recv_ship; reflexivity|].
    apply (agree_trans _ _ (produce2 NW (recv_ship2 NW dis a n) n)); [apply agree_produce; reflexivity|].
    apply (agree_trans _ _ (fold_left (fun s0 k0 => serve2 NW dis s0 n k0 (gq2 a (fIL, n, Ext, k0)) (made2 NW (recv_ship2 NW dis a n) n k0)) (n_prods (C n)) (produce2 NW (recv_ship2 NW dis a n) n)));
      [apply agree_serves; reflexivity|apply agree_fill_rate; reflexivity].
  - apply fold_left_inv; [|intros n p r; reflexivity]. intros a n _ Ha. unfold orders_action2.
    assert (H1 : OQD s (recv_orders2 NW (gen_demand2 NW dem a n) n)).
    { revert Ha. apply AG. apply (agree_trans _ _ (gen_demand2 NW dem a n)); [apply agree_gen_demand|apply agree_recv_orders; reflexivity]. }
    unfold place_orders2. destruct (disk2 NW dis n dOP); [exact H1|]. apply fold_left_inv; [|exact H1].
    intros b k _ Hb. unfold place_prod2. apply fold_left_inv.
    + intros c rb _ Hc. unfold place_rm2. apply fold_left_inv; [|exact Hc]. intros d y _ Hd n' p' r'. specialize (Hd n' p' r'). unfold place_one2.
      destruct (fst y); gsplit2; lra.
    + revert Hb. apply AG. apply agree_addq; [reflexivity|]. apply agree_addq; [reflexivity|apply agree_refl]. Qed.

(* ---- the end-of-period reset: the four per-period fields restart at 0, the cumulative counters are kept ---- *)
Definition cumf (f : fld) : bool := match f with fcIO | fcOS | fcIS | fcOQ | fBO | fODI | fIDI | fIL | fCP | fSRV | fDC | fRM | fOO => true | _ => false end.
Lemma next_period_keeps s f n x i : cumf f = true -> gq2 (next_period2 NW dis s) (f, n, x, i) == gq2 s (f, n, x, i).
Proof. intros Hf. unfold next_period2. rewrite gq2_norm_eq.
  rewrite (agree_next_nodes NW dis cumf s (nodes2 NW) eq_refl eq_refl eq_refl eq_refl eq_refl eq_refl eq_refl eq_refl f n x i Hf). reflexivity. Qed.
Definition oq_le (s s' : st2) : Prop := forall n p r, gq2 s' (fOQ, n, p, r) = gq2 s (fOQ, n, p, r) \/ gq2 s' (fOQ, n, p, r) = 0.
Lemma next_sup_oq_le n r a p : oq_le a (next_sup NW dis n r a p) /\ gq2 (next_sup NW dis n r a p) (fOQ, n, p, r) = 0.
Proof. unfold next_sup. split; [|gs2; reflexivity]. intros n' p' r'. kcase2 (fOQ, n', p', r') (fOQ, n, p, r); [right; gs2; reflexivity|left].
  rewrite gq2_sq2_other by exact KN. rewrite gq2_sq2_other by (apply key2_neq_fld; discriminate). rewrite gq2_sl2. destruct (disk2 NW dis n dTP); [reflexivity|apply gq2_sl2]. Qed.
Lemma next_period_oq0 s n p r : sup_edge NW n p r -> gq2 (next_period2 NW dis s) (fOQ, n, p, r) == 0.
Proof. intros (Hn & Hr & Hp). unfold next_period2. rewrite gq2_norm_eq.
  set (oqf := fun f => match f with fOQ => true | _ => false end).
  assert (LE : forall a m, oq_le a (next_node2 NW dis a m)).
  { intros a m. unfold next_node2.
    assert (T : forall a b c, oq_le a b -> oq_le b c -> oq_le a c) by (intros a0 b0 c0 H1 H2 n' p' r'; destruct (H2 n' p' r') as [E|E]; [rewrite E; apply H1|right; exact E]).
    apply (T _ (fold_left (fun s0 r0 => fold_left (next_sup NW dis m r0) (m_sups (RC m r0)) s0) (n_rms (C m)) a)).
    - apply fold_left_inv; [|intros n' p' r'; left; reflexivity]. intros b r0 _ Hb. apply fold_left_inv; [|exact Hb].
      intros c q _ Hc. apply (T _ _ _ Hc). apply next_sup_oq_le.
    - intros n' p' r'. left. apply (fold_left_inv (fun b => gq2 b (fOQ, n', p', r') = gq2 (fold_left (fun s0 r0 => fold_left (next_sup NW dis m r0) (m_sups (RC m r0)) s0) (n_rms (C m)) a) (fOQ, n', p', r'))); [|reflexivity].
      intros b k _ Hb. unfold next_prod. rewrite !gq2_sq2_other by (apply key2_neq_fld; discriminate). rewrite gq2_sl2.
      apply (fold_left_inv (fun c => gq2 c (fOQ, n', p', r') = gq2 (fold_left (fun s0 r0 => fold_left (next_sup NW dis m r0) (m_sups (RC m r0)) s0) (n_rms (C m)) a) (fOQ, n', p', r'))); [|exact Hb].
      intros c y _ Hc. unfold next_cust. rewrite !gq2_sq2_other by (apply key2_neq_fld; discriminate). rewrite gq2_sl2. rewrite gq2_addq2_other by (apply key2_neq_fld; discriminate). exact Hc. }
  assert (Z : gq2 (fold_left (next_node2 NW dis) (nodes2 NW) s) (fOQ, n, p, r) = 0); [|rewrite Z; reflexivity].
  apply (fold_stable (next_node2 NW dis) (fun n a => forall r p, In r (n_rms (C n)) -> In p (m_sups (RC n r)) -> gq2 a (fOQ, n, p, r) = 0)) with (a := n); [| |exact Hn|exact Hr|exact Hp].
  - intros a m r0 p0 Hr0 Hp0. unfold next_node2.
    assert (Z1 : gq2 (fold_left (fun s0 r1 => fold_left (next_sup NW dis m r1) (m_sups (RC m r1)) s0) (n_rms (C m)) a) (fOQ, m, p0, r0) = 0).
    { apply (fold_stable (fun s0 r1 => fold_left (next_sup NW dis m r1) (m_sups (RC m r1)) s0) (fun r1 b => forall p1, In p1 (m_sups (RC m r1)) -> gq2 b (fOQ, m, p1, r1) = 0)) with (a := r0); [| |exact Hr0|exact Hp0].
      - intros b r1 p1 Hp1. apply (fold_stable (next_sup NW dis m r1) (fun p1 c => gq2 c (fOQ, m, p1, r1) = 0)); [| |exact Hp1].
        + intros c q. apply next_sup_oq_le.
        + intros c q q' Hz. destruct (proj1 (next_sup_oq_le m r1 c q') m q r1) as [E|E]; rewrite E; [exact Hz|reflexivity].
      - intros b r1 r2 Hz p1 Hp1. apply fold_left_inv; [|apply Hz; exact Hp1]. intros c q _ Hc.
        destruct (proj1 (next_sup_oq_le m r2 c q) m p1 r1) as [E|E]; rewrite E; [exact Hc|reflexivity]. }
    apply (fold_left_inv (fun b => gq2 b (fOQ, m, p0, r0) = 0)); [|exact Z1].
    intros b k _ Hb. unfold next_prod. rewrite !gq2_sq2_other by (apply key2_neq_fld; discriminate). rewrite gq2_sl2.
    apply (fold_left_inv (fun c => gq2 c (fOQ, m, p0, r0) = 0)); [|exact Hb].
    intros c y _ Hc. unfold next_cust. rewrite !gq2_sq2_other by (apply key2_neq_fld; discriminate). rewrite gq2_sl2. rewrite gq2_addq2_other by (apply key2_neq_fld; discriminate). exact Hc.
  - intros a m m' Hz r0 p0 Hr0 Hp0. destruct (LE a m' m p0 r0) as [E|E]; rewrite E; [apply Hz; assumption|reflexivity]. Qed.
End Period.


(* ---------- cumulative demand of a product = sum over its customers of the cumulative inbound orders ---------- *)
Section DCS.
Variable NW : net2.
Notation C := (cfg2 NW).
Notation PC := (PC NW).
Notation RC := (RC NW).
Variable (dis : N -> bool) (dem err : N -> N -> Q).
Definition cIOsum (s : st2) (n k : N) : Q := qsumf (fun c => gq2 s (fcIO, n, c, k)) (k_custs (PC n k)).
Definition DCS2 (s : st2) : Prop := forall n k, gq2 s (fDC, n, Ext, k) == cIOsum s n k.
Definition dcf (f : fld) : bool := match f with fDC | fcIO => true | _ => false end.
Lemma DCS2_agree s s' : agree dcf s s' -> DCS2 s -> DCS2 s'.
Proof. intros A H n k. unfold cIOsum. rewrite A by reflexivity.
  rewrite (qsumf_ext (fun c => gq2 s (fcIO, n, c, k))) by (intros x _; rewrite A by reflexivity; reflexivity). apply H. Qed.
Lemma DCS2_norm s : DCS2 s -> DCS2 (norm_st s).
Proof. intros H n k. unfold cIOsum. rewrite gq2_norm_eq.
  rewrite (qsumf_ext (fun c => gq2 s (fcIO, n, c, k))) by (intros x _; rewrite gq2_norm_eq; reflexivity). apply H. Qed.

Lemma DCS2_step s s' n k c d : NoDup (k_custs (PC n k)) -> In c (k_custs (PC n k)) ->
  (forall n' c' k', (n', c', k') <> (n, c, k) -> gq2 s' (fcIO, n', c', k') = gq2 s (fcIO, n', c', k')) ->
  gq2 s' (fcIO, n, c, k) == gq2 s (fcIO, n, c, k) + d ->
  (forall n' k', (n', k') <> (n, k) -> gq2 s' (fDC, n', Ext, k') = gq2 s (fDC, n', Ext, k')) ->
  gq2 s' (fDC, n, Ext, k) == gq2 s (fDC, n, Ext, k) + d ->
  DCS2 s -> DCS2 s'.
Proof. intros ND Hc P1 P2 E1 E2 H n' k'. specialize (H n' k'). unfold cIOsum in *.
  destruct (N.eq_dec n' n) as [En|Nn]; [subst n'; destruct (N.eq_dec k' k) as [Ek|Nk]; [subst k'|]|].
  - rewrite (qsumf_update nb_eq_dec (fun y => gq2 s (fcIO, n, y, k)) (fun y => gq2 s' (fcIO, n, y, k)) (k_custs (PC n k)) c ND).
    2:{ intros y Hy. apply P1. intro E. inversion E; subst. apply Hy. reflexivity. }
    destruct (in_dec nb_eq_dec c (k_custs (PC n k))) as [_|N']; [|contradiction]. rewrite E2, P2. lra.
  - rewrite E1 by (intro E; inversion E; subst; apply Nk; reflexivity).
    rewrite (qsumf_ext (fun y => gq2 s (fcIO, n, y, k'))); [exact H|]. intros y _. rewrite P1; [reflexivity|]. intro E. inversion E; subst. apply Nk. reflexivity.
  - rewrite E1 by (intro E; inversion E; subst; apply Nn; reflexivity).
    rewrite (qsumf_ext (fun y => gq2 s (fcIO, n', y, k'))); [exact H|]. intros y _. rewrite P1; [reflexivity|]. intro E. inversion E; subst. apply Nn. reflexivity. Qed.

Lemma DCS2_recv_order_one n k s c : NoDup (k_custs (PC n k)) -> In c (k_custs (PC n k)) -> DCS2 s -> DCS2 (recv_order_one2 n k s c).
Proof. intros ND Hc. apply (DCS2_step _ _ n k c (hd0 (gl2 s (fOP, n, c, k))) ND Hc); unfold recv_order_one2.
  - intros n' c' k' Hne. gs2. reflexivity.
  - gs2. reflexivity.
  - intros n' k' Hne. gs2. reflexivity.
  - gs2. reflexivity. Qed.
Lemma DCS2_orders_action s n : wfB_node2 NW n -> DCS2 s -> DCS2 (orders_action2 NW dis dem err s n).
Proof. intros W H. unfold orders_action2. apply (DCS2_agree (recv_orders2 NW (gen_demand2 NW dem s n) n)); [apply agree_place_orders; reflexivity|].
  unfold recv_orders2, recv_orders_prod. apply fold_left_inv; [|apply (DCS2_agree s); [apply agree_gen_demand|exact H]].
  intros a k Hk Ha. apply fold_left_inv; [|exact Ha]. intros b c Hc Hb. apply DCS2_recv_order_one; [apply (w_custs NW n W k Hk)|exact Hc|exact Hb]. Qed.

Lemma DCS2_ships_action s n : DCS2 s -> DCS2 (ships_action2 NW dis s n).
Proof. apply DCS2_agree. unfold ships_action2.
  apply (agree_trans _ _ (recv_ship2 NW dis s n)); [apply agree_recv_ship; reflexivity|].
  apply (agree_trans _ _ (produce2 NW (recv_ship2 NW dis s n) n)); [apply agree_produce; reflexivity|].
  apply (agree_trans _ _ (fold_left (fun s0 k0 => serve2 NW dis s0 n k0 (gq2 s (fIL, n, Ext, k0)) (made2 NW (recv_ship2 NW dis s n) n k0)) (n_prods (C n)) (produce2 NW (recv_ship2 NW dis s n) n)));
    [apply agree_serves; reflexivity|apply agree_fill_rate; reflexivity]. Qed.
Lemma DCS2_run_actions s : wfB_net2 NW -> DCS2 s -> DCS2 (run_actions2 NW dis dem err s).
Proof. intros W H. unfold run_actions2.
  apply fold_left_inv; [intros a x _ Ha; apply DCS2_ships_action; exact Ha|].
  apply fold_left_inv; [intros a x Hx Ha; apply DCS2_orders_action; [apply (w_node NW W x (w_ord_in NW W x Hx))|exact Ha]|exact H]. Qed.
Lemma DCS2_next_period s : DCS2 s -> DCS2 (next_period2 NW dis s).
Proof. intros H. unfold next_period2. apply DCS2_norm. apply (DCS2_agree s); [apply agree_next_nodes; reflexivity|exact H]. Qed.
End DCS.
Lemma DCS2_run NW inputs : wfB_net2 NW -> Forall (DCS2 NW) (run2 NW inputs).
Proof. intros W. unfold run2.
  assert (I : DCS2 NW (init_state2 NW)).
  { intros n k. unfold cIOsum. rewrite init_zero2 by discriminate. rewrite qsumf_all_zero2; [lra|]. intros y _. rewrite init_zero2 by discriminate. lra. }
  revert I. generalize (init_state2 NW). induction inputs as [|i r IH]; intros s Hs; cbn [run_from2]; [constructor|].
  assert (He : DCS2 NW (run_actions2 NW (i_dis i) (i_dem i) (i_err i) s)) by (apply DCS2_run_actions; assumption).
  constructor; [exact He|]. apply IH. apply DCS2_next_period. exact He. Qed.

(* ---------- consecutive records of a run ---------- *)
Definition dflt_input2 : input2 := {| i_dis := fun _ => false; i_dem := fun _ _ => 0; i_err := fun _ _ => 0 |}.
Lemma run_from2_nth_succ NW : forall inputs s t, (S t < length inputs)%nat ->
  nth (S t) (run_from2 NW s inputs) empty_st2 =
  run_actions2 NW (i_dis (nth (S t) inputs dflt_input2)) (i_dem (nth (S t) inputs dflt_input2)) (i_err (nth (S t) inputs dflt_input2))
    (next_period2 NW (i_dis (nth t inputs dflt_input2)) (nth t (run_from2 NW s inputs) empty_st2)).
Proof. induction inputs as [|i0 r IH]; intros s t Ht; cbn [length] in Ht; [lia|]. cbn [run_from2].
  destruct t as [|t'].
  - destruct r as [|i1 r']; cbn [length] in Ht; [lia|]. cbn [run_from2 nth]. reflexivity.
  - change (nth (S (S t')) (run_actions2 NW (i_dis i0) (i_dem i0) (i_err i0) s :: run_from2 NW (next_period2 NW (i_dis i0) (run_actions2 NW (i_dis i0) (i_dem i0) (i_err i0) s)) r) empty_st2)
      with (nth (S t') (run_from2 NW (next_period2 NW (i_dis i0) (run_actions2 NW (i_dis i0) (i_dem i0) (i_err i0) s)) r) empty_st2).
    rewrite IH by lia. reflexivity. Qed.
Lemma run_from2_length NW : forall inputs s, length (run_from2 NW s inputs) = length inputs.
Proof. induction inputs as [|i r IH]; intros s; cbn [run_from2 length]; [reflexivity|]. rewrite IH. reflexivity. Qed.

Section Consecutive.
Variable (NW : net2) (inputs : inputs2).
Hypothesis W : wfB_net2 NW.
Hypothesis O : once2 NW.

(* the first record: the counters equal the per-period fields *)
Theorem counters_first : (0 < length inputs)%nat -> let e := nth 0 (run2 NW inputs) empty_st2 in
  (forall m x k, cus_edge NW m x k -> gq2 e (fcIO, m, x, k) == gq2 e (fIO, m, x, k) /\ gq2 e (fcOS, m, x, k) == gq2 e (fOS, m, x, k)) /\ (forall m p r, sup_edge NW m p r -> gq2 e (fcIS, m, p, r) == gq2 e (fIS, m, p, r) /\ gq2 e (fcOQ, m, p, r) == gq2 e (fOQ, m, p, r)).
Proof. intros Ht. cbv zeta. unfold run2. destruct inputs as [|i rest]; [cbn in Ht; lia|]. cbn [run_from2 nth]. split.
  - intros m x k Hc. rewrite (io_advance NW W O _ _ _ _ m x k Hc), (os_advance NW W O _ _ _ _ m x k Hc). rewrite !init_zero2 by discriminate. split; lra.
  - intros m p r Hs. rewrite (is_advance NW W O _ _ _ _ m p r Hs). pose proof (oq_advance NW (i_dis i) (i_dem i) (i_err i) (init_state2 NW) m p r) as E.
    rewrite !init_zero2 in E by discriminate. rewrite !init_zero2 by discriminate. split; lra. Qed.

Variable t : nat.
Hypothesis Ht : (S t < length inputs)%nat.
Let a := nth t (run2 NW inputs) empty_st2.
Let e := nth (S t) (run2 NW inputs) empty_st2.

(* the cumulative counters advance from one record to the next by exactly the per-period state variables *)
Theorem counters_advance2 :
  (forall m x k, cus_edge NW m x k -> gq2 e (fcIO, m, x, k) == gq2 a (fcIO, m, x, k) + gq2 e (fIO, m, x, k)
                                    /\ gq2 e (fcOS, m, x, k) == gq2 a (fcOS, m, x, k) + gq2 e (fOS, m, x, k)) /\ (forall m p r, sup_edge NW m p r -> gq2 e (fcIS, m, p, r) == gq2 a (fcIS, m, p, r) + gq2 e (fIS, m, p, r)
                                    /\ gq2 e (fcOQ, m, p, r) == gq2 a (fcOQ, m, p, r) + gq2 e (fOQ, m, p, r)).
Proof. unfold e, a, run2. rewrite run_from2_nth_succ by exact Ht.
  set (i1 := nth (S t) inputs dflt_input2). set (d0 := i_dis (nth t inputs dflt_input2)).
  set (a' := nth t (run_from2 NW (init_state2 NW) inputs) empty_st2). set (s := next_period2 NW d0 a'). split.
  - intros m x k Hc. rewrite (io_advance NW W O _ _ _ s m x k Hc), (os_advance NW W O _ _ _ s m x k Hc). unfold s.
    rewrite !(next_period_keeps NW d0 a') by reflexivity. split; reflexivity.
  - intros m p r Hs. rewrite (is_advance NW W O _ _ _ s m p r Hs). pose proof (oq_advance NW (i_dis i1) (i_dem i1) (i_err i1) s m p r) as E.
    unfold s in *. rewrite (next_period_oq0 NW d0 a' m p r Hs) in E. rewrite !(next_period_keeps NW d0 a') in E by reflexivity.
    rewrite !(next_period_keeps NW d0 a') by reflexivity. split; [reflexivity|lra]. Qed.
End Consecutive.
