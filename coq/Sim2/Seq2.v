(* C06 for the Stage-2 (multi-product) model: running period by period equals the batch run, one record per period, and the
   records of a run do not depend on later inputs (a run is a deterministic function of (network, inputs)). *)
From SV Require Import Sim2.State2 Sim2.Model2.

Section Seq2.
Variable NW : net2.

Fixpoint state_after2 (s : st2) (inputs : inputs2) : st2 :=
  match inputs with
  | [] => s
  | i :: r => state_after2 (next_period2 NW (i_dis i) (run_actions2 NW (i_dis i) (i_dem i) (i_err i) s)) r
  end.

Theorem step_batch2 a b : forall s, run_from2 NW s (a ++ b) = run_from2 NW s a ++ run_from2 NW (state_after2 s a) b.
Proof. induction a as [|i r IH]; intros s; cbn [app run_from2 state_after2]; [reflexivity|]. cbv zeta. rewrite IH. reflexivity. Qed.

Theorem run_length2 inputs : forall s, length (run_from2 NW s inputs) = length inputs.
Proof. induction inputs as [|i r IH]; intros s; cbn [run_from2 length]; [reflexivity|]. cbv zeta. cbn [length]. rewrite IH. reflexivity. Qed.

(* the first |a| records of the run over a ++ b are the run over a: what happens later does not change the past *)
Theorem run_prefix2 a b s : firstn (length a) (run_from2 NW s (a ++ b)) = run_from2 NW s a.
Proof.
  rewrite step_batch2. rewrite <- (run_length2 a s) at 1. rewrite firstn_app, Nat.sub_diag, firstn_all. cbn [firstn]. apply app_nil_r.
Qed.

(* stepping composes: the state after a ++ b is the state after b started from the state after a *)
Theorem state_after2_app a b : forall s, state_after2 s (a ++ b) = state_after2 (state_after2 s a) b.
Proof. induction a as [|i r IH]; intros s; cbn [app state_after2]; [reflexivity|]. apply IH. Qed.
End Seq2.
