(* Stage-2 simulator, group C, part 3: REFINEMENT. The ordering step of the dynamic model ([place_orders2], Model2.v) coincides
   with the stand-alone ordering step [order_step] of Sim/MultiOrder.v run on the rows read off the state:
   for every state s and node n (duplicate-free product / raw-material lists and bills of materials, every raw material of a
   bill of materials listed among the node's raw materials, err = 0 at the node's products)
       fOQFG(n,Ext,k) after = before + the finished-goods order of k computed by order_step,
       fOQ(n,p,r)     after = before + the raw-material order (r, p) computed by order_step
   (also fPFG, fOO). Hence every theorem of MultiOrder_proofs.v about [order_step] is a theorem about the dynamic model. *)
From SV Require Import Base.Qx.
From SV Require Import Sim.Model Sim.StateLemmas Sim.Inv_base Sim.Inv_node Sim.Inv_bound.
From SV Require Import Sim2.State2 Sim2.Model2.
From SV Require Import Sim2.Inv2b_tac Sim2.Inv2b_book.
From SV Require Sim.MultiOrder Sim.MultiOrder_proofs.
From SV Require Import Sim2.Inv2c_order.
Module MO := SV.Sim.MultiOrder.
Module MP := SV.Sim.MultiOrder_proofs.

(* ---------- Qeq-compatibility of the list minimum ---------- *)
Lemma qmin_list_extC {A} (f g : A -> Q) (l : list A) : (forall x, In x l -> f x == g x) -> qmin_list (map f l) == qmin_list (map g l).
Proof. induction l as [|a r IH]; intros H; [reflexivity|]. destruct r as [|b r'].
  - cbn [map qmin_list]. apply H. left. reflexivity.
  - change (qmin (f a) (qmin_list (map f (b :: r'))) == qmin (g a) (qmin_list (map g (b :: r')))).
    rewrite (H a (or_introl eq_refl)). rewrite IH; [reflexivity|]. intros x Hx. apply H. right. exact Hx. Qed.

(* ---------- closed form of the raw-material orders of MultiOrder.v ---------- *)
Definition amtC (xs : list (nb * Q)) (p : nb) : Q := qsumf (fun x => if nb_eq_dec (fst x) p then snd x else 0) xs.
Lemma mo_fold_addC r xs oq r' p :
  MO.oq_get (fold_left (MO.add_oq r) xs oq) r' p == MO.oq_get oq r' p + (if N.eq_dec r' r then amtC xs p else 0).
Proof. revert oq. induction xs as [|x xs IH]; intros oq; unfold amtC, qsumf; cbn [fold_left map qsum].
  - destruct (N.eq_dec r' r); lra.
  - rewrite IH. unfold amtC, qsumf. destruct (N.eq_dec r' r) as [E|NE].
    + subst r'. destruct (nb_eq_dec (fst x) p) as [E|NE].
      * subst p. rewrite MP.oq_get_add_same. lra.
      * rewrite MP.oq_get_add_other by (intro X; inversion X; subst; apply NE; reflexivity). lra.
    + rewrite MP.oq_get_add_other by (intro X; inversion X; subst; apply NE; reflexivity). lra. Qed.
Lemma mo_split_zeroC q sups p : q == 0 -> amtC (MO.split_order q sups) p == 0.
Proof. revert q. induction sups as [|s0 rest IH]; intros q Hq; unfold amtC, qsumf; cbn [MO.split_order map qsum fst snd]; [lra|].
  pose proof (IH (q - q) ltac:(lra)) as Z. unfold amtC, qsumf in Z. rewrite Z. destruct (nb_eq_dec (MO.s_nb s0) p); lra. Qed.
Lemma mo_split_amtC q sups p : amtC (MO.split_order q sups) p == if first_supC (map MO.s_nb sups) p then q else 0.
Proof. destruct sups as [|s0 rest]; unfold amtC, qsumf; cbn [MO.split_order map qsum fst snd first_supC]; [lra|].
  pose proof (mo_split_zeroC (q - q) rest p ltac:(lra)) as Z. unfold amtC, qsumf in Z. rewrite Z.
  destruct (nb_eq_dec (MO.s_nb s0) p) as [E|NE]; destruct (nb_eq_dec p (MO.s_nb s0)) as [E'|NE']; try lra; exfalso; congruence. Qed.

Section Refine.
Variable (NW : net2) (dis : N -> bool) (err : N -> N -> Q).
Notation C := (cfg2 NW).
Notation PC := (PC NW).
Notation RC := (RC NW).
Variable (s : st2) (n : N).          (* the state the node starts its ordering step with *)

(* ---------- the rows read off the state ---------- *)
Definition prod_rowC (k : N) : MO.mprod :=
  {| MO.p_id := k; MO.p_il := gq2 s (fIL, n, Ext, k); MO.p_dem := demand_of NW s n k; MO.p_pol := k_pol (PC n k); MO.p_cap := k_cap (PC n k);
     MO.p_pfg := gq2 s (fPFG, n, Ext, k); MO.p_bom := k_bom (PC n k) |}.
Definition sup_rowC (r : N) (p : nb) : MO.msup := {| MO.s_nb := p; MO.s_oo := gq2 s (fOO, n, p, r); MO.s_idi := gq2 s (fIDI, n, p, r) |}.
Definition rm_rowC (r : N) : MO.mrm := {| MO.r_id := r; MO.r_inv := gq2 s (fRM, n, Ext, r); MO.r_sups := map (sup_rowC r) (m_sups (RC n r)) |}.
Definition prod_rowsC : list MO.mprod := map prod_rowC (n_prods (C n)).
Definition rm_rowsC : list MO.mrm := map rm_rowC (n_rms (C n)).

Record wfR_node2 : Prop := {
  r_prods : NoDup (n_prods (C n));
  r_bomk : forall k, In k (n_prods (C n)) -> NoDup (map fst (k_bom (PC n k)));
  r_bomr : forall k rb, In k (n_prods (C n)) -> In rb (k_bom (PC n k)) -> In (fst rb) (n_rms (C n));
  r_rms : NoDup (n_rms (C n));
  r_err : forall k, In k (n_prods (C n)) -> err n k == 0 }.
Hypothesis W : wfR_node2.

Lemma rm_ids : map MO.r_id rm_rowsC = n_rms (C n).
Proof. unfold rm_rowsC. rewrite map_map. cbn [MO.r_id rm_rowC]. apply map_id. Qed.
Lemma sup_ids r : map MO.s_nb (map (sup_rowC r) (m_sups (RC n r))) = m_sups (RC n r).
Proof. rewrite map_map. cbn [MO.s_nb sup_rowC]. apply map_id. Qed.
Lemma find_rowC r : In r (n_rms (C n)) -> MO.find_rm rm_rowsC r = Some (rm_rowC r).
Proof. intros Hr. change r with (MO.r_id (rm_rowC r)) at 1. apply MP.find_rm_in; [rewrite rm_ids; apply (r_rms W)|]. unfold rm_rowsC. apply in_map. exact Hr. Qed.

(* the raw-material orders of one product, in closed form *)
Lemma mo_place_rmC q oq rb r p : In (fst rb) (n_rms (C n)) ->
  MO.oq_get (MO.place_rm q rm_rowsC oq rb) r p
  == MO.oq_get oq r p + (if N.eq_dec (fst rb) r then (if first_supC (m_sups (RC n r)) p then q * snd rb else 0) else 0).
Proof. intros Hr. unfold MO.place_rm. rewrite (find_rowC (fst rb) Hr). rewrite mo_fold_addC. cbn [MO.r_sups rm_rowC].
  destruct (N.eq_dec r (fst rb)) as [E|NE]; destruct (N.eq_dec (fst rb) r) as [E'|NE']; try (exfalso; congruence); [|lra].
  subst r. rewrite mo_split_amtC. rewrite sup_ids. reflexivity. Qed.
Lemma mo_place_bomC q bom oq r p : (forall rb, In rb bom -> In (fst rb) (n_rms (C n))) ->
  MO.oq_get (fold_left (MO.place_rm q rm_rowsC) bom oq) r p
  == MO.oq_get oq r p + (if first_supC (m_sups (RC n r)) p then q * bomsumC bom r else 0).
Proof. revert oq. induction bom as [|rb l IH]; intros oq H; unfold bomsumC, qsumf; cbn [fold_left map qsum].
  - destruct (first_supC _ p); lra.
  - rewrite IH by (intros x Hx; apply H; right; exact Hx). rewrite (mo_place_rmC q oq rb r p (H rb (or_introl eq_refl))).
    unfold bomsumC, qsumf. destruct (N.eq_dec (fst rb) r); destruct (first_supC _ p); lra. Qed.

(* ---------- the simulation relation ---------- *)
Definition frameR (f : fld) : bool := match f with fIL | fRM | fIDI | fIO => true | _ => false end.
Record SIMc (a : st2) (acc : amap (N * nb) Q * amap N Q) : Prop := {
  sim_fg : forall k, gq2 a (fOQFG, n, Ext, k) == gq2 s (fOQFG, n, Ext, k) + MO.fg_get (snd acc) k;
  sim_pfg : forall k, gq2 a (fPFG, n, Ext, k) == gq2 s (fPFG, n, Ext, k) + MO.fg_get (snd acc) k;
  sim_oq : forall r p, In r (n_rms (C n)) -> gq2 a (fOQ, n, p, r) == gq2 s (fOQ, n, p, r) + MO.oq_get (fst acc) r p;
  sim_oo : forall r p, In r (n_rms (C n)) -> gq2 a (fOO, n, p, r) == gq2 s (fOO, n, p, r) + MO.oq_get (fst acc) r p;
  sim_fr : forall f x i, frameR f = true -> gq2 a (f, n, x, i) = gq2 s (f, n, x, i) }.

Lemma SIMc_init : SIMc s ([], []).
Proof. constructor; intros; cbn [fst snd]; try reflexivity; unfold MO.fg_get, MO.oq_get; cbn [aget]; lra. Qed.

(* the position observed by product k is the same *)
Lemma earmark_eqC a oqfg k r : (forall k2, gq2 a (fPFG, n, Ext, k2) == gq2 s (fPFG, n, Ext, k2) + MO.fg_get oqfg k2) ->
  forall l pl pl', pl == pl' ->
  fold_left (fun pl pd2 => if N.eqb (MO.p_id pd2) k then pl else qmax 0 (pl - (MO.p_pfg pd2 + MO.fg_get oqfg (MO.p_id pd2)) * MO.nbom pd2 r)) (map prod_rowC l) pl
  == fold_left (fun pl k2 => if N.eqb k2 k then pl else qmax 0 (pl - gq2 a (fPFG, n, Ext, k2) * nbom (PC n k2) r)) l pl'.
Proof. intros H. induction l as [|k2 l IH]; intros pl pl' E; cbn [map fold_left]; [exact E|]. apply IH.
  cbn [MO.p_id MO.p_pfg prod_rowC]. destruct (N.eqb k2 k); [exact E|].
  change (MO.nbom (prod_rowC k2) r) with (nbom (PC n k2) r). rewrite (H k2), E. reflexivity. Qed.
Lemma ip_eqC a oq oqfg k : SIMc a (oq, oqfg) -> In k (n_prods (C n)) ->
  MO.ip_of prod_rowsC rm_rowsC oq oqfg (prod_rowC k) == obs_ip2 NW a n k.
Proof. intros [S1 S2 S3 S4 S5] Hk. cbn [fst snd] in *. unfold MO.ip_of, obs_ip2. cbn [MO.p_il MO.p_dem MO.p_bom prod_rowC].
  rewrite (S5 fIL Ext k eq_refl).
  assert (Dm : demand_of NW s n k == demand_of NW a n k).
  { unfold demand_of. apply qsumf_ext. intros c _. rewrite (S5 fIO c k eq_refl). reflexivity. }
  rewrite Dm.
  rewrite (qmin_list_extC (MO.units_of prod_rowsC rm_rowsC oq oqfg (prod_rowC k)) (units_of2 NW a n k) (k_bom (PC n k))); [reflexivity|].
  intros rb Hrb. pose proof (r_bomr W k rb Hk Hrb) as Hr. unfold MO.units_of, units_of2. rewrite (find_rowC (fst rb) Hr).
  assert (P : MO.pipe_rm oq (rm_rowC (fst rb)) == pipe_rm2 NW a n (fst rb)).
  { unfold MO.pipe_rm, pipe_rm2. cbn [MO.r_inv MO.r_id MO.r_sups rm_rowC]. rewrite (S5 fRM Ext (fst rb) eq_refl).
    unfold qsumf. rewrite map_map. cbn [MO.s_oo MO.s_nb MO.s_idi sup_rowC].
    rewrite (qsum_map_ext (fun p => gq2 s (fOO, n, p, fst rb) + MO.oq_get oq (fst rb) p + gq2 s (fIDI, n, p, fst rb))
                          (fun p => gq2 a (fOO, n, p, fst rb) + gq2 a (fIDI, n, p, fst rb))); [reflexivity|].
    intros p _. rewrite (S4 (fst rb) p Hr). rewrite (S5 fIDI p (fst rb) eq_refl). reflexivity. }
  unfold MO.earmark, earmark2, prod_rowsC. cbn [MO.p_id prod_rowC].
  rewrite (earmark_eqC a oqfg k (fst rb) S2 (n_prods (C n)) _ _ P). reflexivity. Qed.
Lemma qty_eqC a oq oqfg k : SIMc a (oq, oqfg) -> In k (n_prods (C n)) ->
  order_qty2 NW err a n k == MO.fg_qty prod_rowsC rm_rowsC oq oqfg (prod_rowC k).
Proof. intros S Hk. unfold order_qty2, MO.fg_qty. rewrite Qred_correct. cbn [MO.p_cap MO.p_pol prod_rowC].
  change (MO.capq (k_cap (PC n k))) with (capq (k_cap (PC n k))). apply capq_compatC, rule_compatC.
  rewrite (ip_eqC a oq oqfg k S Hk). rewrite (r_err W k Hk). lra. Qed.

(* one product *)
Lemma SIMc_step a acc k : SIMc a acc -> In k (n_prods (C n)) ->
  SIMc (place_prod2 NW err a n k) (MO.order_prod prod_rowsC rm_rowsC acc (prod_rowC k)).
Proof. intros S Hk. destruct acc as [oq oqfg]. pose proof (qty_eqC a oq oqfg k S Hk) as Q. destruct S as [S1 S2 S3 S4 S5]. cbn [fst snd] in *.
  unfold MO.order_prod. set (q := MO.fg_qty prod_rowsC rm_rowsC oq oqfg (prod_rowC k)) in *. cbn [MO.p_id MO.p_bom prod_rowC].
  assert (FG : forall f, f = fOQFG \/ f = fPFG -> forall k', gq2 a (f, n, Ext, k') == gq2 s (f, n, Ext, k') + MO.fg_get oqfg k' ->
            gq2 (place_prod2 NW err a n k) (f, n, Ext, k') == gq2 s (f, n, Ext, k') + MO.fg_get (aset N.eq_dec oqfg k (MO.fg_get oqfg k + q)) k').
  { intros f Hf k' H. destruct (N.eq_dec k' k) as [E|NE].
    - subst k'. rewrite MP.fg_get_set_same. destruct Hf as [E|E]; subst f; [rewrite place_prod2_oqfg_same|rewrite place_prod2_pfg_same]; rewrite H, Q; lra.
    - rewrite MP.fg_get_set_other by exact NE. rewrite place_prod2_fg_other; [exact H|destruct Hf; subst; reflexivity|]. intro X. inversion X. contradiction. }
  assert (OQ : forall f, oqfC f = true -> forall r p, In r (n_rms (C n)) -> gq2 a (f, n, p, r) == gq2 s (f, n, p, r) + MO.oq_get oq r p ->
            gq2 (place_prod2 NW err a n k) (f, n, p, r) == gq2 s (f, n, p, r) + MO.oq_get (fold_left (MO.place_rm q rm_rowsC) (k_bom (PC n k)) oq) r p).
  { intros f F r p Hr H. pose proof (place_prod2_oq NW err a n k f p r F (r_bomk W k Hk)) as P1.
    pose proof (mo_place_bomC q (k_bom (PC n k)) oq r p (fun rb Hrb => r_bomr W k rb Hk Hrb)) as P2.
    pose proof (bomsumC_lookup _ r (r_bomk W k Hk)) as B. unfold nbom in P1.
    destruct (first_supC (m_sups (RC n r)) p); rewrite P1, P2, H; [rewrite B, Q; ring|ring]. }
  constructor; cbn [fst snd].
  - intros k'. apply (FG fOQFG (or_introl eq_refl) k' (S1 k')).
  - intros k'. apply (FG fPFG (or_intror eq_refl) k' (S2 k')).
  - intros r p Hr. apply (OQ fOQ eq_refl r p Hr (S3 r p Hr)).
  - intros r p Hr. apply (OQ fOO eq_refl r p Hr (S4 r p Hr)).
  - intros f x i F. rewrite place_prod2_fg_fld; [apply S5; exact F|destruct f; try discriminate F; reflexivity|intro E; subst; discriminate F|intro E; subst; discriminate F]. Qed.
Lemma SIMc_fold l : incl l (n_prods (C n)) -> forall a acc, SIMc a acc ->
  SIMc (place_uptoC NW err a n l) (fold_left (MO.order_prod prod_rowsC rm_rowsC) (map prod_rowC l) acc).
Proof. induction l as [|k l IH]; intros Hl a acc S; cbn [map fold_left]; [exact S|]. unfold place_uptoC. cbn [fold_left]. fold (place_uptoC NW err (place_prod2 NW err a n k) n l).
  apply IH; [intros x Hx; apply Hl; right; exact Hx|]. apply SIMc_step; [exact S|apply Hl; left; reflexivity]. Qed.

(* ---------- the refinement theorem ---------- *)
Theorem place_orders2_refines_order_stepC :
  let '(oq, oqfg) := MO.order_step (disk2 NW dis n dOP) prod_rowsC rm_rowsC in
  let e := place_orders2 NW dis err s n in
  (forall k, gq2 e (fOQFG, n, Ext, k) == gq2 s (fOQFG, n, Ext, k) + MO.fg_get oqfg k) /\
  (forall k, gq2 e (fPFG, n, Ext, k) == gq2 s (fPFG, n, Ext, k) + MO.fg_get oqfg k) /\
  (forall r p, In r (n_rms (C n)) -> gq2 e (fOQ, n, p, r) == gq2 s (fOQ, n, p, r) + MO.oq_get oq r p) /\
  (forall r p, In r (n_rms (C n)) -> gq2 e (fOO, n, p, r) == gq2 s (fOO, n, p, r) + MO.oq_get oq r p).
Proof. unfold MO.order_step. rewrite place_orders2_eqC. destruct (disk2 NW dis n dOP).
  - destruct SIMc_init as [S1 S2 S3 S4 _]. repeat split; assumption.
  - pose proof (SIMc_fold (n_prods (C n)) (incl_refl _) s ([], []) SIMc_init) as S. unfold MO.order_upto. fold prod_rowsC in S.
    destruct (fold_left (MO.order_prod prod_rowsC rm_rowsC) prod_rowsC ([], [])) as [oq oqfg]. destruct S as [S1 S2 S3 S4 _]. repeat split; assumption. Qed.

(* the rows satisfy the well-formedness predicate of MultiOrder_proofs.v: its theorems apply to them *)
Lemma prod_idsC : map MO.p_id prod_rowsC = n_prods (C n).
Proof. unfold prod_rowsC. rewrite map_map. cbn [MO.p_id prod_rowC]. apply map_id. Qed.
Theorem rows_mwfC : (forall r, In r (n_rms (C n)) -> NoDup (m_sups (RC n r)) /\ m_sups (RC n r) <> []) -> MP.mwf prod_rowsC rm_rowsC.
Proof. intros HS. constructor.
  - rewrite prod_idsC. apply (r_prods W).
  - rewrite rm_ids. apply (r_rms W).
  - intros rm Hrm. unfold rm_rowsC in Hrm. apply in_map_iff in Hrm. destruct Hrm as (r & E & Hr). subst rm. cbn [MO.r_sups rm_rowC].
    destruct (HS r Hr) as [ND NE]. split; [rewrite sup_ids; exact ND|]. destruct (m_sups (RC n r)); [congruence|discriminate].
  - intros pd Hpd. unfold prod_rowsC in Hpd. apply in_map_iff in Hpd. destruct Hpd as (k & E & Hk). subst pd. cbn [MO.p_bom prod_rowC].
    split; [apply (r_bomk W k Hk)|]. intros rb Hrb. exists (rm_rowC (fst rb)). split; [|reflexivity]. unfold rm_rowsC. apply in_map. apply (r_bomr W k rb Hk Hrb). Qed.
End Refine.
