(* Stage-2 simulator (multi-product networks with bills of materials), group D: POSITIONAL LEAD TIMES (C03, first sentence).
   Final forms: statements about the end-of-period records [nth t (run2 NW inputs) empty_st2] of every run of every
   well-formed network ([goodB2b NW = true] and [onceB2b NW = true], both booleans, both of group B / Main2b.v), for every
   horizon, every disruption sequence, every demand sequence and every error input [i_err] (the statements do not
   depend on the order quantities), per supply relation [sup_edge NW n q r] (customer node n, supplier q, raw material r):

   1. orders (Delay2.v): the order n places with p for r in period t - fOQ (n, Nd p, r), the period total over the
      products of n using r - is p's inbound order fIO (p, Nd n, r) of period t + OLT(n); the first OLT(n) inbound
      orders are n's initial orders.                                   [order_delayD2, order_delayD2_initial]
   2. shipments (ShipDelay2.v): receipts fIS (n, q, r), items held at the door fIDI (n, q, r) and the pipeline
      fSP (n, q, r) are those of Stage 1's reference delay line [dl_trace] fed with the recorded shipments
      fOS (p, Nd n, r) (q = Nd p, slot SLT(n)) resp. the recorded orders fOQ (n, Ext, r) (q = Ext, slot OLT(n)+SLT(n))
      and n's TP / RP flags.                                           [shipment_refinementD2, external_refinementD2]
      Corollaries: sent in t -> received in t + L if n is not paused in t .. t+L (<=; needs non-negative demands
      [demB_ok2] for the non-negativity of what else may arrive), == if n was never paused up to t + L.
                                                                       [shipment_delayD2(_exact/_undisrupted), external_delayD2(_exact)]

   3. "nothing is lost and it is received after the disruption" (DlCumul2.v, a new pure theorem [dlD_cumul] about the
      reference delay line, transported): once n's pipeline has advanced L times in t .. t+k-1 (periods without transit
      pause) and receipt is not paused in t+k, the initial pipeline content plus everything sent up to period t has been
      received by the end of period t+k (cumulative form; needs [demB_ok2]).   [shipment_not_lostD2, external_not_lostD2]

   Hypotheses (see Main2b.v for the components of goodB2b / onceB2b) and where they are needed - every theorem is about a
   supply relation [sup_edge NW n q r] := n is a node, r one of its raw materials, q one of r's suppliers:
     order_delayD2(_initial)      w_edge (the supplier p is a predecessor of n, a node, makes r, lists n among r's customers),
                                  w_topo w_ord o_ord (the orders traversal handles n exactly once and before p), w_nodup,
                                  w_prods w_custs at p (p reads the edge's pipeline exactly once; one end-of-period shift)
     shipment_refinementD2        w_edge, w_ship o_ship (shipments traversal: p, then n, exactly once each; the order p-before-n
                                  is Stage 1's [ship_visit_SO] on the skeleton), w_prods w_custs at p (one shipment per period),
                                  o_rms w_sups at n (one receipt per period, one shift), w_nodup; w_topo w_ord only for n <> p
     external_refinementD2        w_ord o_ord w_ship o_ship (n handled exactly once per phase), o_rms w_sups at n, w_nodup
     *_delayD2 (<=)               additionally [demB_ok2 inputs] and the rest of goodB2b (w_bomv w_pol w_init w_cnode), through
                                  the non-negativity NNB2 of the recorded shipments / orders and of the initial pipelines:
                                  what arrives TOGETHER with the shipment of period t (after a pause) must be >= 0
     *_delayD2_exact (==)         nothing beyond the refinement (no hypothesis on the demands).
   No hypothesis on BOM lists or supplier order is needed for the accumulation of several products' orders in one slot:
   every single placement step [place_one2] preserves "pipeline slot == old slot + (fOQ - old fOQ)". *)
From SV Require Import Base.Qx.
From SV Require Import Sim.Model Sim.Obs Sim.StateLemmas Sim.Inv_base Sim.Inv_node Sim.Inv_init Sim.Inv_bound Sim.Single Sim.Delay Sim.ShipDelay.
From SV Require Import Sim2.State2 Sim2.Model2 Sim2.Obs2.
From SV Require Import Sim2.Inv2b_tac Sim2.Inv2b_book Sim2.Inv2b_pipe Sim2.Inv2b_init Sim2.Inv2b_period Sim2.Main2b.
From SV Require Import Sim2.Delay2 Sim2.DlCumul2 Sim2.ShipDelay2.

(* the inputs of the reference delay line, written out: the two pause flags of n and the recorded feed *)
Definition feedD2 (NW : net2) (inputs : inputs2) (n : N) (kS : key2) : list dl_input :=
  map (fun u => (disk2 NW (i_dis (nth u inputs dflt_input2)) n dTP, disk2 NW (i_dis (nth u inputs dflt_input2)) n dRP,
                 gq2 (nth u (run2 NW inputs) empty_st2) kS)) (seq 0 (length inputs)).
Lemma edgeD_ins_feed NW inputs n kS : edgeD_ins NW n kS inputs = feedD2 NW inputs n kS.
Proof. apply (nth_ext _ _ din din).
  - unfold feedD2. rewrite edgeD_ins_length, map_length, seq_length. reflexivity.
  - intros u Hu. rewrite edgeD_ins_length in Hu. rewrite edgeD_ins_nth by exact Hu. unfold feedD2.
    set (g := fun u : nat => (disk2 NW (i_dis (nth u inputs dflt_input2)) n dTP, disk2 NW (i_dis (nth u inputs dflt_input2)) n dRP, gq2 (nth u (run2 NW inputs) empty_st2) kS)).
    rewrite (nth_indep _ din (g 0%nat)) by (rewrite map_length, seq_length; exact Hu). rewrite (map_nth g). rewrite seq_nth by exact Hu. reflexivity. Qed.

Section Main2d.
Variable (NW : net2) (inputs : inputs2).
Hypothesis G : goodB2b NW = true.
Hypothesis G1 : onceB2b NW = true.
Notation C := (cfg2 NW).
Notation rec t := (nth t (run2 NW inputs) empty_st2).
Let W : wfB_net2 NW := goodB2b_sound NW G.
Let O : once2 NW := onceB2b_sound NW G1.

(* ---------------- 1. orders ---------------- *)
(* the order n places with p for raw material r in period t is p's inbound order for (n, r) in period t + OLT(n) *)
Theorem order_delayD2 t n p r : sup_edge NW n (Nd p) r -> (t + n_olt (C n) < length inputs)%nat ->
  gq2 (rec (t + n_olt (C n))) (fIO, p, Nd n, r) == gq2 (rec t) (fOQ, n, Nd p, r).
Proof. intros HE Ht. exact (orderD_delay_wf NW W O n p r HE inputs t Ht). Qed.
(* the first OLT(n) inbound orders are the initial orders of n *)
Theorem order_delayD2_initial t n p r : sup_edge NW n (Nd p) r -> (t < n_olt (C n))%nat -> (t < length inputs)%nat ->
  gq2 (rec t) (fIO, p, Nd n, r) == n_init_orders (C n).
Proof. intros HE HtL Ht. exact (orderD_initial_wf NW W O n p r HE inputs t HtL Ht). Qed.

(* ---------------- 2. shipments ---------------- *)
(* no transit pause and no receipt pause at n in period u *)
Definition unpausedD2 (n : N) (u : nat) : Prop :=
  disk2 NW (i_dis (nth u inputs dflt_input2)) n dTP = false /\ disk2 NW (i_dis (nth u inputs dflt_input2)) n dRP = false.
Lemma undisrupted_unpausedD2 n u : i_dis (nth u inputs dflt_input2) n = false -> unpausedD2 n u.
Proof. intros H. unfold unpausedD2, disk2. rewrite H. split; reflexivity. Qed.

(* ---- edge p -> n, raw material r: the reference delay line starts with n's initial shipments in slots 0 .. SLT(n)-1 ---- *)
Definition ship_refD2 (n p r : N) : list (dl * Q) :=
  dl_trace (n_slt (C n)) {| d_pipe := repeat (n_init_ships (C n)) (n_slt (C n)) ++ repeat 0 (n_olt (C n)) ++ [0]; d_held := 0 |}
           (feedD2 NW inputs n (fOS, p, Nd n, r)).

Lemma ndD_init n p r : sup_edge NW n (Nd p) r ->
  dD_init NW n (Nd p) r = {| d_pipe := repeat (n_init_ships (C n)) (n_slt (C n)) ++ repeat 0 (n_olt (C n)) ++ [0]; d_held := 0 |}.
Proof. intros HE. unfold dD_init. rewrite (initD_pipe NW W n (Nd p) r HE). reflexivity. Qed.
Lemma ndD_qn n p r : sup_edge NW n (Nd p) r -> Nd p <> Nd n.
Proof. intros HE. apply (edgeD_q_neq NW W n p r HE). Qed.

Theorem shipment_refinementD2 t n p r : sup_edge NW n (Nd p) r -> (t < length inputs)%nat ->
  gq2 (rec t) (fIS, n, Nd p, r) == snd (nth t (ship_refD2 n p r) dout) /\
  gq2 (rec t) (fIDI, n, Nd p, r) == d_held (fst (nth t (ship_refD2 n p r) dout)) /\
  leq (gl2 (rec t) (fSP, n, Nd p, r)) (d_pipe (fst (nth t (ship_refD2 n p r) dout))).
Proof. intros HE Ht. unfold ship_refD2. rewrite <- edgeD_ins_feed, <- (ndD_init n p r HE).
  apply (refineD_nth NW W O n (Nd p) r HE (n_slt (C n)) (fOS, p, Nd n, r) (fun _ => True)
           (fun s _ => ndD_period_ok NW W O n p r HE s) (fun _ _ _ _ _ => I) I inputs t Ht). Qed.

Lemma ndD_len n p r : sup_edge NW n (Nd p) r -> (n_slt (C n) < length (d_pipe (dD_init NW n (Nd p) r)))%nat.
Proof. intros HE. rewrite (ndD_init n p r HE). cbn [d_pipe]. rewrite !app_length, !repeat_length. cbn [length]. lia. Qed.
Lemma initD_nn n q r : dl_nn (dD_init NW n q r).
Proof. split; [apply NNB2_l, NNB2_init; exact W|cbn [dD_init d_held]; lra]. Qed.
Lemma recD_nn f e n x i : demB_ok2 inputs -> In e (run2 NW inputs) -> nnfB2 f = true -> 0 <= gq2 e (f, n, x, i).
Proof. intros D He Hf. pose proof (ALLB2_run NW W inputs D) as F. rewrite Forall_forall in F. apply NNB2_q; [apply (aB2_nn NW e (F e He))|exact Hf]. Qed.

(* a shipment of r sent by p to n in period t is received by period t + SLT(n) when n is not paused in t .. t + SLT(n) *)
Theorem shipment_delayD2 t n p r : demB_ok2 inputs -> sup_edge NW n (Nd p) r -> (t + n_slt (C n) < length inputs)%nat ->
  (forall u, (t <= u <= t + n_slt (C n))%nat -> unpausedD2 n u) ->
  gq2 (rec t) (fOS, p, Nd n, r) <= gq2 (rec (t + n_slt (C n))) (fIS, n, Nd p, r).
Proof. intros D HE Ht Hu.
  apply (edgeD_lower NW W O n (Nd p) r HE (n_slt (C n)) (fOS, p, Nd n, r) (fun _ => True)
           (fun s _ => ndD_period_ok NW W O n p r HE s) (fun _ _ _ _ _ => I) I inputs t (ndD_len n p r HE) (initD_nn n (Nd p) r)); [|exact Ht|exact Hu].
  intros e He. apply recD_nn; [exact D|exact He|reflexivity]. Qed.

(* ... and it is exactly what is received then, when n has not been paused at all up to t + SLT(n) *)
Theorem shipment_delayD2_exact t n p r : sup_edge NW n (Nd p) r -> (t + n_slt (C n) < length inputs)%nat ->
  (forall u, (u <= t + n_slt (C n))%nat -> unpausedD2 n u) ->
  gq2 (rec (t + n_slt (C n))) (fIS, n, Nd p, r) == gq2 (rec t) (fOS, p, Nd n, r).
Proof. intros HE Ht Hu.
  apply (edgeD_exact NW W O n (Nd p) r HE (n_slt (C n)) (fOS, p, Nd n, r) (fun _ => True)
           (fun s _ => ndD_period_ok NW W O n p r HE s) (fun _ _ _ _ _ => I) I inputs t (ndD_len n p r HE)); [|exact Ht|exact Hu].
  split; [|reflexivity]. intros i Hi. rewrite (ndD_init n p r HE). cbn [d_pipe]. apply nth_tail_zero'. exact Hi. Qed.

(* ---- the external supplier of raw material r of n: lead time OLT(n) + SLT(n), fed with n's orders ---- *)
Definition ext_refD2 (n r : N) : list (dl * Q) :=
  dl_trace (n_olt (C n) + n_slt (C n))
           {| d_pipe := repeat (n_init_ships (C n)) (n_slt (C n)) ++ repeat (n_init_orders (C n)) (n_olt (C n)) ++ [0]; d_held := 0 |}
           (feedD2 NW inputs n (fOQ, n, Ext, r)).
Lemma extD_init n r : sup_edge NW n Ext r ->
  dD_init NW n Ext r = {| d_pipe := repeat (n_init_ships (C n)) (n_slt (C n)) ++ repeat (n_init_orders (C n)) (n_olt (C n)) ++ [0]; d_held := 0 |}.
Proof. intros HE. unfold dD_init. rewrite (initD_pipe NW W n Ext r HE). reflexivity. Qed.
Lemma extD_init_oq n r : gq2 (init_state2 NW) (fOQ, n, Ext, r) == 0.
Proof. rewrite init_zero2 by discriminate. reflexivity. Qed.
Lemma extD_len n r : sup_edge NW n Ext r -> (n_olt (C n) + n_slt (C n) < length (d_pipe (dD_init NW n Ext r)))%nat.
Proof. intros HE. rewrite (extD_init n r HE). cbn [d_pipe]. rewrite !app_length, !repeat_length. cbn [length]. lia. Qed.

Theorem external_refinementD2 t n r : sup_edge NW n Ext r -> (t < length inputs)%nat ->
  gq2 (rec t) (fIS, n, Ext, r) == snd (nth t (ext_refD2 n r) dout) /\
  gq2 (rec t) (fIDI, n, Ext, r) == d_held (fst (nth t (ext_refD2 n r) dout)) /\
  leq (gl2 (rec t) (fSP, n, Ext, r)) (d_pipe (fst (nth t (ext_refD2 n r) dout))).
Proof. intros HE Ht. unfold ext_refD2. rewrite <- edgeD_ins_feed, <- (extD_init n r HE).
  apply (refineD_nth NW W O n Ext r HE (n_olt (C n) + n_slt (C n))%nat (fOQ, n, Ext, r) (fun s => gq2 s (fOQ, n, Ext, r) == 0)
           (extD_period_ok NW W O n r HE) (fun s dis dem err _ => extD_next NW n r HE s dis dem err) (extD_init_oq n r) inputs t Ht). Qed.

Theorem external_delayD2 t n r : demB_ok2 inputs -> sup_edge NW n Ext r -> (t + (n_olt (C n) + n_slt (C n)) < length inputs)%nat ->
  (forall u, (t <= u <= t + (n_olt (C n) + n_slt (C n)))%nat -> unpausedD2 n u) ->
  gq2 (rec t) (fOQ, n, Ext, r) <= gq2 (rec (t + (n_olt (C n) + n_slt (C n)))) (fIS, n, Ext, r).
Proof. intros D HE Ht Hu.
  apply (edgeD_lower NW W O n Ext r HE (n_olt (C n) + n_slt (C n))%nat (fOQ, n, Ext, r) (fun s => gq2 s (fOQ, n, Ext, r) == 0)
           (extD_period_ok NW W O n r HE) (fun s dis dem err _ => extD_next NW n r HE s dis dem err) (extD_init_oq n r) inputs t
           (extD_len n r HE) (initD_nn n Ext r)); [|exact Ht|exact Hu].
  intros e He. apply recD_nn; [exact D|exact He|reflexivity]. Qed.

Theorem external_delayD2_exact t n r : sup_edge NW n Ext r -> (t + (n_olt (C n) + n_slt (C n)) < length inputs)%nat ->
  (forall u, (u <= t + (n_olt (C n) + n_slt (C n)))%nat -> unpausedD2 n u) ->
  gq2 (rec (t + (n_olt (C n) + n_slt (C n)))) (fIS, n, Ext, r) == gq2 (rec t) (fOQ, n, Ext, r).
Proof. intros HE Ht Hu.
  apply (edgeD_exact NW W O n Ext r HE (n_olt (C n) + n_slt (C n))%nat (fOQ, n, Ext, r) (fun s => gq2 s (fOQ, n, Ext, r) == 0)
           (extD_period_ok NW W O n r HE) (fun s dis dem err _ => extD_next NW n r HE s dis dem err) (extD_init_oq n r) inputs t
           (extD_len n r HE)); [|exact Ht|exact Hu].
  split; [|reflexivity]. intros i Hi. rewrite (extD_init n r HE). cbn [d_pipe]. apply nth_tail_zero. lia. Qed.

(* ---------------- 3. nothing is lost, and it is received after the disruption ---------------- *)
(* number of periods in t .. t+k-1 in which n's inbound pipelines advance (no transit pause at n) *)
Definition advancesD2 (n : N) (t k : nat) : nat := cntD (fun u => negb (disk2 NW (i_dis (nth u inputs dflt_input2)) n dTP)) t k.
Lemma qsumD_init a b x y : qsum (repeat a x ++ repeat b y ++ [0]) == a * qnat x + b * qnat y.
Proof. rewrite !qsum_app, !qsum_repeat. cbn [qsum]. lra. Qed.
Lemma ndD_tail0 n p r : sup_edge NW n (Nd p) r -> dlD_tail0 (n_slt (C n)) (dD_init NW n (Nd p) r).
Proof. intros HE i Hi. rewrite (ndD_init n p r HE). cbn [d_pipe]. apply nth_tail_zero'. lia. Qed.
Lemma extD_tail0 n r : sup_edge NW n Ext r -> dlD_tail0 (n_olt (C n) + n_slt (C n)) (dD_init NW n Ext r).
Proof. intros HE i Hi. rewrite (extD_init n r HE). cbn [d_pipe]. apply nth_tail_zero. lia. Qed.

(* once n's pipeline has advanced SLT(n) times in t .. t+k-1 and receipt is not paused in t+k, the initial shipments and
   everything p sent to n up to period t have been received by the end of period t+k *)
Theorem shipment_not_lostD2 t k n p r : demB_ok2 inputs -> sup_edge NW n (Nd p) r -> (t + k < length inputs)%nat ->
  (n_slt (C n) <= advancesD2 n t k)%nat -> disk2 NW (i_dis (nth (t + k) inputs dflt_input2)) n dRP = false ->
  n_init_ships (C n) * qnat (n_slt (C n)) + qsum_range (fun u => gq2 (rec u) (fOS, p, Nd n, r)) 0 (S t)
  <= qsum_range (fun u => gq2 (rec u) (fIS, n, Nd p, r)) 0 (S (t + k)).
Proof. intros D HE Ht Ha Hrp.
  pose proof (edgeD_cumul NW W O n (Nd p) r HE (n_slt (C n)) (fOS, p, Nd n, r) (fun _ => True)
           (fun s _ => ndD_period_ok NW W O n p r HE s) (fun _ _ _ _ _ => I) I inputs t k (ndD_len n p r HE) (initD_nn n (Nd p) r) (ndD_tail0 n p r HE)) as X.
  rewrite (ndD_init n p r HE) in X. cbn [d_pipe] in X. rewrite qsumD_init in X.
  assert (Hs : forall e, In e (run2 NW inputs) -> 0 <= gq2 e (fOS, p, Nd n, r)) by (intros e He; apply recD_nn; [exact D|exact He|reflexivity]).
  specialize (X Hs Ht Ha Hrp). lra. Qed.

Theorem external_not_lostD2 t k n r : demB_ok2 inputs -> sup_edge NW n Ext r -> (t + k < length inputs)%nat ->
  (n_olt (C n) + n_slt (C n) <= advancesD2 n t k)%nat -> disk2 NW (i_dis (nth (t + k) inputs dflt_input2)) n dRP = false ->
  n_init_ships (C n) * qnat (n_slt (C n)) + n_init_orders (C n) * qnat (n_olt (C n)) + qsum_range (fun u => gq2 (rec u) (fOQ, n, Ext, r)) 0 (S t)
  <= qsum_range (fun u => gq2 (rec u) (fIS, n, Ext, r)) 0 (S (t + k)).
Proof. intros D HE Ht Ha Hrp.
  pose proof (edgeD_cumul NW W O n Ext r HE (n_olt (C n) + n_slt (C n))%nat (fOQ, n, Ext, r) (fun s => gq2 s (fOQ, n, Ext, r) == 0)
           (extD_period_ok NW W O n r HE) (fun s dis dem err _ => extD_next NW n r HE s dis dem err) (extD_init_oq n r) inputs t k
           (extD_len n r HE) (initD_nn n Ext r) (extD_tail0 n r HE)) as X.
  rewrite (extD_init n r HE) in X. cbn [d_pipe] in X. rewrite qsumD_init in X.
  assert (Hs : forall e, In e (run2 NW inputs) -> 0 <= gq2 e (fOQ, n, Ext, r)) by (intros e He; apply recD_nn; [exact D|exact He|reflexivity]).
  specialize (X Hs Ht Ha Hrp). lra. Qed.
End Main2d.

(* the Stage-2 counterpart of [shipment_delay_statement] of Props/C03.v: no disruption at all at n in t .. t + SLT(n) *)
Theorem shipment_delayD2_undisrupted (NW : net2) (inputs : inputs2) : goodB2b NW = true -> onceB2b NW = true -> demB_ok2 inputs ->
  forall t n p r, sup_edge NW n (Nd p) r -> (t + n_slt (cfg2 NW n) < length inputs)%nat ->
    (forall u, (t <= u <= t + n_slt (cfg2 NW n))%nat -> i_dis (nth u inputs dflt_input2) n = false) ->
    gq2 (nth t (run2 NW inputs) empty_st2) (fOS, p, Nd n, r) <= gq2 (nth (t + n_slt (cfg2 NW n)) (run2 NW inputs) empty_st2) (fIS, n, Nd p, r).
Proof. intros G G1 D t n p r HE Ht Hu. apply (shipment_delayD2 NW inputs G G1 t n p r D HE Ht). intros u Hur. apply undisrupted_unpausedD2. apply Hu. exact Hur. Qed.

(* ---------- a concrete multi-product network: the hypotheses are satisfiable and the statements are non-trivial ----------
   nodes 1 and 2 both make item 10 (from the external raw materials 100 / 101) and both supply it to node 3 (a raw material
   with two suppliers; the first one gets the orders); node 3 makes products 30 (2 units of item 10 each) and 31 (3 units of
   item 10 each) - two products sharing a raw material, BOM numbers > 1 - for the external customer. Non-zero lead times
   (node 3: OLT 1, SLT 2; node 1: OLT 1, SLT 1), initial orders and shipments; disruptions: transit pausing at node 3 in
   period 6, receipt pausing at node 1 in period 7. *)
Definition exD2_tbl : list (N * ncfg2) :=
  [ (1%N, {| n_prods := [10%N];
             n_pc := tbl dflt_pcfg [(10%N, {| k_pol := BS 14; k_cap := Some 12; k_init_il := None; k_hc := 1; k_pc := 0; k_ith := None; k_rev := 0;
                                             k_bom := [(100%N, 1)]; k_custs := [Nd 3%N] |})];
             n_rms := [100%N]; n_rc := tbl dflt_rcfg [(100%N, {| m_sups := [Ext]; m_price := None |})];
             n_preds := []; n_succs := [3%N]; n_slt := 1; n_olt := 1; n_dtype := Some dRP; n_init_orders := 1; n_init_ships := 2 |});
    (2%N, {| n_prods := [10%N];
             n_pc := tbl dflt_pcfg [(10%N, {| k_pol := SS 3 9; k_cap := None; k_init_il := Some 4; k_hc := 1; k_pc := 0; k_ith := None; k_rev := 0;
                                             k_bom := [(101%N, 1)]; k_custs := [Nd 3%N] |})];
             n_rms := [101%N]; n_rc := tbl dflt_rcfg [(101%N, {| m_sups := [Ext]; m_price := None |})];
             n_preds := []; n_succs := [3%N]; n_slt := 0; n_olt := 1; n_dtype := None; n_init_orders := 1; n_init_ships := 0 |});
    (3%N, {| n_prods := [30%N; 31%N];
             n_pc := tbl dflt_pcfg [(30%N, {| k_pol := BS 8; k_cap := None; k_init_il := Some 5; k_hc := 2; k_pc := 5; k_ith := Some (1#2); k_rev := 0;
                                             k_bom := [(10%N, 2)]; k_custs := [Ext] |});
                                    (31%N, {| k_pol := RQ 2 4; k_cap := None; k_init_il := Some 3; k_hc := 2; k_pc := 7; k_ith := None; k_rev := 1;
                                             k_bom := [(10%N, 3)]; k_custs := [Ext] |})];
             n_rms := [10%N]; n_rc := tbl dflt_rcfg [(10%N, {| m_sups := [Nd 1%N; Nd 2%N]; m_price := Some (1%N, 1) |})];
             n_preds := [1%N; 2%N]; n_succs := []; n_slt := 2; n_olt := 1; n_dtype := Some dTP; n_init_orders := 2; n_init_ships := 3 |}) ].
Definition exD2_net : net2 := {| nodes2 := map fst exD2_tbl; cfg2 := tbl dflt_ncfg2 exD2_tbl |}.
Definition exD2_inputs : inputs2 :=
  map (fun t : nat => {| i_dis := fun n : N => match n with 3%N => Nat.eqb t 6 | 1%N => Nat.eqb t 7 | _ => false end;
                         i_dem := fun n k : N => match n, k with 3%N, 30%N => qnat (t mod 3) | 3%N, 31%N => qnat (2 + t mod 2) | _, _ => 0 end;
                         i_err := fun _ _ => 0 |})
      (seq 0 12).

Lemma exD2_good : goodB2b exD2_net = true.  Proof. vm_compute. reflexivity. Qed.
Lemma exD2_once : onceB2b exD2_net = true.  Proof. vm_compute. reflexivity. Qed.
Lemma exD2_dem_ok : demB_ok2 exD2_inputs.
Proof. unfold demB_ok2, exD2_inputs. apply Forall_forall. intros i Hi. apply in_map_iff in Hi. destruct Hi as (t & E & _). subst. cbn [i_dem].
  intros n k. repeat match goal with |- 0 <= match ?x with _ => _ end => destruct x end; try apply qnat_nonneg; lra. Qed.

Notation exD2_rec t := (nth t (run2 exD2_net exD2_inputs) empty_st2).
(* per period:  ordered by 3 from 1 (item 10): 0 0 12 0 12 14 0 14 4 12 14 4;   inbound orders of 1 from 3: 2 0 0 12 0 12 14 0 14 4 12 14
                shipped 1 -> 3: 2 0 0 12 0 12 2 0 24 2 12 6;                     received by 3 from 1: 3 3 2 0 0 12 0 0 12 2 24 2
                ordered by 1 from its external supplier: 0 0 0 11 0 12 12 2 12 6 12 12;  received: 2 1 0 0 0 11 0 0 24 2 12 6 (held in 7: 12) *)
Example main2d_nonvacuous :
  goodB2b exD2_net = true /\ onceB2b exD2_net = true /\ demB_ok2 exD2_inputs /\
  (sup_edge exD2_net 3%N (Nd 1%N) 10%N /\ sup_edge exD2_net 3%N (Nd 2%N) 10%N /\ sup_edge exD2_net 1%N Ext 100%N) /\
  n_olt (cfg2 exD2_net 3%N) = 1%nat /\ n_slt (cfg2 exD2_net 3%N) = 2%nat /\ (n_olt (cfg2 exD2_net 1%N) + n_slt (cfg2 exD2_net 1%N) = 2)%nat /\
  (* orders: in period 5 both products of node 3 order item 10 from node 1; the recorded order is the total (BOM numbers 2 and 3);
     it is node 1's inbound order of period 6; the inbound order of period 0 is node 3's initial order *)
  0 < gq2 (exD2_rec 5) (fOQFG, 3%N, Ext, 30%N) /\ 0 < gq2 (exD2_rec 5) (fOQFG, 3%N, Ext, 31%N) /\
  gq2 (exD2_rec 5) (fOQ, 3%N, Nd 1%N, 10%N) == 2 * gq2 (exD2_rec 5) (fOQFG, 3%N, Ext, 30%N) + 3 * gq2 (exD2_rec 5) (fOQFG, 3%N, Ext, 31%N) /\
  gq2 (exD2_rec 6) (fIO, 1%N, Nd 3%N, 10%N) == gq2 (exD2_rec 5) (fOQ, 3%N, Nd 1%N, 10%N) /\
  gq2 (exD2_rec 0) (fIO, 1%N, Nd 3%N, 10%N) == n_init_orders (cfg2 exD2_net 3%N) /\
  (* shipments 1 -> 3: the hypotheses of shipment_delayD2 / shipment_delayD2_exact hold at t = 3, and something is shipped *)
  (forall u, (u <= 3 + 2)%nat -> unpausedD2 exD2_net exD2_inputs 3%N u) /\
  0 < gq2 (exD2_rec 3) (fOS, 1%N, Nd 3%N, 10%N) /\ gq2 (exD2_rec 5) (fIS, 3%N, Nd 1%N, 10%N) == gq2 (exD2_rec 3) (fOS, 1%N, Nd 3%N, 10%N) /\
  (* the shipment of period 5 is delayed by the transit pause of period 6: nothing arrives in period 7, it arrives in period 8 *)
  ~ unpausedD2 exD2_net exD2_inputs 3%N 6 /\ gq2 (exD2_rec 7) (fIS, 3%N, Nd 1%N, 10%N) < gq2 (exD2_rec 5) (fOS, 1%N, Nd 3%N, 10%N) /\
  gq2 (exD2_rec 8) (fIS, 3%N, Nd 1%N, 10%N) == gq2 (exD2_rec 5) (fOS, 1%N, Nd 3%N, 10%N) /\
  (* after the pause: in the window 7..9 nothing is paused, but more than the shipment of 7 arrives in 9 (<= is strict) *)
  (forall u, (7 <= u <= 7 + 2)%nat -> unpausedD2 exD2_net exD2_inputs 3%N u) /\
  gq2 (exD2_rec 7) (fOS, 1%N, Nd 3%N, 10%N) < gq2 (exD2_rec 9) (fIS, 3%N, Nd 1%N, 10%N) /\
  (* the reference delay line reproduces receipt and pipeline in a paused period *)
  snd (nth 8 (ship_refD2 exD2_net exD2_inputs 3%N 1%N 10%N) dout) == 12 /\
  (* shipment_not_lostD2 at t = 5, k = 3: the pipeline advances twice in 5 .. 7 (transit pause in 6), receipt is not paused in 8;
     here with equality: the initial shipments 2 * 3 and everything sent up to period 5 (26) = everything received up to period 8 *)
  advancesD2 exD2_net exD2_inputs 3%N 5 3 = 2%nat /\ disk2 exD2_net (i_dis (nth (5 + 3) exD2_inputs dflt_input2)) 3%N dRP = false /\
  qsum_range (fun u => gq2 (exD2_rec u) (fOS, 1%N, Nd 3%N, 10%N)) 0 6 == 26 /\ qsum_range (fun u => gq2 (exD2_rec u) (fIS, 3%N, Nd 1%N, 10%N)) 0 9 == 32 /\
  (* external supplier of node 1 (lead time 1 + 1): exact when unpaused; the order of period 5 is held at the door by the
     receipt pause of period 7 and received together with the order of period 6 in period 8 *)
  (forall u, (u <= 3 + 2)%nat -> unpausedD2 exD2_net exD2_inputs 1%N u) /\
  0 < gq2 (exD2_rec 3) (fOQ, 1%N, Ext, 100%N) /\ gq2 (exD2_rec 5) (fIS, 1%N, Ext, 100%N) == gq2 (exD2_rec 3) (fOQ, 1%N, Ext, 100%N) /\
  ~ unpausedD2 exD2_net exD2_inputs 1%N 7 /\ 0 < gq2 (exD2_rec 5) (fOQ, 1%N, Ext, 100%N) /\ gq2 (exD2_rec 7) (fIS, 1%N, Ext, 100%N) == 0 /\
  gq2 (exD2_rec 7) (fIDI, 1%N, Ext, 100%N) == gq2 (exD2_rec 5) (fOQ, 1%N, Ext, 100%N) /\
  gq2 (exD2_rec 8) (fIS, 1%N, Ext, 100%N) == gq2 (exD2_rec 5) (fOQ, 1%N, Ext, 100%N) + gq2 (exD2_rec 6) (fOQ, 1%N, Ext, 100%N).
Proof.
  split; [exact exD2_good|]. split; [exact exD2_once|]. split; [exact exD2_dem_ok|].
  split. { unfold sup_edge. repeat split; cbn; auto 10. }
  split; [reflexivity|]. split; [reflexivity|]. split; [reflexivity|].
  split; [vm_compute; reflexivity|]. split; [vm_compute; reflexivity|]. split; [vm_compute; reflexivity|]. split; [vm_compute; reflexivity|]. split; [vm_compute; reflexivity|].
  split. { intros u Hu. assert (H : (u = 0 \/ u = 1 \/ u = 2 \/ u = 3 \/ u = 4 \/ u = 5)%nat) by lia.
           destruct H as [H|[H|[H|[H|[H|H]]]]]; subst u; split; vm_compute; reflexivity. }
  split; [vm_compute; reflexivity|]. split; [vm_compute; reflexivity|].
  split. { intros [H _]. vm_compute in H. discriminate H. }
  split; [vm_compute; reflexivity|]. split; [vm_compute; reflexivity|].
  split. { intros u Hu. assert (H : (u = 7 \/ u = 8 \/ u = 9)%nat) by lia. destruct H as [H|[H|H]]; subst u; split; vm_compute; reflexivity. }
  split; [vm_compute; reflexivity|]. split; [vm_compute; reflexivity|].
  split; [vm_compute; reflexivity|]. split; [vm_compute; reflexivity|]. split; [vm_compute; reflexivity|]. split; [vm_compute; reflexivity|].
  split. { intros u Hu. assert (H : (u = 0 \/ u = 1 \/ u = 2 \/ u = 3 \/ u = 4 \/ u = 5)%nat) by lia.
           destruct H as [H|[H|[H|[H|[H|H]]]]]; subst u; split; vm_compute; reflexivity. }
  split; [vm_compute; reflexivity|]. split; [vm_compute; reflexivity|].
  split. { intros [_ H]. vm_compute in H. discriminate H. }
  split; [vm_compute; reflexivity|]. split; [vm_compute; reflexivity|]. split; vm_compute; reflexivity. Qed.

Print Assumptions order_delayD2.
Print Assumptions order_delayD2_initial.
Print Assumptions shipment_refinementD2.
Print Assumptions shipment_delayD2.
Print Assumptions shipment_delayD2_exact.
Print Assumptions shipment_delayD2_undisrupted.
Print Assumptions external_refinementD2.
Print Assumptions external_delayD2.
Print Assumptions external_delayD2_exact.
Print Assumptions shipment_not_lostD2.
Print Assumptions external_not_lostD2.
Print Assumptions main2d_nonvacuous.
