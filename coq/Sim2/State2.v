(* State of the Stage-2 simulator model: two maps (rationals, lists) keyed by (field, node, neighbour, item).
   Representation: a three-level association map  node -> item -> (field, neighbour) -> value  with in-place
   read-modify-write [amod] (one short traversal per level instead of one traversal of all keys; this is what makes the
   vm_compute evaluation of a multi-product run fast enough). The model (Model2.v) and every proof about it need only
   the interface gq2 / gl2 / sq2 / sl2 / addq2 / empty_st2 / norm_st and the read-after-write lemmas below. *)
From SV Require Export Sim.Model.

Section Amod.
Variables (K V : Type) (eq_dec : forall a b : K, {a = b} + {a <> b}) (d : V).
(* replace the value at k by f (value at k); an absent key holds the default d *)
Fixpoint amod (m : amap K V) (k : K) (f : V -> V) : amap K V :=
  match m with
  | [] => [(k, f d)]
  | (k', v) :: r => if eq_dec k k' then (k', f v) :: r else (k', v) :: amod r k f
  end.
Lemma aget_amod_same m k f : aget eq_dec d (amod m k f) k = f (aget eq_dec d m k).
Proof. induction m as [|[k0 v0] r IH]; cbn [amod aget].
  - destruct (eq_dec k k); [reflexivity|congruence].
  - destruct (eq_dec k k0) as [E|NE]; cbn [aget].
    + destruct (eq_dec k k0); [reflexivity|congruence].
    + destruct (eq_dec k k0); [congruence|exact IH]. Qed.
Lemma aget_amod_other m k k' f : k <> k' -> aget eq_dec d (amod m k' f) k = aget eq_dec d m k.
Proof. intros H. induction m as [|[k0 v0] r IH]; cbn [amod aget].
  - destruct (eq_dec k k'); [congruence|reflexivity].
  - destruct (eq_dec k' k0) as [E|NE]; cbn [aget].
    + subst. destruct (eq_dec k k0); [congruence|reflexivity].
    + destruct (eq_dec k k0); [reflexivity|exact IH]. Qed.
(* mapping a function that fixes the default over the values *)
Definition amapv (g : V -> V) (m : amap K V) : amap K V := map (fun kv => (fst kv, g (snd kv))) m.
Lemma aget_amapv g m k : g d = d -> aget eq_dec d (amapv g m) k = g (aget eq_dec d m k).
Proof. intros Hd. induction m as [|[k0 v0] r IH]; cbn [amapv map aget fst snd]; [symmetry; exact Hd|].
  destruct (eq_dec k k0); [reflexivity|exact IH]. Qed.
End Amod.
Arguments amod {K V} eq_dec d m k f.
Arguments amapv {K V} g m.

Definition key2 := (fld * N * nb * N)%type.             (* field, node, neighbour, item (product or raw material) *)
Definition ikey := (fld * nb)%type.
Definition ikey_eq_dec : forall a b : ikey, {a = b} + {a <> b}.
Proof. decide equality; [apply nb_eq_dec | apply fld_eq_dec]. Defined.
Definition key2_eq_dec : forall a b : key2, {a = b} + {a <> b}.
Proof. decide equality; [apply N.eq_dec | apply key_eq_dec]. Defined.

Definition smap (V : Type) := amap N (amap N (amap ikey V)).
Definition sget {V} (d : V) (m : smap V) (k : key2) : V :=
  let '(f, n, x, i) := k in aget ikey_eq_dec d (aget N.eq_dec [] (aget N.eq_dec [] m n) i) (f, x).
Definition smod {V} (d : V) (m : smap V) (k : key2) (g : V -> V) : smap V :=
  let '(f, n, x, i) := k in
  amod N.eq_dec [] m n (fun m1 => amod N.eq_dec [] m1 i (fun m2 => amod ikey_eq_dec d m2 (f, x) g)).
Definition smapv {V} (g : V -> V) (m : smap V) : smap V := amapv (amapv (amapv g)) m.

Lemma sget_smod_same {V} (d : V) m k g : sget d (smod d m k g) k = g (sget d m k).
Proof. destruct k as [[[f n] x] i]. unfold sget, smod. rewrite !aget_amod_same. reflexivity. Qed.
Lemma sget_smod_other {V} (d : V) m k k' g : k <> k' -> sget d (smod d m k' g) k = sget d m k.
Proof. destruct k as [[[f n] x] i], k' as [[[f' n'] x'] i']. intros H. unfold sget, smod.
  destruct (N.eq_dec n n') as [En|Nn]; [subst n'|rewrite aget_amod_other by exact Nn; reflexivity].
  rewrite aget_amod_same.
  destruct (N.eq_dec i i') as [Ei|Ni]; [subst i'|rewrite aget_amod_other by exact Ni; reflexivity].
  rewrite aget_amod_same. apply aget_amod_other. intro E. apply H. inversion E; subst. reflexivity. Qed.
Lemma sget_smapv {V} (d : V) g m k : g d = d -> sget d (smapv g m) k = g (sget d m k).
Proof. intros Hd. destruct k as [[[f n] x] i]. unfold sget, smapv.
  transitivity (aget ikey_eq_dec d (amapv g (aget N.eq_dec [] (aget N.eq_dec [] m n) i)) (f, x)); [|apply aget_amapv; exact Hd].
  f_equal.
  transitivity (aget N.eq_dec [] (amapv (amapv g) (aget N.eq_dec [] m n)) i); [|apply aget_amapv; reflexivity].
  f_equal. apply aget_amapv. reflexivity. Qed.

Record st2 := { qm2 : smap Q; lm2 : smap (list Q) }.
Definition gq2 (s : st2) (k : key2) : Q := sget 0 (qm2 s) k.
Definition gl2 (s : st2) (k : key2) : list Q := sget [] (lm2 s) k.
Definition sq2 (s : st2) (k : key2) (v : Q) : st2 := {| qm2 := smod 0 (qm2 s) k (fun _ => v); lm2 := lm2 s |}.
Definition sl2 (s : st2) (k : key2) (v : list Q) : st2 := {| qm2 := qm2 s; lm2 := smod [] (lm2 s) k (fun _ => v) |}.
Definition addq2 (s : st2) (k : key2) (v : Q) : st2 := {| qm2 := smod 0 (qm2 s) k (fun x => x + v); lm2 := lm2 s |}.
Definition empty_st2 : st2 := {| qm2 := []; lm2 := [] |}.
(* representation only: every stored rational in lowest terms *)
Definition norm_st (s : st2) : st2 := {| qm2 := smapv Qred (qm2 s); lm2 := smapv (map Qred) (lm2 s) |}.

(* ---- read-after-write ---- *)
Lemma gq2_sq2_same s k v : gq2 (sq2 s k v) k = v.
Proof. unfold gq2, sq2. cbn [qm2]. exact (sget_smod_same 0 (qm2 s) k (fun _ => v)). Qed.
Lemma gq2_sq2_other s k k' v : k <> k' -> gq2 (sq2 s k' v) k = gq2 s k.
Proof. intros H. unfold gq2, sq2. cbn [qm2]. apply sget_smod_other. exact H. Qed.
Lemma gq2_addq2_same s k v : gq2 (addq2 s k v) k = gq2 s k + v.
Proof. unfold gq2, addq2. cbn [qm2]. exact (sget_smod_same 0 (qm2 s) k (fun x => x + v)). Qed.
Lemma gq2_addq2_other s k k' v : k <> k' -> gq2 (addq2 s k' v) k = gq2 s k.
Proof. intros H. unfold gq2, addq2. cbn [qm2]. apply sget_smod_other. exact H. Qed.
Lemma gq2_sl2 s k k' v : gq2 (sl2 s k' v) k = gq2 s k.  Proof. reflexivity. Qed.
Lemma gl2_sq2 s k k' v : gl2 (sq2 s k' v) k = gl2 s k.  Proof. reflexivity. Qed.
Lemma gl2_addq2 s k k' v : gl2 (addq2 s k' v) k = gl2 s k.  Proof. reflexivity. Qed.
Lemma gl2_sl2_same s k v : gl2 (sl2 s k v) k = v.
Proof. unfold gl2, sl2. cbn [lm2]. exact (sget_smod_same [] (lm2 s) k (fun _ => v)). Qed.
Lemma gl2_sl2_other s k k' v : k <> k' -> gl2 (sl2 s k' v) k = gl2 s k.
Proof. intros H. unfold gl2, sl2. cbn [lm2]. apply sget_smod_other. exact H. Qed.
Lemma gq2_empty k : gq2 empty_st2 k = 0.  Proof. destruct k as [[[f n] x] i]. reflexivity. Qed.
Lemma gl2_empty k : gl2 empty_st2 k = [].  Proof. destruct k as [[[f n] x] i]. reflexivity. Qed.
Lemma gq2_norm s k : gq2 (norm_st s) k = Qred (gq2 s k).
Proof. unfold gq2, norm_st. cbn [qm2]. apply sget_smapv. reflexivity. Qed.
Lemma gl2_norm s k : gl2 (norm_st s) k = map Qred (gl2 s k).
Proof. unfold gl2, norm_st. cbn [lm2]. apply sget_smapv. reflexivity. Qed.
Lemma gq2_norm_eq s k : gq2 (norm_st s) k == gq2 s k.
Proof. rewrite gq2_norm. apply Qred_correct. Qed.
