(* Stage-2 simulator invariants (group A), part 0: tactics for the 4-component keys of Sim2/State2.v, generic fold /
   sum lemmas, and the parametrised non-negativity predicate [NNg]. *)
From SV Require Import Sim.Model Sim.StateLemmas Sim.Inv_base Sim.Inv_node.
From SV Require Import Sim2.State2 Sim2.Model2.

(* ---------- read-after-write rewriting ---------- *)
Ltac key2_neq := let E := fresh "E" in intro E; inversion E; subst; try congruence; try contradiction; try tauto.
Ltac gs21 :=
  first [ rewrite gq2_sq2_same | rewrite gq2_addq2_same | rewrite gl2_sl2_same | rewrite gq2_sl2 | rewrite gl2_sq2 | rewrite gl2_addq2
        | rewrite gq2_sq2_other by key2_neq | rewrite gq2_addq2_other by key2_neq | rewrite gl2_sl2_other by key2_neq ].
Ltac gs2 := repeat gs21.
Ltac kcase2 k k' := destruct (key2_eq_dec k k') as [?KE|?KN]; [first [progress subst | inversion KE; subst | idtac]|].
Ltac gsplit2 :=
  repeat (gs2; match goal with
    | |- context [gq2 (sq2 _ ?k' _) ?k] => kcase2 k k'
    | |- context [gq2 (addq2 _ ?k' _) ?k] => kcase2 k k'
    end); gs2.

Definition node_of2 (k : key2) : N := snd (fst (fst k)).
Definition fld_of2 (k : key2) : fld := fst (fst (fst k)).

(* ---------- folds ---------- *)
Lemma fold_establish2 {A} (eqd : forall a b : A, {a = b} + {a <> b}) (f : st2 -> A -> st2) (Q : A -> st2 -> Prop) :
  (forall s a, Q a (f s a)) -> (forall s a b, a <> b -> Q a s -> Q a (f s b)) ->
  forall l s a, In a l -> Q a (fold_left f l s).
Proof. intros Hset Hkeep. induction l as [|b r IH]; intros s a Hin; [destruct Hin|]. cbn [fold_left].
  destruct (in_dec eqd a r) as [Hr|Hnr]; [apply IH; exact Hr|].
  destruct Hin as [E|Hr]; [subst b|contradiction].
  apply fold_left_inv; [|apply Hset]. intros s' x Hx Hq. apply Hkeep; [|exact Hq]. intro E. subst. contradiction. Qed.

(* ---------- sums ---------- *)
Lemma qsumf_const {A} (c : Q) (l : list A) : qsumf (fun _ => c) l == qnat (length l) * c.
Proof. unfold qsumf. induction l as [|a r IH]; cbn [map qsum length]; [unfold qnat; cbn [Z.of_nat inject_Z]; ring|].
  rewrite IH. unfold qnat. rewrite Nat2Z.inj_succ. unfold Z.succ. rewrite inject_Z_plus. cbn [inject_Z]. ring. Qed.
Lemma qsumf_zero {A} (g : A -> Q) l : (forall x, In x l -> g x == 0) -> qsumf g l == 0.
Proof. unfold qsumf. induction l as [|a r IH]; intros H; cbn [map qsum]; [lra|].
  rewrite (H a) by (left; reflexivity). rewrite IH; [lra|]. intros x Hx. apply H. right. exact Hx. Qed.
Lemma qsumf_scale {A} (c : Q) (g : A -> Q) l : qsumf (fun x => c * g x) l == c * qsumf g l.
Proof. unfold qsumf. apply qsum_map_scale. Qed.
Lemma qsumf_div {A} (t : Q) (g : A -> Q) l : qsumf (fun x => g x / t) l == qsumf g l / t.
Proof. unfold qsumf. induction l as [|a r IH]; cbn [map qsum]; [unfold Qdiv; lra|]. rewrite IH. unfold Qdiv. lra. Qed.
Lemma qsumf_le {A} (g h : A -> Q) l : (forall x, In x l -> g x <= h x) -> qsumf g l <= qsumf h l.
Proof. unfold qsumf. induction l as [|a r IH]; intros H; cbn [map qsum]; [lra|].
  pose proof (H a (or_introl eq_refl)). assert (qsum (map g r) <= qsum (map h r)) by (apply IH; intros x Hx; apply H; right; exact Hx). lra. Qed.
Lemma qsumf_filter {A} (p : A -> bool) (g : A -> Q) l : qsumf (fun x => if p x then g x else 0) l == qsumf g (filter p l).
Proof. unfold qsumf. induction l as [|a r IH]; cbn [map qsum filter]; [lra|]. destruct (p a); cbn [map qsum]; rewrite IH; lra. Qed.
Lemma qnat_nonneg k : 0 <= qnat k.
Proof. unfold qnat. change 0 with (inject_Z 0). rewrite <- Zle_Qle. apply Nat2Z.is_nonneg. Qed.
Lemma qnat_pos k : (0 < k)%nat -> 0 < qnat k.
Proof. intros H. unfold qnat. change 0 with (inject_Z 0). rewrite <- Zlt_Qlt. lia. Qed.

Lemma nth_nonneg (l : list Q) j : nonneg_l l -> 0 <= nth j l 0.
Proof. intros H. revert j. induction H as [|a r Ha Hr IH]; intros [|j]; cbn [nth]; try lra; auto. Qed.
Lemma nonneg_firstn k (l : list Q) : nonneg_l l -> nonneg_l (firstn k l).
Proof. intros H. revert k. induction H as [|a r Ha Hr IH]; intros [|k]; cbn [firstn]; try (constructor; fail).
  constructor; [exact Ha|apply IH]. Qed.
Lemma nonneg_map_Qred (l : list Q) : nonneg_l l -> nonneg_l (map Qred l).
Proof. induction 1 as [|a r Ha Hr IH]; cbn [map]; constructor; [rewrite Qred_correct; exact Ha|exact IH]. Qed.

(* ---------- association lists (bills of materials) ---------- *)
Lemma aget_in (l : list (N * Q)) r : existsb (fun x => N.eqb (fst x) r) l = true -> In (r, aget N.eq_dec 0 l r) l.
Proof. induction l as [|[r0 b0] t IH]; cbn [existsb aget fst]; intros H; [discriminate|].
  destruct (N.eq_dec r r0) as [E|NE]; [subst; left; reflexivity|].
  apply orb_true_iff in H. destruct H as [H|H]; [apply N.eqb_eq in H; congruence|]. right. apply IH. exact H. Qed.
Lemma bom_sum_spec (l : list (N * Q)) r : NoDup (map fst l) ->
  qsumf (fun rb => if N.eqb (fst rb) r then snd rb else 0) l
  == if existsb (fun x => N.eqb (fst x) r) l then aget N.eq_dec 0 l r else 0.
Proof. unfold qsumf. induction l as [|[r0 b0] t IH]; cbn [map qsum existsb aget fst snd]; intros ND; [lra|].
  inversion ND as [|? ? Hni Ht]; subst. specialize (IH Ht).
  destruct (N.eqb_spec r0 r) as [E|NE]; cbn [orb].
  - subst r0. destruct (N.eq_dec r r) as [_|X]; [|congruence].
    assert (Z : existsb (fun x => N.eqb (fst x) r) t = false).
    { destruct (existsb (fun x => N.eqb (fst x) r) t) eqn:EX; [|reflexivity]. exfalso. apply Hni.
      apply existsb_exists in EX. destruct EX as (x & Hx & Ex). apply N.eqb_eq in Ex. subst r. apply in_map. exact Hx. }
    rewrite Z in IH. rewrite IH. lra.
  - destruct (N.eq_dec r r0) as [X|_]; [congruence|]. rewrite IH. lra. Qed.

(* ---------- non-negativity, parametrised by the set of fields it speaks about ---------- *)
Definition NNg (P : fld -> bool) (s : st2) : Prop :=
  (forall f n x i, P f = true -> 0 <= gq2 s (f, n, x, i)) /\ (forall k, nonneg_l (gl2 s k)).

Lemma NNg_sq P s f n x i v : NNg P s -> (P f = true -> 0 <= v) -> NNg P (sq2 s (f, n, x, i) v).
Proof. intros [H1 H2] Hv. split.
  - intros f' n' x' i' Hf. kcase2 (f', n', x', i') (f, n, x, i); [gs2; auto | rewrite gq2_sq2_other by assumption; auto].
  - intros k. gs2. apply H2. Qed.
Lemma NNg_addq P s f n x i v : NNg P s -> (P f = true -> 0 <= gq2 s (f, n, x, i) + v) -> NNg P (addq2 s (f, n, x, i) v).
Proof. intros [H1 H2] Hv. split.
  - intros f' n' x' i' Hf. kcase2 (f', n', x', i') (f, n, x, i); [gs2; auto | rewrite gq2_addq2_other by assumption; auto].
  - intros k. gs2. apply H2. Qed.
Lemma NNg_addq_pos P s f n x i v : NNg P s -> 0 <= v -> NNg P (addq2 s (f, n, x, i) v).
Proof. intros H Hv. apply NNg_addq; [exact H|]. intros Hf. destruct H as [H1 _]. specialize (H1 f n x i Hf). lra. Qed.
Lemma NNg_sl P s k v : NNg P s -> nonneg_l v -> NNg P (sl2 s k v).
Proof. intros [H1 H2] Hv. split.
  - intros f n x i Hf. gs2. auto.
  - intros k'. kcase2 k' k; [gs2; exact Hv | rewrite gl2_sl2_other by assumption; apply H2]. Qed.
Lemma NNg_q P s f n x i : NNg P s -> P f = true -> 0 <= gq2 s (f, n, x, i).
Proof. intros [H _]. apply H. Qed.
Lemma NNg_l P s k : NNg P s -> nonneg_l (gl2 s k).
Proof. intros [_ H]. apply H. Qed.
Lemma NNg_norm P s : NNg P s -> NNg P (norm_st s).
Proof. intros [H1 H2]. split.
  - intros f n x i Hf. rewrite gq2_norm_eq. apply H1. exact Hf.
  - intros k. rewrite gl2_norm. apply nonneg_map_Qred. apply H2. Qed.
Lemma NNg_weaken (P P' : fld -> bool) s : (forall f, P' f = true -> P f = true) -> NNg P s -> NNg P' s.
Proof. intros HP [H1 H2]. split; [intros f n x i Hf; apply H1, HP, Hf|exact H2]. Qed.

(* the physical counts (Stage 1's [nnf]) *)
Definition NN2 : st2 -> Prop := NNg nnf.
(* ... without the raw-material inventory (used inside the production step) *)
Definition nnf_norm (f : fld) : bool := match f with fRM => false | _ => nnf f end.
