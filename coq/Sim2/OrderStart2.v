(* Stage-2 simulator: the NAMED state in which the products of node n start placing their orders in period t.
   Executable definitions only (no proofs): built from the model's own functions of Sim2/Model2.v.
     period_start_state NW inputs t = init_state2 NW                                      (t = 0)
                                    = next_period2 (disruptions of period t-1) (record t-1)  (t > 0)   [how run_from2 chains periods]
     visited_before n l             = the prefix of the traversal l strictly before the first occurrence of n
     order_start_state NW inputs t n =
        recv_orders2 (gen_demand2 (fold_left orders_action2 (visited_before n (order_visit2 NW)) (period_start_state NW inputs t)) n) n
   i.e. start of period t, then the complete orders action (demand generation, receipt of inbound orders, order placement) of every
   node visited before n in the orders traversal, then n's own demand generation and receipt of inbound orders, up to but
   excluding n's own order placement (place_orders2). *)
From SV Require Import Base.Qx.
From SV Require Import Sim.Model.
From SV Require Import Sim2.State2 Sim2.Model2.

(* the default input of Inv2b_period.dflt_input2 (same term; re-stated here so that this model file does not import a proofs file) *)
Definition dflt_input2s : input2 := {| i_dis := fun _ => false; i_dem := fun _ _ => 0; i_err := fun _ _ => 0 |}.

Fixpoint visited_before (n : N) (l : list N) : list N :=
  match l with
  | [] => []
  | x :: r => if N.eqb x n then [] else x :: visited_before n r
  end.

Definition period_start_state (NW : net2) (inputs : inputs2) (t : nat) : st2 :=
  match t with
  | O => init_state2 NW
  | S t' => next_period2 NW (i_dis (nth t' inputs dflt_input2s)) (nth t' (run2 NW inputs) empty_st2)
  end.

(* the state just before node n's own orders action in period t *)
Definition node_turn_state (NW : net2) (inputs : inputs2) (t : nat) (n : N) : st2 :=
  let i := nth t inputs dflt_input2s in
  fold_left (orders_action2 NW (i_dis i) (i_dem i) (i_err i)) (visited_before n (order_visit2 NW)) (period_start_state NW inputs t).

Definition order_start_state (NW : net2) (inputs : inputs2) (t : nat) (n : N) : st2 :=
  let i := nth t inputs dflt_input2s in
  recv_orders2 NW (gen_demand2 NW (i_dem i) (node_turn_state NW inputs t n) n) n.
