(* A concrete multi-product network used to show that the hypotheses of the Stage-2 theorems (group A) are satisfiable
   and that the run is non-trivial:
     node 1: product 10 (raw material 100 from the external supplier);
     node 2: products 10 and 12, both made from raw material 101 (external supplier), BOM numbers 1 and 2;
     node 3: products 20 and 21 for the external customer; both use raw material 10 (BOM numbers 2 and 3), which has TWO
             suppliers (nodes 1 and 2); product 21 also uses raw material 12 (supplier node 2);
   lead times: node 1 SLT 2, node 2 SLT 1, node 3 OLT 1 + SLT 1; an order-pausing disruption at node 1, a shipment-pausing
   one at node 3 (nodes 1 and 2 then hold what they would ship to node 3); initial orders / shipments at node 3. *)
From SV Require Import Sim.Model Sim.Obs.
From SV Require Import Sim2.State2 Sim2.Model2 Sim2.Obs2.
From SV Require Import Sim2.Inv2a_tac Sim2.Inv2a_nn Sim2.Inv2a_node Sim2.Inv2a_run Sim2.Wfb2.

Definition pc0 : pcfg := dflt_pcfg.
Definition ex2_tbl : list (N * ncfg2) :=
  [ (1%N, {| n_prods := [10%N];
             n_pc := tbl dflt_pcfg [(10%N, {| k_pol := BS 20; k_cap := Some 15; k_init_il := None; k_hc := 1; k_pc := 0; k_ith := None; k_rev := 0;
                                             k_bom := [(100%N, 1)]; k_custs := [Nd 3%N] |})];
             n_rms := [100%N]; n_rc := tbl dflt_rcfg [(100%N, {| m_sups := [Ext]; m_price := None |})];
             n_preds := []; n_succs := [3%N]; n_slt := 2; n_olt := 0; n_dtype := Some dOP; n_init_orders := 0; n_init_ships := 0 |});
    (2%N, {| n_prods := [10%N; 12%N];
             n_pc := tbl dflt_pcfg [(10%N, {| k_pol := RQ 5 10; k_cap := None; k_init_il := Some 3; k_hc := 1; k_pc := 0; k_ith := None; k_rev := 0;
                                             k_bom := [(101%N, 1)]; k_custs := [Nd 3%N] |});
                                    (12%N, {| k_pol := BS 9; k_cap := None; k_init_il := Some 2; k_hc := 1; k_pc := 0; k_ith := None; k_rev := 0;
                                             k_bom := [(101%N, 2)]; k_custs := [Nd 3%N] |})];
             n_rms := [101%N]; n_rc := tbl dflt_rcfg [(101%N, {| m_sups := [Ext]; m_price := None |})];
             n_preds := []; n_succs := [3%N]; n_slt := 1; n_olt := 0; n_dtype := None; n_init_orders := 0; n_init_ships := 0 |});
    (3%N, {| n_prods := [20%N; 21%N];
             n_pc := tbl dflt_pcfg [(20%N, {| k_pol := BS 10; k_cap := None; k_init_il := Some 4; k_hc := 2; k_pc := 5; k_ith := None; k_rev := 1;
                                             k_bom := [(10%N, 2)]; k_custs := [Ext] |});
                                    (21%N, {| k_pol := SS 3 8; k_cap := None; k_init_il := Some 2; k_hc := 3; k_pc := 8; k_ith := Some (1#2); k_rev := 2;
                                             k_bom := [(10%N, 3); (12%N, 1)]; k_custs := [Ext] |})];
             n_rms := [10%N; 12%N];
             n_rc := tbl dflt_rcfg [(10%N, {| m_sups := [Nd 1%N; Nd 2%N]; m_price := Some (1%N, 1) |});
                                    (12%N, {| m_sups := [Nd 2%N]; m_price := Some (2%N, 1) |})];
             n_preds := [1%N; 2%N]; n_succs := []; n_slt := 1; n_olt := 1; n_dtype := Some dSP; n_init_orders := 1; n_init_ships := 1 |}) ].
Definition ex2_net : net2 := {| nodes2 := map fst ex2_tbl; cfg2 := tbl dflt_ncfg2 ex2_tbl |}.
Definition ex2_inputs : inputs2 :=
  map (fun t : nat => {| i_dis := fun n : N => match n with 3%N => Nat.eqb (t mod 3) 1 | 1%N => Nat.eqb (t mod 4) 2 | _ => false end;
                         i_dem := fun n k : N => match n, k with 3%N, 20%N => qnat (2 + t mod 3) | 3%N, 21%N => qnat (t mod 4) | _, _ => 0 end;
                         i_err := fun _ _ => 0 |})
      (seq 0 10).
