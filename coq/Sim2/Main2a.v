(* Stage 2 (multi-product networks with bills of materials), group A: property C02 - backorders, inventory levels,
   raw-material inventories and service measures stay mutually consistent and non-negative.
   Final forms: statements about every end-of-period record [e] of every run [run2 NW inputs] of every network
   satisfying the decidable predicate [good2b] (Wfb2.v), for every horizon, every disruption sequence, every
   non-negative demand sequence and EVERY value of the position-error input [i_err] (none of these statements depends
   on the order quantities beyond their non-negativity).

   What [good2b NW = true] asks (soundness: [good2b_sound : good2b NW = true -> wf_net2 NW]), and where it is used:
     for every node n of [nodes2 NW]
       - its product list is duplicate-free                                         (backorder identity, shipping bound)
       - for every product k of n:
           the customer list of k is duplicate-free                                 (backorder identity, pending, DMC <= DC)
           every raw material occurs once in k's bill of materials, BOM numbers > 0 (raw-material inventory >= 0; made >= 0)
           policy parameters give non-negative orders: SS s <= S, RQ/FQ Q >= 0, capacity >= 0     (all counts >= 0)
           a given initial inventory level is >= 0                                  (backorder identity at time 0)
           every customer node of k has initial orders >= 0                         (order pipelines >= 0 at time 0)
       - initial orders >= 0, initial shipments >= 0                                (shipment pipelines >= 0 at time 0)
     the two traversals of sim.step (order_visit2, ship_visit2) visit only nodes of [nodes2 NW].
   NOT needed by this group: consistency between customer tables and supplier tables, duplicate-free raw-material /
   supplier lists, coverage of the node list by the traversals, inertness of the configuration outside the node list. *)
From SV Require Import Sim.Model Sim.Obs Sim.StateLemmas Sim.Inv_base Sim.Inv_node.
From SV Require Import Sim2.State2 Sim2.Model2 Sim2.Obs2.
From SV Require Import Sim2.Inv2a_tac Sim2.Inv2a_nn Sim2.Inv2a_node Sim2.Inv2a_run Sim2.Inv2a_oo Sim2.Wfb2 Sim2.Example2.

Section Main2a.
Variable (NW : net2) (inputs : inputs2).
Hypothesis G : good2b NW = true.
Hypothesis D : dem_ok2 inputs.
Notation C := (cfg2 NW).
Notation PC := (PC NW).

Lemma good_wf2 : wf_net2 NW.  Proof. apply good2b_sound. exact G. Qed.
Lemma rec_all2 e : In e (run2 NW inputs) -> ALL2 NW e.
Proof. intros H. pose proof (ALL2_run NW good_wf2 inputs D) as F. rewrite Forall_forall in F. apply F. exact H. Qed.

(* ---- 1. backorders = negative part of the inventory level, per product ---- *)
Theorem C02m_backorders_eq_neg_il : forall e n k, In e (run2 NW inputs) ->
  qsumf (fun c => gq2 e (fBO, n, c, k)) (k_custs (PC n k)) == qmax 0 (- gq2 e (fIL, n, Ext, k)).
Proof. intros e n k H. destruct (rec_all2 e H) as [_ HD]. apply (HD n k). Qed.

(* ---- 2. no count is negative ---- *)
Theorem C02m_counts_nonneg : forall e n x i, In e (run2 NW inputs) ->
  0 <= gq2 e (fOS, n, x, i) /\ 0 <= gq2 e (fIO, n, x, i) /\ 0 <= gq2 e (fOQ, n, x, i) /\ 0 <= gq2 e (fOQFG, n, Ext, i) /\ 0 <= gq2 e (fIS, n, x, i)
  /\ 0 <= gq2 e (fRM, n, Ext, i) /\ 0 <= gq2 e (fBO, n, x, i) /\ 0 <= gq2 e (fODI, n, x, i) /\ 0 <= gq2 e (fIDI, n, x, i)
  /\ 0 <= gq2 e (fDMFS, n, Ext, i) /\ 0 <= gq2 e (fDC, n, Ext, i) /\ 0 <= gq2 e (fDMC, n, Ext, i)
  /\ Forall (fun v => 0 <= v) (gl2 e (fSP, n, x, i)) /\ Forall (fun v => 0 <= v) (gl2 e (fOP, n, x, i)).
Proof. intros e n x i H. destruct (rec_all2 e H) as [A _]. repeat split; try (apply (NNg_q nnf); [exact A|reflexivity]); apply (NNg_l nnf); exact A. Qed.

(* the raw-material inventory: the new fact of the multi-product model *)
Theorem C02m_raw_material_nonneg : forall e n r, In e (run2 NW inputs) -> 0 <= gq2 e (fRM, n, Ext, r).
Proof. intros e n r H. destruct (rec_all2 e H) as [A _]. apply (NNg_q nnf); [exact A|reflexivity]. Qed.
(* ... which rests on: in ANY state, the shares of raw material r over the products of n that use it add up to at most
   what is available (no hypothesis on the network), and to exactly that in the two regular cases *)
Theorem C02m_shares_le_available : forall s n r, 0 <= gq2 s (fRM, n, Ext, r) ->
  qsumf (share2 NW s n r) (prods_for NW n r) <= gq2 s (fRM, n, Ext, r).
Proof. exact (share2_sum_le NW). Qed.
Theorem C02m_shares_eq_available : forall s n r, 0 < gq2 s (fRM, n, Ext, r) ->
  (qeqb (hist_oq NW s n r) 0 = true /\ prods_for NW n r <> []) \/
  (qeqb (hist_oq NW s n r) 0 = false /\ 0 < qsumf (fun k' => hist_fg NW s n k' * nbom (PC n k') r) (prods_for NW n r)) ->
  qsumf (share2 NW s n r) (prods_for NW n r) == gq2 s (fRM, n, Ext, r).
Proof. exact (share2_sum_eq NW). Qed.
(* ... and: what the production step of node n takes of raw material r (made_k * BOM entries of k for r, summed over the
   products) is at most what is there; after production the inventory is what was there minus that *)
Theorem C02m_production_within_stock : forall s n r, In n (nodes2 NW) -> NN2 s ->
  qsumf (fun k => made2 NW s n k * cons_of NW n k r) (n_prods (C n)) <= gq2 s (fRM, n, Ext, r)
  /\ gq2 (produce2 NW s n) (fRM, n, Ext, r) == gq2 s (fRM, n, Ext, r) - qsumf (fun k => made2 NW s n k * cons_of NW n k r) (n_prods (C n)).
Proof. intros s n r Hn HN. pose proof (wf2_node NW good_wf2 n Hn) as Hok. split.
  - apply produce2_rm_bound; [exact HN|]. intros k Hk. apply (po_bom NW n k), (no_prod NW n Hok k Hk).
  - unfold produce2. apply produce_fold_rm. Qed.

(* on-order quantities: non-negative wherever the on-order identity of group B (C03) holds *)
Theorem C02m_on_order_nonneg_if : forall e n p r, In e (run2 NW inputs) ->
  match p with
  | Nd p' => gq2 e (fOO, n, p, r) == qsum (gl2 e (fOP, p', Nd n, r)) + gq2 e (fBO, p', Nd n, r) + gq2 e (fODI, p', Nd n, r) + qsum (gl2 e (fSP, n, p, r))
  | Ext => gq2 e (fOO, n, p, r) == qsum (gl2 e (fSP, n, p, r))
  end -> 0 <= gq2 e (fOO, n, p, r).
Proof. intros e n p r H. destruct (rec_all2 e H) as [A _]. destruct p as [|p']; intros E; rewrite E.
  - apply qsum_nonneg, (NNg_l nnf), A.
  - pose proof (qsum_nonneg _ (NNg_l nnf e (fOP, p', Nd n, r) A)). pose proof (qsum_nonneg _ (NNg_l nnf e (fSP, n, Nd p', r) A)).
    pose proof (NNg_q nnf e fBO p' (Nd n) r A eq_refl). pose proof (NNg_q nnf e fODI p' (Nd n) r A eq_refl). lra. Qed.

(* ... and unconditionally when, in addition, the customer tables are consistent with the supplier tables ([cons2b]):
   the on-order quantity dominates orders travelling + received-not-served + backordered + held + shipments travelling
   (inequality invariant OOI of Inv2_oo.v; no pipeline-length or traversal hypothesis is needed) *)
Theorem C02m_on_order_nonneg : cons2b NW = true -> forall e n p r, In e (run2 NW inputs) -> 0 <= gq2 e (fOO, n, p, r).
Proof. intros CB e n p r H. pose proof (OOI_run NW inputs good_wf2 (cons2b_sound NW CB) D) as F. rewrite Forall_forall in F.
  destruct (F e H) as [HN HO]. apply OOI_nonneg; assumption. Qed.
Theorem C02m_on_order_dominates : cons2b NW = true -> forall e n p r, In e (run2 NW inputs) ->
  qsum (gl2 e (fOP, p, Nd n, r)) + gq2 e (fPIO, p, Nd n, r) + gq2 e (fBO, p, Nd n, r) + gq2 e (fODI, p, Nd n, r) + qsum (gl2 e (fSP, n, Nd p, r))
    <= gq2 e (fOO, n, Nd p, r)
  /\ qsum (gl2 e (fSP, n, Ext, r)) <= gq2 e (fOO, n, Ext, r).
Proof. intros CB e n p r H. pose proof (OOI_run NW inputs good_wf2 (cons2b_sound NW CB) D) as F. rewrite Forall_forall in F.
  destruct (F e H) as [_ [H1 H2]]. split; [apply (H1 n p r)|apply H2]. Qed.

(* ---- 3. shipping bound per product: a node never ships more of product k than it held (on hand, or set aside for
   disrupted customers) plus what it produced: shipped + change of held items <= positive inventory before + produced;
   stated for one shipping action from any intermediate state satisfying the (proved-invariant) predicates ---- *)
Theorem C02m_shipping_bound : forall (dis : N -> bool) s n k, In n (nodes2 NW) -> In k (n_prods (C n)) -> NN2 s -> ND2 NW s ->
  let e := ships_action2 NW dis s n in
  exists made, 0 <= made /\
    SF2 fOS e n k (k_custs (PC n k)) + SF2 fODI e n k (k_custs (PC n k)) - SF2 fODI s n k (k_custs (PC n k))
      <= qmax 0 (gq2 s (fIL, n, Ext, k)) + made /\
    gq2 e (fIL, n, Ext, k) == gq2 s (fIL, n, Ext, k) + made - SF2 fPIO s n k (k_custs (PC n k)).
Proof. intros dis s n k Hn Hk HN HD. pose proof (wf2_node NW good_wf2 n Hn) as Hok.
  destruct (ND2_ships_action2 NW dis s n (no_prods NW n Hok)) as (_ & B & _); try assumption.
  - intros k0 Hk0. apply (po_cus NW n k0), (no_prod NW n Hok k0 Hk0).
  - intros k0 Hk0. apply (po_bom NW n k0), (no_prod NW n Hok k0 Hk0).
  - apply B. exact Hk. Qed.

(* ---- 4. demand met from stock; the fill rate ---- *)
Theorem C02m_demand_met_bounds : forall e n k, In e (run2 NW inputs) ->
  0 <= gq2 e (fDMC, n, Ext, k) /\ gq2 e (fDMC, n, Ext, k) <= gq2 e (fDC, n, Ext, k).
Proof. intros e n k H. apply (demand_met_le_demand2 NW e n k (rec_all2 e H)). Qed.

(* the fill rate on record for every product of every node the shipments traversal visits is exactly cumulative demand
   met from stock / cumulative demand (1 when there has been no demand), hence within [0,1] *)
Theorem C02m_fill_rate : forall e n k, In e (run2 NW inputs) -> In n (ship_visit2 NW) -> In k (n_prods (C n)) ->
  gq2 e (fFR, n, Ext, k) = (if qltb 0 (gq2 e (fDC, n, Ext, k)) then gq2 e (fDMC, n, Ext, k) / gq2 e (fDC, n, Ext, k) else 1)
  /\ 0 <= gq2 e (fFR, n, Ext, k) /\ gq2 e (fFR, n, Ext, k) <= 1.
Proof. intros e n k H Hn Hk. pose proof (FRok_run NW inputs e n k H Hn Hk) as F. unfold FRok in F. rewrite F. split; [reflexivity|].
  destruct (demand_met_le_demand2 NW e n k (rec_all2 e H)) as [H1 H2]. apply fill_rate_range2; assumption. Qed.
End Main2a.

(* the invariants hold in every end-of-period state (and, by the preservation lemmas ALL2_orders_action2 /
   ALL2_ships_action2 / ALL2_next_period2, after every atomic node action in any visit order inside the node list) *)
Theorem C02m_invariants : forall NW inputs, good2b NW = true -> dem_ok2 inputs -> Forall (ALL2 NW) (run2 NW inputs).
Proof. intros NW inputs G D. apply ALL2_run; [apply good2b_sound; exact G|exact D]. Qed.

(* ---- the hypotheses are satisfiable, the run is non-trivial ---- *)
Lemma ex2_dem_ok : dem_ok2 ex2_inputs.
Proof. unfold dem_ok2, ex2_inputs. apply Forall_forall. intros i Hi. apply in_map_iff in Hi. destruct Hi as (t & E & _). subst. cbn [i_dem].
  intros n k. repeat match goal with |- context [match ?x with _ => _ end] => destruct x end; try apply qnat_nonneg; lra. Qed.
Example C02m_nonvacuous : good2b ex2_net = true /\ cons2b ex2_net = true /\ dem_ok2 ex2_inputs /\
  exists e, In e (run2 ex2_net ex2_inputs)
    /\ 0 < gq2 e (fBO, 3%N, Ext, 20%N)                                         (* backorders at the assembler *)
    /\ 0 < gq2 e (fCP, 3%N, Ext, 20%N) /\ 0 < gq2 e (fCP, 3%N, Ext, 21%N)      (* both products made from the shared raw material *)
    /\ 0 < gq2 e (fODI, 2%N, Nd 3%N, 12%N)                                     (* items held for the disrupted customer *)
    /\ 0 < gq2 e (fRM, 3%N, Ext, 12%N)                                         (* raw material left over *)
    /\ 0 < gq2 e (fBO, 1%N, Nd 3%N, 10%N).                                     (* backorders at a supplier *)
Proof. split; [vm_compute; reflexivity|]. split; [vm_compute; reflexivity|]. split; [exact ex2_dem_ok|].
  exists (nth 4 (run2 ex2_net ex2_inputs) empty_st2). split; [apply nth_In; vm_compute; lia|]. vm_compute. repeat split; reflexivity. Qed.

Print Assumptions C02m_backorders_eq_neg_il.
Print Assumptions C02m_counts_nonneg.
Print Assumptions C02m_raw_material_nonneg.
Print Assumptions C02m_shares_le_available.
Print Assumptions C02m_shares_eq_available.
Print Assumptions C02m_production_within_stock.
Print Assumptions C02m_on_order_nonneg_if.
Print Assumptions C02m_on_order_nonneg.
Print Assumptions C02m_on_order_dominates.
Print Assumptions C02m_shipping_bound.
Print Assumptions C02m_demand_met_bounds.
Print Assumptions C02m_fill_rate.
Print Assumptions C02m_invariants.
Print Assumptions C02m_nonvacuous.
