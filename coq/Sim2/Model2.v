(* Executable model of stockpyl's discrete-period simulator (sim.py, node_state_vars.py, policy.py),
   Stage 2: MULTI-PRODUCT networks with bills of materials. Generalises Sim/Model.v (Stage 1): a node handles an ordered
   list of products; product k needs NBOM(k, r) units of each of its raw materials r; a raw material r has an ordered list
   of suppliers (nodes handling r as one of their products, or the external supplier); a product has an ordered list of
   customers (successor nodes that use it as a raw material, and/or the external customer).
   Policies BS / (s,S) / (r,Q) / FQ (local), order capacity, order and shipment lead times (node level), initial inventory /
   orders / shipments, the four disruption types. No proofs in this file.

   The network structure (product order, network-BOM rows in the implementation's raw-material order, supplier order per
   raw material, customer order per product) is an INPUT: the harness reads it from the implementation; the network BOM
   is not re-derived here.

   The period step is a sequence of ATOMIC NODE ACTIONS, in the order of sim.step:
     orders phase   : for n in (post-order DFS from the source nodes): gen_demand2 n; recv_orders2 n; place_orders2 n
                      (place_orders2 = the node's products place their orders one after the other, place_prod2)
     shipments phase: for n in (DFS, a node once all its predecessors are done): recv_ship2 n; produce2 n (product by
                      product, shares of the raw materials fixed beforehand); serve2 n k for every product k; fill_rate2 n
     then costs are read off the end-of-period state and next_period2 shifts the pipelines and the order history.
   State (State2.v) = two maps keyed by (field, node, neighbour, item): rationals and lists. item = product id for the
   finished-goods side (fIL fPFG fOQFG fDMFS fDC fDMC fFR with neighbour Ext; fIO fOS fBO fODI fOP with neighbour = customer)
   and raw-material id for the supply side (fRM with neighbour Ext; fIS fIDI fOO fOQ fSP with neighbour = supplier).
   HISTORY needed by the raw-material allocation of sim._raw_materials_to_finished_goods (the order placed
   OLT+SLT periods ago): the LIST map holds, under the keys (fOQ, n, p, r) and (fOQFG, n, Ext, k), the values of that
   field in the previous OLT+SLT periods, most recent first; next_period2 pushes the current value and drops the oldest.
   (Python reads state_vars[period-OLT-SLT]; for period < OLT+SLT the negative index hits a trailing, never-written
   record, i.e. zeros: the history starts as zeros.)
   Ghost fields as in Stage 1 (never compared with the implementation): fPIO fcIO fcOS fcIS fcOQ fCP fSRV fPEND fLOST,
   now per product / raw material.

   Re-orderings w.r.t. the Python text (all between writes to disjoint keys or commutative accumulations; validated by
   the correspondence on every run):
   - a shipment is put into the successor's pipeline inside serve_one2 (Python: _propagate_shipment_downstream, after
     fill rates; nothing reads those pipelines in between);
   - loops "for successor: for product" (_receive_inbound_orders, next period) and "for predecessor: for its products"
     (_receive_inbound_shipments, next period) are run product-major / raw-material-major over the customer / supplier
     tables; Python also visits (successor, product) pairs that are no supply relation (all their quantities are 0 and
     stay 0) - they are not represented;
   - the external customer's held-items entry is written like the others (value 0).
   Normalisation: order quantities and production quantities are stored Qred-normalised, and next_period2 ends with
   norm_st (Qred on every stored value); this changes representations only (Qred q == q).
   Inputs of a period: the disruption states, the realised external demands, and [err] = the error of the evaluation of
   the inventory positions. The exact model is err = 0 (what every statement about the ordering rule should assume; the
   conservation-type invariants do not depend on the order quantities at all). The implementation evaluates positions in
   binary64, and when the exact position lies ON a reorder point / base-stock level its rounding error decides the branch
   ((s,S)/(r,Q): order or not; base stock: 0 or ~1e-15, which later decides `units_ordered == 0` / `total_demand > 0`).
   The correspondence harness first runs err = 0; only for runs that then differ at such a decision it feeds the
   implementation's error back through [err] (at that decision only) and requires that nothing else differs.
   Not modelled: echelon policies (EBS, BEBS), cost functions, order_quantity_override, lead times that differ between
   the products of a node, supply types other than unlimited external supply at source nodes. *)
From SV Require Export Sim.Model.
From SV Require Export Sim2.State2.   (* final location: From SV Require Export Sim2.State2. *)

(* ---- configuration ---- *)
Record pcfg := {                         (* one product at one node *)
  k_pol : policy; k_cap : option Q; k_init_il : option Q;
  k_hc : Q; k_pc : Q; k_ith : option Q; k_rev : Q;
  k_bom : list (N * Q);                  (* (raw material, network-BOM number), in the implementation's order *)
  k_custs : list nb }.                   (* customers in service order: successor nodes using the product, then Ext *)
Record rcfg := {                         (* one raw material at one node *)
  m_sups : list nb;                      (* suppliers in the implementation's order (the first one gets the orders) *)
  m_price : option (N * Q) }.            (* first non-external supplier and its holding rate for the item *)
Record ncfg2 := {
  n_prods : list N; n_pc : N -> pcfg;    (* products in the implementation's order *)
  n_rms : list N; n_rc : N -> rcfg;      (* all raw materials of the node *)
  n_preds : list N; n_succs : list N;    (* adjacency, for the two traversals *)
  n_slt : nat; n_olt : nat; n_dtype : option dkind; n_init_orders : Q; n_init_ships : Q }.
Record net2 := { nodes2 : list N; cfg2 : N -> ncfg2 }.

Definition is_dkind (d : option dkind) (k : dkind) : bool :=
  match d, k with
  | Some dOP, dOP | Some dSP, dSP | Some dTP, dTP | Some dRP, dRP => true
  | _, _ => false end.
Definition capq (c : option Q) (q : Q) : Q := qmin q (match c with Some k => k | None => BIG end).
Definition nbom (pc : pcfg) (r : N) : Q := aget N.eq_dec 0 (k_bom pc) r.
Definition uses (pc : pcfg) (r : N) : bool := existsb (fun x => N.eqb (fst x) r) (k_bom pc).
Definition has_ext (l : list nb) : bool := existsb (fun x => match x with Ext => true | Nd _ => false end) l.
(* the value of a field [L] periods ago: the current value if L = 0, else position L-1 of the history *)
Definition look (L : nat) (cur : Q) (hist : list Q) : Q := match L with O => cur | S j => nth j hist 0 end.
Definition push_hist (L : nat) (cur : Q) (hist : list Q) : list Q := firstn L (cur :: hist).
(* policy.get_order_quantity, still_to_order: the first supplier gets everything, every further one still - still *)
Fixpoint split_order (still : Q) (sups : list nb) : list (nb * Q) :=
  match sups with [] => [] | p :: r => (p, still) :: split_order (still - still) r end.

(* the Stage-1 network skeleton (adjacency only), for the two traversals dfs_orders / dfs_ships of Sim/Model.v *)
Definition skel_cfg (c : ncfg2) : ncfg :=
  {| preds := n_preds c; succs := n_succs c; ext_sup := false; has_dem := false; slt := 0; olt := 0; pol := BS 0; cap := None;
     init_il := None; hc := 0; pc := 0; ith := None; rev := 0; dtype := None; init_orders := 0; init_ships := 0 |}.
Definition skel (NW : net2) : net := {| nodes := nodes2 NW; cfg := fun n => skel_cfg (cfg2 NW n) |}.
Definition order_visit2 (NW : net2) : list N := order_visit (skel NW).
Definition ship_visit2 (NW : net2) : list N := ship_visit (skel NW).

Section Step2.
Variable (NW : net2).
Variable (dis : N -> bool).          (* disruption state of each node in this period (false if no process) *)
Variable (dem : N -> N -> Q).        (* realised external demand: node, product *)
Variable (err : N -> N -> Q).        (* error of the evaluation of the inventory position: node, product.  The exact model
                                        is err = 0.  The implementation evaluates the position in binary64; where the
                                        exact position lies ON a reorder point / base-stock level its rounding error decides
                                        the branch, and the correspondence harness feeds that error back through this input
                                        (only then, only there) to check that nothing else differs. *)
Notation C := (cfg2 NW).
Definition PC (n k : N) : pcfg := n_pc (C n) k.
Definition RC (n r : N) : rcfg := n_rc (C n) r.
Definition disk2 (n : N) (k : dkind) : bool := dis n && is_dkind (n_dtype (C n)) k.

(* ---------- orders phase ---------- *)
(* sim._generate_downstream_orders, first loop *)
Definition gen_demand2 (s : st2) (n : N) : st2 :=
  fold_left (fun s k => if has_ext (k_custs (PC n k)) then sl2 s (fOP, n, Ext, k) [dem n k] else s) (n_prods (C n)) s.

(* sim._receive_inbound_orders *)
Definition recv_order_one2 (n k : N) (s : st2) (c : nb) : st2 :=
  let pipe := gl2 s (fOP, n, c, k) in
  let x := hd0 pipe in
  let s := sq2 s (fIO, n, c, k) x in
  let s := sl2 s (fOP, n, c, k) (zero0 pipe) in
  let s := addq2 s (fDC, n, Ext, k) x in
  let s := addq2 s (fPIO, n, c, k) x in
  let s := addq2 s (fPEND, n, Ext, k) x in
  addq2 s (fcIO, n, c, k) x.
Definition recv_orders_prod (n : N) (s : st2) (k : N) : st2 := fold_left (recv_order_one2 n k) (k_custs (PC n k)) s.
Definition recv_orders2 (s : st2) (n : N) : st2 := fold_left (recv_orders_prod n) (n_prods (C n)) s.

(* node_state_vars.inventory_position(product, exclude_earmarked_units=True) minus this period's demand
   (policy.get_order_quantity) *)
Definition pipe_rm2 (s : st2) (n r : N) : Q :=
  gq2 s (fRM, n, Ext, r) + qsumf (fun p => gq2 s (fOO, n, p, r) + gq2 s (fIDI, n, p, r)) (m_sups (RC n r)).
Definition earmark2 (s : st2) (n k r : N) (pl : Q) : Q :=
  fold_left (fun pl k2 => if N.eqb k2 k then pl else qmax 0 (pl - gq2 s (fPFG, n, Ext, k2) * nbom (PC n k2) r)) (n_prods (C n)) pl.
Definition units_of2 (s : st2) (n k : N) (rb : N * Q) : Q := earmark2 s n k (fst rb) (pipe_rm2 s n (fst rb)) / snd rb.
Definition demand_of (s : st2) (n k : N) : Q := qsumf (fun c => gq2 s (fIO, n, c, k)) (k_custs (PC n k)).
Definition obs_ip2 (s : st2) (n k : N) : Q :=
  gq2 s (fIL, n, Ext, k) + qmin_list (map (units_of2 s n k) (k_bom (PC n k))) - demand_of s n k.
Definition order_qty2 (s : st2) (n k : N) : Q := Qred (capq (k_cap (PC n k)) (rule (k_pol (PC n k)) (obs_ip2 s n k + err n k))).

(* sim._generate_downstream_orders, innermost loop body: one (raw material, supplier) *)
Definition place_one2 (n r : N) (s : st2) (x : nb * Q) : st2 :=
  let c := C n in
  let p := fst x in let q := snd x in
  let s := match p with
           | Nd p' => sl2 s (fOP, p', Nd n, r) (add_at (n_olt c) q (gl2 s (fOP, p', Nd n, r)))
           | Ext => sl2 s (fSP, n, Ext, r) (add_at (n_olt c + n_slt c) q (gl2 s (fSP, n, Ext, r)))
           end in
  let s := addq2 s (fOQ, n, p, r) q in
  let s := addq2 s (fOO, n, p, r) q in
  addq2 s (fcOQ, n, p, r) q.
Definition place_rm2 (n : N) (oq : Q) (s : st2) (rb : N * Q) : st2 :=
  fold_left (place_one2 n (fst rb)) (split_order (oq * snd rb) (m_sups (RC n (fst rb)))) s.
Definition place_prod2 (s : st2) (n k : N) : st2 :=
  let oq := order_qty2 s n k in
  let s := addq2 s (fOQFG, n, Ext, k) oq in
  let s := addq2 s (fPFG, n, Ext, k) oq in
  fold_left (place_rm2 n oq) (k_bom (PC n k)) s.
Definition place_orders2 (s : st2) (n : N) : st2 :=
  if disk2 n dOP then s else fold_left (fun s k => place_prod2 s n k) (n_prods (C n)) s.

Definition orders_action2 (s : st2) (n : N) : st2 := place_orders2 (recv_orders2 (gen_demand2 s n) n) n.

(* ---------- shipments phase ---------- *)
(* sim._receive_inbound_shipments *)
Definition recv_ship_one2 (n r : N) (s : st2) (p : nb) : st2 :=
  let pipe := gl2 s (fSP, n, p, r) in
  let rtr := hd0 pipe in
  let idi := gq2 s (fIDI, n, p, r) in
  let rp := disk2 n dRP in
  let is_ := if rp then 0 else rtr + idi in
  let s := sq2 s (fIS, n, p, r) is_ in
  let s := sl2 s (fSP, n, p, r) (zero0 pipe) in
  let s := addq2 s (fRM, n, Ext, r) is_ in
  let s := addq2 s (fOO, n, p, r) (- rtr) in
  let s := sq2 s (fIDI, n, p, r) (if rp then idi + rtr else 0) in
  addq2 s (fcIS, n, p, r) is_.
Definition recv_ship_rm (n : N) (s : st2) (r : N) : st2 := fold_left (recv_ship_one2 n r) (m_sups (RC n r)) s.
Definition recv_ship2 (s : st2) (n : N) : st2 := fold_left (recv_ship_rm n) (n_rms (C n)) s.

(* sim._raw_materials_to_finished_goods: the share of raw material r that product k may use, proportional to the
   finished-goods order placed OLT+SLT periods ago (equal shares if nothing was ordered then); the line
   "share[rm][prods_for_rm[0]] + extra" of the Python text has no effect and is not represented *)
Definition lag (n : N) : nat := (n_olt (C n) + n_slt (C n))%nat.
Definition hist_oq (s : st2) (n r : N) : Q :=
  qsumf (fun p => look (lag n) (gq2 s (fOQ, n, p, r)) (gl2 s (fOQ, n, p, r))) (m_sups (RC n r)).
Definition hist_fg (s : st2) (n k : N) : Q := look (lag n) (gq2 s (fOQFG, n, Ext, k)) (gl2 s (fOQFG, n, Ext, k)).
Definition prods_for (n r : N) : list N := filter (fun k => uses (PC n k) r) (n_prods (C n)).
Definition share2 (s : st2) (n r k : N) : Q :=
  let avail := gq2 s (fRM, n, Ext, r) in
  if qltb 0 avail then
    let units := hist_oq s n r in
    (* equal shares if nothing was ordered LT periods ago; otherwise the product's part of the raw-material units implied by the
       finished-goods orders of that period (normalised by their sum: the shares sum to 1 also when the recorded order was overridden) *)
    let tot := qsumf (fun k' => hist_fg s n k' * nbom (PC n k') r) (prods_for n r) in
    avail * (if qeqb units 0 then 1 / qnat (length (prods_for n r))
             else if qltb 0 tot then hist_fg s n k * nbom (PC n k) r / tot else 0)
  else 0.
Definition made2 (s : st2) (n k : N) : Q :=
  Qred (qmin_list (map (fun rb => share2 s n (fst rb) k / snd rb) (k_bom (PC n k)))).
(* second loop: [mk] = quantities to make, fixed from the state before any product consumed raw materials *)
Definition produce_one2 (n : N) (mk : N -> Q) (s : st2) (k : N) : st2 :=
  let made := mk k in
  let s := fold_left (fun s rb => addq2 s (fRM, n, Ext, fst rb) (- (made * snd rb))) (k_bom (PC n k)) s in
  let s := addq2 s (fIL, n, Ext, k) made in
  let s := addq2 s (fPFG, n, Ext, k) (- made) in
  addq2 s (fCP, n, Ext, k) made.
Definition produce2 (s : st2) (n : N) : st2 := fold_left (produce_one2 n (made2 s n)) (n_prods (C n)) s.

(* sim._process_outbound_shipments, one product, one successor; serve_calc is Stage 1's *)
Definition serve_one2 (n k : N) (acc : st2 * Q) (c : nb) : st2 * Q :=
  let '(s, oh) := acc in
  let sp := match c with Nd c' => disk2 c' dSP | Ext => false end in
  let bo := gq2 s (fBO, n, c, k) in
  let io := gq2 s (fPIO, n, c, k) in
  let odi := gq2 s (fODI, n, c, k) in
  let o := serve_calc oh bo io odi sp in
  let s := sq2 s (fOS, n, c, k) (o_os o) in
  let s := addq2 s (fDMFS, n, Ext, k) (o_dmfs o) in
  let s := addq2 s (fDMC, n, Ext, k) (o_dmfs o) in
  let s := addq2 s (fIL, n, Ext, k) (- io) in
  let s := sq2 s (fBO, n, c, k) (o_bo o) in
  let s := sq2 s (fODI, n, c, k) (o_odi o) in
  let s := sq2 s (fPIO, n, c, k) 0 in
  let s := addq2 s (fPEND, n, Ext, k) (- io) in
  let s := addq2 s (fSRV, n, Ext, k) io in
  let s := addq2 s (fcOS, n, c, k) (o_os o) in
  let s := match c with
           | Nd c' => sl2 s (fSP, c', Nd n, k) (add_at (n_slt (C c')) (o_os o) (gl2 s (fSP, c', Nd n, k)))
           | Ext => s end in
  (s, o_oh o).
Definition serve2 (s : st2) (n k : N) (il0 made : Q) : st2 :=
  let s := sq2 s (fDMFS, n, Ext, k) 0 in
  fst (fold_left (serve_one2 n k) (k_custs (PC n k)) (s, qmax 0 il0 + made)).

(* sim._calculate_fill_rate *)
Definition fill_rate_one2 (n : N) (s : st2) (k : N) : st2 :=
  let dc := gq2 s (fDC, n, Ext, k) in
  sq2 s (fFR, n, Ext, k) (if qltb 0 dc then gq2 s (fDMC, n, Ext, k) / dc else 1).
Definition fill_rate2 (s : st2) (n : N) : st2 := fold_left (fill_rate_one2 n) (n_prods (C n)) s.

(* sim._generate_downstream_shipments, one node *)
Definition ships_action2 (s : st2) (n : N) : st2 :=
  let il0 := fun k => gq2 s (fIL, n, Ext, k) in          (* starting_inventory_level *)
  let s1 := recv_ship2 s n in
  let mk := made2 s1 n in                                (* new_finished_goods *)
  let s2 := produce2 s1 n in
  let s3 := fold_left (fun s k => serve2 s n k (il0 k) (mk k)) (n_prods (C n)) s2 in
  fill_rate2 s3 n.

(* ---------- costs (sim._calculate_period_costs) read off the end-of-period state ---------- *)
Definition held_of (s : st2) (n k : N) : Q :=
  qmax 0 (gq2 s (fIL, n, Ext, k)) + qsumf (fun c => gq2 s (fODI, n, c, k)) (k_custs (PC n k)).
Definition in_transit_of (s : st2) (n k : N) : Q :=
  qsumf (fun c => match c with Nd c' => qsum (gl2 s (fSP, c', Nd n, k)) | Ext => 0 end) (k_custs (PC n k)).
Definition rm_hold_of (s : st2) (n r : N) : Q :=
  match m_price (RC n r) with
  | Some (p, rate) => rate * (gq2 s (fRM, n, Ext, r) + gq2 s (fIDI, n, Nd p, r))
  | None => 0 end.
Definition node_costs2 (s : st2) (n : N) : costs :=
  let c := C n in
  let hcv := qsumf (fun k => k_hc (PC n k) * held_of s n k) (n_prods c) + qsumf (rm_hold_of s n) (n_rms c) in
  let scv := qsumf (fun k => k_pc (PC n k) * qmax 0 (- gq2 s (fIL, n, Ext, k))) (n_prods c) in
  let itv := qsumf (fun k => (match k_ith (PC n k) with Some x => x | None => k_hc (PC n k) end) * in_transit_of s n k) (n_prods c) in
  (* "revenue_earned = ..." (not +=) inside the product loop: the last product's revenue *)
  let rvv := fold_left (fun _ k => k_rev (PC n k) * qsumf (fun x => gq2 s (fOS, n, x, k)) (k_custs (PC n k))) (n_prods c) 0 in
  {| c_hc := hcv; c_sc := scv; c_ithc := itv; c_rev := rvv; c_tc := hcv + scv + itv - rvv |}.

(* ---------- end of period: sim._initialize_next_period_state_vars ---------- *)
Definition next_sup (n r : N) (s : st2) (p : nb) : st2 :=
  let s := if disk2 n dTP then s else sl2 s (fSP, n, p, r) (shift_sp (gl2 s (fSP, n, p, r))) in
  let s := sl2 s (fOQ, n, p, r) (push_hist (lag n) (gq2 s (fOQ, n, p, r)) (gl2 s (fOQ, n, p, r))) in
  sq2 (sq2 s (fIS, n, p, r) 0) (fOQ, n, p, r) 0.
Definition next_cust (n k : N) (s : st2) (x : nb) : st2 :=
  let s := addq2 s (fLOST, n, x, k) (hd0 (gl2 s (fOP, n, x, k))) in
  let s := sl2 s (fOP, n, x, k) (shift_op (gl2 s (fOP, n, x, k))) in
  sq2 (sq2 s (fIO, n, x, k) 0) (fOS, n, x, k) 0.
Definition next_prod (n : N) (s : st2) (k : N) : st2 :=
  let s := fold_left (next_cust n k) (k_custs (PC n k)) s in
  let s := sl2 s (fOQFG, n, Ext, k) (push_hist (lag n) (gq2 s (fOQFG, n, Ext, k)) (gl2 s (fOQFG, n, Ext, k))) in
  sq2 (sq2 (sq2 s (fOQFG, n, Ext, k) 0) (fDMFS, n, Ext, k) 0) (fFR, n, Ext, k) 0.
Definition next_node2 (s : st2) (n : N) : st2 :=
  let c := C n in
  let s := fold_left (fun s r => fold_left (next_sup n r) (m_sups (RC n r)) s) (n_rms c) s in
  fold_left (next_prod n) (n_prods c) s.
Definition next_period2 (s : st2) : st2 := norm_st (fold_left next_node2 (nodes2 NW) s).

Definition run_actions2 (s : st2) : st2 :=
  fold_left ships_action2 (ship_visit2 NW) (fold_left orders_action2 (order_visit2 NW) s).
End Step2.

(* ---------- initial state (sim._initialize_state_vars) ---------- *)
Definition init_cust (NW : net2) (n k : N) (s : st2) (x : nb) : st2 :=
  match x with
  | Nd x' => sl2 s (fOP, n, x, k) (repeat (n_init_orders (cfg2 NW x')) (n_olt (cfg2 NW x')) ++ [0])
  | Ext => sl2 s (fOP, n, x, k) [0] end.
Definition init_prod (NW : net2) (n : N) (s : st2) (k : N) : st2 :=
  let c := cfg2 NW n in
  let pc := n_pc c k in
  let il := match k_init_il pc with Some x => x | None => rule (k_pol pc) 0 end in
  let s := sq2 s (fIL, n, Ext, k) il in
  let s := sl2 s (fOQFG, n, Ext, k) (repeat 0 (n_olt c + n_slt c)) in
  fold_left (init_cust NW n k) (k_custs pc) s.
Definition init_sup (NW : net2) (n r : N) (s : st2) (p : nb) : st2 :=
  let c := cfg2 NW n in
  let s := sl2 s (fSP, n, p, r) (repeat (n_init_ships c) (n_slt c)
                                 ++ repeat (match p with Ext => n_init_orders c | Nd _ => 0 end) (n_olt c) ++ [0]) in
  let s := sl2 s (fOQ, n, p, r) (repeat 0 (n_olt c + n_slt c)) in
  sq2 s (fOO, n, p, r) (n_init_ships c * qnat (n_slt c) + n_init_orders c * qnat (n_olt c)).
Definition init_node2 (NW : net2) (s : st2) (n : N) : st2 :=
  let c := cfg2 NW n in
  let s := fold_left (init_prod NW n) (n_prods c) s in
  fold_left (fun s r => fold_left (init_sup NW n r) (m_sups (n_rc c r)) s) (n_rms c) s.
Definition init_state2 (NW : net2) : st2 := fold_left (init_node2 NW) (nodes2 NW) empty_st2.

(* ---------- run: list of end-of-period states (records) ---------- *)
Record input2 := { i_dis : N -> bool; i_dem : N -> N -> Q; i_err : N -> N -> Q }.      (* one period's inputs *)
Definition inputs2 := list input2.
Fixpoint run_from2 (NW : net2) (s : st2) (inputs : inputs2) : list st2 :=
  match inputs with
  | [] => []
  | i :: r => let e := run_actions2 NW (i_dis i) (i_dem i) (i_err i) s in e :: run_from2 NW (next_period2 NW (i_dis i) e) r
  end.
Definition run2 (NW : net2) (inputs : inputs2) : list st2 := run_from2 NW (init_state2 NW) inputs.

(* value returned by sim.simulation: sum of total costs over nodes and periods *)
Definition total_cost2 (NW : net2) (recs : list st2) : Q :=
  qsum (map (fun e => qsumf (fun n => c_tc (node_costs2 NW e n)) (nodes2 NW)) recs).
