(* Non-vacuity and discrimination witness for the named-state form of C04 (multi-product run level), on exB2_net / exB2_inputs
   of Sim2/Main2b.v.  Orders traversal of exB2_net = [4; 3; 1; 2]: node 3 (products [30; 31]) is visited after node 4, so the named
   state of node 3 contains node 4's complete orders action (node 4 orders product 30 from node 3) and node 3's own receipt of
   inbound orders.  t = 1, n = 3, k = 31, pre = [30], post = []: product 31 (policy (r,Q) = (2,4)) has 4 on record.
   The equation holds with s0 = order_start_state and FAILS with s0 = init_state2, s0 = the period's start state and
   s0 = the state just before node 3's own turn (i.e. before its demand generation / receipt of inbound orders). *)
From SV Require Import Base.Qx.
From SV Require Import Sim.Model.
From SV Require Import Sim2.State2 Sim2.Model2 Sim2.Inv2b_period Sim2.Main2b Sim2.Main2c.
From SV Require Import Sim2.OrderStart2 Sim2.OrderStart2_proofs.

(* right-hand side of the property for the example network, as a function of the candidate state s0 *)
Definition exB2_rhs (s0 : st2) (t : nat) (n : N) (pre : list N) (k : N) : Q :=
  let i := nth t exB2_inputs dflt_input2 in
  if disk2 exB2_net (i_dis i) n dOP then 0
  else capq (k_cap (PC exB2_net n k)) (rule (k_pol (PC exB2_net n k))
         (obs_ip2 exB2_net (fold_left (fun s k' => place_prod2 exB2_net (i_err i) s n k') pre s0) n k + i_err i n k)).

Example order_start_state_matters :
  goodB2b exB2_net = true /\ onceB2b exB2_net = true /\ (1 < length exB2_inputs)%nat /\ In 3%N (nodes2 exB2_net) /\
  n_prods (cfg2 exB2_net 3%N) = [30%N] ++ 31%N :: [] /\
  order_visit2 exB2_net = [4%N; 3%N; 1%N; 2%N] /\ visited_before 3%N (order_visit2 exB2_net) = [4%N] /\
  disk2 exB2_net (i_dis (nth 1 exB2_inputs dflt_input2)) 3%N dOP = false /\
  let lhs := gq2 (nth 1 (run2 exB2_net exB2_inputs) empty_st2) (fOQFG, 3%N, Ext, 31%N) in
  lhs == 4 /\
  lhs == exB2_rhs (order_start_state exB2_net exB2_inputs 1 3%N) 1 3%N [30%N] 31%N /\
  ~ lhs == exB2_rhs (init_state2 exB2_net) 1 3%N [30%N] 31%N /\
  ~ lhs == exB2_rhs (period_start_state exB2_net exB2_inputs 1) 1 3%N [30%N] 31%N /\
  ~ lhs == exB2_rhs (node_turn_state exB2_net exB2_inputs 1 3%N) 1 3%N [30%N] 31%N.
Proof. split; [exact exB2_good|]. split; [vm_compute; reflexivity|]. split; [vm_compute; lia|]. split; [vm_compute; auto|].
  split; [vm_compute; reflexivity|]. split; [vm_compute; reflexivity|]. split; [vm_compute; reflexivity|]. split; [vm_compute; reflexivity|].
  cbv zeta. split; [vm_compute; reflexivity|]. split; [vm_compute; reflexivity|].
  split; [|split]; vm_compute; discriminate. Qed.

(* the same for the first product (pre = []): product 30 (base stock 8) has 5 on record in period 1 *)
Example order_start_state_matters_first :
  let lhs := gq2 (nth 1 (run2 exB2_net exB2_inputs) empty_st2) (fOQFG, 3%N, Ext, 30%N) in
  lhs == 5 /\ lhs == exB2_rhs (order_start_state exB2_net exB2_inputs 1 3%N) 1 3%N [] 30%N /\
  ~ lhs == exB2_rhs (init_state2 exB2_net) 1 3%N [] 30%N /\
  ~ lhs == exB2_rhs (node_turn_state exB2_net exB2_inputs 1 3%N) 1 3%N [] 30%N.
Proof. cbv zeta. split; [vm_compute; reflexivity|]. split; [vm_compute; reflexivity|]. split; vm_compute; discriminate. Qed.
