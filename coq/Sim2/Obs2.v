(* Observable form of a run of the Stage-2 simulator model, for the correspondence with the implementation:
   every field of every end-of-period record, the costs, the total, and the inventory position each product observed when
   it placed its order (for the harness's margin rule near a reorder point).
   The run is driven by [run_log], which is [run_from2] with the positions logged; [run_log_states] proves that the
   states are the same (for clip = None, i.e. for every exact run). *)
From SV Require Import Sim.Model Sim.Obs.
From SV Require Import Sim2.Model2.   (* final location: From SV Require Import Sim2.Model2. *)

(* ---- the orders phase with the observed positions logged ---- *)
Section Log.
Variable (NW : net2) (dis : N -> bool) (dem err : N -> N -> Q).
Definition place_log (s : st2) (n : N) : st2 * list Q :=
  if disk2 NW dis n dOP then (s, []) else
  fold_left (fun a k => (place_prod2 NW err (fst a) n k, snd a ++ [obs_ip2 NW (fst a) n k])) (n_prods (cfg2 NW n)) (s, []).
Definition orders_log (a : st2 * list (list Q)) (n : N) : st2 * list (list Q) :=
  let r := place_log (recv_orders2 NW (gen_demand2 NW dem (fst a) n) n) n in
  (fst r, snd a ++ [snd r]).
Definition actions_log (s : st2) : st2 * list (list Q) :=
  let a := fold_left orders_log (order_visit2 NW) (s, []) in
  (fold_left (ships_action2 NW dis) (ship_visit2 NW) (fst a), snd a).

Lemma place_fold_fst n l : forall s (lg : list Q),
  fst (fold_left (fun a k => (place_prod2 NW err (fst a) n k, snd a ++ [obs_ip2 NW (fst a) n k])) l (s, lg))
  = fold_left (fun s k => place_prod2 NW err s n k) l s.
Proof. induction l as [|k r IH]; intros s lg; cbn [fold_left fst snd]; [reflexivity|]. apply IH. Qed.
Lemma place_log_fst s n : fst (place_log s n) = place_orders2 NW dis err s n.
Proof. unfold place_log, place_orders2. destruct (disk2 NW dis n dOP); [reflexivity|]. apply place_fold_fst. Qed.
Lemma orders_log_fst l s lg : fst (fold_left orders_log l (s, lg)) = fold_left (orders_action2 NW dis dem err) l s.
Proof.
  revert s lg. induction l as [|n r IH]; intros s lg; cbn [fold_left]; [reflexivity|].
  unfold orders_log at 2. cbn [fst snd]. rewrite IH. rewrite place_log_fst. reflexivity.
Qed.
Lemma actions_log_fst s : fst (actions_log s) = run_actions2 NW dis dem err s.
Proof. unfold actions_log, run_actions2. cbn [fst]. rewrite orders_log_fst. reflexivity. Qed.
End Log.

(* [clip] = Some b (error-fed re-runs, and runs whose exact evaluation is too expensive): exact arithmetic on injected
   binary64 rounding errors grows by ~100 bits per period, and in some networks the proportional raw-material shares make
   the reduced denominators of the EXACT run double every few periods; so at the period boundary every stored value
   whose reduced denominator exceeds b bits is rounded down to the grid 2^-b (a change below 2^-b per value and
   period; values with smaller denominators are untouched). With [clip] = None the run is exactly [run_from2]
   ([run_log_states]). *)
Definition qclip (b : positive) (q : Q) : Q :=
  let r := Qred q in
  if (Pos.to_nat b <? Pos.size_nat (Qden r))%nat
  then Qred (Qmake (Z.shiftl (Qnum r) (Zpos b) / Zpos (Qden r)) (Pos.shiftl 1 (Npos b)))
  else r.
Definition clip_st (b : positive) (s : st2) : st2 := {| qm2 := smapv (qclip b) (qm2 s); lm2 := smapv (map (qclip b)) (lm2 s) |}.

Fixpoint run_log (clip : option positive) (NW : net2) (s : st2) (inputs : inputs2) : list (st2 * list (list Q)) :=
  match inputs with
  | [] => []
  | i :: r => let a := actions_log NW (i_dis i) (i_dem i) (i_err i) s in
              let s' := next_period2 NW (i_dis i) (fst a) in
              a :: run_log clip NW (match clip with Some b => clip_st b s' | None => s' end) r
  end.
Lemma run_log_states NW inputs : forall s, map fst (run_log None NW s inputs) = run_from2 NW s inputs.
Proof.
  induction inputs as [|i r IH]; intros s; cbn [run_log run_from2 map]; [reflexivity|].
  rewrite actions_log_fst, IH. reflexivity.
Qed.

(* ---- one end-of-period record in printable form ----
   a row of rationals is printed as [numerators; denominators], the denominators being omitted ([]) when all are 1
   (printing is the dominant cost of an evaluation).
   rows: [HC SC ITHC REV TC]; per product [IL OQFG PFG DMFS DC DMC FR]; per product, per customer [IO OS BO ODI | order pipeline];
   per raw material [RM] followed, per supplier, by [IS IDI OO OQ | shipment pipeline] *)
Definition zrow (l : list Q) : list (list Z) :=
  let r := map Qred l in
  [map Qnum r; if forallb (fun q => Pos.eqb (Qden q) 1) r then [] else map (fun q => Zpos (Qden q)) r].
Definition obs_node2 (NW : net2) (e : st2) (n : N) : list (list (list Z)) :=
  let c := cfg2 NW n in
  let k := node_costs2 NW e n in
  zrow [c_hc k; c_sc k; c_ithc k; c_rev k; c_tc k]
  :: map (fun p => zrow [gq2 e (fIL, n, Ext, p); gq2 e (fOQFG, n, Ext, p); gq2 e (fPFG, n, Ext, p); gq2 e (fDMFS, n, Ext, p);
                         gq2 e (fDC, n, Ext, p); gq2 e (fDMC, n, Ext, p); gq2 e (fFR, n, Ext, p)]) (n_prods c)
  ++ flat_map (fun p => map (fun x => zrow ([gq2 e (fIO, n, x, p); gq2 e (fOS, n, x, p); gq2 e (fBO, n, x, p); gq2 e (fODI, n, x, p)]
                                            ++ gl2 e (fOP, n, x, p))) (k_custs (n_pc c p))) (n_prods c)
  ++ flat_map (fun r => zrow [gq2 e (fRM, n, Ext, r)]
                        :: map (fun p => zrow ([gq2 e (fIS, n, p, r); gq2 e (fIDI, n, p, r); gq2 e (fOO, n, p, r); gq2 e (fOQ, n, p, r)]
                                               ++ gl2 e (fSP, n, p, r))) (m_sups (n_rc c r))) (n_rms c).

(* (records, positions per period / node in order_visit2 / product, order_visit2, total cost) *)
Definition obs_run2 (clip : option positive) (NW : net2) (inputs : inputs2) :=
  let lg := run_log clip NW (init_state2 NW) inputs in
  let recs := map fst lg in
  (map (fun e => map (obs_node2 NW e) (nodes2 NW)) recs,
   map (fun a => map zrow (snd a)) lg,
   order_visit2 NW,
   zrow [total_cost2 NW recs]).

(* lookup tables written by the harness: association list -> total function ([tbl] is Sim/Obs.v's) *)
Definition dflt_pcfg : pcfg :=
  {| k_pol := BS 0; k_cap := None; k_init_il := None; k_hc := 0; k_pc := 0; k_ith := None; k_rev := 0; k_bom := []; k_custs := [] |}.
Definition dflt_rcfg : rcfg := {| m_sups := []; m_price := None |}.
Definition dflt_ncfg2 : ncfg2 :=
  {| n_prods := []; n_pc := fun _ => dflt_pcfg; n_rms := []; n_rc := fun _ => dflt_rcfg; n_preds := []; n_succs := [];
     n_slt := 0; n_olt := 0; n_dtype := None; n_init_orders := 0; n_init_ships := 0 |}.
Definition tbl2 {A} (d : A) (l : list (N * list (N * A))) (n k : N) : A := tbl d (tbl [] l n) k.
