(* Stage-2 simulator (multi-product networks with bills of materials), group C, part 1: ORDERS FOLLOW THE POLICY (C04).
   Action level (any state s, any node n, arbitrary arguments): what [place_orders2] (Model2.v) writes.
     - place_one2 / place_rm2 / place_prod2 change rational keys additively; the increments are computed in closed form
       ([place_prod2_oq]: the first supplier of raw material r gets order x NBOM(k, r), every other supplier 0;
       on-order fOO and the cumulative counter fcOQ receive the same increments as fOQ);
     - [place_orders2_fg]: product k of a duplicate-free product list orders exactly
         capq (k_cap) (rule (k_pol) (obs_ip2 (state when k's turn comes) + err))          (err = 0: the exact model)
     - [place_orders2_first_sup] / [place_orders2_adds_up]: per raw material, the orders placed with its suppliers add
       up to sum over the products of NBOM x finished-goods order; the first supplier gets everything;
     - [place_orders2_pipes]: the supplier's order pipeline (slot OLT) / the external shipment pipeline (slot OLT+SLT)
       receive the same quantity as fOQ;
     - nothing is written while an order-pausing disruption is active.
   Run level: the invariant [OQS2c] (per node of the network and raw material of its list: every supplier's fOQ is
   [first supplier] x sum over products NBOM x fOQFG) is preserved by every atomic node action and by the period shift,
   hence holds in every end-of-period record of every run. *)
From SV Require Import Base.Qx.
From SV Require Import Sim.Model Sim.StateLemmas Sim.Inv_base Sim.Inv_node Sim.Inv_bound.
From SV Require Import Sim2.State2 Sim2.Model2.
From SV Require Import Sim2.Inv2b_tac Sim2.Inv2b_book Sim2.Inv2b_pipe Sim2.Inv2b_init Sim2.Inv2b_period.

(* ---------- generic: folds whose steps change rational keys additively ---------- *)
Lemma fold_add_effC {A} (f : st2 -> A -> st2) (d : A -> key2 -> Q) :
  (forall s a K, gq2 (f s a) K == gq2 s K + d a K) ->
  forall l s K, gq2 (fold_left f l s) K == gq2 s K + qsumf (fun a => d a K) l.
Proof. intros H. induction l as [|a r IH]; intros s K; unfold qsumf; cbn [fold_left map qsum]; [lra|].
  rewrite IH, H. unfold qsumf. lra. Qed.

Lemma qsumf_zeroC {A} (g : A -> Q) l : (forall x, In x l -> g x == 0) -> qsumf g l == 0.
Proof. apply qsumf_all_zero2. Qed.
Lemma qsumf_addC {A} (g h : A -> Q) l : qsumf (fun x => g x + h x) l == qsumf g l + qsumf h l.
Proof. unfold qsumf. apply qsum_map_add. Qed.
Lemma qsumf_scale_diffC {A} (b u v : A -> Q) l : qsumf (fun k => b k * (u k - v k)) l == qsumf (fun k => b k * u k) l - qsumf (fun k => b k * v k) l.
Proof. unfold qsumf. induction l as [|x r IH]; cbn [map qsum]; [lra|]. rewrite IH. ring. Qed.
Lemma qsumf_diffC {A} (u v : A -> Q) l : qsumf (fun k => u k - v k) l == qsumf u l - qsumf v l.
Proof. unfold qsumf. induction l as [|x r IH]; cbn [map qsum]; [lra|]. rewrite IH. ring. Qed.
Lemma qsumf_scaleC {A} (c : Q) (g : A -> Q) l : qsumf (fun x => c * g x) l == c * qsumf g l.
Proof. unfold qsumf. apply qsum_map_scale. Qed.
Lemma qsumf_scale_rC {A} (c : Q) (g : A -> Q) l : qsumf (fun x => g x * c) l == qsumf g l * c.
Proof. unfold qsumf. induction l as [|x r IH]; cbn [map qsum]; [lra|]. rewrite IH. ring. Qed.

(* ---------- the first supplier of a raw material ---------- *)
Definition first_supC (l : list nb) (p : nb) : bool := match l with [] => false | p0 :: _ => if nb_eq_dec p p0 then true else false end.
Lemma first_supC_in l p : first_supC l p = true -> In p l.
Proof. destruct l as [|p0 r]; cbn [first_supC]; [discriminate|]. destruct (nb_eq_dec p p0); [subst; left; reflexivity|discriminate]. Qed.
Lemma first_supC_hd p0 r : first_supC (p0 :: r) p0 = true.
Proof. cbn [first_supC]. destruct (nb_eq_dec p0 p0); [reflexivity|congruence]. Qed.
(* exactly one element of a duplicate-free non-empty supplier list is the first one *)
Lemma first_supC_sum (l : list nb) (c : Q) : NoDup l -> l <> [] -> qsumf (fun p => if first_supC l p then c else 0) l == c.
Proof. destruct l as [|p0 r]; [congruence|]. intros ND _. inversion ND as [|? ? Hn Hr]; subst. unfold qsumf. cbn [map qsum].
  rewrite first_supC_hd. rewrite (qsum_map_ext _ (fun _ => 0)).
  - assert (Z : forall A (l : list A), qsum (map (fun _ => 0) l) == 0) by (intros A l; induction l; cbn [map qsum]; lra). rewrite Z. lra.
  - intros x Hx. cbn [first_supC]. destruct (nb_eq_dec x p0); [subst; contradiction|reflexivity]. Qed.

(* ---------- bills of materials: the table lookup is the sum of the rows of the raw material ---------- *)
Definition bomsumC (bom : list (N * Q)) (r : N) : Q := qsumf (fun rb => if N.eq_dec (fst rb) r then snd rb else 0) bom.
Lemma bomsumC_absent bom r : ~ In r (map fst bom) -> bomsumC bom r == 0.
Proof. intros H. unfold bomsumC. apply qsumf_zeroC. intros rb Hrb. destruct (N.eq_dec (fst rb) r) as [E|NE]; [|reflexivity].
  exfalso. apply H. rewrite <- E. apply in_map. exact Hrb. Qed.
Lemma bomsumC_lookup bom r : NoDup (map fst bom) -> bomsumC bom r == aget N.eq_dec 0 bom r.
Proof. unfold bomsumC, qsumf. induction bom as [|[k v] l IH]; intros ND; cbn [map qsum aget fst snd]; [lra|].
  cbn [map fst] in ND. inversion ND as [|? ? Hna Hr]; subst.
  destruct (N.eq_dec k r) as [E|NE]; destruct (N.eq_dec r k) as [E'|NE']; try congruence.
  - subst. pose proof (bomsumC_absent l r Hna) as Z. unfold bomsumC, qsumf in Z. rewrite Z. lra.
  - rewrite (IH Hr). lra. Qed.

(* ---------- pipelines up to ==, slot arithmetic ---------- *)
Definition eqlC (l l' : list Q) : Prop := Forall2 Qeq l l'.
Lemma eqlC_refl l : eqlC l l.
Proof. induction l; constructor; [reflexivity|assumption]. Qed.
Lemma eqlC_sym l l' : eqlC l l' -> eqlC l' l.
Proof. induction 1; constructor; [symmetry; assumption|assumption]. Qed.
Lemma eqlC_trans l1 l2 l3 : eqlC l1 l2 -> eqlC l2 l3 -> eqlC l1 l3.
Proof. intros H. revert l3. induction H as [|a b l l' Hab Hl IH]; intros l3 H3; inversion H3; subst; constructor; [lra|apply IH; assumption]. Qed.
Lemma eqlC_qsum l l' : eqlC l l' -> qsum l == qsum l'.
Proof. induction 1 as [|a b l l' Hab Hl IH]; cbn [qsum]; lra. Qed.
Lemma eqlC_length l l' : eqlC l l' -> length l = length l'.
Proof. induction 1; cbn [length]; congruence. Qed.
Lemma eqlC_nth l l' j : eqlC l l' -> nth j l 0 == nth j l' 0.
Proof. intros H. revert j. induction H as [|a b l l' Hab Hl IH]; intros [|j]; cbn [nth]; try reflexivity; [exact Hab|apply IH]. Qed.
Lemma add_at_nilC i a : add_at i a [] = [].
Proof. destruct i; reflexivity. Qed.
Lemma add_at_eqlC i a b l l' : a == b -> eqlC l l' -> eqlC (add_at i a l) (add_at i b l').
Proof. intros Hab H. revert i. induction H as [|x y l l' Hxy Hl IH]; intros i; [rewrite !add_at_nilC; constructor|].
  destruct i as [|i]; cbn [add_at]; constructor; try assumption; [lra|apply IH]. Qed.
Lemma add_at_addC i a b l : eqlC (add_at i a (add_at i b l)) (add_at i (b + a) l).
Proof. revert i. induction l as [|x l IH]; intros i; [rewrite !add_at_nilC; constructor|].
  destruct i as [|i]; cbn [add_at]; constructor; try apply eqlC_refl; [lra|reflexivity|apply IH]. Qed.
Lemma add_at_zeroC i a l : a == 0 -> eqlC (add_at i a l) l.
Proof. intros Ha. revert i. induction l as [|x l IH]; intros i; [rewrite !add_at_nilC; constructor|].
  destruct i as [|i]; cbn [add_at]; constructor; try apply eqlC_refl; [lra|reflexivity|apply IH]. Qed.
Lemma nth_add_at_sameC i a l : (i < length l)%nat -> nth i (add_at i a l) 0 == nth i l 0 + a.
Proof. revert i. induction l as [|x l IH]; intros i Hi; cbn [length] in Hi; [lia|]. destruct i as [|i]; cbn [add_at nth]; [reflexivity|]. apply IH. lia. Qed.
Lemma nth_add_at_otherC i j a l : i <> j -> nth j (add_at i a l) 0 = nth j l 0.
Proof. revert i j. induction l as [|x l IH]; intros i j Hij; [rewrite add_at_nilC; reflexivity|].
  destruct i as [|i], j as [|j]; cbn [add_at nth]; try reflexivity; [congruence|]. apply IH. congruence. Qed.

Definition tripC_eq_dec : forall a b : N * nb * N, {a = b} + {a <> b}.
Proof. decide equality; [apply N.eq_dec|]. decide equality; [apply nb_eq_dec|apply N.eq_dec]. Defined.
(* the fields that record a raw-material order *)
Definition oqfC (f : fld) : bool := match f with fOQ | fOO | fcOQ => true | _ => false end.

Section Order.
Variable (NW : net2) (dis : N -> bool) (err : N -> N -> Q).
Notation C := (cfg2 NW).
Notation PC := (PC NW).
Notation RC := (RC NW).

(* ---------- one (raw material, supplier) ---------- *)
Definition d_oneC (n r : N) (x : nb * Q) (K : key2) : Q :=
  let '(f, n', p', r') := K in
  if oqfC f then (if tripC_eq_dec (n', p', r') (n, fst x, r) then snd x else 0) else 0.
Lemma place_one2_effC n r s x K : gq2 (place_one2 NW n r s x) K == gq2 s K + d_oneC n r x K.
Proof. destruct K as [[[f n'] p'] r']. destruct x as [p q]. unfold d_oneC, place_one2. cbn [fst snd].
  destruct (oqfC f) eqn:F.
  - destruct (tripC_eq_dec (n', p', r') (n, p, r)) as [E|NE].
    + inversion E; subst. destruct f; try discriminate F; destruct p; gs2; lra.
    + assert (HK : forall g, (f, n', p', r') <> (g, n, p, r)) by (intros g E; inversion E; subst; apply NE; reflexivity).
      rewrite !gq2_addq2_other by apply HK. destruct p; rewrite gq2_sl2; lra.
  - destruct f; try discriminate F; destruct p; gs2; lra. Qed.
Lemma place_one2_glC n r s x K : (forall p', fst x = Nd p' -> K <> (fOP, p', Nd n, r)) -> (fst x = Ext -> K <> (fSP, n, Ext, r)) ->
  gl2 (place_one2 NW n r s x) K = gl2 s K.
Proof. intros H1 H2. unfold place_one2. rewrite !gl2_addq2. destruct (fst x) as [|p'] eqn:E.
  - apply gl2_sl2_other. apply H2. reflexivity.
  - apply gl2_sl2_other. apply (H1 p'). reflexivity. Qed.

(* ---------- one raw material of one product: still_to_order ---------- *)
Lemma split_order_zeroC n r q sups K : q == 0 -> qsumf (fun x => d_oneC n r x K) (split_order q sups) == 0.
Proof. revert q. induction sups as [|p0 rest IH]; intros q Hq; unfold qsumf; cbn [split_order map qsum]; [lra|].
  pose proof (IH (q - q) ltac:(lra)) as Z. unfold qsumf in Z. rewrite Z.
  destruct K as [[[f n'] p'] r']. unfold d_oneC. cbn [fst snd]. destruct (oqfC f); [|lra]. destruct (tripC_eq_dec _ _); lra. Qed.
Lemma split_order_amtC n r q sups f p : oqfC f = true ->
  qsumf (fun x => d_oneC n r x (f, n, p, r)) (split_order q sups) == if first_supC sups p then q else 0.
Proof. intros F. destruct sups as [|p0 rest]; unfold qsumf; cbn [split_order map qsum first_supC]; [lra|].
  pose proof (split_order_zeroC n r (q - q) rest (f, n, p, r) ltac:(lra)) as Z. unfold qsumf in Z. rewrite Z.
  unfold d_oneC. cbn [fst snd]. rewrite F.
  destruct (tripC_eq_dec (n, p, r) (n, p0, r)) as [E|NE]; destruct (nb_eq_dec p p0) as [E'|NE']; try lra.
  - inversion E; subst. congruence.
  - subst. congruence. Qed.
Lemma split_order_otherC n r0 q sups f n' p r : (n', r) <> (n, r0) -> qsumf (fun x => d_oneC n r0 x (f, n', p, r)) (split_order q sups) == 0.
Proof. intros NE. apply qsumf_zeroC. intros x _. unfold d_oneC. destruct (oqfC f); [|reflexivity].
  destruct (tripC_eq_dec (n', p, r) (n, fst x, r0)) as [E|_]; [|reflexivity]. inversion E; subst. exfalso. apply NE. reflexivity. Qed.

Definition d_rmC (n : N) (oq : Q) (rb : N * Q) (K : key2) : Q :=
  qsumf (fun x => d_oneC n (fst rb) x K) (split_order (oq * snd rb) (m_sups (RC n (fst rb)))).
Lemma place_rm2_effC n oq s rb K : gq2 (place_rm2 NW n oq s rb) K == gq2 s K + d_rmC n oq rb K.
Proof. unfold place_rm2, d_rmC. apply (fold_add_effC (place_one2 NW n (fst rb)) (d_oneC n (fst rb))). intros. apply place_one2_effC. Qed.

(* ---------- one product ---------- *)
Definition nofC (f : fld) : bool := negb (oqfC f).
Lemma agree_place_rmsC n oq l s : agree nofC s (fold_left (place_rm2 NW n oq) l s).
Proof. apply fold_left_inv; [|apply agree_refl]. intros a rb _ Ha. unfold place_rm2. apply fold_left_inv; [|exact Ha].
  intros b x _ Hb. unfold place_one2. apply agree_addq; [reflexivity|]. apply agree_addq; [reflexivity|]. apply agree_addq; [reflexivity|].
  destruct (fst x); apply agree_sl; exact Hb. Qed.

(* the finished-goods side: only the product's own order / pending-finished-goods entries are written *)
Lemma place_prod2_fgC s n k f n' x i : nofC f = true ->
  gq2 (place_prod2 NW err s n k) (f, n', x, i) = gq2 (addq2 (addq2 s (fOQFG, n, Ext, k) (order_qty2 NW err s n k)) (fPFG, n, Ext, k) (order_qty2 NW err s n k)) (f, n', x, i).
Proof. intros F. unfold place_prod2. apply (agree_place_rmsC n _ (k_bom (PC n k)) _ f n' x i F). Qed.
Lemma place_prod2_oqfg_same s n k : gq2 (place_prod2 NW err s n k) (fOQFG, n, Ext, k) = gq2 s (fOQFG, n, Ext, k) + order_qty2 NW err s n k.
Proof. rewrite place_prod2_fgC by reflexivity. gs2. reflexivity. Qed.
Lemma place_prod2_pfg_same s n k : gq2 (place_prod2 NW err s n k) (fPFG, n, Ext, k) = gq2 s (fPFG, n, Ext, k) + order_qty2 NW err s n k.
Proof. rewrite place_prod2_fgC by reflexivity. gs2. reflexivity. Qed.
Lemma place_prod2_fg_other s n k f n' x i : nofC f = true -> (n', x, i) <> (n, Ext, k) ->
  gq2 (place_prod2 NW err s n k) (f, n', x, i) = gq2 s (f, n', x, i).
Proof. intros F NE. rewrite place_prod2_fgC by exact F.
  assert (HK : forall g, (f, n', x, i) <> (g, n, Ext, k)) by (intros g E; inversion E; subst; apply NE; reflexivity).
  rewrite !gq2_addq2_other by apply HK. reflexivity. Qed.
Lemma place_prod2_fg_fld s n k f n' x i : nofC f = true -> f <> fOQFG -> f <> fPFG ->
  gq2 (place_prod2 NW err s n k) (f, n', x, i) = gq2 s (f, n', x, i).
Proof. intros F F1 F2. rewrite place_prod2_fgC by exact F. rewrite !gq2_addq2_other by (apply key2_neq_fld; assumption). reflexivity. Qed.

(* the raw-material side: supplier p of raw material r receives order x NBOM(k, r) if it is the first supplier of r, else 0;
   the same increment goes to fOQ, fOO (on-order) and fcOQ *)
Lemma place_prod2_oq s n k f p r : oqfC f = true -> NoDup (map fst (k_bom (PC n k))) ->
  gq2 (place_prod2 NW err s n k) (f, n, p, r)
  == gq2 s (f, n, p, r) + (if first_supC (m_sups (RC n r)) p then order_qty2 NW err s n k * nbom (PC n k) r else 0).
Proof. intros F ND. unfold place_prod2. set (oq := order_qty2 NW err s n k).
  rewrite (fold_add_effC (place_rm2 NW n oq) (d_rmC n oq) (place_rm2_effC n oq)).
  assert (F' : forall g, g = fOQFG \/ g = fPFG -> (f, n, p, r) <> (g, n, Ext, k)) by (intros g [E|E] X; inversion X; subst; discriminate F).
  rewrite !gq2_addq2_other by (apply F'; auto).
  assert (S : qsumf (fun rb => d_rmC n oq rb (f, n, p, r)) (k_bom (PC n k))
              == qsumf (fun rb => (if first_supC (m_sups (RC n r)) p then oq else 0) * (if N.eq_dec (fst rb) r then snd rb else 0)) (k_bom (PC n k))).
  { apply qsumf_ext. intros rb _. unfold d_rmC. destruct (N.eq_dec (fst rb) r) as [E|NE].
    - rewrite E. rewrite (split_order_amtC n r _ _ f p F). destruct (first_supC _ p); lra.
    - rewrite split_order_otherC by (intro X; inversion X; subst; apply NE; reflexivity). lra. }
  rewrite S. rewrite qsumf_scaleC. fold (bomsumC (k_bom (PC n k)) r). rewrite (bomsumC_lookup _ r ND). unfold nbom.
  destruct (first_supC _ p); lra. Qed.
(* keys of other nodes are not written *)
Lemma place_prod2_node_other s n k f n' x i : n' <> n -> gq2 (place_prod2 NW err s n k) (f, n', x, i) = gq2 s (f, n', x, i).
Proof. intros NE. assert (HK : forall g y j, (f, n', x, i) <> (g, n, y, j)) by (intros g y j E; inversion E; subst; apply NE; reflexivity).
  unfold place_prod2. apply (fold_left_inv (fun a => gq2 a (f, n', x, i) = gq2 s (f, n', x, i))); [|rewrite !gq2_addq2_other by apply HK; reflexivity].
  intros c rb _ Hc. unfold place_rm2. apply (fold_left_inv (fun a => gq2 a (f, n', x, i) = gq2 s (f, n', x, i))); [|exact Hc].
  intros d y _ Hd. unfold place_one2. rewrite !gq2_addq2_other by apply HK. destruct (fst y); rewrite gq2_sl2; exact Hd. Qed.

(* ---------- the node's products place their orders one after the other ---------- *)
Definition place_uptoC (s : st2) (n : N) (l : list N) : st2 := fold_left (fun s k => place_prod2 NW err s n k) l s.
Lemma place_orders2_eqC s n : place_orders2 NW dis err s n = if disk2 NW dis n dOP then s else place_uptoC s n (n_prods (C n)).
Proof. reflexivity. Qed.
(* nothing is ordered (nothing at all is written) while an order-pausing disruption is active *)
Theorem place_orders2_pausedC s n : disk2 NW dis n dOP = true -> place_orders2 NW dis err s n = s.
Proof. intros H. unfold place_orders2. rewrite H. reflexivity. Qed.

Lemma place_upto_fg_otherC l s n f n' x i : nofC f = true -> (forall k, In k l -> (n', x, i) <> (n, Ext, k)) ->
  gq2 (place_uptoC s n l) (f, n', x, i) = gq2 s (f, n', x, i).
Proof. intros F H. unfold place_uptoC. apply (fold_left_inv (fun a => gq2 a (f, n', x, i) = gq2 s (f, n', x, i))); [|reflexivity].
  intros a k Hk Ha. rewrite place_prod2_fg_other; [exact Ha|exact F|apply H; exact Hk]. Qed.
Lemma place_upto_node_otherC l s n f n' x i : n' <> n -> gq2 (place_uptoC s n l) (f, n', x, i) = gq2 s (f, n', x, i).
Proof. intros NE. unfold place_uptoC. apply (fold_left_inv (fun a => gq2 a (f, n', x, i) = gq2 s (f, n', x, i))); [|reflexivity].
  intros a k _ Ha. rewrite place_prod2_node_other by exact NE. exact Ha. Qed.

(* C04, rule clause: product k orders min(capacity, rule(position observed when its turn comes + err)); err = 0 in the exact model *)
Definition policy_qtyC (s : st2) (n k : N) : Q := capq (k_cap (PC n k)) (rule (k_pol (PC n k)) (obs_ip2 NW s n k + err n k)).
Lemma order_qty2_policyC s n k : order_qty2 NW err s n k == policy_qtyC s n k.
Proof. unfold order_qty2, policy_qtyC. apply Qred_correct. Qed.
Theorem place_orders2_fgC s n pre k post : NoDup (n_prods (C n)) -> n_prods (C n) = pre ++ k :: post ->
  let q := if disk2 NW dis n dOP then 0 else policy_qtyC (place_uptoC s n pre) n k in
  gq2 (place_orders2 NW dis err s n) (fOQFG, n, Ext, k) == gq2 s (fOQFG, n, Ext, k) + q /\
  gq2 (place_orders2 NW dis err s n) (fPFG, n, Ext, k) == gq2 s (fPFG, n, Ext, k) + q.
Proof. intros ND E. cbv zeta. rewrite place_orders2_eqC. destruct (disk2 NW dis n dOP); [split; lra|].
  rewrite E in ND. pose proof (NoDup_remove_2 _ _ _ ND) as Hn.
  assert (Hpre : forall k', In k' pre -> (n, Ext, k) <> (n, Ext, k')) by (intros k' Hk' X; inversion X; subst; apply Hn; apply in_or_app; left; exact Hk').
  assert (Hpost : forall k', In k' post -> (n, Ext, k) <> (n, Ext, k')) by (intros k' Hk' X; inversion X; subst; apply Hn; apply in_or_app; right; exact Hk').
  rewrite E. unfold place_uptoC. rewrite fold_left_app. cbn [fold_left]. fold (place_uptoC s n pre).
  set (s1 := place_uptoC s n pre). fold (place_uptoC (place_prod2 NW err s1 n k) n post).
  rewrite !(place_upto_fg_otherC post) by (try reflexivity; exact Hpost).
  rewrite place_prod2_oqfg_same, place_prod2_pfg_same. unfold s1. rewrite !(place_upto_fg_otherC pre) by (try reflexivity; exact Hpre).
  rewrite order_qty2_policyC. split; reflexivity. Qed.

(* sum over the node's products of NBOM(k, r) x the finished-goods order on record *)
Definition FGsumC (s : st2) (n r : N) : Q := qsumf (fun k => nbom (PC n k) r * gq2 s (fOQFG, n, Ext, k)) (n_prods (C n)).
Lemma FGsumC_place_prod s n k r : NoDup (n_prods (C n)) -> In k (n_prods (C n)) ->
  FGsumC (place_prod2 NW err s n k) n r == FGsumC s n r + nbom (PC n k) r * order_qty2 NW err s n k.
Proof. intros ND Hk. unfold FGsumC.
  rewrite (qsumf_update N.eq_dec (fun x => nbom (PC n x) r * gq2 s (fOQFG, n, Ext, x)) (fun x => nbom (PC n x) r * gq2 (place_prod2 NW err s n k) (fOQFG, n, Ext, x)) (n_prods (C n)) k ND).
  - destruct (in_dec N.eq_dec k (n_prods (C n))) as [_|N']; [|contradiction]. rewrite place_prod2_oqfg_same. ring.
  - intros x Hx. rewrite place_prod2_fg_other; [reflexivity|reflexivity|]. intro X. inversion X. contradiction. Qed.

Record wfC_node2 (n : N) : Prop := {
  c_prods : NoDup (n_prods (C n));
  c_bomk : forall k, In k (n_prods (C n)) -> NoDup (map fst (k_bom (PC n k))) }.

Lemma place_upto_oq_invC l s n f p r : wfC_node2 n -> incl l (n_prods (C n)) -> oqfC f = true ->
  let c := fun a => if first_supC (m_sups (RC n r)) p then FGsumC a n r else 0 in
  gq2 (place_uptoC s n l) (f, n, p, r) - c (place_uptoC s n l) == gq2 s (f, n, p, r) - c s.
Proof. intros [ND NB] Hl F. cbv zeta. unfold place_uptoC.
  apply (fold_left_inv (fun a => gq2 a (f, n, p, r) - (if first_supC (m_sups (RC n r)) p then FGsumC a n r else 0)
                                 == gq2 s (f, n, p, r) - (if first_supC (m_sups (RC n r)) p then FGsumC s n r else 0))); [|reflexivity].
  intros a k Hk Ha. rewrite <- Ha. rewrite (place_prod2_oq a n k f p r F (NB k (Hl k Hk))).
  destruct (first_supC (m_sups (RC n r)) p); [|lra]. rewrite (FGsumC_place_prod a n k r ND (Hl k Hk)). lra. Qed.

(* C04, bill-of-materials clause, per supplier: the first supplier of raw material r receives
   sum over the products of NBOM(k, r) x (finished-goods order placed by k in this action), every other supplier nothing;
   f = fOQ (order quantity), fOO (on-order) or fcOQ (cumulative counter): all three receive the same *)
Theorem place_orders2_first_supC s n f p r : wfC_node2 n -> oqfC f = true ->
  let e := place_orders2 NW dis err s n in
  gq2 e (f, n, p, r) == gq2 s (f, n, p, r)
     + (if first_supC (m_sups (RC n r)) p
        then qsumf (fun k => nbom (PC n k) r * (gq2 e (fOQFG, n, Ext, k) - gq2 s (fOQFG, n, Ext, k))) (n_prods (C n)) else 0).
Proof. intros Wn F. cbv zeta.
  pose proof (qsumf_scale_diffC (fun k => nbom (PC n k) r) (fun k => gq2 (place_orders2 NW dis err s n) (fOQFG, n, Ext, k)) (fun k => gq2 s (fOQFG, n, Ext, k)) (n_prods (C n))) as D.
  cbv beta in D. revert D. rewrite place_orders2_eqC. destruct (disk2 NW dis n dOP); intros D; [destruct (first_supC _ p); lra|].
  pose proof (place_upto_oq_invC (n_prods (C n)) s n f p r Wn (incl_refl _) F) as H. cbv zeta in H. unfold FGsumC in H.
  destruct (first_supC (m_sups (RC n r)) p); lra. Qed.
Theorem place_orders2_on_order_sameC s n p r : wfC_node2 n ->
  let e := place_orders2 NW dis err s n in
  gq2 e (fOO, n, p, r) - gq2 s (fOO, n, p, r) == gq2 e (fOQ, n, p, r) - gq2 s (fOQ, n, p, r) /\
  gq2 e (fcOQ, n, p, r) - gq2 s (fcOQ, n, p, r) == gq2 e (fOQ, n, p, r) - gq2 s (fOQ, n, p, r).
Proof. intros Wn. cbv zeta. pose proof (place_orders2_first_supC s n fOQ p r Wn eq_refl) as H1. pose proof (place_orders2_first_supC s n fOO p r Wn eq_refl) as H2.
  pose proof (place_orders2_first_supC s n fcOQ p r Wn eq_refl) as H3. cbv zeta in *. split; lra. Qed.
(* ... summed over a duplicate-free non-empty supplier list: the raw-material orders add up *)
Theorem place_orders2_adds_upC s n r : wfC_node2 n -> NoDup (m_sups (RC n r)) -> m_sups (RC n r) <> [] ->
  let e := place_orders2 NW dis err s n in
  qsumf (fun p => gq2 e (fOQ, n, p, r) - gq2 s (fOQ, n, p, r)) (m_sups (RC n r))
  == qsumf (fun k => nbom (PC n k) r * (gq2 e (fOQFG, n, Ext, k) - gq2 s (fOQFG, n, Ext, k))) (n_prods (C n)).
Proof. intros Wn ND NE. cbv zeta.
  set (c := qsumf (fun k => nbom (PC n k) r * (gq2 (place_orders2 NW dis err s n) (fOQFG, n, Ext, k) - gq2 s (fOQFG, n, Ext, k))) (n_prods (C n))).
  rewrite (qsumf_ext (fun p => if first_supC (m_sups (RC n r)) p then c else 0)); [apply first_supC_sum; assumption|].
  intros p _. cbv beta. pose proof (place_orders2_first_supC s n fOQ p r Wn eq_refl) as H. cbv zeta in H. fold c in H. lra. Qed.
(* keys of other nodes are not written *)
Lemma place_orders2_node_otherC s n f n' x i : n' <> n -> gq2 (place_orders2 NW dis err s n) (f, n', x, i) = gq2 s (f, n', x, i).
Proof. intros NE. rewrite place_orders2_eqC. destruct (disk2 NW dis n dOP); [reflexivity|]. apply place_upto_node_otherC. exact NE. Qed.

(* ---------- the pipelines receive the same quantities ---------- *)
(* relative to the state s0 before: the order pipeline of every node supplier p' (slot OLT of the ordering node n) and the
   shipment pipeline from the external supplier (slot OLT + SLT) have grown by exactly the change of fOQ *)
Definition pipesC (n : N) (s0 s : st2) : Prop :=
  (forall p' r, eqlC (gl2 s (fOP, p', Nd n, r))
                     (add_at (n_olt (C n)) (gq2 s (fOQ, n, Nd p', r) - gq2 s0 (fOQ, n, Nd p', r)) (gl2 s0 (fOP, p', Nd n, r)))) /\
  (forall r, eqlC (gl2 s (fSP, n, Ext, r))
                  (add_at (n_olt (C n) + n_slt (C n)) (gq2 s (fOQ, n, Ext, r) - gq2 s0 (fOQ, n, Ext, r)) (gl2 s0 (fSP, n, Ext, r)))).
Lemma pipesC_refl n s : pipesC n s s.
Proof. split; intros; apply eqlC_sym, add_at_zeroC; lra. Qed.
Lemma pipesC_place_one n r s0 s x : pipesC n s0 s -> pipesC n s0 (place_one2 NW n r s x).
Proof. intros [H1 H2]. destruct x as [p q]. unfold place_one2. cbn [fst snd]. split.
  - intros p' r'. specialize (H1 p' r'). rewrite !gl2_addq2.
    rewrite (gq2_addq2_other _ (fOQ, n, Nd p', r') (fcOQ, n, p, r)) by (apply key2_neq_fld; discriminate).
    rewrite (gq2_addq2_other _ (fOQ, n, Nd p', r') (fOO, n, p, r)) by (apply key2_neq_fld; discriminate).
    destruct (tripC_eq_dec (n, Nd p', r') (n, p, r)) as [E|NE].
    + inversion E; subst. rewrite gq2_addq2_same, gq2_sl2, gl2_sl2_same.
      apply (eqlC_trans _ _ _ (add_at_eqlC (n_olt (C n)) q q _ _ (Qeq_refl q) H1)).
      apply (eqlC_trans _ _ _ (add_at_addC _ _ _ _)). apply add_at_eqlC; [lra|apply eqlC_refl].
    + rewrite gq2_addq2_other by (intro X; inversion X; subst; apply NE; reflexivity).
      destruct p as [|p1]; rewrite gq2_sl2.
      * rewrite gl2_sl2_other by (apply key2_neq_fld; discriminate). exact H1.
      * rewrite gl2_sl2_other by (intro X; inversion X; subst; apply NE; reflexivity). exact H1.
  - intros r'. specialize (H2 r'). rewrite !gl2_addq2.
    rewrite (gq2_addq2_other _ (fOQ, n, Ext, r') (fcOQ, n, p, r)) by (apply key2_neq_fld; discriminate).
    rewrite (gq2_addq2_other _ (fOQ, n, Ext, r') (fOO, n, p, r)) by (apply key2_neq_fld; discriminate).
    destruct (tripC_eq_dec (n, Ext, r') (n, p, r)) as [E|NE].
    + inversion E; subst. rewrite gq2_addq2_same, gq2_sl2, gl2_sl2_same.
      apply (eqlC_trans _ _ _ (add_at_eqlC (n_olt (C n) + n_slt (C n)) q q _ _ (Qeq_refl q) H2)).
      apply (eqlC_trans _ _ _ (add_at_addC _ _ _ _)). apply add_at_eqlC; [lra|apply eqlC_refl].
    + rewrite gq2_addq2_other by (intro X; inversion X; subst; apply NE; reflexivity).
      destruct p as [|p1]; rewrite gq2_sl2.
      * rewrite gl2_sl2_other by (intro X; inversion X; subst; apply NE; reflexivity). exact H2.
      * rewrite gl2_sl2_other by (apply key2_neq_fld; discriminate). exact H2. Qed.
Lemma pipesC_place_prod n s0 s k : pipesC n s0 s -> pipesC n s0 (place_prod2 NW err s n k).
Proof. intros H. unfold place_prod2. apply fold_left_inv.
  - intros a rb _ Ha. unfold place_rm2. apply fold_left_inv; [|exact Ha]. intros b x _ Hb. apply pipesC_place_one. exact Hb.
  - destruct H as [H1 H2]. split; intros; rewrite !gl2_addq2; rewrite !gq2_addq2_other by (apply key2_neq_fld; discriminate); auto. Qed.
Theorem place_orders2_pipesC s n : pipesC n s (place_orders2 NW dis err s n).
Proof. rewrite place_orders2_eqC. destruct (disk2 NW dis n dOP); [apply pipesC_refl|].
  unfold place_uptoC. apply fold_left_inv; [|apply pipesC_refl]. intros a k _ Ha. apply pipesC_place_prod. exact Ha. Qed.
(* slot form, and the totals when the slot exists *)
Corollary place_orders2_order_pipeC s n p r : let e := place_orders2 NW dis err s n in
  let d := gq2 e (fOQ, n, Nd p, r) - gq2 s (fOQ, n, Nd p, r) in
  (forall j, j <> n_olt (C n) -> nth j (gl2 e (fOP, p, Nd n, r)) 0 == nth j (gl2 s (fOP, p, Nd n, r)) 0) /\
  ((n_olt (C n) < length (gl2 s (fOP, p, Nd n, r)))%nat ->
     nth (n_olt (C n)) (gl2 e (fOP, p, Nd n, r)) 0 == nth (n_olt (C n)) (gl2 s (fOP, p, Nd n, r)) 0 + d /\
     qsum (gl2 e (fOP, p, Nd n, r)) == qsum (gl2 s (fOP, p, Nd n, r)) + d).
Proof. cbv zeta. destruct (place_orders2_pipesC s n) as [H _]. specialize (H p r). split.
  - intros j Hj. rewrite (eqlC_nth _ _ j H). rewrite nth_add_at_otherC by congruence. reflexivity.
  - intros L. split; [rewrite (eqlC_nth _ _ _ H); apply nth_add_at_sameC; exact L|rewrite (eqlC_qsum _ _ H); apply qsum_add_at; exact L]. Qed.
Corollary place_orders2_ext_pipeC s n r : let e := place_orders2 NW dis err s n in
  let d := gq2 e (fOQ, n, Ext, r) - gq2 s (fOQ, n, Ext, r) in
  let i := (n_olt (C n) + n_slt (C n))%nat in
  (forall j, j <> i -> nth j (gl2 e (fSP, n, Ext, r)) 0 == nth j (gl2 s (fSP, n, Ext, r)) 0) /\
  ((i < length (gl2 s (fSP, n, Ext, r)))%nat ->
     nth i (gl2 e (fSP, n, Ext, r)) 0 == nth i (gl2 s (fSP, n, Ext, r)) 0 + d /\
     qsum (gl2 e (fSP, n, Ext, r)) == qsum (gl2 s (fSP, n, Ext, r)) + d).
Proof. cbv zeta. destruct (place_orders2_pipesC s n) as [_ H]. specialize (H r). split.
  - intros j Hj. rewrite (eqlC_nth _ _ j H). rewrite nth_add_at_otherC by congruence. reflexivity.
  - intros L. split; [rewrite (eqlC_nth _ _ _ H); apply nth_add_at_sameC; exact L|rewrite (eqlC_qsum _ _ H); apply qsum_add_at; exact L]. Qed.
End Order.

(* ====================== run level ====================== *)
(* a rational key that a step either keeps or resets to 0 *)
Definition kozC (K : key2) (s s' : st2) : Prop := gq2 s' K = gq2 s K \/ gq2 s' K = 0.
Lemma kozC_refl K s : kozC K s s.  Proof. left. reflexivity. Qed.
Lemma kozC_trans K s1 s2 s3 : kozC K s1 s2 -> kozC K s2 s3 -> kozC K s1 s3.
Proof. intros H1 [E|E]; [|right; exact E]. destruct H1 as [E1|E1]; [left|right]; congruence. Qed.
Lemma fold_kozC {A} (f : st2 -> A -> st2) K : (forall s a, kozC K s (f s a)) -> forall l s, kozC K s (fold_left f l s).
Proof. intros H l s. apply (fold_left_inv (fun a => kozC K s a)); [|apply kozC_refl]. intros a x _ Ha. apply (kozC_trans K _ _ _ Ha). apply H. Qed.
Lemma fold_zeroC {A} (f : st2 -> A -> st2) K a0 : (forall s a, kozC K s (f s a)) -> (forall s, gq2 (f s a0) K = 0) ->
  forall l s, In a0 l -> gq2 (fold_left f l s) K = 0.
Proof. intros Hk Hz. induction l as [|a r IH]; intros s Hin; [destruct Hin|]. cbn [fold_left]. destruct Hin as [E|Hin].
  - subst a. destruct (fold_kozC f K Hk r (f s a0)) as [E|E]; [rewrite E; apply Hz|exact E].
  - apply IH. exact Hin. Qed.

Section RunC.
Variable NW : net2.
Notation C := (cfg2 NW).
Notation PC := (PC NW).
Notation RC := (RC NW).

(* what the run-level invariant needs: duplicate-free product lists and bills of materials (part of wfB_net2) *)
Definition wfC_net2 : Prop := forall n, In n (nodes2 NW) -> wfC_node2 NW n.
Lemma wfB_wfC2 : wfB_net2 NW -> wfC_net2.
Proof. intros W n Hn. pose proof (w_node NW W n Hn) as Wn. constructor; [apply (w_prods NW n Wn)|apply (w_bomk NW n Wn)]. Qed.

(* every supplier's order quantity on record is [first supplier] x sum over the products of NBOM x finished-goods order on record *)
Definition OQS2c (s : st2) : Prop := forall n p r, sup_edge NW n p r ->
  gq2 s (fOQ, n, p, r) == if first_supC (m_sups (RC n r)) p then FGsumC NW s n r else 0.
Definition oqsfC (f : fld) : bool := match f with fOQ | fOQFG => true | _ => false end.
Lemma FGsumC_agree s s' n r : agree oqsfC s s' -> FGsumC NW s' n r == FGsumC NW s n r.
Proof. intros A. unfold FGsumC. apply qsumf_ext. intros k _. rewrite A by reflexivity. reflexivity. Qed.
Lemma OQS2c_agree s s' : agree oqsfC s s' -> OQS2c s -> OQS2c s'.
Proof. intros A H n p r E. specialize (H n p r E). rewrite A by reflexivity. destruct (first_supC _ p); [|exact H]. rewrite H. symmetry. apply FGsumC_agree. exact A. Qed.

Variable (dis : N -> bool) (dem err : N -> N -> Q).

Lemma OQS2c_orders_action s x : wfC_net2 -> OQS2c s -> OQS2c (orders_action2 NW dis dem err s x).
Proof. intros W H n p r E. destruct (N.eq_dec n x) as [En|NE].
  - subst x. unfold orders_action2. set (s1 := recv_orders2 NW (gen_demand2 NW dem s n) n).
    assert (A : agree oqsfC s s1).
    { apply (agree_trans _ _ (gen_demand2 NW dem s n)); [apply agree_gen_demand|apply agree_recv_orders; reflexivity]. }
    pose proof (OQS2c_agree s s1 A H n p r E) as H1.
    pose proof (place_orders2_first_supC NW dis err s1 n fOQ p r (W n (proj1 E)) eq_refl) as P. cbv zeta in P.
    pose proof (qsumf_scale_diffC (fun k => nbom (PC n k) r) (fun k => gq2 (place_orders2 NW dis err s1 n) (fOQFG, n, Ext, k)) (fun k => gq2 s1 (fOQFG, n, Ext, k)) (n_prods (C n))) as D.
    cbv beta in D. unfold FGsumC in *. destruct (first_supC (m_sups (RC n r)) p); lra.
  - rewrite orders_q_other2 by exact NE. specialize (H n p r E). destruct (first_supC _ p); [|exact H]. rewrite H.
    symmetry. unfold FGsumC. apply qsumf_ext. intros k _. rewrite orders_q_other2 by exact NE. reflexivity. Qed.
Lemma agree_ships_actionC fs s n : fs fIS = false -> fs fRM = false -> fs fOO = false -> fs fIDI = false -> fs fcIS = false ->
  fs fIL = false -> fs fPFG = false -> fs fCP = false -> fs fOS = false -> fs fDMFS = false -> fs fDMC = false -> fs fBO = false -> fs fODI = false ->
  fs fPIO = false -> fs fPEND = false -> fs fSRV = false -> fs fcOS = false -> fs fFR = false -> agree fs s (ships_action2 NW dis s n).
Proof. intros. unfold ships_action2.
  apply (agree_trans _ _ (recv_ship2 NW dis s n)); [apply agree_recv_ship; assumption|].
  apply (agree_trans _ _ (produce2 NW (recv_ship2 NW dis s n) n)); [apply agree_produce; assumption|].
  apply (agree_trans _ _ (fold_left (fun s0 k0 => serve2 NW dis s0 n k0 (gq2 s (fIL, n, Ext, k0)) (made2 NW (recv_ship2 NW dis s n) n k0)) (n_prods (C n)) (produce2 NW (recv_ship2 NW dis s n) n)));
    [apply agree_serves; assumption|apply agree_fill_rate; assumption]. Qed.
Lemma OQS2c_run_actions s : wfC_net2 -> OQS2c s -> OQS2c (run_actions2 NW dis dem err s).
Proof. intros W H. unfold run_actions2. apply fold_left_inv.
  - intros a x _ Ha. apply (OQS2c_agree a); [apply agree_ships_actionC; reflexivity|exact Ha].
  - apply fold_left_inv; [|exact H]. intros a x _ Ha. apply OQS2c_orders_action; assumption. Qed.

(* the end-of-period reset of the finished-goods order *)
Lemma next_prod_kozC m b k' n k : kozC (fOQFG, n, Ext, k) b (next_prod NW m b k').
Proof. unfold next_prod. destruct (tripC_eq_dec (n, Ext, k) (m, Ext, k')) as [E|NE].
  - right. inversion E; subst. rewrite !gq2_sq2_other by (apply key2_neq_fld; discriminate). apply gq2_sq2_same.
  - left. rewrite !gq2_sq2_other by (apply key2_neq_fld; discriminate).
    rewrite gq2_sq2_other by (intro X; inversion X; subst; apply NE; reflexivity). rewrite gq2_sl2.
    apply (fold_left_inv (fun c => gq2 c (fOQFG, n, Ext, k) = gq2 b (fOQFG, n, Ext, k))); [|reflexivity].
    intros c y _ Hc. unfold next_cust. rewrite !gq2_sq2_other by (apply key2_neq_fld; discriminate). rewrite gq2_sl2.
    rewrite gq2_addq2_other by (apply key2_neq_fld; discriminate). exact Hc. Qed.
Lemma next_prod_zeroC n b k : gq2 (next_prod NW n b k) (fOQFG, n, Ext, k) = 0.
Proof. unfold next_prod. rewrite !gq2_sq2_other by (apply key2_neq_fld; discriminate). apply gq2_sq2_same. Qed.
Lemma next_sups_keepC m a n k :
  gq2 (fold_left (fun s0 r0 => fold_left (next_sup NW dis m r0) (m_sups (RC m r0)) s0) (n_rms (C m)) a) (fOQFG, n, Ext, k) = gq2 a (fOQFG, n, Ext, k).
Proof. apply (fold_left_inv (fun b => gq2 b (fOQFG, n, Ext, k) = gq2 a (fOQFG, n, Ext, k))); [|reflexivity].
  intros b r0 _ Hb. apply (fold_left_inv (fun c => gq2 c (fOQFG, n, Ext, k) = gq2 a (fOQFG, n, Ext, k))); [|exact Hb].
  intros c q _ Hc. unfold next_sup. rewrite !gq2_sq2_other by (apply key2_neq_fld; discriminate). rewrite gq2_sl2.
  destruct (disk2 NW dis m dTP); [exact Hc|rewrite gq2_sl2; exact Hc]. Qed.
Lemma next_node_kozC m a n k : kozC (fOQFG, n, Ext, k) a (next_node2 NW dis a m).
Proof. unfold next_node2. apply (kozC_trans _ _ (fold_left (fun s0 r0 => fold_left (next_sup NW dis m r0) (m_sups (RC m r0)) s0) (n_rms (C m)) a)).
  - left. apply next_sups_keepC.
  - apply fold_kozC. intros s k'. apply next_prod_kozC. Qed.
Lemma next_period_oqfg0C s n k : In n (nodes2 NW) -> In k (n_prods (C n)) -> gq2 (next_period2 NW dis s) (fOQFG, n, Ext, k) == 0.
Proof. intros Hn Hk. unfold next_period2. rewrite gq2_norm_eq.
  rewrite (fold_zeroC (next_node2 NW dis) (fOQFG, n, Ext, k) n); [reflexivity| | |exact Hn].
  - intros a m. apply next_node_kozC.
  - intros a. unfold next_node2. apply (fold_zeroC (next_prod NW n) (fOQFG, n, Ext, k) k); [|intros b; apply next_prod_zeroC|exact Hk].
    intros b k'. apply next_prod_kozC. Qed.
Lemma OQS2c_next_period s : OQS2c (next_period2 NW dis s).
Proof. intros n p r E. rewrite (next_period_oq0 NW dis s n p r E). destruct (first_supC _ p); [|reflexivity].
  symmetry. unfold FGsumC. apply qsumf_zeroC. intros k Hk. rewrite (next_period_oqfg0C s n k (proj1 E) Hk). ring. Qed.
End RunC.

Lemma OQS2c_init NW : OQS2c NW (init_state2 NW).
Proof. intros n p r E. rewrite init_zero2 by discriminate. destruct (first_supC _ p); [|reflexivity].
  symmetry. unfold FGsumC. apply qsumf_zeroC. intros k _. rewrite init_zero2 by discriminate. ring. Qed.
Theorem OQS2c_run NW inputs : wfC_net2 NW -> Forall (OQS2c NW) (run2 NW inputs).
Proof. intros W. unfold run2. generalize (OQS2c_init NW). generalize (init_state2 NW).
  induction inputs as [|i r IH]; intros s Hs; cbn [run_from2]; [constructor|].
  constructor; [apply OQS2c_run_actions; assumption|]. apply IH. apply OQS2c_next_period. Qed.

(* sum form: needs a duplicate-free, non-empty supplier list of the raw material *)
Lemma OQS2c_sum NW s n r : OQS2c NW s -> In n (nodes2 NW) -> In r (n_rms (cfg2 NW n)) ->
  NoDup (m_sups (RC NW n r)) -> m_sups (RC NW n r) <> [] ->
  qsumf (fun p => gq2 s (fOQ, n, p, r)) (m_sups (RC NW n r)) == FGsumC NW s n r.
Proof. intros H Hn Hr ND NE.
  rewrite (qsumf_ext (fun p => if first_supC (m_sups (RC NW n r)) p then FGsumC NW s n r else 0)); [apply first_supC_sum; assumption|].
  intros p Hp. cbv beta. apply H. repeat split; assumption. Qed.

(* ---------- Qeq-compatibility of the ordering rule (the exact model is err = 0) ---------- *)
Lemma qleb_compatC a a' b b' : a == a' -> b == b' -> qleb a b = qleb a' b'.
Proof. intros Ha Hb. destruct (qleb_spec a b) as [[H E]|[H E]], (qleb_spec a' b') as [[H' E']|[H' E']]; rewrite E, E'; try reflexivity; exfalso; lra. Qed.
Lemma rule_compatC p ip ip' : ip == ip' -> rule p ip == rule p ip'.
Proof. intros H. destruct p as [lv|rp lv|rp q|q|lv]; cbn [rule].
  - rewrite H. reflexivity.
  - rewrite (qleb_compatC ip ip' rp rp H (Qeq_refl rp)). destruct (qleb ip' rp); lra.
  - rewrite (qleb_compatC ip ip' rp rp H (Qeq_refl rp)). reflexivity.
  - reflexivity.
  - rewrite H. reflexivity. Qed.
Lemma capq_compatC c q q' : q == q' -> capq c q == capq c q'.
Proof. intros H. unfold capq. rewrite H. reflexivity. Qed.
Lemma policy_qtyC_exact NW err s n k : err n k == 0 ->
  policy_qtyC NW err s n k == capq (k_cap (PC NW n k)) (rule (k_pol (PC NW n k)) (obs_ip2 NW s n k)).
Proof. intros H. unfold policy_qtyC. apply capq_compatC, rule_compatC. rewrite H. lra. Qed.
(* capacity *)
Lemma capq_specC c q : (match c with Some k => capq c q == qmin q k /\ capq c q <= k | None => True end) /\ capq c q <= q.
Proof. unfold capq. split; [destruct c; [split; [reflexivity|]|exact I]|]; qcases; lra. Qed.

(* ---------- one period: the order on record of product k of node n, when every node places its orders once ---------- *)
Section PeriodC.
Variable NW : net2.
Notation C := (cfg2 NW).
Notation PC := (PC NW).
Variable (dis : N -> bool) (dem err : N -> N -> Q).
Lemma run_actions2_fgC s n pre k post : NoDup (order_visit2 NW) -> In n (order_visit2 NW) ->
  NoDup (n_prods (C n)) -> n_prods (C n) = pre ++ k :: post ->
  exists s0, gq2 (run_actions2 NW dis dem err s) (fOQFG, n, Ext, k)
             == gq2 s (fOQFG, n, Ext, k) + (if disk2 NW dis n dOP then 0 else policy_qtyC NW err (place_uptoC NW err s0 n pre) n k).
Proof. intros NDv Hn NDp E. unfold run_actions2.
  set (s1 := fold_left (orders_action2 NW dis dem err) (order_visit2 NW) s).
  assert (SH : gq2 (fold_left (ships_action2 NW dis) (ship_visit2 NW) s1) (fOQFG, n, Ext, k) = gq2 s1 (fOQFG, n, Ext, k)).
  { apply (fold_left_inv (fun a => gq2 a (fOQFG, n, Ext, k) = gq2 s1 (fOQFG, n, Ext, k))); [|reflexivity]. intros a x _ Ha. rewrite <- Ha.
    apply (agree_ships_actionC NW dis oqsfC a x); reflexivity. }
  destruct (fold_once (orders_action2 NW dis dem err) (fun m a b => gq2 b (fOQFG, m, Ext, k) = gq2 a (fOQFG, m, Ext, k))
              (fun m a => eq_refl) (fun m a b c H1 H2 => eq_trans H2 H1) (fun a m b Hmb => orders_q_other2 NW dis dem err a b fOQFG m Ext k Hmb)
              (order_visit2 NW) s n NDv Hn) as (t1 & T1 & T2). fold s1 in T2.
  set (s0 := recv_orders2 NW (gen_demand2 NW dem t1 n) n).
  assert (A : agree oqsfC t1 s0).
  { apply (agree_trans _ _ (gen_demand2 NW dem t1 n)); [apply agree_gen_demand|apply agree_recv_orders; reflexivity]. }
  exists s0. rewrite SH, T2. unfold orders_action2. fold s0.
  destruct (place_orders2_fgC NW dis err s0 n pre k post NDp E) as [P _]. cbv zeta in P. rewrite P.
  rewrite (A fOQFG n Ext k eq_refl), T1. reflexivity. Qed.
End PeriodC.

(* every record of every run: the finished-goods order on record of product k of node n in period t is 0 while n is
   order-pausing disrupted, and otherwise min(capacity, rule(position observed at k's turn + err)) for the state s0 in which
   n's products start placing their orders (after n received its inbound orders) *)
Theorem run_order_follows_policyC NW inputs t n pre k post :
  NoDup (order_visit2 NW) -> In n (order_visit2 NW) -> In n (nodes2 NW) -> NoDup (n_prods (cfg2 NW n)) -> n_prods (cfg2 NW n) = pre ++ k :: post ->
  (t < length inputs)%nat ->
  let e := nth t (run2 NW inputs) empty_st2 in let i := nth t inputs dflt_input2 in
  exists s0, gq2 e (fOQFG, n, Ext, k)
             == if disk2 NW (i_dis i) n dOP then 0 else policy_qtyC NW (i_err i) (place_uptoC NW (i_err i) s0 n pre) n k.
Proof. intros NDv Hv Hn NDp E Ht. cbv zeta.
  assert (Hk : In k (n_prods (cfg2 NW n))) by (rewrite E; apply in_or_app; right; left; reflexivity).
  destruct t as [|t'].
  - unfold run2. destruct inputs as [|i0 rest]; [cbn in Ht; lia|]. cbn [run_from2 nth].
    destruct (run_actions2_fgC NW (i_dis i0) (i_dem i0) (i_err i0) (init_state2 NW) n pre k post NDv Hv NDp E) as (s0 & H).
    exists s0. rewrite H. rewrite init_zero2 by discriminate. lra.
  - unfold run2. rewrite run_from2_nth_succ by exact Ht.
    set (i1 := nth (S t') inputs dflt_input2). set (s := next_period2 NW _ _).
    destruct (run_actions2_fgC NW (i_dis i1) (i_dem i1) (i_err i1) s n pre k post NDv Hv NDp E) as (s0 & H).
    exists s0. rewrite H. unfold s. rewrite (next_period_oqfg0C NW _ _ n k Hn Hk). lra. Qed.
