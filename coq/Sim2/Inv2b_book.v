(* Stage-2 simulator invariants (group B), part 1: linear bookkeeping identities preserved by every atomic action:
   BK2  order conservation per (node, customer, product); inventory balance per product; demand accounting; on-order accounting
   RMB2 raw-material balance with the bill of materials
   PD2  pending orders of a product = sum over its customers of the orders received but not yet served. *)
From SV Require Import Base.Qx.
From SV Require Import Sim.Model Sim.StateLemmas Sim.Inv_base Sim.Inv_node Sim.Inv_bound.
From SV Require Import Sim2.State2 Sim2.Model2.
From SV Require Import Sim2.Inv2b_tac.

Section Book.
Variable NW : net2.
Notation C := (cfg2 NW).
Notation PC := (PC NW).
Notation RC := (RC NW).
Definition il02 (n k : N) : Q := match k_init_il (PC n k) with Some x => x | None => rule (k_pol (PC n k)) 0 end.
Definition oo02 (n : N) : Q := n_init_ships (C n) * qnat (n_slt (C n)) + n_init_orders (C n) * qnat (n_olt (C n)).

Record BK2 (s : st2) : Prop := {
  (* every unit of product k ordered by customer c of node n is shipped, backordered, held for c, or still to be served *)
  bk2_order : forall n c k, gq2 s (fcIO, n, c, k) == gq2 s (fcOS, n, c, k) + gq2 s (fBO, n, c, k) + gq2 s (fODI, n, c, k) + gq2 s (fPIO, n, c, k);
  (* inventory level of a product = initial level + produced - orders served *)
  bk2_il : forall n k, In n (nodes2 NW) -> In k (n_prods (C n)) -> gq2 s (fIL, n, Ext, k) + gq2 s (fSRV, n, Ext, k) == il02 n k + gq2 s (fCP, n, Ext, k);
  (* cumulative demand = orders served + orders received but not yet served *)
  bk2_dc : forall n k, gq2 s (fDC, n, Ext, k) == gq2 s (fSRV, n, Ext, k) + gq2 s (fPEND, n, Ext, k);
  (* on-order = initial on-order + ordered - (received + held at the door) *)
  bk2_oo : forall n p r, sup_edge NW n p r -> gq2 s (fOO, n, p, r) + gq2 s (fcIS, n, p, r) + gq2 s (fIDI, n, p, r) == oo02 n + gq2 s (fcOQ, n, p, r) }.

Variable (dis : N -> bool) (dem err : N -> N -> Q).

Lemma BK2_sl s k v : BK2 s -> BK2 (sl2 s k v).
Proof. intros [H1 H2 H3 H4]. constructor; intros; rewrite !gq2_sl2; auto. Qed.
Definition bkf (f : fld) : bool :=
  match f with fcIO | fcOS | fBO | fODI | fPIO | fIL | fSRV | fCP | fDC | fPEND | fOO | fcIS | fIDI | fcOQ => true | _ => false end.
Lemma BK2_agree s s' : agree bkf s s' -> BK2 s -> BK2 s'.
Proof. intros A [H1 H2 H3 H4]. constructor; intros; rewrite !A by reflexivity; auto. Qed.
Lemma BK2_sq_frame s f n x i v : bkf f = false -> BK2 s -> BK2 (sq2 s (f, n, x, i) v).
Proof. intros Hf. apply BK2_agree. apply agree_sq; [exact Hf|apply agree_refl]. Qed.
Lemma BK2_addq_frame s f n x i v : bkf f = false -> BK2 s -> BK2 (addq2 s (f, n, x, i) v).
Proof. intros Hf. apply BK2_agree. apply agree_addq; [exact Hf|apply agree_refl]. Qed.
Lemma BK2_norm s : BK2 s -> BK2 (norm_st s).
Proof. intros [H1 H2 H3 H4]. constructor; intros; rewrite !gq2_norm_eq; auto. Qed.

Lemma BK2_gen_demand s n : BK2 s -> BK2 (gen_demand2 NW dem s n).
Proof. intros H. unfold gen_demand2. apply fold_left_inv; [|exact H]. intros a k _ Ha. destruct (has_ext _); [apply BK2_sl|]; exact Ha. Qed.

Lemma BK2_recv_order_one n k s c : BK2 s -> BK2 (recv_order_one2 n k s c).
Proof. intros [H1 H2 H3 H4]. unfold recv_order_one2. set (x := hd0 (gl2 s (fOP, n, c, k))). constructor.
  - intros n' c' k'. specialize (H1 n' c' k'). gsplit2; lra.
  - intros n' k' Hn Hk. gs2. apply H2; assumption.
  - intros n' k'. specialize (H3 n' k'). gsplit2; lra.
  - intros n' p r Hp. gs2. apply H4. exact Hp. Qed.
Lemma BK2_recv_orders s n : BK2 s -> BK2 (recv_orders2 NW s n).
Proof. intros H. unfold recv_orders2, recv_orders_prod. apply fold_left_inv; [|exact H]. intros a k _ Ha.
  apply fold_left_inv; [|exact Ha]. intros b c _ Hb. apply BK2_recv_order_one. exact Hb. Qed.

Lemma BK2_place_one n r s x : BK2 s -> BK2 (place_one2 NW n r s x).
Proof. intros [H1 H2 H3 H4]. unfold place_one2. constructor.
  - intros n' c' k'. destruct (fst x); gs2; apply H1.
  - intros n' k' Hn Hk. destruct (fst x); gs2; apply H2; assumption.
  - intros n' k'. destruct (fst x); gs2; apply H3.
  - intros n' p' r' Hp. specialize (H4 n' p' r' Hp). destruct (fst x); gsplit2; lra. Qed.
Lemma BK2_place_prod s n k : BK2 s -> BK2 (place_prod2 NW err s n k).
Proof. intros H. unfold place_prod2. apply fold_left_inv.
  - intros a rb _ Ha. unfold place_rm2. apply fold_left_inv; [|exact Ha]. intros b x _ Hb. apply BK2_place_one. exact Hb.
  - apply BK2_addq_frame; [reflexivity|]. apply BK2_addq_frame; [reflexivity|]. exact H. Qed.
Lemma BK2_orders_action s n : BK2 s -> BK2 (orders_action2 NW dis dem err s n).
Proof. intros H. unfold orders_action2, place_orders2.
  pose proof (BK2_recv_orders _ n (BK2_gen_demand s n H)) as H1.
  destruct (disk2 NW dis n dOP); [exact H1|]. apply fold_left_inv; [|exact H1]. intros a k _ Ha. apply BK2_place_prod. exact Ha. Qed.

Lemma BK2_recv_ship_one n r s p : BK2 s -> BK2 (recv_ship_one2 NW dis n r s p).
Proof. intros [H1 H2 H3 H4]. unfold recv_ship_one2. constructor.
  - intros n' c' k'. gs2. apply H1.
  - intros n' k' Hn Hk. gs2. apply H2; assumption.
  - intros n' k'. gs2. apply H3.
  - intros n' p' r' Hp. specialize (H4 n' p' r' Hp). destruct (disk2 NW dis n dRP); gsplit2; lra. Qed.
Lemma BK2_recv_ship s n : BK2 s -> BK2 (recv_ship2 NW dis s n).
Proof. intros H. unfold recv_ship2, recv_ship_rm. apply fold_left_inv; [|exact H]. intros a r _ Ha.
  apply fold_left_inv; [|exact Ha]. intros b p _ Hb. apply BK2_recv_ship_one. exact Hb. Qed.

Lemma BK2_produce_one n mk s k : BK2 s -> BK2 (produce_one2 NW n mk s k).
Proof. intros H. unfold produce_one2.
  set (s1 := fold_left _ (k_bom (PC n k)) s).
  assert (B1 : BK2 s1) by (unfold s1; apply fold_left_inv; [|exact H]; intros a rb _ Ha; apply BK2_addq_frame; [reflexivity|exact Ha]).
  destruct B1 as [H1 H2 H3 H4]. constructor.
  - intros n' c' k'. gs2. apply H1.
  - intros n' k' Hn Hk. specialize (H2 n' k' Hn Hk). gsplit2; lra.
  - intros n' k'. gs2. apply H3.
  - intros n' p r Hp. gs2. apply H4. exact Hp. Qed.

Lemma BK2_serve_q s n k c o io : io = gq2 s (fPIO, n, c, k) ->
  o_bo o + o_odi o + o_os o == gq2 s (fBO, n, c, k) + gq2 s (fODI, n, c, k) + gq2 s (fPIO, n, c, k) ->
  BK2 s -> BK2 (serve_q s n k c o io).
Proof. intros Eio Pc [H1 H2 H3 H4]. unfold serve_q. constructor.
  - intros n' c' k'. specialize (H1 n' c' k'). kcase2 (fcIO, n', c', k') (fcIO, n, c, k).
    + gs2. lra.
    + assert (HK : forall f : fld, (f, n', c', k') <> (f, n, c, k)) by (intros f E; inversion E; subst; apply KN; reflexivity).
      repeat first [gs2_1 | rewrite gq2_sq2_other by apply HK | rewrite gq2_addq2_other by apply HK]. exact H1.
  - intros n' k' Hn Hk. specialize (H2 n' k' Hn Hk). gsplit2; lra.
  - intros n' k'. specialize (H3 n' k'). gsplit2; lra.
  - intros n' p r Hp. gs2. apply H4. exact Hp. Qed.
Lemma BK2_serve_one n k acc c : NNB2 (fst acc) -> 0 <= snd acc -> BK2 (fst acc) -> BK2 (fst (serve_one2 NW dis n k acc c)).
Proof. destruct acc as [s oh]. cbn [fst snd]. intros HN Hoh HB. rewrite serve_one2_eq.
  pose proof (BK2_serve_q s n k c _ _ eq_refl (serve_o_spec NW dis s n k c oh HN Hoh) HB) as B.
  destruct c as [|c']; cbn [fst]; [exact B|apply BK2_sl; exact B]. Qed.
Lemma BK2_serve s n k il0 made : NNB2 s -> 0 <= made -> BK2 s -> BK2 (serve2 NW dis s n k il0 made).
Proof. intros HN Hm HB. unfold serve2.
  assert (G : forall l acc, NNB2 (fst acc) -> 0 <= snd acc -> BK2 (fst acc) -> BK2 (fst (fold_left (serve_one2 NW dis n k) l acc))).
  { induction l as [|c r IH]; intros acc N1 O1 B1; cbn [fold_left]; [exact B1|].
    destruct (NNB2_serve_one NW dis n k acc c N1 O1) as [N2 O2]. apply IH; [exact N2|exact O2|]. apply BK2_serve_one; assumption. }
  apply G; cbn [fst snd].
  - apply NNB2_sq; [exact HN|intros Hf; discriminate].
  - qcases; lra.
  - apply BK2_sq_frame; [reflexivity|exact HB]. Qed.
Lemma BK2_fill_rate s n : BK2 s -> BK2 (fill_rate2 NW s n).
Proof. intros H. unfold fill_rate2. apply fold_left_inv; [|exact H]. intros a k _ Ha. unfold fill_rate_one2. apply BK2_sq_frame; [reflexivity|exact Ha]. Qed.

Lemma BK2_ships_action s n : wfB_node2 NW n -> NNB2 s -> BK2 s -> BK2 (ships_action2 NW dis s n).
Proof. intros W HN HB. unfold ships_action2.
  pose proof (NNB2_recv_ship NW dis s n HN) as N1. pose proof (BK2_recv_ship s n HB) as B1.
  assert (Hm : forall k, In k (n_prods (C n)) -> 0 <= made2 NW (recv_ship2 NW dis s n) n k) by (intros k Hk; apply made2_nonneg; assumption).
  apply BK2_fill_rate.
  apply (fold_left_inv (fun a => NNB2 a /\ BK2 a)).
  - intros a k Hk [Na Ba]. split; [apply NNB2_serve; [exact Na|apply Hm; exact Hk]|apply BK2_serve; [exact Na|apply Hm; exact Hk|exact Ba]].
  - unfold produce2. apply (fold_left_inv (fun a => NNB2 a /\ BK2 a)); [|split; assumption].
    intros a k Hk [Na Ba]. split; [apply NNB2_produce_one; [apply Hm; exact Hk|exact Na]|apply BK2_produce_one; exact Ba]. Qed.

Lemma BK2_run_actions s : wfB_net2 NW -> (forall n k, 0 <= dem n k) -> NNB2 s -> BK2 s -> BK2 (run_actions2 NW dis dem err s).
Proof. intros W Hd HN HB. unfold run_actions2.
  apply (fold_left_inv (fun a => NNB2 a /\ BK2 a)).
  - intros a x Hx [Na Ba]. pose proof (w_node NW W x (w_ship_in NW W x Hx)) as Wx.
    split; [apply NNB2_ships_action; assumption|apply BK2_ships_action; assumption].
  - apply (fold_left_inv (fun a => NNB2 a /\ BK2 a)); [|split; assumption].
    intros a x Hx [Na Ba]. pose proof (w_node NW W x (w_ord_in NW W x Hx)) as Wx.
    split; [apply NNB2_orders_action; assumption|apply BK2_orders_action; exact Ba]. Qed.

Lemma BK2_next_period s : BK2 s -> BK2 (next_period2 NW dis s).
Proof. intros H. unfold next_period2. apply BK2_norm. apply fold_left_inv; [|exact H]. intros a n _ Ha. unfold next_node2.
  apply fold_left_inv.
  { intros b k _ Hb. unfold next_prod. apply BK2_sq_frame; [reflexivity|]. apply BK2_sq_frame; [reflexivity|]. apply BK2_sq_frame; [reflexivity|].
    apply BK2_sl. apply fold_left_inv; [|exact Hb]. intros c x _ Hc. unfold next_cust.
    apply BK2_sq_frame; [reflexivity|]. apply BK2_sq_frame; [reflexivity|]. apply BK2_sl. apply BK2_addq_frame; [reflexivity|exact Hc]. }
  apply fold_left_inv; [|exact Ha]. intros b r _ Hb. apply fold_left_inv; [|exact Hb]. intros c p _ Hc. unfold next_sup.
  apply BK2_sq_frame; [reflexivity|]. apply BK2_sq_frame; [reflexivity|]. apply BK2_sl. destruct (disk2 NW dis n dTP); [|apply BK2_sl]; exact Hc. Qed.

(* ---------- raw-material balance with the bill of materials ---------- *)
Definition CPsum (s : st2) (n r : N) : Q := qsumf (fun k => nbom (PC n k) r * gq2 s (fCP, n, Ext, k)) (n_prods (C n)).
Definition ISsum (s : st2) (n r : N) : Q := qsumf (fun p => gq2 s (fcIS, n, p, r)) (m_sups (RC n r)).
Definition RMB2 (s : st2) : Prop := forall n r, gq2 s (fRM, n, Ext, r) + CPsum s n r == ISsum s n r.
Definition rmf (f : fld) : bool := match f with fRM | fCP | fcIS => true | _ => false end.
Lemma RMB2_agree s s' : agree rmf s s' -> RMB2 s -> RMB2 s'.
Proof. intros A H n r. unfold CPsum, ISsum. rewrite A by reflexivity.
  rewrite (qsumf_ext (fun k => nbom (PC n k) r * gq2 s (fCP, n, Ext, k))) by (intros x _; rewrite A by reflexivity; reflexivity).
  rewrite (qsumf_ext (fun p => gq2 s (fcIS, n, p, r))) by (intros x _; rewrite A by reflexivity; reflexivity). apply H. Qed.
Lemma RMB2_norm s : RMB2 s -> RMB2 (norm_st s).
Proof. intros H n r. unfold CPsum, ISsum. rewrite gq2_norm_eq.
  rewrite (qsumf_ext (fun k => nbom (PC n k) r * gq2 s (fCP, n, Ext, k))) by (intros x _; rewrite gq2_norm_eq; reflexivity).
  rewrite (qsumf_ext (fun p => gq2 s (fcIS, n, p, r))) by (intros x _; rewrite gq2_norm_eq; reflexivity). apply H. Qed.

Lemma agree_gen_demand fs s n : agree fs s (gen_demand2 NW dem s n).
Proof. unfold gen_demand2. apply fold_left_inv; [|apply agree_refl]. intros a k _ Ha. destruct (has_ext _); agree_tac. Qed.
Lemma agree_place_orders fs s n : fs fOQFG = false -> fs fPFG = false -> fs fOQ = false -> fs fOO = false -> fs fcOQ = false ->
  agree fs s (place_orders2 NW dis err s n).
Proof. intros F1 F2 F3 F4 F5. unfold place_orders2. destruct (disk2 NW dis n dOP); [apply agree_refl|].
  apply fold_left_inv; [|apply agree_refl]. intros a k _ Ha. unfold place_prod2.
  apply fold_left_inv.
  - intros b rb _ Hb. unfold place_rm2. apply fold_left_inv; [|exact Hb]. intros c x _ Hc. unfold place_one2.
    apply agree_addq; [exact F5|]. apply agree_addq; [exact F4|]. apply agree_addq; [exact F3|]. destruct (fst x); apply agree_sl; exact Hc.
  - apply agree_addq; [exact F2|]. apply agree_addq; [exact F1|]. exact Ha. Qed.
Lemma agree_recv_orders fs s n : fs fIO = false -> fs fDC = false -> fs fPIO = false -> fs fPEND = false -> fs fcIO = false ->
  agree fs s (recv_orders2 NW s n).
Proof. intros F1 F2 F3 F4 F5. unfold recv_orders2, recv_orders_prod. apply fold_left_inv; [|apply agree_refl]. intros a k _ Ha.
  apply fold_left_inv; [|exact Ha]. intros b c _ Hb. unfold recv_order_one2.
  apply agree_addq; [exact F5|]. apply agree_addq; [exact F4|]. apply agree_addq; [exact F3|]. apply agree_addq; [exact F2|]. apply agree_sl. apply agree_sq; [exact F1|exact Hb]. Qed.
Lemma agree_recv_ship fs s n : fs fIS = false -> fs fRM = false -> fs fOO = false -> fs fIDI = false -> fs fcIS = false ->
  agree fs s (recv_ship2 NW dis s n).
Proof. intros F1 F2 F3 F4 F5. unfold recv_ship2, recv_ship_rm. apply fold_left_inv; [|apply agree_refl]. intros a r _ Ha.
  apply fold_left_inv; [|exact Ha]. intros b p _ Hb. unfold recv_ship_one2.
  apply agree_addq; [exact F5|]. apply agree_sq; [exact F4|]. apply agree_addq; [exact F3|]. apply agree_addq; [exact F2|]. apply agree_sl. apply agree_sq; [exact F1|exact Hb]. Qed.
Lemma agree_produce fs s n mk l : fs fRM = false -> fs fIL = false -> fs fPFG = false -> fs fCP = false ->
  agree fs s (fold_left (produce_one2 NW n mk) l s).
Proof. intros F1 F2 F3 F4. apply fold_left_inv; [|apply agree_refl]. intros a k _ Ha. unfold produce_one2.
  apply agree_addq; [exact F4|]. apply agree_addq; [exact F3|]. apply agree_addq; [exact F2|].
  apply fold_left_inv; [|exact Ha]. intros b rb _ Hb. apply agree_addq; [exact F1|exact Hb]. Qed.
Lemma agree_serve fs s n k il0 made : fs fOS = false -> fs fDMFS = false -> fs fDMC = false -> fs fIL = false -> fs fBO = false -> fs fODI = false ->
  fs fPIO = false -> fs fPEND = false -> fs fSRV = false -> fs fcOS = false -> agree fs s (serve2 NW dis s n k il0 made).
Proof. intros F1 F2 F3 F4 F5 F6 F7 F8 F9 F10. unfold serve2.
  apply (fold_left_inv (fun a => agree fs s (fst a))); [|cbn [fst]; apply agree_sq; [exact F2|apply agree_refl]].
  intros [a oh] c _ Ha. cbn [fst] in Ha. rewrite serve_one2_eq.
  assert (A : agree fs s (serve_q a n k c (serve_o NW dis a n k c oh) (gq2 a (fPIO, n, c, k)))).
  { unfold serve_q. apply agree_addq; [exact F10|]. apply agree_addq; [exact F9|]. apply agree_addq; [exact F8|]. apply agree_sq; [exact F7|]. apply agree_sq; [exact F6|].
    apply agree_sq; [exact F5|]. apply agree_addq; [exact F4|]. apply agree_addq; [exact F3|]. apply agree_addq; [exact F2|]. apply agree_sq; [exact F1|exact Ha]. }
  destruct c; cbn [fst]; [exact A|apply agree_sl; exact A]. Qed.
Lemma agree_serves fs s n (il0 mk : N -> Q) l : fs fOS = false -> fs fDMFS = false -> fs fDMC = false -> fs fIL = false -> fs fBO = false -> fs fODI = false ->
  fs fPIO = false -> fs fPEND = false -> fs fSRV = false -> fs fcOS = false ->
  agree fs s (fold_left (fun s k => serve2 NW dis s n k (il0 k) (mk k)) l s).
Proof. intros. apply fold_left_inv; [|apply agree_refl]. intros a k _ Ha. apply (agree_trans fs s a _ Ha). apply agree_serve; assumption. Qed.
Lemma agree_fill_rate fs s n : fs fFR = false -> agree fs s (fill_rate2 NW s n).
Proof. intros F. unfold fill_rate2. apply fold_left_inv; [|apply agree_refl]. intros a k _ Ha. unfold fill_rate_one2. apply agree_sq; [exact F|exact Ha]. Qed.
Lemma agree_next_nodes fs s l : fs fOQ = false -> fs fIS = false -> fs fLOST = false -> fs fIO = false -> fs fOS = false -> fs fOQFG = false -> fs fDMFS = false -> fs fFR = false ->
  agree fs s (fold_left (next_node2 NW dis) l s).
Proof. intros F1 F2 F3 F4 F5 F6 F7 F8. apply fold_left_inv; [|apply agree_refl]. intros a n _ Ha. unfold next_node2.
  apply fold_left_inv.
  { intros b k _ Hb. unfold next_prod. apply agree_sq; [exact F8|]. apply agree_sq; [exact F7|]. apply agree_sq; [exact F6|]. apply agree_sl.
    apply fold_left_inv; [|exact Hb]. intros c x _ Hc. unfold next_cust. apply agree_sq; [exact F5|]. apply agree_sq; [exact F4|]. apply agree_sl. apply agree_addq; [exact F3|exact Hc]. }
  apply fold_left_inv; [|exact Ha]. intros b r _ Hb. apply fold_left_inv; [|exact Hb]. intros c p _ Hc. unfold next_sup.
  apply agree_sq; [exact F1|]. apply agree_sq; [exact F2|]. apply agree_sl. destruct (disk2 NW dis n dTP); [|apply agree_sl]; exact Hc. Qed.

Lemma RMB2_orders_action s n : RMB2 s -> RMB2 (orders_action2 NW dis dem err s n).
Proof. intros H. unfold orders_action2. apply (RMB2_agree (recv_orders2 NW (gen_demand2 NW dem s n) n)); [apply agree_place_orders; reflexivity|].
  apply (RMB2_agree (gen_demand2 NW dem s n)); [apply agree_recv_orders; reflexivity|].
  apply (RMB2_agree s); [apply agree_gen_demand|exact H]. Qed.

Lemma RMB2_recv_ship_one n r s p : NoDup (m_sups (RC n r)) -> In p (m_sups (RC n r)) -> RMB2 s -> RMB2 (recv_ship_one2 NW dis n r s p).
Proof. intros ND Hp H n' r'. specialize (H n' r'). unfold recv_ship_one2.
  set (is_ := if disk2 NW dis n dRP then 0 else _). set (s' := addq2 _ (fcIS, n, p, r) is_).
  assert (E1 : forall k', gq2 s' (fCP, n', Ext, k') = gq2 s (fCP, n', Ext, k')) by (intros k'; unfold s'; gs2; reflexivity).
  assert (EC : CPsum s' n' r' == CPsum s n' r') by (unfold CPsum; apply qsumf_ext; intros x _; rewrite E1; reflexivity).
  rewrite EC. unfold ISsum in *.
  assert (EO : forall q, (n', r') <> (n, r) -> gq2 s' (fcIS, n', q, r') = gq2 s (fcIS, n', q, r')).
  { intros q Hne. unfold s'. rewrite gq2_addq2_other by (intro E; inversion E; subst; apply Hne; reflexivity). gs2. reflexivity. }
  assert (ER : (n', r') <> (n, r) -> gq2 s' (fRM, n', Ext, r') = gq2 s (fRM, n', Ext, r')).
  { intros Hne. unfold s'. gs2. reflexivity. }
  destruct (N.eq_dec n' n) as [En|Nn]; [subst n'; destruct (N.eq_dec r' r) as [Er|Nr]; [subst r'|]|].
  - rewrite (qsumf_update nb_eq_dec (fun q => gq2 s (fcIS, n, q, r)) (fun q => gq2 s' (fcIS, n, q, r)) (m_sups (RC n r)) p ND).
    2:{ intros q Hq. unfold s'. rewrite gq2_addq2_other by (intro E; inversion E; subst; apply Hq; reflexivity). gs2. reflexivity. }
    destruct (in_dec nb_eq_dec p (m_sups (RC n r))) as [_|N']; [|contradiction].
    replace (gq2 s' (fcIS, n, p, r)) with (gq2 s (fcIS, n, p, r) + is_) by (unfold s'; gs2; reflexivity).
    replace (gq2 s' (fRM, n, Ext, r)) with (gq2 s (fRM, n, Ext, r) + is_) by (unfold s'; gs2; reflexivity). lra.
  - assert (Hne : (n, r') <> (n, r)) by (intro E; inversion E; subst; apply Nr; reflexivity).
    rewrite ER by exact Hne. rewrite (qsumf_ext (fun q => gq2 s (fcIS, n, q, r'))); [exact H|]. intros q _. rewrite EO by exact Hne. reflexivity.
  - assert (Hne : (n', r') <> (n, r)) by (intro E; inversion E; subst; apply Nn; reflexivity).
    rewrite ER by exact Hne. rewrite (qsumf_ext (fun q => gq2 s (fcIS, n', q, r'))); [exact H|]. intros q _. rewrite EO by exact Hne. reflexivity. Qed.
Lemma RMB2_recv_ship s n : wfB_node2 NW n -> RMB2 s -> RMB2 (recv_ship2 NW dis s n).
Proof. intros W H. unfold recv_ship2, recv_ship_rm. apply fold_left_inv; [|exact H]. intros a r Hr Ha.
  apply fold_left_inv; [|exact Ha]. intros b p Hp Hb. apply RMB2_recv_ship_one; [apply (w_sups NW n W r Hr)|exact Hp|exact Hb]. Qed.

(* consuming the raw materials of one product: a fold over its bill of materials (duplicate-free raw-material ids) *)
Lemma aget_notin (l : list (N * Q)) a : ~ In a (map fst l) -> aget N.eq_dec 0 l a = 0.
Proof. induction l as [|[b v] r IH]; cbn [aget map fst]; intros H; [reflexivity|].
  destruct (N.eq_dec a b) as [E|NE]; [exfalso; apply H; left; symmetry; exact E|]. apply IH. intro X. apply H. right. exact X. Qed.
Lemma bom_fold n made : forall l s, NoDup (map fst l) ->
  let s' := fold_left (fun s (rb : N * Q) => addq2 s (fRM, n, Ext, fst rb) (- (made * snd rb))) l s in
  (forall K, (forall r, K <> (fRM, n, Ext, r)) -> gq2 s' K = gq2 s K) /\
  (forall r, gq2 s' (fRM, n, Ext, r) == gq2 s (fRM, n, Ext, r) - made * aget N.eq_dec 0 l r) /\
  (forall K, gl2 s' K = gl2 s K).
Proof.
  induction l as [|[a v] l IH]; intros s ND; cbn [fold_left].
  - split; [reflexivity|]. split; [intros r; cbn [aget]; lra|reflexivity].
  - cbn [map fst] in ND. inversion ND as [|? ? Hna Hr]; subst. cbn [fst snd].
    destruct (IH (addq2 s (fRM, n, Ext, a) (- (made * v))) Hr) as (F & U & L). split; [|split].
    + intros K HK. rewrite F by exact HK. apply gq2_addq2_other. apply HK.
    + intros r. rewrite U. cbn [aget]. destruct (N.eq_dec r a) as [E|NE].
      * subst r. rewrite gq2_addq2_same. rewrite (aget_notin l a Hna). lra.
      * rewrite gq2_addq2_other by (intro E; inversion E; subst; apply NE; reflexivity). lra.
    + intros K. rewrite L. apply gl2_addq2.
Qed.

Lemma RMB2_produce_one n mk s k : NoDup (n_prods (C n)) -> In k (n_prods (C n)) -> NoDup (map fst (k_bom (PC n k))) ->
  RMB2 s -> RMB2 (produce_one2 NW n mk s k).
Proof. intros NDp Hk NDb H n' r'. specialize (H n' r'). unfold produce_one2.
  destruct (bom_fold n (mk k) (k_bom (PC n k)) s NDb) as (F & U & L).
  set (s1 := fold_left _ (k_bom (PC n k)) s) in *. set (made := mk k) in *.
  set (s' := addq2 _ (fCP, n, Ext, k) made).
  assert (EI : ISsum s' n' r' == ISsum s n' r').
  { unfold ISsum. apply qsumf_ext. intros q _. unfold s'. gs2. rewrite F by (intros r E; discriminate). reflexivity. }
  rewrite EI. clear EI.
  assert (ER : gq2 s' (fRM, n', Ext, r') = gq2 s1 (fRM, n', Ext, r')) by (unfold s'; gs2; reflexivity). rewrite ER. clear ER.
  destruct (N.eq_dec n' n) as [En|Nn]; [subst n'|].
  - rewrite U. unfold CPsum in *.
    rewrite (qsumf_update N.eq_dec (fun x => nbom (PC n x) r' * gq2 s (fCP, n, Ext, x)) (fun x => nbom (PC n x) r' * gq2 s' (fCP, n, Ext, x)) (n_prods (C n)) k NDp).
    2:{ intros x Hx. unfold s'. rewrite gq2_addq2_other by (intro E; inversion E; subst; apply Hx; reflexivity). gs2. rewrite F by (intros r E; discriminate). reflexivity. }
    destruct (in_dec N.eq_dec k (n_prods (C n))) as [_|N']; [|contradiction].
    replace (gq2 s' (fCP, n, Ext, k)) with (gq2 s (fCP, n, Ext, k) + made) by (unfold s'; gs2; rewrite F by (intros r E; discriminate); reflexivity).
    unfold nbom at 2 3. fold (nbom (PC n k) r'). unfold nbom in *. lra.
  - rewrite F by (intros r E; inversion E; subst; apply Nn; reflexivity).
    assert (EC : CPsum s' n' r' == CPsum s n' r'); [|rewrite EC; exact H].
    unfold CPsum. apply qsumf_ext. intros x _. unfold s'. rewrite gq2_addq2_other by (intro E; inversion E; subst; apply Nn; reflexivity). gs2.
    rewrite F by (intros r E; discriminate). reflexivity. Qed.

Lemma RMB2_ships_action s n : wfB_node2 NW n -> RMB2 s -> RMB2 (ships_action2 NW dis s n).
Proof. intros W H. unfold ships_action2.
  apply (RMB2_agree _ _ (agree_fill_rate rmf _ n eq_refl)).
  apply (RMB2_agree _ _ (agree_serves rmf _ n _ _ _ eq_refl eq_refl eq_refl eq_refl eq_refl eq_refl eq_refl eq_refl eq_refl eq_refl)).
  unfold produce2. apply fold_left_inv; [|apply RMB2_recv_ship; assumption].
  intros a k Hk Ha. apply RMB2_produce_one; [apply (w_prods NW n W)|exact Hk|apply (w_bomk NW n W k Hk)|exact Ha]. Qed.
Lemma RMB2_run_actions s : wfB_net2 NW -> RMB2 s -> RMB2 (run_actions2 NW dis dem err s).
Proof. intros W H. unfold run_actions2.
  apply fold_left_inv; [intros a x Hx Ha; apply RMB2_ships_action; [apply (w_node NW W x (w_ship_in NW W x Hx))|exact Ha]|].
  apply fold_left_inv; [intros a x _ Ha; apply RMB2_orders_action; exact Ha|exact H]. Qed.
Lemma RMB2_next_period s : RMB2 s -> RMB2 (next_period2 NW dis s).
Proof. intros H. unfold next_period2. apply RMB2_norm. apply (RMB2_agree s); [apply agree_next_nodes; reflexivity|exact H]. Qed.

(* ---------- pending orders of a product ---------- *)
Definition PIOsum (s : st2) (n k : N) : Q := qsumf (fun c => gq2 s (fPIO, n, c, k)) (k_custs (PC n k)).
Definition PD2 (s : st2) : Prop := forall n k, gq2 s (fPEND, n, Ext, k) == PIOsum s n k.
Definition pdf (f : fld) : bool := match f with fPEND | fPIO => true | _ => false end.
Lemma PD2_agree s s' : agree pdf s s' -> PD2 s -> PD2 s'.
Proof. intros A H n k. unfold PIOsum. rewrite A by reflexivity.
  rewrite (qsumf_ext (fun c => gq2 s (fPIO, n, c, k))) by (intros x _; rewrite A by reflexivity; reflexivity). apply H. Qed.
Lemma PD2_norm s : PD2 s -> PD2 (norm_st s).
Proof. intros H n k. unfold PIOsum. rewrite gq2_norm_eq.
  rewrite (qsumf_ext (fun c => gq2 s (fPIO, n, c, k))) by (intros x _; rewrite gq2_norm_eq; reflexivity). apply H. Qed.

(* an action that adds [x] to the pending total and [y] (replacing) the pending order of customer c of (n, k) *)
Lemma PD2_step s s' n k c d : NoDup (k_custs (PC n k)) -> In c (k_custs (PC n k)) ->
  (forall n' c' k', (n', c', k') <> (n, c, k) -> gq2 s' (fPIO, n', c', k') = gq2 s (fPIO, n', c', k')) ->
  gq2 s' (fPIO, n, c, k) == gq2 s (fPIO, n, c, k) + d ->
  (forall n' k', (n', k') <> (n, k) -> gq2 s' (fPEND, n', Ext, k') = gq2 s (fPEND, n', Ext, k')) ->
  gq2 s' (fPEND, n, Ext, k) == gq2 s (fPEND, n, Ext, k) + d ->
  PD2 s -> PD2 s'.
Proof. intros ND Hc P1 P2 E1 E2 H n' k'. specialize (H n' k'). unfold PIOsum in *.
  destruct (N.eq_dec n' n) as [En|Nn]; [subst n'; destruct (N.eq_dec k' k) as [Ek|Nk]; [subst k'|]|].
  - rewrite (qsumf_update nb_eq_dec (fun y => gq2 s (fPIO, n, y, k)) (fun y => gq2 s' (fPIO, n, y, k)) (k_custs (PC n k)) c ND).
    2:{ intros y Hy. apply P1. intro E. inversion E; subst. apply Hy. reflexivity. }
    destruct (in_dec nb_eq_dec c (k_custs (PC n k))) as [_|N']; [|contradiction]. rewrite E2, P2. lra.
  - rewrite E1 by (intro E; inversion E; subst; apply Nk; reflexivity).
    rewrite (qsumf_ext (fun y => gq2 s (fPIO, n, y, k'))); [exact H|]. intros y _. rewrite P1; [reflexivity|]. intro E. inversion E; subst. apply Nk. reflexivity.
  - rewrite E1 by (intro E; inversion E; subst; apply Nn; reflexivity).
    rewrite (qsumf_ext (fun y => gq2 s (fPIO, n', y, k'))); [exact H|]. intros y _. rewrite P1; [reflexivity|]. intro E. inversion E; subst. apply Nn. reflexivity. Qed.

Lemma PD2_recv_order_one n k s c : NoDup (k_custs (PC n k)) -> In c (k_custs (PC n k)) -> PD2 s -> PD2 (recv_order_one2 n k s c).
Proof. intros ND Hc. apply (PD2_step _ _ n k c (hd0 (gl2 s (fOP, n, c, k))) ND Hc); unfold recv_order_one2.
  - intros n' c' k' Hne. gs2. reflexivity.
  - gs2. reflexivity.
  - intros n' k' Hne. gs2. reflexivity.
  - gs2. reflexivity. Qed.
Lemma PD2_orders_action s n : wfB_node2 NW n -> PD2 s -> PD2 (orders_action2 NW dis dem err s n).
Proof. intros W H. unfold orders_action2. apply (PD2_agree (recv_orders2 NW (gen_demand2 NW dem s n) n)); [apply agree_place_orders; reflexivity|].
  unfold recv_orders2, recv_orders_prod. apply fold_left_inv; [|apply (PD2_agree s); [apply agree_gen_demand|exact H]].
  intros a k Hk Ha. apply fold_left_inv; [|exact Ha]. intros b c Hc Hb. apply PD2_recv_order_one; [apply (w_custs NW n W k Hk)|exact Hc|exact Hb]. Qed.

Lemma PD2_serve_one n k acc c : NoDup (k_custs (PC n k)) -> In c (k_custs (PC n k)) -> PD2 (fst acc) -> PD2 (fst (serve_one2 NW dis n k acc c)).
Proof. destruct acc as [s oh]. cbn [fst]. intros ND Hc H. rewrite serve_one2_eq.
  set (o := serve_o NW dis s n k c oh).
  assert (P : PD2 (serve_q s n k c o (gq2 s (fPIO, n, c, k)))).
  { revert H. apply (PD2_step _ _ n k c (- gq2 s (fPIO, n, c, k)) ND Hc); unfold serve_q.
    - intros n' c' k' Hne. gs2. reflexivity.
    - gs2. lra.
    - intros n' k' Hne. gs2. reflexivity.
    - gs2. reflexivity. }
  destruct c; cbn [fst]; [exact P|]. apply (PD2_agree _ _ (agree_sl pdf _ _ _ _ (agree_refl pdf _))). exact P. Qed.
Lemma PD2_serve s n k il0 made : NoDup (k_custs (PC n k)) -> PD2 s -> PD2 (serve2 NW dis s n k il0 made).
Proof. intros ND H. unfold serve2. apply (fold_left_inv (fun a => PD2 (fst a))).
  - intros a c Hc Ha. apply PD2_serve_one; assumption.
  - cbn [fst]. apply (PD2_agree s); [apply agree_sq; [reflexivity|apply agree_refl]|exact H]. Qed.
Lemma PD2_ships_action s n : wfB_node2 NW n -> PD2 s -> PD2 (ships_action2 NW dis s n).
Proof. intros W H. unfold ships_action2.
  apply (PD2_agree _ _ (agree_fill_rate pdf _ n eq_refl)).
  apply fold_left_inv.
  - intros a k Hk Ha. apply PD2_serve; [apply (w_custs NW n W k Hk)|exact Ha].
  - unfold produce2. apply (PD2_agree _ _ (agree_produce pdf _ n _ _ eq_refl eq_refl eq_refl eq_refl)).
    apply (PD2_agree s); [apply agree_recv_ship; reflexivity|exact H]. Qed.
Lemma PD2_run_actions s : wfB_net2 NW -> PD2 s -> PD2 (run_actions2 NW dis dem err s).
Proof. intros W H. unfold run_actions2.
  apply fold_left_inv; [intros a x Hx Ha; apply PD2_ships_action; [apply (w_node NW W x (w_ship_in NW W x Hx))|exact Ha]|].
  apply fold_left_inv; [intros a x Hx Ha; apply PD2_orders_action; [apply (w_node NW W x (w_ord_in NW W x Hx))|exact Ha]|exact H]. Qed.
Lemma PD2_next_period s : PD2 s -> PD2 (next_period2 NW dis s).
Proof. intros H. unfold next_period2. apply PD2_norm. apply (PD2_agree s); [apply agree_next_nodes; reflexivity|exact H]. Qed.
End Book.
