(* Stage-2 simulator invariants (group B: conservation), part 0: tactics for the 4-component keys of State2.v,
   generic fold / list lemmas, the local well-formedness hypotheses, and the auxiliary non-negativity invariant NNB2
   (only what the conservation proofs need: the shipping arithmetic [serve_calc_spec] is an identity only for
   non-negative on-hand / backorder / inbound-order / held quantities). *)
From SV Require Import Base.Qx.
From SV Require Import Sim.Model Sim.StateLemmas Sim.Inv_base Sim.Inv_node Sim.Inv_bound.
From SV Require Import Sim2.State2 Sim2.Model2.

(* ---------- read-after-write tactics ---------- *)
Lemma key2_neq_fld (f f' : fld) (n n' : N) (x x' : nb) (i i' : N) : f <> f' -> (f, n, x, i) <> (f', n', x', i').
Proof. intros H E. inversion E. contradiction. Qed.
Ltac key_neq2 := first [ apply key2_neq_fld; discriminate
                       | let E := fresh "E" in intro E; inversion E; subst; try congruence; try contradiction; try tauto ].
Ltac gs2_1 :=
  first [ rewrite gq2_sq2_same | rewrite gq2_addq2_same | rewrite gl2_sl2_same | rewrite gq2_sl2 | rewrite gl2_sq2 | rewrite gl2_addq2
        | rewrite gq2_sq2_other by key_neq2 | rewrite gq2_addq2_other by key_neq2 | rewrite gl2_sl2_other by key_neq2 ].
Ltac gs2 := repeat gs2_1.
Ltac kcase2 k k' := destruct (key2_eq_dec k k') as [?KE|?KN]; [try (inversion KE; subst); try congruence|].
Ltac gsplit2 :=
  repeat (gs2; match goal with
    | |- context [gq2 (sq2 _ ?k' _) ?k] => kcase2 k k'
    | |- context [gq2 (addq2 _ ?k' _) ?k] => kcase2 k k'
    | |- context [gl2 (sl2 _ ?k' _) ?k] => kcase2 k k'
    end); gs2.

(* ---------- folds ---------- *)
Lemma fold_establish2 {S A} (eqd : forall a b : A, {a = b} + {a <> b}) (f : S -> A -> S) (Q : A -> S -> Prop) :
  (forall s a, Q a (f s a)) -> (forall s a b, a <> b -> Q a s -> Q a (f s b)) ->
  forall l s a, In a l -> Q a (fold_left f l s).
Proof. intros Hset Hkeep. induction l as [|b r IH]; intros s a Hin; [destruct Hin|]. cbn [fold_left].
  destruct (in_dec eqd a r) as [Hr|Hnr]; [apply IH; exact Hr|].
  destruct Hin as [E|Hr]; [subst b|contradiction].
  apply fold_left_inv; [|apply Hset]. intros s' x Hx Hq. apply Hkeep; [|exact Hq]. intro E. subst. contradiction. Qed.
(* a property established by the step for [a] and kept by every step *)
Lemma fold_stable {S A} (f : S -> A -> S) (Q : A -> S -> Prop) :
  (forall s a, Q a (f s a)) -> (forall s a b, Q a s -> Q a (f s b)) ->
  forall l s a, In a l -> Q a (fold_left f l s).
Proof. intros Hset Hkeep. induction l as [|b r IH]; intros s a Hin; [destruct Hin|]. cbn [fold_left].
  destruct Hin as [E|Hr].
  - subst b. apply fold_left_inv; [|apply Hset]. intros s' x _ Hq. apply Hkeep. exact Hq.
  - apply IH. exact Hr. Qed.

(* ---------- lists ---------- *)
Lemma qsum_map_Qred l : qsum (map Qred l) == qsum l.
Proof. induction l as [|a r IH]; cbn [map qsum]; [reflexivity|]. rewrite IH, Qred_correct. reflexivity. Qed.
Lemma hd0_map_Qred l : hd0 (map Qred l) == hd0 l.
Proof. destruct l; cbn [map hd0]; [reflexivity|apply Qred_correct]. Qed.
Lemma nonneg_map_Qred l : nonneg_l l -> nonneg_l (map Qred l).
Proof. unfold nonneg_l. induction 1 as [|a r Ha Hr IH]; cbn [map]; constructor; [rewrite Qred_correct; exact Ha|exact IH]. Qed.
Lemma nonneg_firstn k l : nonneg_l l -> nonneg_l (firstn k l).
Proof. unfold nonneg_l. revert l. induction k as [|k IH]; intros l H; cbn [firstn]; [constructor|].
  destruct l as [|a r]; [constructor|]. inversion H; subst. constructor; [assumption|apply IH; assumption]. Qed.
Lemma nonneg_nth l j : nonneg_l l -> 0 <= nth j l 0.
Proof. unfold nonneg_l. intros H. destruct (Nat.lt_ge_cases j (length l)) as [L|G].
  - rewrite Forall_forall in H. apply H. apply nth_In. exact L.
  - rewrite nth_overflow by exact G. lra. Qed.
Lemma nonneg_repeat2 v k : 0 <= v -> nonneg_l (repeat v k).
Proof. intros H. induction k; cbn [repeat]; constructor; assumption. Qed.
Lemma qsumf_all_zero2 {A} (g : A -> Q) l : (forall x, In x l -> g x == 0) -> qsumf g l == 0.
Proof. unfold qsumf. induction l as [|a r IH]; intros H; cbn [map qsum]; [lra|].
  rewrite (H a) by (left; reflexivity). rewrite IH; [lra|]. intros x Hx. apply H. right. exact Hx. Qed.

(* ---------- local well-formedness (everything is relative to the nodes of the network) ---------- *)
Definition polB_ok2 (p : policy) (cp : option Q) : Prop :=
  match p with SS rp lv => rp <= lv | RQ _ q => 0 <= q | FQ q => 0 <= q | _ => True end
  /\ match cp with Some k => 0 <= k | None => True end.
Lemma rule_nonneg2 p cp ip : polB_ok2 p cp -> 0 <= rule p ip.
Proof. intros [H _]. destruct p as [lv|rp lv|rp q|q|lv]; cbn [rule] in *.
  - qcases; lra.
  - destruct (qleb_spec ip rp) as [[? E]|[? E]]; rewrite E; lra.
  - destruct (qleb_spec ip rp) as [[? E]|[? E]]; rewrite E; lra.
  - exact H.
  - qcases; lra. Qed.
Lemma capq_nonneg p cp q : polB_ok2 p cp -> 0 <= q -> 0 <= capq cp q.
Proof. intros [_ H] Hq. unfold capq. pose proof BIG_pos. destruct cp; qcases; lra. Qed.

Section WF.
Variable NW : net2.
Notation C := (cfg2 NW).
Notation PC := (PC NW).
Notation RC := (RC NW).

(* a supply relation as seen by the customer node n: supplier p (node or external) of raw material r *)
Definition sup_edge (n : N) (p : nb) (r : N) : Prop := In n (nodes2 NW) /\ In r (n_rms (C n)) /\ In p (m_sups (RC n r)).
(* the same relation as seen by the supplier node p: customer c of product k *)
Definition cus_edge (p : N) (c : nb) (k : N) : Prop := In p (nodes2 NW) /\ In k (n_prods (C p)) /\ In c (k_custs (PC p k)).

Record wfB_node2 (n : N) : Prop := {
  w_prods : NoDup (n_prods (C n));
  w_custs : forall k, In k (n_prods (C n)) -> NoDup (k_custs (PC n k));
  w_bomk : forall k, In k (n_prods (C n)) -> NoDup (map fst (k_bom (PC n k)));
  w_bomv : forall k rb, In k (n_prods (C n)) -> In rb (k_bom (PC n k)) -> 0 <= snd rb;
  w_bomr : forall k rb, In k (n_prods (C n)) -> In rb (k_bom (PC n k)) -> In (fst rb) (n_rms (C n));
  w_pol : forall k, In k (n_prods (C n)) -> polB_ok2 (k_pol (PC n k)) (k_cap (PC n k));
  w_sups : forall r, In r (n_rms (C n)) -> NoDup (m_sups (RC n r));
  w_init : 0 <= n_init_orders (C n) /\ 0 <= n_init_ships (C n);
  (* a customer that is a node is a node of the network (its initial orders fill the order pipeline) *)
  w_cnode : forall k c, In k (n_prods (C n)) -> In (Nd c) (k_custs (PC n k)) -> In c (nodes2 NW);
  (* every node supplier of a raw material is a predecessor, is a node of the network, handles the raw material as one of
     its products and lists n among that product's customers *)
  w_edge : forall r p, In r (n_rms (C n)) -> In (Nd p) (m_sups (RC n r)) ->
             In p (n_preds (C n)) /\ In p (nodes2 NW) /\ In r (n_prods (C p)) /\ In (Nd n) (k_custs (PC p r)) }.

Record wfB_net2 : Prop := {
  w_node : forall n, In n (nodes2 NW) -> wfB_node2 n;
  w_nodup : NoDup (nodes2 NW);
  w_topo : topo (skel NW) (order_visit2 NW);
  w_ord : forall n, In n (nodes2 NW) -> In n (order_visit2 NW);
  w_ship : forall n, In n (nodes2 NW) -> In n (ship_visit2 NW);
  w_ord_in : forall n, In n (order_visit2 NW) -> In n (nodes2 NW);
  w_ship_in : forall n, In n (ship_visit2 NW) -> In n (nodes2 NW) }.

Lemma sup_cus_edge n p r : wfB_net2 -> sup_edge n (Nd p) r -> cus_edge p (Nd n) r.
Proof. intros W (Hn & Hr & Hp). destruct (w_edge n (w_node W n Hn) r p Hr Hp) as (_ & A & B & D). repeat split; assumption. Qed.
End WF.

(* ---------- non-negativity (auxiliary) ---------- *)
Definition nnfB2 (f : fld) : bool :=
  match f with
  | fBO | fODI | fIDI | fDC | fIO | fOS | fIS | fOQ | fOQFG
  | fPIO | fcIO | fcOS | fcIS | fcOQ | fCP | fSRV | fLOST => true
  | _ => false end.
Definition NNB2 (s : st2) : Prop :=
  (forall f n x i, nnfB2 f = true -> 0 <= gq2 s (f, n, x, i)) /\ (forall k, nonneg_l (gl2 s k)).

Lemma NNB2_sq s f n x i v : NNB2 s -> (nnfB2 f = true -> 0 <= v) -> NNB2 (sq2 s (f, n, x, i) v).
Proof. intros [H1 H2] Hv. split.
  - intros f' n' x' i' Hf. kcase2 (f', n', x', i') (f, n, x, i); [gs2; auto | rewrite gq2_sq2_other by assumption; auto].
  - intros k. gs2. apply H2. Qed.
Lemma NNB2_addq s f n x i v : NNB2 s -> (nnfB2 f = true -> 0 <= gq2 s (f, n, x, i) + v) -> NNB2 (addq2 s (f, n, x, i) v).
Proof. intros [H1 H2] Hv. split.
  - intros f' n' x' i' Hf. kcase2 (f', n', x', i') (f, n, x, i); [gs2; auto | rewrite gq2_addq2_other by assumption; auto].
  - intros k. gs2. apply H2. Qed.
Lemma NNB2_addq_pos s f n x i v : NNB2 s -> 0 <= v -> NNB2 (addq2 s (f, n, x, i) v).
Proof. intros H Hv. apply NNB2_addq; [exact H|]. intros Hf. destruct H as [H1 _]. specialize (H1 f n x i Hf). lra. Qed.
Lemma NNB2_sl s k v : NNB2 s -> nonneg_l v -> NNB2 (sl2 s k v).
Proof. intros [H1 H2] Hv. split.
  - intros f n x i Hf. gs2. auto.
  - intros k'. kcase2 k' k; [gs2; exact Hv | rewrite gl2_sl2_other by assumption; apply H2]. Qed.
Lemma NNB2_q s f n x i : NNB2 s -> nnfB2 f = true -> 0 <= gq2 s (f, n, x, i).
Proof. intros [H _]. apply H. Qed.
Lemma NNB2_l s k : NNB2 s -> nonneg_l (gl2 s k).
Proof. intros [_ H]. apply H. Qed.
Lemma NNB2_norm s : NNB2 s -> NNB2 (norm_st s).
Proof. intros [H1 H2]. split.
  - intros f n x i Hf. rewrite gq2_norm_eq. apply H1. exact Hf.
  - intros k. rewrite gl2_norm. apply nonneg_map_Qred. apply H2. Qed.

Section NNPres.
Variable (NW : net2) (dis : N -> bool) (dem : N -> N -> Q) (err : N -> N -> Q).
Hypothesis dem_pos : forall n k, 0 <= dem n k.
Notation C := (cfg2 NW).
Notation PC := (PC NW).
Notation RC := (RC NW).

Lemma NNB2_gen_demand s n : NNB2 s -> NNB2 (gen_demand2 NW dem s n).
Proof. intros H. unfold gen_demand2. apply fold_left_inv; [|exact H]. intros a k _ Ha.
  destruct (has_ext _); [|exact Ha]. apply NNB2_sl; [exact Ha|]. constructor; [apply dem_pos|constructor]. Qed.

Lemma NNB2_recv_order_one n k s c : NNB2 s -> NNB2 (recv_order_one2 n k s c).
Proof. intros H. unfold recv_order_one2.
  assert (Hx : 0 <= hd0 (gl2 s (fOP, n, c, k))) by (apply hd0_nonneg, NNB2_l, H).
  apply NNB2_addq_pos; [|exact Hx]. apply NNB2_addq; [|intros Hf; discriminate]. apply NNB2_addq_pos; [|exact Hx]. apply NNB2_addq_pos; [|exact Hx].
  apply NNB2_sl; [|apply Forall_nonneg_zero0, NNB2_l, H]. apply NNB2_sq; [exact H|intros _; exact Hx]. Qed.
Lemma NNB2_recv_orders s n : NNB2 s -> NNB2 (recv_orders2 NW s n).
Proof. intros H. unfold recv_orders2, recv_orders_prod. apply fold_left_inv; [|exact H]. intros a k _ Ha.
  apply fold_left_inv; [|exact Ha]. intros b c _ Hb. apply NNB2_recv_order_one. exact Hb. Qed.

Lemma NNB2_place_one n r s x : 0 <= snd x -> NNB2 s -> NNB2 (place_one2 NW n r s x).
Proof. intros Hq H. unfold place_one2. apply NNB2_addq_pos; [|exact Hq]. apply NNB2_addq; [|intros Hf; discriminate]. apply NNB2_addq_pos; [|exact Hq].
  destruct (fst x) as [|p']; apply NNB2_sl; try exact H; apply Forall_nonneg_add_at; try exact Hq; apply NNB2_l, H. Qed.
Lemma split_order_nonneg q l x : 0 <= q -> In x (split_order q l) -> 0 <= snd x.
Proof. revert q. induction l as [|p r IH]; intros q Hq Hx; cbn [split_order] in Hx; [destruct Hx|].
  destruct Hx as [E|Hx]; [subst; exact Hq|]. apply (IH (q - q)); [lra|exact Hx]. Qed.
Lemma NNB2_place_prod s n k : wfB_node2 NW n -> In k (n_prods (C n)) -> NNB2 s -> NNB2 (place_prod2 NW err s n k).
Proof. intros W Hk H. unfold place_prod2.
  assert (Hq : 0 <= order_qty2 NW err s n k).
  { unfold order_qty2. rewrite Qred_correct. pose proof (w_pol NW n W k Hk) as P. apply (capq_nonneg _ _ _ P). apply (rule_nonneg2 _ _ _ P). }
  apply fold_left_inv.
  - intros a rb Hrb Ha. unfold place_rm2. apply fold_left_inv; [|exact Ha]. intros b x Hx Hb. apply NNB2_place_one; [|exact Hb].
    apply (split_order_nonneg _ _ _ (Qmult_le_0_compat _ _ Hq (w_bomv NW n W k rb Hk Hrb)) Hx).
  - apply NNB2_addq; [|intros Hf; discriminate]. apply NNB2_addq_pos; assumption. Qed.
Lemma NNB2_orders_action s n : wfB_node2 NW n -> NNB2 s -> NNB2 (orders_action2 NW dis dem err s n).
Proof. intros W H. unfold orders_action2, place_orders2.
  pose proof (NNB2_recv_orders _ n (NNB2_gen_demand s n H)) as H1.
  destruct (disk2 NW dis n dOP); [exact H1|]. apply fold_left_inv; [|exact H1]. intros a k Hk Ha. apply NNB2_place_prod; assumption. Qed.

Lemma NNB2_recv_ship_one n r s p : NNB2 s -> NNB2 (recv_ship_one2 NW dis n r s p).
Proof. intros H. unfold recv_ship_one2.
  assert (Hr : 0 <= hd0 (gl2 s (fSP, n, p, r))) by (apply hd0_nonneg, NNB2_l, H).
  assert (Hi : 0 <= gq2 s (fIDI, n, p, r)) by (apply NNB2_q; [exact H|reflexivity]).
  set (rp := disk2 NW dis n dRP).
  assert (His : 0 <= (if rp then 0 else hd0 (gl2 s (fSP, n, p, r)) + gq2 s (fIDI, n, p, r))) by (destruct rp; lra).
  apply NNB2_addq_pos; [|exact His]. apply NNB2_sq; [|intros _; destruct rp; lra].
  apply NNB2_addq; [|intros Hf; discriminate]. apply NNB2_addq; [|intros Hf; discriminate].
  apply NNB2_sl; [|apply Forall_nonneg_zero0, NNB2_l, H]. apply NNB2_sq; [exact H|intros _; exact His]. Qed.
Lemma NNB2_recv_ship s n : NNB2 s -> NNB2 (recv_ship2 NW dis s n).
Proof. intros H. unfold recv_ship2, recv_ship_rm. apply fold_left_inv; [|exact H]. intros a r _ Ha.
  apply fold_left_inv; [|exact Ha]. intros b p _ Hb. apply NNB2_recv_ship_one. exact Hb. Qed.

(* the quantity to make is non-negative: the order history is *)
Lemma look_nonneg L cur hist : 0 <= cur -> nonneg_l hist -> 0 <= look L cur hist.
Proof. intros Hc Hh. destruct L; cbn [look]; [exact Hc|apply nonneg_nth; exact Hh]. Qed.
Lemma nbom_nonneg pc r : (forall rb, In rb (k_bom pc) -> 0 <= snd rb) -> 0 <= nbom pc r.
Proof. unfold nbom. induction (k_bom pc) as [|[a v] l IH]; intros H; cbn [aget]; [lra|].
  destruct (N.eq_dec r a); [apply (H (a, v)); left; reflexivity|]. apply IH. intros rb Hrb. apply H. right. exact Hrb. Qed.
Lemma Qdiv_nonneg a b : 0 <= a -> 0 <= b -> 0 <= a / b.
Proof. intros Ha Hb. unfold Qdiv. apply Qmult_le_0_compat; [exact Ha|]. apply Qinv_le_0_compat. exact Hb. Qed.
Lemma qnat_nonneg k : 0 <= qnat k.
Proof. unfold qnat. change 0 with (inject_Z 0). rewrite <- Zle_Qle. apply Nat2Z.is_nonneg. Qed.
Lemma share2_nonneg s n r k : wfB_node2 NW n -> In k (n_prods (C n)) -> NNB2 s -> 0 <= share2 NW s n r k.
Proof. intros W Hk H. unfold share2.
  destruct (qltb_spec 0 (gq2 s (fRM, n, Ext, r))) as [[Hp E]|[Hp E]]; rewrite E; [|lra].
  apply Qmult_le_0_compat; [lra|].
  destruct (qeqb _ 0).
  - apply Qdiv_nonneg; [lra|apply qnat_nonneg].
  - match goal with |- context [qltb 0 ?t] => destruct (qltb_spec 0 t) as [[Ht E2]|[Ht E2]]; rewrite E2; [|lra] end.
    apply Qdiv_nonneg; [|lra]. apply Qmult_le_0_compat.
    + unfold hist_fg. apply look_nonneg; [apply NNB2_q; [exact H|reflexivity]|apply NNB2_l; exact H].
    + apply nbom_nonneg. intros rb Hrb. apply (w_bomv NW n W k rb Hk Hrb). Qed.
Lemma made2_nonneg s n k : wfB_node2 NW n -> In k (n_prods (C n)) -> NNB2 s -> 0 <= made2 NW s n k.
Proof. intros W Hk H. unfold made2. rewrite Qred_correct. apply qmin_list_nonneg. apply Forall_forall. intros y Hy.
  apply in_map_iff in Hy. destruct Hy as (rb & E & Hrb). subst y. apply Qdiv_nonneg; [apply share2_nonneg; assumption|apply (w_bomv NW n W k rb Hk Hrb)]. Qed.

Lemma NNB2_produce_one n mk s k : 0 <= mk k -> NNB2 s -> NNB2 (produce_one2 NW n mk s k).
Proof. intros Hm H. unfold produce_one2. apply NNB2_addq_pos; [|exact Hm]. apply NNB2_addq; [|intros Hf; discriminate]. apply NNB2_addq; [|intros Hf; discriminate].
  apply fold_left_inv; [|exact H]. intros a rb _ Ha. apply NNB2_addq; [exact Ha|intros Hf; discriminate]. Qed.

Lemma NNB2_serve_one n k acc c : NNB2 (fst acc) -> 0 <= snd acc -> NNB2 (fst (serve_one2 NW dis n k acc c)) /\ 0 <= snd (serve_one2 NW dis n k acc c).
Proof.
  destruct acc as [s oh]. cbn [fst snd]. intros H Hoh. unfold serve_one2.
  set (sp := match c with Nd c' => disk2 NW dis c' dSP | Ext => false end).
  assert (Hb : 0 <= gq2 s (fBO, n, c, k)) by (apply NNB2_q; [exact H|reflexivity]).
  assert (Hi : 0 <= gq2 s (fPIO, n, c, k)) by (apply NNB2_q; [exact H|reflexivity]).
  assert (Hd : 0 <= gq2 s (fODI, n, c, k)) by (apply NNB2_q; [exact H|reflexivity]).
  pose proof (serve_calc_spec oh _ _ _ sp Hoh Hb Hi Hd) as S. cbv zeta in S.
  set (o := serve_calc oh (gq2 s (fBO, n, c, k)) (gq2 s (fPIO, n, c, k)) (gq2 s (fODI, n, c, k)) sp) in *.
  destruct S as (_ & Poh & _ & Pbo & Pos & Podi & _ & _ & Pdm & _).
  cbv zeta.
  match goal with |- context [addq2 ?t (fcOS, n, c, k) (o_os o)] => set (T := addq2 t (fcOS, n, c, k) (o_os o)) end.
  assert (HN : NNB2 T).
  { unfold T. apply NNB2_addq_pos; [|exact Pos]. apply NNB2_addq_pos; [|exact Hi]. apply NNB2_addq; [|intros Hf; discriminate].
    apply NNB2_sq; [|intros _; lra]. apply NNB2_sq; [|intros _; exact Podi]. apply NNB2_sq; [|intros _; exact Pbo].
    apply NNB2_addq; [|intros Hf; discriminate]. apply NNB2_addq; [|intros Hf; discriminate]. apply NNB2_addq; [|intros Hf; discriminate].
    apply NNB2_sq; [exact H|intros _; exact Pos]. }
  destruct c as [|c']; cbn [fst snd]; (split; [|exact Poh]); [exact HN|].
  apply NNB2_sl; [exact HN|]. apply Forall_nonneg_add_at; [exact Pos|]. apply NNB2_l, HN.
Qed.
Lemma NNB2_serve_fold n k : forall l acc, NNB2 (fst acc) -> 0 <= snd acc ->
  NNB2 (fst (fold_left (serve_one2 NW dis n k) l acc)) /\ 0 <= snd (fold_left (serve_one2 NW dis n k) l acc).
Proof. induction l as [|c r IH]; intros acc H Hoh; cbn [fold_left]; [split; assumption|].
  destruct (NNB2_serve_one n k acc c H Hoh) as [H1 H2]. apply IH; assumption. Qed.
Lemma NNB2_serve s n k il0 made : NNB2 s -> 0 <= made -> NNB2 (serve2 NW dis s n k il0 made).
Proof. intros H Hm. unfold serve2. apply NNB2_serve_fold; cbn [fst snd].
  - apply NNB2_sq; [exact H|intros Hf; discriminate].
  - qcases; lra. Qed.
Lemma NNB2_fill_rate s n : NNB2 s -> NNB2 (fill_rate2 NW s n).
Proof. intros H. unfold fill_rate2. apply fold_left_inv; [|exact H]. intros a k _ Ha. unfold fill_rate_one2. apply NNB2_sq; [exact Ha|intros Hf; discriminate]. Qed.

Lemma NNB2_ships_action s n : wfB_node2 NW n -> NNB2 s -> NNB2 (ships_action2 NW dis s n).
Proof. intros W H. unfold ships_action2.
  pose proof (NNB2_recv_ship s n H) as H1.
  assert (Hm : forall k, In k (n_prods (C n)) -> 0 <= made2 NW (recv_ship2 NW dis s n) n k) by (intros k Hk; apply made2_nonneg; assumption).
  apply NNB2_fill_rate. apply fold_left_inv.
  - intros a k Hk Ha. apply NNB2_serve; [exact Ha|apply Hm; exact Hk].
  - unfold produce2. apply fold_left_inv; [|exact H1]. intros a k Hk Ha. apply NNB2_produce_one; [apply Hm; exact Hk|exact Ha]. Qed.

Lemma NNB2_next_period s : NNB2 s -> NNB2 (next_period2 NW dis s).
Proof. intros H. unfold next_period2. apply NNB2_norm. apply fold_left_inv; [|exact H]. intros a n _ Ha. unfold next_node2.
  apply fold_left_inv.
  { intros b k _ Hb. unfold next_prod. apply NNB2_sq; [|intros Hf; discriminate]. apply NNB2_sq; [|intros Hf; discriminate]. apply NNB2_sq; [|intros _; lra].
    assert (Hc : NNB2 (fold_left (next_cust n k) (k_custs (PC n k)) b)).
    { apply fold_left_inv; [|exact Hb]. intros c x _ Hc. unfold next_cust. apply NNB2_sq; [|intros _; lra]. apply NNB2_sq; [|intros _; lra].
      assert (Hd : NNB2 (addq2 c (fLOST, n, x, k) (hd0 (gl2 c (fOP, n, x, k))))) by (apply NNB2_addq_pos; [exact Hc|apply hd0_nonneg, NNB2_l, Hc]).
      apply NNB2_sl; [exact Hd|]. apply Forall_nonneg_shift_op, NNB2_l. exact Hd. }
    apply NNB2_sl; [exact Hc|]. unfold push_hist. apply nonneg_firstn. constructor; [apply NNB2_q; [exact Hc|reflexivity]|apply NNB2_l; exact Hc]. }
  apply fold_left_inv; [|exact Ha]. intros b r _ Hb. apply fold_left_inv; [|exact Hb]. intros c p _ Hc. unfold next_sup.
  apply NNB2_sq; [|intros _; lra]. apply NNB2_sq; [|intros _; lra].
  assert (Hd : NNB2 (if disk2 NW dis n dTP then c else sl2 c (fSP, n, p, r) (shift_sp (gl2 c (fSP, n, p, r))))).
  { destruct (disk2 NW dis n dTP); [exact Hc|]. apply NNB2_sl; [exact Hc|]. apply Forall_nonneg_shift_sp, NNB2_l, Hc. }
  apply NNB2_sl; [exact Hd|]. unfold push_hist. apply nonneg_firstn. constructor; [apply NNB2_q; [exact Hd|reflexivity]|apply NNB2_l; exact Hd]. Qed.

Lemma NNB2_run_actions s : wfB_net2 NW -> NNB2 s -> NNB2 (run_actions2 NW dis dem err s).
Proof. intros W H. unfold run_actions2.
  apply fold_left_inv; [intros a x Hx Ha; apply NNB2_ships_action; [apply (w_node NW W), (w_ship_in NW W); exact Hx|exact Ha]|].
  apply fold_left_inv; [intros a x Hx Ha; apply NNB2_orders_action; [apply (w_node NW W), (w_ord_in NW W); exact Hx|exact Ha]|exact H]. Qed.
End NNPres.

(* initial state *)
Lemma NNB2_init NW : wfB_net2 NW -> NNB2 (init_state2 NW).
Proof. intros W. unfold init_state2. apply fold_left_inv.
  2:{ split; [intros; rewrite gq2_empty; lra|intros; rewrite gl2_empty; constructor]. }
  intros s n Hn H. unfold init_node2. destruct (w_init NW n (w_node NW W n Hn)) as (Ho & Hs).
  apply fold_left_inv.
  { intros a r Hr Ha. apply fold_left_inv; [|exact Ha]. intros b p _ Hb. unfold init_sup.
    apply NNB2_sq; [|intros Hf; discriminate]. apply NNB2_sl; [|apply nonneg_repeat2; lra]. apply NNB2_sl; [exact Hb|].
    apply Forall_app; split; [apply nonneg_repeat2; exact Hs|]. apply Forall_app; split; [|constructor; [lra|constructor]].
    destruct p; apply nonneg_repeat2; [exact Ho|lra]. }
  apply fold_left_inv; [|exact H]. intros a k Hk Ha. unfold init_prod.
  apply fold_left_inv.
  { intros b x Hx Hb. unfold init_cust. destruct x as [|x']; apply NNB2_sl; try exact Hb; [constructor; [lra|constructor]|].
    apply Forall_app; split; [|constructor; [lra|constructor]]. apply nonneg_repeat2.
    apply (w_init NW x' (w_node NW W x' (w_cnode NW n (w_node NW W n Hn) k x' Hk Hx))). }
  apply NNB2_sl; [|apply nonneg_repeat2; lra]. apply NNB2_sq; [exact Ha|intros Hf; discriminate].
Qed.

(* ---------- the state written by serving one customer, in closed form ---------- *)
Definition serve_q (s : st2) (n k : N) (c : nb) (o : sout) (io : Q) : st2 :=
  addq2 (addq2 (addq2 (sq2 (sq2 (sq2 (addq2 (addq2 (addq2 (sq2 s (fOS, n, c, k) (o_os o)) (fDMFS, n, Ext, k) (o_dmfs o)) (fDMC, n, Ext, k) (o_dmfs o))
    (fIL, n, Ext, k) (- io)) (fBO, n, c, k) (o_bo o)) (fODI, n, c, k) (o_odi o)) (fPIO, n, c, k) 0) (fPEND, n, Ext, k) (- io)) (fSRV, n, Ext, k) io)
    (fcOS, n, c, k) (o_os o).
Definition serve_o (NW : net2) (dis : N -> bool) (s : st2) (n k : N) (c : nb) (oh : Q) : sout :=
  serve_calc oh (gq2 s (fBO, n, c, k)) (gq2 s (fPIO, n, c, k)) (gq2 s (fODI, n, c, k)) (match c with Nd c' => disk2 NW dis c' dSP | Ext => false end).
Lemma serve_one2_eq NW dis n k s oh c : serve_one2 NW dis n k (s, oh) c =
  (match c with
   | Nd c' => sl2 (serve_q s n k c (serve_o NW dis s n k c oh) (gq2 s (fPIO, n, c, k))) (fSP, c', Nd n, k)
                  (add_at (n_slt (cfg2 NW c')) (o_os (serve_o NW dis s n k c oh)) (gl2 (serve_q s n k c (serve_o NW dis s n k c oh) (gq2 s (fPIO, n, c, k))) (fSP, c', Nd n, k)))
   | Ext => serve_q s n k c (serve_o NW dis s n k c oh) (gq2 s (fPIO, n, c, k)) end, o_oh (serve_o NW dis s n k c oh)).
Proof. reflexivity. Qed.
Lemma serve_o_spec NW dis s n k c oh : NNB2 s -> 0 <= oh ->
  let o := serve_o NW dis s n k c oh in
  o_bo o + o_odi o + o_os o == gq2 s (fBO, n, c, k) + gq2 s (fODI, n, c, k) + gq2 s (fPIO, n, c, k).
Proof. intros H Hoh. cbv zeta. unfold serve_o.
  assert (Hb : 0 <= gq2 s (fBO, n, c, k)) by (apply NNB2_q; [exact H|reflexivity]).
  assert (Hi : 0 <= gq2 s (fPIO, n, c, k)) by (apply NNB2_q; [exact H|reflexivity]).
  assert (Hd : 0 <= gq2 s (fODI, n, c, k)) by (apply NNB2_q; [exact H|reflexivity]).
  pose proof (serve_calc_spec oh _ _ _ (match c with Nd c' => disk2 NW dis c' dSP | Ext => false end) Hoh Hb Hi Hd) as S. cbv zeta in S.
  destruct S as (_ & _ & _ & _ & _ & _ & Pc & _). exact Pc. Qed.

(* ---------- states that agree on a set of rational fields ---------- *)
Definition agree (fs : fld -> bool) (s s' : st2) : Prop := forall f n x i, fs f = true -> gq2 s' (f, n, x, i) = gq2 s (f, n, x, i).
Lemma agree_refl fs s : agree fs s s.  Proof. intros f n x i _. reflexivity. Qed.
Lemma agree_trans fs s1 s2 s3 : agree fs s1 s2 -> agree fs s2 s3 -> agree fs s1 s3.
Proof. intros H1 H2 f n x i Hf. rewrite H2, H1 by exact Hf. reflexivity. Qed.
Lemma agree_sq fs s0 s f n x i v : fs f = false -> agree fs s0 s -> agree fs s0 (sq2 s (f, n, x, i) v).
Proof. intros Hf H g m y j Hg. rewrite gq2_sq2_other; [apply H; exact Hg|]. intro E. inversion E; subst. congruence. Qed.
Lemma agree_addq fs s0 s f n x i v : fs f = false -> agree fs s0 s -> agree fs s0 (addq2 s (f, n, x, i) v).
Proof. intros Hf H g m y j Hg. rewrite gq2_addq2_other; [apply H; exact Hg|]. intro E. inversion E; subst. congruence. Qed.
Lemma agree_sl fs s0 s k v : agree fs s0 s -> agree fs s0 (sl2 s k v).
Proof. intros H g m y j Hg. rewrite gq2_sl2. apply H. exact Hg. Qed.
Ltac agree_tac := repeat first [apply agree_sl | apply agree_sq; [reflexivity|] | apply agree_addq; [reflexivity|] | apply agree_refl | assumption].
