(* Group D, pure part 3: "nothing is lost and it is received after the disruption" on Stage 1's reference delay line
   [dl_trace] (Sim/ShipDelay.v), in cumulative form (part (c) of mon_c03 in py/simmon.py):
     if, in the periods t .. t+k-1, the pipeline advanced at least L times (periods without transit pause) and receipt is
     not paused in period t+k, then everything that was in the line initially and everything sent up to period t has been
     received by the end of period t+k:
       initial content + sent_0 + .. + sent_t  <=  recv_0 + .. + recv_(t+k).            [dlD_cumul]
   Independent of the simulator model (usable for Stage 1 and Stage 2). Needs non-negative contents / inputs and a
   pipeline with nothing beyond slot L (true for the initial pipelines, preserved by every step). *)
From SV Require Import Base.Qx.
From SV Require Import Sim.Model Sim.StateLemmas Sim.Inv_base Sim.ShipDelay.

(* ---- tail sums of a pipeline ---- *)
Definition tsumD (j : nat) (l : list Q) : Q := qsum (skipn j l).
Lemma tsumD_zero0 j l : (1 <= j)%nat -> tsumD j (zero0 l) = tsumD j l.
Proof. intros Hj. destruct j as [|j]; [lia|]. destruct l; reflexivity. Qed.
Lemma qsumD_zero0 l : qsum (zero0 l) == tsumD 1 l.
Proof. destruct l; unfold tsumD; cbn [zero0 skipn qsum]; lra. Qed.
Lemma tsumD_add_at_le j i v l : 0 <= v -> tsumD j (add_at i v l) <= tsumD j l + v.
Proof. intros Hv. unfold tsumD. revert j i. induction l as [|a r IH]; intros j i; [destruct j, i; cbn; lra|].
  destruct j as [|j], i as [|i]; cbn [add_at skipn qsum].
  - lra.
  - specialize (IH 0%nat i). cbn [skipn] in IH. lra.
  - lra.
  - apply IH. Qed.
Lemma tsumD_add_at_lt j i v l : (i < j)%nat -> tsumD j (add_at i v l) = tsumD j l.
Proof. unfold tsumD. revert j i. induction l as [|a r IH]; intros j i Hij; [destruct i; reflexivity|].
  destruct j as [|j]; [lia|]. destruct i as [|i]; cbn [add_at skipn]; [reflexivity|]. apply IH. lia. Qed.
Lemma qsumD_skipn_app0 k (r : list Q) : qsum (skipn k (r ++ [0])) == qsum (skipn k r).
Proof. revert k. induction r as [|a r IH]; intros k.
  - destruct k as [|[|k]]; cbn; lra.
  - destruct k as [|k]; cbn [app skipn]; [|apply IH]. cbn [qsum]. rewrite qsum_app. cbn [qsum]. lra. Qed.
Lemma tsumD_shift_sp j l : (1 <= j)%nat -> tsumD j (shift_sp l) == tsumD (S j) l.
Proof. intros Hj. destruct j as [|j]; [lia|]. unfold tsumD. destruct l as [|a [|b r]]; cbn [shift_sp skipn].
  - reflexivity.
  - destruct j; reflexivity.
  - apply qsumD_skipn_app0. Qed.
Lemma nonnegD_skipn j l : nonneg_l l -> nonneg_l (skipn j l).
Proof. unfold nonneg_l. revert j. induction l as [|a r IH]; intros j H; [destruct j; constructor|]. destruct j as [|j]; cbn [skipn]; [exact H|].
  inversion H; subst. apply IH. assumption. Qed.
Lemma tsumD_mono j l : nonneg_l l -> tsumD (S j) l <= tsumD j l.
Proof. unfold tsumD. revert j. induction l as [|a r IH]; intros j H; [destruct j; cbn; lra|]. inversion H as [|? ? Ha Hr]; subst.
  destruct j as [|j]; cbn [skipn]; [|apply IH; exact Hr]. cbn [qsum]. destruct r; cbn [skipn qsum]; lra. Qed.
Lemma tsumD_tail_zero k l : (forall i, (k <= i)%nat -> nth i l 0 == 0) -> tsumD k l == 0.
Proof. unfold tsumD. revert k. induction l as [|a r IH]; intros k H; [destruct k; reflexivity|].
  destruct k as [|k]; cbn [skipn].
  - cbn [qsum]. rewrite (H 0%nat (Nat.le_refl 0)). cbn [nth]. specialize (IH 0%nat). cbn [skipn] in IH. rewrite IH; [lra|].
    intros i _. apply (H (S i)). lia.
  - apply IH. intros i Hi. apply (H (S i)). lia. Qed.

(* ---- the content of the line; one period conserves it ---- *)
Definition dlD_total (d : dl) : Q := qsum (d_pipe d) + d_held d.
Lemma dlD_recv_total L rp sent d : (L < length (d_pipe d))%nat ->
  dlD_total (fst (dl_recv L rp sent d)) + snd (dl_recv L rp sent d) == dlD_total d + sent.
Proof. intros Hl. unfold dlD_total, dl_recv. cbn [fst snd d_pipe d_held]. rewrite qsum_zero0, qsum_add_at by exact Hl. destruct rp; lra. Qed.
Lemma dlD_shift_total tp d : dlD_total (dl_shift tp d) == dlD_total d.
Proof. unfold dlD_total, dl_shift. cbn [d_pipe d_held]. destruct tp; [reflexivity|]. rewrite qsum_shift_sp. reflexivity. Qed.
Lemma dlD_step_total L tp rp sent d : (L < length (d_pipe d))%nat ->
  dlD_total (fst (dl_step L tp rp sent d)) + snd (dl_recv L rp sent d) == dlD_total d + sent.
Proof. intros Hl. unfold dl_step. cbn [fst]. rewrite dlD_shift_total. apply dlD_recv_total. exact Hl. Qed.

(* nothing beyond slot L *)
Definition dlD_tail0 (L : nat) (d : dl) : Prop := forall i, (L < i)%nat -> nth i (d_pipe d) 0 == 0.
Lemma dlD_tail0_step L tp rp sent d : dlD_tail0 L d -> dlD_tail0 L (fst (dl_step L tp rp sent d)).
Proof. intros H i Hi. unfold dl_step, dl_shift, dl_recv. cbn [fst d_pipe]. destruct i as [|i]; [lia|]. destruct tp.
  - rewrite nth_zero0_S, nth_add_at_other by lia. apply H. exact Hi.
  - rewrite nth_shift_sp_S, nth_zero0_S, nth_add_at_other by lia. apply H. lia. Qed.

(* ---- sums and counts over periods ---- *)
Lemma qsumD_range_shift f lo n : qsum_range f (S lo) n = qsum_range (fun u => f (S u)) lo n.
Proof. revert lo. induction n as [|n IH]; intros lo; cbn [qsum_range]; [reflexivity|]. rewrite IH. reflexivity. Qed.
Fixpoint cntD (f : nat -> bool) (lo n : nat) : nat :=
  match n with O => O | S n' => ((if f lo then 1 else 0) + cntD f (S lo) n')%nat end.
Lemma cntD_shift f lo n : cntD f (S lo) n = cntD (fun u => f (S u)) lo n.
Proof. revert lo. induction n as [|n IH]; intros lo; cbn [cntD]; [reflexivity|]. rewrite IH. reflexivity. Qed.

Lemma cntD_ext f g lo n : (forall i, (lo <= i < lo + n)%nat -> f i = g i) -> cntD f lo n = cntD g lo n.
Proof. revert lo. induction n as [|n IH]; intros lo H; cbn [cntD]; [reflexivity|]. rewrite (H lo) by lia. rewrite IH; [reflexivity|]. intros i Hi. apply H. lia. Qed.

Notation sentD ins := (fun u : nat => i_sent (nth u ins din)).
Notation recvD L d ins := (fun u : nat => snd (nth u (dl_trace L d ins) dout)).
Notation movesD ins := (fun u : nat => negb (i_tp (nth u ins din))).

(* ---- conservation over a prefix of the run ---- *)
Lemma dlD_conserve L : forall k ins d, (L < length (d_pipe d))%nat -> (k < length ins)%nat ->
  dlD_total d + qsum_range (sentD ins) 0 (S k) == qsum_range (recvD L d ins) 0 (S k) + dlD_total (fst (nth k (dl_trace L d ins) dout)).
Proof. induction k as [|k IH]; intros ins d Hl Hk; (destruct ins as [|x rest]; cbn [length] in Hk; [lia|]).
  - cbn [qsum_range dl_trace nth]. pose proof (dlD_recv_total L (i_rp x) (i_sent x) d Hl). lra.
  - change (qsum_range (sentD (x :: rest)) 0 (S (S k))) with (i_sent x + qsum_range (sentD (x :: rest)) 1 (S k)).
    change (qsum_range (recvD L d (x :: rest)) 0 (S (S k))) with (snd (dl_recv L (i_rp x) (i_sent x) d) + qsum_range (recvD L d (x :: rest)) 1 (S k)).
    rewrite !qsumD_range_shift. cbn [dl_trace nth].
    pose proof (IH rest (fst (dl_step L (i_tp x) (i_rp x) (i_sent x) d))) as X. rewrite dl_step_length in X. specialize (X Hl ltac:(lia)).
    pose proof (dlD_step_total L (i_tp x) (i_rp x) (i_sent x) d Hl). lra. Qed.

(* ---- what remains after the receipt of period k consists of what was sent in 0 .. k, if the slots >= j held at most B
        initially, the pipeline advanced at least j - 1 times in 0 .. k-1 and receipt is not paused in k ---- *)
Lemma dlD_remaining L : forall k ins d j B, (1 <= j)%nat -> dl_nn d -> ins_nn ins -> (k < length ins)%nat ->
  tsumD j (d_pipe d) <= B -> (j - 1 <= cntD (movesD ins) 0 k)%nat -> i_rp (nth k ins din) = false ->
  dlD_total (fst (nth k (dl_trace L d ins) dout)) <= B + qsum_range (sentD ins) 0 (S k).
Proof. induction k as [|k IH]; intros ins d j B Hj Hd Hi Hk HB Hc Hrp; (destruct ins as [|x rest]; cbn [length] in Hk; [lia|]);
    inversion Hi as [|? ? Hx Hr]; subst.
  - cbn [cntD] in Hc. assert (j = 1%nat) by lia. subst j. cbn [nth] in Hrp. cbn [dl_trace nth qsum_range]. rewrite Hrp.
    unfold dlD_total, dl_recv. cbn [fst d_pipe d_held]. rewrite qsumD_zero0.
    pose proof (tsumD_add_at_le 1 L (i_sent x) (d_pipe d) Hx). lra.
  - change (qsum_range (sentD (x :: rest)) 0 (S (S k))) with (i_sent x + qsum_range (sentD (x :: rest)) 1 (S k)).
    rewrite qsumD_range_shift. cbn [dl_trace nth].
    change (cntD (movesD (x :: rest)) 0 (S k)) with ((if negb (i_tp x) then 1 else 0) + cntD (movesD (x :: rest)) 1 k)%nat in Hc.
    rewrite cntD_shift in Hc. cbn [nth] in Hrp, Hc |- *.
    set (d1 := fst (dl_step L (i_tp x) (i_rp x) (i_sent x) d)).
    assert (Hd1 : dl_nn d1) by (apply dl_step_nn; assumption).
    assert (A : nonneg_l (add_at L (i_sent x) (d_pipe d))) by (apply Forall_nonneg_add_at; [exact Hx|apply Hd]).
    destruct (i_tp x) eqn:Etp; cbn [negb] in Hc.
    + (* transit paused: the pipeline stays *)
      assert (H1 : tsumD j (d_pipe d1) <= B + i_sent x).
      { unfold d1, dl_step, dl_shift, dl_recv. rewrite ?Etp. cbn [fst d_pipe]. rewrite tsumD_zero0 by exact Hj.
        pose proof (tsumD_add_at_le j L (i_sent x) (d_pipe d) Hx). lra. }
      pose proof (IH rest d1 j (B + i_sent x) Hj Hd1 Hr ltac:(lia) H1 ltac:(lia) Hrp) as X. cbv beta in X. lra.
    + (* the pipeline advances by one slot *)
      assert (Hstep : forall j1, (1 <= j1)%nat -> tsumD j1 (d_pipe d1) <= tsumD (S j1) (d_pipe d) + i_sent x).
      { intros j1 Hj1. unfold d1, dl_step, dl_shift, dl_recv. cbn [fst d_pipe]. rewrite tsumD_shift_sp by exact Hj1. rewrite tsumD_zero0 by lia.
        apply tsumD_add_at_le. exact Hx. }
      destruct j as [|[|j']]; [lia| |].
      * pose proof (Hstep 1%nat (Nat.le_refl 1)) as H1. pose proof (tsumD_mono 1 (d_pipe d) (proj1 Hd)) as M.
        pose proof (IH rest d1 1%nat (B + i_sent x) (Nat.le_refl 1) Hd1 Hr ltac:(lia) ltac:(lra) ltac:(lia) Hrp) as X. cbv beta in X. lra.
      * pose proof (Hstep (S j') ltac:(lia)) as H1.
        pose proof (IH rest d1 (S j') (B + i_sent x) ltac:(lia) Hd1 Hr ltac:(lia) ltac:(lra) ltac:(lia) Hrp) as X. cbv beta in X. lra. Qed.

(* ---- t = 0: the initial content and the shipment of period 0 ---- *)
Lemma dlD_cumul_0 L k ins d : (L < length (d_pipe d))%nat -> dl_nn d -> ins_nn ins -> dlD_tail0 L d -> (k < length ins)%nat ->
  (L <= cntD (movesD ins) 0 k)%nat -> i_rp (nth k ins din) = false ->
  dlD_total d + i_sent (nth 0 ins din) <= qsum_range (recvD L d ins) 0 (S k).
Proof. intros Hl Hd Hi Ht Hk Hc Hrp.
  pose proof (dlD_conserve L k ins d Hl Hk) as Cn.
  assert (R : dlD_total (fst (nth k (dl_trace L d ins) dout)) <= qsum_range (sentD ins) 1 k).
  { destruct ins as [|x rest]; cbn [length] in Hk; [lia|]. inversion Hi as [|? ? Hx Hr]; subst.
    assert (T0 : forall m, (L < m)%nat -> tsumD m (d_pipe d) == 0) by (intros m Hm; apply tsumD_tail_zero; intros i Hi'; apply Ht; lia).
    destruct k as [|k].
    - cbn [cntD] in Hc. assert (L = 0%nat) by lia. subst L. cbn [nth] in Hrp. cbn [dl_trace nth qsum_range]. rewrite Hrp.
      unfold dlD_total, dl_recv. cbn [fst d_pipe d_held]. rewrite qsumD_zero0. rewrite tsumD_add_at_lt by lia. rewrite (T0 1%nat) by lia. lra.
    - rewrite qsumD_range_shift. cbn [dl_trace nth].
      change (cntD (movesD (x :: rest)) 0 (S k)) with ((if negb (i_tp x) then 1 else 0) + cntD (movesD (x :: rest)) 1 k)%nat in Hc.
      rewrite cntD_shift in Hc. cbn [nth] in Hrp, Hc |- *.
      set (d1 := fst (dl_step L (i_tp x) (i_rp x) (i_sent x) d)).
      assert (Hd1 : dl_nn d1) by (apply dl_step_nn; assumption).
      destruct (i_tp x) eqn:Etp; cbn [negb] in Hc.
      + assert (H1 : tsumD (S L) (d_pipe d1) <= 0).
        { unfold d1, dl_step, dl_shift, dl_recv. rewrite ?Etp. cbn [fst d_pipe]. rewrite tsumD_zero0 by lia. rewrite tsumD_add_at_lt by lia. rewrite (T0 (S L)) by lia. lra. }
        pose proof (dlD_remaining L k rest d1 (S L) 0 ltac:(lia) Hd1 Hr ltac:(lia) H1 ltac:(lia) Hrp) as X. cbv beta in X.
        change (qsum_range (sentD rest) 0 (S k)) with (i_sent (nth 0 rest din) + qsum_range (sentD rest) 1 k) in X.
        destruct k; cbn [qsum_range] in *; lra.
      + assert (Hstep : forall j1, (1 <= j1)%nat -> (L <= j1)%nat -> tsumD j1 (d_pipe d1) <= 0).
        { intros j1 Hj1 HL. unfold d1, dl_step, dl_shift, dl_recv. cbn [fst d_pipe]. rewrite tsumD_shift_sp by exact Hj1.
          rewrite tsumD_zero0 by lia. rewrite tsumD_add_at_lt by lia. rewrite (T0 (S j1)) by lia. lra. }
        destruct L as [|L'].
        * pose proof (dlD_remaining 0 k rest d1 1%nat 0 (Nat.le_refl 1) Hd1 Hr ltac:(lia) (Hstep 1%nat (Nat.le_refl 1) ltac:(lia)) ltac:(lia) Hrp) as X. cbv beta in X. lra.
        * pose proof (dlD_remaining (S L') k rest d1 (S L') 0 ltac:(lia) Hd1 Hr ltac:(lia) (Hstep (S L') ltac:(lia) (Nat.le_refl _)) ltac:(lia) Hrp) as X. cbv beta in X. lra. }
  change (qsum_range (sentD ins) 0 (S k)) with (i_sent (nth 0 ins din) + qsum_range (sentD ins) 1 k) in Cn. lra. Qed.

(* ---- the general statement ---- *)
Theorem dlD_cumul L : forall t k ins d, (L < length (d_pipe d))%nat -> dl_nn d -> ins_nn ins -> dlD_tail0 L d -> (t + k < length ins)%nat ->
  (L <= cntD (movesD ins) t k)%nat -> i_rp (nth (t + k) ins din) = false ->
  dlD_total d + qsum_range (sentD ins) 0 (S t) <= qsum_range (recvD L d ins) 0 (S (t + k)).
Proof. induction t as [|t IH]; intros k ins d Hl Hd Hi Ht Hk Hc Hrp.
  - pose proof (dlD_cumul_0 L k ins d Hl Hd Hi Ht Hk Hc Hrp) as X. cbn [Nat.add]. change (qsum_range (sentD ins) 0 1) with (i_sent (nth 0 ins din) + 0). lra.
  - destruct ins as [|x rest]; cbn [length] in Hk; [lia|]. inversion Hi as [|? ? Hx Hr]; subst.
    change (qsum_range (sentD (x :: rest)) 0 (S (S t))) with (i_sent x + qsum_range (sentD (x :: rest)) 1 (S t)).
    change (qsum_range (recvD L d (x :: rest)) 0 (S (S t + k))) with (snd (dl_recv L (i_rp x) (i_sent x) d) + qsum_range (recvD L d (x :: rest)) 1 (S (t + k))).
    rewrite !qsumD_range_shift. cbn [dl_trace nth]. rewrite cntD_shift in Hc. cbn [Nat.add nth] in Hrp, Hc.
    pose proof (IH k rest (fst (dl_step L (i_tp x) (i_rp x) (i_sent x) d))) as X. rewrite dl_step_length in X.
    specialize (X Hl (dl_step_nn L _ _ _ d Hx Hd) Hr (dlD_tail0_step L _ _ _ d Ht) ltac:(lia) Hc Hrp). cbv beta in X.
    pose proof (dlD_step_total L (i_tp x) (i_rp x) (i_sent x) d Hl). lra. Qed.

Print Assumptions dlD_cumul.
