(* Stage-2 simulator (multi-product networks), group D, part 2: POSITIONAL SHIPMENT LEAD TIME with transit-pausing (TP)
   and receipt-pausing (RP) disruptions (C03, first sentence, shipments).
   For a supply relation (customer node n, supplier q, raw material r) the shipment pipeline (fSP, n, q, r), the items
   held at n's door (fIDI, n, q, r) and the receipt (fIS, n, q, r) of every end-of-period record of every run are those
   of Stage 1's pure reference delay line [dl_trace] (Sim/ShipDelay.v, reused as is) fed with
     q = Nd p : the recorded shipments (fOS, p, Nd n, r) of the supplier, entering at slot SLT(n);
     q = Ext  : the recorded order quantities (fOQ, n, Ext, r) of n (period totals over the products of n that use r),
                entering at slot OLT(n) + SLT(n);
   and n's recorded TP / RP flags (refinement). The lead-time statements proved on the reference delay line
   ([dl_lower], [dl_exact]) are transported.
   Per period: the supplier's shipping step adds the shipment at slot L (earlier in the shipments traversal: a node is
   visited only after all its predecessors, [ship_visit_SO] of Stage 1 applied to the skeleton), then n's receiving step
   reads and clears slot 0, then the end-of-period shift moves the pipeline unless transit is paused (and [norm_st]
   renormalises the representation: pipelines are compared up to ==). *)
From SV Require Import Base.Qx.
From SV Require Import Sim.Model Sim.StateLemmas Sim.Inv_base Sim.Inv_node Sim.Inv_bound Sim.Single Sim.Delay Sim.ShipDelay.
From SV Require Import Sim2.State2 Sim2.Model2.
From SV Require Import Sim2.Inv2b_tac Sim2.Inv2b_book Sim2.Inv2b_pipe Sim2.Inv2b_init Sim2.Inv2b_period Sim2.Main2b.
From SV Require Import Sim2.Delay2 Sim2.DlCumul2.

(* ================================================================================================ *)
(* 0. Generic: a fold in which exactly one step acts on the projection, described by a relation      *)
(* ================================================================================================ *)
Lemma foldD_once_rel {S A X} (f : S -> A -> S) (pi : S -> X) (R : X -> X -> Prop) (a : A) : forall l,
  (forall s, R (pi s) (pi (f s a))) -> (forall s b, In b l -> b <> a -> pi (f s b) = pi s) ->
  forall s, NoDup l -> In a l -> R (pi s) (pi (fold_left f l s)).
Proof. induction l as [|b r IH]; intros Ha Hb s ND Hin; [destruct Hin|]. inversion ND as [|? ? Hnb Hr]; subst. cbn [fold_left].
  destruct Hin as [E|Hin].
  - subst b. rewrite foldD_keep; [apply Ha|]. intros s' b Hb'. apply Hb; [right; exact Hb'|]. intro E; subst; contradiction.
  - assert (E : pi (f s b) = pi s) by (apply Hb; [left; reflexivity|intro E; subst; contradiction]). rewrite <- E.
    apply IH; [exact Ha|intros s' b' Hb'; apply Hb; right; exact Hb'|exact Hr|exact Hin]. Qed.

(* the shipments traversal handles the predecessor p, then n *)
Lemma splitD_ship (NW : net2) n p : NoDup (ship_visit2 NW) -> In n (ship_visit2 NW) -> In p (n_preds (cfg2 NW n)) ->
  exists l1 l2 l3, ship_visit2 NW = l1 ++ p :: l2 ++ n :: l3 /\
  ~ In n l1 /\ ~ In p l1 /\ ~ In n l2 /\ ~ In p l2 /\ ~ In n l3 /\ ~ In p l3.
Proof. intros ND Hn Hpn. destruct (ship_visit_SO (skel NW) n p Hn Hpn) as (a & b & E & Ha).
  change (ship_visit (skel NW)) with (ship_visit2 NW) in E.
  destruct (in_split p a Ha) as (c & d & E2). subst a.
  rewrite E in ND. rewrite <- app_assoc in ND. cbn [app] in ND.
  destruct (nodupD_app_inv c (p :: d ++ n :: b) ND) as (_ & ND1 & D1). inversion ND1 as [|? ? Hp1 ND2]; subst.
  destruct (nodupD_app_inv d (n :: b) ND2) as (_ & ND3 & D2). inversion ND3 as [|? ? Hn1 _]; subst.
  exists c, d, b. split; [rewrite E, <- app_assoc; reflexivity|]. repeat split.
  - intro X. apply (D1 n X). right. apply in_or_app. right. left. reflexivity.
  - intro X. apply (D1 p X). left. reflexivity.
  - intro X. apply (D2 n X). left. reflexivity.
  - intro X. apply Hp1. apply in_or_app. left. exact X.
  - exact Hn1.
  - intro X. apply Hp1. apply in_or_app. right. right. exact X. Qed.

Lemma tripleD_inj {A B D} (x y : A * B * D) : x = y -> fst (fst x) = fst (fst y) /\ snd (fst x) = snd (fst y) /\ snd x = snd y.
Proof. intros H. rewrite H. repeat split. Qed.

(* ================================================================================================ *)
(* 1. Frame lemmas for the shipments action, split into its receiving step and the rest              *)
(* ================================================================================================ *)
Section FramesSD.
Variable (NW : net2) (dis : N -> bool) (dem err : N -> N -> Q).
Notation C := (cfg2 NW).
Notation PC := (PC NW).
Notation RC := (RC NW).

Definition ships_restD (s1 : st2) (m : N) (il0 mk : N -> Q) : st2 :=
  fill_rate2 NW (fold_left (fun s k => serve2 NW dis s m k (il0 k) (mk k)) (n_prods (C m))
                           (fold_left (produce_one2 NW m mk) (n_prods (C m)) s1)) m.
Lemma ships_actionD_unfold s m : ships_action2 NW dis s m =
  ships_restD (recv_ship2 NW dis s m) m (fun k => gq2 s (fIL, m, Ext, k)) (made2 NW (recv_ship2 NW dis s m) m).
Proof. reflexivity. Qed.

(* the receiving step of node m only touches shipment pipelines of m *)
Lemma recv_shipD_gl s m K : (forall q' r', K <> (fSP, m, q', r')) -> gl2 (recv_ship2 NW dis s m) K = gl2 s K.
Proof. intros HK. unfold recv_ship2, recv_ship_rm. apply (fold_left_inv (fun a => gl2 a K = gl2 s K)); [|reflexivity].
  intros a r' _ Ha. apply (fold_left_inv (fun b => gl2 b K = gl2 s K)); [|exact Ha].
  intros b q' _ Hb. unfold recv_ship_one2. rewrite !gl2_addq2, gl2_sq2, !gl2_addq2. rewrite gl2_sl2_other by apply HK. rewrite gl2_sq2. exact Hb. Qed.
Lemma produceD_gl s m mk l K : gl2 (fold_left (produce_one2 NW m mk) l s) K = gl2 s K.
Proof. apply (fold_left_inv (fun a => gl2 a K = gl2 s K)); [|reflexivity]. intros a k _ Ha. unfold produce_one2. rewrite !gl2_addq2.
  apply (fold_left_inv (fun b => gl2 b K = gl2 s K)); [|exact Ha]. intros b rb _ Hb. rewrite gl2_addq2. exact Hb. Qed.
Lemma serve_qD_gl s m k c o io K : gl2 (serve_q s m k c o io) K = gl2 s K.
Proof. unfold serve_q. rewrite !gl2_addq2, !gl2_sq2, !gl2_addq2, gl2_sq2. reflexivity. Qed.
Lemma serveD_gl s m k il0 made K : (forall c', K <> (fSP, c', Nd m, k)) -> gl2 (serve2 NW dis s m k il0 made) K = gl2 s K.
Proof. intros HK. unfold serve2. apply (fold_left_inv (fun a => gl2 (fst a) K = gl2 s K)); [|cbn [fst]; apply gl2_sq2].
  intros [a oh] c _ Ha. cbn [fst] in Ha. rewrite serve_one2_eq. destruct c as [|c']; cbn [fst].
  - rewrite serve_qD_gl. exact Ha.
  - rewrite gl2_sl2_other by apply HK. rewrite serve_qD_gl. exact Ha. Qed.
(* producing / serving / fill rate at node m: only shipment pipelines (_, Nd m, _) are written *)
Lemma restD_gl s1 m il0 mk K : (forall c' i, K <> (fSP, c', Nd m, i)) -> gl2 (ships_restD s1 m il0 mk) K = gl2 s1 K.
Proof. intros HK. unfold ships_restD, fill_rate2.
  apply (fold_left_inv (fun a => gl2 a K = gl2 s1 K)); [intros a k _ Ha; unfold fill_rate_one2; rewrite gl2_sq2; exact Ha|].
  apply (fold_left_inv (fun a => gl2 a K = gl2 s1 K)); [intros a k _ Ha; rewrite serveD_gl by (intros c'; apply HK); exact Ha|]. apply produceD_gl. Qed.
Lemma restD_agree fs s1 m il0 mk :
  fs fRM = false -> fs fIL = false -> fs fPFG = false -> fs fCP = false ->
  fs fOS = false -> fs fDMFS = false -> fs fDMC = false -> fs fBO = false -> fs fODI = false ->
  fs fPIO = false -> fs fPEND = false -> fs fSRV = false -> fs fcOS = false -> fs fFR = false ->
  agree fs s1 (ships_restD s1 m il0 mk).
Proof. intros. unfold ships_restD.
  apply (agree_trans _ _ (fold_left (produce_one2 NW m mk) (n_prods (C m)) s1)); [apply agree_produce; assumption|].
  apply (agree_trans _ _ (fold_left (fun s k => serve2 NW dis s m k (il0 k) (mk k)) (n_prods (C m)) (fold_left (produce_one2 NW m mk) (n_prods (C m)) s1)));
    [apply agree_serves; assumption|apply agree_fill_rate; assumption]. Qed.

(* the ordering action writes no shipment pipeline other than the external-supplier pipelines of its own node *)
Lemma ordersD_sp s m n' q' i : q' <> Ext \/ n' <> m ->
  gl2 (orders_action2 NW dis dem err s m) (fSP, n', q', i) = gl2 s (fSP, n', q', i).
Proof. intros Hne. unfold orders_action2.
  set (s1 := recv_orders2 NW (gen_demand2 NW dem s m) m).
  assert (A : gl2 s1 (fSP, n', q', i) = gl2 s (fSP, n', q', i)).
  { unfold s1, recv_orders2, recv_orders_prod. apply (fold_left_inv (fun a => gl2 a (fSP, n', q', i) = gl2 s (fSP, n', q', i))).
    - intros a k _ Ha. apply (fold_left_inv (fun b => gl2 b (fSP, n', q', i) = gl2 s (fSP, n', q', i))); [|exact Ha].
      intros b c _ Hb. unfold recv_order_one2. rewrite !gl2_addq2. rewrite gl2_sl2_other by (apply key2_neq_fld; discriminate). rewrite gl2_sq2. exact Hb.
    - unfold gen_demand2. apply (fold_left_inv (fun a => gl2 a (fSP, n', q', i) = gl2 s (fSP, n', q', i))); [|reflexivity].
      intros a k _ Ha. destruct (has_ext _); [|exact Ha]. rewrite gl2_sl2_other by (apply key2_neq_fld; discriminate). exact Ha. }
  rewrite <- A. unfold place_orders2. destruct (disk2 NW dis m dOP); [reflexivity|].
  apply (fold_left_inv (fun a => gl2 a (fSP, n', q', i) = gl2 s1 (fSP, n', q', i))); [|reflexivity].
  intros a k _ Ha. unfold place_prod2. apply (fold_left_inv (fun b => gl2 b (fSP, n', q', i) = gl2 s1 (fSP, n', q', i))); [|rewrite !gl2_addq2; exact Ha].
  intros b rb _ Hb. unfold place_rm2. apply (fold_left_inv (fun c => gl2 c (fSP, n', q', i) = gl2 s1 (fSP, n', q', i))); [|exact Hb].
  intros c y _ Hc. unfold place_one2. rewrite !gl2_addq2. destruct (fst y) as [|p'].
  - rewrite gl2_sl2_other; [exact Hc|]. intro E. inversion E; subst. destruct Hne as [X|X]; apply X; reflexivity.
  - rewrite gl2_sl2_other by (apply key2_neq_fld; discriminate). exact Hc. Qed.
End FramesSD.

(* ================================================================================================ *)
(* 2. The receiving side: node n, one of its raw materials r and one of r's suppliers q              *)
(* ================================================================================================ *)
Definition recvd_eff (rp : bool) (x : list Q * Q * Q) : list Q * Q * Q :=
  (zero0 (fst (fst x)), (if rp then 0 else hd0 (fst (fst x)) + snd x), (if rp then snd x + hd0 (fst (fst x)) else 0)).

Section RecvD.
Variable NW : net2.
Notation C := (cfg2 NW).
Notation PC := (PC NW).
Notation RC := (RC NW).
Hypothesis W : wfB_net2 NW.
Hypothesis O : once2 NW.
Variables (n : N) (q : nb) (r : N).
Hypothesis HE : sup_edge NW n q r.
Hypothesis Hqn : q <> Nd n.
Notation kSP := (fSP, n, q, r).
Notation kIS := (fIS, n, q, r).
Notation kIDI := (fIDI, n, q, r).
Variable (dis : N -> bool).
Notation rp := (disk2 NW dis n dRP).
Notation tp := (disk2 NW dis n dTP).

Let eHn : In n (nodes2 NW) := proj1 HE.
Let eHr : In r (n_rms (C n)) := proj1 (proj2 HE).
Let eHs : In q (m_sups (RC n r)) := proj2 (proj2 HE).
Let eWn : wfB_node2 NW n := w_node NW W n eHn.

(* the three keys of the receiving side *)
Definition EKd (s : st2) : list Q * Q * Q := (gl2 s kSP, gq2 s kIS, gq2 s kIDI).

(* the shipments action of n: slot 0 is read and cleared *)
Lemma shipsD_n_effect s : EKd (ships_action2 NW dis s n) = recvd_eff rp (EKd s).
Proof. rewrite ships_actionD_unfold.
  assert (A : forall s1 il0 mk, EKd (ships_restD NW dis s1 n il0 mk) = EKd s1).
  { intros s1 il0 mk. unfold EKd. rewrite restD_gl by (intros c' i E; apply Hqn; congruence).
    rewrite !(restD_agree NW dis (fun f => match f with fIS | fIDI => true | _ => false end) s1 n il0 mk) by reflexivity. reflexivity. }
  rewrite A. unfold recv_ship2.
  apply (foldD_once (recv_ship_rm NW dis n) EKd (recvd_eff rp) r); [| |apply (o_rms NW O n eHn)|exact eHr].
  - intros a. unfold recv_ship_rm. apply (foldD_once (recv_ship_one2 NW dis n r) EKd (recvd_eff rp) q); [| |apply (w_sups NW n eWn r eHr)|exact eHs].
    + intros b. unfold EKd, recvd_eff, recv_ship_one2. cbn [fst snd]. gs2. reflexivity.
    + intros b x _ Hne. unfold EKd, recv_ship_one2. gs2. reflexivity.
  - intros a r' _ Hne. unfold recv_ship_rm. apply foldD_keep. intros b x _. unfold EKd, recv_ship_one2. gs2. reflexivity. Qed.

(* the shipments action of another node that is not the supplier q *)
Lemma shipsD_other_frame s m : m <> n -> Nd m <> q -> EKd (ships_action2 NW dis s m) = EKd s.
Proof. intros Hm Hmq. unfold EKd. rewrite !(ships_q_other2 NW dis s m) by (intro E; apply Hm; symmetry; exact E).
  rewrite ships_actionD_unfold, restD_gl by (intros c' i E; apply Hmq; congruence).
  rewrite recv_shipD_gl by (intros q' r' E; apply Hm; congruence). reflexivity. Qed.
Lemma shipsD_fold_frame l s : ~ In n l -> ~ In q (map Nd l) -> EKd (fold_left (ships_action2 NW dis) l s) = EKd s.
Proof. intros H1 H2. apply foldD_keep. intros a m Hm. apply shipsD_other_frame; [intro E; subst; contradiction|].
  intro E. apply H2. rewrite <- E. apply in_map. exact Hm. Qed.

(* ---- end of period ---- *)
Lemma next_nodeD_sp_other s m : m <> n -> gl2 (next_node2 NW dis s m) kSP = gl2 s kSP.
Proof. intros Hne. unfold next_node2.
  apply (fold_left_inv (fun a => gl2 a kSP = gl2 s kSP)).
  - intros a k _ Ha. unfold next_prod. rewrite !gl2_sq2. rewrite gl2_sl2_other by (apply key2_neq_fld; discriminate).
    apply (fold_left_inv (fun b => gl2 b kSP = gl2 s kSP)); [|exact Ha]. intros b x _ Hb. unfold next_cust. rewrite !gl2_sq2.
    rewrite gl2_sl2_other by (apply key2_neq_fld; discriminate). rewrite gl2_addq2. exact Hb.
  - apply (fold_left_inv (fun a => gl2 a kSP = gl2 s kSP)); [|reflexivity]. intros a r' _ Ha.
    apply (fold_left_inv (fun b => gl2 b kSP = gl2 s kSP)); [|exact Ha]. intros b x _ Hb. unfold next_sup. rewrite !gl2_sq2.
    rewrite gl2_sl2_other by (apply key2_neq_fld; discriminate).
    destruct (disk2 NW dis m dTP); [exact Hb|]. rewrite gl2_sl2_other; [exact Hb|]. intro E. apply Hne. congruence. Qed.
Definition shiftD (t : bool) (l : list Q) : list Q := if t then l else shift_sp l.
Lemma next_nodeD_sp_n s : gl2 (next_node2 NW dis s n) kSP = shiftD tp (gl2 s kSP).
Proof. unfold next_node2.
  match goal with |- gl2 (fold_left ?f ?l ?s0) _ = _ => set (s1 := s0) end.
  assert (S1 : gl2 s1 kSP = shiftD tp (gl2 s kSP)).
  { unfold s1. apply (foldD_once (fun s0 r0 => fold_left (next_sup NW dis n r0) (m_sups (RC n r0)) s0) (fun a => gl2 a kSP) (shiftD tp) r);
      [| |apply (o_rms NW O n eHn)|exact eHr].
    - intros a. apply (foldD_once (next_sup NW dis n r) (fun a => gl2 a kSP) (shiftD tp) q); [| |apply (w_sups NW n eWn r eHr)|exact eHs].
      + intros b. unfold next_sup, shiftD. rewrite !gl2_sq2. rewrite gl2_sl2_other by (apply key2_neq_fld; discriminate).
        destruct tp; [reflexivity|apply gl2_sl2_same].
      + intros b x _ Hne. unfold next_sup. rewrite !gl2_sq2. rewrite gl2_sl2_other by (apply key2_neq_fld; discriminate).
        destruct tp; [reflexivity|]. apply gl2_sl2_other. intro E. apply Hne. congruence.
    - intros a r' _ Hne. apply (foldD_keep (next_sup NW dis n r') (fun a => gl2 a kSP)). intros b x _. unfold next_sup. rewrite !gl2_sq2.
      rewrite gl2_sl2_other by (apply key2_neq_fld; discriminate).
      destruct tp; [reflexivity|]. apply gl2_sl2_other. intro E. apply Hne. congruence. }
  rewrite <- S1.
  apply (fold_left_inv (fun a => gl2 a kSP = gl2 s1 kSP)); [|reflexivity].
  intros a k _ Ha. unfold next_prod. rewrite !gl2_sq2. rewrite gl2_sl2_other by (apply key2_neq_fld; discriminate).
  apply (fold_left_inv (fun b => gl2 b kSP = gl2 s1 kSP)); [|exact Ha]. intros b x _ Hb. unfold next_cust. rewrite !gl2_sq2.
  rewrite gl2_sl2_other by (apply key2_neq_fld; discriminate). rewrite gl2_addq2. exact Hb. Qed.

Lemma next_periodD_recv e : leq (gl2 (next_period2 NW dis e) kSP) (shiftD tp (gl2 e kSP))
  /\ gq2 (next_period2 NW dis e) kIDI == gq2 e kIDI /\ gq2 (next_period2 NW dis e) (fOQ, n, q, r) == 0.
Proof. split; [|split; [apply next_period_keeps; reflexivity|apply next_period_oq0; exact HE]].
  unfold next_period2. rewrite gl2_norm. apply (leq_trans _ _ _ (leqD_map_Qred _)).
  rewrite (foldD_once (next_node2 NW dis) (fun a => gl2 a kSP) (shiftD tp) n (nodes2 NW)); [apply leq_refl| | |apply (w_nodup NW W)|exact eHn].
  - intros a. apply next_nodeD_sp_n.
  - intros a m _ Hne. apply next_nodeD_sp_other. exact Hne. Qed.
End RecvD.

(* ================================================================================================ *)
(* 3. An edge p -> n, raw material r                                                                 *)
(* ================================================================================================ *)
Section EdgeNdD.
Variable NW : net2.
Notation C := (cfg2 NW).
Notation PC := (PC NW).
Notation RC := (RC NW).
Hypothesis W : wfB_net2 NW.
Hypothesis O : once2 NW.
Variables (n p r : N).
Hypothesis HE : sup_edge NW n (Nd p) r.
Notation L := (n_slt (C n)).
Notation kSP := (fSP, n, Nd p, r).
Notation kIS := (fIS, n, Nd p, r).
Notation kIDI := (fIDI, n, Nd p, r).
Notation kOS := (fOS, p, Nd n, r).

Let eHn : In n (nodes2 NW) := proj1 HE.
Let eHr : In r (n_rms (C n)) := proj1 (proj2 HE).
Let eHs : In (Nd p) (m_sups (RC n r)) := proj2 (proj2 HE).
Let eWn : wfB_node2 NW n := w_node NW W n eHn.
Let eHpp : In p (n_preds (C n)) := proj1 (w_edge NW n eWn r p eHr eHs).
Let eHp : In p (nodes2 NW) := proj1 (proj2 (w_edge NW n eWn r p eHr eHs)).
Let eHk : In r (n_prods (C p)) := proj1 (proj2 (proj2 (w_edge NW n eWn r p eHr eHs))).
Let eHc : In (Nd n) (k_custs (PC p r)) := proj2 (proj2 (proj2 (w_edge NW n eWn r p eHr eHs))).
Let eWp : wfB_node2 NW p := w_node NW W p eHp.
Let NP : n <> p := edgeD_n_neq_p NW W n p r HE.
Lemma edgeD_q_neq : Nd p <> Nd n.
Proof. intro E. apply NP. congruence. Qed.

Variable (dis : N -> bool) (dem err : N -> N -> Q).
Notation rp := (disk2 NW dis n dRP).
Notation tp := (disk2 NW dis n dTP).

(* ---- the supplier's shipping step: the shipment goes into slot L ---- *)
Definition SKd (s : st2) : list Q * Q := (gl2 s kSP, gq2 s kOS).
Definition shipRd (x y : list Q * Q) : Prop := fst y = add_at L (snd y) (fst x).

Lemma shipsD_p_effect s : let s' := ships_action2 NW dis s p in
  gl2 s' kSP = add_at L (gq2 s' kOS) (gl2 s kSP) /\ gq2 s' kIS = gq2 s kIS /\ gq2 s' kIDI = gq2 s kIDI.
Proof. cbv zeta. split; [|split; apply ships_q_other2; exact NP].
  rewrite ships_actionD_unfold. unfold ships_restD.
  set (s1 := recv_ship2 NW dis s p). set (il0 := fun k => gq2 s (fIL, p, Ext, k)). set (mk := made2 NW s1 p).
  set (s2 := fold_left (produce_one2 NW p mk) (n_prods (C p)) s1).
  set (sv := fun s0 k => serve2 NW dis s0 p k (il0 k) (mk k)).
  assert (E2 : SKd s2 = SKd s).
  { unfold SKd, s2. rewrite produceD_gl. unfold s1. rewrite recv_shipD_gl by (intros q' r' E; apply NP; congruence).
    rewrite (agree_produce NW (fun f => match f with fOS => true | _ => false end) _ p mk _ eq_refl eq_refl eq_refl eq_refl fOS p (Nd n) r eq_refl).
    rewrite (agree_recv_ship NW dis (fun f => match f with fOS => true | _ => false end) s p eq_refl eq_refl eq_refl eq_refl eq_refl fOS p (Nd n) r eq_refl). reflexivity. }
  assert (E3 : SKd (fill_rate2 NW (fold_left sv (n_prods (C p)) s2) p) = SKd (fold_left sv (n_prods (C p)) s2)).
  { unfold fill_rate2. apply foldD_keep. intros a k _. unfold SKd, fill_rate_one2. gs2. reflexivity. }
  assert (R : shipRd (SKd s2) (SKd (fold_left sv (n_prods (C p)) s2))).
  { apply (foldD_once_rel sv SKd shipRd r); [| |apply (w_prods NW p eWp)|exact eHk].
    - intros a. unfold sv, serve2.
      assert (E0 : SKd a = SKd (fst (sq2 a (fDMFS, p, Ext, r) 0, qmax 0 (il0 r) + mk r))) by (cbn [fst]; unfold SKd; gs2; reflexivity).
      rewrite E0.
      apply (foldD_once_rel (serve_one2 NW dis p r) (fun acc => SKd (fst acc)) shipRd (Nd n)); [| |apply (w_custs NW p eWp r eHk)|exact eHc].
      + intros [b oh]. rewrite serve_one2_eq. cbn [fst]. unfold shipRd, SKd. cbn [fst snd]. rewrite gl2_sl2_same, gq2_sl2, serve_qD_gl.
        unfold serve_q. gs2. reflexivity.
      + intros [b oh] c _ Hne. rewrite serve_one2_eq. destruct c as [|c']; cbn [fst]; unfold SKd.
        * rewrite serve_qD_gl. unfold serve_q. gs2. reflexivity.
        * rewrite gq2_sl2. rewrite gl2_sl2_other by (intro E; apply Hne; congruence). rewrite serve_qD_gl. unfold serve_q. gs2. reflexivity.
    - intros a k _ Hne. unfold sv, SKd. rewrite serveD_gl by (intros c' E; apply Hne; congruence).
      rewrite serve2_other by (intro E; apply Hne; congruence). reflexivity. }
  unfold shipRd in R. rewrite E2 in R. cbn [SKd fst snd] in R.
  assert (F1 := f_equal fst E3). assert (F2 := f_equal snd E3). cbn [SKd fst snd] in F1, F2.
  change (gl2 (fill_rate2 NW (fold_left sv (n_prods (C p)) s2) p) kSP = add_at L (gq2 (fill_rate2 NW (fold_left sv (n_prods (C p)) s2) p) kOS) (gl2 s kSP)).
  rewrite F1, F2. exact R. Qed.

(* ---- one period, seen from the edge ---- *)
Theorem run_actionsD_edge_nd s : let e := run_actions2 NW dis dem err s in
  EKd n (Nd p) r e = recvd_eff rp (add_at L (gq2 e kOS) (gl2 s kSP), gq2 s kIS, gq2 s kIDI).
Proof. cbv zeta. unfold run_actions2. set (s1 := fold_left (orders_action2 NW dis dem err) (order_visit2 NW) s).
  assert (Oe : EKd n (Nd p) r s1 = EKd n (Nd p) r s).
  { unfold s1. apply foldD_keep. intros a m _. unfold EKd. rewrite ordersD_sp by (left; discriminate).
    rewrite !(agreeD_orders_action NW dis dem err (fun f => match f with fIS | fIDI => true | _ => false end) a m) by reflexivity. reflexivity. }
  destruct (splitD_ship NW n p (o_ship NW O) (w_ship NW W n eHn) eHpp) as (l1 & l2 & l3 & E & N1 & P1 & N2 & P2 & N3 & P3).
  rewrite E. rewrite fold_left_app. cbn [fold_left]. rewrite fold_left_app. cbn [fold_left].
  set (a := fold_left (ships_action2 NW dis) l1 s1).
  set (b := ships_action2 NW dis a p).
  set (c := fold_left (ships_action2 NW dis) l2 b).
  set (d := ships_action2 NW dis c n).
  set (e := fold_left (ships_action2 NW dis) l3 d).
  assert (NM : forall l, ~ In p l -> ~ In (Nd p) (map Nd l)).
  { intros l Hl X. apply in_map_iff in X. destruct X as (y & Ey & Hy). inversion Ey; subst. contradiction. }
  pose proof (shipsD_fold_frame NW n (Nd p) r dis l1 s1 N1 (NM l1 P1)) as Fa. fold a in Fa.
  destruct (shipsD_p_effect a) as (B1 & B2 & B3). fold b in B1, B2, B3.
  pose proof (shipsD_fold_frame NW n (Nd p) r dis l2 b N2 (NM l2 P2)) as Fc. fold c in Fc.
  pose proof (shipsD_n_effect NW W O n (Nd p) r HE edgeD_q_neq dis c) as Fd. fold d in Fd.
  pose proof (shipsD_fold_frame NW n (Nd p) r dis l3 d N3 (NM l3 P3)) as Fe. fold e in Fe.
  assert (K : gq2 e kOS = gq2 b kOS).
  { unfold e. rewrite (foldD_keep (ships_action2 NW dis) (fun x => gq2 x kOS) l3) by (intros x m Hm; apply ships_q_other2; intro X; subst; contradiction).
    unfold d. rewrite (ships_q_other2 NW dis c n fOS p) by (intro X; apply NP; symmetry; exact X).
    unfold c. apply (foldD_keep (ships_action2 NW dis) (fun x => gq2 x kOS) l2). intros x m Hm. apply ships_q_other2. intro X. subst. contradiction. }
  rewrite Fe, Fd, Fc, K. f_equal. unfold EKd. rewrite B1, B2, B3. rewrite Oe in Fa. apply tripleD_inj in Fa. cbn [EKd fst snd] in Fa.
  destruct Fa as (A1 & A2 & A3). rewrite A1, A2, A3. reflexivity. Qed.
End EdgeNdD.

(* ================================================================================================ *)
(* 4. Refinement for one supplier q of raw material r of n, given the period lemma                   *)
(* ================================================================================================ *)
Section RefineD.
Variable NW : net2.
Notation C := (cfg2 NW).
Notation RC := (RC NW).
Hypothesis W : wfB_net2 NW.
Hypothesis O : once2 NW.
Variables (n : N) (q : nb) (r : N).
Hypothesis HE : sup_edge NW n q r.
Hypothesis Hqn : q <> Nd n.
Variable (L : nat) (kS : key2).           (* slot at which the feed enters; the key holding the quantity fed *)
Notation kSP := (fSP, n, q, r).
Notation kIS := (fIS, n, q, r).
Notation kIDI := (fIDI, n, q, r).
(* the period lemma, in the weak form (up to ==) that both kinds of edges satisfy *)
Definition period_okD (s : st2) : Prop := forall dis dem err, let e := run_actions2 NW dis dem err s in
  let pipe := add_at L (gq2 e kS) (gl2 s kSP) in
  leq (gl2 e kSP) (zero0 pipe) /\
  gq2 e kIS == (if disk2 NW dis n dRP then 0 else hd0 pipe + gq2 s kIDI) /\
  gq2 e kIDI == (if disk2 NW dis n dRP then gq2 s kIDI + hd0 pipe else 0).
(* [St] : what the period lemma needs to know about the state at the start of a period *)
Variable St : st2 -> Prop.
Hypothesis St_period : forall s, St s -> period_okD s.
Hypothesis St_next : forall s dis dem err, St s -> St (next_period2 NW dis (run_actions2 NW dis dem err s)).

Definition edgeD_in (i : input2) (e : st2) : dl_input := (disk2 NW (i_dis i) n dTP, disk2 NW (i_dis i) n dRP, gq2 e kS).
Definition edgeD_ins_from (s : st2) (inputs : inputs2) : list dl_input :=
  map (fun ie => edgeD_in (fst ie) (snd ie)) (combine inputs (run_from2 NW s inputs)).
Definition refinesD (e : st2) (x : dl * Q) : Prop :=
  gq2 e kIS == snd x /\ gq2 e kIDI == d_held (fst x) /\ leq (gl2 e kSP) (d_pipe (fst x)).

Lemma edgeD_ins_from_cons s i rest : edgeD_ins_from s (i :: rest) =
  edgeD_in i (run_actions2 NW (i_dis i) (i_dem i) (i_err i) s) :: edgeD_ins_from (next_period2 NW (i_dis i) (run_actions2 NW (i_dis i) (i_dem i) (i_err i) s)) rest.
Proof. reflexivity. Qed.

Lemma refineD_run_from : forall inputs s d, St s -> leq (gl2 s kSP) (d_pipe d) -> gq2 s kIDI == d_held d ->
  Forall2 refinesD (run_from2 NW s inputs) (dl_trace L d (edgeD_ins_from s inputs)).
Proof. induction inputs as [|i rest IH]; intros s d HS Hpipe Hheld; [constructor|].
  rewrite edgeD_ins_from_cons. cbn [run_from2 dl_trace]. set (e := run_actions2 NW (i_dis i) (i_dem i) (i_err i) s).
  destruct (St_period s HS (i_dis i) (i_dem i) (i_err i)) as (E1 & E2 & E3). fold e in E1, E2, E3. cbv zeta in E1, E2, E3.
  unfold edgeD_in at 1 2 3 4 5. unfold i_rp, i_tp, i_sent. cbn [fst snd].
  set (sent := gq2 e kS) in *. set (rp := disk2 NW (i_dis i) n dRP) in *. set (tp := disk2 NW (i_dis i) n dTP).
  assert (A : leq (add_at L sent (gl2 s kSP)) (add_at L sent (d_pipe d))) by (apply leq_add_at; [reflexivity|exact Hpipe]).
  pose proof (leq_hd0 _ _ A) as A0.
  assert (R : refinesD e (dl_recv L rp sent d)).
  { unfold refinesD, dl_recv. cbn [fst snd d_pipe d_held]. split; [|split].
    - rewrite E2. destruct rp; [reflexivity|]. rewrite A0, Hheld. reflexivity.
    - rewrite E3. destruct rp; [|reflexivity]. rewrite A0, Hheld. reflexivity.
    - apply (leq_trans _ _ _ E1). apply leq_zero0. exact A. }
  constructor; [exact R|].
  destruct R as (_ & R2 & R3).
  destruct (next_periodD_recv NW W O n q r HE (i_dis i) e) as (N1 & N2 & _).
  apply IH.
  - apply St_next. exact HS.
  - apply (leq_trans _ _ _ N1). unfold dl_step, dl_shift, shiftD. cbn [fst d_pipe]. fold tp. destruct tp; [exact R3|apply leq_shift_sp; exact R3].
  - rewrite N2. unfold dl_step, dl_shift. cbn [fst d_held]. exact R2. Qed.

Definition dD_init : dl := {| d_pipe := gl2 (init_state2 NW) kSP; d_held := 0 |}.
Definition edgeD_ins (inputs : inputs2) : list dl_input := edgeD_ins_from (init_state2 NW) inputs.
Definition edgeD_trace (inputs : inputs2) : list (dl * Q) := dl_trace L dD_init (edgeD_ins inputs).

Hypothesis St_init : St (init_state2 NW).

Theorem refineD_run inputs : Forall2 refinesD (run2 NW inputs) (edgeD_trace inputs).
Proof. unfold run2, edgeD_trace, edgeD_ins. apply refineD_run_from; [exact St_init|apply leq_refl|].
  cbn [dD_init d_held]. rewrite init_zero2 by discriminate. reflexivity. Qed.

Theorem refineD_nth inputs t : (t < length inputs)%nat -> refinesD (nth t (run2 NW inputs) empty_st2) (nth t (edgeD_trace inputs) dout).
Proof. intros Ht. apply Forall2_nth_both; [apply refineD_run|]. unfold run2. rewrite run_from2_length. exact Ht. Qed.

Lemma edgeD_ins_length inputs : length (edgeD_ins inputs) = length inputs.
Proof. unfold edgeD_ins, edgeD_ins_from. rewrite map_length, combine_length, run_from2_length. apply Nat.min_id. Qed.
Lemma edgeD_ins_nth inputs u : (u < length inputs)%nat ->
  nth u (edgeD_ins inputs) din = edgeD_in (nth u inputs dflt_input2) (nth u (run2 NW inputs) empty_st2).
Proof. intros Hu. unfold edgeD_ins, edgeD_ins_from.
  set (f := fun ie : input2 * st2 => edgeD_in (fst ie) (snd ie)).
  rewrite (nth_indep _ din (f (dflt_input2, empty_st2))) by (rewrite map_length, combine_length, run_from2_length, Nat.min_id; exact Hu).
  rewrite (map_nth f). rewrite combine_nth by (rewrite run_from2_length; reflexivity). reflexivity. Qed.

Lemma edgeD_ins_nn inputs : (forall e, In e (run2 NW inputs) -> 0 <= gq2 e kS) -> ins_nn (edgeD_ins inputs).
Proof. intros H. unfold ins_nn, edgeD_ins, edgeD_ins_from. apply Forall_forall. intros x Hx. apply in_map_iff in Hx. destruct Hx as ([i e] & E & Hie). subst x.
  cbn [fst snd]. unfold edgeD_in, i_sent. cbn [snd]. apply H. apply (in_combine_r _ _ _ _ Hie). Qed.

(* ---- the lead-time statements, transported from the reference delay line ---- *)
Notation rec inputs t := (nth t (run2 NW inputs) empty_st2).
Definition quietD_at (inputs : inputs2) (u : nat) : Prop :=
  disk2 NW (i_dis (nth u inputs dflt_input2)) n dTP = false /\ disk2 NW (i_dis (nth u inputs dflt_input2)) n dRP = false.

Theorem edgeD_lower inputs t : (L < length (d_pipe dD_init))%nat -> dl_nn dD_init -> (forall e, In e (run2 NW inputs) -> 0 <= gq2 e kS) ->
  (t + L < length inputs)%nat -> (forall u, (t <= u <= t + L)%nat -> quietD_at inputs u) ->
  gq2 (rec inputs t) kS <= gq2 (rec inputs (t + L)) kIS.
Proof. intros Hl Hd Hs Ht Hqt. destruct (refineD_nth inputs (t + L) Ht) as (R1 & _). rewrite R1. unfold edgeD_trace.
  pose proof (dl_lower L t (edgeD_ins inputs) dD_init Hl Hd (edgeD_ins_nn inputs Hs)) as X. rewrite edgeD_ins_length in X. specialize (X Ht).
  rewrite edgeD_ins_nth in X by lia. apply X. intros u Hu. rewrite edgeD_ins_nth by lia. apply (Hqt u Hu). Qed.

Theorem edgeD_exact inputs t : (L < length (d_pipe dD_init))%nat -> dl_empty_tail L dD_init ->
  (t + L < length inputs)%nat -> (forall u, (u <= t + L)%nat -> quietD_at inputs u) ->
  gq2 (rec inputs (t + L)) kIS == gq2 (rec inputs t) kS.
Proof. intros Hl Hd Ht Hqt. destruct (refineD_nth inputs (t + L) Ht) as (R1 & _). rewrite R1. unfold edgeD_trace.
  pose proof (dl_exact L t (edgeD_ins inputs) dD_init Hl Hd) as X. rewrite edgeD_ins_length in X. specialize (X Ht).
  rewrite edgeD_ins_nth in X by lia. apply X. intros u Hu. rewrite edgeD_ins_nth by lia. apply (Hqt u Hu). Qed.

(* nothing is lost and it is received after the disruption: once the pipeline has advanced L times in t .. t+k-1 (periods
   without transit pause) and receipt is not paused in t+k, the initial pipeline content and everything fed up to period t
   has been received by the end of period t+k *)
Theorem edgeD_cumul inputs t k : (L < length (d_pipe dD_init))%nat -> dl_nn dD_init -> dlD_tail0 L dD_init ->
  (forall e, In e (run2 NW inputs) -> 0 <= gq2 e kS) -> (t + k < length inputs)%nat ->
  (L <= cntD (fun u => negb (disk2 NW (i_dis (nth u inputs dflt_input2)) n dTP)) t k)%nat ->
  disk2 NW (i_dis (nth (t + k) inputs dflt_input2)) n dRP = false ->
  qsum (d_pipe dD_init) + qsum_range (fun u => gq2 (rec inputs u) kS) 0 (S t) <= qsum_range (fun u => gq2 (rec inputs u) kIS) 0 (S (t + k)).
Proof. intros Hl Hd Ht0 Hs Ht Hc Hrp.
  pose proof (dlD_cumul L t k (edgeD_ins inputs) dD_init Hl Hd (edgeD_ins_nn inputs Hs) Ht0) as X. rewrite edgeD_ins_length in X. specialize (X Ht).
  assert (E1 : qsum_range (fun u => i_sent (nth u (edgeD_ins inputs) din)) 0 (S t) == qsum_range (fun u => gq2 (rec inputs u) kS) 0 (S t)).
  { apply qsum_range_ext. intros i Hi. rewrite edgeD_ins_nth by lia. reflexivity. }
  assert (E2 : qsum_range (fun u => snd (nth u (dl_trace L dD_init (edgeD_ins inputs)) dout)) 0 (S (t + k)) == qsum_range (fun u => gq2 (rec inputs u) kIS) 0 (S (t + k))).
  { apply qsum_range_ext. intros i Hi. destruct (refineD_nth inputs i ltac:(lia)) as (R1 & _). rewrite R1. reflexivity. }
  assert (E3 : cntD (fun u => negb (i_tp (nth u (edgeD_ins inputs) din))) t k = cntD (fun u => negb (disk2 NW (i_dis (nth u inputs dflt_input2)) n dTP)) t k).
  { apply cntD_ext. intros i Hi. rewrite edgeD_ins_nth by lia. reflexivity. }
  rewrite E3 in X. specialize (X Hc). rewrite edgeD_ins_nth in X by lia. specialize (X Hrp).
  unfold dlD_total in X. cbn [dD_init d_held d_pipe] in X |- *. rewrite E1, E2 in X. lra. Qed.
End RefineD.

(* ---- instance: the edge p -> n, fed with the supplier's outbound shipments ---- *)
Section NdRunD.
Variable NW : net2.
Notation C := (cfg2 NW).
Hypothesis W : wfB_net2 NW.
Hypothesis O : once2 NW.
Variables (n p r : N).
Hypothesis HE : sup_edge NW n (Nd p) r.

Lemma ndD_period_ok s : period_okD NW n (Nd p) r (n_slt (C n)) (fOS, p, Nd n, r) s.
Proof. intros dis dem err. cbv zeta. pose proof (run_actionsD_edge_nd NW W O n p r HE dis dem err s) as E. cbv zeta in E.
  apply tripleD_inj in E. cbn [EKd recvd_eff fst snd] in E. destruct E as (E1 & E2 & E3). rewrite E1, E2, E3. split; [apply leq_refl|split; reflexivity]. Qed.
End NdRunD.

Lemma initD_pipe NW (W : wfB_net2 NW) n q r : sup_edge NW n q r -> gl2 (init_state2 NW) (fSP, n, q, r) = spinit2 NW n q.
Proof. intros (Hn & Hr & Hq). destruct (init_Qn2 NW n Hn) as [_ Q2]. exact (proj2 (Q2 r q Hr Hq)). Qed.

(* ================================================================================================ *)
(* 5. The external-supplier edge of (n, r): fed by n's own ordering step at slot olt + slt            *)
(* ================================================================================================ *)
Section EdgeExtD.
Variable NW : net2.
Notation C := (cfg2 NW).
Notation PC := (PC NW).
Notation RC := (RC NW).
Hypothesis W : wfB_net2 NW.
Hypothesis O : once2 NW.
Variables (n r : N).
Hypothesis HE : sup_edge NW n Ext r.
Notation Le := (n_olt (C n) + n_slt (C n))%nat.
Notation kSP := (fSP, n, Ext, r).
Notation kIS := (fIS, n, Ext, r).
Notation kIDI := (fIDI, n, Ext, r).
Notation kOQ := (fOQ, n, Ext, r).
Let eHn : In n (nodes2 NW) := proj1 HE.
Lemma extD_q_neq : Ext <> Nd n.  Proof. discriminate. Qed.

Section ExtPeriodD.
Variable (dis : N -> bool) (dem err : N -> N -> Q).

(* every placement for (r, Ext) adds to slot Le and to fOQ *)
Definition XInvd (s0 a : st2) : Prop := leq (gl2 a kSP) (add_at Le (gq2 a kOQ - gq2 s0 kOQ) (gl2 s0 kSP)).
Lemma place_oneD_xinv s0 a r' x : XInvd s0 a -> XInvd s0 (place_one2 NW n r' a x).
Proof. intros H1. destruct x as [q v]. unfold XInvd, place_one2. cbn [fst snd]. destruct q as [|p'].
  - destruct (N.eq_dec r' r) as [Er|NEr]; [subst r'|].
    + gs2.
      apply (leq_trans _ (add_at Le v (add_at Le (gq2 a kOQ - gq2 s0 kOQ) (gl2 s0 kSP)))); [apply leq_add_at; [reflexivity|exact H1]|].
      apply (leq_trans _ _ _ (leqD_add_at_add_at _ _ _ _)). apply leq_add_at; [lra|apply leq_refl].
    + gs2. exact H1.
  - gs2. exact H1. Qed.

Lemma ordersD_n_effect_ext s : let s' := orders_action2 NW dis dem err s n in
  leq (gl2 s' kSP) (add_at Le (gq2 s' kOQ - gq2 s kOQ) (gl2 s kSP)).
Proof. cbv zeta. unfold orders_action2. set (s1 := recv_orders2 NW (gen_demand2 NW dem s n) n).
  assert (A1 : gl2 s1 kSP = gl2 s kSP).
  { unfold s1, recv_orders2, recv_orders_prod. apply (fold_left_inv (fun a => gl2 a kSP = gl2 s kSP)).
    - intros a k _ Ha. apply (fold_left_inv (fun b => gl2 b kSP = gl2 s kSP)); [|exact Ha].
      intros b c _ Hb. unfold recv_order_one2. rewrite !gl2_addq2. rewrite gl2_sl2_other by (apply key2_neq_fld; discriminate). rewrite gl2_sq2. exact Hb.
    - unfold gen_demand2. apply (fold_left_inv (fun a => gl2 a kSP = gl2 s kSP)); [|reflexivity].
      intros a k _ Ha. destruct (has_ext _); [|exact Ha]. rewrite gl2_sl2_other by (apply key2_neq_fld; discriminate). exact Ha. }
  assert (A3 : gq2 s1 kOQ = gq2 s kOQ).
  { unfold s1. rewrite (agree_recv_orders NW (fun f => match f with fOQ => true | _ => false end) _ n eq_refl eq_refl eq_refl eq_refl eq_refl fOQ n Ext r eq_refl).
    apply gen_demandD_q. }
  assert (P1 : XInvd s s1) by (unfold XInvd; rewrite A1, A3; apply leqD_add_at_zero; lra).
  unfold place_orders2. destruct (disk2 NW dis n dOP); [exact P1|]. apply (fold_left_inv (XInvd s)); [|exact P1].
  intros a k _ Ha. unfold place_prod2. apply (fold_left_inv (XInvd s)).
  - intros b rb _ Hb. unfold place_rm2. apply (fold_left_inv (XInvd s)); [|exact Hb]. intros c x _ Hcx. apply place_oneD_xinv. exact Hcx.
  - unfold XInvd in *. gs2. exact Ha. Qed.

Lemma ordersD_phase_ext s : let s1 := fold_left (orders_action2 NW dis dem err) (order_visit2 NW) s in
  leq (gl2 s1 kSP) (add_at Le (gq2 s1 kOQ - gq2 s kOQ) (gl2 s kSP)).
Proof. cbv zeta. destruct (splitD_one (order_visit2 NW) n (o_ord NW O) (w_ord NW W n eHn)) as (l1 & l2 & E & H1 & H2).
  set (XK := fun a : st2 => (gl2 a kSP, gq2 a kOQ)).
  assert (F : forall l a, ~ In n l -> XK (fold_left (orders_action2 NW dis dem err) l a) = XK a).
  { intros l a Hl. apply foldD_keep. intros b m Hm. unfold XK.
    rewrite ordersD_sp by (right; intro X; subst; contradiction).
    rewrite (orders_q_other2 NW dis dem err b m fOQ n) by (intro X; subst; contradiction). reflexivity. }
  rewrite E, fold_left_app. cbn [fold_left].
  set (a := fold_left (orders_action2 NW dis dem err) l1 s).
  pose proof (F l2 (orders_action2 NW dis dem err a n) H2) as F2. pose proof (F l1 s H1) as F1. fold a in F1. unfold XK in F1, F2.
  assert (F21 := f_equal fst F2). assert (F22 := f_equal snd F2). assert (F11 := f_equal fst F1). assert (F12 := f_equal snd F1). cbn [fst snd] in F21, F22, F11, F12.
  rewrite F21, F22. pose proof (ordersD_n_effect_ext a) as X. cbv zeta in X. rewrite F11, F12 in X. exact X. Qed.
End ExtPeriodD.

Theorem extD_period_ok s : gq2 s kOQ == 0 -> period_okD NW n Ext r Le kOQ s.
Proof. intros Hz dis dem err. cbv zeta. unfold run_actions2.
  set (s1 := fold_left (orders_action2 NW dis dem err) (order_visit2 NW) s).
  pose proof (ordersD_phase_ext dis dem err s) as Oe. cbv zeta in Oe. fold s1 in Oe.
  assert (O2 : forall f, f = fIS \/ f = fIDI -> gq2 s1 (f, n, Ext, r) = gq2 s (f, n, Ext, r)).
  { intros f Hf. unfold s1. apply (foldD_keep (orders_action2 NW dis dem err) (fun a => gq2 a (f, n, Ext, r))). intros a m _.
    apply (agreeD_orders_action NW dis dem err (fun f => match f with fIS | fIDI => true | _ => false end) a m); try reflexivity. destruct Hf; subst f; reflexivity. }
  destruct (splitD_one (ship_visit2 NW) n (o_ship NW O) (w_ship NW W n eHn)) as (l1 & l2 & E & H1 & H2).
  assert (NM : forall l, ~ In Ext (map Nd l)) by (intros l X; apply in_map_iff in X; destruct X as (y & Ey & _); discriminate).
  assert (KQ : gq2 (fold_left (ships_action2 NW dis) (ship_visit2 NW) s1) kOQ = gq2 s1 kOQ).
  { apply (foldD_keep (ships_action2 NW dis) (fun a => gq2 a kOQ)). intros a m _.
    apply (agreeD_ships_action NW dis (fun f => match f with fOQ => true | _ => false end) a m); reflexivity. }
  rewrite KQ. rewrite E, fold_left_app. cbn [fold_left].
  set (a := fold_left (ships_action2 NW dis) l1 s1). set (d := ships_action2 NW dis a n). set (e := fold_left (ships_action2 NW dis) l2 d).
  pose proof (shipsD_fold_frame NW n Ext r dis l1 s1 H1 (NM l1)) as Fa. fold a in Fa.
  pose proof (shipsD_n_effect NW W O n Ext r HE extD_q_neq dis a) as Fd. fold d in Fd.
  pose proof (shipsD_fold_frame NW n Ext r dis l2 d H2 (NM l2)) as Fe. fold e in Fe.
  rewrite Fd, Fa in Fe. apply tripleD_inj in Fe. cbn [EKd recvd_eff fst snd] in Fe. destruct Fe as (E1 & E2 & E3). rewrite E1, E2, E3.
  rewrite (O2 fIDI) by tauto.
  assert (A : leq (gl2 s1 kSP) (add_at Le (gq2 s1 kOQ) (gl2 s kSP))).
  { apply (leq_trans _ _ _ Oe). apply leq_add_at; [rewrite Hz; lra|apply leq_refl]. }
  pose proof (leq_hd0 _ _ A) as A0.
  split; [apply leq_zero0; exact A|]. split; destruct (disk2 NW dis n dRP); try reflexivity; rewrite A0; reflexivity. Qed.

Lemma extD_next s dis' dem' err' : gq2 (next_period2 NW dis' (run_actions2 NW dis' dem' err' s)) kOQ == 0.
Proof. apply next_period_oq0. exact HE. Qed.
End EdgeExtD.
