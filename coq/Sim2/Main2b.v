(* Stage-2 simulator (multi-product networks with bills of materials), group B: CONSERVATION (C01, C03).
   Final forms: statements about every end-of-period record [e] of every run [run2 NW inputs] of every well-formed
   network ([goodB2b NW = true], a boolean), for every horizon, every disruption sequence, every error input [i_err]
   (the conservation laws do not depend on the order quantities) and - where the shipping arithmetic is involved -
   every non-negative demand sequence ([demB_ok2]).
   Proof architecture as in Stage 1: each invariant is preserved by every atomic node action for arbitrary arguments
   (Inv2b_book.v: BK2 RMB2 PD2; Inv2b_pipe.v: PL2 PC2, nothing pending / nothing dropped), holds initially (Inv2b_init.v),
   hence holds in every end-of-period state (ALLB2_run, PIP2_run, cleanB2_run). Inv2b_period.v: the cumulative ghost
   counters advance per period by exactly the record's per-period fields (needs [onceB2b]: exactly-once visits).

   What [goodB2b NW = true] asks (soundness: [goodB2b_sound : goodB2b NW = true -> wfB_net2 NW]; everything is relative to
   the nodes n of [nodes2 NW]) and where each component is used:
     w_prods  product list duplicate-free ............ raw-material balance (produce), fLOST = 0 (end-of-period shift)
     w_custs  customer list of a product dup-free ..... fLOST = 0, pending total PD2 (-> the fDC form of the inventory balance)
     w_bomk   raw-material ids of a BOM dup-free ...... raw-material balance
     w_bomv   BOM numbers >= 0 ........................ auxiliary non-negativity NNB2 (orders placed and quantities made >= 0)
     w_bomr   BOM raw materials are in n_rms .......... fLOST = 0 (with w_edge: orders go to predecessors only)
     w_pol    policy parameters give orders >= 0 ...... NNB2
     w_sups   supplier list of a raw material dup-free  raw-material balance (receipts)
     w_init   initial orders / shipments >= 0 ......... NNB2 (initial pipelines)
     w_cnode  customer nodes are nodes ................ NNB2 (initial order pipelines hold the customer's initial orders)
     w_edge   a node supplier p of raw material r of n is a predecessor of n (fLOST = 0: topological orders phase),
              is a node, has r among its products and n among r's customers (order ledger, on-order exactness,
              per-period edge form: the supplier-side pipeline / counters of the edge exist)
     w_nodup  node list dup-free ...................... fLOST = 0
     w_topo w_ord  orders phase visits every node, successors before predecessors ... fLOST = 0
     w_ship   shipments phase visits every node ....... fPIO = 0 at period ends (order conservation without fPIO, fDC form)
     w_ord_in w_ship_in  visited nodes are nodes ...... every preservation lemma that needs the node's well-formedness
   NNB2 (non-negativity of backorders / held items / pending orders / pipelines / order history) is needed only because
   the shipping arithmetic [serve_calc] conserves orders only for non-negative arguments; it needs [demB_ok2].
   The pipeline / edge / raw-material / ledger / length / fLOST theorems need neither NNB2 nor [demB_ok2]. *)
From SV Require Import Base.Qx.
From SV Require Import Sim.Model Sim.Obs Sim.StateLemmas Sim.Inv_base Sim.Inv_node Sim.Inv_bound Sim.Wfb.
From SV Require Import Sim2.State2 Sim2.Model2 Sim2.Obs2.
From SV Require Import Sim2.Inv2b_tac Sim2.Inv2b_book Sim2.Inv2b_pipe Sim2.Inv2b_init Sim2.Inv2b_period.

(* ---------- the decidable well-formedness predicate ---------- *)
Definition polB_ok2b (p : policy) (cp : option Q) : bool :=
  match p with SS rp lv => qleb rp lv | RQ _ q => qleb 0 q | FQ q => qleb 0 q | _ => true end
  && match cp with Some k => qleb 0 k | None => true end.
Definition prodB_okb (NW : net2) (n k : N) : bool :=
  let c := cfg2 NW n in let pc := n_pc c k in
  nodup_nb (k_custs pc) && nodupb (map fst (k_bom pc))
  && forallb (fun rb : N * Q => qleb 0 (snd rb) && memN (fst rb) (n_rms c)) (k_bom pc)
  && polB_ok2b (k_pol pc) (k_cap pc)
  && forallb (fun x => match x with Nd c' => memN c' (nodes2 NW) | Ext => true end) (k_custs pc).
Definition rmB_okb (NW : net2) (n r : N) : bool :=
  let c := cfg2 NW n in let rc := n_rc c r in
  nodup_nb (m_sups rc)
  && forallb (fun p => match p with
                       | Nd p' => memN p' (n_preds c) && memN p' (nodes2 NW) && memN r (n_prods (cfg2 NW p'))
                                  && existsb (nb_eqb (Nd n)) (k_custs (n_pc (cfg2 NW p') r))
                       | Ext => true end) (m_sups rc).
Definition nodeB_ok2b (NW : net2) (n : N) : bool :=
  let c := cfg2 NW n in
  nodupb (n_prods c) && forallb (prodB_okb NW n) (n_prods c) && forallb (rmB_okb NW n) (n_rms c)
  && qleb 0 (n_init_orders c) && qleb 0 (n_init_ships c).
Definition visitB_ok2b (NW : net2) : bool :=
  topob (skel NW) (order_visit2 NW)
  && forallb (fun n => memN n (order_visit2 NW)) (nodes2 NW) && forallb (fun n => memN n (ship_visit2 NW)) (nodes2 NW)
  && forallb (fun n => memN n (nodes2 NW)) (order_visit2 NW) && forallb (fun n => memN n (nodes2 NW)) (ship_visit2 NW)
  && nodupb (nodes2 NW).
Definition goodB2b (NW : net2) : bool := forallb (nodeB_ok2b NW) (nodes2 NW) && visitB_ok2b NW.

Ltac andbB_split H := repeat (apply andb_true_iff in H; let H' := fresh "B" in destruct H as [H H']).
Lemma existsb_nb_In a l : existsb (nb_eqb a) l = true -> In a l.
Proof. intros H. apply existsb_exists in H. destruct H as (y & Hy & E). unfold nb_eqb in E. destruct (nb_eq_dec a y); [subst; exact Hy|discriminate]. Qed.
Lemma polB_ok2b_sound p cp : polB_ok2b p cp = true -> polB_ok2 p cp.
Proof. unfold polB_ok2b, polB_ok2. intros H. apply andb_true_iff in H. destruct H as [H1 H2]. split.
  - destruct p; try exact I; apply qleb_true; exact H1.
  - destruct cp; [apply qleb_true; exact H2|exact I]. Qed.

Lemma nodeB_ok2b_sound NW n : nodeB_ok2b NW n = true -> wfB_node2 NW n.
Proof. unfold nodeB_ok2b. intros H. andbB_split H.
  assert (HP : forall k, In k (n_prods (cfg2 NW n)) -> prodB_okb NW n k = true) by (rewrite forallb_forall in B2; exact B2).
  assert (HR : forall r, In r (n_rms (cfg2 NW n)) -> rmB_okb NW n r = true) by (rewrite forallb_forall in B1; exact B1).
  constructor; unfold PC, RC.
  - apply nodupb_sound. exact H.
  - intros k Hk. pose proof (HP k Hk) as P. unfold prodB_okb in P. andbB_split P. apply nodup_nb_sound. exact P.
  - intros k Hk. pose proof (HP k Hk) as P. unfold prodB_okb in P. andbB_split P. apply nodupb_sound. assumption.
  - intros k rb Hk Hrb. pose proof (HP k Hk) as P. unfold prodB_okb in P. andbB_split P.
    match goal with X : forallb _ (k_bom _) = true |- _ => rewrite forallb_forall in X; specialize (X rb Hrb); apply andb_true_iff in X; destruct X as [X _]; apply qleb_true; exact X end.
  - intros k rb Hk Hrb. pose proof (HP k Hk) as P. unfold prodB_okb in P. andbB_split P.
    match goal with X : forallb _ (k_bom _) = true |- _ => rewrite forallb_forall in X; specialize (X rb Hrb); apply andb_true_iff in X; destruct X as [_ X]; apply memN_In; exact X end.
  - intros k Hk. pose proof (HP k Hk) as P. unfold prodB_okb in P. andbB_split P. apply polB_ok2b_sound. assumption.
  - intros r Hr. pose proof (HR r Hr) as R. unfold rmB_okb in R. andbB_split R. apply nodup_nb_sound. exact R.
  - split; apply qleb_true; assumption.
  - intros k c Hk Hc. pose proof (HP k Hk) as P. unfold prodB_okb in P. andbB_split P.
    match goal with X : forallb _ (k_custs _) = true |- _ => rewrite forallb_forall in X; specialize (X (Nd c) Hc); apply memN_In; exact X end.
  - intros r p Hr Hp. pose proof (HR r Hr) as R. unfold rmB_okb in R. andbB_split R.
    match goal with X : forallb _ (m_sups _) = true |- _ => rewrite forallb_forall in X; specialize (X (Nd p) Hp); cbv beta iota in X; andbB_split X end.
    repeat split; try (apply memN_In; assumption). apply existsb_nb_In. assumption. Qed.

Theorem goodB2b_sound NW : goodB2b NW = true -> wfB_net2 NW.
Proof. unfold goodB2b, visitB_ok2b. intros H. apply andb_true_iff in H. destruct H as [H V]. andbB_split V.
  constructor.
  - intros n Hn. rewrite forallb_forall in H. apply nodeB_ok2b_sound. apply H. exact Hn.
  - apply nodupb_sound. assumption.
  - apply topob_sound. assumption.
  - intros n Hn. match goal with X : forallb (fun n => memN n (order_visit2 NW)) _ = true |- _ => rewrite forallb_forall in X; apply memN_In, X; exact Hn end.
  - intros n Hn. match goal with X : forallb (fun n => memN n (ship_visit2 NW)) _ = true |- _ => rewrite forallb_forall in X; apply memN_In, X; exact Hn end.
  - intros n Hn. match goal with X : forallb _ (order_visit2 NW) = true |- _ => rewrite forallb_forall in X; apply memN_In, X; exact Hn end.
  - intros n Hn. match goal with X : forallb _ (ship_visit2 NW) = true |- _ => rewrite forallb_forall in X; apply memN_In, X; exact Hn end. Qed.

(* ---------- final theorems ---------- *)
Section Main2b.
Variable (NW : net2) (inputs : inputs2).
Notation C := (cfg2 NW).
Notation PC := (PC NW).
Notation RC := (RC NW).
Hypothesis G : goodB2b NW = true.
Hypothesis D : demB_ok2 inputs.

Lemma goodB_wf2 : wfB_net2 NW.  Proof. apply goodB2b_sound. exact G. Qed.
Lemma recB_all2 e : In e (run2 NW inputs) -> ALLB2 NW e.
Proof. intros H. pose proof (ALLB2_run NW goodB_wf2 inputs D) as F. rewrite Forall_forall in F. apply F. exact H. Qed.
Lemma recB_clean2 e : In e (run2 NW inputs) -> cleanB2 NW e.
Proof. intros H. pose proof (cleanB2_run NW goodB_wf2 inputs) as F. rewrite Forall_forall in F. apply F. exact H. Qed.
Lemma recB_pip2 e : In e (run2 NW inputs) -> PIP2 NW e.
Proof. intros H. pose proof (PIP2_run NW goodB_wf2 inputs) as F. rewrite Forall_forall in F. apply F. exact H. Qed.

(* ---- 1. order conservation per (node, customer, product) ---- *)
(* in ANY state satisfying the invariants (they are preserved by every atomic action, so also mid-period) *)
Theorem order_conservation2_general s n c k : ALLB2 NW s ->
  gq2 s (fcIO, n, c, k) == gq2 s (fcOS, n, c, k) + gq2 s (fBO, n, c, k) + gq2 s (fODI, n, c, k) + gq2 s (fPIO, n, c, k).
Proof. intros A. apply (bk2_order NW s (aB2_bk NW s A)). Qed.
Theorem order_conservation2 e n c k : In e (run2 NW inputs) -> cus_edge NW n c k ->
  gq2 e (fcIO, n, c, k) == gq2 e (fcOS, n, c, k) + gq2 e (fBO, n, c, k) + gq2 e (fODI, n, c, k).
Proof. intros H Hc. pose proof (order_conservation2_general e n c k (recB_all2 e H)) as E. destruct (recB_clean2 e H) as [_ Z]. rewrite (Z n c k Hc) in E. lra. Qed.

(* ---- 2. edge conservation per (customer node n, supplier, raw material r) ---- *)
Theorem edge_conservation2 e n p r : In e (run2 NW inputs) -> sup_edge NW n (Nd p) r ->
  gq2 e (fcOS, p, Nd n, r) + sp02 NW n == gq2 e (fcIS, n, Nd p, r) + qsum (gl2 e (fSP, n, Nd p, r)) + gq2 e (fIDI, n, Nd p, r).
Proof. intros H Hp. apply (pc2_edge NW e (p2_pc NW e (recB_pip2 e H))). exact Hp. Qed.
Theorem external_edge_conservation2 e n r : In e (run2 NW inputs) -> sup_edge NW n Ext r ->
  gq2 e (fcOQ, n, Ext, r) + (sp02 NW n + io02 NW n) == gq2 e (fcIS, n, Ext, r) + qsum (gl2 e (fSP, n, Ext, r)) + gq2 e (fIDI, n, Ext, r).
Proof. intros H Hp. apply (pc2_ext NW e (p2_pc NW e (recB_pip2 e H))). exact Hp. Qed.

(* ---- 3. inventory balance per product, raw-material balance with the bill of materials ---- *)
Theorem inventory_balance2 e n k : In e (run2 NW inputs) -> In n (nodes2 NW) -> In k (n_prods (C n)) ->
  gq2 e (fIL, n, Ext, k) == il02 NW n k + gq2 e (fCP, n, Ext, k) - gq2 e (fSRV, n, Ext, k).
Proof. intros H Hn Hk. pose proof (bk2_il NW e (aB2_bk NW e (recB_all2 e H)) n k Hn Hk). lra. Qed.
Lemma pend_zero2 e n k : In e (run2 NW inputs) -> In n (nodes2 NW) -> In k (n_prods (C n)) -> gq2 e (fPEND, n, Ext, k) == 0.
Proof. intros H Hn Hk. rewrite (aB2_pd NW e (recB_all2 e H) n k). unfold PIOsum. destruct (recB_clean2 e H) as [_ Z].
  apply qsumf_all_zero2. intros c Hc. apply Z. repeat split; assumption. Qed.
(* at period ends all received orders have been served: fSRV = fDC (stockpyl's demand_cumul) *)
Theorem inventory_balance2_dc e n k : In e (run2 NW inputs) -> In n (nodes2 NW) -> In k (n_prods (C n)) ->
  gq2 e (fIL, n, Ext, k) == il02 NW n k + gq2 e (fCP, n, Ext, k) - gq2 e (fDC, n, Ext, k).
Proof. intros H Hn Hk. pose proof (inventory_balance2 e n k H Hn Hk). pose proof (bk2_dc NW e (aB2_bk NW e (recB_all2 e H)) n k). pose proof (pend_zero2 e n k H Hn Hk). lra. Qed.
Theorem raw_material_balance2 e n r : In e (run2 NW inputs) ->
  gq2 e (fRM, n, Ext, r) == qsumf (fun p => gq2 e (fcIS, n, p, r)) (m_sups (RC n r))
                            - qsumf (fun k => nbom (PC n k) r * gq2 e (fCP, n, Ext, k)) (n_prods (C n)).
Proof. intros H. pose proof (p2_rm NW e (recB_pip2 e H) n r) as E. unfold CPsum, ISsum in E. lra. Qed.

(* ---- 4. order ledger / order pipeline ---- *)
Theorem nothing_lost2 e n x k : In e (run2 NW inputs) -> gq2 e (fLOST, n, x, k) == 0.
Proof. intros H. destruct (recB_clean2 e H) as [L _]. apply L. Qed.
Theorem order_ledger2 e n p r : In e (run2 NW inputs) -> sup_edge NW n (Nd p) r ->
  gq2 e (fcOQ, n, Nd p, r) + io02 NW n == qsum (gl2 e (fOP, p, Nd n, r)) + gq2 e (fcIO, p, Nd n, r).
Proof. intros H Hp. pose proof (pc2_ord NW e (p2_pc NW e (recB_pip2 e H)) n p r (sup_cus_edge NW n p r goodB_wf2 Hp)) as E.
  rewrite (nothing_lost2 e p (Nd n) r H) in E. lra. Qed.
Theorem pipeline_lengths2 e : In e (run2 NW inputs) ->
  (forall n p r, sup_edge NW n p r -> length (gl2 e (fSP, n, p, r)) = (n_olt (C n) + n_slt (C n) + 1)%nat) /\
  (forall p c k, cus_edge NW p (Nd c) k -> length (gl2 e (fOP, p, Nd c, k)) = (n_olt (C c) + 1)%nat).
Proof. intros H. pose proof (p2_pl NW e (recB_pip2 e H)) as [L1 L2]. split; [apply L1|apply L2]. Qed.

(* ---- 5. on-order exactness (C03) ---- *)
Theorem on_order_general2 s : wfB_net2 NW -> ALLB2 NW s ->
  (forall n p r, sup_edge NW n (Nd p) r ->
     gq2 s (fOO, n, Nd p, r) == qsum (gl2 s (fOP, p, Nd n, r)) + gq2 s (fBO, p, Nd n, r) + gq2 s (fODI, p, Nd n, r) + qsum (gl2 s (fSP, n, Nd p, r))
                               + gq2 s (fPIO, p, Nd n, r) + gq2 s (fLOST, p, Nd n, r)) /\
  (forall n r, sup_edge NW n Ext r -> gq2 s (fOO, n, Ext, r) == qsum (gl2 s (fSP, n, Ext, r))).
Proof. intros W [A1 A2 A3 A4 A5 A6]. split.
  - intros n p r Hp. pose proof (bk2_oo NW s A2 n (Nd p) r Hp) as E1.
    pose proof (pc2_ord NW s A6 n p r (sup_cus_edge NW n p r W Hp)) as E2. pose proof (bk2_order NW s A2 p (Nd n) r) as E3. pose proof (pc2_edge NW s A6 n p r Hp) as E4.
    unfold oo02, sp02, io02 in *. lra.
  - intros n r Hp. pose proof (bk2_oo NW s A2 n Ext r Hp) as E1. pose proof (pc2_ext NW s A6 n r Hp) as E2.
    unfold oo02, sp02, io02 in *. lra. Qed.
Theorem on_order_exact2 e n p r : In e (run2 NW inputs) -> sup_edge NW n (Nd p) r ->
  gq2 e (fOO, n, Nd p, r) == qsum (gl2 e (fOP, p, Nd n, r)) + gq2 e (fBO, p, Nd n, r) + gq2 e (fODI, p, Nd n, r) + qsum (gl2 e (fSP, n, Nd p, r)).
Proof. intros H Hp. destruct (on_order_general2 e goodB_wf2 (recB_all2 e H)) as [O1 _]. rewrite (O1 n p r Hp).
  destruct (recB_clean2 e H) as [L Z]. rewrite (L p (Nd n) r). rewrite (Z p (Nd n) r (sup_cus_edge NW n p r goodB_wf2 Hp)). lra. Qed.
Theorem on_order_exact_external2 e n r : In e (run2 NW inputs) -> sup_edge NW n Ext r ->
  gq2 e (fOO, n, Ext, r) == qsum (gl2 e (fSP, n, Ext, r)).
Proof. intros H Hp. destruct (on_order_general2 e goodB_wf2 (recB_all2 e H)) as [_ O2]. apply O2. exact Hp. Qed.
End Main2b.

(* ---------- per-period forms: consecutive records a (period t) and e (period t+1) ----------
   additional decidable hypothesis: every node is visited exactly once in each phase and raw-material lists are duplicate-free *)
Definition onceB2b (NW : net2) : bool :=
  nodupb (order_visit2 NW) && nodupb (ship_visit2 NW) && forallb (fun n => nodupb (n_rms (cfg2 NW n))) (nodes2 NW).
Theorem onceB2b_sound NW : onceB2b NW = true -> once2 NW.
Proof. unfold onceB2b. intros H. andbB_split H. constructor; [apply nodupb_sound; assumption|apply nodupb_sound; assumption|].
  intros n Hn. match goal with X : forallb _ (nodes2 NW) = true |- _ => rewrite forallb_forall in X; apply nodupb_sound, X; exact Hn end. Qed.

Lemma qsumf_scale_diff {A} (b u v : A -> Q) l : qsumf (fun k => b k * (u k - v k)) l == qsumf (fun k => b k * u k) l - qsumf (fun k => b k * v k) l.
Proof. unfold qsumf. induction l as [|x r IH]; cbn [map qsum]; [lra|]. rewrite IH. ring. Qed.

Section PerPeriod2b.
Variable (NW : net2) (inputs : inputs2).
Notation C := (cfg2 NW).
Notation PC := (PC NW).
Notation RC := (RC NW).
Hypothesis G : goodB2b NW = true.
Hypothesis G1 : onceB2b NW = true.
Hypothesis D : demB_ok2 inputs.
Variable t : nat.
Hypothesis Ht : (S t < length inputs)%nat.
Let a := nth t (run2 NW inputs) empty_st2.
Let e := nth (S t) (run2 NW inputs) empty_st2.
Lemma a_in2 : In a (run2 NW inputs).  Proof. apply nth_In. unfold run2. rewrite run_from2_length. lia. Qed.
Lemma e_in2 : In e (run2 NW inputs).  Proof. apply nth_In. unfold run2. rewrite run_from2_length. exact Ht. Qed.
Lemma adv2 :
  (forall m x k, cus_edge NW m x k -> gq2 e (fcIO, m, x, k) == gq2 a (fcIO, m, x, k) + gq2 e (fIO, m, x, k)
                                    /\ gq2 e (fcOS, m, x, k) == gq2 a (fcOS, m, x, k) + gq2 e (fOS, m, x, k)) /\
  (forall m p r, sup_edge NW m p r -> gq2 e (fcIS, m, p, r) == gq2 a (fcIS, m, p, r) + gq2 e (fIS, m, p, r)
                                    /\ gq2 e (fcOQ, m, p, r) == gq2 a (fcOQ, m, p, r) + gq2 e (fOQ, m, p, r)).
Proof. exact (counters_advance2 NW inputs (goodB_wf2 NW G) (onceB2b_sound NW G1) t Ht). Qed.

(* orders of a customer: this period's inbound order is shipped, or added to the backorders / held items *)
Theorem per_period_order_conservation2 m x k : cus_edge NW m x k ->
  gq2 e (fBO, m, x, k) + gq2 e (fODI, m, x, k) + gq2 e (fOS, m, x, k) == gq2 a (fBO, m, x, k) + gq2 a (fODI, m, x, k) + gq2 e (fIO, m, x, k).
Proof. intros Hc. destruct adv2 as [A _]. destruct (A m x k Hc) as [A1 A2].
  pose proof (order_conservation2 NW inputs G D e m x k e_in2 Hc). pose proof (order_conservation2 NW inputs G D a m x k a_in2 Hc). lra. Qed.
(* an edge p -> n, raw material r: shipped by p this period = received by n this period + change of n's inbound pipeline + change of the items held at n's door *)
Theorem per_period_edge2 n p r : sup_edge NW n (Nd p) r ->
  gq2 e (fOS, p, Nd n, r) == gq2 e (fIS, n, Nd p, r) + (qsum (gl2 e (fSP, n, Nd p, r)) - qsum (gl2 a (fSP, n, Nd p, r))) + (gq2 e (fIDI, n, Nd p, r) - gq2 a (fIDI, n, Nd p, r)).
Proof. intros Hs. destruct adv2 as [A B]. destruct (A p (Nd n) r (sup_cus_edge NW n p r (goodB_wf2 NW G) Hs)) as [_ A2]. destruct (B n (Nd p) r Hs) as [B1 _].
  pose proof (edge_conservation2 NW inputs G e n p r e_in2 Hs). pose proof (edge_conservation2 NW inputs G a n p r a_in2 Hs). lra. Qed.
Theorem per_period_external_edge2 n r : sup_edge NW n Ext r ->
  gq2 e (fOQ, n, Ext, r) == gq2 e (fIS, n, Ext, r) + (qsum (gl2 e (fSP, n, Ext, r)) - qsum (gl2 a (fSP, n, Ext, r))) + (gq2 e (fIDI, n, Ext, r) - gq2 a (fIDI, n, Ext, r)).
Proof. intros Hs. destruct adv2 as [_ B]. destruct (B n Ext r Hs) as [B1 B2].
  pose proof (external_edge_conservation2 NW inputs G e n r e_in2 Hs). pose proof (external_edge_conservation2 NW inputs G a n r a_in2 Hs). lra. Qed.
(* the order ledger: ordered by n from p this period = change of the order pipeline at p + received by p this period *)
Theorem per_period_order_ledger2 n p r : sup_edge NW n (Nd p) r ->
  gq2 e (fOQ, n, Nd p, r) == (qsum (gl2 e (fOP, p, Nd n, r)) - qsum (gl2 a (fOP, p, Nd n, r))) + gq2 e (fIO, p, Nd n, r).
Proof. intros Hs. destruct adv2 as [A B]. destruct (A p (Nd n) r (sup_cus_edge NW n p r (goodB_wf2 NW G) Hs)) as [A1 _]. destruct (B n (Nd p) r Hs) as [_ B2].
  pose proof (order_ledger2 NW inputs G e n p r e_in2 Hs). pose proof (order_ledger2 NW inputs G a n p r a_in2 Hs). lra. Qed.
(* on-order: previous on-order + ordered this period - received this period - change of the items held at the door *)
Theorem per_period_on_order2 n p r : sup_edge NW n p r ->
  gq2 e (fOO, n, p, r) == gq2 a (fOO, n, p, r) + gq2 e (fOQ, n, p, r) - gq2 e (fIS, n, p, r) - (gq2 e (fIDI, n, p, r) - gq2 a (fIDI, n, p, r)).
Proof. intros Hs. destruct adv2 as [_ B]. destruct (B n p r Hs) as [B1 B2].
  pose proof (bk2_oo NW e (aB2_bk NW e (recB_all2 NW inputs G D e e_in2)) n p r Hs). pose proof (bk2_oo NW a (aB2_bk NW a (recB_all2 NW inputs G D a a_in2)) n p r Hs). lra. Qed.
(* raw material: previous stock + receipts of this period from all suppliers - what the production of this period consumed *)
Theorem per_period_raw_material2 n r : In n (nodes2 NW) -> In r (n_rms (C n)) ->
  gq2 e (fRM, n, Ext, r) == gq2 a (fRM, n, Ext, r) + qsumf (fun p => gq2 e (fIS, n, p, r)) (m_sups (RC n r))
                            - qsumf (fun k => nbom (PC n k) r * (gq2 e (fCP, n, Ext, k) - gq2 a (fCP, n, Ext, k))) (n_prods (C n)).
Proof. intros Hn Hr. destruct adv2 as [_ B].
  pose proof (raw_material_balance2 NW inputs G e n r e_in2) as E1. pose proof (raw_material_balance2 NW inputs G a n r a_in2) as E2.
  assert (S : qsumf (fun p => gq2 e (fcIS, n, p, r)) (m_sups (RC n r)) == qsumf (fun p => gq2 a (fcIS, n, p, r)) (m_sups (RC n r)) + qsumf (fun p => gq2 e (fIS, n, p, r)) (m_sups (RC n r))).
  { rewrite (qsumf_ext (fun p => gq2 a (fcIS, n, p, r) + gq2 e (fIS, n, p, r))); [apply qsum_map_add|]. intros p Hp. cbv beta. apply (B n p r). repeat split; assumption. }
  rewrite qsumf_scale_diff. lra. Qed.
(* inventory level of a product: previous level + produced this period - orders received this period from all its customers *)
Theorem per_period_inventory2 n k : In n (nodes2 NW) -> In k (n_prods (C n)) ->
  gq2 e (fIL, n, Ext, k) == gq2 a (fIL, n, Ext, k) + (gq2 e (fCP, n, Ext, k) - gq2 a (fCP, n, Ext, k)) - qsumf (fun c => gq2 e (fIO, n, c, k)) (k_custs (PC n k)).
Proof. intros Hn Hk. destruct adv2 as [A _].
  pose proof (inventory_balance2_dc NW inputs G D e n k e_in2 Hn Hk) as E1. pose proof (inventory_balance2_dc NW inputs G D a n k a_in2 Hn Hk) as E2.
  pose proof (DCS2_run NW inputs (goodB_wf2 NW G)) as F. rewrite Forall_forall in F. pose proof (F e e_in2 n k) as D1. pose proof (F a a_in2 n k) as D2. unfold cIOsum in D1, D2.
  assert (S : qsumf (fun c => gq2 e (fcIO, n, c, k)) (k_custs (PC n k)) == qsumf (fun c => gq2 a (fcIO, n, c, k)) (k_custs (PC n k)) + qsumf (fun c => gq2 e (fIO, n, c, k)) (k_custs (PC n k))).
  { rewrite (qsumf_ext (fun c => gq2 a (fcIO, n, c, k) + gq2 e (fIO, n, c, k))); [apply qsum_map_add|]. intros c Hc. cbv beta. apply (A n c k). repeat split; assumption. }
  lra. Qed.
End PerPeriod2b.

(* ---------- a concrete multi-product network: the hypotheses are satisfiable and the run is non-trivial ----------
   nodes 1 and 2 both make item 10 (from external raw materials 100 / 101) and both supply it to node 3 (a raw material with
   two suppliers); node 3 makes products 30 (2 units of item 10 each) and 31 (3 units of item 10 each) - two products sharing a
   raw material, BOM numbers > 1 - sells both to the external customer and product 30 also to node 4; node 4 makes product 40
   from 2 units of product 30. Non-zero order / shipment lead times, initial orders and shipments; disruptions: order-pausing
   at node 1, shipment-pausing at node 3 (its suppliers hold the items), receipt-pausing at node 4. *)
Definition exB2_tbl : list (N * ncfg2) :=
  [ (1%N, {| n_prods := [10%N];
             n_pc := tbl dflt_pcfg [(10%N, {| k_pol := BS 14; k_cap := Some 12; k_init_il := None; k_hc := 1; k_pc := 0; k_ith := None; k_rev := 0;
                                             k_bom := [(100%N, 1)]; k_custs := [Nd 3%N] |})];
             n_rms := [100%N]; n_rc := tbl dflt_rcfg [(100%N, {| m_sups := [Ext]; m_price := None |})];
             n_preds := []; n_succs := [3%N]; n_slt := 1; n_olt := 0; n_dtype := Some dOP; n_init_orders := 0; n_init_ships := 2 |});
    (2%N, {| n_prods := [10%N];
             n_pc := tbl dflt_pcfg [(10%N, {| k_pol := SS 3 9; k_cap := None; k_init_il := Some 4; k_hc := 1; k_pc := 0; k_ith := None; k_rev := 0;
                                             k_bom := [(101%N, 1)]; k_custs := [Nd 3%N] |})];
             n_rms := [101%N]; n_rc := tbl dflt_rcfg [(101%N, {| m_sups := [Ext]; m_price := None |})];
             n_preds := []; n_succs := [3%N]; n_slt := 0; n_olt := 1; n_dtype := None; n_init_orders := 1; n_init_ships := 0 |});
    (3%N, {| n_prods := [30%N; 31%N];
             n_pc := tbl dflt_pcfg [(30%N, {| k_pol := BS 8; k_cap := None; k_init_il := Some 5; k_hc := 2; k_pc := 5; k_ith := Some (1#2); k_rev := 0;
                                             k_bom := [(10%N, 2)]; k_custs := [Nd 4%N; Ext] |});
                                    (31%N, {| k_pol := RQ 2 4; k_cap := None; k_init_il := Some 3; k_hc := 2; k_pc := 7; k_ith := None; k_rev := 1;
                                             k_bom := [(10%N, 3)]; k_custs := [Ext] |})];
             n_rms := [10%N]; n_rc := tbl dflt_rcfg [(10%N, {| m_sups := [Nd 1%N; Nd 2%N]; m_price := Some (1%N, 1) |})];
             n_preds := [1%N; 2%N]; n_succs := [4%N]; n_slt := 1; n_olt := 1; n_dtype := Some dSP; n_init_orders := 2; n_init_ships := 3 |});
    (4%N, {| n_prods := [40%N];
             n_pc := tbl dflt_pcfg [(40%N, {| k_pol := BS 6; k_cap := None; k_init_il := Some 2; k_hc := 3; k_pc := 8; k_ith := None; k_rev := 2;
                                             k_bom := [(30%N, 2)]; k_custs := [Ext] |})];
             n_rms := [30%N]; n_rc := tbl dflt_rcfg [(30%N, {| m_sups := [Nd 3%N]; m_price := Some (3%N, 2) |})];
             n_preds := [3%N]; n_succs := []; n_slt := 2; n_olt := 0; n_dtype := Some dRP; n_init_orders := 0; n_init_ships := 1 |}) ].
Definition exB2_net : net2 := {| nodes2 := map fst exB2_tbl; cfg2 := tbl dflt_ncfg2 exB2_tbl |}.
Definition exB2_inputs : inputs2 :=
  map (fun t : nat => {| i_dis := fun n : N => match n with 3%N => Nat.eqb (t mod 3) 1 | 1%N => Nat.eqb (t mod 4) 2 | 4%N => Nat.eqb (t mod 5) 3 | _ => false end;
                         i_dem := fun n k : N => match n, k with 3%N, 30%N => qnat (t mod 3) | 3%N, 31%N => qnat (2 + t mod 2) | 4%N, 40%N => qnat (1 + t mod 4) | _, _ => 0 end;
                         i_err := fun _ _ => 0 |})
      (seq 0 8).

Lemma exB2_good : goodB2b exB2_net = true.
Proof. vm_compute. reflexivity. Qed.
Lemma exB2_dem_ok : demB_ok2 exB2_inputs.
Proof. unfold demB_ok2, exB2_inputs. apply Forall_forall. intros i Hi. apply in_map_iff in Hi. destruct Hi as (t & E & _). subst. cbn [i_dem].
  intros n k. repeat match goal with |- 0 <= match ?x with _ => _ end => destruct x end; try apply qnat_nonneg; lra. Qed.
(* the run is non-trivial: in period 4 node 3 has backorders of product 30, node 1 holds items for the shipment-paused
   node 3, product 30 is in transit to node 4, and both products of node 3 have been produced (in fractional quantities:
   the shared raw material 10 is split proportionally); the supply relations quantified over in the theorems exist *)
Example main2b_nonvacuous : goodB2b exB2_net = true /\ onceB2b exB2_net = true /\ demB_ok2 exB2_inputs /\
  (sup_edge exB2_net 3%N (Nd 1%N) 10%N /\ sup_edge exB2_net 3%N (Nd 2%N) 10%N /\ sup_edge exB2_net 1%N Ext 100%N /\ cus_edge exB2_net 3%N (Nd 4%N) 30%N /\ cus_edge exB2_net 3%N Ext 31%N) /\
  exists e, In e (run2 exB2_net exB2_inputs) /\ 0 < gq2 e (fBO, 3%N, Ext, 30%N) /\ 0 < gq2 e (fODI, 1%N, Nd 3%N, 10%N)
            /\ 0 < qsum (gl2 e (fSP, 4%N, Nd 3%N, 30%N)) /\ 0 < gq2 e (fCP, 3%N, Ext, 30%N) /\ 0 < gq2 e (fCP, 3%N, Ext, 31%N)
            /\ nbom (PC exB2_net 3%N 30%N) 10%N == 2 /\ nbom (PC exB2_net 3%N 31%N) 10%N == 3.
Proof. split; [exact exB2_good|]. split; [vm_compute; reflexivity|]. split; [exact exB2_dem_ok|]. split.
  - unfold sup_edge, cus_edge. repeat split; cbn; auto 10.
  - exists (nth 4 (run2 exB2_net exB2_inputs) empty_st2). split; [apply nth_In; vm_compute; lia|]. vm_compute. repeat split; reflexivity. Qed.

Print Assumptions goodB2b_sound.
Print Assumptions order_conservation2_general.
Print Assumptions order_conservation2.
Print Assumptions edge_conservation2.
Print Assumptions external_edge_conservation2.
Print Assumptions inventory_balance2.
Print Assumptions inventory_balance2_dc.
Print Assumptions raw_material_balance2.
Print Assumptions nothing_lost2.
Print Assumptions order_ledger2.
Print Assumptions pipeline_lengths2.
Print Assumptions on_order_general2.
Print Assumptions on_order_exact2.
Print Assumptions on_order_exact_external2.
Print Assumptions onceB2b_sound.
Print Assumptions per_period_order_conservation2.
Print Assumptions per_period_edge2.
Print Assumptions per_period_external_edge2.
Print Assumptions per_period_order_ledger2.
Print Assumptions per_period_on_order2.
Print Assumptions per_period_raw_material2.
Print Assumptions per_period_inventory2.
Print Assumptions main2b_nonvacuous.
