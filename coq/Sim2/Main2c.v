(* Stage-2 simulator (multi-product networks with bills of materials), group C: ORDERS FOLLOW THE POLICY (C04) and COSTS (C05).
   Final forms.

   C04, action level - for EVERY state s, node n and input (dis, err); e = place_orders2 NW dis err s n:
     C04m_order_pausing                nothing is written while n is order-pausing disrupted
     C04m_order_follows_policy         fOQFG(n,Ext,k), fPFG(n,Ext,k) grow by min(capacity, rule(position observed by k at its
                                       turn + err)); [C04m_order_follows_policy_exact]: err n k == 0 (the exact model)
     C04m_first_supplier_gets_all      fOQ / fOO / fcOQ (n,p,r) grow by sum_k NBOM(k,r) x (growth of fOQFG(n,Ext,k)) if p is the
                                       first supplier of r, by 0 otherwise
     C04m_raw_material_orders_add_up   the sum over a duplicate-free non-empty supplier list
     C04m_on_order_same                on-order and the cumulative counter grow like fOQ
     C04m_order_pipeline / C04m_external_pipeline   the supplier's order pipeline (slot OLT) / the external shipment pipeline
                                       (slot OLT+SLT) grow by the growth of fOQ, all other slots are unchanged
     hypotheses: [wfC_node2 NW n] = product list of n duplicate-free (each product orders once) + raw-material ids of every
     bill of materials of n duplicate-free (NBOM = the table lookup); both are components of wfB_net2 / goodB2b.
   C04, run level - every end-of-period record e of every run, every horizon / disruption / demand / err sequence:
     C04m_run_first_supplier, C04m_run_orders_add_up   (goodB2b; the sum form also [supC2b]: every listed raw material has
                                       a supplier; no demand hypothesis, no exactly-once hypothesis)
     C04m_run_order_follows_policy     (goodB2b + onceB2b: the orders traversal visits n exactly once)
   C05:
     C05m_costs_match_spec             node_costs2 = specification written from the property text ([priceC2b]: the price table
                                       of a raw material holds its first node supplier and that supplier's holding rate)
     C05m_stockout_is_backorders       stockout cost = rate x backorders in every record of a run (good2b, group A)
     C05m_raw_material_charged_once, C05m_total_is_sum, C05m_costs_nonneg(_run) ([ratesC2b]: rates >= 0). *)
From SV Require Import Base.Qx.
From SV Require Import Sim.Model Sim.Obs Sim.StateLemmas Sim.Inv_base Sim.Inv_node Sim.Inv_bound Sim.Wfb.
From SV Require Import Sim2.State2 Sim2.Model2 Sim2.Obs2.
From SV Require Import Sim2.Inv2a_tac Sim2.Inv2a_nn Sim2.Inv2a_node Sim2.Inv2a_run Sim2.Wfb2 Sim2.Main2a.
From SV Require Import Sim2.Inv2b_tac Sim2.Inv2b_book Sim2.Inv2b_pipe Sim2.Inv2b_init Sim2.Inv2b_period Sim2.Main2b.
From SV Require Import Sim2.Inv2c_order Sim2.Inv2c_cost Sim2.Inv2c_refine.

(* ---------- the additional decidable hypotheses of group C ---------- *)
Definition supC2b (NW : net2) : bool :=
  forallb (fun n => forallb (fun r => match m_sups (RC NW n r) with [] => false | _ :: _ => true end) (n_rms (cfg2 NW n))) (nodes2 NW).
Definition priceC2b (NW : net2) : bool := forallb (fun n => forallb (priceC_okb NW n) (n_rms (cfg2 NW n))) (nodes2 NW).
Definition ratesC2b (NW : net2) : bool := forallb (ratesC_okb NW) (nodes2 NW).
Lemma supC2b_sound NW : supC2b NW = true -> forall n r, In n (nodes2 NW) -> In r (n_rms (cfg2 NW n)) -> m_sups (RC NW n r) <> [].
Proof. unfold supC2b. intros H n r Hn Hr. rewrite forallb_forall in H. specialize (H n Hn). rewrite forallb_forall in H. specialize (H r Hr).
  destruct (m_sups (RC NW n r)); [discriminate|congruence]. Qed.
Lemma priceC2b_sound NW : priceC2b NW = true -> forall n r, In n (nodes2 NW) -> In r (n_rms (cfg2 NW n)) -> priceC_ok NW n r.
Proof. unfold priceC2b. intros H n r Hn Hr. rewrite forallb_forall in H. specialize (H n Hn). rewrite forallb_forall in H. apply priceC_okb_sound, H, Hr. Qed.
Lemma ratesC2b_sound NW : ratesC2b NW = true -> forall n, In n (nodes2 NW) -> ratesC_ok NW n.
Proof. unfold ratesC2b. intros H n Hn. rewrite forallb_forall in H. apply ratesC_okb_sound, H, Hn. Qed.
Lemma goodB_wfC2 NW n : goodB2b NW = true -> In n (nodes2 NW) -> wfC_node2 NW n.
Proof. intros G Hn. apply (wfB_wfC2 NW (goodB2b_sound NW G) n Hn). Qed.

(* ====================== C04, action level ====================== *)
Theorem C04m_order_pausing : forall NW dis err s n, disk2 NW dis n dOP = true -> place_orders2 NW dis err s n = s.
Proof. exact place_orders2_pausedC. Qed.

Theorem C04m_order_follows_policy : forall NW dis err s n pre k post, NoDup (n_prods (cfg2 NW n)) -> n_prods (cfg2 NW n) = pre ++ k :: post ->
  let s_k := fold_left (fun s k' => place_prod2 NW err s n k') pre s in       (* the state when k's turn comes *)
  let q := if disk2 NW dis n dOP then 0
           else capq (k_cap (PC NW n k)) (rule (k_pol (PC NW n k)) (obs_ip2 NW s_k n k + err n k)) in
  gq2 (place_orders2 NW dis err s n) (fOQFG, n, Ext, k) == gq2 s (fOQFG, n, Ext, k) + q /\
  gq2 (place_orders2 NW dis err s n) (fPFG, n, Ext, k) == gq2 s (fPFG, n, Ext, k) + q.
Proof. exact place_orders2_fgC. Qed.
Theorem C04m_order_follows_policy_exact : forall NW dis err s n pre k post, NoDup (n_prods (cfg2 NW n)) -> n_prods (cfg2 NW n) = pre ++ k :: post ->
  err n k == 0 ->
  let s_k := fold_left (fun s k' => place_prod2 NW err s n k') pre s in
  gq2 (place_orders2 NW dis err s n) (fOQFG, n, Ext, k)
  == gq2 s (fOQFG, n, Ext, k) + (if disk2 NW dis n dOP then 0 else capq (k_cap (PC NW n k)) (rule (k_pol (PC NW n k)) (obs_ip2 NW s_k n k))).
Proof. intros NW dis err s n pre k post ND E Z. cbv zeta. destruct (place_orders2_fgC NW dis err s n pre k post ND E) as [H _]. cbv zeta in H. rewrite H.
  destruct (disk2 NW dis n dOP); [reflexivity|]. rewrite (policy_qtyC_exact NW err _ n k Z). reflexivity. Qed.
(* the position a product observes: inventory level + the units it could make from the raw materials in the pipeline (inventory + on
   order + held at the door, over all suppliers, minus what the pending finished goods of the node's OTHER products need, clamped
   at 0 product by product), minimised over its bill of materials, minus the orders received in this period *)
Theorem C04m_position_def : forall NW s n k,
  obs_ip2 NW s n k
  = gq2 s (fIL, n, Ext, k)
    + qmin_list (map (fun rb : N * Q =>
        fold_left (fun pl k2 => if N.eqb k2 k then pl else qmax 0 (pl - gq2 s (fPFG, n, Ext, k2) * nbom (PC NW n k2) (fst rb))) (n_prods (cfg2 NW n))
          (gq2 s (fRM, n, Ext, fst rb) + qsumf (fun p => gq2 s (fOO, n, p, fst rb) + gq2 s (fIDI, n, p, fst rb)) (m_sups (RC NW n (fst rb))))
        / snd rb) (k_bom (PC NW n k)))
    - qsumf (fun c => gq2 s (fIO, n, c, k)) (k_custs (PC NW n k)).
Proof. reflexivity. Qed.
(* the capacity bound and the rule forms (Stage 1's [rule] is reused: C04_base_stock_rule, C04_sS_rule, ... of Props/C04.v apply) *)
Theorem C04m_capacity : forall c q, (match c with Some k => capq c q == qmin q k /\ capq c q <= k | None => True end) /\ capq c q <= q.
Proof. exact capq_specC. Qed.

Theorem C04m_first_supplier_gets_all : forall NW dis err s n f p r, wfC_node2 NW n -> oqfC f = true ->      (* f = fOQ, fOO or fcOQ *)
  let e := place_orders2 NW dis err s n in
  gq2 e (f, n, p, r) == gq2 s (f, n, p, r)
     + (if first_supC (m_sups (RC NW n r)) p
        then qsumf (fun k => nbom (PC NW n k) r * (gq2 e (fOQFG, n, Ext, k) - gq2 s (fOQFG, n, Ext, k))) (n_prods (cfg2 NW n)) else 0).
Proof. exact place_orders2_first_supC. Qed.
Theorem C04m_raw_material_orders_add_up : forall NW dis err s n r, wfC_node2 NW n -> NoDup (m_sups (RC NW n r)) -> m_sups (RC NW n r) <> [] ->
  let e := place_orders2 NW dis err s n in
  qsumf (fun p => gq2 e (fOQ, n, p, r) - gq2 s (fOQ, n, p, r)) (m_sups (RC NW n r))
  == qsumf (fun k => nbom (PC NW n k) r * (gq2 e (fOQFG, n, Ext, k) - gq2 s (fOQFG, n, Ext, k))) (n_prods (cfg2 NW n)).
Proof. exact place_orders2_adds_upC. Qed.
Theorem C04m_on_order_same : forall NW dis err s n p r, wfC_node2 NW n ->
  let e := place_orders2 NW dis err s n in
  gq2 e (fOO, n, p, r) - gq2 s (fOO, n, p, r) == gq2 e (fOQ, n, p, r) - gq2 s (fOQ, n, p, r) /\
  gq2 e (fcOQ, n, p, r) - gq2 s (fcOQ, n, p, r) == gq2 e (fOQ, n, p, r) - gq2 s (fOQ, n, p, r).
Proof. exact place_orders2_on_order_sameC. Qed.
Theorem C04m_order_pipeline : forall NW dis err s n p r, let e := place_orders2 NW dis err s n in
  let d := gq2 e (fOQ, n, Nd p, r) - gq2 s (fOQ, n, Nd p, r) in
  (forall j, j <> n_olt (cfg2 NW n) -> nth j (gl2 e (fOP, p, Nd n, r)) 0 == nth j (gl2 s (fOP, p, Nd n, r)) 0) /\
  ((n_olt (cfg2 NW n) < length (gl2 s (fOP, p, Nd n, r)))%nat ->
     nth (n_olt (cfg2 NW n)) (gl2 e (fOP, p, Nd n, r)) 0 == nth (n_olt (cfg2 NW n)) (gl2 s (fOP, p, Nd n, r)) 0 + d /\
     qsum (gl2 e (fOP, p, Nd n, r)) == qsum (gl2 s (fOP, p, Nd n, r)) + d).
Proof. exact place_orders2_order_pipeC. Qed.
Theorem C04m_external_pipeline : forall NW dis err s n r, let e := place_orders2 NW dis err s n in
  let d := gq2 e (fOQ, n, Ext, r) - gq2 s (fOQ, n, Ext, r) in
  let i := (n_olt (cfg2 NW n) + n_slt (cfg2 NW n))%nat in
  (forall j, j <> i -> nth j (gl2 e (fSP, n, Ext, r)) 0 == nth j (gl2 s (fSP, n, Ext, r)) 0) /\
  ((i < length (gl2 s (fSP, n, Ext, r)))%nat ->
     nth i (gl2 e (fSP, n, Ext, r)) 0 == nth i (gl2 s (fSP, n, Ext, r)) 0 + d /\
     qsum (gl2 e (fSP, n, Ext, r)) == qsum (gl2 s (fSP, n, Ext, r)) + d).
Proof. exact place_orders2_ext_pipeC. Qed.
(* keys of other nodes are not written by the ordering step of n *)
Theorem C04m_other_nodes_untouched : forall NW dis err s n f n' x i, n' <> n -> gq2 (place_orders2 NW dis err s n) (f, n', x, i) = gq2 s (f, n', x, i).
Proof. exact place_orders2_node_otherC. Qed.

(* ====================== C04, run level ====================== *)
Section Run2c.
Variable (NW : net2) (inputs : inputs2).
Hypothesis G : goodB2b NW = true.
Lemma recC_oqs e : In e (run2 NW inputs) -> OQS2c NW e.
Proof. intros H. pose proof (OQS2c_run NW inputs (wfB_wfC2 NW (goodB2b_sound NW G))) as F. rewrite Forall_forall in F. apply F. exact H. Qed.
(* per supplier: the first supplier's order quantity on record is the bill-of-materials total, every other supplier's is 0 *)
Theorem C04m_run_first_supplier : forall e n p r, In e (run2 NW inputs) -> sup_edge NW n p r ->
  gq2 e (fOQ, n, p, r) == if first_supC (m_sups (RC NW n r)) p
                          then qsumf (fun k => nbom (PC NW n k) r * gq2 e (fOQFG, n, Ext, k)) (n_prods (cfg2 NW n)) else 0.
Proof. intros e n p r He E. apply (recC_oqs e He n p r E). Qed.
(* per raw material: orders to the suppliers add up to sum over the products of NBOM x finished-goods order (record fields of the period) *)
Theorem C04m_run_orders_add_up : supC2b NW = true -> forall e n r, In e (run2 NW inputs) -> In n (nodes2 NW) -> In r (n_rms (cfg2 NW n)) ->
  qsumf (fun p => gq2 e (fOQ, n, p, r)) (m_sups (RC NW n r)) == qsumf (fun k => nbom (PC NW n k) r * gq2 e (fOQFG, n, Ext, k)) (n_prods (cfg2 NW n)).
Proof. intros S e n r He Hn Hr. apply (OQS2c_sum NW e n r (recC_oqs e He) Hn Hr).
  - apply (w_sups NW n (w_node NW (goodB2b_sound NW G) n Hn) r Hr).
  - apply (supC2b_sound NW S n r Hn Hr). Qed.
(* the finished-goods order on record follows the policy (needs: the orders traversal visits n exactly once) *)
Theorem C04m_run_order_follows_policy : onceB2b NW = true -> forall t n pre k post, (t < length inputs)%nat ->
  In n (nodes2 NW) -> n_prods (cfg2 NW n) = pre ++ k :: post ->
  let e := nth t (run2 NW inputs) empty_st2 in let i := nth t inputs dflt_input2 in
  exists s0,   (* the state in which n's products start placing their orders in period t *)
    gq2 e (fOQFG, n, Ext, k)
    == if disk2 NW (i_dis i) n dOP then 0
       else capq (k_cap (PC NW n k)) (rule (k_pol (PC NW n k))
              (obs_ip2 NW (fold_left (fun s k' => place_prod2 NW (i_err i) s n k') pre s0) n k + i_err i n k)).
Proof. intros O t n pre k post Ht Hn E. pose proof (goodB2b_sound NW G) as W.
  apply (run_order_follows_policyC NW inputs t n pre k post (o_ord NW (onceB2b_sound NW O)) (w_ord NW W n Hn) Hn (w_prods NW n (w_node NW W n Hn)) E Ht). Qed.
End Run2c.

(* ====================== C04: the dynamic model's ordering step refines Sim/MultiOrder.v ====================== *)
(* [prod_rowsC NW s n], [rm_rowsC NW s n] = the rows of rationals read off state s at node n (Inv2c_refine.v); MO = Sim.MultiOrder *)
Theorem C04m_refines_order_step : forall NW dis err s n, goodB2b NW = true -> onceB2b NW = true -> In n (nodes2 NW) ->
  (forall k, In k (n_prods (cfg2 NW n)) -> err n k == 0) ->
  let '(oq, oqfg) := MO.order_step (disk2 NW dis n dOP) (prod_rowsC NW s n) (rm_rowsC NW s n) in
  let e := place_orders2 NW dis err s n in
  (forall k, gq2 e (fOQFG, n, Ext, k) == gq2 s (fOQFG, n, Ext, k) + MO.fg_get oqfg k) /\
  (forall k, gq2 e (fPFG, n, Ext, k) == gq2 s (fPFG, n, Ext, k) + MO.fg_get oqfg k) /\
  (forall r p, In r (n_rms (cfg2 NW n)) -> gq2 e (fOQ, n, p, r) == gq2 s (fOQ, n, p, r) + MO.oq_get oq r p) /\
  (forall r p, In r (n_rms (cfg2 NW n)) -> gq2 e (fOO, n, p, r) == gq2 s (fOO, n, p, r) + MO.oq_get oq r p).
Proof. intros NW dis err s n G O Hn Z. pose proof (w_node NW (goodB2b_sound NW G) n Hn) as Wn.
  apply place_orders2_refines_order_stepC. constructor.
  - apply (w_prods NW n Wn).
  - apply (w_bomk NW n Wn).
  - apply (w_bomr NW n Wn).
  - apply (o_rms NW (onceB2b_sound NW O) n Hn).
  - exact Z. Qed.
(* ... and the rows satisfy MultiOrder_proofs.mwf, so that C04_multi_* of Props/C04.v apply to them *)
Theorem C04m_rows_wellformed : forall NW err s n, goodB2b NW = true -> onceB2b NW = true -> supC2b NW = true -> In n (nodes2 NW) ->
  (forall k, In k (n_prods (cfg2 NW n)) -> err n k == 0) -> MP.mwf (prod_rowsC NW s n) (rm_rowsC NW s n).
Proof. intros NW err s n G O S Hn Z. pose proof (w_node NW (goodB2b_sound NW G) n Hn) as Wn.
  apply (rows_mwfC NW err s n).
  - constructor; [apply (w_prods NW n Wn)|apply (w_bomk NW n Wn)|apply (w_bomr NW n Wn)|apply (o_rms NW (onceB2b_sound NW O) n Hn)|exact Z].
  - intros r Hr. split; [apply (w_sups NW n Wn r Hr)|apply (supC2b_sound NW S n r Hn Hr)]. Qed.

(* ====================== C05 ====================== *)
Theorem C05m_costs_match_spec : forall NW e n, (forall r, In r (n_rms (cfg2 NW n)) -> priceC_ok NW n r) ->
  let k := node_costs2 NW e n in
  c_hc k == holding_specC NW e n /\ c_sc k = stockout_il_specC NW e n /\ c_ithc k = in_transit_specC NW e n /\ c_rev k = revenue_specC NW e n
  /\ c_tc k = c_hc k + c_sc k + c_ithc k - c_rev k.
Proof. exact costs_match_spec2c. Qed.
Theorem C05m_costs_match_spec_net : forall NW, priceC2b NW = true -> forall e n, In n (nodes2 NW) ->
  let k := node_costs2 NW e n in
  c_hc k == holding_specC NW e n /\ c_sc k = stockout_il_specC NW e n /\ c_ithc k = in_transit_specC NW e n /\ c_rev k = revenue_specC NW e n
  /\ c_tc k = c_hc k + c_sc k + c_ithc k - c_rev k.
Proof. intros NW P e n Hn. apply costs_match_spec2c. intros r Hr. apply (priceC2b_sound NW P n r Hn Hr). Qed.
(* stockout cost = rate x backorders, in every record of every run (group A: backorders = negative part of the inventory level) *)
Theorem C05m_stockout_is_backorders : forall NW inputs, good2b NW = true -> dem_ok2 inputs -> forall e n, In e (run2 NW inputs) ->
  c_sc (node_costs2 NW e n) == stockout_specC NW e n.
Proof. exact stockout_is_backorders2c. Qed.
Theorem C05m_raw_material_charged_once : forall NW e n, NoDup (n_rms (cfg2 NW n)) ->
  (forall r, In r (n_rms (cfg2 NW n)) <-> exists k, In k (n_prods (cfg2 NW n)) /\ In r (map fst (k_bom (PC NW n k)))) ->
  qsumf (rm_holdingC NW e n) (n_rms (cfg2 NW n)) == qsumf (rm_holdingC NW e n) (bom_rmsC NW n).
Proof. exact rm_holding_over_bomsC. Qed.
Theorem C05m_total_is_sum : forall NW recs,
  total_cost2 NW recs = qsum (map (fun e => qsum (map (fun n => c_tc (node_costs2 NW e n)) (nodes2 NW))) recs).
Proof. exact total_is_sum2c. Qed.
Theorem C05m_costs_nonneg : forall NW e n, NN2 e -> ratesC_ok NW n ->
  let k := node_costs2 NW e n in 0 <= c_hc k /\ 0 <= c_sc k /\ 0 <= c_ithc k.
Proof. exact costs_nonneg2c. Qed.
Theorem C05m_costs_nonneg_run : forall NW inputs, good2b NW = true -> dem_ok2 inputs -> ratesC2b NW = true ->
  forall e n, In e (run2 NW inputs) -> In n (nodes2 NW) ->
  let k := node_costs2 NW e n in 0 <= c_hc k /\ 0 <= c_sc k /\ 0 <= c_ithc k.
Proof. intros NW inputs G D R e n He Hn. apply (costs_nonneg_run2c NW inputs G D e n He). apply (ratesC2b_sound NW R n Hn). Qed.

(* ====================== the hypotheses are satisfiable, the statements are non-trivial ======================
   exB2_net (Main2b.v): node 3 makes products 30 (2 units of item 10) and 31 (3 units of item 10) - two products sharing a raw
   material with two suppliers (nodes 1 and 2), BOM numbers > 1, non-zero lead times, three disruption types. In period 1 product
   30 orders 5 and product 31 orders 4: 2*5 + 3*4 = 22 units of item 10 go to the first supplier (node 1), none to node 2. *)
Example main2c_nonvacuous :
  goodB2b exB2_net = true /\ onceB2b exB2_net = true /\ good2b exB2_net = true /\ supC2b exB2_net = true /\ priceC2b exB2_net = true /\ ratesC2b exB2_net = true /\
  dem_ok2 exB2_inputs /\ sup_edge exB2_net 3%N (Nd 1%N) 10%N /\ sup_edge exB2_net 3%N (Nd 2%N) 10%N /\
  (let e := nth 1 (run2 exB2_net exB2_inputs) empty_st2 in
   In e (run2 exB2_net exB2_inputs) /\ gq2 e (fOQFG, 3%N, Ext, 30%N) == 5 /\ gq2 e (fOQFG, 3%N, Ext, 31%N) == 4 /\
   gq2 e (fOQ, 3%N, Nd 1%N, 10%N) == 22 /\ gq2 e (fOQ, 3%N, Nd 2%N, 10%N) == 0 /\
   nbom (PC exB2_net 3%N 30%N) 10%N == 2 /\ nbom (PC exB2_net 3%N 31%N) 10%N == 3) /\
  (let e := nth 3 (run2 exB2_net exB2_inputs) empty_st2 in
   0 < c_sc (node_costs2 exB2_net e 3%N) /\ 0 < c_ithc (node_costs2 exB2_net e 3%N) /\ 0 < c_hc (node_costs2 exB2_net e 4%N) /\ 0 < c_rev (node_costs2 exB2_net e 3%N)
   /\ 0 < gq2 e (fRM, 4%N, Ext, 30%N) + gq2 e (fIDI, 4%N, Nd 3%N, 30%N)).
Proof. split; [exact exB2_good|]. split; [vm_compute; reflexivity|]. split; [vm_compute; reflexivity|]. split; [vm_compute; reflexivity|].
  split; [vm_compute; reflexivity|]. split; [vm_compute; reflexivity|]. split; [exact exB2_dem_ok|].
  split; [unfold sup_edge; repeat split; cbn; auto 10|]. split; [unfold sup_edge; repeat split; cbn; auto 10|].
  split; [cbv zeta; split; [apply nth_In; vm_compute; lia|vm_compute; repeat split; reflexivity]|vm_compute; repeat split; reflexivity]. Qed.

Print Assumptions C04m_order_pausing.
Print Assumptions C04m_order_follows_policy.
Print Assumptions C04m_order_follows_policy_exact.
Print Assumptions C04m_position_def.
Print Assumptions C04m_capacity.
Print Assumptions C04m_first_supplier_gets_all.
Print Assumptions C04m_raw_material_orders_add_up.
Print Assumptions C04m_on_order_same.
Print Assumptions C04m_order_pipeline.
Print Assumptions C04m_external_pipeline.
Print Assumptions C04m_other_nodes_untouched.
Print Assumptions C04m_run_first_supplier.
Print Assumptions C04m_run_orders_add_up.
Print Assumptions C04m_run_order_follows_policy.
Print Assumptions C04m_refines_order_step.
Print Assumptions C04m_rows_wellformed.
Print Assumptions C05m_costs_match_spec.
Print Assumptions C05m_costs_match_spec_net.
Print Assumptions C05m_stockout_is_backorders.
Print Assumptions C05m_raw_material_charged_once.
Print Assumptions C05m_total_is_sum.
Print Assumptions C05m_costs_nonneg.
Print Assumptions C05m_costs_nonneg_run.
Print Assumptions main2c_nonvacuous.
