(* Decidable version [good2b] of the well-formedness hypotheses of the Stage-2 simulator theorems (group A), with the
   soundness proof, so that the harness can evaluate it on every generated network and an Example can discharge it by
   computation. *)
From SV Require Import Sim.Model Sim.StateLemmas Sim.Inv_base.
From SV Require Import Sim2.State2 Sim2.Model2.
From SV Require Import Sim2.Inv2a_tac Sim2.Inv2a_nn Sim2.Inv2a_node Sim2.Inv2a_run Sim2.Inv2a_oo.

Fixpoint nodupb {A} (eqd : forall a b : A, {a = b} + {a <> b}) (l : list A) : bool :=
  match l with [] => true | a :: r => (if in_dec eqd a r then false else true) && nodupb eqd r end.
Lemma nodupb_sound {A} eqd (l : list A) : nodupb eqd l = true -> NoDup l.
Proof. induction l as [|a r IH]; cbn [nodupb]; intros H; [constructor|]. apply andb_true_iff in H. destruct H as [H1 H2].
  destruct (in_dec eqd a r) as [|Hn]; [discriminate|]. constructor; [exact Hn|apply IH; exact H2]. Qed.

Lemma qleb_true2 a b : qleb a b = true -> a <= b.
Proof. intros H. destruct (qleb_spec a b) as [[L _]|[_ E]]; [exact L|congruence]. Qed.
Lemma qltb_true2 a b : qltb a b = true -> a < b.
Proof. intros H. destruct (qltb_spec a b) as [[L _]|[_ E]]; [exact L|congruence]. Qed.

Definition pol_ok2b (pc : pcfg) : bool :=
  match k_pol pc with SS rp lv => qleb rp lv | RQ _ q => qleb 0 q | FQ q => qleb 0 q | _ => true end
  && match k_cap pc with Some k => qleb 0 k | None => true end.
Definition bom_okb (pc : pcfg) : bool :=
  nodupb N.eq_dec (map fst (k_bom pc)) && forallb (fun rb => qltb 0 (snd rb)) (k_bom pc).
Definition prod_ok2b (NW : net2) (n k : N) : bool :=
  let pc := PC NW n k in
  pol_ok2b pc && bom_okb pc && nodupb nb_eq_dec (k_custs pc)
  && match k_init_il pc with Some x => qleb 0 x | None => true end
  && forallb (fun c => match c with Nd x => qleb 0 (n_init_orders (cfg2 NW x)) | Ext => true end) (k_custs pc).
Definition node_ok2b (NW : net2) (n : N) : bool :=
  let c := cfg2 NW n in
  nodupb N.eq_dec (n_prods c) && forallb (prod_ok2b NW n) (n_prods c) && qleb 0 (n_init_orders c) && qleb 0 (n_init_ships c).
Definition good2b (NW : net2) : bool :=
  forallb (node_ok2b NW) (nodes2 NW)
  && forallb (fun n => memN n (nodes2 NW)) (order_visit2 NW)
  && forallb (fun n => memN n (nodes2 NW)) (ship_visit2 NW).

Lemma pol_ok2b_sound pc : pol_ok2b pc = true -> pol_ok2 pc.
Proof. unfold pol_ok2b, pol_ok2. intros H. apply andb_true_iff in H. destruct H as [H1 H2]. split.
  - destruct (k_pol pc); try exact I; apply qleb_true2; exact H1.
  - destruct (k_cap pc); [apply qleb_true2; exact H2|exact I]. Qed.
Lemma bom_okb_sound pc : bom_okb pc = true -> bom_ok pc.
Proof. unfold bom_okb, bom_ok. intros H. apply andb_true_iff in H. destruct H as [H1 H2]. split; [apply (nodupb_sound N.eq_dec); exact H1|].
  intros rb Hrb. rewrite forallb_forall in H2. apply qltb_true2, H2, Hrb. Qed.
Lemma prod_ok2b_sound NW n k : prod_ok2b NW n k = true -> prod_ok2 NW n k.
Proof. unfold prod_ok2b. intros H. cbv zeta in H. repeat (apply andb_true_iff in H; destruct H as [H ?]).
  constructor.
  - apply pol_ok2b_sound. unfold pol_ok2b. apply andb_true_iff; split; assumption.
  - apply bom_okb_sound; assumption.
  - apply (nodupb_sound nb_eq_dec); assumption.
  - destruct (k_init_il (PC NW n k)); [apply qleb_true2; assumption|exact I].
  - intros x Hx. match goal with X : forallb _ (k_custs _) = true |- _ => rewrite forallb_forall in X; specialize (X (Nd x) Hx); apply qleb_true2; exact X end. Qed.
Lemma node_ok2b_sound NW n : node_ok2b NW n = true -> node_ok2 NW n.
Proof. unfold node_ok2b. intros H. cbv zeta in H. repeat (apply andb_true_iff in H; destruct H as [H ?]).
  constructor.
  - apply (nodupb_sound N.eq_dec); assumption.
  - intros k Hk. apply prod_ok2b_sound. match goal with X : forallb _ (n_prods _) = true |- _ => rewrite forallb_forall in X; apply X; exact Hk end.
  - apply qleb_true2; assumption.
  - apply qleb_true2; assumption. Qed.
Lemma memN_In2 x l : memN x l = true -> In x l.
Proof. unfold memN. intros H. apply existsb_exists in H. destruct H as (y & Hy & E). apply N.eqb_eq in E. subst. exact Hy. Qed.

Theorem good2b_sound NW : good2b NW = true -> wf_net2 NW.
Proof. unfold good2b. intros H. apply andb_true_iff in H. destruct H as [H H3]. apply andb_true_iff in H. destruct H as [H1 H2].
  rewrite forallb_forall in H1, H2, H3. constructor.
  - intros n Hn. apply node_ok2b_sound, H1, Hn.
  - intros n Hn. apply memN_In2, H2, Hn.
  - intros n Hn. apply memN_In2, H3, Hn. Qed.

(* consistency of the customer tables with the supplier tables (needed only for the non-negativity of the on-order
   quantities): every customer node n listed for product k at node p is a node, has k among its raw materials and lists
   p among k's suppliers *)
Definition cons2b (NW : net2) : bool :=
  forallb (fun p => forallb (fun k => forallb (fun c => match c with
      | Nd n => memN n (nodes2 NW) && memN k (n_rms (cfg2 NW n)) && (if in_dec nb_eq_dec (Nd p) (m_sups (RC NW n k)) then true else false)
      | Ext => true end) (k_custs (PC NW p k))) (n_prods (cfg2 NW p))) (nodes2 NW).
Theorem cons2b_sound NW : cons2b NW = true -> cons2 NW.
Proof. unfold cons2b. intros H p n r (Hp & Hr & Hc). rewrite forallb_forall in H. specialize (H p Hp).
  rewrite forallb_forall in H. specialize (H r Hr). rewrite forallb_forall in H. specialize (H (Nd n) Hc). cbv beta iota in H.
  apply andb_true_iff in H. destruct H as [H H3]. apply andb_true_iff in H. destruct H as [H1 H2].
  split; [apply memN_In2; exact H1|]. split; [apply memN_In2; exact H2|].
  destruct (in_dec nb_eq_dec (Nd p) (m_sups (RC NW n r))) as [I|]; [exact I|discriminate]. Qed.
