(* Stage-2 simulator (multi-product networks), group D, part 1: POSITIONAL ORDER LEAD TIME (C03, first sentence, orders).
   For a supply relation (customer node n, supplier node p, raw material r):
     the order n places with p for r in period t  (fOQ (n, Nd p, r) of the period-t record: the period TOTAL over all the
     products of n that use r - the pipeline slot accumulates)
   is p's inbound order for (n, r) in period t + OLT(n)  (fIO (p, Nd n, r) of the period-(t+OLT(n)) record),
   and the first OLT(n) inbound orders are n's initial orders.
   Delay-line argument as in Stage 1 (Sim/Delay.v): per period the edge's order pipeline (fOP, p, Nd n, r) gets the new
   orders in its last slot (n's ordering step; several place_one2 steps may hit it), then p reads and clears slot 0
   (later in the same traversal: p is a predecessor of n), then the end-of-period shift drops slot 0. The pure part
   ([DL], [DL_output], [DL_delay]) is Stage 1's. *)
From SV Require Import Base.Qx.
From SV Require Import Sim.Model Sim.StateLemmas Sim.Inv_base Sim.Inv_node Sim.Inv_bound Sim.Single Sim.Delay.
From SV Require Import Sim2.State2 Sim2.Model2.
From SV Require Import Sim2.Inv2b_tac Sim2.Inv2b_book Sim2.Inv2b_pipe Sim2.Inv2b_init Sim2.Inv2b_period Sim2.Main2b.

(* ================================================================================================ *)
(* 0. Generic lemmas: folds seen through a projection, lists up to ==, visit orders                   *)
(* ================================================================================================ *)
(* every step leaves the projection alone *)
Lemma foldD_keep {S A X} (f : S -> A -> S) (pi : S -> X) l :
  (forall s b, In b l -> pi (f s b) = pi s) -> forall s, pi (fold_left f l s) = pi s.
Proof. intros H s. apply (fold_left_inv (fun a => pi a = pi s)); [|reflexivity]. intros a b Hb Ha. rewrite H by exact Hb. exact Ha. Qed.
(* a duplicate-free list: the step for [a] acts as [g] on the projection, every other step leaves it alone *)
Lemma foldD_once {S A X} (f : S -> A -> S) (pi : S -> X) (g : X -> X) (a : A) : forall l,
  (forall s, pi (f s a) = g (pi s)) -> (forall s b, In b l -> b <> a -> pi (f s b) = pi s) ->
  forall s, NoDup l -> In a l -> pi (fold_left f l s) = g (pi s).
Proof. induction l as [|b r IH]; intros Ha Hb s ND Hin; [destruct Hin|]. inversion ND as [|? ? Hnb Hr]; subst. cbn [fold_left].
  destruct Hin as [E|Hin].
  - subst b. rewrite foldD_keep; [apply Ha|]. intros s' b Hb'. apply Hb; [right; exact Hb'|]. intro E; subst; contradiction.
  - rewrite IH; [|exact Ha|intros s' b' Hb'; apply Hb; right; exact Hb'|exact Hr|exact Hin].
    rewrite Hb; [reflexivity|left; reflexivity|]. intro E; subst; contradiction. Qed.

Lemma leqD_map_Qred l : leq (map Qred l) l.
Proof. induction l as [|a r IH]; cbn [map]; constructor; [apply Qred_correct|exact IH]. Qed.
Lemma leqD_sym a b : leq a b -> leq b a.
Proof. induction 1; constructor; [symmetry; assumption|assumption]. Qed.
Lemma leqD_shift_op a b : leq a b -> leq (shift_op a) (shift_op b).
Proof. intros H. inversion H; subst; cbn [shift_op]; [constructor|]. apply leq_app; [assumption|apply leq_refl]. Qed.
Lemma leqD_add_at_zero i d l : d == 0 -> leq l (add_at i d l).
Proof. intros Hd. revert i. induction l as [|a r IH]; intros [|i]; cbn [add_at]; constructor; try lra; try apply leq_refl; apply IH. Qed.
(* two additions at the same slot accumulate *)
Lemma leqD_add_at_add_at i v w l : leq (add_at i v (add_at i w l)) (add_at i (w + v) l).
Proof. revert i. induction l as [|a r IH]; intros [|i]; cbn [add_at]; try constructor; try lra; try apply leq_refl; apply IH. Qed.
Lemma leqD_nth a b i : leq a b -> nth i a 0 == nth i b 0.
Proof. intros H. revert i. induction H as [|x y r s Hxy Hrs IH]; intros [|i]; cbn [nth]; try reflexivity; [exact Hxy|apply IH]. Qed.

Lemma nodupD_app_inv {A} (a b : list A) : NoDup (a ++ b) -> NoDup a /\ NoDup b /\ (forall x, In x a -> ~ In x b).
Proof. induction a as [|y r IH]; cbn [app]; intros H; [split; [constructor|split; [exact H|intros x []]]|].
  inversion H as [|? ? Hy Hr]; subst. destruct (IH Hr) as (I1 & I2 & I3). split; [|split].
  - constructor; [intro X; apply Hy; apply in_or_app; left; exact X|exact I1].
  - exact I2.
  - intros x [E|Hx]; [subst; intro X; apply Hy; apply in_or_app; right; exact X|apply I3; exact Hx]. Qed.

Section TopoD.
Variable K : net.
Lemma topoD_no_self l x : topo K l -> In x l -> ~ In x (preds (cfg K x)).
Proof. induction 1 as [|a r H1 H2 H3 IH]; intros Hx; [destruct Hx|]. destruct Hx as [E|Hx]; [subst; exact H1|apply IH; exact Hx]. Qed.
Lemma topoD_app a b : topo K (a ++ b) -> forall x m, In x a -> In m b -> ~ In x (preds (cfg K m)).
Proof. induction a as [|y r IH]; intros T x m Hx Hm; [destruct Hx|]. cbn [app] in T. inversion T as [|? ? T1 T2 T3]; subst.
  destruct Hx as [E|Hx]; [subst; apply T2; apply in_or_app; right; exact Hm|apply IH; assumption]. Qed.
(* a duplicate-free topological order (successors first) handles the customer n before its predecessor p *)
Lemma splitD_two l n p : NoDup l -> topo K l -> In n l -> In p l -> In p (preds (cfg K n)) ->
  exists l1 l2 l3, l = l1 ++ n :: l2 ++ p :: l3 /\ ~ In n l1 /\ ~ In p l1 /\ ~ In n l2 /\ ~ In p l2 /\ ~ In n l3 /\ ~ In p l3.
Proof. intros ND T Hn Hp Hpn.
  assert (NP : n <> p) by (intro E; subst p; exact (topoD_no_self l n T Hn Hpn)).
  destruct (in_split n l Hn) as (a & b & E). subst l.
  destruct (nodupD_app_inv a (n :: b) ND) as (NDa & NDnb & Dab). inversion NDnb as [|? ? Hnb NDb]; subst.
  assert (Hna : ~ In n a) by (intro X; apply (Dab n X); left; reflexivity).
  assert (Hpb : In p b).
  { apply in_app_or in Hp. destruct Hp as [Hp|[Hp|Hp]]; [|exfalso; apply NP; exact Hp|exact Hp].
    exfalso. apply (topoD_app a (n :: b) T p n Hp (or_introl eq_refl)). exact Hpn. }
  assert (Hpa : ~ In p a) by (intro X; apply (Dab p X); right; exact Hpb).
  destruct (in_split p b Hpb) as (c & d & E). subst b.
  destruct (nodupD_app_inv c (p :: d) NDb) as (NDc & NDpd & Dcd). inversion NDpd as [|? ? Hpd NDd]; subst.
  exists a, c, d. split; [reflexivity|]. repeat split.
  - exact Hna.
  - exact Hpa.
  - intro X. apply Hnb. apply in_or_app. left. exact X.
  - intro X. apply (Dcd p X). left. reflexivity.
  - intro X. apply Hnb. apply in_or_app. right. right. exact X.
  - exact Hpd. Qed.
End TopoD.

(* one element of a duplicate-free list *)
Lemma splitD_one {A} (l : list A) (a : A) : NoDup l -> In a l -> exists l1 l2, l = l1 ++ a :: l2 /\ ~ In a l1 /\ ~ In a l2.
Proof. intros ND Hin. destruct (in_split a l Hin) as (l1 & l2 & E). subst l. destruct (nodupD_app_inv l1 (a :: l2) ND) as (_ & ND2 & D).
  inversion ND2 as [|? ? H2 _]; subst. exists l1, l2. split; [reflexivity|]. split; [intro X; apply (D a X); left; reflexivity|exact H2]. Qed.

(* ================================================================================================ *)
(* 1. Frames of the two node actions (any set of rational fields they do not write)                   *)
(* ================================================================================================ *)
Section FramesD.
Variable (NW : net2) (dis : N -> bool) (dem err : N -> N -> Q).
Notation C := (cfg2 NW).
Notation PC := (PC NW).
Notation RC := (RC NW).

Lemma agreeD_orders_action fs s m :
  fs fIO = false -> fs fDC = false -> fs fPIO = false -> fs fPEND = false -> fs fcIO = false ->
  fs fOQFG = false -> fs fPFG = false -> fs fOQ = false -> fs fOO = false -> fs fcOQ = false ->
  agree fs s (orders_action2 NW dis dem err s m).
Proof. intros. unfold orders_action2.
  apply (agree_trans _ _ (gen_demand2 NW dem s m)); [apply agree_gen_demand|].
  apply (agree_trans _ _ (recv_orders2 NW (gen_demand2 NW dem s m) m)); [apply agree_recv_orders; assumption|apply agree_place_orders; assumption]. Qed.
Lemma agreeD_ships_action fs s m :
  fs fIS = false -> fs fRM = false -> fs fOO = false -> fs fIDI = false -> fs fcIS = false ->
  fs fIL = false -> fs fPFG = false -> fs fCP = false ->
  fs fOS = false -> fs fDMFS = false -> fs fDMC = false -> fs fBO = false -> fs fODI = false ->
  fs fPIO = false -> fs fPEND = false -> fs fSRV = false -> fs fcOS = false -> fs fFR = false ->
  agree fs s (ships_action2 NW dis s m).
Proof. intros. unfold ships_action2.
  apply (agree_trans _ _ (recv_ship2 NW dis s m)); [apply agree_recv_ship; assumption|].
  apply (agree_trans _ _ (produce2 NW (recv_ship2 NW dis s m) m)); [apply agree_produce; assumption|].
  apply (agree_trans _ _ (fold_left (fun s0 k => serve2 NW dis s0 m k (gq2 s (fIL, m, Ext, k)) (made2 NW (recv_ship2 NW dis s m) m k)) (n_prods (C m)) (produce2 NW (recv_ship2 NW dis s m) m)));
    [apply agree_serves; assumption|apply agree_fill_rate; assumption]. Qed.
Lemma agreeD_fold {A} fs (f : st2 -> A -> st2) l s : (forall a x, agree fs a (f a x)) -> agree fs s (fold_left f l s).
Proof. intros H. apply fold_left_inv; [|apply agree_refl]. intros a x _ Ha. apply (agree_trans _ _ _ _ Ha). apply H. Qed.

(* the rational keys written by the ordering step of node m all belong to node m *)
Lemma place_ordersD_q_other s m f n' x i : n' <> m -> gq2 (place_orders2 NW dis err s m) (f, n', x, i) = gq2 s (f, n', x, i).
Proof. intros Hne. assert (HK : forall g y j, (f, n', x, i) <> (g, m, y, j)) by (intros g y j E; inversion E; subst; apply Hne; reflexivity).
  unfold place_orders2. destruct (disk2 NW dis m dOP); [reflexivity|].
  apply (fold_left_inv (fun a => gq2 a (f, n', x, i) = gq2 s (f, n', x, i))); [|reflexivity].
  intros a k _ Ha. unfold place_prod2. apply (fold_left_inv (fun a => gq2 a (f, n', x, i) = gq2 s (f, n', x, i))); [|qother HK; exact Ha].
  intros c rb _ Hc. unfold place_rm2. apply (fold_left_inv (fun a => gq2 a (f, n', x, i) = gq2 s (f, n', x, i))); [|exact Hc].
  intros d y _ Hd. unfold place_one2. qother HK. destruct (fst y); rewrite gq2_sl2; exact Hd. Qed.
(* the order pipelines written by the ordering step of node m are those of the edges (_, Nd m) *)
Lemma place_ordersD_op_other s m p x i : x <> Nd m -> gl2 (place_orders2 NW dis err s m) (fOP, p, x, i) = gl2 s (fOP, p, x, i).
Proof. intros Hne. unfold place_orders2. destruct (disk2 NW dis m dOP); [reflexivity|].
  apply (fold_left_inv (fun a => gl2 a (fOP, p, x, i) = gl2 s (fOP, p, x, i))); [|reflexivity].
  intros a k _ Ha. unfold place_prod2. apply (fold_left_inv (fun b => gl2 b (fOP, p, x, i) = gl2 s (fOP, p, x, i))); [|rewrite !gl2_addq2; exact Ha].
  intros b rb _ Hb. unfold place_rm2. apply (fold_left_inv (fun c => gl2 c (fOP, p, x, i) = gl2 s (fOP, p, x, i))); [|exact Hb].
  intros c y _ Hc. unfold place_one2. rewrite !gl2_addq2. destruct (fst y) as [|p'].
  - rewrite gl2_sl2_other by (apply key2_neq_fld; discriminate). exact Hc.
  - rewrite gl2_sl2_other; [exact Hc|]. intro E. inversion E; subst. apply Hne. reflexivity. Qed.
(* generating the external demand writes order pipelines of external customers only *)
Lemma gen_demandD_op_nd s m p c i : gl2 (gen_demand2 NW dem s m) (fOP, p, Nd c, i) = gl2 s (fOP, p, Nd c, i).
Proof. unfold gen_demand2. apply (fold_left_inv (fun a => gl2 a (fOP, p, Nd c, i) = gl2 s (fOP, p, Nd c, i))); [|reflexivity].
  intros a k _ Ha. destruct (has_ext _); [|exact Ha]. rewrite gl2_sl2_other; [exact Ha|]. intro E. inversion E. Qed.
Lemma gen_demandD_q s m K : gq2 (gen_demand2 NW dem s m) K = gq2 s K.
Proof. unfold gen_demand2. apply (fold_left_inv (fun a => gq2 a K = gq2 s K)); [|reflexivity].
  intros a k _ Ha. destruct (has_ext _); [rewrite gq2_sl2|]; exact Ha. Qed.
End FramesD.

(* ================================================================================================ *)
(* 2. One period, seen from the order side of the edge n -> p, raw material r                         *)
(* ================================================================================================ *)
Section Delay2.
Variable NW : net2.
Notation C := (cfg2 NW).
Notation PC := (PC NW).
Notation RC := (RC NW).
Hypothesis W : wfB_net2 NW.
Hypothesis O : once2 NW.
Variables (n p r : N).
Hypothesis HE : sup_edge NW n (Nd p) r.
Notation L := (n_olt (C n)).
Notation kOP := (fOP, p, Nd n, r).
Notation kIO := (fIO, p, Nd n, r).
Notation kOQ := (fOQ, n, Nd p, r).

Let eHn : In n (nodes2 NW) := proj1 HE.
Let eHr : In r (n_rms (C n)) := proj1 (proj2 HE).
Let eHs : In (Nd p) (m_sups (RC n r)) := proj2 (proj2 HE).
Let eWn : wfB_node2 NW n := w_node NW W n eHn.
Let eHpp : In p (n_preds (C n)) := proj1 (w_edge NW n eWn r p eHr eHs).
Let eHp : In p (nodes2 NW) := proj1 (proj2 (w_edge NW n eWn r p eHr eHs)).
Let eHk : In r (n_prods (C p)) := proj1 (proj2 (proj2 (w_edge NW n eWn r p eHr eHs))).
Let eHc : In (Nd n) (k_custs (PC p r)) := proj2 (proj2 (proj2 (w_edge NW n eWn r p eHr eHs))).
Let eWp : wfB_node2 NW p := w_node NW W p eHp.

Lemma edgeD_n_neq_p : n <> p.
Proof. intro E. apply (topoD_no_self (skel NW) (order_visit2 NW) n (w_topo NW W) (w_ord NW W n eHn)).
  change (In n (n_preds (C n))). rewrite E at 1. exact eHpp. Qed.
Let NP := edgeD_n_neq_p.

Variable (dis : N -> bool) (dem err : N -> N -> Q).

(* the three keys of the order side *)
Definition OKd (s : st2) : list Q * Q * Q := (gl2 s kOP, gq2 s kIO, gq2 s kOQ).

Lemma OKd_inj (x y : list Q * Q * Q) : x = y -> fst (fst x) = fst (fst y) /\ snd (fst x) = snd (fst y) /\ snd x = snd y.
Proof. intros H. rewrite H. repeat split. Qed.

(* ---- other nodes' ordering steps do not touch them ---- *)
Lemma ordersD_frame s m : m <> n -> m <> p -> OKd (orders_action2 NW dis dem err s m) = OKd s.
Proof. intros Hmn Hmp. unfold OKd.
  rewrite (orders_q_other2 NW dis dem err s m fIO p) by (intro E; apply Hmp; symmetry; exact E).
  rewrite (orders_q_other2 NW dis dem err s m fOQ n) by (intro E; apply Hmn; symmetry; exact E).
  f_equal. f_equal. unfold orders_action2.
  rewrite place_ordersD_op_other by (intro E; inversion E; subst; apply Hmn; reflexivity).
  rewrite recv_orders_op by exact Hmp. apply gen_demand_op. exact Hmp. Qed.

(* ---- the customer's ordering step: every placement for (r, p) adds to the last slot and to fOQ ---- *)
Definition PInvd (s0 a : st2) : Prop :=
  leq (gl2 a kOP) (add_at L (gq2 a kOQ - gq2 s0 kOQ) (gl2 s0 kOP)) /\ gq2 a kIO = gq2 s0 kIO.
Lemma place_oneD_inv s0 a r' x : PInvd s0 a -> PInvd s0 (place_one2 NW n r' a x).
Proof. intros [H1 H2]. destruct x as [q v]. unfold PInvd, place_one2. cbn [fst snd]. destruct q as [|p'].
  - gs2. split; assumption.
  - destruct (N.eq_dec p' p) as [Ep|NEp]; [subst p'; destruct (N.eq_dec r' r) as [Er|NEr]; [subst r'|]|].
    + gs2. split; [|exact H2].
      apply (leq_trans _ (add_at L v (add_at L (gq2 a kOQ - gq2 s0 kOQ) (gl2 s0 kOP)))); [apply leq_add_at; [reflexivity|exact H1]|].
      apply (leq_trans _ _ _ (leqD_add_at_add_at _ _ _ _)). apply leq_add_at; [lra|apply leq_refl].
    + gs2. split; assumption.
    + gs2. split; assumption. Qed.
Lemma place_prodD_inv s0 a k : PInvd s0 a -> PInvd s0 (place_prod2 NW err a n k).
Proof. intros H. unfold place_prod2. apply fold_left_inv.
  - intros b rb _ Hb. unfold place_rm2. apply fold_left_inv; [|exact Hb]. intros c x _ Hcx. apply place_oneD_inv. exact Hcx.
  - destruct H as [H1 H2]. unfold PInvd. gs2. split; assumption. Qed.

Lemma ordersD_effect_n s : let s' := orders_action2 NW dis dem err s n in
  gq2 s' kIO = gq2 s kIO /\ leq (gl2 s' kOP) (add_at L (gq2 s' kOQ - gq2 s kOQ) (gl2 s kOP)).
Proof. cbv zeta. unfold orders_action2. set (s1 := recv_orders2 NW (gen_demand2 NW dem s n) n).
  assert (A : OKd s1 = OKd s).
  { unfold OKd, s1. rewrite recv_orders_op by exact NP. rewrite gen_demand_op by exact NP.
    rewrite (agree_recv_orders NW (fun f => match f with fOQ => true | _ => false end) _ n eq_refl eq_refl eq_refl eq_refl eq_refl fOQ n (Nd p) r eq_refl).
    rewrite (gen_demandD_q NW dem s n kOQ).
    assert (E : gq2 (recv_orders2 NW (gen_demand2 NW dem s n) n) kIO = gq2 s kIO); [|rewrite E; reflexivity].
    unfold recv_orders2. rewrite <- (gen_demandD_q NW dem s n kIO).
    apply (fold_left_inv (fun a => gq2 a kIO = gq2 (gen_demand2 NW dem s n) kIO)); [|reflexivity].
    intros a k _ Ha. rewrite recv_prod_other; [exact Ha|]. intro E. apply NP. congruence. }
  apply OKd_inj in A. cbn [OKd fst snd] in A. destruct A as (A1 & A2 & A3).
  assert (P1 : PInvd s s1).
  { split; [|exact A2]. rewrite A1, A3. apply leqD_add_at_zero. lra. }
  assert (P2 : PInvd s (place_orders2 NW dis err s1 n)).
  { unfold place_orders2. destruct (disk2 NW dis n dOP); [exact P1|]. apply fold_left_inv; [|exact P1]. intros a k _ Ha. apply place_prodD_inv. exact Ha. }
  destruct P2 as [P21 P22]. split; assumption. Qed.

(* ---- the supplier's ordering step: it reads and clears slot 0 ---- *)
Definition recvD_eff (x : list Q * Q * Q) : list Q * Q * Q := (zero0 (fst (fst x)), hd0 (fst (fst x)), snd x).
Lemma ordersD_effect_p s : OKd (orders_action2 NW dis dem err s p) = recvD_eff (OKd s).
Proof. unfold orders_action2. set (s0 := gen_demand2 NW dem s p).
  assert (G : OKd s0 = OKd s) by (unfold OKd, s0; rewrite gen_demandD_op_nd, !gen_demandD_q; reflexivity).
  assert (R : OKd (recv_orders2 NW s0 p) = recvD_eff (OKd s0)).
  { unfold recv_orders2. apply (foldD_once (recv_orders_prod NW p) OKd recvD_eff r); [| |apply (w_prods NW p eWp)|exact eHk].
    - intros a. unfold recv_orders_prod. apply (foldD_once (recv_order_one2 p r) OKd recvD_eff (Nd n)); [| |apply (w_custs NW p eWp r eHk)|exact eHc].
      + intros b. unfold OKd, recvD_eff, recv_order_one2. cbn [fst snd]. gs2. reflexivity.
      + intros b c _ Hne. unfold OKd, recv_order_one2. gs2. reflexivity.
    - intros a k _ Hne. unfold recv_orders_prod. apply foldD_keep. intros b c _. unfold OKd, recv_order_one2. gs2. reflexivity. }
  assert (P : OKd (place_orders2 NW dis err (recv_orders2 NW s0 p) p) = OKd (recv_orders2 NW s0 p)).
  { unfold OKd. rewrite place_ordersD_op_other by (intro E; apply NP; congruence).
    rewrite (place_ordersD_q_other NW dis err _ p fOQ n) by exact NP.
    rewrite (agree_place_orders NW dis err (fun f => match f with fIO => true | _ => false end) _ p eq_refl eq_refl eq_refl eq_refl eq_refl fIO) by reflexivity.
    reflexivity. }
  rewrite P, R, G. reflexivity. Qed.

(* ---- the whole orders phase ---- *)
Lemma ordersD_fold_frame l s : ~ In n l -> ~ In p l -> OKd (fold_left (orders_action2 NW dis dem err) l s) = OKd s.
Proof. intros H1 H2. apply foldD_keep. intros a m Hm. apply ordersD_frame; intro E; subst; contradiction. Qed.

Theorem ordersD_phase_edge s : let s1 := fold_left (orders_action2 NW dis dem err) (order_visit2 NW) s in
  let d := gq2 s1 kOQ - gq2 s kOQ in
  leq (gl2 s1 kOP) (zero0 (add_at L d (gl2 s kOP))) /\ gq2 s1 kIO == hd0 (add_at L d (gl2 s kOP)).
Proof. cbv zeta.
  destruct (splitD_two (skel NW) (order_visit2 NW) n p (o_ord NW O) (w_topo NW W) (w_ord NW W n eHn) (w_ord NW W p eHp) eHpp)
    as (l1 & l2 & l3 & E & N1 & P1 & N2 & P2 & N3 & P3).
  rewrite E. rewrite fold_left_app. cbn [fold_left]. rewrite fold_left_app. cbn [fold_left].
  set (a := fold_left (orders_action2 NW dis dem err) l1 s).
  set (b := orders_action2 NW dis dem err a n).
  set (c := fold_left (orders_action2 NW dis dem err) l2 b).
  set (e := orders_action2 NW dis dem err c p).
  pose proof (ordersD_fold_frame l1 s N1 P1) as Fa. fold a in Fa.
  destruct (ordersD_effect_n a) as (B2 & B1). fold b in B1, B2.
  pose proof (ordersD_fold_frame l2 b N2 P2) as Fc. fold c in Fc.
  pose proof (ordersD_effect_p c) as Fe. fold e in Fe.
  pose proof (ordersD_fold_frame l3 e N3 P3) as Ff.
  rewrite Fe, Fc in Ff. apply OKd_inj in Ff. apply OKd_inj in Fa. cbn [OKd recvD_eff fst snd] in Ff, Fa. destruct Ff as (F1 & F2 & F3). destruct Fa as (A1 & A2 & A3).
  rewrite F1, F2, F3. rewrite A1, A3 in B1.
  split; [apply leq_zero0; exact B1|apply leq_hd0; exact B1]. Qed.

(* the shipments phase does not touch the edge's order keys *)
Lemma run_actionsD_edge s : let e := run_actions2 NW dis dem err s in
  let d := gq2 e kOQ - gq2 s kOQ in
  leq (gl2 e kOP) (zero0 (add_at L d (gl2 s kOP))) /\ gq2 e kIO == hd0 (add_at L d (gl2 s kOP)).
Proof. cbv zeta. unfold run_actions2. set (s1 := fold_left (orders_action2 NW dis dem err) (order_visit2 NW) s).
  assert (G : OKd (fold_left (ships_action2 NW dis) (ship_visit2 NW) s1) = OKd s1).
  { apply foldD_keep. intros a m _. unfold OKd. rewrite ships_action_op2.
    rewrite !(agreeD_ships_action NW dis (fun f => match f with fIO | fOQ => true | _ => false end) a m) by reflexivity. reflexivity. }
  apply OKd_inj in G. cbn [OKd fst snd] in G. destruct G as (G1 & G2 & G3). rewrite G1, G2, G3. apply ordersD_phase_edge. Qed.

(* ---- end of period: the edge's pipeline is shifted (slot 0 dropped), the order quantity restarts at 0 ---- *)
Lemma next_nodeD_op_other s m : m <> p -> gl2 (next_node2 NW dis s m) kOP = gl2 s kOP.
Proof. intros Hne. unfold next_node2.
  apply (fold_left_inv (fun a => gl2 a kOP = gl2 s kOP)).
  - intros a k _ Ha. unfold next_prod. rewrite !gl2_sq2. rewrite gl2_sl2_other by (apply key2_neq_fld; discriminate).
    apply (fold_left_inv (fun b => gl2 b kOP = gl2 s kOP)); [|exact Ha]. intros b x _ Hb. unfold next_cust. rewrite !gl2_sq2.
    rewrite gl2_sl2_other by (intro E; inversion E; subst; apply Hne; reflexivity). rewrite gl2_addq2. exact Hb.
  - apply (fold_left_inv (fun a => gl2 a kOP = gl2 s kOP)); [|reflexivity]. intros a r' _ Ha.
    apply (fold_left_inv (fun b => gl2 b kOP = gl2 s kOP)); [|exact Ha]. intros b q _ Hb. unfold next_sup. rewrite !gl2_sq2.
    rewrite gl2_sl2_other by (apply key2_neq_fld; discriminate).
    destruct (disk2 NW dis m dTP); [exact Hb|]. rewrite gl2_sl2_other by (apply key2_neq_fld; discriminate). exact Hb. Qed.
Lemma next_nodeD_op_p s : gl2 (next_node2 NW dis s p) kOP = shift_op (gl2 s kOP).
Proof. unfold next_node2. set (s1 := fold_left _ (n_rms (C p)) s).
  assert (S1 : gl2 s1 kOP = gl2 s kOP).
  { unfold s1. apply (fold_left_inv (fun a => gl2 a kOP = gl2 s kOP)); [|reflexivity]. intros a r' _ Ha.
    apply (fold_left_inv (fun b => gl2 b kOP = gl2 s kOP)); [|exact Ha]. intros b q _ Hb. unfold next_sup. rewrite !gl2_sq2.
    rewrite gl2_sl2_other by (apply key2_neq_fld; discriminate).
    destruct (disk2 NW dis p dTP); [exact Hb|]. rewrite gl2_sl2_other by (apply key2_neq_fld; discriminate). exact Hb. }
  rewrite <- S1.
  apply (foldD_once (next_prod NW p) (fun a => gl2 a kOP) shift_op r); [| |apply (w_prods NW p eWp)|exact eHk].
  - intros a. unfold next_prod. rewrite !gl2_sq2. rewrite gl2_sl2_other by (apply key2_neq_fld; discriminate).
    apply (foldD_once (next_cust p r) (fun a => gl2 a kOP) shift_op (Nd n)); [| |apply (w_custs NW p eWp r eHk)|exact eHc].
    + intros b. unfold next_cust. gs2. reflexivity.
    + intros b x _ Hne. unfold next_cust. gs2. reflexivity.
  - intros a k _ Hne. unfold next_prod. rewrite !gl2_sq2. rewrite gl2_sl2_other by (apply key2_neq_fld; discriminate).
    apply (foldD_keep (next_cust p k) (fun a => gl2 a kOP)). intros b x _. unfold next_cust. gs2. reflexivity. Qed.

Lemma next_periodD_edge e : leq (gl2 (next_period2 NW dis e) kOP) (shift_op (gl2 e kOP)) /\ gq2 (next_period2 NW dis e) kOQ == 0.
Proof. split; [|apply next_period_oq0; exact HE].
  unfold next_period2. rewrite gl2_norm. apply (leq_trans _ _ _ (leqD_map_Qred _)).
  rewrite (foldD_once (next_node2 NW dis) (fun a => gl2 a kOP) shift_op p (nodes2 NW)); [apply leq_refl| | |apply (w_nodup NW W)|exact eHp].
  - intros a. apply next_nodeD_op_p.
  - intros a m _ Hne. apply next_nodeD_op_other. exact Hne. Qed.
End Delay2.

(* ================================================================================================ *)
(* 3. The delay line over a run                                                                       *)
(* ================================================================================================ *)
Section DelayRun2.
Variable NW : net2.
Notation C := (cfg2 NW).
Notation PC := (PC NW).
Notation RC := (RC NW).
Hypothesis W : wfB_net2 NW.
Hypothesis O : once2 NW.
Variables (n p r : N).
Hypothesis HE : sup_edge NW n (Nd p) r.
Notation L := (n_olt (C n)).
Notation kOP := (fOP, p, Nd n, r).
Notation kIO := (fIO, p, Nd n, r).
Notation kOQ := (fOQ, n, Nd p, r).

Definition edgeD_obs (e : st2) : Q * Q := (gq2 e kIO, gq2 e kOQ).

Lemma edgeD_run_from : forall inputs s w, length w = L -> leq (gl2 s kOP) (w ++ [0]) -> gq2 s kOQ == 0 ->
  DL w (map edgeD_obs (run_from2 NW s inputs)).
Proof. induction inputs as [|[dis dem err] rest IH]; intros s w Hl Hsp Hoq; cbn [run_from2 map]; [constructor|]. cbn [i_dis i_dem i_err].
  set (e := run_actions2 NW dis dem err s).
  destruct (run_actionsD_edge NW W O n p r HE dis dem err s) as [E1 E2]. fold e in E1, E2.
  set (o := gq2 e kOQ) in *.
  assert (Ed : gq2 e kOQ - gq2 s kOQ == o) by (unfold o; rewrite Hoq; lra). fold o in Ed.
  assert (A : leq (add_at L (o - gq2 s kOQ) (gl2 s kOP)) (w ++ [0 + o])).
  { rewrite <- Hl. rewrite <- add_at_last. apply leq_add_at; [exact Ed|exact Hsp]. }
  unfold edgeD_obs at 1. fold o. constructor.
  - rewrite E2. rewrite (leq_hd0 _ _ A). destruct w; cbn [app hd0]; lra.
  - apply IH.
    + rewrite nextw_length. exact Hl.
    + destruct (next_periodD_edge NW W n p r HE dis e) as [N1 _]. apply (leq_trans _ _ _ N1).
      apply (leq_trans _ (shift_op (zero0 (w ++ [0 + o])))); [apply leqD_shift_op, (leq_trans _ _ _ E1), leq_zero0, A|].
      unfold nextw. destruct w as [|a x]; cbn [app zero0 shift_op tl].
      * constructor; [reflexivity|constructor].
      * apply leq_app; [|apply leq_refl]. apply leq_app; [apply leq_refl|constructor; [lra|constructor]].
    + destruct (next_periodD_edge NW W n p r HE dis e) as [_ N2]. exact N2. Qed.

Lemma edgeD_run inputs : DL (repeat (n_init_orders (C n)) L) (map edgeD_obs (run2 NW inputs)).
Proof. unfold run2.
  pose proof (w_edge NW n (w_node NW W n (proj1 HE)) r p (proj1 (proj2 HE)) (proj2 (proj2 HE))) as (_ & Hp & Hk & Hc).
  destruct (init_Qn2 NW p Hp) as [Q1 _]. destruct (Q1 r Hk) as [_ Q12]. specialize (Q12 (Nd n) Hc). cbn [opinit2] in Q12.
  apply edgeD_run_from; [apply repeat_length|rewrite Q12; apply leq_refl|rewrite init_zero2 by discriminate; reflexivity]. Qed.

(* the order placed in period t is the inbound order of period t + L *)
Theorem orderD_delay_wf inputs t : (t + L < length inputs)%nat ->
  gq2 (nth (t + L) (run2 NW inputs) empty_st2) kIO == gq2 (nth t (run2 NW inputs) empty_st2) kOQ.
Proof. intros Ht. pose proof (DL_delay _ _ t (edgeD_run inputs)) as X.
  rewrite repeat_length, map_length in X. unfold run2 in X at 1. rewrite run_from2_length in X. specialize (X Ht).
  change (0, 0) with (edgeD_obs empty_st2) in X. rewrite !map_nth in X. exact X. Qed.
(* during the first L periods the supplier receives the node's initial orders *)
Theorem orderD_initial_wf inputs t : (t < L)%nat -> (t < length inputs)%nat ->
  gq2 (nth t (run2 NW inputs) empty_st2) kIO == n_init_orders (C n).
Proof. intros HtL Ht. pose proof (DL_output _ _ t (edgeD_run inputs)) as X.
  rewrite map_length in X. unfold run2 in X at 1. rewrite run_from2_length in X. specialize (X Ht).
  change (0, 0) with (edgeD_obs empty_st2) in X. rewrite map_nth in X. cbn [edgeD_obs fst] in X. rewrite X.
  rewrite app_nth1 by (rewrite repeat_length; exact HtL). rewrite (nth_indep _ 0 (n_init_orders (C n))) by (rewrite repeat_length; exact HtL).
  rewrite nth_repeat. reflexivity. Qed.
End DelayRun2.
