(* Stage-2 simulator invariants (group B), part 2: pipeline lengths (PL2), pipeline conservation (PC2: edge / external
   supplier / order ledger), and the period-boundary facts: nothing pending after the shipments phase, slot 0 of every
   order pipeline empty after the orders phase (so that the end-of-period shift drops nothing: fLOST stays 0). *)
From SV Require Import Base.Qx.
From SV Require Import Sim.Model Sim.StateLemmas Sim.Inv_base Sim.Inv_node Sim.Inv_bound.
From SV Require Import Sim2.State2 Sim2.Model2.
From SV Require Import Sim2.Inv2b_tac Sim2.Inv2b_book.

Section Pipe.
Variable NW : net2.
Notation C := (cfg2 NW).
Notation PC := (PC NW).
Notation RC := (RC NW).
Definition sp02 (n : N) : Q := n_init_ships (C n) * qnat (n_slt (C n)).
Definition io02 (n : N) : Q := n_init_orders (C n) * qnat (n_olt (C n)).

Record PL2 (s : st2) : Prop := {
  pl2_sp : forall n p r, sup_edge NW n p r -> length (gl2 s (fSP, n, p, r)) = (n_olt (C n) + n_slt (C n) + 1)%nat;
  pl2_op : forall p c k, cus_edge NW p (Nd c) k -> length (gl2 s (fOP, p, Nd c, k)) = (n_olt (C c) + 1)%nat }.

Record PC2 (s : st2) : Prop := {
  (* what p shipped to n of r (+ the initial pipeline content) = what n received + in transit + held at n's door *)
  pc2_edge : forall n p r, sup_edge NW n (Nd p) r ->
     gq2 s (fcOS, p, Nd n, r) + sp02 n == gq2 s (fcIS, n, Nd p, r) + qsum (gl2 s (fSP, n, Nd p, r)) + gq2 s (fIDI, n, Nd p, r);
  pc2_ext : forall n r, sup_edge NW n Ext r ->
     gq2 s (fcOQ, n, Ext, r) + (sp02 n + io02 n) == gq2 s (fcIS, n, Ext, r) + qsum (gl2 s (fSP, n, Ext, r)) + gq2 s (fIDI, n, Ext, r);
  (* what n ordered from p of r = still travelling to p + received by p (+ dropped) *)
  pc2_ord : forall n p r, cus_edge NW p (Nd n) r ->
     gq2 s (fcOQ, n, Nd p, r) + io02 n == qsum (gl2 s (fOP, p, Nd n, r)) + gq2 s (fcIO, p, Nd n, r) + gq2 s (fLOST, p, Nd n, r) }.

Variable (dis : N -> bool) (dem err : N -> N -> Q).

(* ---- lengths ---- *)
Lemma PL2_sl_same s k v : PL2 s -> length v = length (gl2 s k) -> PL2 (sl2 s k v).
Proof. intros [H1 H2] Hv. constructor.
  - intros n p r Hp. kcase2 (fSP, n, p, r) k; [gs2; rewrite Hv; apply H1; exact Hp | rewrite gl2_sl2_other by assumption; apply H1; exact Hp].
  - intros p c i Hc. kcase2 (fOP, p, Nd c, i) k; [gs2; rewrite Hv; apply H2; exact Hc | rewrite gl2_sl2_other by assumption; apply H2; exact Hc]. Qed.
Lemma PL2_sl_fld s f n x i v : f <> fSP -> f <> fOP -> PL2 s -> PL2 (sl2 s (f, n, x, i) v).
Proof. intros F1 F2 [H1 H2]. constructor; intros; rewrite gl2_sl2_other by (intro E; inversion E; subst; congruence); auto. Qed.
Lemma PL2_sl_ext_op s n i v : PL2 s -> PL2 (sl2 s (fOP, n, Ext, i) v).
Proof. intros [H1 H2]. constructor; intros; rewrite gl2_sl2_other by (intro E; inversion E); auto. Qed.
Lemma PL2_sq s k v : PL2 s -> PL2 (sq2 s k v).
Proof. intros [H1 H2]. constructor; intros; gs2; auto. Qed.
Lemma PL2_addq s k v : PL2 s -> PL2 (addq2 s k v).
Proof. intros [H1 H2]. constructor; intros; gs2; auto. Qed.
Lemma PL2_norm s : PL2 s -> PL2 (norm_st s).
Proof. intros [H1 H2]. constructor; intros; rewrite gl2_norm, map_length; auto. Qed.

Lemma PL2_gen_demand s n : PL2 s -> PL2 (gen_demand2 NW dem s n).
Proof. intros H. unfold gen_demand2. apply fold_left_inv; [|exact H]. intros a k _ Ha. destruct (has_ext _); [apply PL2_sl_ext_op|]; exact Ha. Qed.
Lemma PL2_recv_order_one n k s c : PL2 s -> PL2 (recv_order_one2 n k s c).
Proof. intros H. unfold recv_order_one2. repeat apply PL2_addq. apply PL2_sl_same; [apply PL2_sq; exact H|]. rewrite gl2_sq2, length_zero0. reflexivity. Qed.
Lemma PL2_recv_orders s n : PL2 s -> PL2 (recv_orders2 NW s n).
Proof. intros H. unfold recv_orders2, recv_orders_prod. apply fold_left_inv; [|exact H]. intros a k _ Ha.
  apply fold_left_inv; [|exact Ha]. intros b c _ Hb. apply PL2_recv_order_one. exact Hb. Qed.
Lemma PL2_place_one n r s x : PL2 s -> PL2 (place_one2 NW n r s x).
Proof. intros H. unfold place_one2. repeat apply PL2_addq. destruct (fst x); apply PL2_sl_same; try exact H; rewrite length_add_at; reflexivity. Qed.
Lemma PL2_place_prod s n k : PL2 s -> PL2 (place_prod2 NW err s n k).
Proof. intros H. unfold place_prod2. apply fold_left_inv.
  - intros a rb _ Ha. unfold place_rm2. apply fold_left_inv; [|exact Ha]. intros b x _ Hb. apply PL2_place_one. exact Hb.
  - repeat apply PL2_addq. exact H. Qed.
Lemma PL2_orders_action s n : PL2 s -> PL2 (orders_action2 NW dis dem err s n).
Proof. intros H. unfold orders_action2, place_orders2.
  pose proof (PL2_recv_orders _ n (PL2_gen_demand s n H)) as H1.
  destruct (disk2 NW dis n dOP); [exact H1|]. apply fold_left_inv; [|exact H1]. intros a k _ Ha. apply PL2_place_prod. exact Ha. Qed.
Lemma PL2_recv_ship_one n r s p : PL2 s -> PL2 (recv_ship_one2 NW dis n r s p).
Proof. intros H. unfold recv_ship_one2. apply PL2_addq, PL2_sq, PL2_addq, PL2_addq. apply PL2_sl_same; [apply PL2_sq; exact H|]. rewrite gl2_sq2, length_zero0. reflexivity. Qed.
Lemma PL2_recv_ship s n : PL2 s -> PL2 (recv_ship2 NW dis s n).
Proof. intros H. unfold recv_ship2, recv_ship_rm. apply fold_left_inv; [|exact H]. intros a r _ Ha.
  apply fold_left_inv; [|exact Ha]. intros b p _ Hb. apply PL2_recv_ship_one. exact Hb. Qed.
Lemma PL2_produce_one n mk s k : PL2 s -> PL2 (produce_one2 NW n mk s k).
Proof. intros H. unfold produce_one2. repeat apply PL2_addq. apply fold_left_inv; [|exact H]. intros a rb _ Ha. apply PL2_addq. exact Ha. Qed.
Lemma PL2_serve_q s n k c o io : PL2 s -> PL2 (serve_q s n k c o io).
Proof. intros H. unfold serve_q. repeat first [apply PL2_addq | apply PL2_sq]. exact H. Qed.
Lemma PL2_serve_one n k acc c : PL2 (fst acc) -> PL2 (fst (serve_one2 NW dis n k acc c)).
Proof. destruct acc as [s oh]. cbn [fst]. intros H. rewrite serve_one2_eq.
  destruct c as [|c']; cbn [fst]; [apply PL2_serve_q; exact H|].
  apply PL2_sl_same; [apply PL2_serve_q; exact H|]. rewrite length_add_at. reflexivity. Qed.
Lemma PL2_serve s n k il0 made : PL2 s -> PL2 (serve2 NW dis s n k il0 made).
Proof. intros H. unfold serve2. apply (fold_left_inv (fun a => PL2 (fst a))); [intros a c _ Ha; apply PL2_serve_one; exact Ha|]. cbn [fst]. apply PL2_sq. exact H. Qed.
Lemma PL2_ships_action s n : PL2 s -> PL2 (ships_action2 NW dis s n).
Proof. intros H. unfold ships_action2, fill_rate2.
  apply fold_left_inv; [intros a k _ Ha; unfold fill_rate_one2; apply PL2_sq; exact Ha|].
  apply fold_left_inv; [intros a k _ Ha; apply PL2_serve; exact Ha|].
  unfold produce2. apply fold_left_inv; [intros a k _ Ha; apply PL2_produce_one; exact Ha|]. apply PL2_recv_ship. exact H. Qed.
Lemma PL2_run_actions s : PL2 s -> PL2 (run_actions2 NW dis dem err s).
Proof. intros H. unfold run_actions2. apply fold_left_inv; [intros a x _ Ha; apply PL2_ships_action; exact Ha|].
  apply fold_left_inv; [intros a x _ Ha; apply PL2_orders_action; exact Ha|exact H]. Qed.
Lemma PL2_next_period s : PL2 s -> PL2 (next_period2 NW dis s).
Proof. intros H. unfold next_period2. apply PL2_norm. apply fold_left_inv; [|exact H]. intros a n _ Ha. unfold next_node2.
  apply fold_left_inv.
  { intros b k _ Hb. unfold next_prod. repeat apply PL2_sq. apply PL2_sl_fld; try discriminate.
    apply fold_left_inv; [|exact Hb]. intros c x _ Hc. unfold next_cust. repeat apply PL2_sq.
    apply PL2_sl_same; [apply PL2_addq; exact Hc|]. rewrite gl2_addq2, length_shift_op. reflexivity. }
  apply fold_left_inv; [|exact Ha]. intros b r _ Hb. apply fold_left_inv; [|exact Hb]. intros c p _ Hc. unfold next_sup.
  repeat apply PL2_sq. apply PL2_sl_fld; try discriminate.
  destruct (disk2 NW dis n dTP); [exact Hc|]. apply PL2_sl_same; [exact Hc|]. rewrite length_shift_sp. reflexivity. Qed.

(* ---- pipeline conservation ---- *)
Definition pcf (f : fld) : bool := match f with fcOS | fcIS | fIDI | fcOQ | fcIO | fLOST => true | _ => false end.
Lemma PC2_frame_sq s f n x i v : pcf f = false -> PC2 s -> PC2 (sq2 s (f, n, x, i) v).
Proof. intros F [H1 H2 H3]. constructor; intros; rewrite !gq2_sq2_other by (intro E; inversion E; subst; discriminate); rewrite ?gl2_sq2; auto. Qed.
Lemma PC2_frame_addq s f n x i v : pcf f = false -> PC2 s -> PC2 (addq2 s (f, n, x, i) v).
Proof. intros F [H1 H2 H3]. constructor; intros; rewrite !gq2_addq2_other by (intro E; inversion E; subst; discriminate); rewrite ?gl2_addq2; auto. Qed.
Lemma PC2_sl_fld s f n x i v : f <> fSP -> f <> fOP -> PC2 s -> PC2 (sl2 s (f, n, x, i) v).
Proof. intros F1 F2 [H1 H2 H3]. constructor; intros; rewrite !gq2_sl2; rewrite gl2_sl2_other by (intro E; inversion E; subst; congruence); auto. Qed.
Lemma PC2_sl_ext_op s n i v : PC2 s -> PC2 (sl2 s (fOP, n, Ext, i) v).
Proof. intros [H1 H2 H3]. constructor; intros; rewrite !gq2_sl2; rewrite gl2_sl2_other by (intro E; inversion E); auto. Qed.
Lemma PC2_norm s : PC2 s -> PC2 (norm_st s).
Proof. intros [H1 H2 H3]. constructor; intros; rewrite !gq2_norm_eq, gl2_norm, qsum_map_Qred; auto. Qed.

Lemma PC2_gen_demand s n : PC2 s -> PC2 (gen_demand2 NW dem s n).
Proof. intros H. unfold gen_demand2. apply fold_left_inv; [|exact H]. intros a k _ Ha. destruct (has_ext _); [apply PC2_sl_ext_op|]; exact Ha. Qed.

Lemma PC2_recv_order_one n k s c : PC2 s -> PC2 (recv_order_one2 n k s c).
Proof. intros [H1 H2 H3]. unfold recv_order_one2. constructor.
  - intros n' p r Hp. gs2. apply H1. exact Hp.
  - intros n' r Hp. gs2. apply H2. exact Hp.
  - intros n' p r Hp. specialize (H3 n' p r Hp). kcase2 (fOP, p, Nd n', r) (fOP, n, c, k).
    + gs2. rewrite qsum_zero0. lra.
    + gs2. exact H3. Qed.
Lemma PC2_recv_orders s n : PC2 s -> PC2 (recv_orders2 NW s n).
Proof. intros H. unfold recv_orders2, recv_orders_prod. apply fold_left_inv; [|exact H]. intros a k _ Ha.
  apply fold_left_inv; [|exact Ha]. intros b c _ Hb. apply PC2_recv_order_one. exact Hb. Qed.

Lemma PC2_place_one n r s x : PL2 s -> PC2 s -> PC2 (place_one2 NW n r s x).
Proof. intros [L1 L2] [H1 H2 H3]. unfold place_one2. destruct x as [p q]. cbn [fst snd]. destruct p as [|p'].
  - constructor.
    + intros n' p r' Hp. gs2. apply H1. exact Hp.
    + intros n' r' Hp. specialize (H2 n' r' Hp). kcase2 (fcOQ, n', Ext, r') (fcOQ, n, Ext, r).
      * gs2. rewrite qsum_add_at by (rewrite (L1 _ _ _ Hp); lia). lra.
      * gs2. exact H2.
    + intros n' p r' Hp. gs2. apply H3. exact Hp.
  - constructor.
    + intros n' p r' Hp. gs2. apply H1. exact Hp.
    + intros n' r' Hp. gs2. apply H2. exact Hp.
    + intros n' p r' Hp. specialize (H3 n' p r' Hp). kcase2 (fcOQ, n', Nd p, r') (fcOQ, n, Nd p', r).
      * gs2. rewrite qsum_add_at by (rewrite (L2 _ _ _ Hp); lia). lra.
      * gs2. exact H3. Qed.
Lemma PLPC2_place_prod s n k : PL2 s -> PC2 s -> PL2 (place_prod2 NW err s n k) /\ PC2 (place_prod2 NW err s n k).
Proof. intros L H. unfold place_prod2. apply (fold_left_inv (fun a => PL2 a /\ PC2 a)).
  - intros a rb _ Ha. unfold place_rm2. apply (fold_left_inv (fun a => PL2 a /\ PC2 a)); [|exact Ha].
    intros b x _ [Lb Cb]. split; [apply PL2_place_one; exact Lb|apply PC2_place_one; assumption].
  - split; [repeat apply PL2_addq; exact L|]. apply PC2_frame_addq; [reflexivity|]. apply PC2_frame_addq; [reflexivity|]. exact H. Qed.
Lemma PLPC2_orders_action s n : PL2 s -> PC2 s -> PL2 (orders_action2 NW dis dem err s n) /\ PC2 (orders_action2 NW dis dem err s n).
Proof. intros L H. unfold orders_action2, place_orders2.
  pose proof (PL2_recv_orders _ n (PL2_gen_demand s n L)) as L1. pose proof (PC2_recv_orders _ n (PC2_gen_demand s n H)) as H1.
  destruct (disk2 NW dis n dOP); [split; assumption|]. apply (fold_left_inv (fun a => PL2 a /\ PC2 a)); [|split; assumption].
  intros a k _ [La Ca]. apply PLPC2_place_prod; assumption. Qed.

Lemma PC2_recv_ship_one n r s p : PC2 s -> PC2 (recv_ship_one2 NW dis n r s p).
Proof. intros [H1 H2 H3]. unfold recv_ship_one2. set (rtr := hd0 (gl2 s (fSP, n, p, r))). set (rp := disk2 NW dis n dRP). constructor.
  - intros n' p' r' Hp. specialize (H1 n' p' r' Hp). kcase2 (fSP, n', Nd p', r') (fSP, n, p, r).
    + gs2. rewrite qsum_zero0. fold rtr. destruct rp; lra.
    + gs2. exact H1.
  - intros n' r' Hp. specialize (H2 n' r' Hp). kcase2 (fSP, n', Ext, r') (fSP, n, p, r).
    + gs2. rewrite qsum_zero0. fold rtr. destruct rp; lra.
    + gs2. exact H2.
  - intros n' p' r' Hp. gs2. apply H3. exact Hp. Qed.
Lemma PC2_recv_ship s n : PC2 s -> PC2 (recv_ship2 NW dis s n).
Proof. intros H. unfold recv_ship2, recv_ship_rm. apply fold_left_inv; [|exact H]. intros a r _ Ha.
  apply fold_left_inv; [|exact Ha]. intros b p _ Hb. apply PC2_recv_ship_one. exact Hb. Qed.
Lemma PC2_produce_one n mk s k : PC2 s -> PC2 (produce_one2 NW n mk s k).
Proof. intros H. unfold produce_one2. repeat (apply PC2_frame_addq; [reflexivity|]).
  apply fold_left_inv; [|exact H]. intros a rb _ Ha. apply PC2_frame_addq; [reflexivity|exact Ha]. Qed.

Lemma PC2_serve_one n k acc c : PL2 (fst acc) -> PC2 (fst acc) -> PC2 (fst (serve_one2 NW dis n k acc c)).
Proof.
  destruct acc as [s oh]. cbn [fst]. intros [L1 L2] [H1 H2 H3]. rewrite serve_one2_eq.
  set (o := serve_o NW dis s n k c oh). set (io := gq2 s (fPIO, n, c, k)). set (T := serve_q s n k c o io).
  assert (G : forall K, gl2 T K = gl2 s K) by (intros K; unfold T, serve_q; gs2; reflexivity).
  assert (Q1 : forall f n' x i, pcf f = true -> f <> fcOS -> gq2 T (f, n', x, i) = gq2 s (f, n', x, i)).
  { intros f n' x i Hf Hne. unfold T, serve_q. rewrite gq2_addq2_other by (intro E; inversion E; subst; congruence).
    rewrite !gq2_addq2_other, !gq2_sq2_other, !gq2_addq2_other, !gq2_sq2_other by (intro E; inversion E; subst; discriminate). reflexivity. }
  assert (Q2 : forall n' x i, (n', x, i) <> (n, c, k) -> gq2 T (fcOS, n', x, i) = gq2 s (fcOS, n', x, i)).
  { intros n' x i Hne. unfold T, serve_q. rewrite gq2_addq2_other by (intro E; inversion E; subst; apply Hne; reflexivity). gs2. reflexivity. }
  assert (Q3 : gq2 T (fcOS, n, c, k) = gq2 s (fcOS, n, c, k) + o_os o) by (unfold T, serve_q; gs2; reflexivity).
  destruct c as [|c']; cbn [fst].
  - constructor.
    + intros n' p r Hp. rewrite Q2 by discriminate. rewrite !Q1 by (try reflexivity; discriminate). rewrite G. apply H1. exact Hp.
    + intros n' r Hp. rewrite !Q1 by (try reflexivity; discriminate). rewrite G. apply H2. exact Hp.
    + intros n' p r Hp. rewrite !Q1 by (try reflexivity; discriminate). rewrite G. apply H3. exact Hp.
  - constructor.
    + intros n' p r Hp. specialize (H1 n' p r Hp). rewrite !gq2_sl2. kcase2 (fSP, n', Nd p, r) (fSP, c', Nd n, k).
      * gs2. rewrite Q3. rewrite !Q1 by (try reflexivity; discriminate). rewrite G.
        rewrite qsum_add_at by (rewrite (L1 _ _ _ Hp); lia). lra.
      * rewrite gl2_sl2_other by exact KN. rewrite Q2 by (intro E; inversion E; subst; apply KN; reflexivity).
        rewrite !Q1 by (try reflexivity; discriminate). rewrite G. exact H1.
    + intros n' r Hp. rewrite !gq2_sl2. rewrite gl2_sl2_other by (intro E; inversion E). rewrite !Q1 by (try reflexivity; discriminate). rewrite G. apply H2. exact Hp.
    + intros n' p r Hp. rewrite !gq2_sl2. rewrite gl2_sl2_other by (apply key2_neq_fld; discriminate). rewrite !Q1 by (try reflexivity; discriminate). rewrite G. apply H3. exact Hp.
Qed.
Lemma PLPC2_serve s n k il0 made : PL2 s -> PC2 s -> PL2 (serve2 NW dis s n k il0 made) /\ PC2 (serve2 NW dis s n k il0 made).
Proof. intros L H. unfold serve2. apply (fold_left_inv (fun a => PL2 (fst a) /\ PC2 (fst a))).
  - intros a c _ [La Ca]. split; [apply PL2_serve_one; exact La|apply PC2_serve_one; assumption].
  - cbn [fst]. split; [apply PL2_sq; exact L|apply PC2_frame_sq; [reflexivity|exact H]]. Qed.
Lemma PLPC2_ships_action s n : PL2 s -> PC2 s -> PL2 (ships_action2 NW dis s n) /\ PC2 (ships_action2 NW dis s n).
Proof. intros L H. split; [apply PL2_ships_action; exact L|]. unfold ships_action2, fill_rate2.
  apply fold_left_inv; [intros a k _ Ha; unfold fill_rate_one2; apply PC2_frame_sq; [reflexivity|exact Ha]|].
  apply (fold_left_inv (fun a => PL2 a /\ PC2 a)); [intros a k _ [La Ca]; apply PLPC2_serve; assumption|].
  unfold produce2. apply (fold_left_inv (fun a => PL2 a /\ PC2 a)).
  - intros a k _ [La Ca]. split; [apply PL2_produce_one; exact La|apply PC2_produce_one; exact Ca].
  - split; [apply PL2_recv_ship; exact L|apply PC2_recv_ship; exact H]. Qed.
Lemma PLPC2_run_actions s : PL2 s -> PC2 s -> PL2 (run_actions2 NW dis dem err s) /\ PC2 (run_actions2 NW dis dem err s).
Proof. intros L H. unfold run_actions2.
  apply (fold_left_inv (fun a => PL2 a /\ PC2 a)); [intros a x _ [La Ca]; apply PLPC2_ships_action; assumption|].
  apply (fold_left_inv (fun a => PL2 a /\ PC2 a)); [intros a x _ [La Ca]; apply PLPC2_orders_action; assumption|split; assumption]. Qed.

Lemma PC2_next_period s : PC2 s -> PC2 (next_period2 NW dis s).
Proof. intros H. unfold next_period2. apply PC2_norm. apply fold_left_inv; [|exact H]. intros a n _ Ha. unfold next_node2.
  apply fold_left_inv.
  { intros b k _ Hb. unfold next_prod. repeat (apply PC2_frame_sq; [reflexivity|]). apply PC2_sl_fld; try discriminate.
    apply fold_left_inv; [|exact Hb]. intros c x _ [A1 A2 A3]. unfold next_cust. repeat (apply PC2_frame_sq; [reflexivity|]). constructor.
    - intros n' p r Hp. gs2. apply A1. exact Hp.
    - intros n' r Hp. gs2. apply A2. exact Hp.
    - intros n' p r Hp. specialize (A3 n' p r Hp). kcase2 (fOP, p, Nd n', r) (fOP, n, x, k).
      + gs2. rewrite qsum_shift_op. lra.
      + gs2. exact A3. }
  apply fold_left_inv; [|exact Ha]. intros b r _ Hb. apply fold_left_inv; [|exact Hb]. intros c p _ Hc. unfold next_sup.
  repeat (apply PC2_frame_sq; [reflexivity|]). apply PC2_sl_fld; try discriminate.
  destruct (disk2 NW dis n dTP); [exact Hc|]. destruct Hc as [A1 A2 A3]. constructor.
  - intros n' p' r' Hp. specialize (A1 n' p' r' Hp). kcase2 (fSP, n', Nd p', r') (fSP, n, p, r); [gs2; rewrite qsum_shift_sp; exact A1 | gs2; exact A1].
  - intros n' r' Hp. specialize (A2 n' r' Hp). kcase2 (fSP, n', Ext, r') (fSP, n, p, r); [gs2; rewrite qsum_shift_sp; exact A2 | gs2; exact A2].
  - intros n' p' r' Hp. gs2. apply A3. exact Hp. Qed.

(* ---------- nothing is left pending by the shipments phase ---------- *)
Definition pio_le (s s' : st2) : Prop := forall n c k, gq2 s' (fPIO, n, c, k) = gq2 s (fPIO, n, c, k) \/ gq2 s' (fPIO, n, c, k) = 0.
Lemma pio_le_refl s : pio_le s s.  Proof. intros n c k. left. reflexivity. Qed.
Lemma pio_le_trans s1 s2 s3 : pio_le s1 s2 -> pio_le s2 s3 -> pio_le s1 s3.
Proof. intros H1 H2 n c k. destruct (H2 n c k) as [E|E]; [rewrite E; apply H1|right; exact E]. Qed.
Definition piof (f : fld) : bool := match f with fPIO => true | _ => false end.
Lemma pio_le_agree s s' : agree piof s s' -> pio_le s s'.
Proof. intros A n c k. left. apply A. reflexivity. Qed.
Lemma pio_le_zero s s' n c k : pio_le s s' -> gq2 s (fPIO, n, c, k) == 0 -> gq2 s' (fPIO, n, c, k) == 0.
Proof. intros H Hz. destruct (H n c k) as [E|E]; rewrite E; [exact Hz|reflexivity]. Qed.
Lemma pio_le_serve_one n k s oh c : pio_le s (fst (serve_one2 NW dis n k (s, oh) c)) /\ gq2 (fst (serve_one2 NW dis n k (s, oh) c)) (fPIO, n, c, k) = 0.
Proof. rewrite serve_one2_eq. set (o := serve_o NW dis s n k c oh). set (io := gq2 s (fPIO, n, c, k)).
  assert (P : pio_le s (serve_q s n k c o io) /\ gq2 (serve_q s n k c o io) (fPIO, n, c, k) = 0).
  { split; [|unfold serve_q; gs2; reflexivity]. intros n' c' k'. unfold serve_q. kcase2 (fPIO, n', c', k') (fPIO, n, c, k); [right|left]; gs2; reflexivity. }
  destruct c; cbn [fst]; [exact P|]. destruct P as [P1 P2]. split; [|rewrite gq2_sl2; exact P2].
  intros n' c' k'. rewrite gq2_sl2. apply P1. Qed.
Lemma pio_le_serve s n k il0 made : pio_le s (serve2 NW dis s n k il0 made).
Proof. unfold serve2. apply (fold_left_inv (fun a => pio_le s (fst a))).
  - intros [a oh] c _ Ha. cbn [fst] in Ha. apply (pio_le_trans _ _ _ Ha). apply pio_le_serve_one.
  - cbn [fst]. apply pio_le_agree. apply agree_sq; [reflexivity|apply agree_refl]. Qed.
Lemma pio_serve_set s n k il0 made c : In c (k_custs (PC n k)) -> gq2 (serve2 NW dis s n k il0 made) (fPIO, n, c, k) = 0.
Proof. intros Hc. unfold serve2.
  apply (fold_stable (serve_one2 NW dis n k) (fun c a => gq2 (fst a) (fPIO, n, c, k) = 0)); [| |exact Hc].
  - intros [a oh] x. apply pio_le_serve_one.
  - intros [a oh] x y Hz. cbn [fst] in Hz. destruct (proj1 (pio_le_serve_one n k a oh y) n x k) as [E|E]; rewrite E; [exact Hz|reflexivity]. Qed.
Lemma pio_le_ships_action s n : pio_le s (ships_action2 NW dis s n).
Proof. unfold ships_action2.
  apply (pio_le_trans _ (fold_left (fun s0 k => serve2 NW dis s0 n k (gq2 s (fIL, n, Ext, k)) (made2 NW (recv_ship2 NW dis s n) n k)) (n_prods (C n)) (produce2 NW (recv_ship2 NW dis s n) n))).
  2:{ apply pio_le_agree. apply agree_fill_rate. reflexivity. }
  apply fold_left_inv.
  - intros a k _ Ha. apply (pio_le_trans _ _ _ Ha). apply pio_le_serve.
  - apply pio_le_agree. unfold produce2. apply (agree_trans _ _ (recv_ship2 NW dis s n)); [apply agree_recv_ship; reflexivity|apply agree_produce; reflexivity]. Qed.
Lemma pio_ships_set s n k c : In k (n_prods (C n)) -> In c (k_custs (PC n k)) -> gq2 (ships_action2 NW dis s n) (fPIO, n, c, k) = 0.
Proof. intros Hk Hc. unfold ships_action2.
  rewrite (agree_fill_rate NW piof _ n eq_refl) by reflexivity.
  apply (fold_stable (fun s0 k => serve2 NW dis s0 n k (gq2 s (fIL, n, Ext, k)) (made2 NW (recv_ship2 NW dis s n) n k))
                     (fun k a => forall c, In c (k_custs (PC n k)) -> gq2 a (fPIO, n, c, k) = 0)); [| |exact Hk|exact Hc].
  - intros a k' c' Hc'. apply pio_serve_set. exact Hc'.
  - intros a k' k'' Hz c' Hc'. destruct (pio_le_serve a n k'' (gq2 s (fIL, n, Ext, k'')) (made2 NW (recv_ship2 NW dis s n) n k'') n c' k') as [E|E]; rewrite E; [apply Hz; exact Hc'|reflexivity]. Qed.
Lemma ships_phase_pio2 : forall l s n k c, In n l -> In k (n_prods (C n)) -> In c (k_custs (PC n k)) ->
  gq2 (fold_left (ships_action2 NW dis) l s) (fPIO, n, c, k) == 0.
Proof. intros l s n k c Hn Hk Hc.
  apply (fold_stable (ships_action2 NW dis) (fun n a => forall k c, In k (n_prods (C n)) -> In c (k_custs (PC n k)) -> gq2 a (fPIO, n, c, k) == 0)) with (a := n); [| |exact Hn|exact Hk|exact Hc].
  - intros a m k' c' Hk' Hc'. rewrite pio_ships_set by assumption. reflexivity.
  - intros a m m' Hz k' c' Hk' Hc'. apply (pio_le_zero a); [apply pio_le_ships_action|apply Hz; assumption]. Qed.

(* ---------- slot 0 of every order pipeline is empty after the orders phase ---------- *)
Hypothesis W : wfB_net2 NW.

Lemma recv_order_one_hd_keep n k s c K : hd0 (gl2 s K) = 0 -> hd0 (gl2 (recv_order_one2 n k s c) K) = 0.
Proof. intros H. unfold recv_order_one2. rewrite !gl2_addq2. kcase2 K (fOP, n, c, k); [gs2; apply hd0_zero0|]. rewrite gl2_sl2_other by exact KN. rewrite gl2_sq2. exact H. Qed.
Lemma recv_order_one_hd_set n k s c : hd0 (gl2 (recv_order_one2 n k s c) (fOP, n, c, k)) = 0.
Proof. unfold recv_order_one2. gs2. apply hd0_zero0. Qed.
Lemma recv_orders_hd2 s p k x : In k (n_prods (C p)) -> In x (k_custs (PC p k)) -> hd0 (gl2 (recv_orders2 NW s p) (fOP, p, x, k)) = 0.
Proof. intros Hk Hx. unfold recv_orders2.
  apply (fold_stable (recv_orders_prod NW p) (fun k a => forall x, In x (k_custs (PC p k)) -> hd0 (gl2 a (fOP, p, x, k)) = 0)); [| |exact Hk|exact Hx].
  - intros a k' x' Hx'. unfold recv_orders_prod.
    apply (fold_stable (recv_order_one2 p k') (fun x a => hd0 (gl2 a (fOP, p, x, k')) = 0)); [| |exact Hx'].
    + intros b y. apply recv_order_one_hd_set.
    + intros b y z Hz. apply recv_order_one_hd_keep. exact Hz.
  - intros a k' k'' Hz x' Hx'. unfold recv_orders_prod. apply fold_left_inv; [|apply Hz; exact Hx'].
    intros b y _ Hb. apply recv_order_one_hd_keep. exact Hb. Qed.

Lemma split_order_in q l x : In x (split_order q l) -> In (fst x) l.
Proof. revert q. induction l as [|p r IH]; intros q Hx; cbn [split_order] in Hx; [destruct Hx|].
  destruct Hx as [E|Hx]; [subst; left; reflexivity|right; apply (IH _ Hx)]. Qed.
Lemma place_orders_op s m p x i : In m (nodes2 NW) -> ~ In p (n_preds (C m)) -> gl2 (place_orders2 NW dis err s m) (fOP, p, x, i) = gl2 s (fOP, p, x, i).
Proof. intros Hm Hp. unfold place_orders2. destruct (disk2 NW dis m dOP); [reflexivity|].
  pose proof (w_node NW W m Hm) as Wm.
  apply (fold_left_inv (fun a => gl2 a (fOP, p, x, i) = gl2 s (fOP, p, x, i))); [|reflexivity].
  intros a k Hk Ha. unfold place_prod2.
  apply (fold_left_inv (fun b => gl2 b (fOP, p, x, i) = gl2 s (fOP, p, x, i))); [|gs2; exact Ha].
  intros b rb Hrb Hb. unfold place_rm2.
  apply (fold_left_inv (fun c => gl2 c (fOP, p, x, i) = gl2 s (fOP, p, x, i))); [|exact Hb].
  intros c y Hy Hc. unfold place_one2. rewrite !gl2_addq2. apply split_order_in in Hy. destruct (fst y) as [|p'].
  - rewrite gl2_sl2_other by (apply key2_neq_fld; discriminate). exact Hc.
  - rewrite gl2_sl2_other; [exact Hc|]. intro E. inversion E; subst. apply Hp.
    apply (w_edge NW m Wm (fst rb) p' (w_bomr NW m Wm k rb Hk Hrb) Hy). Qed.
Lemma gen_demand_op s m p x i : m <> p -> gl2 (gen_demand2 NW dem s m) (fOP, p, x, i) = gl2 s (fOP, p, x, i).
Proof. intros Hne. unfold gen_demand2. apply (fold_left_inv (fun a => gl2 a (fOP, p, x, i) = gl2 s (fOP, p, x, i))); [|reflexivity].
  intros a k _ Ha. destruct (has_ext _); [|exact Ha]. rewrite gl2_sl2_other; [exact Ha|]. intro E. inversion E; subst. apply Hne. reflexivity. Qed.
Lemma recv_orders_op s m p x i : m <> p -> gl2 (recv_orders2 NW s m) (fOP, p, x, i) = gl2 s (fOP, p, x, i).
Proof. intros Hne. unfold recv_orders2, recv_orders_prod. apply (fold_left_inv (fun a => gl2 a (fOP, p, x, i) = gl2 s (fOP, p, x, i))); [|reflexivity].
  intros a k _ Ha. apply (fold_left_inv (fun b => gl2 b (fOP, p, x, i) = gl2 s (fOP, p, x, i))); [|exact Ha].
  intros b y _ Hb. unfold recv_order_one2. rewrite !gl2_addq2. rewrite gl2_sl2_other; [rewrite gl2_sq2; exact Hb|]. intro E. inversion E; subst. apply Hne. reflexivity. Qed.
Lemma orders_action_hd_set2 s p k x : In p (nodes2 NW) -> ~ In p (n_preds (C p)) -> In k (n_prods (C p)) -> In x (k_custs (PC p k)) ->
  hd0 (gl2 (orders_action2 NW dis dem err s p) (fOP, p, x, k)) = 0.
Proof. intros Hn Hp Hk Hx. unfold orders_action2. rewrite place_orders_op by assumption. apply recv_orders_hd2; assumption. Qed.
Lemma orders_action_op_keep2 s m p x i : In m (nodes2 NW) -> m <> p -> ~ In p (n_preds (C m)) ->
  gl2 (orders_action2 NW dis dem err s m) (fOP, p, x, i) = gl2 s (fOP, p, x, i).
Proof. intros Hm Hne Hp. unfold orders_action2. rewrite place_orders_op by assumption. rewrite recv_orders_op by exact Hne. apply gen_demand_op. exact Hne. Qed.
Lemma orders_phase_hd2 : forall l s, (forall m, In m l -> In m (nodes2 NW)) -> topo (skel NW) l -> forall p k x, In p l -> In k (n_prods (C p)) -> In x (k_custs (PC p k)) ->
  hd0 (gl2 (fold_left (orders_action2 NW dis dem err) l s) (fOP, p, x, k)) = 0.
Proof. induction l as [|a r IH]; intros s Hl T p k x Hp Hk Hx; [destruct Hp|]. cbn [fold_left]. inversion T as [|? ? T1 T2 T3]; subst.
  destruct (in_dec N.eq_dec p r) as [Hr|Hnr]; [apply IH; try assumption; intros m Hm; apply Hl; right; exact Hm|].
  destruct Hp as [E|Hr]; [subst a|contradiction].
  apply (fold_left_inv (fun b => hd0 (gl2 b (fOP, p, x, k)) = 0)).
  - intros b m Hm Hb. rewrite orders_action_op_keep2; [exact Hb|apply Hl; right; exact Hm| |apply (T2 m Hm)]. intro E. subst. contradiction.
  - apply orders_action_hd_set2; try assumption. apply Hl; left; reflexivity. Qed.

(* the shipments phase does not touch the order pipelines *)
Lemma ships_action_op2 s m n x i : gl2 (ships_action2 NW dis s m) (fOP, n, x, i) = gl2 s (fOP, n, x, i).
Proof. unfold ships_action2, fill_rate2.
  apply (fold_left_inv (fun a => gl2 a (fOP, n, x, i) = gl2 s (fOP, n, x, i))); [intros a k _ Ha; unfold fill_rate_one2; rewrite gl2_sq2; exact Ha|].
  apply (fold_left_inv (fun a => gl2 a (fOP, n, x, i) = gl2 s (fOP, n, x, i))).
  { intros a k _ Ha. unfold serve2. apply (fold_left_inv (fun b => gl2 (fst b) (fOP, n, x, i) = gl2 s (fOP, n, x, i))); [|cbn [fst]; rewrite gl2_sq2; exact Ha].
    intros [b oh] c _ Hb. cbn [fst] in Hb. rewrite serve_one2_eq.
    assert (G : forall o io, gl2 (serve_q b m k c o io) (fOP, n, x, i) = gl2 s (fOP, n, x, i)) by (intros o io; unfold serve_q; gs2; exact Hb).
    destruct c; cbn [fst]; [apply G|]. rewrite gl2_sl2_other by (apply key2_neq_fld; discriminate). apply G. }
  unfold produce2. apply (fold_left_inv (fun a => gl2 a (fOP, n, x, i) = gl2 s (fOP, n, x, i))).
  { intros a k _ Ha. unfold produce_one2. rewrite !gl2_addq2.
    apply (fold_left_inv (fun b => gl2 b (fOP, n, x, i) = gl2 s (fOP, n, x, i))); [|exact Ha]. intros b rb _ Hb. rewrite gl2_addq2. exact Hb. }
  unfold recv_ship2, recv_ship_rm. apply (fold_left_inv (fun a => gl2 a (fOP, n, x, i) = gl2 s (fOP, n, x, i))); [|reflexivity].
  intros a r _ Ha. apply (fold_left_inv (fun b => gl2 b (fOP, n, x, i) = gl2 s (fOP, n, x, i))); [|exact Ha].
  intros b p _ Hb. unfold recv_ship_one2. gs2. exact Hb. Qed.

(* no action of the two phases touches fLOST *)
Definition lostf (f : fld) : bool := match f with fLOST => true | _ => false end.
Lemma LF_run_actions2 s : agree lostf s (run_actions2 NW dis dem err s).
Proof. unfold run_actions2. apply fold_left_inv.
  - intros a n _ Ha. apply (agree_trans _ _ _ _ Ha). unfold ships_action2.
    apply (agree_trans _ _ (recv_ship2 NW dis a n)); [apply agree_recv_ship; reflexivity|].
    apply (agree_trans _ _ (produce2 NW (recv_ship2 NW dis a n) n)); [apply agree_produce; reflexivity|].
    apply (agree_trans _ _ (fold_left (fun s0 k => serve2 NW dis s0 n k (gq2 a (fIL, n, Ext, k)) (made2 NW (recv_ship2 NW dis a n) n k)) (n_prods (C n)) (produce2 NW (recv_ship2 NW dis a n) n)));
      [apply agree_serves; reflexivity|apply agree_fill_rate; reflexivity].
  - apply fold_left_inv; [|apply agree_refl]. intros a n _ Ha. apply (agree_trans _ _ _ _ Ha). unfold orders_action2.
    apply (agree_trans _ _ (gen_demand2 NW dem a n)); [apply agree_gen_demand|].
    apply (agree_trans _ _ (recv_orders2 NW (gen_demand2 NW dem a n) n)); [apply agree_recv_orders; reflexivity|apply agree_place_orders; reflexivity]. Qed.

(* ---- end of period: the shift drops nothing when every slot 0 is empty ---- *)
Lemma next_custs_lost n k : forall l a, NoDup l -> (forall x, In x l -> hd0 (gl2 a (fOP, n, x, k)) == 0) ->
  (forall n' x' k', gq2 (fold_left (next_cust n k) l a) (fLOST, n', x', k') == gq2 a (fLOST, n', x', k')) /\
  (forall n' x' k', (n', k') <> (n, k) -> gl2 (fold_left (next_cust n k) l a) (fOP, n', x', k') = gl2 a (fOP, n', x', k')).
Proof. induction l as [|y r IH]; intros a ND Hz; cbn [fold_left]; [split; intros; reflexivity|].
  inversion ND as [|? ? Hny Hr]; subst.
  assert (Hz1 : forall z, In z r -> hd0 (gl2 (next_cust n k a y) (fOP, n, z, k)) == 0).
  { intros z Hzr. unfold next_cust. rewrite !gl2_sq2. rewrite gl2_sl2_other by (intro E; inversion E; subst; contradiction). rewrite gl2_addq2. apply Hz. right. exact Hzr. }
  destruct (IH (next_cust n k a y) Hr Hz1) as [I1 I2]. split.
  - intros n' x' k'. rewrite I1. unfold next_cust. rewrite !gq2_sq2_other by (apply key2_neq_fld; discriminate). rewrite gq2_sl2.
    kcase2 (fLOST, n', x', k') (fLOST, n, y, k); [gs2; rewrite (Hz y) by (left; reflexivity); lra|rewrite gq2_addq2_other by exact KN; reflexivity].
  - intros n' x' k' Hne. rewrite I2 by exact Hne. unfold next_cust. rewrite !gl2_sq2. rewrite gl2_sl2_other by (intro E; inversion E; subst; apply Hne; reflexivity). apply gl2_addq2. Qed.
Lemma next_prods_lost n : forall l a, NoDup l -> (forall k, In k l -> NoDup (k_custs (PC n k))) ->
  (forall k x, In k l -> In x (k_custs (PC n k)) -> hd0 (gl2 a (fOP, n, x, k)) == 0) ->
  (forall n' x' k', gq2 (fold_left (next_prod NW n) l a) (fLOST, n', x', k') == gq2 a (fLOST, n', x', k')) /\
  (forall n' x' k', n' <> n -> gl2 (fold_left (next_prod NW n) l a) (fOP, n', x', k') = gl2 a (fOP, n', x', k')).
Proof. induction l as [|k r IH]; intros a ND NDc Hz; cbn [fold_left]; [split; intros; reflexivity|].
  inversion ND as [|? ? Hnk Hr]; subst.
  destruct (next_custs_lost n k (k_custs (PC n k)) a (NDc k (or_introl eq_refl)) (fun x Hx => Hz k x (or_introl eq_refl) Hx)) as [C1 C2].
  assert (P1 : forall n' x' k', gq2 (next_prod NW n a k) (fLOST, n', x', k') == gq2 a (fLOST, n', x', k')).
  { intros n' x' k'. unfold next_prod. rewrite !gq2_sq2_other by (apply key2_neq_fld; discriminate). rewrite gq2_sl2. apply C1. }
  assert (P2 : forall n' x' k', (n', k') <> (n, k) -> gl2 (next_prod NW n a k) (fOP, n', x', k') = gl2 a (fOP, n', x', k')).
  { intros n' x' k' Hne. unfold next_prod. rewrite !gl2_sq2. rewrite gl2_sl2_other by (apply key2_neq_fld; discriminate). apply C2. exact Hne. }
  destruct (IH (next_prod NW n a k) Hr (fun k' Hk' => NDc k' (or_intror Hk'))) as [I1 I2].
  { intros k' x Hk' Hx. rewrite P2 by (intro E; inversion E; subst; contradiction). apply Hz; [right; exact Hk'|exact Hx]. }
  split.
  - intros n' x' k'. rewrite I1. apply P1.
  - intros n' x' k' Hne. rewrite I2 by exact Hne. apply P2. intro E. inversion E; subst. apply Hne. reflexivity. Qed.
Lemma next_node_lost2 s m : In m (nodes2 NW) ->
  (forall k x, In k (n_prods (C m)) -> In x (k_custs (PC m k)) -> hd0 (gl2 s (fOP, m, x, k)) == 0) ->
  (forall n' x' k', gq2 (next_node2 NW dis s m) (fLOST, n', x', k') == gq2 s (fLOST, n', x', k')) /\
  (forall n' x' k', n' <> m -> gl2 (next_node2 NW dis s m) (fOP, n', x', k') = gl2 s (fOP, n', x', k')).
Proof. intros Hm Hz. unfold next_node2. pose proof (w_node NW W m Hm) as Wm.
  set (s1 := fold_left _ (n_rms (C m)) s).
  assert (S1 : forall n' x' k', gq2 s1 (fLOST, n', x', k') = gq2 s (fLOST, n', x', k') /\ gl2 s1 (fOP, n', x', k') = gl2 s (fOP, n', x', k')).
  { intros n' x' k'. unfold s1. apply (fold_left_inv (fun a => gq2 a (fLOST, n', x', k') = gq2 s (fLOST, n', x', k') /\ gl2 a (fOP, n', x', k') = gl2 s (fOP, n', x', k'))); [|split; reflexivity].
    intros a r _ Ha. apply (fold_left_inv (fun a => gq2 a (fLOST, n', x', k') = gq2 s (fLOST, n', x', k') /\ gl2 a (fOP, n', x', k') = gl2 s (fOP, n', x', k'))); [|exact Ha].
    intros b p _ [B1 B2]. unfold next_sup. rewrite !gq2_sq2_other by (apply key2_neq_fld; discriminate). rewrite !gl2_sq2. rewrite gq2_sl2.
    rewrite gl2_sl2_other by (apply key2_neq_fld; discriminate).
    destruct (disk2 NW dis m dTP); [split; assumption|]. rewrite gq2_sl2. rewrite gl2_sl2_other by (apply key2_neq_fld; discriminate). split; assumption. }
  destruct (next_prods_lost m (n_prods (C m)) s1 (w_prods NW m Wm) (w_custs NW m Wm)) as [I1 I2].
  { intros k x Hk Hx. rewrite (proj2 (S1 m x k)). apply Hz; assumption. }
  split.
  - intros n' x' k'. rewrite I1. rewrite (proj1 (S1 n' x' k')). reflexivity.
  - intros n' x' k' Hne. rewrite I2 by exact Hne. apply S1. Qed.
Lemma next_period_lost2 : forall l s, NoDup l -> (forall m, In m l -> In m (nodes2 NW)) ->
  (forall n k x, In n l -> In k (n_prods (C n)) -> In x (k_custs (PC n k)) -> hd0 (gl2 s (fOP, n, x, k)) == 0) ->
  forall n' x' k', gq2 (fold_left (next_node2 NW dis) l s) (fLOST, n', x', k') == gq2 s (fLOST, n', x', k').
Proof. induction l as [|m r IH]; intros s NDl Hl Hz n' x' k'; cbn [fold_left]; [reflexivity|]. inversion NDl as [|? ? Hnm Hr]; subst.
  destruct (next_node_lost2 s m (Hl m (or_introl eq_refl)) (fun k x Hk Hx => Hz m k x (or_introl eq_refl) Hk Hx)) as [N1 N2].
  rewrite IH; [apply N1|exact Hr|intros m' Hm'; apply Hl; right; exact Hm'|].
  intros n k x Hn Hk Hx. rewrite N2 by (intro E; subst; contradiction). apply Hz; [right; exact Hn|exact Hk|exact Hx]. Qed.
End Pipe.
