(* Stage-2 simulator (multi-product networks with bills of materials), group C, part 2: COSTS (C05).
   [node_costs2] (Model2.v) against a specification written from the property text:
     holding    = sum over the node's products of  rate x (positive inventory + items held for disrupted customers)
                  + sum over the node's raw materials r (each ONCE, however many products use it) of
                    (holding rate, at the pricing supplier, of item r) x (raw-material inventory + items held at the door from
                    that supplier); the pricing supplier is the first supplier of r that is a node (none: no charge);
     stockout   = sum over the products of  rate x backorders            (backorders = negative part of the inventory level:
                                                                          group A's theorem, used for every record of a run);
     in-transit = sum over the products of (in-transit rate, default: holding rate) x everything in transit to the
                  product's customer nodes;
     revenue    = revenue rate x shipments of the LAST product of the list (sim.py assigns, it does not accumulate);
     total      = holding + stockout + in-transit - revenue;  total_cost2 = sum over records and nodes.
   The model's raw-material rate is the input table [m_price]; [priceC_ok] (decidable: [priceC_okb]) says that the table
   holds the first node supplier and its holding rate for the item. *)
From SV Require Import Base.Qx.
From SV Require Import Sim.Model Sim.StateLemmas Sim.Inv_base Sim.Inv_node.
From SV Require Import Sim2.State2 Sim2.Model2.
From SV Require Import Sim2.Inv2a_tac Sim2.Inv2a_nn Sim2.Inv2a_node Sim2.Inv2a_run Sim2.Wfb2 Sim2.Main2a.
From Coq Require Import Permutation.

Fixpoint first_node_supC (l : list nb) : option N :=
  match l with [] => None | Nd p :: _ => Some p | Ext :: r => first_node_supC r end.
Lemma first_node_supC_in l p : first_node_supC l = Some p -> In (Nd p) l.
Proof. induction l as [|[|q] r IH]; cbn [first_node_supC]; intros H; [discriminate|right; apply IH; exact H|]. inversion H; subst. left. reflexivity. Qed.

Lemma qsum_permC l l' : Permutation l l' -> qsum l == qsum l'.
Proof. induction 1; cbn [qsum]; lra. Qed.
Lemma qsumf_permC {A} (g : A -> Q) l l' : Permutation l l' -> qsumf g l == qsumf g l'.
Proof. intros H. unfold qsumf. apply qsum_permC. apply Permutation_map. exact H. Qed.
Lemma fold_last_valC {A} (g : A -> Q) l d : fold_left (fun _ k => g k) l d = last (map g l) d.
Proof. assert (L : forall (l0 : list Q) x0 d0 d1, last (x0 :: l0) d0 = last (x0 :: l0) d1).
  { induction l0 as [|y l0 IH]; intros x0 d0 d1; [reflexivity|]. change (last (y :: l0) d0 = last (y :: l0) d1). apply IH. }
  revert d. induction l as [|a r IH]; intros d; cbn [fold_left map]; [reflexivity|]. rewrite IH. destruct r as [|b r]; [reflexivity|].
  cbn [map]. change (last (g a :: g b :: map g r) d) with (last (g b :: map g r) d). apply L. Qed.

Section CostC.
Variable NW : net2.
Notation C := (cfg2 NW).
Notation PC := (PC NW).
Notation RC := (RC NW).

(* ---------- the price table of a raw material ---------- *)
Definition priceC_ok (n r : N) : Prop :=
  match first_node_supC (m_sups (RC n r)) with
  | Some p => exists rate, m_price (RC n r) = Some (p, rate) /\ rate == k_hc (PC p r)
  | None => m_price (RC n r) = None end.
Definition priceC_okb (n r : N) : bool :=
  match first_node_supC (m_sups (RC n r)), m_price (RC n r) with
  | Some p, Some (p', rate) => N.eqb p p' && qeqb rate (k_hc (PC p r))
  | None, None => true
  | _, _ => false end.
Lemma priceC_okb_sound n r : priceC_okb n r = true -> priceC_ok n r.
Proof. unfold priceC_okb, priceC_ok. destruct (first_node_supC _) as [p|]; destruct (m_price _) as [[p' rate]|]; try discriminate; [|reflexivity].
  intros H. apply andb_true_iff in H. destruct H as [H1 H2]. apply N.eqb_eq in H1. subst p'. exists rate. split; [reflexivity|].
  unfold qeqb in H2. apply Qeq_bool_iff. exact H2. Qed.

(* ---------- specification, written from the property text over the fields of the record ---------- *)
Definition on_handC (e : st2) (n k : N) : Q := qmax 0 (gq2 e (fIL, n, Ext, k)).
Definition held_for_customersC (e : st2) (n k : N) : Q := qsum (map (fun c => gq2 e (fODI, n, c, k)) (k_custs (PC n k))).
Definition backordersC (e : st2) (n k : N) : Q := qsum (map (fun c => gq2 e (fBO, n, c, k)) (k_custs (PC n k))).
Definition in_transitC (e : st2) (n k : N) : Q :=
  qsum (map (fun c => match c with Nd c' => qsum (gl2 e (fSP, c', Nd n, k)) | Ext => 0 end) (k_custs (PC n k))).
Definition shippedC (e : st2) (n k : N) : Q := qsum (map (fun c => gq2 e (fOS, n, c, k)) (k_custs (PC n k))).
Definition rm_holdingC (e : st2) (n r : N) : Q :=
  match first_node_supC (m_sups (RC n r)) with
  | Some p => k_hc (PC p r) * (gq2 e (fRM, n, Ext, r) + gq2 e (fIDI, n, Nd p, r))
  | None => 0 end.
Definition in_transit_rateC (n k : N) : Q := match k_ith (PC n k) with Some x => x | None => k_hc (PC n k) end.

Definition holding_specC (e : st2) (n : N) : Q :=
  qsum (map (fun k => k_hc (PC n k) * (on_handC e n k + held_for_customersC e n k)) (n_prods (C n)))
  + qsum (map (rm_holdingC e n) (n_rms (C n))).
Definition stockout_specC (e : st2) (n : N) : Q := qsum (map (fun k => k_pc (PC n k) * backordersC e n k) (n_prods (C n))).
Definition stockout_il_specC (e : st2) (n : N) : Q := qsum (map (fun k => k_pc (PC n k) * qmax 0 (- gq2 e (fIL, n, Ext, k))) (n_prods (C n))).
Definition in_transit_specC (e : st2) (n : N) : Q := qsum (map (fun k => in_transit_rateC n k * in_transitC e n k) (n_prods (C n))).
Definition revenue_specC (e : st2) (n : N) : Q := last (map (fun k => k_rev (PC n k) * shippedC e n k) (n_prods (C n))) 0.

(* ---------- model = specification ---------- *)
Lemma rm_hold_specC e n r : priceC_ok n r -> rm_hold_of NW e n r == rm_holdingC e n r.
Proof. unfold priceC_ok, rm_hold_of, rm_holdingC. destruct (first_node_supC _) as [p|].
  - intros (rate & E & Hr). rewrite E. rewrite Hr. reflexivity.
  - intros E. rewrite E. reflexivity. Qed.
Theorem costs_match_spec2c e n : (forall r, In r (n_rms (C n)) -> priceC_ok n r) ->
  let k := node_costs2 NW e n in
  c_hc k == holding_specC e n /\ c_sc k = stockout_il_specC e n /\ c_ithc k = in_transit_specC e n /\ c_rev k = revenue_specC e n
  /\ c_tc k = c_hc k + c_sc k + c_ithc k - c_rev k.
Proof. intros HP. cbv zeta. unfold node_costs2. cbn [c_hc c_sc c_ithc c_rev c_tc]. split; [|split; [reflexivity|split; [reflexivity|split; [|reflexivity]]]].
  - unfold holding_specC. fold (qsumf (rm_holdingC e n) (n_rms (C n))).
    rewrite (qsumf_ext (rm_holdingC e n) (rm_hold_of NW e n) (n_rms (C n))) by (intros r Hr; apply rm_hold_specC, HP, Hr). reflexivity.
  - unfold revenue_specC. apply (fold_last_valC (fun k => k_rev (PC n k) * qsumf (fun x => gq2 e (fOS, n, x, k)) (k_custs (PC n k)))). Qed.
(* the part that does not depend on the price table *)
Theorem costs_match_spec2c_noprice e n : let k := node_costs2 NW e n in
  c_hc k = qsum (map (fun k => k_hc (PC n k) * (on_handC e n k + held_for_customersC e n k)) (n_prods (C n))) + qsum (map (rm_hold_of NW e n) (n_rms (C n)))
  /\ c_sc k = stockout_il_specC e n /\ c_ithc k = in_transit_specC e n /\ c_tc k = c_hc k + c_sc k + c_ithc k - c_rev k.
Proof. cbv zeta. repeat split; reflexivity. Qed.

(* each raw material is charged once: the raw-material part of the holding cost is a sum over the SET of raw materials -
   over any duplicate-free enumeration of it, e.g. the de-duplicated union of the products' bills of materials *)
Theorem rm_charged_onceC (g : N -> Q) (l L : list N) : NoDup l -> NoDup L -> (forall r, In r l <-> In r L) -> qsumf g l == qsumf g L.
Proof. intros N1 N2 H. apply qsumf_permC. apply NoDup_Permutation; assumption. Qed.
Definition bom_rmsC (n : N) : list N := nodup N.eq_dec (flat_map (fun k => map fst (k_bom (PC n k))) (n_prods (C n))).
Theorem rm_holding_over_bomsC e n : NoDup (n_rms (C n)) ->
  (forall r, In r (n_rms (C n)) <-> exists k, In k (n_prods (C n)) /\ In r (map fst (k_bom (PC n k)))) ->
  qsumf (rm_holdingC e n) (n_rms (C n)) == qsumf (rm_holdingC e n) (bom_rmsC n).
Proof. intros ND H. apply rm_charged_onceC; [exact ND|apply NoDup_nodup|]. intros r. unfold bom_rmsC. rewrite nodup_In, in_flat_map. apply H. Qed.

Theorem total_is_sum2c recs : total_cost2 NW recs = qsum (map (fun e => qsum (map (fun n => c_tc (node_costs2 NW e n)) (nodes2 NW))) recs).
Proof. reflexivity. Qed.

(* ---------- all three components are non-negative under non-negative rates and counts ---------- *)
Definition ratesC_ok (n : N) : Prop :=
  (forall k, In k (n_prods (C n)) -> 0 <= k_hc (PC n k) /\ 0 <= k_pc (PC n k) /\ match k_ith (PC n k) with Some x => 0 <= x | None => True end) /\
  (forall r, In r (n_rms (C n)) -> match m_price (RC n r) with Some (_, rate) => 0 <= rate | None => True end).
Definition ratesC_okb (n : N) : bool :=
  forallb (fun k => qleb 0 (k_hc (PC n k)) && qleb 0 (k_pc (PC n k)) && match k_ith (PC n k) with Some x => qleb 0 x | None => true end) (n_prods (C n))
  && forallb (fun r => match m_price (RC n r) with Some (_, rate) => qleb 0 rate | None => true end) (n_rms (C n)).
Lemma ratesC_okb_sound n : ratesC_okb n = true -> ratesC_ok n.
Proof. unfold ratesC_okb, ratesC_ok. intros H. apply andb_true_iff in H. destruct H as [H1 H2]. rewrite forallb_forall in H1, H2. split.
  - intros k Hk. specialize (H1 k Hk). apply andb_true_iff in H1. destruct H1 as [H1 H3]. apply andb_true_iff in H1. destruct H1 as [H1 H4].
    split; [apply qleb_true2; exact H1|]. split; [apply qleb_true2; exact H4|]. destruct (k_ith (PC n k)); [apply qleb_true2; exact H3|exact I].
  - intros r Hr. specialize (H2 r Hr). destruct (m_price (RC n r)) as [[p rate]|]; [apply qleb_true2; exact H2|exact I]. Qed.

Theorem costs_nonneg2c e n : NN2 e -> ratesC_ok n ->
  let k := node_costs2 NW e n in 0 <= c_hc k /\ 0 <= c_sc k /\ 0 <= c_ithc k.
Proof. intros HN [HR1 HR2]. cbv zeta. unfold node_costs2. cbn [c_hc c_sc c_ithc]. split; [|split].
  - assert (A : 0 <= qsumf (fun k => k_hc (PC n k) * held_of NW e n k) (n_prods (C n))).
    { apply qsumf_nonneg. intros k Hk. destruct (HR1 k Hk) as (Hh & _ & _). apply Qmult_le_0_compat; [exact Hh|]. unfold held_of.
      assert (0 <= qsumf (fun c => gq2 e (fODI, n, c, k)) (k_custs (PC n k))) by (apply qsumf_nonneg; intros c _; apply (NNg_q nnf); [exact HN|reflexivity]).
      qcases; lra. }
    assert (B : 0 <= qsumf (rm_hold_of NW e n) (n_rms (C n))).
    { apply qsumf_nonneg. intros r Hr. specialize (HR2 r Hr). unfold rm_hold_of. destruct (m_price (RC n r)) as [[p rate]|]; [|lra].
      apply Qmult_le_0_compat; [exact HR2|]. pose proof (NNg_q nnf e fRM n Ext r HN eq_refl). pose proof (NNg_q nnf e fIDI n (Nd p) r HN eq_refl). lra. }
    lra.
  - apply qsumf_nonneg. intros k Hk. destruct (HR1 k Hk) as (_ & Hp & _). apply Qmult_le_0_compat; [exact Hp|qcases; lra].
  - apply qsumf_nonneg. intros k Hk. destruct (HR1 k Hk) as (Hh & _ & Hi). apply Qmult_le_0_compat; [destruct (k_ith (PC n k)); assumption|].
    unfold in_transit_of. apply qsumf_nonneg. intros c _. destruct c as [|c']; [lra|]. apply qsum_nonneg. apply (NNg_l nnf). exact HN. Qed.
End CostC.

(* ---------- every record of every run: stockout cost = rate x backorders; components >= 0 ---------- *)
Section CostRunC.
Variable (NW : net2) (inputs : inputs2).
Hypothesis G : good2b NW = true.
Hypothesis D : dem_ok2 inputs.
Theorem stockout_is_backorders2c e n : In e (run2 NW inputs) ->
  c_sc (node_costs2 NW e n) == stockout_specC NW e n.
Proof. intros He. unfold node_costs2. cbn [c_sc]. unfold stockout_specC.
  apply (qsumf_ext (fun k => k_pc (PC NW n k) * backordersC NW e n k)). intros k _.
  pose proof (C02m_backorders_eq_neg_il NW inputs G D e n k He) as B. unfold backordersC. unfold qsumf in B. rewrite B. reflexivity. Qed.
Theorem costs_nonneg_run2c e n : In e (run2 NW inputs) -> ratesC_ok NW n ->
  let k := node_costs2 NW e n in 0 <= c_hc k /\ 0 <= c_sc k /\ 0 <= c_ithc k.
Proof. intros He HR. apply costs_nonneg2c; [|exact HR]. pose proof (C02m_invariants NW inputs G D) as F. rewrite Forall_forall in F. apply (F e He). Qed.
End CostRunC.
