(* C04 strengthened: the state s0 of [run_order_follows_policyC] / [C04m_run_order_follows_policy] is NAMED.
   [order_start_state NW inputs t n] (OrderStart2.v) is the state of the model in which node n's products start placing their
   orders in period t; the finished-goods order on record of product k of node n in record t is
       0                                                                  while n is order-pausing disrupted,
       capq cap (rule pol (obs_ip2 (place_uptoC (order_start_state NW inputs t n) n pre) n k + err))      otherwise,
   where pre = the products of n placed before k.  Also: the record of period t IS the continuation of the model from that state
   ([record_from_order_start]: place_orders2 at n, the orders actions of the nodes after n, the shipments phase), so the named
   state is on the run's own path and not merely some state satisfying the equation. *)
From SV Require Import Base.Qx.
From SV Require Import Sim.Model Sim.StateLemmas Sim.Inv_base Sim.Inv_node Sim.Inv_bound.
From SV Require Import Sim2.State2 Sim2.Model2.
From SV Require Import Sim2.Inv2b_tac Sim2.Inv2b_book Sim2.Inv2b_pipe Sim2.Inv2b_init Sim2.Inv2b_period.
From SV Require Import Sim2.Inv2c_order Sim2.Main2b Sim2.Main2c.
From SV Require Import Sim2.OrderStart2.

Lemma dflt_input2s_eq : dflt_input2s = dflt_input2.
Proof. reflexivity. Qed.

(* ---------- the traversal splits at n ---------- *)
Lemma visited_before_split n l : In n l -> exists post, l = visited_before n l ++ n :: post.
Proof. induction l as [|x r IH]; intros H; [destruct H|]. cbn [visited_before]. destruct (N.eqb_spec x n) as [E|NE].
  - subst x. exists r. reflexivity.
  - destruct H as [E|H]; [congruence|]. destruct (IH H) as (post & E). exists post. cbn [app]. rewrite <- E. reflexivity. Qed.
Lemma visited_before_notin n l : ~ In n (visited_before n l).
Proof. induction l as [|x r IH]; cbn [visited_before]; [intros []|]. destruct (N.eqb_spec x n) as [E|NE]; [intros []|].
  intros [E|H]; [congruence|exact (IH H)]. Qed.
Lemma visited_before_incl n l : incl (visited_before n l) l.
Proof. induction l as [|x r IH]; cbn [visited_before]; [intros y []|]. destruct (N.eqb x n); [intros y []|].
  intros y [E|H]; [left; exact E|right; exact (IH y H)]. Qed.
Lemma split_after_notin (n : N) pre post : NoDup (pre ++ n :: post) -> ~ In n post.
Proof. intros ND H. apply (NoDup_remove_2 _ _ _ ND). apply in_or_app. right. exact H. Qed.

(* ---------- every record is run_actions2 applied to the period's start state ---------- *)
Lemma record_from_period_start NW inputs t : (t < length inputs)%nat ->
  let i := nth t inputs dflt_input2s in
  nth t (run2 NW inputs) empty_st2 = run_actions2 NW (i_dis i) (i_dem i) (i_err i) (period_start_state NW inputs t).
Proof. intros Ht. cbv zeta. rewrite dflt_input2s_eq. destruct t as [|t'].
  - unfold run2. destruct inputs as [|i0 rest]; [cbn in Ht; lia|]. reflexivity.
  - unfold run2. rewrite run_from2_nth_succ by exact Ht. reflexivity. Qed.

(* at the start of a period nothing is on record as ordered *)
Lemma period_start_oqfg0 NW inputs t n k : In n (nodes2 NW) -> In k (n_prods (cfg2 NW n)) ->
  gq2 (period_start_state NW inputs t) (fOQFG, n, Ext, k) == 0.
Proof. intros Hn Hk. destruct t as [|t']; cbn [period_start_state].
  - rewrite init_zero2 by discriminate. reflexivity.
  - apply next_period_oqfg0C; assumption. Qed.

Section NamedPeriod.
Variable NW : net2.
Variable (dis : N -> bool) (dem err : N -> N -> Q).
Notation OA := (orders_action2 NW dis dem err).

(* one period, the state named: s0 = state after the orders actions of the nodes visited before n and n's own demand
   generation and receipt of inbound orders *)
Lemma run_actions2_fg_named s n pre k post : NoDup (order_visit2 NW) -> In n (order_visit2 NW) ->
  NoDup (n_prods (cfg2 NW n)) -> n_prods (cfg2 NW n) = pre ++ k :: post ->
  let s0 := recv_orders2 NW (gen_demand2 NW dem (fold_left OA (visited_before n (order_visit2 NW)) s) n) n in
  gq2 (run_actions2 NW dis dem err s) (fOQFG, n, Ext, k)
  == gq2 s (fOQFG, n, Ext, k) + (if disk2 NW dis n dOP then 0 else policy_qtyC NW err (place_uptoC NW err s0 n pre) n k).
Proof. intros NDv Hn NDp E. cbv zeta. unfold run_actions2.
  destruct (visited_before_split n (order_visit2 NW) Hn) as (aft & Ev).
  set (bef := visited_before n (order_visit2 NW)) in *.
  set (s1 := fold_left OA (order_visit2 NW) s).
  assert (SH : gq2 (fold_left (ships_action2 NW dis) (ship_visit2 NW) s1) (fOQFG, n, Ext, k) = gq2 s1 (fOQFG, n, Ext, k)).
  { apply (fold_left_inv (fun a => gq2 a (fOQFG, n, Ext, k) = gq2 s1 (fOQFG, n, Ext, k))); [|reflexivity]. intros a x _ Ha. rewrite <- Ha.
    apply (agree_ships_actionC NW dis oqsfC a x); reflexivity. }
  set (t1 := fold_left OA bef s).
  assert (T1 : gq2 t1 (fOQFG, n, Ext, k) = gq2 s (fOQFG, n, Ext, k)).
  { unfold t1. apply (fold_left_inv (fun a => gq2 a (fOQFG, n, Ext, k) = gq2 s (fOQFG, n, Ext, k))); [|reflexivity].
    intros a x Hx Ha. rewrite orders_q_other2; [exact Ha|]. intro X. subst x. exact (visited_before_notin n (order_visit2 NW) Hx). }
  assert (T2 : gq2 s1 (fOQFG, n, Ext, k) = gq2 (OA t1 n) (fOQFG, n, Ext, k)).
  { unfold s1. rewrite Ev. rewrite fold_left_app. cbn [fold_left]. fold t1.
    apply (fold_left_inv (fun a => gq2 a (fOQFG, n, Ext, k) = gq2 (OA t1 n) (fOQFG, n, Ext, k))); [|reflexivity].
    intros a x Hx Ha. rewrite orders_q_other2; [exact Ha|]. intro X. subst x. rewrite Ev in NDv. exact (split_after_notin n bef aft NDv Hx). }
  set (s0 := recv_orders2 NW (gen_demand2 NW dem t1 n) n).
  assert (A : agree oqsfC t1 s0).
  { apply (agree_trans _ _ (gen_demand2 NW dem t1 n)); [apply agree_gen_demand|apply agree_recv_orders; reflexivity]. }
  rewrite SH, T2. unfold orders_action2. fold s0.
  destruct (place_orders2_fgC NW dis err s0 n pre k post NDp E) as [P _]. cbv zeta in P. rewrite P.
  rewrite (A fOQFG n Ext k eq_refl), T1. reflexivity. Qed.

(* the period's end-of-period state is the continuation of the model from the named state *)
Lemma run_actions2_from_named s n : In n (order_visit2 NW) ->
  let s0 := recv_orders2 NW (gen_demand2 NW dem (fold_left OA (visited_before n (order_visit2 NW)) s) n) n in
  exists aft, order_visit2 NW = visited_before n (order_visit2 NW) ++ n :: aft /\
    run_actions2 NW dis dem err s
    = fold_left (ships_action2 NW dis) (ship_visit2 NW) (fold_left OA aft (place_orders2 NW dis err s0 n)).
Proof. intros Hn. cbv zeta. destruct (visited_before_split n (order_visit2 NW) Hn) as (aft & Ev). exists aft. split; [exact Ev|].
  unfold run_actions2. rewrite Ev at 1. rewrite fold_left_app. cbn [fold_left]. reflexivity. Qed.
End NamedPeriod.

(* ====================== run level: the named state ====================== *)
Theorem run_order_follows_policy_namedC NW inputs t n pre k post :
  NoDup (order_visit2 NW) -> In n (order_visit2 NW) -> In n (nodes2 NW) -> NoDup (n_prods (cfg2 NW n)) -> n_prods (cfg2 NW n) = pre ++ k :: post ->
  (t < length inputs)%nat ->
  let e := nth t (run2 NW inputs) empty_st2 in let i := nth t inputs dflt_input2 in
  gq2 e (fOQFG, n, Ext, k)
  == if disk2 NW (i_dis i) n dOP then 0 else policy_qtyC NW (i_err i) (place_uptoC NW (i_err i) (order_start_state NW inputs t n) n pre) n k.
Proof. intros NDv Hv Hn NDp E Ht. cbv zeta.
  assert (Hk : In k (n_prods (cfg2 NW n))) by (rewrite E; apply in_or_app; right; left; reflexivity).
  pose proof (record_from_period_start NW inputs t Ht) as R. cbv zeta in R. rewrite R. rewrite dflt_input2s_eq.
  set (i := nth t inputs dflt_input2).
  pose proof (run_actions2_fg_named NW (i_dis i) (i_dem i) (i_err i) (period_start_state NW inputs t) n pre k post NDv Hv NDp E) as H.
  cbv zeta in H. rewrite H. rewrite (period_start_oqfg0 NW inputs t n k Hn Hk).
  unfold order_start_state, node_turn_state. rewrite dflt_input2s_eq. fold i. lra. Qed.

(* the named state lies on the path of the run: record t = shipments phase (orders actions of the nodes after n (n's order placement (named state))) *)
Theorem record_from_order_start NW inputs t n : In n (order_visit2 NW) -> (t < length inputs)%nat ->
  let e := nth t (run2 NW inputs) empty_st2 in let i := nth t inputs dflt_input2 in
  exists aft, order_visit2 NW = visited_before n (order_visit2 NW) ++ n :: aft /\
    e = fold_left (ships_action2 NW (i_dis i)) (ship_visit2 NW)
          (fold_left (orders_action2 NW (i_dis i) (i_dem i) (i_err i)) aft
             (place_orders2 NW (i_dis i) (i_err i) (order_start_state NW inputs t n) n)).
Proof. intros Hv Ht. cbv zeta. pose proof (record_from_period_start NW inputs t Ht) as R. cbv zeta in R. rewrite R. rewrite dflt_input2s_eq.
  set (i := nth t inputs dflt_input2).
  destruct (run_actions2_from_named NW (i_dis i) (i_dem i) (i_err i) (period_start_state NW inputs t) n Hv) as (aft & Ev & H).
  exists aft. split; [exact Ev|]. rewrite H. unfold order_start_state, node_turn_state. rewrite dflt_input2s_eq. fold i. reflexivity. Qed.

(* ====================== property level (hypotheses as the decidable checks of Main2b.v) ====================== *)
Section Run2cNamed.
Variable (NW : net2) (inputs : inputs2).
Hypothesis G : goodB2b NW = true.
Theorem C04m_run_order_follows_policy_named : onceB2b NW = true -> forall t n pre k post, (t < length inputs)%nat ->
  In n (nodes2 NW) -> n_prods (cfg2 NW n) = pre ++ k :: post ->
  let e := nth t (run2 NW inputs) empty_st2 in let i := nth t inputs dflt_input2 in
  let s0 := order_start_state NW inputs t n in   (* the state in which n's products start placing their orders in period t *)
  gq2 e (fOQFG, n, Ext, k)
  == if disk2 NW (i_dis i) n dOP then 0
     else capq (k_cap (PC NW n k)) (rule (k_pol (PC NW n k))
            (obs_ip2 NW (fold_left (fun s k' => place_prod2 NW (i_err i) s n k') pre s0) n k + i_err i n k)).
Proof. intros O t n pre k post Ht Hn E. pose proof (goodB2b_sound NW G) as W.
  apply (run_order_follows_policy_namedC NW inputs t n pre k post (o_ord NW (onceB2b_sound NW O)) (w_ord NW W n Hn) Hn (w_prods NW n (w_node NW W n Hn)) E Ht). Qed.

(* the old (weak) statement is a corollary *)
Corollary C04m_run_order_follows_policy_weak : onceB2b NW = true -> forall t n pre k post, (t < length inputs)%nat ->
  In n (nodes2 NW) -> n_prods (cfg2 NW n) = pre ++ k :: post ->
  let e := nth t (run2 NW inputs) empty_st2 in let i := nth t inputs dflt_input2 in
  exists s0,
    gq2 e (fOQFG, n, Ext, k)
    == if disk2 NW (i_dis i) n dOP then 0
       else capq (k_cap (PC NW n k)) (rule (k_pol (PC NW n k))
              (obs_ip2 NW (fold_left (fun s k' => place_prod2 NW (i_err i) s n k') pre s0) n k + i_err i n k)).
Proof. intros O t n pre k post Ht Hn E. cbv zeta. exists (order_start_state NW inputs t n).
  exact (C04m_run_order_follows_policy_named O t n pre k post Ht Hn E). Qed.

Theorem C04m_record_from_order_start : forall t n, (t < length inputs)%nat -> In n (nodes2 NW) ->
  let e := nth t (run2 NW inputs) empty_st2 in let i := nth t inputs dflt_input2 in
  exists aft, order_visit2 NW = visited_before n (order_visit2 NW) ++ n :: aft /\
    e = fold_left (ships_action2 NW (i_dis i)) (ship_visit2 NW)
          (fold_left (orders_action2 NW (i_dis i) (i_dem i) (i_err i)) aft
             (place_orders2 NW (i_dis i) (i_err i) (order_start_state NW inputs t n) n)).
Proof. intros t n Ht Hn. apply record_from_order_start; [apply (w_ord NW (goodB2b_sound NW G) n Hn)|exact Ht]. Qed.
End Run2cNamed.

Print Assumptions C04m_run_order_follows_policy_named.
Print Assumptions C04m_run_order_follows_policy_weak.
Print Assumptions C04m_record_from_order_start.
