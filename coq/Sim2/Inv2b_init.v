(* Stage-2 simulator invariants (group B), part 3: the initial state satisfies every invariant; every end-of-period
   state of every run satisfies them (ALLB2_run); at period ends nothing is pending and nothing was dropped (cleanB2_run). *)
From SV Require Import Base.Qx.
From SV Require Import Sim.Model Sim.StateLemmas Sim.Inv_base Sim.Inv_node Sim.Inv_init Sim.Inv_bound.
From SV Require Import Sim2.State2 Sim2.Model2.
From SV Require Import Sim2.Inv2b_tac Sim2.Inv2b_book Sim2.Inv2b_pipe.

Section Init.
Variable NW : net2.
Notation C := (cfg2 NW).
Notation PC := (PC NW).
Notation RC := (RC NW).
Hypothesis W : wfB_net2 NW.

Definition spinit2 (n : N) (p : nb) : list Q :=
  repeat (n_init_ships (C n)) (n_slt (C n)) ++ repeat (match p with Ext => n_init_orders (C n) | Nd _ => 0 end) (n_olt (C n)) ++ [0].
Definition opinit2 (x : nb) : list Q :=
  match x with Nd x' => repeat (n_init_orders (C x')) (n_olt (C x')) ++ [0] | Ext => [0] end.

Lemma nf_IL : fIL <> fSP /\ fIL <> fOQ /\ fIL <> fOO.  Proof. repeat split; discriminate. Qed.
Lemma nf_OP : fOP <> fSP /\ fOP <> fOQ /\ fOP <> fOO.  Proof. repeat split; discriminate. Qed.
Lemma ne2 (n a b : N) : a <> b -> (n, a) <> (n, b).
Proof. intros H E. inversion E. contradiction. Qed.
Lemma ne3x (n : N) (x y : nb) (r : N) : x <> y -> (n, x, r) <> (n, y, r).
Proof. intros H E. inversion E. contradiction. Qed.
Lemma ne3r (n : N) (x y : nb) (a b : N) : a <> b -> (n, x, a) <> (n, y, b).
Proof. intros H E. inversion E. contradiction. Qed.

(* ---- frames: what the initialisation steps leave untouched ---- *)
Lemma init_cust_other n k s x K : K <> (fOP, n, x, k) -> gl2 (init_cust NW n k s x) K = gl2 s K.
Proof. intros H. unfold init_cust. destruct x; apply gl2_sl2_other; exact H. Qed.
Lemma init_cust_q n k s x K : gq2 (init_cust NW n k s x) K = gq2 s K.
Proof. unfold init_cust. destruct x; apply gq2_sl2. Qed.
Lemma init_prod_other s n k f n' x i : (n', i) <> (n, k) \/ (f <> fIL /\ f <> fOQFG /\ f <> fOP) ->
  gq2 (init_prod NW n s k) (f, n', x, i) = gq2 s (f, n', x, i) /\ gl2 (init_prod NW n s k) (f, n', x, i) = gl2 s (f, n', x, i).
Proof. intros H. unfold init_prod.
  assert (K : forall g y, (g = fIL \/ g = fOQFG \/ g = fOP) -> (f, n', x, i) <> (g, n, y, k)).
  { intros g y Hg E. inversion E; subst. destruct H as [H|H]; [apply H; reflexivity|]. destruct H as (A & B & D). destruct Hg as [G|[G|G]]; congruence. }
  apply (fold_left_inv (fun a => gq2 a (f, n', x, i) = gq2 s (f, n', x, i) /\ gl2 a (f, n', x, i) = gl2 s (f, n', x, i))).
  - intros a y _ [A1 A2]. rewrite init_cust_q. rewrite init_cust_other by (apply K; tauto). split; assumption.
  - rewrite gq2_sl2, gl2_sl2_other by (apply K; tauto). rewrite gq2_sq2_other by (apply K; tauto). rewrite gl2_sq2. split; reflexivity. Qed.
Lemma init_sup_other s n r p f n' x i : (n', x, i) <> (n, p, r) \/ (f <> fSP /\ f <> fOQ /\ f <> fOO) ->
  gq2 (init_sup NW n r s p) (f, n', x, i) = gq2 s (f, n', x, i) /\ gl2 (init_sup NW n r s p) (f, n', x, i) = gl2 s (f, n', x, i).
Proof. intros H. unfold init_sup.
  assert (K : forall g, (g = fSP \/ g = fOQ \/ g = fOO) -> (f, n', x, i) <> (g, n, p, r)).
  { intros g Hg E. inversion E; subst. destruct H as [H|H]; [apply H; reflexivity|]. destruct H as (A & B & D). destruct Hg as [G|[G|G]]; congruence. }
  rewrite gq2_sq2_other by (apply K; tauto). rewrite !gq2_sl2. rewrite gl2_sq2. rewrite !gl2_sl2_other by (apply K; tauto). split; reflexivity. Qed.
Definition init_sups (n : N) (l : list N) (s : st2) : st2 := fold_left (fun s r => fold_left (init_sup NW n r) (m_sups (n_rc (C n) r)) s) l s.
Lemma init_node2_eq s n : init_node2 NW s n = init_sups n (n_rms (C n)) (fold_left (init_prod NW n) (n_prods (C n)) s).
Proof. reflexivity. Qed.
Lemma init_sups_other s n f n' x i (l : list N) : n' <> n \/ (f <> fSP /\ f <> fOQ /\ f <> fOO) ->
  gq2 (init_sups n l s) (f, n', x, i) = gq2 s (f, n', x, i) /\ gl2 (init_sups n l s) (f, n', x, i) = gl2 s (f, n', x, i).
Proof. intros H. unfold init_sups.
  apply (fold_left_inv (fun a => gq2 a (f, n', x, i) = gq2 s (f, n', x, i) /\ gl2 a (f, n', x, i) = gl2 s (f, n', x, i))); [|split; reflexivity].
  intros a r _ Ha. apply (fold_left_inv (fun a => gq2 a (f, n', x, i) = gq2 s (f, n', x, i) /\ gl2 a (f, n', x, i) = gl2 s (f, n', x, i))); [|exact Ha].
  intros b p _ [B1 B2]. destruct (init_sup_other b n r p f n' x i) as [E1 E2].
  { destruct H as [H|H]; [left; intro E; inversion E; subst; apply H; reflexivity|right; exact H]. }
  rewrite E1, E2. split; assumption. Qed.
Lemma init_prods_other s n f n' x i (l : list N) : n' <> n \/ (f <> fIL /\ f <> fOQFG /\ f <> fOP) ->
  gq2 (fold_left (init_prod NW n) l s) (f, n', x, i) = gq2 s (f, n', x, i) /\ gl2 (fold_left (init_prod NW n) l s) (f, n', x, i) = gl2 s (f, n', x, i).
Proof. intros H.
  apply (fold_left_inv (fun a => gq2 a (f, n', x, i) = gq2 s (f, n', x, i) /\ gl2 a (f, n', x, i) = gl2 s (f, n', x, i))); [|split; reflexivity].
  intros a k _ [A1 A2]. destruct (init_prod_other a n k f n' x i) as [E1 E2].
  { destruct H as [H|H]; [left; intro E; inversion E; subst; apply H; reflexivity|right; exact H]. }
  rewrite E1, E2. split; assumption. Qed.
Lemma init_node_other s m f n x i : n <> m ->
  gq2 (init_node2 NW s m) (f, n, x, i) = gq2 s (f, n, x, i) /\ gl2 (init_node2 NW s m) (f, n, x, i) = gl2 s (f, n, x, i).
Proof. intros H. rewrite init_node2_eq.
  destruct (init_sups_other (fold_left (init_prod NW m) (n_prods (C m)) s) m f n x i (n_rms (C m)) (or_introl H)) as [E1 E2].
  destruct (init_prods_other s m f n x i (n_prods (C m)) (or_introl H)) as [E3 E4]. rewrite E1, E2, E3, E4. split; reflexivity. Qed.

(* ---- what the initialisation of node n establishes ---- *)
Definition Qn2 (n : N) (s : st2) : Prop :=
  (forall k, In k (n_prods (C n)) -> gq2 s (fIL, n, Ext, k) = il02 NW n k /\ forall x, In x (k_custs (PC n k)) -> gl2 s (fOP, n, x, k) = opinit2 x) /\
  (forall r p, In r (n_rms (C n)) -> In p (m_sups (RC n r)) -> gq2 s (fOO, n, p, r) = oo02 NW n /\ gl2 s (fSP, n, p, r) = spinit2 n p).

Lemma init_prod_sets s n k : gq2 (init_prod NW n s k) (fIL, n, Ext, k) = il02 NW n k /\ forall x, In x (k_custs (PC n k)) -> gl2 (init_prod NW n s k) (fOP, n, x, k) = opinit2 x.
Proof. unfold init_prod. split.
  - apply (fold_left_inv (fun a => gq2 a (fIL, n, Ext, k) = il02 NW n k)); [intros a y _ Ha; rewrite init_cust_q; exact Ha|]. rewrite gq2_sl2, gq2_sq2_same. reflexivity.
  - intros x Hx. apply (fold_establish2 nb_eq_dec (init_cust NW n k) (fun x a => gl2 a (fOP, n, x, k) = opinit2 x)); [| |exact Hx].
    + intros a y. unfold init_cust. destruct y; rewrite gl2_sl2_same; reflexivity.
    + intros a y z Hne Hq. rewrite init_cust_other; [exact Hq|]. intro E. inversion E; subst. apply Hne. reflexivity. Qed.
Lemma init_node_sets s n : Qn2 n (init_node2 NW s n).
Proof. rewrite init_node2_eq. set (s2 := fold_left (init_prod NW n) (n_prods (C n)) s). split.
  - intros k Hk.
    assert (A : gq2 s2 (fIL, n, Ext, k) = il02 NW n k /\ forall x, In x (k_custs (PC n k)) -> gl2 s2 (fOP, n, x, k) = opinit2 x).
    { unfold s2. apply (fold_establish2 N.eq_dec (init_prod NW n) (fun k a => gq2 a (fIL, n, Ext, k) = il02 NW n k /\ forall x, In x (k_custs (PC n k)) -> gl2 a (fOP, n, x, k) = opinit2 x)); [| |exact Hk].
      - intros a k'. apply init_prod_sets.
      - intros a k' k'' Hne [Q1 Q2]. split.
        + rewrite (proj1 (init_prod_other a n k'' fIL n Ext k' (or_introl (ne2 n k' k'' Hne)))). exact Q1.
        + intros x Hx. rewrite (proj2 (init_prod_other a n k'' fOP n x k' (or_introl (ne2 n k' k'' Hne)))). apply Q2. exact Hx. }
    destruct A as [A1 A2]. split.
    + rewrite (proj1 (init_sups_other s2 n fIL n Ext k (n_rms (C n)) (or_intror nf_IL))). exact A1.
    + intros x Hx. rewrite (proj2 (init_sups_other s2 n fOP n x k (n_rms (C n)) (or_intror nf_OP))). apply A2. exact Hx.
  - intros r p Hr Hp. unfold init_sups.
    apply (fold_establish2 N.eq_dec (fun s r => fold_left (init_sup NW n r) (m_sups (n_rc (C n) r)) s)
             (fun r a => forall p, In p (m_sups (RC n r)) -> gq2 a (fOO, n, p, r) = oo02 NW n /\ gl2 a (fSP, n, p, r) = spinit2 n p)); [| |exact Hr|exact Hp].
    + intros a r' p' Hp'.
      apply (fold_establish2 nb_eq_dec (init_sup NW n r') (fun p a => gq2 a (fOO, n, p, r') = oo02 NW n /\ gl2 a (fSP, n, p, r') = spinit2 n p)); [| |exact Hp'].
      * intros b q. unfold init_sup. rewrite gq2_sq2_same, gl2_sq2. rewrite gl2_sl2_other by (apply key2_neq_fld; discriminate). rewrite gl2_sl2_same. split; reflexivity.
      * intros b q q' Hne [Q1 Q2].
        rewrite (proj1 (init_sup_other b n r' q' fOO n q r' (or_introl (ne3x n q q' r' Hne)))).
        rewrite (proj2 (init_sup_other b n r' q' fSP n q r' (or_introl (ne3x n q q' r' Hne)))). split; assumption.
    + intros a r' r'' Hne Hq p' Hp'.
      assert (G : forall f, gq2 (fold_left (init_sup NW n r'') (m_sups (n_rc (C n) r'')) a) (f, n, p', r') = gq2 a (f, n, p', r')
                         /\ gl2 (fold_left (init_sup NW n r'') (m_sups (n_rc (C n) r'')) a) (f, n, p', r') = gl2 a (f, n, p', r')).
      { intros f. apply (fold_left_inv (fun b => gq2 b (f, n, p', r') = gq2 a (f, n, p', r') /\ gl2 b (f, n, p', r') = gl2 a (f, n, p', r'))); [|split; reflexivity].
        intros b q _ [B1 B2]. destruct (init_sup_other b n r'' q f n p' r' (or_introl (ne3r n p' q r' r'' Hne))) as [E1 E2]. rewrite E1, E2. split; assumption. }
      rewrite (proj1 (G fOO)), (proj2 (G fSP)). apply Hq. exact Hp'. Qed.
Lemma Qn2_keep s n m : n <> m -> Qn2 n s -> Qn2 n (init_node2 NW s m).
Proof. intros Hne [Q1 Q2]. split.
  - intros k Hk. destruct (Q1 k Hk) as [A1 A2]. split.
    + rewrite (proj1 (init_node_other s m fIL n Ext k Hne)). exact A1.
    + intros x Hx. rewrite (proj2 (init_node_other s m fOP n x k Hne)). apply A2. exact Hx.
  - intros r p Hr Hp. rewrite (proj1 (init_node_other s m fOO n p r Hne)), (proj2 (init_node_other s m fSP n p r Hne)). apply Q2; assumption. Qed.
Lemma init_Qn2 n : In n (nodes2 NW) -> Qn2 n (init_state2 NW).
Proof. intros Hn. unfold init_state2. apply (fold_establish2 N.eq_dec (init_node2 NW) Qn2); [apply init_node_sets|intros; apply Qn2_keep; assumption|exact Hn]. Qed.

(* every rational field other than the inventory level and the on-order quantity starts at 0 *)
Lemma init_zero2 f n x i : f <> fIL -> f <> fOO -> gq2 (init_state2 NW) (f, n, x, i) = 0.
Proof. intros F1 F2. unfold init_state2. apply (fold_left_inv (fun a => gq2 a (f, n, x, i) = 0)); [|apply gq2_empty].
  intros a m _ Ha. rewrite init_node2_eq.
  unfold init_sups. apply (fold_left_inv (fun b => gq2 b (f, n, x, i) = 0)).
  { intros b r _ Hb. apply (fold_left_inv (fun c => gq2 c (f, n, x, i) = 0)); [|exact Hb]. intros c p _ Hc. unfold init_sup.
    rewrite gq2_sq2_other by (apply key2_neq_fld; exact F2). rewrite !gq2_sl2. exact Hc. }
  apply (fold_left_inv (fun b => gq2 b (f, n, x, i) = 0)); [|exact Ha].
  intros b k _ Hb. unfold init_prod.
  apply (fold_left_inv (fun c => gq2 c (f, n, x, i) = 0)); [intros c y _ Hc; rewrite init_cust_q; exact Hc|].
  rewrite gq2_sl2. rewrite gq2_sq2_other by (apply key2_neq_fld; exact F1). exact Hb. Qed.

Theorem BK2_init : BK2 NW (init_state2 NW).
Proof. constructor.
  - intros n c k. rewrite !init_zero2 by discriminate. lra.
  - intros n k Hn Hk. destruct (init_Qn2 n Hn) as [Q1 _]. rewrite (proj1 (Q1 k Hk)). rewrite !init_zero2 by discriminate. lra.
  - intros n k. rewrite !init_zero2 by discriminate. lra.
  - intros n p r (Hn & Hr & Hp). destruct (init_Qn2 n Hn) as [_ Q2]. rewrite (proj1 (Q2 r p Hr Hp)). rewrite !init_zero2 by discriminate. lra. Qed.
Theorem RMB2_init : RMB2 NW (init_state2 NW).
Proof. intros n r. unfold CPsum, ISsum. rewrite init_zero2 by discriminate.
  rewrite !qsumf_all_zero2; [lra| |]; intros y _; rewrite init_zero2 by discriminate; lra. Qed.
Theorem PD2_init : PD2 NW (init_state2 NW).
Proof. intros n k. unfold PIOsum. rewrite init_zero2 by discriminate. rewrite qsumf_all_zero2; [lra|]. intros y _. rewrite init_zero2 by discriminate. lra. Qed.
Theorem PL2_init : PL2 NW (init_state2 NW).
Proof. constructor.
  - intros n p r (Hn & Hr & Hp). destruct (init_Qn2 n Hn) as [_ Q2]. rewrite (proj2 (Q2 r p Hr Hp)). unfold spinit2. rewrite !app_length, !repeat_length. cbn. lia.
  - intros p c k (Hp & Hk & Hc). destruct (init_Qn2 p Hp) as [Q1 _]. rewrite (proj2 (Q1 k Hk) _ Hc). cbn [opinit2]. rewrite app_length, repeat_length. cbn. lia. Qed.
Theorem PC2_init : PC2 NW (init_state2 NW).
Proof. constructor.
  - intros n p r (Hn & Hr & Hp). destruct (init_Qn2 n Hn) as [_ Q2]. rewrite (proj2 (Q2 r _ Hr Hp)). rewrite !init_zero2 by discriminate.
    unfold spinit2, sp02. rewrite !qsum_app, !qsum_repeat. cbn [qsum]. lra.
  - intros n r (Hn & Hr & Hp). destruct (init_Qn2 n Hn) as [_ Q2]. rewrite (proj2 (Q2 r _ Hr Hp)). rewrite !init_zero2 by discriminate.
    unfold spinit2, sp02, io02. rewrite !qsum_app, !qsum_repeat. cbn [qsum]. lra.
  - intros n p r (Hp & Hk & Hc). destruct (init_Qn2 p Hp) as [Q1 _]. rewrite (proj2 (Q1 r Hk) _ Hc). rewrite !init_zero2 by discriminate.
    cbn [opinit2]. unfold io02. rewrite qsum_app, qsum_repeat. cbn [qsum]. lra. Qed.

(* ---------- every end-of-period state of every run ---------- *)
Record ALLB2 (s : st2) : Prop := { aB2_nn : NNB2 s; aB2_bk : BK2 NW s; aB2_rm : RMB2 NW s; aB2_pd : PD2 NW s; aB2_pl : PL2 NW s; aB2_pc : PC2 NW s }.

Lemma ALLB2_init : ALLB2 (init_state2 NW).
Proof. constructor; [apply NNB2_init; exact W|apply BK2_init|apply RMB2_init|apply PD2_init|apply PL2_init|apply PC2_init]. Qed.
Lemma ALLB2_run_actions dis dem err s : (forall n k, 0 <= dem n k) -> ALLB2 s -> ALLB2 (run_actions2 NW dis dem err s).
Proof. intros Hd [A1 A2 A3 A4 A5 A6]. destruct (PLPC2_run_actions NW dis dem err s A5 A6) as [L P].
  constructor; [apply NNB2_run_actions; assumption|apply BK2_run_actions; assumption|apply RMB2_run_actions; assumption|apply PD2_run_actions; assumption|exact L|exact P]. Qed.
Lemma ALLB2_next_period dis s : ALLB2 s -> ALLB2 (next_period2 NW dis s).
Proof. intros [A1 A2 A3 A4 A5 A6].
  constructor; [apply NNB2_next_period; assumption|apply BK2_next_period; assumption|apply RMB2_next_period; assumption|apply PD2_next_period; assumption
               |apply PL2_next_period; assumption|apply PC2_next_period; assumption]. Qed.

Definition demB_ok2 (inputs : inputs2) : Prop := Forall (fun i => forall n k, 0 <= i_dem i n k) inputs.

Lemma ALLB2_run_from inputs : forall s, ALLB2 s -> demB_ok2 inputs -> Forall ALLB2 (run_from2 NW s inputs).
Proof. induction inputs as [|i r IH]; intros s Hs Hin; cbn [run_from2]; [constructor|].
  inversion Hin as [|? ? Hd Hr]; subst.
  assert (He : ALLB2 (run_actions2 NW (i_dis i) (i_dem i) (i_err i) s)) by (apply ALLB2_run_actions; assumption).
  constructor; [exact He|]. apply IH; [|exact Hr]. apply ALLB2_next_period. exact He. Qed.
Theorem ALLB2_run inputs : demB_ok2 inputs -> Forall ALLB2 (run2 NW inputs).
Proof. intros H. unfold run2. apply ALLB2_run_from; [apply ALLB2_init|exact H]. Qed.

(* the part that needs no hypothesis on the demands (pipelines, raw-material balance, pending totals) *)
Record PIP2 (s : st2) : Prop := { p2_rm : RMB2 NW s; p2_pd : PD2 NW s; p2_pl : PL2 NW s; p2_pc : PC2 NW s }.
Lemma PIP2_run_from inputs : forall s, PIP2 s -> Forall PIP2 (run_from2 NW s inputs).
Proof. induction inputs as [|i r IH]; intros s [A3 A4 A5 A6]; cbn [run_from2]; [constructor|].
  destruct (PLPC2_run_actions NW (i_dis i) (i_dem i) (i_err i) s A5 A6) as [L P].
  pose proof (RMB2_run_actions NW (i_dis i) (i_dem i) (i_err i) s W A3) as R. pose proof (PD2_run_actions NW (i_dis i) (i_dem i) (i_err i) s W A4) as D.
  constructor; [constructor; assumption|]. apply IH.
  constructor; [apply RMB2_next_period; assumption|apply PD2_next_period; assumption|apply PL2_next_period; assumption|apply PC2_next_period; assumption]. Qed.
Theorem PIP2_run inputs : Forall PIP2 (run2 NW inputs).
Proof. unfold run2. apply PIP2_run_from. constructor; [apply RMB2_init|apply PD2_init|apply PL2_init|apply PC2_init]. Qed.

(* at the end of a period nothing has been dropped from an order pipeline and no received order is left unserved *)
Definition cleanB2 (e : st2) : Prop :=
  (forall n x k, gq2 e (fLOST, n, x, k) == 0) /\ (forall n c k, cus_edge NW n c k -> gq2 e (fPIO, n, c, k) == 0).

Lemma cleanB2_run_from inputs : forall s, (forall n x k, gq2 s (fLOST, n, x, k) == 0) -> Forall cleanB2 (run_from2 NW s inputs).
Proof. induction inputs as [|i r IH]; intros s HL; cbn [run_from2]; [constructor|].
  set (e := run_actions2 NW (i_dis i) (i_dem i) (i_err i) s).
  assert (L1 : forall n x k, gq2 e (fLOST, n, x, k) == 0).
  { intros n x k. unfold e. rewrite (LF_run_actions2 NW (i_dis i) (i_dem i) (i_err i) s fLOST n x k eq_refl). apply HL. }
  constructor.
  - split; [exact L1|]. intros n c k (Hn & Hk & Hc). unfold e, run_actions2.
    apply ships_phase_pio2; [apply (w_ship NW W n Hn)|exact Hk|exact Hc].
  - apply IH. intros n x k. unfold next_period2. rewrite gq2_norm_eq.
    rewrite (next_period_lost2 NW (i_dis i) W); [apply L1|apply (w_nodup NW W)|intros m Hm; exact Hm|].
    intros n' k' y Hn' Hk' Hy.
    assert (HG : gl2 e (fOP, n', y, k') = gl2 (fold_left (orders_action2 NW (i_dis i) (i_dem i) (i_err i)) (order_visit2 NW) s) (fOP, n', y, k')).
    { unfold e, run_actions2. apply (fold_left_inv (fun a => gl2 a (fOP, n', y, k') = gl2 (fold_left (orders_action2 NW (i_dis i) (i_dem i) (i_err i)) (order_visit2 NW) s) (fOP, n', y, k'))); [|reflexivity].
      intros a m _ Ha. rewrite ships_action_op2. exact Ha. }
    rewrite HG. rewrite (orders_phase_hd2 NW (i_dis i) (i_dem i) (i_err i) W (order_visit2 NW) s (w_ord_in NW W) (w_topo NW W) n' k' y); [reflexivity|apply (w_ord NW W); exact Hn'|exact Hk'|exact Hy]. Qed.
Theorem cleanB2_run inputs : Forall cleanB2 (run2 NW inputs).
Proof. unfold run2. apply cleanB2_run_from. intros n x k. rewrite init_zero2 by discriminate. reflexivity. Qed.
End Init.
