(* Stage-2 simulator invariants (group A), part 3: the well-formedness hypotheses, the initial state, induction over the
   periods (every end-of-period state of every run satisfies NN2 and ND2), the fill rate written by the shipping actions. *)
From SV Require Import Sim.Model Sim.StateLemmas Sim.Inv_base Sim.Inv_node.
From SV Require Import Sim2.State2 Sim2.Model2.
From SV Require Import Sim2.Inv2a_tac Sim2.Inv2a_nn Sim2.Inv2a_node.

(* ---------- well-formedness (Prop level; decidable version in Wfb2.v) ---------- *)
Record prod_ok2 (NW : net2) (n k : N) : Prop := {
  po_pol : pol_ok2 (PC NW n k);                      (* policy parameters / capacity give non-negative order quantities *)
  po_bom : bom_ok (PC NW n k);                       (* every raw material listed once, BOM numbers > 0 *)
  po_cus : NoDup (k_custs (PC NW n k));              (* customers listed once *)
  po_il : match k_init_il (PC NW n k) with Some x => 0 <= x | None => True end;
  po_cio : forall x, In (Nd x) (k_custs (PC NW n k)) -> 0 <= n_init_orders (cfg2 NW x) }.
Record node_ok2 (NW : net2) (n : N) : Prop := {
  no_prods : NoDup (n_prods (cfg2 NW n));
  no_prod : forall k, In k (n_prods (cfg2 NW n)) -> prod_ok2 NW n k;
  no_io : 0 <= n_init_orders (cfg2 NW n);
  no_is : 0 <= n_init_ships (cfg2 NW n) }.
Record wf_net2 (NW : net2) : Prop := {
  wf2_node : forall n, In n (nodes2 NW) -> node_ok2 NW n;
  wf2_ov : forall n, In n (order_visit2 NW) -> In n (nodes2 NW);      (* the two traversals stay inside the node list *)
  wf2_sv : forall n, In n (ship_visit2 NW) -> In n (nodes2 NW) }.

Definition dem_ok2 (inputs : inputs2) : Prop := Forall (fun i => forall n k, 0 <= i_dem i n k) inputs.

(* ---------- initial state ---------- *)
Section Init2.
Variable NW : net2.
Notation C := (cfg2 NW).
Notation PC := (PC NW).

Lemma nonneg_repeat2 v k : 0 <= v -> nonneg_l (repeat v k).
Proof. intros H. induction k; cbn [repeat]; constructor; assumption. Qed.

Lemma NN2_init : (forall n, In n (nodes2 NW) -> node_ok2 NW n) -> NN2 (init_state2 NW).
Proof. intros WF. unfold init_state2. apply fold_left_inv.
  2:{ split; [intros; rewrite gq2_empty; lra|intros; rewrite gl2_empty; constructor]. }
  intros s n Hn H. destruct (WF n Hn) as [_ Hpr Hio His]. unfold init_node2.
  apply fold_left_inv.
  { intros a r _ Ha. apply fold_left_inv; [|exact Ha]. intros b p _ Hb. unfold init_sup.
    apply NNg_sq; [|intros Hf; discriminate]. apply NNg_sl; [|apply nonneg_repeat2; lra]. apply NNg_sl; [exact Hb|].
    apply Forall_app; split; [apply nonneg_repeat2; exact His|]. apply Forall_app; split; [|constructor; [lra|constructor]].
    destruct p; apply nonneg_repeat2; [exact Hio|lra]. }
  apply fold_left_inv; [|exact H]. intros a k Hk Ha. unfold init_prod. destruct (Hpr k Hk) as [_ _ _ _ Hcio].
  apply fold_left_inv.
  { intros b x Hx Hb. unfold init_cust. destruct x as [|x']; apply NNg_sl; try exact Hb; [constructor; [lra|constructor]|].
    apply Forall_app; split; [apply nonneg_repeat2; apply Hcio; exact Hx|constructor; [lra|constructor]]. }
  apply NNg_sl; [|apply nonneg_repeat2; lra]. apply NNg_sq; [exact Ha|intros Hf; discriminate]. Qed.

(* every rational other than the inventory levels and the on-order quantities starts at 0; inventory levels start >= 0 *)
Definition Jinit (s : st2) : Prop :=
  (forall f n x i, f <> fIL -> f <> fOO -> gq2 s (f, n, x, i) = 0) /\ (forall n x i, 0 <= gq2 s (fIL, n, x, i)).
Lemma Jinit_init : (forall n, In n (nodes2 NW) -> node_ok2 NW n) -> Jinit (init_state2 NW).
Proof. intros WF. unfold init_state2. apply fold_left_inv.
  2:{ split; intros; rewrite gq2_empty; [reflexivity|lra]. }
  intros s n Hn H. destruct (WF n Hn) as [_ Hpr _ _]. unfold init_node2.
  apply fold_left_inv.
  { intros a r _ Ha. apply fold_left_inv; [|exact Ha]. intros b p _ [B1 B2]. unfold init_sup. split.
    - intros f m x i F1 F2. rewrite gq2_sq2_other by (intro E; inversion E; subst; contradiction). rewrite !gq2_sl2. apply B1; assumption.
    - intros m x i. rewrite gq2_sq2_other by discriminate. rewrite !gq2_sl2. apply B2. }
  apply fold_left_inv; [|exact H]. intros a k Hk [A1 A2]. unfold init_prod. destruct (Hpr k Hk) as [Hpol _ _ Hil _].
  apply (fold_left_inv Jinit).
  { intros b x _ [B1 B2]. unfold init_cust. destruct x as [|x']; (split; [intros f m y i F1 F2; rewrite gq2_sl2; apply B1; assumption|intros m y i; rewrite gq2_sl2; apply B2]). }
  split.
  - intros f m x i F1 F2. rewrite gq2_sl2. rewrite gq2_sq2_other by (intro E; inversion E; subst; contradiction). apply A1; assumption.
  - intros m x i. rewrite gq2_sl2. kcase2 (fIL, m, x, i) (fIL, n, Ext, k); [|rewrite gq2_sq2_other by assumption; apply A2].
    rewrite gq2_sq2_same. fold (PC n k). destruct (k_init_il (PC n k)); [exact Hil|]. apply rule_nonneg2. exact Hpol. Qed.

Lemma ND2_init : (forall n, In n (nodes2 NW) -> node_ok2 NW n) -> ND2 NW (init_state2 NW).
Proof. intros WF. destruct (Jinit_init WF) as [Z P].
  assert (SZ : forall f n k l, f <> fIL -> f <> fOO -> SF2 f (init_state2 NW) n k l == 0).
  { intros f n k l F1 F2. unfold SF2. apply qsumf_zero. intros c _. rewrite Z by assumption. reflexivity. }
  intros n k. unfold NDk. rewrite (SZ fBO), (SZ fPIO), (SZ fODI) by discriminate. rewrite (Z fPEND), (Z fDMC), (Z fSRV), (Z fDC) by discriminate. specialize (P n Ext k).
  repeat split; try lra. qcases; lra. Qed.
End Init2.

(* ---------- every end-of-period state ---------- *)
Section Run2.
Variable NW : net2.
Notation C := (cfg2 NW).
Notation PC := (PC NW).
Hypothesis WF : wf_net2 NW.

Definition ALL2 (s : st2) : Prop := NN2 s /\ ND2 NW s.

Lemma node_orders_hyp n : node_ok2 NW n ->
  forall k, In k (n_prods (C n)) -> pol_ok2 (PC n k) /\ forall rb, In rb (k_bom (PC n k)) -> 0 <= snd rb.
Proof. intros [_ Hpr _ _] k Hk. destruct (Hpr k Hk) as [Hp [_ Hb] _ _ _]. split; [exact Hp|]. intros rb Hrb. apply Qlt_le_weak, Hb, Hrb. Qed.

Lemma ALL2_orders_action2 dis dem err s n : (forall n k, 0 <= dem n k) -> node_ok2 NW n -> ALL2 s -> ALL2 (orders_action2 NW dis dem err s n).
Proof. intros Hd Hn [HN HD]. split.
  - apply NN2_orders_action2; [exact Hd|apply node_orders_hyp; exact Hn|exact HN].
  - apply ND2_orders_action2; [|exact HD]. intros k Hk. apply (po_cus NW n k). apply (no_prod NW n Hn k Hk). Qed.
Lemma ALL2_ships_action2 dis s n : node_ok2 NW n -> ALL2 s -> ALL2 (ships_action2 NW dis s n).
Proof. intros Hn [HN HD].
  assert (Hb : forall k, In k (n_prods (C n)) -> bom_ok (PC n k)) by (intros k Hk; apply (po_bom NW n k), (no_prod NW n Hn k Hk)).
  split.
  - apply NN2_ships_action2; assumption.
  - apply (ND2_ships_action2 NW dis s n (no_prods NW n Hn)); try assumption.
    intros k Hk. apply (po_cus NW n k), (no_prod NW n Hn k Hk). Qed.
Lemma ALL2_run_actions2 dis dem err s : (forall n k, 0 <= dem n k) -> ALL2 s -> ALL2 (run_actions2 NW dis dem err s).
Proof. intros Hd H. unfold run_actions2.
  apply fold_left_inv; [intros a n Hn Ha; apply ALL2_ships_action2; [apply (wf2_node NW WF), (wf2_sv NW WF), Hn|exact Ha]|].
  apply fold_left_inv; [intros a n Hn Ha; apply ALL2_orders_action2; [exact Hd|apply (wf2_node NW WF), (wf2_ov NW WF), Hn|exact Ha]|exact H]. Qed.
Lemma ALL2_next_period2 dis s : ALL2 s -> ALL2 (next_period2 NW dis s).
Proof. intros [HN HD]. split; [apply NN2_next_period2; exact HN|apply ND2_next_period2; exact HD]. Qed.
Lemma ALL2_init : ALL2 (init_state2 NW).
Proof. split; [apply NN2_init|apply ND2_init]; apply (wf2_node NW WF). Qed.

Lemma ALL2_run_from2 inputs : forall s, ALL2 s -> dem_ok2 inputs -> Forall ALL2 (run_from2 NW s inputs).
Proof. induction inputs as [|i r IH]; intros s Hs Hin; cbn [run_from2]; [constructor|].
  inversion Hin as [|? ? Hd Hr]; subst.
  assert (He : ALL2 (run_actions2 NW (i_dis i) (i_dem i) (i_err i) s)) by (apply ALL2_run_actions2; assumption).
  constructor; [exact He|]. apply IH; [|exact Hr]. apply ALL2_next_period2. exact He. Qed.
Theorem ALL2_run inputs : dem_ok2 inputs -> Forall ALL2 (run2 NW inputs).
Proof. intros H. unfold run2. apply ALL2_run_from2; [apply ALL2_init|exact H]. Qed.

(* ---- consequences in any state satisfying the invariants ---- *)
Lemma SF2_nonneg f s n k l : NN2 s -> nnf f = true -> 0 <= SF2 f s n k l.
Proof. intros H Hf. unfold SF2. apply qsumf_nonneg. intros x _. apply (NNg_q nnf); assumption. Qed.
Theorem demand_met_le_demand2 s n k : ALL2 s -> 0 <= gq2 s (fDMC, n, Ext, k) /\ gq2 s (fDMC, n, Ext, k) <= gq2 s (fDC, n, Ext, k).
Proof. intros [HN HD]. destruct (HD n k) as (_ & E2 & E1 & E3).
  pose proof (SF2_nonneg fBO s n k (custs NW n k) HN eq_refl). pose proof (SF2_nonneg fODI s n k (custs NW n k) HN eq_refl).
  pose proof (SF2_nonneg fPIO s n k (custs NW n k) HN eq_refl). split; [apply (NNg_q nnf); [exact HN|reflexivity]|lra]. Qed.
End Run2.

(* ---------- the fill rate ---------- *)
Lemma fill_rate_range2 dc dmc : 0 <= dmc -> dmc <= dc -> let fr := (if qltb 0 dc then dmc / dc else 1) in 0 <= fr /\ fr <= 1.
Proof. intros H0 H1. cbv zeta. destruct (qltb_spec 0 dc) as [[Hp E]|[Hp E]]; rewrite E; [|split; lra].
  split.
  - unfold Qdiv. apply Qmult_le_0_compat; [exact H0|]. apply Qlt_le_weak, Qinv_lt_0_compat. exact Hp.
  - apply Qle_shift_div_r; [exact Hp|]. lra. Qed.

(* the fill rate on record is cumulative demand met from stock / cumulative demand (1 if there has been no demand) *)
Definition FRok (e : st2) (n k : N) : Prop :=
  gq2 e (fFR, n, Ext, k) = (if qltb 0 (gq2 e (fDC, n, Ext, k)) then gq2 e (fDMC, n, Ext, k) / gq2 e (fDC, n, Ext, k) else 1).

Section Fill2.
Variable (NW : net2) (dis : N -> bool).
Notation C := (cfg2 NW).
Notation PC := (PC NW).

Lemma FRok_same e e' n k : (forall f, gq2 e' (f, n, Ext, k) = gq2 e (f, n, Ext, k)) -> FRok e n k -> FRok e' n k.
Proof. intros H F. unfold FRok in *. rewrite !H. exact F. Qed.

Lemma fill_rate2_FRok s n k : In k (n_prods (C n)) -> FRok (fill_rate2 NW s n) n k.
Proof. intros Hk. unfold fill_rate2. apply (fold_establish2 N.eq_dec (fill_rate_one2 n) (fun k a => FRok a n k)); [| |exact Hk].
  - intros a k0. unfold FRok, fill_rate_one2. rewrite gq2_sq2_same. rewrite !gq2_sq2_other by discriminate. reflexivity.
  - intros a k1 k2 Hne F. apply (FRok_same a); [|exact F]. intros f. unfold fill_rate_one2. apply gq2_sq2_other. intro E. inversion E. congruence. Qed.

(* a shipping action of node m writes rationals of node m only *)
Lemma serve_fold_frame m k key : node_of2 key <> m -> forall l acc,
  gq2 (fst (fold_left (serve_one2 NW dis m k) l acc)) key = gq2 (fst acc) key.
Proof. intros Hne. induction l as [|c r IH]; intros acc; cbn [fold_left]; [reflexivity|]. rewrite IH.
  destruct acc as [s oh]. destruct key as [[[f n'] x] k']. cbn [fst].
  destruct (serve_one2_eff NW dis m k s oh c) as (_ & _ & _ & _ & _ & _ & _ & _ & _ & _ & Fn & _). cbv zeta in Fn.
  apply Fn. intro E. inversion E; subst. apply Hne. reflexivity. Qed.
Lemma ships_action2_frame s m f n x i : n <> m -> gq2 (ships_action2 NW dis s m) (f, n, x, i) = gq2 s (f, n, x, i).
Proof. intros Hne. unfold ships_action2.
  assert (F1 : gq2 (recv_ship2 NW dis s m) (f, n, x, i) = gq2 s (f, n, x, i)).
  { unfold recv_ship2. apply (fold_left_inv (fun a => gq2 a (f, n, x, i) = gq2 s (f, n, x, i))); [|reflexivity].
    intros a r _ Ha. unfold recv_ship_rm. apply (fold_left_inv (fun b => gq2 b (f, n, x, i) = gq2 s (f, n, x, i))); [|exact Ha].
    intros b p _ Hb. unfold recv_ship_one2. gs2. exact Hb. }
  set (s1 := recv_ship2 NW dis s m) in *.
  assert (F2 : gq2 (produce2 NW s1 m) (f, n, x, i) = gq2 s (f, n, x, i)).
  { unfold produce2. rewrite produce_fold_other by (intro E; inversion E; contradiction). exact F1. }
  set (s2 := produce2 NW s1 m) in *.
  unfold fill_rate2. apply (fold_left_inv (fun a => gq2 a (f, n, x, i) = gq2 s (f, n, x, i))).
  { intros a k _ Ha. unfold fill_rate_one2. rewrite gq2_sq2_other by (intro E; inversion E; contradiction). exact Ha. }
  apply (fold_left_inv (fun a => gq2 a (f, n, x, i) = gq2 s (f, n, x, i))); [|exact F2].
  intros a k _ Ha. unfold serve2. rewrite serve_fold_frame by (cbn; exact Hne). cbn [fst].
  rewrite gq2_sq2_other by (intro E; inversion E; contradiction). exact Ha. Qed.

Lemma ships_action2_FRok s n k : In k (n_prods (C n)) -> FRok (ships_action2 NW dis s n) n k.
Proof. intros Hk. unfold ships_action2. apply fill_rate2_FRok. exact Hk. Qed.

Lemma run_actions2_FRok dem err s n k : In n (ship_visit2 NW) -> In k (n_prods (C n)) -> FRok (run_actions2 NW dis dem err s) n k.
Proof. intros Hn Hk. unfold run_actions2.
  apply (fold_establish2 N.eq_dec (ships_action2 NW dis) (fun n a => forall k, In k (n_prods (C n)) -> FRok a n k)); [| |exact Hn|exact Hk].
  - intros a m k0 Hk0. apply ships_action2_FRok. exact Hk0.
  - intros a m1 m2 Hne F k0 Hk0. apply (FRok_same a); [|apply F; exact Hk0]. intros f. apply ships_action2_frame. exact Hne. Qed.
End Fill2.

Theorem FRok_run NW inputs e n k : In e (run2 NW inputs) -> In n (ship_visit2 NW) -> In k (n_prods (cfg2 NW n)) -> FRok e n k.
Proof. unfold run2. generalize (init_state2 NW). induction inputs as [|i r IH]; intros s He Hn Hk; cbn [run_from2] in He; [destruct He|].
  destruct He as [E|He]; [subst e; apply run_actions2_FRok; assumption|]. apply (IH _ He Hn Hk). Qed.
